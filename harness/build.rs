// Links the BLAS/LAPACK symbols needed by clarabel's `sdp` feature against the OpenBLAS
// that ships inside scipy's wheel in the tooling venv (offline; nothing else is available).
use std::path::Path;
fn main() {
    let dir = "/opt/veriftools/pyvenv/lib/python3.11/site-packages/scipy.libs";
    println!("cargo:rerun-if-changed=build.rs");
    println!("cargo:rustc-check-cfg=cfg(blas_shim)");
    if let Ok(rd) = std::fs::read_dir(dir) {
        for e in rd.flatten() {
            let name = e.file_name().to_string_lossy().to_string();
            if name.starts_with("libscipy_openblas") && name.ends_with(".so") {
                let p = Path::new(dir).join(&name);
                println!("cargo:rustc-link-arg={}", p.display());
                println!("cargo:rustc-link-arg=-Wl,-rpath,{}", dir);
                println!("cargo:rustc-cfg=blas_shim");
                return;
            }
        }
    }
}
