//! C16: CSC operations vs. the Coq model (Csc/Model.v, checkers in Csc/Check.v).
//! Exactness domain: i64 for the Num-generic operations, f64 holding small integers for
//! the FloatT ones; every comparison is exact.
use crate::common::*;
use clarabel::algebra::*;
use clarabel::verif_hooks as vh;
use serde_json::{json, Value};

#[derive(Clone, Debug)]
pub struct RawI {
    pub m: usize,
    pub n: usize,
    pub colptr: Vec<usize>,
    pub rowval: Vec<usize>,
    pub nzval: Vec<i64>,
}
impl RawI {
    pub fn json(&self) -> Value {
        json!({"m": self.m, "n": self.n, "colptr": self.colptr, "rowval": self.rowval, "nzval": self.nzval})
    }
    pub fn from_json(v: &Value) -> Self {
        RawI {
            m: v["m"].as_u64().unwrap() as usize,
            n: v["n"].as_u64().unwrap() as usize,
            colptr: usize_vec(&v["colptr"]),
            rowval: usize_vec(&v["rowval"]),
            nzval: i64_vec(&v["nzval"]),
        }
    }
    pub fn coq(&self) -> String {
        format!("(R {} {} {} {} {})", cn(self.m), cn(self.n), cnlist(&self.colptr), cnlist(&self.rowval), czlist(&self.nzval))
    }
    pub fn csc_i(&self) -> CscMatrix<i64> {
        CscMatrix { m: self.m, n: self.n, colptr: self.colptr.clone(), rowval: self.rowval.clone(), nzval: self.nzval.clone() }
    }
    pub fn csc_f(&self) -> CscMatrix<f64> {
        CscMatrix { m: self.m, n: self.n, colptr: self.colptr.clone(), rowval: self.rowval.clone(), nzval: self.nzval.iter().map(|x| *x as f64).collect() }
    }
    pub fn of_i(a: &CscMatrix<i64>) -> Self {
        RawI { m: a.m, n: a.n, colptr: a.colptr.clone(), rowval: a.rowval.clone(), nzval: a.nzval.clone() }
    }
    /// None if some value is not an exactly representable integer
    pub fn of_f(a: &CscMatrix<f64>) -> Option<Self> {
        Some(RawI { m: a.m, n: a.n, colptr: a.colptr.clone(), rowval: a.rowval.clone(), nzval: f2i_vec(&a.nzval)? })
    }
    /// dense grid with None = not stored
    pub fn from_grid(g: &[Vec<Option<i64>>], m: usize, n: usize) -> Self {
        let mut colptr = vec![0];
        let mut rowval = vec![];
        let mut nzval = vec![];
        for j in 0..n {
            for i in 0..m {
                if let Some(v) = g[i][j] {
                    rowval.push(i);
                    nzval.push(v);
                }
            }
            colptr.push(rowval.len());
        }
        RawI { m, n, colptr, rowval, nzval }
    }
    pub fn dense(&self) -> Vec<Vec<i64>> {
        let mut d = vec![vec![0i64; self.n]; self.m];
        for j in 0..self.n {
            for k in self.colptr[j]..self.colptr[j + 1] {
                d[self.rowval[k]][j] += self.nzval[k];
            }
        }
        d
    }
}

fn out_raw(o: Option<Option<RawI>>) -> String {
    // outer None = panic; inner None = non-integer value (reported as an error code 99)
    match o {
        None => "Panicked".into(),
        Some(None) => "(Errored 99%N)".into(),
        Some(Some(r)) => format!("(Out {})", r.coq()),
    }
}
fn test_vec(n: usize, salt: i64) -> Vec<i64> {
    (0..n).map(|i| ((i as i64 * 7 + salt * 3) % 5) - 2 + if (i as i64 + salt) % 3 == 0 { 3 } else { 0 }).collect()
}
fn fv(v: &[i64]) -> Vec<f64> { v.iter().map(|x| *x as f64).collect() }

// ---- per-branch hit counters for the (a, b) specialisations of gemv / gemv_T / symv ----
thread_local! {
    static BRANCH: std::cell::RefCell<std::collections::BTreeMap<String, usize>> = Default::default();
}
fn coef_class(c: f64) -> &'static str {
    // the tests the code makes, in its order: == 0, == 1, == -1
    if c == 0.0 { if c.is_sign_negative() { "negzero" } else { "zero" } } else if c == 1.0 { "one" } else if c == -1.0 { "minusone" } else { "general" }
}
fn note_branch(kernel: &str, a: f64, b: f64) {
    let key = format!("branch_{}_a={}_b={}", kernel, coef_class(a), coef_class(b));
    BRANCH.with(|m| *m.borrow_mut().entry(key).or_insert(0) += 1);
}
fn gemv_n(af: &CscMatrix<f64>, y: &mut [f64], x: &[f64], a: f64, b: f64) { note_branch("gemvN", a, b); vh::csc_gemv(af, y, x, a, b); }
fn gemv_t(af: &CscMatrix<f64>, y: &mut [f64], x: &[f64], a: f64, b: f64) { note_branch("gemvT", a, b); vh::csc_gemv_t(af, y, x, a, b); }
fn symv_u(af: &CscMatrix<f64>, y: &mut [f64], x: &[f64], a: f64, b: f64) { note_branch("symv", a, b); vh::csc_symv(af, y, x, a, b); }
/// every (class of a) x (class of b) combination of the integer-valued stream
const AB16: [(i64, i64); 16] = [
    (0, 0), (0, 1), (0, -1), (0, 3), (1, 0), (1, 1), (1, -1), (1, 2),
    (-1, 0), (-1, 1), (-1, -1), (-1, -2), (3, 0), (2, 1), (-2, -1), (3, 2),
];

// f64 <-> JSON as bit patterns (NaN / infinities / -0 survive a replay)
fn fbits(x: f64) -> String { format!("{:016x}", x.to_bits()) }
fn fbits_vec(v: &[f64]) -> Value { json!(v.iter().map(|x| fbits(*x)).collect::<Vec<_>>()) }
fn unbits(v: &Value) -> f64 { f64::from_bits(u64::from_str_radix(v.as_str().unwrap(), 16).unwrap()) }
fn unbits_vec(v: &Value) -> Vec<f64> { v.as_array().unwrap().iter().map(unbits).collect() }

/// a matrix with arbitrary binary64 values
#[derive(Clone, Debug)]
pub struct RawF { pub m: usize, pub n: usize, pub colptr: Vec<usize>, pub rowval: Vec<usize>, pub nzval: Vec<f64> }
impl RawF {
    pub fn json(&self) -> Value { json!({"m": self.m, "n": self.n, "colptr": self.colptr, "rowval": self.rowval, "nzval": fbits_vec(&self.nzval)}) }
    pub fn from_json(v: &Value) -> Self {
        RawF { m: v["m"].as_u64().unwrap() as usize, n: v["n"].as_u64().unwrap() as usize, colptr: usize_vec(&v["colptr"]), rowval: usize_vec(&v["rowval"]), nzval: unbits_vec(&v["nzval"]) }
    }
    pub fn coq(&self) -> String { format!("(RF {} {} {} {} {})", cn(self.m), cn(self.n), cnlist(&self.colptr), cnlist(&self.rowval), cfllist(&self.nzval)) }
    pub fn csc(&self) -> CscMatrix<f64> { CscMatrix { m: self.m, n: self.n, colptr: self.colptr.clone(), rowval: self.rowval.clone(), nzval: self.nzval.clone() } }
    pub fn is_triu_square(&self) -> bool {
        self.m == self.n && (0..self.n).all(|j| (self.colptr[j]..self.colptr[j + 1]).all(|p| self.rowval[p] <= j))
    }
}
/// binary64-level products: the three kernels on (A, x, y, a, b), compared bit for bit
/// `general = false`: inputs whose partial sums are all exactly representable, so that every
/// summation order / association gives the same bits: the bitwise comparison (`c_*_F`) is
/// binding.  `general = true`: arbitrary finite floats: `c_*_G` is binding only up to
/// 2^-45 relative to the sum of absolute products (exact dyadic evaluation of the dense
/// meaning), bitwise identity with the transcribed order is reported as information.
pub fn fgemv_case(a: &RawF, x_n: &[f64], y_m: &[f64], x_m: &[f64], y_n: &[f64], ca: f64, cb: f64, general: bool) -> String {
    let sfx = if general { "G" } else { "F" };
    let af = a.csc();
    let mut parts = vec![];
    let r = guarded(|| { let mut yy = y_m.to_vec(); gemv_n(&af, &mut yy, x_n, ca, cb); yy });
    parts.push(match r { Some(yy) => format!("c_gemv_{} A {} {} {} {} {}", sfx, cfllist(x_n), cfllist(y_m), cfl(ca), cfl(cb), cfllist(&yy)), None => "1%N".into() });
    let r = guarded(|| { let mut yy = y_n.to_vec(); gemv_t(&af, &mut yy, x_m, ca, cb); yy });
    parts.push(match r { Some(yy) => format!("c_gemv_T_{} A {} {} {} {} {}", sfx, cfllist(x_m), cfllist(y_n), cfl(ca), cfl(cb), cfllist(&yy)), None => "1%N".into() });
    // symv has no a == 0 early return: with non-finite values in x / A (generated only for
    // a == 0) its result is NaN today but a harmless early return would change that, so the
    // case is not part of the tie
    let nonfinite_in = x_n.iter().chain(a.nzval.iter()).any(|v| !v.is_finite());
    if a.is_triu_square() && !nonfinite_in {
        let r = guarded(|| { let mut yy = y_n.to_vec(); symv_u(&af, &mut yy, x_n, ca, cb); yy });
        parts.push(match r { Some(yy) => format!("c_symv_{} A {} {} {} {} {}", sfx, cfllist(x_n), cfllist(y_n), cfl(ca), cfl(cb), cfllist(&yy)), None => "1%N".into() });
    }
    format!("(let A := {} in maxl [{}])", a.coq(), parts.join("; "))
}
fn fgemv_json(a: &RawF, x_n: &[f64], y_m: &[f64], x_m: &[f64], y_n: &[f64], ca: f64, cb: f64, general: bool) -> Value {
    json!({"A": a.json(), "x_n": fbits_vec(x_n), "y_m": fbits_vec(y_m), "x_m": fbits_vec(x_m), "y_n": fbits_vec(y_n), "a": fbits(ca), "b": fbits(cb), "general": general})
}
fn dims_ok(a: &RawI) -> bool {
    a.rowval.len() == a.nzval.len() && a.colptr.len() == a.n + 1 && a.colptr[0] == 0
        && a.colptr[a.n] == a.rowval.len() && a.colptr.windows(2).all(|w| w[0] <= w[1])
}
fn iv_or_bad(v: &[f64]) -> String {
    match f2i_vec(v) { Some(w) => czlist(&w), None => "[424242]%Z".into() }
}

/// All single-matrix operations on `a`, as one Gallina expression (max of the codes).
pub fn bundle(a: &RawI, salt: usize) -> String {
    let mut parts: Vec<String> = vec![];
    let ai = a.csc_i();
    let af = a.csc_f();
    let (m, n) = (a.m, a.n);
    let s = salt as i64;
    // check_format on a canonical matrix
    let code = fmt_code(ai.check_format());
    parts.push(format!("c_check_format A {}", cn(code)));
    // transpose
    let t = guarded(|| { let t: CscMatrix<i64> = ai.t().into(); t });
    parts.push(match t { Some(t) => format!("c_transpose A {}", RawI::of_i(&t).coq()), None => "1%N".into() });
    // dropzeros
    let d = guarded(|| { let mut d = ai.clone(); d.dropzeros(); d });
    parts.push(match d { Some(d) => format!("c_dropzeros A {}", RawI::of_i(&d).coq()), None => "1%N".into() });
    // is_triu
    parts.push(format!("c_is_triu A {}", ai.is_triu()));
    // from dense rows
    {
        let dn = a.dense();
        if m > 0 {
            let r = guarded(|| CscMatrix::<i64>::from(dn.iter().map(|r| r.iter())));
            parts.push(match r {
                Some(r) => format!("c_from_rows {} {}", clist(&dn, |r| czlist(r)), RawI::of_i(&r).coq()),
                None => "1%N".into(),
            });
        }
    }
    // to_triu (panics unless square)
    let tu = guarded(|| ai.to_triu());
    parts.push(format!("c_to_triu A {}", out_raw(tu.as_ref().map(|t| Some(RawI::of_i(t))))));
    // select_rows, two masks
    for k in 0..2 {
        let keep: Vec<bool> = (0..m).map(|i| ((salt >> ((i + 3 * k) % 16)) & 1 == 1) ^ (k == 1 && i % 2 == 0)).collect();
        let r = guarded(|| ai.select_rows(&keep));
        parts.push(format!("c_select_rows A {} {}", cblist(&keep), out_raw(r.map(|t| Some(RawI::of_i(&t))))));
    }
    // select_rows keeping every row and keeping none
    for keep in [vec![true; m], vec![false; m]] {
        let r = guarded(|| ai.select_rows(&keep));
        parts.push(format!("c_select_rows A {} {}", cblist(&keep), out_raw(r.map(|t| Some(RawI::of_i(&t))))));
    }
    // get_entry everywhere
    // (on large matrices: about 40 positions spread over the grid)
    let gstep = if m * n > 100 { (m * n / 40) | 1 } else { 1 };
    for i in 0..m {
        for j in 0..n {
            if (i * n + j) % gstep != 0 { continue; }
            let g = guarded(|| ai.get_entry((i, j)));
            let o = match g { None => "Panicked".to_string(), Some(None) => "(Out None)".into(), Some(Some(v)) => format!("(Out (Some {}))", cz(v)) };
            parts.push(format!("c_get_entry A {} {} {}", cn(i), cn(j), o));
        }
    }
    // set_entry at a rotating position, with a zero and a nonzero value
    if m > 0 && n > 0 {
        for (k, v) in [(0usize, 0i64), (1, 7), (2, -4)] {
            let i = (salt + k) % m;
            let j = (salt / 2 + 2 * k) % n;
            let r = guarded(|| { let mut b = ai.clone(); b.set_entry((i, j), v); b });
            parts.push(format!("c_set_entry A {} {} {} {}", cn(i), cn(j), cz(v), out_raw(r.map(|t| Some(RawI::of_i(&t))))));
        }
    }
    // set_entry on the first and last absent positions (insertion; a zero value must not be
    // inserted) and on the first and last stored positions (overwrite, also with zero)
    {
        let mut absent: Vec<(usize, usize)> = vec![];
        let mut present: Vec<(usize, usize)> = vec![];
        for j in 0..n {
            for i in 0..m {
                if ai.get_entry((i, j)).is_some() { present.push((i, j)); } else { absent.push((i, j)); }
            }
        }
        let mut picks: Vec<((usize, usize), i64)> = vec![];
        if let Some(&p) = absent.first() { picks.push((p, 5)); picks.push((p, 0)); }
        if let Some(&p) = absent.last() { picks.push((p, -3)); }
        if absent.len() > 2 { picks.push((absent[(salt / 3) % absent.len()], 6)); }
        if let Some(&p) = present.first() { picks.push((p, 0)); picks.push((p, 9)); }
        if let Some(&p) = present.last() { picks.push((p, -8)); }
        for ((i, j), v) in picks {
            let r = guarded(|| { let mut b = ai.clone(); b.set_entry((i, j), v); b });
            parts.push(format!("c_set_entry A {} {} {} {}", cn(i), cn(j), cz(v), out_raw(r.map(|t| Some(RawI::of_i(&t))))));
        }
    }
    // index_to_coord for every stored index and one past the end
    let istep = if ai.nnz() > 100 { ai.nnz() / 30 } else { 1 };
    for idx in 0..=ai.nnz() {
        if idx % istep != 0 && idx + 2 <= ai.nnz() { continue; }
        let r = guarded(|| ai.index_to_coord(idx));
        let o = match r { None => "Panicked".to_string(), Some((i, j)) => format!("(Out ({}, {})%N)", i, j) };
        parts.push(format!("c_index_to_coord A {} {}", cn(idx), o));
    }
    // value operations (f64, exact)
    let c = [3i64, -2, 0, 5][salt % 4];
    let r = guarded(|| { let mut b = af.clone(); b.scale(c as f64); b });
    parts.push(match r.and_then(|b| RawI::of_f(&b)) { Some(b) => format!("c_scale A {} {}", cz(c), b.coq()), None => "1%N".into() });
    let r = guarded(|| { let mut b = af.clone(); b.negate(); b });
    parts.push(match r.and_then(|b| RawI::of_f(&b)) { Some(b) => format!("c_negate A {}", b.coq()), None => "1%N".into() });
    let l = test_vec(m, s + 1);
    let rr = test_vec(n, s + 2);
    let r = guarded(|| { let mut b = af.clone(); b.lscale(&fv(&l)); b });
    parts.push(match r.and_then(|b| RawI::of_f(&b)) { Some(b) => format!("c_lscale A {} {}", czlist(&l), b.coq()), None => "1%N".into() });
    let r = guarded(|| { let mut b = af.clone(); b.rscale(&fv(&rr)); b });
    parts.push(match r.and_then(|b| RawI::of_f(&b)) { Some(b) => format!("c_rscale A {} {}", czlist(&rr), b.coq()), None => "1%N".into() });
    let r = guarded(|| { let mut b = af.clone(); b.lrscale(&fv(&l), &fv(&rr)); b });
    parts.push(match r.and_then(|b| RawI::of_f(&b)) { Some(b) => format!("c_lrscale A {} {} {}", czlist(&l), czlist(&rr), b.coq()), None => "1%N".into() });
    // products
    let abs = AB16;
    for k in 0..2 {
        let (ca, cb) = abs[(salt + 7 * k) % abs.len()];
        let x = test_vec(n, s + 3 + k as i64);
        let y = test_vec(m, s + 4 + k as i64);
        let r = guarded(|| { let mut yy = fv(&y); gemv_n(&af, &mut yy, &fv(&x), ca as f64, cb as f64); yy });
        parts.push(match r { Some(yy) => format!("c_gemv A {} {} {} {} {}", czlist(&x), czlist(&y), cz(ca), cz(cb), iv_or_bad(&yy)), None => "1%N".into() });
        let xt = test_vec(m, s + 5 + k as i64);
        let yt = test_vec(n, s + 6 + k as i64);
        let r = guarded(|| { let mut yy = fv(&yt); gemv_t(&af, &mut yy, &fv(&xt), ca as f64, cb as f64); yy });
        parts.push(match r { Some(yy) => format!("c_gemv_T A {} {} {} {} {}", czlist(&xt), czlist(&yt), cz(ca), cz(cb), iv_or_bad(&yy)), None => "1%N".into() });
    }
    // sums and norms
    let r = guarded(|| { let mut v = vec![0.0; n]; af.col_sums(&mut v); v });
    parts.push(match r { Some(v) => format!("c_col_sums A {}", iv_or_bad(&v)), None => "1%N".into() });
    let r = guarded(|| { let mut v = vec![0.0; m]; af.row_sums(&mut v); v });
    parts.push(match r { Some(v) => format!("c_row_sums A {}", iv_or_bad(&v)), None => "1%N".into() });
    let r = guarded(|| { let mut v = vec![9.0; n]; af.col_norms(&mut v); v });
    parts.push(match r { Some(v) => format!("c_col_norms A {}", iv_or_bad(&v)), None => "1%N".into() });
    let r = guarded(|| { let mut v = vec![9.0; m]; af.row_norms(&mut v); v });
    parts.push(match r { Some(v) => format!("c_row_norms A {}", iv_or_bad(&v)), None => "1%N".into() });
    // the *_no_reset variants from a non-negative start vector
    let s_n: Vec<i64> = test_vec(n, s + 11).iter().map(|x| x.abs()).collect();
    let s_m: Vec<i64> = test_vec(m, s + 12).iter().map(|x| x.abs()).collect();
    let r = guarded(|| { let mut v = fv(&s_n); af.col_norms_no_reset(&mut v); v });
    parts.push(match r { Some(v) => format!("c_col_norms_from A {} {}", czlist(&s_n), iv_or_bad(&v)), None => "1%N".into() });
    let r = guarded(|| { let mut v = fv(&s_m); af.row_norms_no_reset(&mut v); v });
    parts.push(match r { Some(v) => format!("c_row_norms_from A {} {}", czlist(&s_m), iv_or_bad(&v)), None => "1%N".into() });
    // square-only: symmetric products on the upper triangle, quad_form on A itself too
    if m == n {
        if let Some(tu) = tu {
            let tf = RawI::of_i(&tu).csc_f();
            let tcoq = RawI::of_i(&tu).coq();
            let (ca, cb) = abs[(salt + 1) % abs.len()];
            let x = test_vec(n, s + 7);
            let y = test_vec(n, s + 8);
            let r = guarded(|| { let mut yy = fv(&y); symv_u(&tf, &mut yy, &fv(&x), ca as f64, cb as f64); yy });
            parts.push(match r { Some(yy) => format!("c_symv {} {} {} {} {} {}", tcoq, czlist(&x), czlist(&y), cz(ca), cz(cb), iv_or_bad(&yy)), None => "1%N".into() });
            let r = guarded(|| tf.quad_form(&fv(&y), &fv(&x)));
            parts.push(match r.and_then(f2i) { Some(q) => format!("c_quad_form {} {} {} (Out {})", tcoq, czlist(&y), czlist(&x), cz(q)), None => "1%N".into() });
            // to_triu is idempotent
            let t2 = guarded(|| tu.to_triu());
            parts.push(match t2 { Some(t2) => format!("c_triu_idem {} {}", tcoq, RawI::of_i(&t2).coq()), None => "1%N".into() });
            // the full symmetric matrix built from the upper triangle: its to_triu gives the
            // triangle back, and gemv on it is symv on the triangle
            {
                let ud = RawI::of_i(&tu).dense();
                let sd: Vec<Vec<i64>> = (0..n).map(|i| (0..n).map(|j| if i <= j { ud[i][j] } else { ud[j][i] }).collect()).collect();
                if n > 0 {
                    let sm = guarded(|| CscMatrix::<i64>::from(sd.iter().map(|r| r.iter())));
                    if let Some(sm) = sm {
                        let scoq = RawI::of_i(&sm).coq();
                        let ts = guarded(|| sm.to_triu());
                        parts.push(format!("c_sym_roundtrip {} {} {}", tcoq, scoq, out_raw(ts.map(|t| Some(RawI::of_i(&t))))));
                        // Rust symv on the triangle, checked against the model's gemv on the full matrix
                        let r = guarded(|| { let mut yy = fv(&y); symv_u(&tf, &mut yy, &fv(&x), ca as f64, cb as f64); yy });
                        parts.push(match r { Some(yy) => format!("c_gemv {} {} {} {} {} {}", scoq, czlist(&x), czlist(&y), cz(ca), cz(cb), iv_or_bad(&yy)), None => "1%N".into() });
                    } else { parts.push("1%N".into()); }
                }
            }
            // the missing-diagonal count / fill pipeline and the diagonal counters
            let r = guarded(|| vh::c16::add_missing_diag(&tf).0);
            parts.push(format!("c_add_missing_diag {} {}", tcoq, match r { None => "Panicked".to_string(), Some(k) => out_raw(Some(RawI::of_f(&k))) }));
            let r = guarded(|| (vh::c16::count_diagonal_entries(&tf, true), vh::c16::count_diagonal_entries(&tf, false)));
            parts.push(match r { Some((u, l)) => format!("c_count_diag {} {} {}", tcoq, cn(u), cn(l)), None => "1%N".into() });
            let r = guarded(|| { let mut v = vec![9.0; n]; tf.col_norms_sym(&mut v); v });
            parts.push(match r { Some(v) => format!("c_col_norms_sym {} {}", tcoq, iv_or_bad(&v)), None => "1%N".into() });
            let r = guarded(|| { let mut v = fv(&s_n); tf.col_norms_sym_no_reset(&mut v); v });
            parts.push(match r { Some(v) => format!("c_col_norms_sym_from {} {} {}", tcoq, czlist(&s_n), iv_or_bad(&v)), None => "1%N".into() });
        }
        let x = test_vec(n, s + 9);
        let y = test_vec(n, s + 10);
        let r = guarded(|| af.quad_form(&fv(&y), &fv(&x)));
        let o = match r { None => "Panicked".to_string(), Some(q) => match f2i(q) { Some(q) => format!("(Out {})", cz(q)), None => "(Errored 99%N)".into() } };
        parts.push(format!("c_quad_form A {} {} {}", czlist(&y), czlist(&x), o));
    }
    format!("(let A := {} in maxl [{}])", a.coq(), parts.join("; "))
}

pub fn fmt_code(r: Result<(), SparseFormatError>) -> usize {
    match r {
        Ok(()) => 0,
        Err(SparseFormatError::IncompatibleDimension) => 1,
        Err(SparseFormatError::BadColptr) => 2,
        Err(SparseFormatError::BadRowval) => 3,
        Err(_) => 9,
    }
}

fn cat_out(r: Option<Result<CscMatrix<f64>, MatrixConcatenationError>>) -> String {
    match r {
        None => "Panicked".into(),
        Some(Err(_)) => "(Errored 1%N)".into(),
        Some(Ok(c)) => out_raw(Some(RawI::of_f(&c))),
    }
}

/// Concatenations of the given blocks.
pub fn concat_case(ms: &[RawI], salt: usize) -> String {
    let fs: Vec<CscMatrix<f64>> = ms.iter().map(|r| r.csc_f()).collect();
    let mut parts = vec![];
    let (a, b) = (&fs[0], &fs[1 % fs.len()]);
    let (ac, bc) = (ms[0].coq(), ms[1 % ms.len()].coq());
    parts.push(format!("c_hcat {} {} {}", ac, bc, cat_out(guarded(|| CscMatrix::hcat(a, b)))));
    parts.push(format!("c_vcat {} {} {}", ac, bc, cat_out(guarded(|| CscMatrix::vcat(a, b)))));
    let refs: Vec<&CscMatrix<f64>> = fs.iter().collect();
    parts.push(format!("c_blockdiag {} {}", clist(ms, |r| r.coq()), cat_out(guarded(|| CscMatrix::blockdiag(&refs)))));
    // hvcat: arrange the blocks in rows of width w
    let w = 1 + salt % 2.min(fs.len());
    let rows: Vec<Vec<&CscMatrix<f64>>> = refs.chunks(w.max(1)).map(|c| c.to_vec()).collect();
    let rowrefs: Vec<&[&CscMatrix<f64>]> = rows.iter().map(|r| r.as_slice()).collect();
    let msrows: Vec<Vec<&RawI>> = ms.iter().collect::<Vec<_>>().chunks(w.max(1)).map(|c| c.to_vec()).collect();
    parts.push(format!(
        "c_hvcat {} {}",
        clist(&msrows, |r| clist(r, |x| x.coq())),
        cat_out(guarded(|| CscMatrix::hvcat(&rowrefs)))
    ));
    format!("(maxl [{}])", parts.join("; "))
}

/// General block layouts: hvcat of a grid of blocks given row-major (any number of block rows
/// and columns, possibly ragged or shape-inconsistent) and blockdiag of all its blocks.
pub fn grid_case(rows: &[Vec<RawI>]) -> String {
    let fs: Vec<Vec<CscMatrix<f64>>> = rows.iter().map(|r| r.iter().map(|b| b.csc_f()).collect()).collect();
    let refs: Vec<Vec<&CscMatrix<f64>>> = fs.iter().map(|r| r.iter().collect()).collect();
    let rowrefs: Vec<&[&CscMatrix<f64>]> = refs.iter().map(|r| r.as_slice()).collect();
    let mut parts = vec![];
    parts.push(format!(
        "c_hvcat {} {}",
        clist(rows, |r| clist(r, |x| x.coq())),
        cat_out(guarded(|| CscMatrix::hvcat(&rowrefs)))
    ));
    let flat: Vec<&CscMatrix<f64>> = refs.iter().flat_map(|r| r.iter().copied()).collect();
    let flat_raw: Vec<&RawI> = rows.iter().flat_map(|r| r.iter()).collect();
    parts.push(format!("c_blockdiag {} {}", clist(&flat_raw, |r| r.coq()), cat_out(guarded(|| CscMatrix::blockdiag(&flat)))));
    format!("(maxl [{}])", parts.join("; "))
}
fn grid_json(rows: &[Vec<RawI>]) -> Value {
    json!({"rows": rows.iter().map(|r| r.iter().map(|b| b.json()).collect::<Vec<_>>()).collect::<Vec<_>>()})
}

pub fn triplet_case(m: usize, n: usize, i: &[usize], j: &[usize], v: &[i64]) -> String {
    let r = guarded(|| CscMatrix::<i64>::new_from_triplets(m, n, i.to_vec(), j.to_vec(), v.to_vec()));
    match r {
        Some(a) => format!("(c_triplets {} {} {} {} {} {})", cn(m), cn(n), cnlist(i), cnlist(j), czlist(v), RawI::of_i(&a).coq()),
        None => "1%N".into(),
    }
}

/// canonicalize / check_format on an arbitrary raw encoding (possibly malformed)
pub fn raw_case(a: &RawI) -> String {
    let ai = a.csc_i();
    let mut parts = vec![];
    match guarded(|| ai.check_format()) {
        Some(r) => parts.push(format!("c_check_format A {}", cn(fmt_code(r)))),
        None => parts.push("1%N".into()),
    }
    // canonicalize only makes sense if row indices are usable as they are; the Rust code does
    // not look at them beyond sorting, so any raw goes
    match guarded(|| { let mut b = ai.clone(); let r = b.canonicalize(); (r, b) }) {
        Some((r, b)) => parts.push(format!("c_canonicalize A {} {}", cn(fmt_code(r)), RawI::of_i(&b).coq())),
        None => parts.push("1%N".into()),
    }
    if dims_ok(a) {
        match guarded(|| ai.is_triu()) {
            Some(b) => parts.push(format!("c_is_triu A {}", b)),
            None => parts.push("1%N".into()),
        }
        let istep = if a.rowval.len() > 100 { a.rowval.len() / 30 } else { 1 };
        for idx in 0..=a.rowval.len() {
            if idx % istep != 0 && idx + 2 <= a.rowval.len() { continue; }
            let r = guarded(|| ai.index_to_coord(idx));
            let o = match r { None => "Panicked".to_string(), Some((i, j)) => format!("(Out ({}, {})%N)", i, j) };
            parts.push(format!("c_raw_index_to_coord A {} {}", cn(idx), o));
        }
        let af = a.csc_f();
        let r = guarded(|| (vh::c16::count_diagonal_entries(&af, true), vh::c16::count_diagonal_entries(&af, false)));
        parts.push(match r { Some((u, l)) => format!("c_count_diag A {} {}", cn(u), cn(l)), None => "1%N".into() });
    }
    format!("(let A := {} in maxl [{}])", a.coq(), parts.join("; "))
}

// ---------------- generators ----------------
fn grid_from_code(mut code: u64, m: usize, n: usize, vals: &[Option<i64>]) -> Vec<Vec<Option<i64>>> {
    let mut g = vec![vec![None; n]; m];
    for i in 0..m {
        for j in 0..n {
            g[i][j] = vals[(code % vals.len() as u64) as usize];
            code /= vals.len() as u64;
        }
    }
    g
}
fn random_raw(rng: &mut Rng, m: usize, n: usize, dens: usize, stored_zero: bool) -> RawI {
    let mut g = vec![vec![None; n]; m];
    for i in 0..m {
        for j in 0..n {
            if rng.chance(dens, 100) {
                let v = rng.range(-4, 4);
                if v != 0 || stored_zero { g[i][j] = Some(v); }
            }
        }
    }
    RawI::from_grid(&g, m, n)
}

/// Large canonical matrix: the columns listed in `long` hold 33..=100 entries (capped by m),
/// the others 0..=3; small integer values, one stored value in eight is an explicit zero.
fn big_canon(rng: &mut Rng, m: usize, n: usize, long: &[usize]) -> RawI {
    let mut g = vec![vec![None; n]; m];
    for j in 0..n {
        let k = if long.contains(&j) { (33 + rng.below(68)).min(m) } else { rng.below(4).min(m) };
        let mut rows: Vec<usize> = (0..m).collect();
        rng.shuffle(&mut rows);
        for &i in rows.iter().take(k) {
            g[i][j] = Some(if rng.chance(1, 8) { 0 } else { let v = rng.range(-4, 4); if v == 0 { 3 } else { v } });
        }
    }
    RawI::from_grid(&g, m, n)
}
/// The same matrix with its columns stored in another order: 0 presorted, 1 reversed,
/// 2 shuffled, 3 shuffled with 3..=10 duplicated positions per non-empty column
fn reorder_cols(rng: &mut Rng, a: &RawI, how: usize) -> RawI {
    let mut colptr = vec![0];
    let (mut rv, mut nz) = (vec![], vec![]);
    for j in 0..a.n {
        let mut es: Vec<(usize, i64)> = (a.colptr[j]..a.colptr[j + 1]).map(|p| (a.rowval[p], a.nzval[p])).collect();
        match how {
            0 => {}
            1 => es.reverse(),
            2 => rng.shuffle(&mut es),
            _ => {
                if !es.is_empty() { for _ in 0..(3 + rng.below(8)) { let e = *rng.pick(&es); es.push((e.0, rng.range(-3, 3))); } }
                rng.shuffle(&mut es);
            }
        }
        for e in es { rv.push(e.0); nz.push(e.1); }
        colptr.push(rv.len());
    }
    RawI { m: a.m, n: a.n, colptr, rowval: rv, nzval: nz }
}
fn transpose_raw(a: &RawI) -> RawI {
    let d = a.dense();
    // keep explicit zeros out: the transposes only need the shape (few rows, many columns)
    let g: Vec<Vec<Option<i64>>> = (0..a.n).map(|j| (0..a.m).map(|i| if d[i][j] != 0 { Some(d[i][j]) } else { None }).collect()).collect();
    RawI::from_grid(&g, a.n, a.m)
}

pub struct Stats {
    pub by_stream: std::collections::BTreeMap<String, usize>,
}

pub fn generate(sink: &mut CaseSink, seed: u64, thorough: bool) -> Stats {
    let mut st = Stats { by_stream: Default::default() };
    let mut bump = |k: &str| *st.by_stream.entry(k.to_string()).or_insert(0) += 1;
    let mut rng = Rng::new(seed);
    let v4: Vec<Option<i64>> = vec![None, Some(1), Some(-1), Some(2)];
    let v3: Vec<Option<i64>> = vec![None, Some(1), Some(-1)];
    // 1. exhaustive small shapes
    let mut shapes: Vec<(usize, usize, &Vec<Option<i64>>, u64)> = vec![
        (0, 0, &v3, 1), (0, 2, &v3, 1), (2, 0, &v3, 1), (1, 1, &v4, 1), (1, 2, &v4, 1), (2, 1, &v4, 1), (1, 3, &v4, 1), (3, 1, &v4, 1),
        (2, 2, &v4, 1), (2, 3, &v3, 1), (3, 2, &v3, 1),
    ];
    // 3x3 over {absent,1,-1}: complete (19 683 matrices) in thorough; in quick every 5th code
    // (3 937 matrices; the stride is coprime to 3 so that every cell takes every value)
    shapes.push((3, 3, &v3, if thorough { 1 } else { 5 }));
    if thorough {
        shapes.push((2, 3, &v4, 1));
        shapes.push((3, 2, &v4, 1));
        shapes.push((4, 3, &v3, 41));
        shapes.push((3, 3, &v4, 23));
    }
    for (m, n, vals, stride) in shapes {
        let total = (vals.len() as u64).pow((m * n) as u32);
        let mut code = if stride > 1 { seed % stride } else { 0 };
        while code < total {
            let a = RawI::from_grid(&grid_from_code(code, m, n, vals), m, n);
            let coq = bundle(&a, code as usize);
            sink.case("bundle", json!({"A": a.json(), "salt": code}), coq, &["exhaustive"]);
            bump(&format!("exhaustive_{}x{}_{}vals_stride{}", m, n, vals.len(), stride));
            code += stride;
        }
    }
    // 2. random larger shapes, including stored zeros, empty rows/columns
    let nrand = if thorough { 3000 } else { 400 };
    for k in 0..nrand {
        let m = rng.below(if k % 10 == 0 { 41 } else { 9 });
        let n = rng.below(if k % 10 == 0 { 41 } else { 9 });
        let dens = *rng.pick(&[5, 20, 50, 90]);
        let a = random_raw(&mut rng, m, n, dens, k % 3 == 0);
        let salt = rng.below(1 << 16);
        let coq = bundle(&a, salt);
        sink.case("bundle", json!({"A": a.json(), "salt": salt}), coq, &["random"]);
        bump("random_bundle");
    }
    // 3. concatenations: every pair of <=2x2 blocks over {absent,1,-1} (quick: stride), random lists
    {
        let mut blocks: Vec<RawI> = vec![];
        for (m, n) in [(0usize, 0usize), (1, 1), (1, 2), (2, 1), (2, 2), (0, 2), (2, 0)] {
            let total = 3u64.pow((m * n) as u32);
            for code in 0..total {
                blocks.push(RawI::from_grid(&grid_from_code(code, m, n, &v3), m, n));
            }
        }
        // 105 blocks, 11 025 ordered pairs; quick takes every 8th (coprime to 105, so both
        // members of the pair range over all blocks)
        let stride = if thorough { 1 } else { 8 };
        let mut idx = (seed % stride as u64) as usize;
        let nb = blocks.len();
        while idx < nb * nb {
            let pair = vec![blocks[idx / nb].clone(), blocks[idx % nb].clone()];
            let coq = concat_case(&pair, idx);
            sink.case("concat", json!({"blocks": pair.iter().map(|r| r.json()).collect::<Vec<_>>(), "salt": idx}), coq, &["exhaustive"]);
            bump("concat_pairs");
            idx += stride;
        }
        let nq = if thorough { 2000 } else { 300 };
        for _ in 0..nq {
            // consistent 2x2 block layouts most of the time, inconsistent sometimes
            let (r1, r2, c1, c2) = (rng.below(4), rng.below(4), rng.below(4), rng.below(4));
            let mut bl = vec![
                random_raw(&mut rng, r1, c1, 50, true), random_raw(&mut rng, r1, c2, 50, false),
                random_raw(&mut rng, r2, c1, 50, false), random_raw(&mut rng, r2, c2, 50, true),
            ];
            if rng.chance(1, 5) { let (m, n) = (rng.below(4), rng.below(4)); let k = rng.below(4); bl[k] = random_raw(&mut rng, m, n, 50, false); }
            let salt = 1; // width 2
            let coq = concat_case(&bl, salt);
            sink.case("concat", json!({"blocks": bl.iter().map(|r| r.json()).collect::<Vec<_>>(), "salt": salt}), coq, &["random"]);
            bump("concat_quads");
        }
    }
    // 3b. general block layouts: R x C grids (R, C <= 3) of blocks with per-row heights and
    //     per-column widths in 0..=2; one in four is made inconsistent (one block reshaped, one
    //     block dropped from a row, or a row emptied); plus the degenerate layouts
    {
        let per = if thorough { 150 } else { 14 };
        for r in 1..=3usize {
            for c in 1..=3usize {
                for k in 0..per {
                    let hs: Vec<usize> = (0..r).map(|_| rng.below(3)).collect();
                    let ws: Vec<usize> = (0..c).map(|_| rng.below(3)).collect();
                    let mut rows: Vec<Vec<RawI>> = (0..r)
                        .map(|p| (0..c).map(|q| random_raw(&mut rng, hs[p], ws[q], 60, k % 5 == 0)).collect())
                        .collect();
                    let mut tag = "consistent";
                    if k % 4 == 3 {
                        tag = "inconsistent";
                        let (p, q) = (rng.below(r), rng.below(c));
                        match rng.below(3) {
                            0 => {
                                let (mut h, mut w) = (hs[p], ws[q]);
                                if rng.chance(1, 2) { h = (h + 1 + rng.below(2)) % 3; } else { w = (w + 1 + rng.below(2)) % 3; }
                                rows[p][q] = random_raw(&mut rng, h, w, 60, false);
                            }
                            1 => { rows[p].remove(q); }
                            _ => { rows[p].clear(); }
                        }
                    }
                    sink.case("hvgrid", grid_json(&rows), grid_case(&rows), &[tag]);
                    bump(&format!("hvgrid_{}", tag));
                }
            }
        }
        let b = RawI::from_grid(&[vec![Some(1)]], 1, 1);
        for rows in [vec![], vec![vec![]], vec![vec![], vec![]], vec![vec![b.clone()], vec![]], vec![vec![], vec![b.clone()]]] {
            sink.case("hvgrid", grid_json(&rows), grid_case(&rows), &["degenerate"]);
            bump("hvgrid_degenerate");
        }
    }
    // 4. triplets: all multisets up to length 3 over a 2x2 grid with values {1,-1,2} (ordered
    //    sequences, so every input order is covered), then random longer ones over 3x3
    {
        let opts: Vec<(usize, usize, i64)> = (0..2).flat_map(|i| (0..2).flat_map(move |j| [1i64, -1, 2].into_iter().map(move |v| (i, j, v)))).collect();
        let maxlen = if thorough { 4 } else { 3 };
        for len in 0..=maxlen {
            let total = (opts.len() as u64).pow(len as u32);
            let stride: u64 = if len == 4 { 5 } else { 1 };
            let mut code = 0;
            while code < total {
                let mut c = code;
                let (mut ii, mut jj, mut vv) = (vec![], vec![], vec![]);
                for _ in 0..len { let o = opts[(c % opts.len() as u64) as usize]; c /= opts.len() as u64; ii.push(o.0); jj.push(o.1); vv.push(o.2); }
                sink.case("triplets", json!({"m":2,"n":2,"I":ii,"J":jj,"V":vv}), triplet_case(2, 2, &ii, &jj, &vv), &["exhaustive"]);
                bump("triplets_2x2");
                code += stride;
            }
        }
        let nt = if thorough { 4000 } else { 600 };
        for _ in 0..nt {
            let (m, n) = (1 + rng.below(4), 1 + rng.below(4));
            let len = rng.below(9);
            let ii: Vec<usize> = (0..len).map(|_| rng.below(m)).collect();
            let jj: Vec<usize> = (0..len).map(|_| rng.below(n)).collect();
            let vv: Vec<i64> = (0..len).map(|_| *rng.pick(&[1i64, -1, 2, 0, 3])).collect();
            sink.case("triplets", json!({"m":m,"n":n,"I":ii,"J":jj,"V":vv}), triplet_case(m, n, &ii, &jj, &vv), &["random"]);
            bump("triplets_random");
        }
    }
    // 5. raw encodings: unsorted / duplicated (valid dimensions) and malformed ones
    {
        let nr = if thorough { 6000 } else { 1200 };
        for k in 0..nr {
            let (m, n) = (rng.below(5), rng.below(5));
            let mut a = random_raw(&mut rng, m, n, 60, true);
            match k % 6 {
                0 => {} // canonical
                1 | 2 => {
                    // shuffle within columns and duplicate some entries
                    let mut colptr = vec![0];
                    let (mut rv, mut nz) = (vec![], vec![]);
                    for j in 0..a.n {
                        let mut es: Vec<(usize, i64)> = (a.colptr[j]..a.colptr[j + 1]).map(|p| (a.rowval[p], a.nzval[p])).collect();
                        let extra = rng.below(3);
                        for _ in 0..extra { if !es.is_empty() { let e = *rng.pick(&es); es.push((e.0, rng.range(-2, 2))); } }
                        rng.shuffle(&mut es);
                        for e in es { rv.push(e.0); nz.push(e.1); }
                        colptr.push(rv.len());
                    }
                    a.colptr = colptr; a.rowval = rv; a.nzval = nz;
                }
                3 => {
                    // perturb colptr
                    if !a.colptr.is_empty() { let p = rng.below(a.colptr.len()); a.colptr[p] = rng.below(a.rowval.len() + 2); }
                }
                4 => {
                    // perturb lengths
                    match rng.below(4) {
                        0 => { a.colptr.pop(); }
                        1 => { a.colptr.push(a.rowval.len()); }
                        2 => { a.rowval.push(0); }
                        _ => { a.nzval.push(1); }
                    }
                }
                _ => {
                    // perturb a row index (possibly out of bounds, possibly duplicate)
                    if !a.rowval.is_empty() { let p = rng.below(a.rowval.len()); a.rowval[p] = rng.below(a.m + 2); }
                }
            }
            // canonicalize on rows out of range is outside the model's guard only for the
            // dense comparison; check_format is total.  Keep rows in range for kinds 1,2.
            sink.case("raw", json!({"A": a.json()}), raw_case(&a), &[if k % 6 <= 2 { "valid" } else { "malformed" }]);
            bump(["raw_canonical", "raw_unsorted_dups", "raw_unsorted_dups", "raw_bad_colptr", "raw_bad_lengths", "raw_bad_row"][k % 6]);
        }
        // special encodings
        for a in [
            RawI { m: 1, n: 1, colptr: vec![1, 2], rowval: vec![0, 0], nzval: vec![5, 7] },
            RawI { m: 1, n: 1, colptr: vec![], rowval: vec![], nzval: vec![] },
            RawI { m: 0, n: 0, colptr: vec![0], rowval: vec![], nzval: vec![] },
            RawI { m: 2, n: 2, colptr: vec![0, 2, 1], rowval: vec![0], nzval: vec![1] },
        ] {
            sink.case("raw", json!({"A": a.json()}), raw_case(&a), &["malformed"]);
            bump("raw_special");
        }
    }
    // 5b. structural queries on unsorted / duplicated columns: every 2x2 and 3x3 encoding whose
    //     columns are arbitrary row sequences of length <= 2 (49 and 2 197 encodings; quick
    //     takes every 3rd 3x3 code: 13 = 1 mod 3, so every column still takes every sequence),
    //     then hand-picked shapes: nnz = 0, empty leading / trailing columns, a sub-diagonal
    //     entry stored first in its column
    {
        for n in [2usize, 3] {
            let mut seqs: Vec<Vec<usize>> = vec![vec![]];
            for i in 0..n { seqs.push(vec![i]); }
            for i in 0..n { for k in 0..n { seqs.push(vec![i, k]); } }
            let ns = seqs.len() as u64;
            let total = ns.pow(n as u32);
            let stride = if n == 3 && !thorough { 3 } else { 1 };
            let mut code = if stride > 1 { seed % stride } else { 0 };
            while code < total {
                let mut c = code;
                let mut colptr = vec![0];
                let (mut rv, mut nz) = (vec![], vec![]);
                for _ in 0..n {
                    for &r in &seqs[(c % ns) as usize] { rv.push(r); nz.push(1 + (rv.len() as i64 % 3)); }
                    c /= ns;
                    colptr.push(rv.len());
                }
                let a = RawI { m: n, n, colptr, rowval: rv, nzval: nz };
                sink.case("raw", json!({"A": a.json()}), raw_case(&a), &["valid"]);
                bump(&format!("raw_unsorted_exhaustive_{}x{}", n, n));
                code += stride;
            }
        }
        for a in [
            RawI { m: 3, n: 3, colptr: vec![0, 0, 0, 0], rowval: vec![], nzval: vec![] },
            RawI { m: 3, n: 4, colptr: vec![0, 0, 0, 2, 2], rowval: vec![2, 0], nzval: vec![1, 2] },
            RawI { m: 4, n: 4, colptr: vec![0, 0, 0, 0, 3], rowval: vec![3, 0, 3], nzval: vec![1, 2, 3] },
            RawI { m: 4, n: 4, colptr: vec![0, 3, 3, 3, 3], rowval: vec![2, 1, 0], nzval: vec![1, 2, 3] },
            RawI { m: 2, n: 2, colptr: vec![0, 2, 3], rowval: vec![1, 0, 1], nzval: vec![2, 4, 3] },
            RawI { m: 0, n: 3, colptr: vec![0, 0, 0, 0], rowval: vec![], nzval: vec![] },
            RawI { m: 5, n: 1, colptr: vec![0, 4], rowval: vec![4, 0, 4, 2], nzval: vec![1, 1, 1, 1] },
        ] {
            sink.case("raw", json!({"A": a.json()}), raw_case(&a), &["valid"]);
            bump("raw_struct_special");
        }
    }
    // 5c. binary64-level products, every (a, b) class pair incl. -0, on empty matrices, empty
    //     columns, a single column, upper-triangular squares (symv), stored -0 entries.
    //     kind 0/1 ("exact", binding bitwise): all values are dyadics with <= 4 significant bits
    //     and exponents in [-3, 12], matrices <= 5x5: every product a*v*x and every partial sum,
    //     in ANY order or association, is a multiple of 2^-9 below 2^17, hence exactly
    //     representable, so the bits do not depend on the summation order; y is finite garbage
    //     (incl. -0) or non-finite garbage (inf, NaN: propagation does not depend on the order
    //     either); for a = 0 the vector x and the matrix may hold non-finite values too (the
    //     documented contract: never read).
    //     kind 2 ("general"): non-dyadic moderate values, rounding happens: binding only up to
    //     2^-45 * sum |products| against the exact dense meaning, bitwise = information.
    {
        let coefs: [f64; 8] = [0.0, -0.0, 1.0, -1.0, 2.0, -0.5, 3.0, 0.25];
        let vals: [f64; 9] = [0.5, -1.0, 1.5, 2.0, -0.0, 0.0, 3.25, -2.5, 4.0];
        let fin: [f64; 8] = [1024.0, -7.25, -0.0, 0.0, 3.0, -4096.0, 0.125, -2.0];
        let nonfin: [f64; 5] = [f64::INFINITY, f64::NEG_INFINITY, f64::NAN, -0.0, 5.0];
        let gcoefs: [f64; 8] = [0.0, -0.0, 1.0, -1.0, 0.3, -1.7, 1e-3, 123.456];
        let gvals: [f64; 9] = [0.1, -1.0 / 3.0, 1e-3, 7.7, 12345.678, -2.5e-4, 1e5, -0.7, 1.0];
        let shapes: [(usize, usize, usize, bool); 12] = [
            (0, 0, 0, false), (0, 3, 0, false), (3, 0, 0, false), (1, 1, 100, true), (3, 1, 70, false), (1, 4, 60, false),
            (3, 3, 0, true), (3, 3, 60, true), (4, 4, 35, true), (4, 3, 50, false), (2, 5, 40, false), (5, 5, 50, false),
        ];
        let reps = if thorough { 6 } else { 1 };
        for _ in 0..reps {
            for &(m, n, dens, triu) in shapes.iter() {
                for ia in 0..8 {
                    for ib in 0..8 {
                        // all 5 x 5 class pairs; the extra general values only against each other
                        if (ia >= 5 || ib >= 5) && (ia + ib) % 3 != 0 { continue; }
                        for kind in 0..3 {
                            let general = kind == 2;
                            let (ca, cb) = if general { (gcoefs[ia], gcoefs[ib]) } else { (coefs[ia], coefs[ib]) };
                            let vs: &[f64] = if general { &gvals } else { &vals };
                            let mut colptr = vec![0];
                            let (mut rv, mut nz) = (vec![], vec![]);
                            for j in 0..n {
                                for i in 0..m {
                                    if (!triu || i <= j) && rng.chance(dens, 100) { rv.push(i); nz.push(*rng.pick(vs)); }
                                }
                                colptr.push(rv.len());
                            }
                            let garbage: &[f64] = match kind { 0 => &fin, 1 => &nonfin, _ => &gvals };
                            let y_m: Vec<f64> = (0..m).map(|_| *rng.pick(garbage)).collect();
                            let y_n: Vec<f64> = (0..n).map(|_| *rng.pick(garbage)).collect();
                            let mut x_n: Vec<f64> = (0..n).map(|_| *rng.pick(vs)).collect();
                            let mut x_m: Vec<f64> = (0..m).map(|_| *rng.pick(vs)).collect();
                            if ca == 0.0 && kind == 1 {
                                // never read when a = 0
                                for v in x_n.iter_mut().chain(x_m.iter_mut()) { if rng.chance(1, 2) { *v = *rng.pick(&nonfin); } }
                                for v in nz.iter_mut() { if rng.chance(1, 3) { *v = f64::NAN; } }
                            }
                            let a = RawF { m, n, colptr, rowval: rv, nzval: nz };
                            let coq = fgemv_case(&a, &x_n, &y_m, &x_m, &y_n, ca, cb, general);
                            let tag = ["exact-finite-garbage", "exact-nonfinite-garbage", "general-tolerance"][kind];
                            sink.case("fgemv", fgemv_json(&a, &x_n, &y_m, &x_m, &y_n, ca, cb, general), coq, &[tag]);
                            bump(&format!("fgemv_{}", tag));
                        }
                    }
                }
            }
        }
    }
    // 5d. large shapes: size thresholds inside an operation (in-place vs buffered sort, unrolled
    //     loops, ...) are invisible on the <= 5x5 lattices.  40..=120 rows x 2..=6 columns with
    //     several long columns (33..=100 entries) in a row, their transposes, squares of order
    //     40..=60 with a run of long columns; every single-matrix operation (bundle), the raw
    //     encodings of the same matrix with presorted / reversed / shuffled / shuffled+duplicated
    //     columns (canonicalize = sort_indices + deduplicate, check_format, is_triu,
    //     index_to_coord), and concatenations of large blocks.  Small integers: exact.
    {
        let reps = if thorough { 6 } else { 1 };
        for _ in 0..reps {
            let mut bases: Vec<(RawI, &str)> = vec![];
            for k in 0..5 {
                let (m, n) = (40 + rng.below(81), 2 + rng.below(5));
                // a run of at least two consecutive long columns (all of them every other time)
                let first = if k % 2 == 0 { 0 } else { rng.below(n - 1) };
                let long: Vec<usize> = if k % 2 == 0 { (0..n).collect() } else { (first..n.min(first + 2 + rng.below(3))).collect() };
                bases.push((big_canon(&mut rng, m, n, &long), "tall"));
            }
            for _ in 0..3 {
                let (m, n) = (40 + rng.below(81), 2 + rng.below(5));
                let long: Vec<usize> = (0..n).collect();
                bases.push((transpose_raw(&big_canon(&mut rng, m, n, &long)), "wide"));
            }
            for _ in 0..3 {
                let n = 40 + rng.below(21);
                let first = rng.below(n - 6);
                let long: Vec<usize> = (first..first + 2 + rng.below(4)).collect();
                bases.push((big_canon(&mut rng, n, n, &long), "square"));
            }
            for (a, kind) in bases.iter() {
                let salt = rng.below(1 << 16);
                sink.case("bundle", json!({"A": a.json(), "salt": salt}), bundle(a, salt), &["large"]);
                bump(&format!("large_bundle_{}", kind));
                if *kind != "wide" {
                    for how in 0..4 {
                        let r = reorder_cols(&mut rng, a, how);
                        sink.case("raw", json!({"A": r.json()}), raw_case(&r), &["large"]);
                        bump(["large_raw_presorted", "large_raw_reversed", "large_raw_shuffled", "large_raw_shuffled_dups"][how]);
                    }
                }
            }
            // concatenations of large blocks: pairs (hcat / vcat / blockdiag) and 2 x 2 grids
            for k in 0..4 {
                let (m, n) = (40 + rng.below(61), 2 + rng.below(5));
                let a = big_canon(&mut rng, m, n, &[0, 1]);
                let (n2, m2) = (2 + rng.below(4), 40 + rng.below(41));
                let b = if k % 2 == 0 { big_canon(&mut rng, m, n2, &[0, 1]) } else { big_canon(&mut rng, m2, n, &[0, 1]) };
                let pair = vec![a, b];
                sink.case("concat", json!({"blocks": pair.iter().map(|r| r.json()).collect::<Vec<_>>(), "salt": k}), concat_case(&pair, k), &["large"]);
                bump("large_concat_pair");
            }
            for _ in 0..3 {
                let (h1, h2, w1, w2) = (40 + rng.below(41), 33 + rng.below(30), 2 + rng.below(3), 2 + rng.below(3));
                let rows = vec![
                    vec![big_canon(&mut rng, h1, w1, &[0, 1]), big_canon(&mut rng, h1, w2, &[1])],
                    vec![big_canon(&mut rng, h2, w1, &[0]), big_canon(&mut rng, h2, w2, &[0, 1])],
                ];
                sink.case("hvgrid", grid_json(&rows), grid_case(&rows), &["large"]);
                bump("large_hvgrid");
            }
        }
    }
    // 6. identity / zeros
    for n in 0..6 {
        let r = guarded(|| CscMatrix::<i64>::identity(n));
        sink.case("identity", json!({"n": n}), match r { Some(a) => format!("(c_identity {} {})", cn(n), RawI::of_i(&a).coq()), None => "1%N".into() }, &["exhaustive"]);
        let r = guarded(|| CscMatrix::<i64>::zeros((n, 5 - n)));
        sink.case("zeros", json!({"m": n, "n": 5 - n}), match r { Some(a) => format!("(c_zeros {} {} {})", cn(n), cn(5 - n), RawI::of_i(&a).coq()), None => "1%N".into() }, &["exhaustive"]);
        bump("identity_zeros");
    }
    BRANCH.with(|b| for (k, v) in b.borrow().iter() { st.by_stream.insert(k.clone(), *v); });
    st
}

pub fn replay(sink: &mut CaseSink, case: &Value) {
    let op = case["op"].as_str().unwrap();
    let inp = &case["input"];
    let coq = match op {
        "bundle" => bundle(&RawI::from_json(&inp["A"]), inp["salt"].as_u64().unwrap() as usize),
        "concat" => {
            let bl: Vec<RawI> = inp["blocks"].as_array().unwrap().iter().map(RawI::from_json).collect();
            concat_case(&bl, inp["salt"].as_u64().unwrap() as usize)
        }
        "fgemv" => fgemv_case(&RawF::from_json(&inp["A"]), &unbits_vec(&inp["x_n"]), &unbits_vec(&inp["y_m"]), &unbits_vec(&inp["x_m"]), &unbits_vec(&inp["y_n"]), unbits(&inp["a"]), unbits(&inp["b"]), inp["general"].as_bool().unwrap_or(false)),
        "hvgrid" => {
            let rows: Vec<Vec<RawI>> = inp["rows"].as_array().unwrap().iter().map(|r| r.as_array().unwrap().iter().map(RawI::from_json).collect()).collect();
            grid_case(&rows)
        }
        "triplets" => triplet_case(inp["m"].as_u64().unwrap() as usize, inp["n"].as_u64().unwrap() as usize, &usize_vec(&inp["I"]), &usize_vec(&inp["J"]), &i64_vec(&inp["V"])),
        "raw" => raw_case(&RawI::from_json(&inp["A"])),
        "identity" => { let n = inp["n"].as_u64().unwrap() as usize; format!("(c_identity {} {})", cn(n), RawI::of_i(&CscMatrix::<i64>::identity(n)).coq()) }
        "zeros" => { let (m, n) = (inp["m"].as_u64().unwrap() as usize, inp["n"].as_u64().unwrap() as usize); format!("(c_zeros {} {} {})", cn(m), cn(n), RawI::of_i(&CscMatrix::<i64>::zeros((m, n))).coq()) }
        _ => panic!("unknown op {}", op),
    };
    sink.case(op, inp.clone(), coq, &["replay"]);
}
