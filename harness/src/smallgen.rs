//! Small-problem generator used by the solve-loop checks (C04, C07, C20, C05, C06).
//! Deterministic from `common::Rng`.  Families: planted strictly feasible problems over all
//! cone kinds, strongly primal / dual infeasible problems from planted certificates,
//! boundary shapes (no constraints, empty and singleton cones, zero rows / columns /
//! matrices, duplicate rows), extreme magnitudes.
#![allow(dead_code)]
#![allow(non_snake_case)]
use crate::common::Rng;
use clarabel::algebra::*;
use clarabel::solver::*;

#[derive(Clone)]
pub struct Prob {
    pub P: CscMatrix<f64>,
    pub q: Vec<f64>,
    pub A: CscMatrix<f64>,
    pub b: Vec<f64>,
    pub cones: Vec<SupportedConeT<f64>>,
    pub label: String,
    /// what the generator intends: 0 feasible, 1 primal infeasible, 2 dual infeasible, 3 unknown
    pub intent: u8,
}

pub fn cone_dim(c: &SupportedConeT<f64>) -> usize {
    match c {
        ZeroConeT(d) | NonnegativeConeT(d) | SecondOrderConeT(d) => *d,
        ExponentialConeT() | PowerConeT(_) => 3,
        GenPowerConeT(a, d2) => a.len() + *d2,
        PSDTriangleConeT(d) => d * (d + 1) / 2,
    }
}

pub fn cone_name(c: &SupportedConeT<f64>) -> String {
    match c {
        ZeroConeT(d) => format!("Zero({})", d),
        NonnegativeConeT(d) => format!("NN({})", d),
        SecondOrderConeT(d) => format!("SOC({})", d),
        ExponentialConeT() => "Exp".into(),
        PowerConeT(a) => format!("Pow({})", a),
        GenPowerConeT(a, d2) => format!("GenPow({:?},{})", a, d2),
        PSDTriangleConeT(d) => format!("PSD({})", d),
    }
}

pub fn cone_json(c: &SupportedConeT<f64>) -> serde_json::Value {
    use serde_json::json;
    match c {
        ZeroConeT(d) => json!({"k": "Zero", "d": d}),
        NonnegativeConeT(d) => json!({"k": "NN", "d": d}),
        SecondOrderConeT(d) => json!({"k": "SOC", "d": d}),
        ExponentialConeT() => json!({"k": "Exp"}),
        PowerConeT(a) => json!({"k": "Pow", "a": a}),
        GenPowerConeT(a, d2) => json!({"k": "GenPow", "a": a, "d2": d2}),
        PSDTriangleConeT(d) => json!({"k": "PSD", "d": d}),
    }
}
pub fn cone_from_json(v: &serde_json::Value) -> SupportedConeT<f64> {
    let d = v.get("d").and_then(|x| x.as_u64()).unwrap_or(0) as usize;
    match v["k"].as_str().unwrap_or("") {
        "Zero" => ZeroConeT(d),
        "NN" => NonnegativeConeT(d),
        "SOC" => SecondOrderConeT(d),
        "Exp" => ExponentialConeT(),
        "Pow" => PowerConeT(v["a"].as_f64().unwrap()),
        "GenPow" => GenPowerConeT(
            v["a"].as_array().unwrap().iter().map(|x| x.as_f64().unwrap()).collect(),
            v["d2"].as_u64().unwrap() as usize,
        ),
        _ => PSDTriangleConeT(d),
    }
}
fn csc_json(m: &CscMatrix<f64>) -> serde_json::Value {
    serde_json::json!({"m": m.m, "n": m.n, "colptr": m.colptr, "rowval": m.rowval, "nzval": m.nzval})
}
fn csc_from_json(v: &serde_json::Value) -> CscMatrix<f64> {
    CscMatrix::new(
        v["m"].as_u64().unwrap() as usize,
        v["n"].as_u64().unwrap() as usize,
        crate::common::usize_vec(&v["colptr"]),
        crate::common::usize_vec(&v["rowval"]),
        crate::common::f64_vec(&v["nzval"]),
    )
}
impl Prob {
    pub fn to_json(&self) -> serde_json::Value {
        serde_json::json!({"label": self.label, "intent": self.intent, "P": csc_json(&self.P), "A": csc_json(&self.A),
            "q": self.q, "b": self.b, "cones": self.cones.iter().map(cone_json).collect::<Vec<_>>(),
            "cone_names": self.cones.iter().map(cone_name).collect::<Vec<_>>()})
    }
    pub fn from_json(v: &serde_json::Value) -> Prob {
        Prob {
            P: csc_from_json(&v["P"]),
            A: csc_from_json(&v["A"]),
            q: crate::common::f64_vec(&v["q"]),
            b: crate::common::f64_vec(&v["b"]),
            cones: v["cones"].as_array().unwrap().iter().map(cone_from_json).collect(),
            label: v["label"].as_str().unwrap_or("replay").to_string(),
            intent: v["intent"].as_u64().unwrap_or(3) as u8,
        }
    }
}

fn dense_to_csc(rows: &[Vec<f64>], m: usize, n: usize) -> CscMatrix<f64> {
    let mut I = vec![];
    let mut J = vec![];
    let mut V = vec![];
    for i in 0..m {
        for j in 0..n {
            if rows[i][j] != 0.0 {
                I.push(i);
                J.push(j);
                V.push(rows[i][j]);
            }
        }
    }
    CscMatrix::new_from_triplets(m, n, I, J, V)
}

/// strictly interior primal point of one cone
fn interior_primal(rng: &mut Rng, c: &SupportedConeT<f64>) -> Vec<f64> {
    match c {
        ZeroConeT(d) => vec![0.0; *d],
        NonnegativeConeT(d) => (0..*d).map(|_| 0.25 + 2.0 * rng.unit()).collect(),
        SecondOrderConeT(d) => {
            let mut v: Vec<f64> = (0..*d).map(|_| rng.unit() * 2.0 - 1.0).collect();
            let nrm: f64 = v[1..].iter().map(|x| x * x).sum::<f64>().sqrt();
            v[0] = nrm + 0.25 + rng.unit();
            v
        }
        ExponentialConeT() => {
            let x = rng.unit() * 2.0 - 1.0;
            let y = 0.5 + 1.5 * rng.unit();
            let z = y * (x / y).exp() * (1.25 + rng.unit());
            vec![x, y, z]
        }
        PowerConeT(a) => {
            let x = 0.5 + 1.5 * rng.unit();
            let y = 0.5 + 1.5 * rng.unit();
            let bound = x.powf(*a) * y.powf(1.0 - *a);
            vec![x, y, bound * (rng.unit() * 1.4 - 0.7)]
        }
        GenPowerConeT(a, d2) => {
            let xs: Vec<f64> = a.iter().map(|_| 0.5 + 1.5 * rng.unit()).collect();
            let bound: f64 = xs.iter().zip(a.iter()).map(|(x, al)| x.powf(*al)).product();
            let mut zs: Vec<f64> = (0..*d2).map(|_| rng.unit() * 2.0 - 1.0).collect();
            let nz: f64 = zs.iter().map(|x| x * x).sum::<f64>().sqrt();
            if nz > 0.0 {
                let sc = bound * 0.7 * rng.unit() / nz;
                for z in zs.iter_mut() {
                    *z *= sc;
                }
            }
            let mut v = xs;
            v.extend(zs);
            v
        }
        PSDTriangleConeT(d) => {
            // svec of M M' + I  (upper triangle, column by column, off-diagonals scaled by sqrt 2)
            let d = *d;
            let mut M = vec![vec![0.0; d]; d];
            for i in 0..d {
                for j in 0..d {
                    M[i][j] = rng.unit() * 2.0 - 1.0;
                }
            }
            let mut v = vec![];
            for j in 0..d {
                for i in 0..=j {
                    let mut x: f64 = (0..d).map(|k| M[i][k] * M[j][k]).sum();
                    if i == j {
                        x += 1.0;
                    } else {
                        x *= std::f64::consts::SQRT_2;
                    }
                    v.push(x);
                }
            }
            v
        }
    }
}

/// strictly interior point of the dual cone
fn interior_dual(rng: &mut Rng, c: &SupportedConeT<f64>) -> Vec<f64> {
    match c {
        ZeroConeT(d) => (0..*d).map(|_| rng.unit() * 2.0 - 1.0).collect(),
        ExponentialConeT() => {
            let u = -(0.5 + 1.5 * rng.unit());
            let v = rng.unit() * 2.0 - 1.0;
            let w = (-u) * (v / u).exp() / std::f64::consts::E * (1.25 + rng.unit());
            vec![u, v, w]
        }
        PowerConeT(a) => {
            let u = 0.5 + 1.5 * rng.unit();
            let v = 0.5 + 1.5 * rng.unit();
            let bound = (u / a).powf(*a) * (v / (1.0 - a)).powf(1.0 - a);
            vec![u, v, bound * (rng.unit() * 1.4 - 0.7)]
        }
        GenPowerConeT(a, d2) => {
            let us: Vec<f64> = a.iter().map(|_| 0.5 + 1.5 * rng.unit()).collect();
            let bound: f64 = us.iter().zip(a.iter()).map(|(u, al)| (u / al).powf(*al)).product();
            let mut ws: Vec<f64> = (0..*d2).map(|_| rng.unit() * 2.0 - 1.0).collect();
            let nw: f64 = ws.iter().map(|x| x * x).sum::<f64>().sqrt();
            if nw > 0.0 {
                let sc = bound * 0.7 * rng.unit() / nw;
                for w in ws.iter_mut() {
                    *w *= sc;
                }
            }
            let mut v = us;
            v.extend(ws);
            v
        }
        _ => interior_primal(rng, c), // self-dual cones
    }
}

fn dyadic_flag(u: f64) -> bool {
    ((u * 1.0e6) as u64) % 2 == 0
}

pub fn random_cone(rng: &mut Rng, kinds: &[u8]) -> SupportedConeT<f64> {
    match *rng.pick(kinds) {
        0 => ZeroConeT(1 + rng.below(3)),
        1 => NonnegativeConeT(1 + rng.below(4)),
        2 => SecondOrderConeT(2 + rng.below(5)),
        3 => ExponentialConeT(),
        4 => {
            // half of the exponents are short dyadics k/64 (same number of draws either way), so
            // that exact membership of iterates in the power cone is decidable in the Coq checkers
            let a = 0.1 + 0.8 * rng.unit();
            PowerConeT(if dyadic_flag(a) { ((a * 64.0).round().clamp(1.0, 63.0)) / 64.0 } else { a })
        }
        5 => {
            let d1 = 2 + rng.below(2);
            let mut a: Vec<f64> = (0..d1).map(|_| 0.2 + rng.unit()).collect();
            let flag = dyadic_flag(a[0]);
            let s: f64 = a.iter().sum();
            for x in a.iter_mut() {
                *x /= s;
            }
            if flag {
                let mut ps: Vec<f64> = a[..d1 - 1].iter().map(|x| (x * 64.0).round().max(1.0)).collect();
                let last = 64.0 - ps.iter().sum::<f64>();
                if last >= 1.0 {
                    ps.push(last);
                    for (x, p) in a.iter_mut().zip(ps.iter()) {
                        *x = p / 64.0;
                    }
                }
            }
            // make the weights sum to one exactly enough for the constructor's check
            let s2: f64 = a[..d1 - 1].iter().sum();
            a[d1 - 1] = 1.0 - s2;
            GenPowerConeT(a, 1 + rng.below(2))
        }
        _ => PSDTriangleConeT(2 + rng.below(2)),
    }
}

fn random_A(rng: &mut Rng, m: usize, n: usize, density_pct: usize) -> Vec<Vec<f64>> {
    let mut rows = vec![vec![0.0; n]; m];
    for i in 0..m {
        for j in 0..n {
            if rng.below(100) < density_pct {
                rows[i][j] = rng.range(-3, 3) as f64;
            }
        }
        // make sure no row is empty (boundary shapes have their own generator)
        if n > 0 && rows[i].iter().all(|x| *x == 0.0) {
            let j = rng.below(n);
            rows[i][j] = if rng.chance(1, 2) { 1.0 } else { -1.0 };
        }
    }
    rows
}

fn random_P(rng: &mut Rng, n: usize, kind: usize) -> Vec<Vec<f64>> {
    // kind 0: zero; 1: diagonal; 2: G'G; 3: G'G + I (strictly convex)
    let mut P = vec![vec![0.0; n]; n];
    if kind == 3 {
        for i in 0..n {
            P[i][i] = 1.0;
        }
    }
    match kind {
        0 => {}
        1 => {
            for i in 0..n {
                P[i][i] = rng.range(0, 3) as f64;
            }
        }
        _ => {
            let k = 1 + rng.below(n.max(1));
            let G: Vec<Vec<f64>> = (0..k).map(|_| (0..n).map(|_| rng.range(-2, 2) as f64).collect()).collect();
            for i in 0..n {
                for j in 0..n {
                    P[i][j] += (0..k).map(|l| G[l][i] * G[l][j]).sum::<f64>();
                }
            }
        }
    }
    P
}

fn triu(P: &[Vec<f64>], n: usize) -> CscMatrix<f64> {
    let mut U = vec![vec![0.0; n]; n];
    for i in 0..n {
        for j in i..n {
            U[i][j] = P[i][j];
        }
    }
    dense_to_csc(&U, n, n)
}

fn matvec(A: &[Vec<f64>], x: &[f64]) -> Vec<f64> {
    A.iter().map(|r| r.iter().zip(x.iter()).map(|(a, b)| a * b).sum()).collect()
}
fn matvec_t(A: &[Vec<f64>], z: &[f64], n: usize) -> Vec<f64> {
    let mut out = vec![0.0; n];
    for (i, r) in A.iter().enumerate() {
        for j in 0..n {
            out[j] += r[j] * z[i];
        }
    }
    out
}

/// planted strictly feasible primal-dual pair
pub fn planted(rng: &mut Rng, n: usize, cones: Vec<SupportedConeT<f64>>, pkind: usize) -> Prob {
    let m: usize = cones.iter().map(cone_dim).sum();
    let A = random_A(rng, m, n, 40);
    let P = random_P(rng, n, pkind);
    let x: Vec<f64> = (0..n).map(|_| rng.range(-2, 2) as f64).collect();
    let mut s = vec![];
    let mut z = vec![];
    for c in cones.iter() {
        s.extend(interior_primal(rng, c));
        z.extend(interior_dual(rng, c));
    }
    let Ax = matvec(&A, &x);
    let b: Vec<f64> = Ax.iter().zip(s.iter()).map(|(a, s)| a + s).collect();
    let Px = matvec(&P, &x);
    let Atz = matvec_t(&A, &z, n);
    let q: Vec<f64> = (0..n).map(|j| -(Px[j] + Atz[j])).collect();
    let label = format!("planted n={} cones=[{}] P{}", n, cones.iter().map(cone_name).collect::<Vec<_>>().join(","), pkind);
    Prob { P: triu(&P, n), q, A: dense_to_csc(&A, m, n), b, cones, label, intent: 0 }
}

/// strongly primal infeasible: planted z in int K* with A'z = 0, b'z = -1.
/// The last cone must be nonnegative (its last row is solved for).
pub fn primal_infeasible(rng: &mut Rng, n: usize, mut cones: Vec<SupportedConeT<f64>>) -> Prob {
    cones.push(NonnegativeConeT(1));
    let m: usize = cones.iter().map(cone_dim).sum();
    let mut A = random_A(rng, m, n, 50);
    let mut z = vec![];
    for c in cones.iter() {
        z.extend(interior_dual(rng, c));
    }
    let mut b: Vec<f64> = (0..m).map(|_| rng.range(-2, 2) as f64).collect();
    let zl = z[m - 1];
    for j in 0..n {
        let sacc: f64 = (0..m - 1).map(|i| z[i] * A[i][j]).sum();
        A[m - 1][j] = -sacc / zl;
    }
    let bacc: f64 = (0..m - 1).map(|i| z[i] * b[i]).sum();
    b[m - 1] = (-1.0 - bacc) / zl;
    let pk = rng.below(2);
    let P = random_P(rng, n, pk);
    // the dual problem is made strictly feasible (q = -(P x0 + A' z0) with z0 in int K*), so the
    // instance is primal infeasible but NOT also dual infeasible: exactly one verdict is right
    let x0: Vec<f64> = (0..n).map(|_| rng.range(-2, 2) as f64).collect();
    let mut z0 = vec![];
    for c in cones.iter() {
        z0.extend(interior_dual(rng, c));
    }
    let Px0 = matvec(&P, &x0);
    let Atz0 = matvec_t(&A, &z0, n);
    let q: Vec<f64> = (0..n).map(|j| -(Px0[j] + Atz0[j])).collect();
    let label = format!("pinf n={} cones=[{}]", n, cones.iter().map(cone_name).collect::<Vec<_>>().join(","));
    Prob { P: triu(&P, n), q, A: dense_to_csc(&A, m, n), b, cones, label, intent: 1 }
}

/// strongly dual infeasible: planted x with Px = 0, Ax + s = 0, s in int K, q'x = -|x|^2 < 0
pub fn dual_infeasible(rng: &mut Rng, n: usize, cones: Vec<SupportedConeT<f64>>) -> Prob {
    let cones: Vec<_> = cones.into_iter().filter(|c| !matches!(c, ZeroConeT(_))).collect();
    let cones = if cones.is_empty() { vec![NonnegativeConeT(2)] } else { cones };
    let m: usize = cones.iter().map(cone_dim).sum();
    let mut A = random_A(rng, m, n, 50);
    let mut x: Vec<f64> = (0..n).map(|_| rng.range(-2, 2) as f64).collect();
    if x[0] == 0.0 {
        x[0] = 1.0;
    }
    let mut s = vec![];
    for c in cones.iter() {
        s.extend(interior_primal(rng, c));
    }
    for i in 0..m {
        let acc: f64 = (1..n).map(|k| A[i][k] * x[k]).sum();
        A[i][0] = (-s[i] - acc) / x[0];
    }
    let q: Vec<f64> = x.iter().map(|v| -v).collect();
    // the primal problem is made strictly feasible (b = A x0 + s0 with s0 in int K), so the
    // instance is dual infeasible (unbounded) but NOT also primal infeasible
    let x0: Vec<f64> = (0..n).map(|_| rng.range(-2, 2) as f64).collect();
    let mut s0 = vec![];
    for c in cones.iter() {
        s0.extend(interior_primal(rng, c));
    }
    let Ax0 = matvec(&A, &x0);
    let b: Vec<f64> = (0..m).map(|i| Ax0[i] + s0[i]).collect();
    let P = vec![vec![0.0; n]; n];
    let label = format!("dinf n={} cones=[{}]", n, cones.iter().map(cone_name).collect::<Vec<_>>().join(","));
    Prob { P: triu(&P, n), q, A: dense_to_csc(&A, m, n), b, cones, label, intent: 2 }
}

/// boundary shapes that must neither panic nor hang
pub fn boundary_shapes(rng: &mut Rng) -> Vec<Prob> {
    let mut out = vec![];
    let eye = |n: usize| CscMatrix::<f64>::identity(n);
    // no constraints at all, strictly convex objective
    out.push(Prob { P: eye(2), q: vec![1.0, -1.0], A: CscMatrix::zeros((0, 2)), b: vec![], cones: vec![], label: "m=0 convex".into(), intent: 0 });
    // no constraints, linear objective: unbounded
    out.push(Prob { P: CscMatrix::zeros((2, 2)), q: vec![1.0, 0.0], A: CscMatrix::zeros((0, 2)), b: vec![], cones: vec![], label: "m=0 unbounded".into(), intent: 2 });
    // no constraints, zero objective
    out.push(Prob { P: CscMatrix::zeros((1, 1)), q: vec![0.0], A: CscMatrix::zeros((0, 1)), b: vec![], cones: vec![], label: "m=0 zero objective".into(), intent: 3 });
    // empty cones inside the list
    out.push(Prob { P: eye(1), q: vec![1.0], A: CscMatrix::identity(1), b: vec![1.0], cones: vec![ZeroConeT(0), NonnegativeConeT(1), NonnegativeConeT(0), SecondOrderConeT(0)], label: "empty cones".into(), intent: 0 });
    // tiny curvature, huge linear cost, nonnegative cones only: the KKT starting point has slacks
    // around -q/eps (1e25 and more) that the two-stage shift must still bring strictly inside
    // (strict positivity is decided exactly, whatever the magnitude)
    for (k, &(eps, c)) in [(1e-8, 1e20), (1e-8, 1e17), (1e-6, 1e22), (1e-10, 1e18), (1e-8, -1e20), (1e-4, 3e19)].iter().enumerate() {
        let n = 1 + k % 3;
        let mut rows = vec![];
        let mut b = vec![];
        for j in 0..n {
            let mut r = vec![0.0; n]; r[j] = -1.0; rows.push(r); b.push(-1.0);          // x_j >= 1
            // an upper bound as well for every other problem (it makes the positive margin, hence
            // the shift target, huge too; without it only the unit target remains to be absorbed)
            if k % 2 == 1 { let mut r = vec![0.0; n]; r[j] = 1.0; rows.push(r); b.push(1e3); }
        }
        let mrows = rows.len();
        let mut P = CscMatrix::<f64>::identity(n);
        for v in P.nzval.iter_mut() { *v = eps; }
        out.push(Prob { P, q: (0..n).map(|j| if j % 2 == 0 || k % 2 == 0 { c } else { -c / 3.0 }).collect(), A: dense_to_csc(&rows, mrows, n), b,
                        cones: vec![NonnegativeConeT(mrows)], label: format!("huge linear cost eps={} c={}", eps, c), intent: 0 });
    }
    // pure feasibility problems (P = 0, q = 0) over second-order and zero cones: the KKT starting
    // point has z exactly 0 (and s = b - Ax on the cone rows), so the shift into the cone starts
    // from the origin of a second-order block
    for k in 0..4usize {
        let n = 2 + k % 2;
        let d = 3 + k % 3;
        let mut rows: Vec<Vec<f64>> = vec![];
        let mut b: Vec<f64> = vec![];
        // one equality, then the block  (t0; x-part) in SOC(d) with t0 = 2 + sum x
        if k >= 2 { rows.push((0..n).map(|j| 1.0 + j as f64).collect()); b.push(1.0); }
        let neq = rows.len();
        rows.push(vec![-1.0; n]); b.push(2.0);
        for i in 1..d { let mut r = vec![0.0; n]; r[(i - 1) % n] = -1.0; rows.push(r); b.push(0.0); }
        let m = rows.len();
        let mut cones = vec![];
        if neq > 0 { cones.push(ZeroConeT(neq)); }
        cones.push(SecondOrderConeT(d));
        out.push(Prob { P: CscMatrix::zeros((n, n)), q: vec![0.0; n], A: dense_to_csc(&rows, m, n), b, cones,
                        label: format!("SOC feasibility, zero objective ({})", k), intent: 0 });
    }
    // only empty cones
    out.push(Prob { P: eye(1), q: vec![1.0], A: CscMatrix::zeros((0, 1)), b: vec![], cones: vec![NonnegativeConeT(0), ZeroConeT(0)], label: "only empty cones".into(), intent: 0 });
    // SOC / PSD of dimension one
    out.push(Prob { P: eye(2), q: vec![1.0, 1.0], A: dense_to_csc(&[vec![-1.0, 0.0], vec![0.0, -1.0]], 2, 2), b: vec![1.0, 2.0], cones: vec![SecondOrderConeT(1), PSDTriangleConeT(1)], label: "SOC(1),PSD(1)".into(), intent: 0 });
    // all-zero A with feasible and infeasible b
    out.push(Prob { P: eye(2), q: vec![0.0, 1.0], A: CscMatrix::zeros((2, 2)), b: vec![1.0, 1.0], cones: vec![NonnegativeConeT(2)], label: "zero A, b>0".into(), intent: 0 });
    out.push(Prob { P: eye(2), q: vec![0.0, 1.0], A: CscMatrix::zeros((2, 2)), b: vec![1.0, -1.0], cones: vec![NonnegativeConeT(2)], label: "zero A, b<0".into(), intent: 1 });
    out.push(Prob { P: eye(2), q: vec![0.0, 1.0], A: CscMatrix::zeros((2, 2)), b: vec![0.0, 0.0], cones: vec![ZeroConeT(2)], label: "zero A zero cone b=0".into(), intent: 0 });
    // zero P, zero q
    out.push(Prob { P: CscMatrix::zeros((2, 2)), q: vec![0.0, 0.0], A: eye(2), b: vec![1.0, 1.0], cones: vec![NonnegativeConeT(2)], label: "zero objective".into(), intent: 0 });
    // zero column of [P;A] with q_j != 0 (unbounded) and with q_j = 0
    out.push(Prob { P: CscMatrix::zeros((2, 2)), q: vec![1.0, 1.0], A: dense_to_csc(&[vec![-1.0, 0.0]], 1, 2), b: vec![0.0], cones: vec![NonnegativeConeT(1)], label: "zero column unbounded".into(), intent: 2 });
    out.push(Prob { P: CscMatrix::zeros((2, 2)), q: vec![1.0, 0.0], A: dense_to_csc(&[vec![-1.0, 0.0]], 1, 2), b: vec![0.0], cones: vec![NonnegativeConeT(1)], label: "zero column free".into(), intent: 0 });
    // duplicate and redundant rows
    out.push(Prob { P: eye(2), q: vec![-1.0, -1.0], A: dense_to_csc(&[vec![1.0, 1.0], vec![1.0, 1.0], vec![2.0, 2.0], vec![1.0, 1.0]], 4, 2), b: vec![1.0, 1.0, 2.0, 1.0], cones: vec![NonnegativeConeT(2), ZeroConeT(2)], label: "duplicate rows".into(), intent: 0 });
    out.push(Prob { P: CscMatrix::zeros((2, 2)), q: vec![-1.0, -1.0], A: dense_to_csc(&[vec![1.0, 1.0], vec![1.0, 1.0]], 2, 2), b: vec![1.0, 2.0], cones: vec![ZeroConeT(2)], label: "contradictory equalities".into(), intent: 1 });
    // n = 1 singletons
    out.push(Prob { P: eye(1), q: vec![-2.0], A: eye(1), b: vec![1.0], cones: vec![NonnegativeConeT(1)], label: "n=1".into(), intent: 0 });
    out.push(Prob { P: CscMatrix::zeros((1, 1)), q: vec![1.0], A: dense_to_csc(&[vec![1.0]], 1, 1), b: vec![0.0], cones: vec![NonnegativeConeT(1)], label: "n=1 LP unbounded".into(), intent: 2 });
    // a bound written as a second-order cone whose vector part is structurally zero
    // (what modelling layers emit when every coefficient of a norm term vanishes):
    // min p*x1 + x2  s.t. (x1 - q, 0, 0) in SOC(3), x2 >= r, x1 + x2 <= 10
    let mut grid = vec![];
    for &pp in &[0.1, 0.2, 0.3] { for &q in &[0.5, 1.0, 1.5, 2.0] { for &r in &[0.1, 0.3, 0.5] { grid.push((pp, q, r)); } } }
    for &(pp, q, r) in grid.iter() {
        out.push(Prob { P: CscMatrix::zeros((2, 2)), q: vec![pp, 1.0],
            A: dense_to_csc(&[vec![-1.0, 0.0], vec![0.0, 0.0], vec![0.0, 0.0], vec![0.0, -1.0], vec![1.0, 1.0]], 5, 2),
            b: vec![-q, 0.0, 0.0, -r, 10.0], cones: vec![SecondOrderConeT(3), NonnegativeConeT(2)],
            label: format!("SOC with zero vector part p={} q={} r={}", pp, q, r), intent: 0 });
    }
    // infinite bounds (presolve removes them) in several, non-adjacent nonnegative cones, in a
    // whole cone, and in cones where they must be kept
    {
        let inf = 1e30;
        let mk = |cones: Vec<SupportedConeT<f64>>, b: Vec<f64>, label: &str| {
            let m = b.len();
            let rows: Vec<Vec<f64>> = (0..m).map(|i| vec![if i % 2 == 0 { 1.0 } else { -1.0 }, if i % 3 == 0 { 1.0 } else { 0.5 }]).collect();
            Prob { P: CscMatrix::identity(2), q: vec![1.0, -1.0], A: dense_to_csc(&rows, m, 2), b, cones, label: label.to_string(), intent: 3 }
        };
        out.push(mk(vec![NonnegativeConeT(2), ZeroConeT(1), NonnegativeConeT(2)], vec![1.0, inf, 0.5, 1.0, inf], "inf bounds in two NN cones around a zero cone"));
        out.push(mk(vec![NonnegativeConeT(3), SecondOrderConeT(3), NonnegativeConeT(2), NonnegativeConeT(1)], vec![inf, 1.0, inf, 2.0, 0.0, 0.0, inf, 1.0, 1.0], "inf bounds in three NN cones, SOC between"));
        out.push(mk(vec![NonnegativeConeT(2), ZeroConeT(1), NonnegativeConeT(2)], vec![inf, inf, 0.5, 1.0, 2.0], "a whole NN cone infinite, the later one finite"));
        out.push(mk(vec![SecondOrderConeT(3), NonnegativeConeT(2)], vec![inf, 0.0, 0.0, 1.0, inf], "inf bound inside a SOC (kept) and in a NN cone (dropped)"));
        out.push(mk(vec![NonnegativeConeT(4)], vec![inf, inf, inf, inf], "every constraint infinite"));
    }
    // many cones of one kind (the header elides long lists)
    {
        let cones: Vec<SupportedConeT<f64>> = vec![2usize, 3, 2, 4, 3, 4, 5, 2, 3].into_iter().map(SecondOrderConeT).collect();
        out.push(planted(rng, 4, cones, 1));
        let mut cones: Vec<SupportedConeT<f64>> = vec![];
        for k in 0..7 { cones.push(ZeroConeT(1 + k % 3)); cones.push(ExponentialConeT()); }
        out.push(planted(rng, 5, cones, 2));
        let cones: Vec<SupportedConeT<f64>> = (0..8).flat_map(|k| vec![NonnegativeConeT(1 + k), SecondOrderConeT(2 + k % 2)]).collect();
        out.push(planted(rng, 3, cones, 0));
    }
    // box QPs whose intermediate figures overflow: min 1/2 ps |x|^2 + qs (x1 - x2), -bs <= as x <= bs
    for &(qs, ps, bs, as_) in &[(1e155, 1.0, 1e155, 1.0), (1e300, 1e300, 1e300, 1e300), (1e300, 0.0, 1.0, 1.0), (1e200, 1e-200, 1e200, 1e-100)] {
        let n = 2;
        let mut rows = vec![];
        for i in 0..n { let mut r = vec![0.0; n]; r[i] = as_; rows.push(r); }
        for i in 0..n { let mut r = vec![0.0; n]; r[i] = -as_; rows.push(r); }
        let mut Pd = vec![vec![0.0; n]; n];
        for i in 0..n { Pd[i][i] = ps; }
        out.push(Prob { P: dense_to_csc(&Pd, n, n), q: vec![qs, -qs], A: dense_to_csc(&rows, 2 * n, n), b: vec![bs; 2 * n],
            cones: vec![NonnegativeConeT(2 * n)], label: format!("box QP scaled by q={:e} P={:e} b={:e} A={:e}", qs, ps, bs, as_), intent: 3 });
    }
    // extreme magnitudes
    for &sc in &[1e-150, 1e-50, 1e50, 1e150] {
        let mut p = planted(rng, 2, vec![NonnegativeConeT(2), ZeroConeT(1)], 1);
        for v in p.b.iter_mut() {
            *v *= sc;
        }
        for v in p.q.iter_mut() {
            *v *= sc;
        }
        p.label = format!("b,q scaled by {:e}", sc);
        p.intent = 3;
        out.push(p);
        let mut p = planted(rng, 2, vec![SecondOrderConeT(3)], 2);
        for v in p.A.nzval.iter_mut() {
            *v *= sc;
        }
        p.label = format!("A scaled by {:e}", sc);
        p.intent = 3;
        out.push(p);
    }
    out
}

/// the standard mixed stream
pub fn mixed_stream(rng: &mut Rng, count: usize, max_n: usize, with_psd: bool) -> Vec<Prob> {
    let mut out = vec![];
    let kinds_sym: Vec<u8> = if with_psd { vec![0, 1, 1, 2, 2, 6] } else { vec![0, 1, 1, 2, 2] };
    let kinds_all: Vec<u8> = if with_psd { vec![0, 1, 2, 3, 4, 5, 6] } else { vec![0, 1, 2, 3, 4, 5] };
    for k in 0..count {
        let n = 1 + rng.below(max_n);
        let ncones = 1 + rng.below(3);
        let kinds = if k % 3 == 0 { &kinds_all } else if k % 3 == 1 { &kinds_sym } else { &kinds_all };
        let cones: Vec<_> = (0..ncones).map(|_| random_cone(rng, kinds)).collect();
        let p = match k % 7 {
            5 => primal_infeasible(rng, n, cones),
            6 => dual_infeasible(rng, n, cones),
            _ => {
                let pk = rng.below(3);
                planted(rng, n, cones, pk)
            }
        };
        out.push(p);
    }
    out
}

/// Sum-of-exponentials / geometric-mean style problems whose line searches need many
/// backtracking steps (steep exponentials, data scaled by `scale`):
///   min c'x + sum t_i  s.t.  (a_i'x + b_i, 1, t_i) in Kexp (or a power-cone row), -5 <= x <= 5
pub fn steep_nonsym(rng: &mut Rng, n: usize, mc: usize, scale: f64, with_pow: bool) -> Prob {
    let nv = n + mc;
    let rows = 3 * mc + 2 * n;
    let mut dense = vec![vec![0.0; nv]; rows];
    let mut b = vec![0.0; rows];
    let mut cones: Vec<SupportedConeT<f64>> = vec![];
    for i in 0..mc {
        let pow = with_pow && i % 2 == 1;
        for j in 0..n {
            dense[3 * i][j] = -scale * (2.0 * rng.unit() - 1.0);
        }
        b[3 * i] = scale * (2.0 * rng.unit() - 1.0);
        if pow {
            // (x-part + b0, 1 + small, t_i) in Kpow(alpha): |t| <= u^a v^(1-a) with u = a'x + b0 + 6 scale
            b[3 * i] += 6.0 * scale * (n as f64 + 1.0);
            b[3 * i + 1] = 1.0;
            dense[3 * i + 2][n + i] = 1.0;
            cones.push(PowerConeT(((1 + rng.below(63)) as f64) / 64.0));
        } else {
            b[3 * i + 1] = 1.0;
            dense[3 * i + 2][n + i] = -1.0;
            cones.push(ExponentialConeT());
        }
    }
    for j in 0..n {
        dense[3 * mc + j][j] = 1.0;
        b[3 * mc + j] = 5.0;
        dense[3 * mc + n + j][j] = -1.0;
        b[3 * mc + n + j] = 5.0;
    }
    cones.push(NonnegativeConeT(2 * n));
    let mut q = vec![1.0; nv];
    for (i, c) in cones.iter().enumerate() {
        if let PowerConeT(_) = c { q[n + i] = -1.0; }
    }
    for qj in q.iter_mut().take(n) {
        *qj = 2.0 * rng.unit() - 1.0;
    }
    let label = format!("steep nonsymmetric n={} cones={} scale={} pow={}", n, mc, scale, with_pow);
    Prob { P: CscMatrix::zeros((nv, nv)), q, A: dense_to_csc(&dense, rows, nv), b, cones, label, intent: 3 }
}

/// dense rows -> CSC (public wrapper)
pub fn dense_rows_to_csc(rows: &[Vec<f64>], m: usize, n: usize) -> CscMatrix<f64> {
    dense_to_csc(rows, m, n)
}
