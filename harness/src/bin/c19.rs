//! C19: JSON save / load vs. the Coq model (Json/Model.v, checkers in Json/Check.v).
//!
//! c19 --out FILE [--seed N] [--tier quick|thorough] [--replay FILE]
//!
//! Two streams.  Round trips ("rt"): a generated problem is built, saved, loaded back twice
//! (stored settings / override settings), solved; every observable is printed as a Coq term,
//! the saved file's text is passed on verbatim (vp/c19.py parses it with Python's json into
//! the AST).  Faults ("fault"): mutated files are loaded under catch_unwind + watchdog.
#![allow(non_snake_case)]
#![allow(clippy::all)]
#[path = "../blas_shim.rs"]
mod blas_shim;
#[path = "../common.rs"]
mod common;
use clarabel::{algebra::*, solver::*};
use common::*;
use serde_json::{json, Value};
use std::collections::HashSet;
use std::io::{Read, Seek, SeekFrom, Write};

// ------------------------------------------------------------------ settings table
#[derive(Clone, Debug, PartialEq)]
enum SV {
    U(u32),
    F(f64),
    B(bool),
    S(String),
}
macro_rules! sv_get {
    (U, $e:expr) => { SV::U($e) };
    (F, $e:expr) => { SV::F($e) };
    (B, $e:expr) => { SV::B($e) };
    (S, $e:expr) => { SV::S($e.clone()) };
}
macro_rules! sv_set {
    (U, $e:expr, $v:expr) => { if let SV::U(x) = $v { $e = *x } else { panic!("type") } };
    (F, $e:expr, $v:expr) => { if let SV::F(x) = $v { $e = *x } else { panic!("type") } };
    (B, $e:expr, $v:expr) => { if let SV::B(x) = $v { $e = *x } else { panic!("type") } };
    (S, $e:expr, $v:expr) => { if let SV::S(x) = $v { $e = x.clone() } else { panic!("type") } };
}
macro_rules! settings_table {
    ($( $k:ident $f:ident ),* $(,)?) => {
        fn settings_snapshot(s: &DefaultSettings<f64>) -> Vec<(&'static str, SV)> {
            vec![ $( (stringify!($f), sv_get!($k, s.$f)) ),* ]
        }
        fn settings_set(s: &mut DefaultSettings<f64>, name: &str, val: &SV) {
            match name { $( stringify!($f) => { sv_set!($k, s.$f, val) } )* _ => panic!("unknown settings field") }
        }
    };
}
// the public fields of DefaultSettings, in declaration order (read / written directly, not via serde)
settings_table!(
    U max_iter, F time_limit, B verbose, F max_step_fraction, F tol_gap_abs, F tol_gap_rel, F tol_feas,
    F tol_infeas_abs, F tol_infeas_rel, F tol_ktratio, F reduced_tol_gap_abs, F reduced_tol_gap_rel,
    F reduced_tol_feas, F reduced_tol_infeas_abs, F reduced_tol_infeas_rel, F reduced_tol_ktratio,
    B equilibrate_enable, U equilibrate_max_iter, F equilibrate_min_scaling, F equilibrate_max_scaling,
    F linesearch_backtrack_step, F min_switch_step_length, F min_terminate_step_length, U max_threads,
    B direct_kkt_solver, S direct_solve_method, B static_regularization_enable,
    F static_regularization_constant, F static_regularization_proportional,
    B dynamic_regularization_enable, F dynamic_regularization_eps, F dynamic_regularization_delta,
    B iterative_refinement_enable, F iterative_refinement_reltol, F iterative_refinement_abstol,
    U iterative_refinement_max_iter, F iterative_refinement_stop_ratio, B presolve_enable,
    B chordal_decomposition_enable, S chordal_decomposition_merge_method, B chordal_decomposition_compact,
    B chordal_decomposition_complete_dual,
);

fn sv_coq(v: &SV) -> String {
    match v {
        SV::U(n) => format!("VU {}%N", n),
        SV::F(x) => format!("VF {}", cfl(*x)),
        SV::B(b) => format!("VB {}", b),
        SV::S(s) => format!("VS {}", cstr(s)),
    }
}
fn cstr(s: &str) -> String {
    format!("\"{}\"%string", s.replace('"', "\"\""))
}
fn settings_coq(s: &DefaultSettings<f64>) -> String {
    clist(&settings_snapshot(s), |(_, v)| sv_coq(v))
}
fn sv_json(v: &SV) -> Value {
    match v {
        SV::U(n) => json!({"U": n}),
        SV::F(x) => json!({"F": format!("{:016x}", x.to_bits())}),
        SV::B(b) => json!({"B": b}),
        SV::S(s) => json!({"S": s}),
    }
}
fn sv_from_json(v: &Value) -> SV {
    if let Some(n) = v.get("U") { return SV::U(n.as_u64().unwrap() as u32); }
    if let Some(x) = v.get("F") { return SV::F(f64::from_bits(u64::from_str_radix(x.as_str().unwrap(), 16).unwrap())); }
    if let Some(b) = v.get("B") { return SV::B(b.as_bool().unwrap()); }
    SV::S(v["S"].as_str().unwrap().to_string())
}

// ------------------------------------------------------------------ problem description
#[derive(Clone, Debug)]
struct Prob {
    P: CscMatrix<f64>,
    q: Vec<f64>,
    A: CscMatrix<f64>,
    b: Vec<f64>,
    cones: Vec<SupportedConeT<f64>>,
    set: Vec<(String, SV)>, // deviations from the default settings
    over: Vec<(String, SV)>, // deviations from default of the override settings used at load #2
    live: Vec<(String, SV)>, // public settings fields changed on the live solver between construction and save
}
fn fbits(v: &[f64]) -> Value { Value::Array(v.iter().map(|x| json!(format!("{:016x}", x.to_bits()))).collect()) }
fn bits_f(v: &Value) -> Vec<f64> {
    v.as_array().unwrap().iter().map(|x| f64::from_bits(u64::from_str_radix(x.as_str().unwrap(), 16).unwrap())).collect()
}
fn csc_json(a: &CscMatrix<f64>) -> Value {
    json!({"m": a.m, "n": a.n, "colptr": a.colptr, "rowval": a.rowval, "nzval": fbits(&a.nzval)})
}
fn csc_from(v: &Value) -> CscMatrix<f64> {
    CscMatrix { m: v["m"].as_u64().unwrap() as usize, n: v["n"].as_u64().unwrap() as usize,
        colptr: usize_vec(&v["colptr"]), rowval: usize_vec(&v["rowval"]), nzval: bits_f(&v["nzval"]) }
}
fn cone_json(c: &SupportedConeT<f64>) -> Value {
    match c {
        SupportedConeT::ZeroConeT(d) => json!({"Z": d}),
        SupportedConeT::NonnegativeConeT(d) => json!({"NN": d}),
        SupportedConeT::SecondOrderConeT(d) => json!({"SOC": d}),
        SupportedConeT::ExponentialConeT() => json!({"EXP": 0}),
        SupportedConeT::PowerConeT(a) => json!({"POW": fbits(&[*a])}),
        SupportedConeT::GenPowerConeT(a, d) => json!({"GP": fbits(a), "d": d}),
        SupportedConeT::PSDTriangleConeT(d) => json!({"PSD": d}),
    }
}
fn cone_from(v: &Value) -> SupportedConeT<f64> {
    let u = |k: &str| v[k].as_u64().unwrap() as usize;
    if v.get("Z").is_some() { SupportedConeT::ZeroConeT(u("Z")) }
    else if v.get("NN").is_some() { SupportedConeT::NonnegativeConeT(u("NN")) }
    else if v.get("SOC").is_some() { SupportedConeT::SecondOrderConeT(u("SOC")) }
    else if v.get("EXP").is_some() { SupportedConeT::ExponentialConeT() }
    else if v.get("POW").is_some() { SupportedConeT::PowerConeT(bits_f(&v["POW"])[0]) }
    else if v.get("GP").is_some() { SupportedConeT::GenPowerConeT(bits_f(&v["GP"]), u("d")) }
    else { SupportedConeT::PSDTriangleConeT(u("PSD")) }
}
impl Prob {
    fn json(&self) -> Value {
        json!({"P": csc_json(&self.P), "q": fbits(&self.q), "A": csc_json(&self.A), "b": fbits(&self.b),
               "cones": self.cones.iter().map(cone_json).collect::<Vec<_>>(),
               "set": self.set.iter().map(|(k, v)| json!([k, sv_json(v)])).collect::<Vec<_>>(),
               "over": self.over.iter().map(|(k, v)| json!([k, sv_json(v)])).collect::<Vec<_>>(),
               "live": self.live.iter().map(|(k, v)| json!([k, sv_json(v)])).collect::<Vec<_>>()})
    }
    fn from_json(v: &Value) -> Prob {
        let kv = |a: &Value| a.as_array().map(|x| x.clone()).unwrap_or_default().iter().map(|p| (p[0].as_str().unwrap().to_string(), sv_from_json(&p[1]))).collect();
        Prob { P: csc_from(&v["P"]), q: bits_f(&v["q"]), A: csc_from(&v["A"]), b: bits_f(&v["b"]),
               cones: v["cones"].as_array().unwrap().iter().map(cone_from).collect(), set: kv(&v["set"]), over: kv(&v["over"]), live: kv(&v["live"]) }
    }
    fn settings(&self) -> DefaultSettings<f64> {
        let mut s = DefaultSettings::<f64>::default();
        s.verbose = false;
        for (k, v) in &self.set { settings_set(&mut s, k, v); }
        s
    }
    fn override_settings(&self) -> DefaultSettings<f64> {
        // raw view: no scaling, no reductions, so that the loaded solver's data are the file's contents
        let mut s = DefaultSettings::<f64>::default();
        s.verbose = false;
        s.equilibrate_enable = false;
        s.presolve_enable = false;
        s.chordal_decomposition_enable = false;
        s.max_iter = 77;
        for (k, v) in &self.over { settings_set(&mut s, k, v); }
        s
    }
}

// ------------------------------------------------------------------ Coq printers
fn csc_coq(a: &CscMatrix<f64>) -> String {
    format!("(@mkCsc float {} {} {} {} {})", cn(a.m), cn(a.n), cnlist(&a.colptr), cnlist(&a.rowval), cfllist(&a.nzval))
}
fn cone_coq(c: &SupportedConeT<f64>) -> String {
    match c {
        SupportedConeT::ZeroConeT(d) => format!("ZeroC {}", cn(*d)),
        SupportedConeT::NonnegativeConeT(d) => format!("NonnegC {}", cn(*d)),
        SupportedConeT::SecondOrderConeT(d) => format!("SocC {}", cn(*d)),
        SupportedConeT::ExponentialConeT() => "ExpC".to_string(),
        SupportedConeT::PowerConeT(a) => format!("PowC {}", cfl(*a)),
        SupportedConeT::GenPowerConeT(a, d) => format!("GenPowC {} {}", cfllist(a), cn(*d)),
        SupportedConeT::PSDTriangleConeT(d) => format!("PsdC {}", cn(*d)),
    }
}
fn problem_coq(P: &CscMatrix<f64>, q: &[f64], A: &CscMatrix<f64>, b: &[f64], cones: &[SupportedConeT<f64>], set: &str) -> String {
    format!("(@mkProblem float {} {} {} {} {} {})", csc_coq(P), cfllist(q), csc_coq(A), cfllist(b), clist(cones, cone_coq), set)
}

// ------------------------------------------------------------------ files
fn tmpfile(tag: &str) -> std::fs::File {
    let p = format!("c19_tmp_{}_{}.json", std::process::id(), tag);
    std::fs::OpenOptions::new().read(true).write(true).create(true).truncate(true).open(p).unwrap()
}
fn file_with(bytes: &[u8], tag: &str) -> std::fs::File {
    let mut f = tmpfile(tag);
    f.write_all(bytes).unwrap();
    f.seek(SeekFrom::Start(0)).unwrap();
    f
}
fn status_name(s: SolverStatus) -> String { format!("{:?}", s) }
fn status_code(s: &str) -> usize {
    ["Unsolved", "Solved", "PrimalInfeasible", "DualInfeasible", "AlmostSolved", "AlmostPrimalInfeasible",
     "AlmostDualInfeasible", "MaxIterations", "MaxTime", "NumericalError", "InsufficientProgress", "Panicked"]
        .iter().position(|x| *x == s).unwrap_or(99)
}

/// run with a watchdog: None = did not finish within `secs`
fn watchdog<R: Send + 'static>(secs: u64, f: impl FnOnce() -> R + Send + 'static) -> Option<R> {
    let (tx, rx) = std::sync::mpsc::channel();
    std::thread::spawn(move || { let r = f(); let _ = tx.send(r); });
    rx.recv_timeout(std::time::Duration::from_secs(secs)).ok()
}

// ------------------------------------------------------------------ round trips
fn solve_obs(s: &mut DefaultSolver<f64>) -> (String, f64, u32) {
    match guarded(|| { s.solve(); (status_name(s.solution.status), s.solution.obj_val, s.solution.iterations) }) {
        Some(r) => r,
        None => ("Panicked".to_string(), 0.0, 0),
    }
}

static PROGRESS: std::sync::atomic::AtomicU64 = std::sync::atomic::AtomicU64::new(0);
fn tick() { PROGRESS.fetch_add(1, std::sync::atomic::Ordering::Relaxed); }
/// process-level watchdog: a single case that makes no progress for 90 s aborts the run (exit 3)
fn start_process_watchdog() {
    std::thread::spawn(|| {
        let mut last = 0; let mut stale = 0;
        loop {
            std::thread::sleep(std::time::Duration::from_secs(5));
            let cur = PROGRESS.load(std::sync::atomic::Ordering::Relaxed);
            if cur == last { stale += 5; } else { stale = 0; last = cur; }
            if stale >= 90 { eprintln!("c19 harness: no progress for 90 s after {} steps (hang)", cur); std::process::exit(3); }
        }
    });
}

fn roundtrip(sink: &mut CaseSink, pr: &Prob, tags: &[&str]) {
    tick();
    let settings = pr.settings();
    let input = pr.json();
    // the settings the solver holds when it is saved (public fields may be changed on the live solver)
    let mut save_settings = settings.clone();
    for (k, v) in &pr.live { settings_set(&mut save_settings, k, v); }
    let user = problem_coq(&pr.P, &pr.q, &pr.A, &pr.b, &pr.cones, &settings_coq(&save_settings));
    let mut rec = json!({"kind": "rt", "input": input, "tags": tags, "user": user, "live": !pr.live.is_empty()});
    let s0 = guarded(|| DefaultSolver::<f64>::new(&pr.P, &pr.q, &pr.A, &pr.b, &pr.cones, settings.clone()));
    let mut s0 = match s0 {
        Some(s) => s,
        None => { rec["skipped"] = json!("constructor panicked on the generated problem"); sink.record(rec); return; }
    };
    let (pre, cho) = clarabel::verif_hooks::c19::reduction_active(&s0.data);
    rec["reduced"] = json!(pre || cho);
    rec["presolved"] = json!(pre);
    rec["decomposed"] = json!(cho);
    rec["eq"] = json!(settings.equilibrate_enable);
    rec["k"] = json!(settings.equilibrate_max_iter);
    rec["infbound"] = json!(cfl(clarabel::get_infinity()));
    let d = &s0.data;
    rec["internal"] = json!(format!("(@mkInternal float {} {} {} {} {} {} {} {})", csc_coq(&d.P), cfllist(&d.q), csc_coq(&d.A),
        cfllist(&d.b), clist(&d.cones, cone_coq), cfllist(&d.equilibration.dinv), cfllist(&d.equilibration.einv), cfl(d.equilibration.c)));
    // mutate public settings fields on the live solver, then
    // save (before solving; the data do not change during a solve)
    for (k, v) in &pr.live { settings_set(&mut s0.settings, k, v); }
    let mut file = tmpfile("rt");
    let saved = guarded(|| s0.save_to_file(&mut file).map_err(|e| e.to_string()));
    match saved {
        Some(Ok(())) => {}
        Some(Err(e)) => { rec["save"] = json!(format!("err:{}", e)); sink.record(rec); return; }
        None => { rec["save"] = json!("panic"); sink.record(rec); return; }
    }
    rec["save"] = json!("ok");
    file.seek(SeekFrom::Start(0)).unwrap();
    let mut text = String::new();
    file.read_to_string(&mut text).unwrap();
    rec["file"] = json!(text);
    let (st0, obj0, it0) = solve_obs(&mut s0);
    rec["st0"] = json!(status_code(&st0)); rec["st0_name"] = json!(st0); rec["obj0"] = json!(cfl(obj0)); rec["it0"] = json!(it0);
    // load #1: stored settings
    file.seek(SeekFrom::Start(0)).unwrap();
    let l1 = guarded(|| DefaultSolver::<f64>::load_from_file(&mut file, None).map_err(|e| e.to_string()));
    match l1 {
        Some(Ok(mut s1)) => {
            rec["load1"] = json!("ok");
            rec["load1_set"] = json!(settings_coq(&s1.settings));
            let (st1, obj1, it1) = solve_obs(&mut s1);
            rec["st1"] = json!(status_code(&st1)); rec["st1_name"] = json!(st1); rec["obj1"] = json!(cfl(obj1)); rec["it1"] = json!(it1);
        }
        Some(Err(e)) => { rec["load1"] = json!(format!("err:{}", e)); }
        None => { rec["load1"] = json!("panic"); }
    }
    // load #2: override settings (raw view of the file's data)
    let over = pr.override_settings();
    rec["over"] = json!(settings_coq(&over));
    file.seek(SeekFrom::Start(0)).unwrap();
    let l2 = guarded(|| DefaultSolver::<f64>::load_from_file(&mut file, Some(over.clone())).map_err(|e| e.to_string()));
    match l2 {
        Some(Ok(s2)) => {
            rec["load2"] = json!("ok");
            let d = &s2.data;
            rec["load2_view"] = json!(problem_coq(&d.P, &d.q, &d.A, &d.b, &d.cones, &settings_coq(&s2.settings)));
        }
        Some(Err(e)) => { rec["load2"] = json!(format!("err:{}", e)); }
        None => { rec["load2"] = json!("panic"); }
    }
    sink.record(rec);
    sink.n += 1;
    sink.flush();
}

// value pools
const MODERATE: [f64; 14] = [1.0, -1.0, 2.0, 0.5, 0.1, -0.3, 3.0, 1.0 / 3.0, 3.141592653589793, -2.5, 0.75, 10.0, -0.01, 7.0];
const EXTREME: [f64; 12] = [1e300, -1e300, 1e-300, -1e-300, 5e-324, -5e-324, 1.1125369292536007e-308, -0.0, 1.7976931348623157e308, 2.2250738585072014e-308, 1e19, -1e19];
const EXTREME_EQ: [f64; 8] = [1e290, -1e290, 1e-290, -1e-290, 1e150, 1e-150, -0.0, 1e19];

fn interior(c: &SupportedConeT<f64>) -> Vec<f64> {
    match c {
        SupportedConeT::ZeroConeT(d) => vec![0.0; *d],
        SupportedConeT::NonnegativeConeT(d) => vec![1.0; *d],
        SupportedConeT::SecondOrderConeT(d) => { let mut v = vec![0.5; *d]; if *d > 0 { v[0] = 2.0; } v }
        SupportedConeT::ExponentialConeT() => vec![-1.0, 1.0, 1.0],
        SupportedConeT::PowerConeT(_) => vec![1.0, 1.0, 0.1],
        SupportedConeT::GenPowerConeT(a, d) => { let mut v = vec![1.0; a.len()]; v.extend(vec![0.1; *d]); v }
        SupportedConeT::PSDTriangleConeT(d) => {
            let mut v = vec![0.0; d * (d + 1) / 2];
            for j in 0..*d { v[j * (j + 3) / 2] = 1.0; }
            v
        }
    }
}
fn cone_nvars(c: &SupportedConeT<f64>) -> usize { interior(c).len() }

fn gen_cones(rng: &mut Rng, mode: usize) -> Vec<SupportedConeT<f64>> {
    let gp_alphas: [&[f64]; 4] = [&[0.5, 0.5], &[0.25, 0.75], &[0.2, 0.3, 0.5], &[1.0]];
    let mut cones = vec![];
    if mode == 6 && rng.chance(1, 2) { return cones; }
    let k = 1 + rng.below(4);
    for _ in 0..k {
        let c = match rng.below(if mode == 5 { 8 } else { 7 }) {
            0 => SupportedConeT::ZeroConeT(rng.below(3)),
            1 => SupportedConeT::NonnegativeConeT(rng.below(4)),
            2 => SupportedConeT::SecondOrderConeT(rng.below(5)),
            3 => SupportedConeT::ExponentialConeT(),
            4 => SupportedConeT::PowerConeT(*rng.pick(&[0.5, 0.25, 0.7, 1.0 / 3.0])),
            5 => { let a = rng.pick(&gp_alphas).to_vec(); SupportedConeT::GenPowerConeT(a, rng.below(3)) }
            6 => SupportedConeT::PSDTriangleConeT(rng.below(4)),
            _ => SupportedConeT::PSDTriangleConeT(4 + rng.below(2)),
        };
        cones.push(c);
    }
    if mode == 5 { cones.push(SupportedConeT::PSDTriangleConeT(4 + rng.below(2))); }
    if mode == 4 || mode == 7 { cones.push(SupportedConeT::NonnegativeConeT(2 + rng.below(2))); }
    cones
}

fn gen_problem(rng: &mut Rng, idx: usize, mode: usize) -> Prob {
    let cones = gen_cones(rng, mode);
    let m: usize = cones.iter().map(cone_nvars).sum();
    let n = 1 + rng.below(4);
    let eq_on = matches!(mode, 1 | 3 | 4 | 5) || (mode == 6 && rng.chance(1, 2)) || (mode == 9 && idx % 20 < 10 || mode == 9 && rng.chance(1, 3));
    let pool: &[f64] = match mode { 2 => &EXTREME, 3 => &EXTREME_EQ, _ => &MODERATE };
    let val = |rng: &mut Rng| -> f64 {
        if (mode == 2 || mode == 3) && rng.chance(1, 2) { *rng.pick(&MODERATE) } else { *rng.pick(pool) }
    };
    // P: symmetric; stored full or as upper triangle; possibly empty
    let emptyP = (mode == 6 && rng.chance(1, 2)) || rng.chance(1, 8);
    let full = rng.chance(1, 2);
    let mut dense = vec![vec![None; n]; n];
    if !emptyP {
        for j in 0..n {
            for i in 0..=j {
                if i == j { dense[i][j] = Some(if mode == 2 || mode == 3 { val(rng).abs() } else { 1.0 + rng.below(4) as f64 + 0.1 * rng.below(3) as f64 }); }
                else if rng.chance(1, 3) { let v = if mode == 2 || mode == 3 { val(rng) } else { 0.25 * (rng.below(5) as f64 - 2.0) }; dense[i][j] = Some(v); dense[j][i] = Some(v); }
            }
        }
    }
    let (mut cp, mut rv, mut nz) = (vec![0usize], vec![], vec![]);
    for j in 0..n {
        for i in 0..n {
            if !full && i > j { continue; }
            if let Some(v) = dense[i][j] { rv.push(i); nz.push(v); }
        }
        cp.push(rv.len());
    }
    let P = CscMatrix { m: n, n, colptr: cp, rowval: rv, nzval: nz };
    // A
    let emptyA = mode == 6 && rng.chance(1, 3);
    let (mut cp, mut rv, mut nz) = (vec![0usize], vec![], vec![]);
    for j in 0..n {
        for i in 0..m {
            // chordal mode: keep the big PSD block sparse (only diagonal-ish rows get entries)
            let dens = if mode == 5 { 4 } else { 2 };
            if !emptyA && rng.chance(1, dens) { rv.push(i); nz.push(val(rng)); }
            let _ = j;
        }
        cp.push(rv.len());
    }
    let A = CscMatrix { m, n, colptr: cp, rowval: rv, nzval: nz };
    let q: Vec<f64> = (0..n).map(|_| val(rng)).collect();
    // b = A x0 + s0 (feasible) for moderate data, pool values otherwise
    let mut b: Vec<f64> = vec![0.0; m];
    if mode == 2 || mode == 3 {
        for v in b.iter_mut() { *v = val(rng); }
    } else {
        let x0: Vec<f64> = (0..n).map(|_| 0.5 * (rng.below(5) as f64 - 2.0)).collect();
        let mut k = 0;
        for c in &cones { for v in interior(c) { b[k] = v; k += 1; } }
        for j in 0..n { for p in A.colptr[j]..A.colptr[j + 1] { b[A.rowval[p]] += A.nzval[p] * x0[j]; } }
    }
    if mode == 4 || mode == 7 {
        // "infinite" bounds in the trailing nonnegative cone
        let big = [1e20, 1e300, 2e20, 1e25];
        b[m - 1] = *rng.pick(&big);
        if rng.chance(1, 2) { b[m - 2] = *rng.pick(&big); }
    }
    // settings: field (idx mod 42) perturbed, plus two random ones
    let mut set: Vec<(String, SV)> = vec![];
    let names = settings_snapshot(&DefaultSettings::<f64>::default());
    let mut picks = vec![idx % names.len(), rng.below(names.len()), rng.below(names.len())];
    picks.dedup();
    for p in picks {
        let (name, dv) = &names[p];
        let nv = match (*name, dv) {
            ("verbose", _) => SV::B(false),
            ("direct_kkt_solver", _) => SV::B(true),
            ("equilibrate_enable", _) | ("presolve_enable", _) | ("chordal_decomposition_enable", _) => continue, // fixed by the mode below
            ("time_limit", _) => SV::F(*rng.pick(&[f64::INFINITY, 1000.0, 12345.678, 1e300])),
            ("direct_solve_method", _) => SV::S(rng.pick(&["auto", "qdldl", "faer"]).to_string()),
            ("chordal_decomposition_merge_method", _) => SV::S(rng.pick(&["none", "parent_child", "clique_graph"]).to_string()),
            ("max_iter", _) => SV::U(1 + rng.below(60) as u32),
            ("max_threads", _) => SV::U(rng.below(3) as u32),
            ("equilibrate_max_iter", _) => SV::U(rng.below(14) as u32),
            ("equilibrate_min_scaling", SV::F(_)) => SV::F(*rng.pick(&[1e-4, 1e-3, 0.01, 0.37])),
            ("equilibrate_max_scaling", SV::F(_)) => SV::F(*rng.pick(&[1e4, 1e3, 100.0, 2.5])),
            (_, SV::U(u)) => SV::U(u + 1 + rng.below(5) as u32),
            // step-size parameters must stay below 1 (a backtracking factor >= 1 never terminates)
            ("max_step_fraction", SV::F(x)) | ("linesearch_backtrack_step", SV::F(x)) | ("min_switch_step_length", SV::F(x))
            | ("min_terminate_step_length", SV::F(x)) => SV::F(x * *rng.pick(&[0.5, 0.9, 0.75, 1.0 / 3.0])),
            (_, SV::F(x)) => SV::F(x * *rng.pick(&[0.5, 2.0, 1.1, 0.9, 3.0, 1.0 / 3.0])),
            (_, SV::B(b)) => SV::B(!b),
            (_, SV::S(s)) => SV::S(s.clone()),
        };
        set.push((name.to_string(), nv));
    }
    set.push(("equilibrate_enable".into(), SV::B(eq_on)));
    set.push(("presolve_enable".into(), SV::B(mode != 7 && (mode == 4 || rng.chance(1, 2)))));
    set.push(("chordal_decomposition_enable".into(), SV::B(mode == 5 || rng.chance(1, 2))));
    if mode == 8 { set.push(("time_limit".into(), SV::F(f64::MAX))); }
    // override settings for load #2: a couple of perturbed fields
    let mut over: Vec<(String, SV)> = vec![];
    let p = (idx * 7 + 3) % names.len();
    let (name, dv) = &names[p];
    match (*name, dv) {
        ("verbose", _) | ("direct_kkt_solver", _) | ("equilibrate_enable", _) | ("presolve_enable", _) | ("chordal_decomposition_enable", _)
        | ("direct_solve_method", _) | ("chordal_decomposition_merge_method", _) => {}
        ("time_limit", _) => over.push((name.to_string(), SV::F(*rng.pick(&[f64::INFINITY, 55.5, f64::MAX])))),
        (_, SV::U(u)) => over.push((name.to_string(), SV::U(u + 3))),
        (_, SV::F(x)) => over.push((name.to_string(), SV::F(x * 1.25))),
        (_, SV::B(b)) => over.push((name.to_string(), SV::B(!b))),
        _ => {}
    }
    // live mutations (mode 9): flags toggled both ways, tolerances / limits changed after construction
    let mut live: Vec<(String, SV)> = vec![];
    if mode == 9 {
        let cur = |set: &Vec<(String, SV)>, k: &str| -> bool { set.iter().rev().find(|(n, _)| n == k).map(|(_, v)| *v == SV::B(true)).unwrap_or(true) };
        if rng.chance(3, 4) { live.push(("equilibrate_enable".into(), SV::B(!cur(&set, "equilibrate_enable")))); }
        if rng.chance(1, 2) { live.push(("presolve_enable".into(), SV::B(!cur(&set, "presolve_enable")))); }
        if rng.chance(1, 2) { live.push(("tol_gap_abs".into(), SV::F(*rng.pick(&[1e-7, 3e-9, 2e-8])))); }
        if rng.chance(1, 3) { live.push(("tol_feas".into(), SV::F(*rng.pick(&[1e-7, 5e-9])))); }
        if rng.chance(1, 3) { live.push(("max_iter".into(), SV::U(100 + rng.below(50) as u32))); }
        if rng.chance(1, 4) { live.push(("time_limit".into(), SV::F(*rng.pick(&[f64::INFINITY, 5000.0])))); }
        if rng.chance(1, 4) { live.push(("equilibrate_max_iter".into(), SV::U(rng.below(5) as u32))); }
        if live.is_empty() { live.push(("equilibrate_enable".into(), SV::B(!cur(&set, "equilibrate_enable")))); }
    }
    Prob { P, q, A, b, cones, set, over, live }
}

fn rt_stream(sink: &mut CaseSink, seed: u64, thorough: bool) -> Value {
    let mut rng = Rng::new(seed ^ 0xC19);
    let total = if thorough { 1600 } else { 350 };
    let mut by_mode = vec![0usize; 10];
    for idx in 0..total {
        let mode = idx % 10;
        let pr = gen_problem(&mut rng, idx, mode);
        let tag = ["eqoff-moderate", "eqon-moderate", "eqoff-extreme", "eqon-extreme", "presolve-reduction", "chordal", "empty", "b-capped", "time-limit-max", "live-settings-mutation"][mode];
        roundtrip(sink, &pr, &[tag]);
        by_mode[mode] += 1;
    }
    json!({"roundtrips": total, "by_mode": by_mode})
}

// ------------------------------------------------------------------ fault stream
/// (outcome of load_from_file, outcome of solving the loaded solver: "" = not attempted)
fn load_observed(bytes: &[u8], solve: bool) -> (String, String) {
    let (a, b, _) = load_observed_with(bytes, solve, None);
    (a, b)
}
/// same with a settings argument; third component: the loaded solver's settings as a Coq term
fn load_observed_with(bytes: &[u8], solve: bool, over: Option<DefaultSettings<f64>>) -> (String, String, String) {
    let data = bytes.to_vec();
    let (tx, rx) = std::sync::mpsc::channel::<String>();
    let r = watchdog(30, move || {
        let mut f = file_with(&data, &format!("ft{:?}", std::thread::current().id()).replace(|c: char| !c.is_alphanumeric(), ""));
        let r = guarded(|| DefaultSolver::<f64>::load_from_file(&mut f, over).map_err(|e| e.to_string()));
        match r {
            None => None,
            Some(Err(e)) => Some(Err(e)),
            Some(Ok(mut s)) => {
                let _ = tx.send("loaded".into());
                let lset = settings_coq(&s.settings);
                if solve {
                    let so = match guarded(|| { s.solve(); status_name(s.solution.status) }) { Some(st) => st, None => "panic".to_string() };
                    Some(Ok((so, lset)))
                } else { Some(Ok((String::new(), lset))) }
            }
        }
    });
    match r {
        None => if rx.try_recv().is_ok() { ("ok".into(), "hang".into(), String::new()) } else { ("hang".into(), String::new(), String::new()) },
        Some(None) => ("panic".into(), String::new(), String::new()),
        Some(Some(Ok((so, lset)))) => ("ok".into(), so, lset),
        Some(Some(Err(e))) => (format!("err:{}", e), String::new(), String::new()),
    }
}
/// a file loaded with a settings argument (override = default, verbose off, plus the listed deviations);
/// accepted files are solved
fn fault_over(sink: &mut CaseSink, seen: &mut HashSet<Vec<u8>>, base: &str, what: &str, bytes: Vec<u8>, over_spec: &Value) {
    tick();
    let mut key = bytes.clone();
    key.extend_from_slice(b"\0override\0");
    key.extend_from_slice(over_spec.to_string().as_bytes());
    if !seen.insert(key) { return; }
    let mut over = DefaultSettings::<f64>::default();
    over.verbose = false;
    for p in over_spec.as_array().unwrap() { settings_set(&mut over, p[0].as_str().unwrap(), &sv_from_json(&p[1])); }
    let syntax_ok = serde_json::from_slice::<Value>(&bytes).is_ok();
    let (observed, solved, lset) = load_observed_with(&bytes, true, Some(over.clone()));
    let mut rec = json!({"kind": "fault", "base": base, "mut": what, "syntax_ok": syntax_ok, "observed": observed, "solve": solved,
                         "over": over_spec, "over_coq": settings_coq(&over), "loaded_set": lset});
    rec["text"] = json!(String::from_utf8_lossy(&bytes).to_string());
    sink.record(rec);
    sink.n += 1;
}
fn fault(sink: &mut CaseSink, seen: &mut HashSet<Vec<u8>>, base: &str, what: &str, bytes: Vec<u8>) {
    tick();
    if !seen.insert(bytes.clone()) { return; }
    let syntax_ok = serde_json::from_slice::<Value>(&bytes).is_ok();
    // files of the settings near-miss stream are also solved after a successful load
    let (observed, solved) = load_observed(&bytes, base.starts_with("settings:") || base.starts_with("override:"));
    let mut rec = json!({"kind": "fault", "base": base, "mut": what, "syntax_ok": syntax_ok, "observed": observed, "solve": solved});
    match String::from_utf8(bytes.clone()) {
        Ok(s) => { rec["text"] = json!(s); }
        Err(_) => { rec["hex"] = json!(bytes.iter().map(|b| format!("{:02x}", b)).collect::<String>()); }
    }
    sink.record(rec);
    sink.n += 1;
}

/// all paths of a JSON value
fn paths(v: &Value, cur: &mut Vec<Value>, out: &mut Vec<Vec<Value>>) {
    out.push(cur.clone());
    match v {
        Value::Array(a) => for (i, x) in a.iter().enumerate() { cur.push(json!(i)); paths(x, cur, out); cur.pop(); },
        Value::Object(o) => for (k, x) in o.iter() { cur.push(json!(k)); paths(x, cur, out); cur.pop(); },
        _ => {}
    }
}
fn at<'a>(v: &'a mut Value, p: &[Value]) -> &'a mut Value {
    let mut cur = v;
    for k in p { cur = match k { Value::String(s) => cur.get_mut(s.as_str()).unwrap(), _ => cur.get_mut(k.as_u64().unwrap() as usize).unwrap() }; }
    cur
}
fn remove_at(v: &mut Value, p: &[Value]) {
    let (last, init) = p.split_last().unwrap();
    let parent = at(v, init);
    match (parent, last) {
        (Value::Object(o), Value::String(k)) => { o.remove(k.as_str()); }
        (Value::Array(a), k) => { a.remove(k.as_u64().unwrap() as usize); }
        _ => {}
    }
}

fn structured(sink: &mut CaseSink, seen: &mut HashSet<Vec<u8>>, name: &str, text: &str, stride: usize) {
    let root: Value = serde_json::from_str(text).unwrap();
    let mut ps = vec![];
    paths(&root, &mut vec![], &mut ps);
    let repl = [json!(null), json!(true), json!(0), json!(1), json!(-1), json!(1.5), json!("x"), json!([]), json!({}), json!([[]]), json!(4294967296u64), json!(0.0), json!("qdldl"), json!([1.0]), json!(false)];
    for (pi, p) in ps.iter().enumerate() {
        if p.is_empty() { for r in repl.iter() { fault(sink, seen, name, "root-replace", r.to_string().into_bytes()); } continue; }
        for (ri, r) in repl.iter().enumerate() {
            if stride > 1 && (pi + ri) % stride != 0 { continue; }
            let mut v = root.clone();
            *at(&mut v, p) = r.clone();
            fault(sink, seen, name, &format!("replace {} by {}", json!(p), r), v.to_string().into_bytes());
        }
        let mut v = root.clone();
        remove_at(&mut v, p);
        fault(sink, seen, name, &format!("remove {}", json!(p)), v.to_string().into_bytes());
        let cur = at(&mut root.clone(), p).clone();
        match &cur {
            Value::Number(nm) if nm.is_u64() => {
                let z = nm.as_u64().unwrap();
                for nv in [z + 1, z.saturating_sub(1), z + 2, z * 2 + 1, 1000000] {
                    let mut v = root.clone();
                    *at(&mut v, p) = json!(nv);
                    fault(sink, seen, name, &format!("int {} -> {}", json!(p), nv), v.to_string().into_bytes());
                }
                let mut v = root.clone();
                *at(&mut v, p) = json!(z as f64);
                fault(sink, seen, name, &format!("int {} as float", json!(p)), v.to_string().into_bytes());
            }
            Value::Number(nm) => {
                let x = nm.as_f64().unwrap();
                for nv in [-x, x * 2.0, 0.0, x + 1e-9, 1e300, f64::MAX] {
                    let mut v = root.clone();
                    *at(&mut v, p) = json!(nv);
                    fault(sink, seen, name, &format!("float {} -> {}", json!(p), nv), v.to_string().into_bytes());
                }
                if x == x.trunc() && x.abs() < 1e9 {
                    let mut v = root.clone();
                    *at(&mut v, p) = json!(x as i64);
                    fault(sink, seen, name, &format!("float {} as int", json!(p)), v.to_string().into_bytes());
                }
            }
            Value::Array(a) => {
                let mut v = root.clone();
                if let Value::Array(x) = at(&mut v, p) { if let Some(l) = a.last() { x.push(l.clone()); } else { x.push(json!(0)); } }
                fault(sink, seen, name, &format!("array {} grow", json!(p)), v.to_string().into_bytes());
                if a.len() >= 2 {
                    let mut v = root.clone();
                    if let Value::Array(x) = at(&mut v, p) { x.swap(0, 1); }
                    fault(sink, seen, name, &format!("array {} swap", json!(p)), v.to_string().into_bytes());
                }
            }
            Value::Object(o) => {
                // struct in positional (sequence) form, unknown key, and a renamed key
                let mut v = root.clone();
                *at(&mut v, p) = Value::Array(o.values().cloned().collect());
                fault(sink, seen, name, &format!("object {} as array (sorted keys)", json!(p)), v.to_string().into_bytes());
                let mut v = root.clone();
                if let Value::Object(x) = at(&mut v, p) { x.insert("zzz_unknown".into(), json!({"a": [1, 2.5, null, "s"]})); }
                fault(sink, seen, name, &format!("object {} unknown key", json!(p)), v.to_string().into_bytes());
                if let Some((k0, v0)) = o.iter().next() {
                    let mut v = root.clone();
                    if let Value::Object(x) = at(&mut v, p) { x.remove(k0.as_str()); x.insert(format!("{}x", k0), v0.clone()); }
                    fault(sink, seen, name, &format!("object {} rename key {}", json!(p), k0), v.to_string().into_bytes());
                    // duplicate key (text level: the serializer cannot produce it)
                }
            }
            _ => {}
        }
    }
}

/// declaration-order positional forms and duplicate keys, done on the text
fn text_level(sink: &mut CaseSink, seen: &mut HashSet<Vec<u8>>, name: &str, text: &str) {
    let subs: Vec<(&str, &str)> = vec![
        ("\"m\":", "\"m\":1,\"m\":"), ("\"q\":", "\"q\":[],\"q\":"), ("\"settings\":", "\"settings\":{},\"settings\":"),
        ("\"max_iter\":", "\"max_iter\":5,\"max_iter\":"), ("\"cones\":", "\"zzz\":1,\"zzz\":2,\"cones\":"),
        ("{\"NonnegativeConeT\":", "{\"ZeroConeT\":1,\"NonnegativeConeT\":"), ("{\"ExponentialConeT\":[]}", "\"ExponentialConeT\""),
        ("{\"ExponentialConeT\":[]}", "{\"ExponentialConeT\":null}"), ("{\"ExponentialConeT\":[]}", "{\"ExponentialConeT\":[1]}"),
        ("{\"ExponentialConeT\":[]}", "{\"ExponentialConeT\":{}}"), ("NonnegativeConeT", "NonNegativeConeT"), ("SecondOrderConeT", "PSDTriangleConeT"),
        ("PSDTriangleConeT", "SecondOrderConeT"), ("\"auto\"", "\"foo\""), ("\"qdldl\"", "\"foo\""), ("\"qdldl\"", "\"faer\""), ("\"clique_graph\"", "\"foo\""),
        ("\"clique_graph\"", "\"none\""), ("\"direct_kkt_solver\":true", "\"direct_kkt_solver\":false"), ("1.7976931348623157e308", "null"),
        ("1.7976931348623157e308", "1e999"), ("[[0.5,0.5],", "[[0.5,0.6],"), ("[[0.5,0.5],", "[[0.5,-0.5,1.0],"), ("[[0.5,0.5],", "[[1,0],"), ("[[0.5,0.5],", "[[1],"),
        ("[[0.5,0.5],", "[[0.5,0.5,0.0],"), ("[[0.5,0.5],", "[[0.5,0.5000000000000001],"), ("[[0.5,0.5],1]", "[[0.5,0.5],1,2]"), ("[[0.5,0.5],1]", "[[0.5,0.5]]"),
        ("[[0.5,0.5],1]", "{\"0\":[0.5,0.5],\"1\":1}"), ("\"colptr\":[0,", "\"colptr\":[1,"), ("\"colptr\":[0,", "\"colptr\":[-0,"), ("\"verbose\":false", "\"verbose\":0"),
        ("\"verbose\":false", "\"verbose\":\"false\""), ("\"P\":{", "\"P\":[{"), ("\"n\":", "\"n\":18446744073709551615,\"k\":"), ("\"max_iter\":", "\"max_iter\":-1,\"k\":"),
        ("\"max_iter\":", "\"max_iter\":4294967295,\"k\":"), ("\"max_iter\":", "\"max_iter\":2e1,\"k\":"), (":", " : "), (",", " ,\n\t"),
    ];
    for (a, b) in subs {
        if let Some(pos) = text.find(a) {
            let mut t = String::new();
            t.push_str(&text[..pos]); t.push_str(b); t.push_str(&text[pos + a.len()..]);
            fault(sink, seen, name, &format!("text {} -> {}", a, b), t.into_bytes());
        }
        if a.len() <= 2 { fault(sink, seen, name, &format!("text all {} -> {}", a, b), text.replace(a, b).into_bytes()); }
    }
    // the whole document / each struct in declaration-order positional form
    if let Ok(root) = serde_json::from_str::<Value>(text) {
        let csc_seq = |v: &Value| json!([v["m"], v["n"], v["colptr"], v["rowval"], v["nzval"]]);
        let mut v = root.clone();
        v["P"] = csc_seq(&root["P"]);
        fault(sink, seen, name, "P positional", v.to_string().into_bytes());
        let mut v = root.clone();
        v["A"] = json!([root["A"]["m"], root["A"]["n"], root["A"]["colptr"], root["A"]["rowval"]]);
        fault(sink, seen, name, "A positional, too short", v.to_string().into_bytes());
        let mut v = root.clone();
        v["A"] = json!([root["A"]["m"], root["A"]["n"], root["A"]["colptr"], root["A"]["rowval"], root["A"]["nzval"], 1]);
        fault(sink, seen, name, "A positional, too long", v.to_string().into_bytes());
        let top = json!([root["P"], root["q"], root["A"], root["b"], root["cones"]]);
        fault(sink, seen, name, "document positional without settings", top.to_string().into_bytes());
        let top = json!([root["P"], root["q"], root["A"], root["b"]]);
        fault(sink, seen, name, "document positional, too short", top.to_string().into_bytes());
        let top = json!([csc_seq(&root["P"]), root["q"], csc_seq(&root["A"]), root["b"], root["cones"], [7, 2.5, false]]);
        fault(sink, seen, name, "document positional, settings positional prefix", top.to_string().into_bytes());
        let top = json!([root["P"], root["q"], root["A"], root["b"], root["cones"], [7, 2.5, 3]]);
        fault(sink, seen, name, "document positional, settings positional bad type", top.to_string().into_bytes());
        let top = json!([root["P"], root["q"], root["A"], root["b"], root["cones"], {}, 1]);
        fault(sink, seen, name, "document positional, too long", top.to_string().into_bytes());
    }
}

fn bytewise(sink: &mut CaseSink, seen: &mut HashSet<Vec<u8>>, name: &str, text: &str, stride: usize, subst: bool) {
    let b = text.as_bytes();
    for i in (0..b.len()).step_by(stride) {
        let mut v = b.to_vec();
        v.remove(i);
        fault(sink, seen, name, &format!("delete byte {}", i), v);
        fault(sink, seen, name, &format!("truncate at {}", i), b[..i].to_vec());
    }
    if subst {
        let alphabet: &[u8] = b"09-.e[]{},:\"tn \xff";
        for i in (0..b.len()).step_by(stride) {
            for (k, c) in alphabet.iter().enumerate() {
                if stride > 1 && (i / stride + k) % 4 != 0 { continue; }
                if b[i] == *c { continue; }
                let mut v = b.to_vec();
                v[i] = *c;
                fault(sink, seen, name, &format!("byte {} -> {:?}", i, *c as char), v);
            }
        }
    }
}

const BASE0: &str = r#"{"P":{"m":1,"n":1,"colptr":[0,1],"rowval":[0],"nzval":[2.0]},"q":[1.0],"A":{"m":2,"n":1,"colptr":[0,2],"rowval":[0,1],"nzval":[-1.0,1]},"b":[-2.0,3e0],"cones":[{"NonnegativeConeT":2}],"settings":{"verbose":false,"max_iter":20}}"#;
const BASE1: &str = r#"{"P":{"m":2,"n":2,"colptr":[0,1,2],"rowval":[0,1],"nzval":[2.0,1.5]},"q":[1.0,-1.0],"A":{"m":17,"n":2,"colptr":[0,3,5],"rowval":[0,4,16,1,9],"nzval":[1.0,-1.0,0.5,2.0,1e-3]},"b":[0.0,1.0,1.0,2.0,0.5,-1.0,1.0,1.0,1.0,1.0,0.1,1.0,1.0,0.1,1.0,0.0,1.0],"cones":[{"ZeroConeT":1},{"NonnegativeConeT":2},{"SecondOrderConeT":2},{"ExponentialConeT":[]},{"PowerConeT":0.25},{"GenPowerConeT":[[0.5,0.5],1]},{"PSDTriangleConeT":2}],"settings":{"verbose":false,"time_limit":1.7976931348623157e308,"direct_solve_method":"qdldl","direct_kkt_solver":true,"chordal_decomposition_merge_method":"clique_graph","tol_gap_abs":1e-7,"zzz":[1,{"a":null}]}}"#;

fn saved_base(seed: u64, mode: usize) -> String {
    let mut rng = Rng::new(seed ^ 0xBA5E ^ (mode as u64) << 8);
    loop {
        let pr = gen_problem(&mut rng, 1, mode);
        let settings = pr.settings();
        if let Some(s) = guarded(|| DefaultSolver::<f64>::new(&pr.P, &pr.q, &pr.A, &pr.b, &pr.cones, settings.clone())) {
            let mut f = tmpfile("base");
            if s.save_to_file(&mut f).is_ok() {
                f.seek(SeekFrom::Start(0)).unwrap();
                let mut t = String::new();
                f.read_to_string(&mut t).unwrap();
                if t.len() > 1500 { return t; }
            }
        }
    }
}

fn fault_stream(sink: &mut CaseSink, seed: u64, thorough: bool) -> Value {
    let mut seen = HashSet::new();
    let n0 = sink.n;
    let b2 = saved_base(seed, 1);
    let b3 = saved_base(seed.wrapping_add(1), 0);
    for (name, text) in [("base0", BASE0), ("base1", BASE1)] {
        fault(sink, &mut seen, name, "unchanged", text.as_bytes().to_vec());
        bytewise(sink, &mut seen, name, text, if thorough || name == "base0" { 1 } else { 2 }, thorough);
        structured(sink, &mut seen, name, text, if thorough || name == "base0" { 1 } else { 3 });
        text_level(sink, &mut seen, name, text);
    }
    fault(sink, &mut seen, "base2", "unchanged", b2.as_bytes().to_vec());
    bytewise(sink, &mut seen, "base2", &b2, if thorough { 1 } else { 11 }, thorough);
    structured(sink, &mut seen, "base2", &b2, if thorough { 1 } else { 15 });
    text_level(sink, &mut seen, "base2", &b2);
    if thorough {
        fault(sink, &mut seen, "base3", "unchanged", b3.as_bytes().to_vec());
        bytewise(sink, &mut seen, "base3", &b3, 1, false);
        structured(sink, &mut seen, "base3", &b3, 2);
        text_level(sink, &mut seen, "base3", &b3);
    }
    json!({"faults": sink.n - n0})
}

// ------------------------------------------------------------------ validator / consumer sites
/// near-miss corruptions of an accepted name
fn near_misses(name: &str) -> Vec<String> {
    let mut v = vec![name.to_string(), String::new(), name.to_uppercase(), format!(" {}", name), format!("{} ", name),
                     format!("\t{}", name), format!("{}\n", name), format!("{}x", name), format!("_{}", name), format!("{}\u{0}", name)];
    let chars: Vec<char> = name.chars().collect();
    for i in 0..chars.len() {
        let mut c = chars.clone();
        c[i] = if c[i].is_ascii_lowercase() { c[i].to_ascii_uppercase() } else { c[i].to_ascii_lowercase() };
        v.push(c.iter().collect());
        v.push(chars[..i].iter().collect());          // prefix truncation
        v.push(chars[i + 1..].iter().collect());      // suffix
        // Unicode look-alikes (Cyrillic / fullwidth)
        let look = match chars[i] { 'a' => Some('\u{0430}'), 'o' => Some('\u{043e}'), 'e' => Some('\u{0435}'), 'c' => Some('\u{0441}'), 'p' => Some('\u{0440}'), 'q' => Some('\u{ff51}'), 'l' => Some('\u{ff4c}'), _ => None };
        if let Some(l) = look { let mut c = chars.clone(); c[i] = l; v.push(c.iter().collect()); }
    }
    v
}
fn sites_stream(sink: &mut CaseSink) -> Value {
    // tiny QP reaches get_ldlsolver_config; a tridiagonal PSD(4) problem reaches the merge-strategy match
    let P1 = CscMatrix { m: 1, n: 1, colptr: vec![0, 1], rowval: vec![0], nzval: vec![2.0] };
    let A1 = CscMatrix { m: 1, n: 1, colptr: vec![0, 1], rowval: vec![0], nzval: vec![-1.0] };
    // svec positions of (0,0),(0,1),(1,1),(1,2),(2,2),(2,3),(3,3) in the 4x4 upper triangle
    let rows = vec![0usize, 1, 2, 4, 5, 8, 9];
    let A4 = CscMatrix { m: 10, n: 1, colptr: vec![0, rows.len()], rowval: rows.clone(), nzval: vec![1.0, 0.5, 1.0, 0.5, 1.0, 0.5, 1.0] };
    let mut b4 = vec![0.0; 10];
    for k in [0usize, 2, 5, 9] { b4[k] = 2.0; }
    let mut count = 0;
    let mut seen: HashSet<(usize, String)> = HashSet::new();
    // the consumer of the merge method must actually be reached with a valid name
    let mut st = DefaultSettings::<f64>::default();
    st.verbose = false;
    let reach = guarded(|| { let s = DefaultSolver::<f64>::new(&P1, &[1.0], &A4, &b4, &[SupportedConeT::PSDTriangleConeT(4)], st.clone()); clarabel::verif_hooks::c19::reduction_active(&s.data).1 }).unwrap_or(false);
    sink.record(json!({"kind": "sites_meta", "merge_consumer_reached": reach}));
    for (which, names) in [(0usize, vec!["auto", "qdldl", "faer", "foo"]), (1usize, vec!["none", "parent_child", "clique_graph", "foo"])] {
        for nm in names {
            for cand in near_misses(nm) {
                if !seen.insert((which, cand.clone())) { continue; }
                tick();
                let mut st = DefaultSettings::<f64>::default();
                st.verbose = false;
                let builder_ok;
                if which == 0 {
                    st.direct_solve_method = cand.clone();
                    builder_ok = DefaultSettingsBuilder::<f64>::default().direct_solve_method(cand.clone()).build().is_ok();
                } else {
                    st.chordal_decomposition_merge_method = cand.clone();
                    builder_ok = DefaultSettingsBuilder::<f64>::default().chordal_decomposition_merge_method(cand.clone()).build().is_ok();
                }
                let validator = st.validate().is_ok();
                let consumer = if which == 0 {
                    guarded(|| { let _ = DefaultSolver::<f64>::new(&P1, &[1.0], &A1, &[-2.0], &[SupportedConeT::NonnegativeConeT(1)], st.clone()); }).is_some()
                } else {
                    guarded(|| { let _ = DefaultSolver::<f64>::new(&P1, &[1.0], &A4, &b4, &[SupportedConeT::PSDTriangleConeT(4)], st.clone()); }).is_some()
                };
                sink.record(json!({"kind": "sites", "which": which, "name": cand, "validator": validator, "builder": builder_ok, "consumer": consumer}));
                sink.n += 1;
                count += 1;
            }
        }
    }
    json!({"sites": count})
}

fn main() {
    let args: Vec<String> = std::env::args().collect();
    let mut out = String::from("/dev/stdout");
    let mut seed: u64 = 1;
    let mut tier = String::from("quick");
    let mut replay: Option<String> = None;
    let mut i = 1;
    while i < args.len() {
        match args[i].as_str() {
            "--out" => { out = args[i + 1].clone(); i += 1; }
            "--seed" => { seed = args[i + 1].parse().unwrap_or(1); i += 1; }
            "--tier" => { tier = args[i + 1].clone(); i += 1; }
            "--replay" => { replay = Some(args[i + 1].clone()); i += 1; }
            _ => {}
        }
        i += 1;
    }
    silence_panics();
    start_process_watchdog();
    let thorough = tier == "thorough";
    let mut sink = CaseSink::new(&out);
    if let Some(p) = replay {
        let txt = std::fs::read_to_string(&p).expect("cannot read replay file");
        let v: Value = serde_json::from_str(&txt).expect("replay file is not JSON");
        let cases = match v.get("cases") { Some(Value::Array(a)) => a.clone(), _ => vec![v] };
        let mut seen = HashSet::new();
        for c in cases.iter() {
            match c["kind"].as_str() {
                Some("rt") => roundtrip(&mut sink, &Prob::from_json(&c["input"]), &["replay"]),
                Some("fault") => {
                    let bytes = if let Some(t) = c.get("text").and_then(|t| t.as_str()) { t.as_bytes().to_vec() }
                                else { let h = c["hex"].as_str().unwrap_or(""); (0..h.len() / 2).map(|k| u8::from_str_radix(&h[2 * k..2 * k + 2], 16).unwrap()).collect() };
                    if c.get("over").map(|o| o.is_array()).unwrap_or(false) {
                        fault_over(&mut sink, &mut seen, c["base"].as_str().unwrap_or("replay"), c["mut"].as_str().unwrap_or("replay"), bytes, &c["over"]);
                    } else {
                        fault(&mut sink, &mut seen, c["base"].as_str().unwrap_or("replay"), c["mut"].as_str().unwrap_or("replay"), bytes);
                    }
                }
                _ => {}
            }
        }
    } else {
        let st1 = rt_stream(&mut sink, seed, thorough);
        let st2 = fault_stream(&mut sink, seed, thorough);
        let st3 = sites_stream(&mut sink);
        sink.record(json!({"stats": {"roundtrip": st1, "fault": st2, "sites": st3}}));
    }
    // the default settings as the implementation sees them (model's schema is checked against it)
    sink.record(json!({"kind": "defaults", "settings": settings_coq(&DefaultSettings::<f64>::default()),
                       "names": settings_snapshot(&DefaultSettings::<f64>::default()).iter().map(|(k, _)| k.to_string()).collect::<Vec<_>>()}));
    sink.record(json!({"meta": {"prop": "c19", "seed": seed, "tier": tier, "blas": blas_shim::AVAILABLE}}));
    sink.flush();
    let _ = std::fs::remove_file(format!("c19_tmp_{}_rt.json", std::process::id()));
    let _ = std::fs::remove_file(format!("c19_tmp_{}_base.json", std::process::id()));
    for e in std::fs::read_dir(".").unwrap().flatten() {
        let n = e.file_name().to_string_lossy().to_string();
        if n.starts_with(&format!("c19_tmp_{}_", std::process::id())) { let _ = std::fs::remove_file(e.path()); }
    }
}
