//! C18: chordal decomposition and its reversal preserve the problem and its solution.
//!  (i)  synthetic: the augmented data (standard / compact form) and the reversed vectors
//!       produced by the implementation on integer data are compared exactly with the Coq
//!       model (Chordal/Decomp.v);
//!  (ii) end-to-end: random sparse SDPs (several PSD cones, other cones and 1e20 bounds
//!       before/after them) solved with decomposition on and off under all setting
//!       combinations; the returned point is re-checked against the ORIGINAL data in exact
//!       dyadic arithmetic inside Coq (Chordal/E2E.v).
#[path = "../blas_shim.rs"]
mod blas_shim;
#[path = "../common.rs"]
mod common;

use clarabel::algebra::*;
use clarabel::solver::*;
use clarabel::verif_hooks::c1718 as vh;
use common::*;
use serde_json::{json, Value};
use std::collections::BTreeMap;
use std::sync::mpsc;
use std::time::Duration;

const MERGES: [&str; 3] = ["none", "parent_child", "clique_graph"];
const SQRT2: f64 = std::f64::consts::SQRT_2;

fn tri(n: usize) -> usize { n * (n + 1) / 2 }
fn tri_idx(i: usize, j: usize) -> usize { let (i, j) = if i <= j { (i, j) } else { (j, i) }; j * (j + 1) / 2 + i }

// ------------------------------------------------------------------ problem description
#[derive(Clone, Debug)]
enum ConeD { Zero(usize), NN(usize), SOC(usize), PSD(usize, Vec<(usize, usize)>) }
impl ConeD {
    fn rows(&self) -> usize { match self { ConeD::Zero(d) | ConeD::NN(d) | ConeD::SOC(d) => *d, ConeD::PSD(n, _) => tri(*n) } }
    fn cone(&self) -> SupportedConeT<f64> {
        match self { ConeD::Zero(d) => SupportedConeT::ZeroConeT(*d), ConeD::NN(d) => SupportedConeT::NonnegativeConeT(*d), ConeD::SOC(d) => SupportedConeT::SecondOrderConeT(*d), ConeD::PSD(n, _) => SupportedConeT::PSDTriangleConeT(*n) }
    }
    fn coq(&self) -> String {
        match self { ConeD::Zero(d) => format!("CZero {}", d), ConeD::NN(d) => format!("CNN {}", d), ConeD::SOC(d) => format!("CSOC {}", d), ConeD::PSD(n, _) => format!("CPSD {}", n) }
    }
    fn json(&self) -> Value {
        match self { ConeD::Zero(d) => json!({"k": "zero", "d": d}), ConeD::NN(d) => json!({"k": "nn", "d": d}), ConeD::SOC(d) => json!({"k": "soc", "d": d}),
                     ConeD::PSD(n, e) => json!({"k": "psd", "d": n, "edges": e.iter().map(|p| vec![p.0, p.1]).collect::<Vec<_>>()}) }
    }
    fn from_json(v: &Value) -> Self {
        let d = v["d"].as_u64().unwrap() as usize;
        match v["k"].as_str().unwrap() {
            "zero" => ConeD::Zero(d), "nn" => ConeD::NN(d), "soc" => ConeD::SOC(d),
            _ => ConeD::PSD(d, v["edges"].as_array().unwrap().iter().map(|p| (p[0].as_u64().unwrap() as usize, p[1].as_u64().unwrap() as usize)).collect()),
        }
    }
}

/// dense description (row-major A) of  min 1/2 x'Px + q'x  s.t.  Ax + s = b, s in K
#[derive(Clone, Debug)]
struct Problem { n: usize, cones: Vec<ConeD>, pdiag: Vec<f64>, q: Vec<f64>, a: Vec<Vec<f64>>, b: Vec<f64> }
impl Problem {
    fn m(&self) -> usize { self.cones.iter().map(|c| c.rows()).sum() }
    fn json(&self) -> Value { json!({"n": self.n, "cones": self.cones.iter().map(|c| c.json()).collect::<Vec<_>>(), "pdiag": self.pdiag, "q": self.q, "a": self.a, "b": self.b}) }
    fn from_json(v: &Value) -> Self {
        Problem { n: v["n"].as_u64().unwrap() as usize, cones: v["cones"].as_array().unwrap().iter().map(ConeD::from_json).collect(),
                  pdiag: f64_vec(&v["pdiag"]), q: f64_vec(&v["q"]), a: v["a"].as_array().unwrap().iter().map(f64_vec).collect(), b: f64_vec(&v["b"]) }
    }
    fn csc(&self) -> (CscMatrix<f64>, CscMatrix<f64>, Vec<SupportedConeT<f64>>) {
        let (mut pi, mut pj, mut pv) = (vec![], vec![], vec![]);
        for (i, d) in self.pdiag.iter().enumerate() { if *d != 0.0 { pi.push(i); pj.push(i); pv.push(*d); } }
        let p = CscMatrix::new_from_triplets(self.n, self.n, pi, pj, pv);
        let (mut ai, mut aj, mut av) = (vec![], vec![], vec![]);
        for (r, row) in self.a.iter().enumerate() { for (c, v) in row.iter().enumerate() { if *v != 0.0 { ai.push(r); aj.push(c); av.push(*v); } } }
        let a = CscMatrix::new_from_triplets(self.m(), self.n, ai, aj, av);
        (p, a, self.cones.iter().map(|c| c.cone()).collect())
    }
    fn coq(&self) -> String {
        let srow = |it: Vec<(usize, f64)>| clist(&it, |e| format!("({}%N,{})", e.0, cdy(e.1)));
        let prows: Vec<String> = (0..self.n).map(|i| srow(if self.pdiag[i] != 0.0 { vec![(i, self.pdiag[i])] } else { vec![] })).collect();
        let arows: Vec<String> = self.a.iter().map(|r| srow(r.iter().cloned().enumerate().filter(|e| e.1 != 0.0).collect())).collect();
        let acols: Vec<String> = (0..self.n).map(|c| srow(self.a.iter().enumerate().map(|(r, row)| (r, row[c])).filter(|e| e.1 != 0.0).collect())).collect();
        format!("(mkProb {} {} [{}] {} [{}] [{}] {} [{}])", cn(self.n), cn(self.m()), prows.join(";"), cdylist(&self.q), arows.join(";"), acols.join(";"), cdylist(&self.b),
                self.cones.iter().map(|c| c.coq()).collect::<Vec<_>>().join(";"))
    }
}

// ------------------------------------------------------------------ generators
fn gen_pattern(rng: &mut Rng, n: usize) -> Vec<(usize, usize)> {
    let mut e: Vec<(usize, usize)> = vec![];
    match rng.below(7) {
        0 => { let bw = 1 + rng.below(2); for i in 0..n { for d in 1..=bw { if i + d < n { e.push((i, i + d)); } } } }
        1 => { for i in 0..n - 1 { e.push((i, n - 1)); } if rng.chance(1, 2) { for i in 0..n - 2 { e.push((i, i + 1)); } } }
        2 => { let mut s = 0; while s < n { let b = 1 + rng.below(4.min(n - s)); for i in s..s + b { for j in i + 1..s + b { e.push((i, j)); } } if s > 0 && rng.chance(2, 3) { e.push((s - 1, s)); } s += b; } }
        3 => { for i in 0..n { e.push((i, (i + 1) % n)); } }
        4 => { for j in 0..n { for i in 0..j { if rng.chance(1, 4) { e.push((i, j)); } } } }
        5 => { // tree of cliques
            let mut cl: Vec<Vec<usize>> = vec![]; let mut v = 0;
            while v < n { let f = (1 + rng.below(3)).min(n - v); let mut c: Vec<usize> = vec![];
                if !cl.is_empty() { let h = cl[rng.below(cl.len())].clone(); let s = (1 + rng.below(2)).min(h.len()); let o = rng.below(h.len() - s + 1); c.extend(&h[o..o + s]); }
                for _ in 0..f { c.push(v); v += 1; }
                for a in 0..c.len() { for b in a + 1..c.len() { e.push((c[a], c[b])); } }
                cl.push(c); } }
        _ => { for i in 0..n - 1 { e.push((i, i + 1)); } if n > 4 { e.push((0, n - 1)); e.push((1, n - 2)); } }
    }
    for p in e.iter_mut() { if p.0 > p.1 { *p = (p.1, p.0); } }
    e.retain(|p| p.0 != p.1 && p.1 < n);
    if rng.chance(1, 3) { let mut pm: Vec<usize> = (0..n).collect(); rng.shuffle(&mut pm); for p in e.iter_mut() { let (a, b) = (pm[p.0], pm[p.1]); *p = if a < b { (a, b) } else { (b, a) }; } }
    e.sort(); e.dedup(); e
}
fn coef(rng: &mut Rng) -> f64 { rng.range(-8, 8) as f64 / 4.0 }

fn gen_problem(rng: &mut Rng, k: usize) -> Problem {
    let n = 2 + rng.below(4);
    let npsd = 1 + rng.below(3);
    let mut cones: Vec<ConeD> = vec![];
    let other = |rng: &mut Rng| -> ConeD { match rng.below(4) { 0 => ConeD::Zero(1 + rng.below(2)), 1 | 2 => ConeD::NN(1 + rng.below(3)), _ => ConeD::SOC(2 + rng.below(3)) } };
    for _ in 0..rng.below(3) { cones.push(other(rng)); }
    for p in 0..npsd {
        let d = if k % 5 == 0 && p == 0 { 3 + rng.below(2) } else { 4 + rng.below(9) };
        let e = if k % 7 == 3 && p == 1 { (0..d).flat_map(|j| (0..j).map(move |i| (i, j))).collect() } else { gen_pattern(rng, d) };
        cones.push(ConeD::PSD(d, e));
        for _ in 0..rng.below(2) { cones.push(other(rng)); }
    }
    for _ in 0..rng.below(2) { cones.push(other(rng)); }
    let xs: Vec<f64> = (0..n).map(|_| rng.range(-4, 4) as f64 / 2.0).collect();
    let pdiag: Vec<f64> = (0..n).map(|_| if k % 3 == 0 && rng.chance(1, 2) { rng.range(1, 4) as f64 / 2.0 } else { 0.0 }).collect();
    let mut a: Vec<Vec<f64>> = vec![];
    let mut b: Vec<f64> = vec![];
    let mut zs: Vec<f64> = vec![];
    let row = |rng: &mut Rng, dens: usize| -> Vec<f64> { (0..n).map(|_| if rng.chance(dens, 4) { coef(rng) } else { 0.0 }).collect() };
    let dot = |r: &Vec<f64>, x: &Vec<f64>| -> f64 { r.iter().zip(x.iter()).map(|(a, b)| a * b).sum() };
    for c in cones.iter() {
        match c {
            ConeD::Zero(d) => for _ in 0..*d { let r = row(rng, 3); b.push(dot(&r, &xs)); a.push(r); zs.push(coef(rng)); },
            ConeD::NN(d) => for _ in 0..*d {
                let r = row(rng, 3);
                if rng.chance(1, 4) { b.push(1e20); zs.push(0.0); } else { b.push(dot(&r, &xs) + 0.5 + rng.below(4) as f64 / 2.0); zs.push(0.25 + rng.below(4) as f64 / 4.0); }
                a.push(r); },
            ConeD::SOC(d) => {
                let sv: Vec<f64> = (1..*d).map(|_| coef(rng)).collect(); let zv: Vec<f64> = (1..*d).map(|_| coef(rng)).collect();
                let s0 = 1.0 + sv.iter().map(|x| x.abs()).sum::<f64>(); let z0 = 1.0 + zv.iter().map(|x| x.abs()).sum::<f64>();
                for t in 0..*d { let r = row(rng, 3); let s = if t == 0 { s0 } else { sv[t - 1] }; b.push(dot(&r, &xs) + s); a.push(r); zs.push(if t == 0 { z0 } else { zv[t - 1] }); } },
            ConeD::PSD(d, e) => {
                let mut sm = vec![vec![0.0; *d]; *d]; let mut zm = vec![vec![0.0; *d]; *d];
                for (i, j) in e.iter() { let v = rng.range(-3, 3) as f64 / 4.0; let v = if v == 0.0 { 0.25 } else { v }; sm[*i][*j] = v; sm[*j][*i] = v; let w = rng.range(-2, 2) as f64 / 4.0; zm[*i][*j] = w; zm[*j][*i] = w; }
                for i in 0..*d { sm[i][i] = 1.0 + sm[i].iter().map(|x: &f64| x.abs()).sum::<f64>(); zm[i][i] = 1.0 + zm[i].iter().map(|x: &f64| x.abs()).sum::<f64>(); }
                for j in 0..*d { for i in 0..=j {
                    let inpat = i == j || e.contains(&(i, j));
                    if inpat {
                        let mut r = row(rng, 2);
                        if i == j && rng.chance(1, 5) { r = vec![0.0; n]; } // diagonal entry only in b
                        let sc = if i == j { 1.0 } else { SQRT2 };
                        b.push(dot(&r, &xs) + sc * sm[i][j]); a.push(r); zs.push(sc * zm[i][j]);
                    } else { a.push(vec![0.0; n]); b.push(0.0); zs.push(0.0); }
                } }
            }
        }
    }
    // q = -P x* - A' z*
    let mut q = vec![0.0; n];
    for c in 0..n { let mut t = pdiag[c] * xs[c]; for r in 0..a.len() { t += a[r][c] * zs[r]; } q[c] = -t; }
    let mut cones = cones;
    if k % 6 == 5 {
        // contradictory bounds on x0 at the end: primal infeasible
        let mut r1 = vec![0.0; n]; r1[0] = 1.0; let mut r2 = vec![0.0; n]; r2[0] = -1.0;
        a.push(r1); b.push(-1.0); a.push(r2); b.push(-1.0); cones.push(ConeD::NN(2));
    }
    Problem { n, cones, pdiag, q, a, b }
}

// ------------------------------------------------------------------ solving
#[derive(Clone, Debug)]
struct Combo { merge: usize, compact: bool, complete: bool, presolve: bool }
impl Combo {
    fn json(&self) -> Value { json!({"merge": MERGES[self.merge], "compact": self.compact, "complete_dual": self.complete, "presolve": self.presolve}) }
    fn from_json(v: &Value) -> Self { Combo { merge: MERGES.iter().position(|m| *m == v["merge"].as_str().unwrap()).unwrap(), compact: v["compact"].as_bool().unwrap(), complete: v["complete_dual"].as_bool().unwrap(), presolve: v["presolve"].as_bool().unwrap() } }
    fn all() -> Vec<Combo> { let mut v = vec![]; for merge in 0..3 { for compact in [false, true] { for complete in [false, true] { for presolve in [true, false] { v.push(Combo { merge, compact, complete, presolve }); } } } } v }
}
#[derive(Clone, Debug)]
struct SolOut { status: SolverStatus, obj: f64, x: Vec<f64>, s: Vec<f64>, z: Vec<f64>, cliques: Vec<(usize, Vec<Vec<usize>>)>, overlaps: usize, decomposed: bool }

fn settings(c: &Combo, decomp: bool) -> DefaultSettings<f64> {
    let mut s = DefaultSettings::<f64>::default();
    s.verbose = false;
    s.chordal_decomposition_enable = decomp;
    s.chordal_decomposition_merge_method = MERGES[c.merge].to_string();
    s.chordal_decomposition_compact = c.compact;
    s.chordal_decomposition_complete_dual = c.complete;
    s.presolve_enable = c.presolve;
    s
}

fn solve(p: &Problem, c: &Combo, decomp: bool) -> Result<SolOut, &'static str> {
    let (tx, rx) = mpsc::channel();
    let (p2, c2) = (p.clone(), c.clone());
    std::thread::Builder::new().stack_size(64 << 20).spawn(move || {
        let r = guarded(|| {
            let (pm, am, cones) = p2.csc();
            let mut solver = DefaultSolver::new(&pm, &p2.q, &am, &p2.b, &cones, settings(&c2, decomp));
            solver.solve();
            // clique structure actually used (original numbering), keyed by the ORIGINAL cone index
            let mut cliques = vec![];
            let mut overlaps = 0;
            let mut decomposed = false;
            if let (Some(pats), Some((_, init_cones))) = (vh::problem_patterns(&solver.data), vh::problem_chordal_init(&solver.data)) {
                decomposed = true;
                let psd_orig: Vec<usize> = p2.cones.iter().enumerate().filter(|(_, c)| matches!(c, ConeD::PSD(..))).map(|(i, _)| i).collect();
                for t in pats.iter() {
                    let ordinal = init_cones[..t.orig_index].iter().filter(|c| matches!(c, SupportedConeT::PSDTriangleConeT(_))).count();
                    let mut cls = vec![];
                    for &cidx in t.snode_post.iter() {
                        let mut cl: Vec<usize> = t.snode[cidx].iter().chain(t.separators[cidx].iter()).map(|&v| t.ordering[v]).collect();
                        cl.sort();
                        cls.push(cl);
                        overlaps += tri(t.separators[cidx].len());
                    }
                    cliques.push((psd_orig[ordinal], cls));
                }
            }
            let so = &solver.solution;
            SolOut { status: so.status, obj: so.obj_val, x: so.x.clone(), s: so.s.clone(), z: so.z.clone(), cliques, overlaps, decomposed }
        });
        let _ = tx.send(r);
    }).unwrap();
    match rx.recv_timeout(Duration::from_secs(120)) { Ok(Some(s)) => Ok(s), Ok(None) => Err("panic"), Err(_) => Err("hang") }
}

fn verdict(s: SolverStatus) -> (String, bool) {
    match s {
        SolverStatus::Solved => ("VSolved".into(), false), SolverStatus::AlmostSolved => ("VSolved".into(), true),
        SolverStatus::PrimalInfeasible => ("VPinf".into(), false), SolverStatus::AlmostPrimalInfeasible => ("VPinf".into(), true),
        SolverStatus::DualInfeasible => ("VDinf".into(), false), SolverStatus::AlmostDualInfeasible => ("VDinf".into(), true),
        other => (format!("(VOther {})", other as usize), false),
    }
}
fn sol_coq(s: &SolOut) -> String {
    let fin = |x: f64| if x.is_finite() { x } else { 0.0 };
    format!("(mkSol {} {} {} {} {})", verdict(s.status).0, cdy(fin(s.obj)), cdylist(&s.x.iter().map(|x| fin(*x)).collect::<Vec<_>>()),
            cdylist(&s.s.iter().map(|x| fin(*x)).collect::<Vec<_>>()), cdylist(&s.z.iter().map(|x| fin(*x)).collect::<Vec<_>>()))
}

struct Stats { by: BTreeMap<String, usize> }
impl Stats { fn bump(&mut self, k: &str) { *self.by.entry(k.to_string()).or_insert(0) += 1; } }

fn emit_e2e(sink: &mut CaseSink, st: &mut Stats, p0: &Problem, c: &Combo, off_cache: &mut BTreeMap<bool, Result<SolOut, &'static str>>) {
    // With presolve off the solver treats 1e20 as a finite number and fails for numerical
    // reasons with or without decomposition; those runs use a loose finite bound instead.
    let mut pv = p0.clone();
    if !c.presolve { for v in pv.b.iter_mut() { if *v >= 1e20 { *v = 1000.0; } } }
    let p = &pv;
    let on = solve(p, c, true);
    let off = off_cache.entry(c.presolve).or_insert_with(|| solve(p, c, false)).clone();
    let inp = json!({"problem": p.json(), "combo": c.json()});
    st.bump("e2e");
    match (&on, &off) {
        (Ok(on), Ok(off)) => {
            st.bump(&format!("status:{:?}", on.status));
            st.bump(if on.decomposed { "decomposed" } else { "not_decomposed" });
            if c.presolve && p.b.iter().any(|x| *x >= 1e20) { st.bump("presolve_reduced"); }
            let almost = verdict(on.status).1 || verdict(off.status).1;
            // eps = 2^-23 (~1.2e-7) * (1 + #overlaps), * 2^13 when a reduced-accuracy status is involved
            let eps = (1 + on.overlaps) as f64 * (2.0f64).powi(if almost { -10 } else { -23 });
            let cl = clist(&on.cliques, |e| format!("({}%N,{})", e.0, clist(&e.1, |l| format!("{}%N", clist(l, |x| format!("{}", x))))));
            let coq = format!("(c18_e2e {} {} {} {} {} {})", cdy(eps), p.coq(), sol_coq(on), sol_coq(off), if c.complete { "true" } else { "false" }, cl);
            sink.case("e2e", inp, coq, &["e2e"]);
        }
        (Err(e), _) => { st.bump(&format!("on:{}", e)); sink.case("e2e", inp, "20%N".into(), &["e2e", e]); }
        (_, Err(e)) => { st.bump(&format!("off:{}", e)); sink.case("e2e", inp, "21%N".into(), &["e2e", e]); }
    }
}

include!("../c18_synth.rs");

fn main() {
    let args: Vec<String> = std::env::args().collect();
    let mut out = String::from("/dev/stdout");
    let mut seed: u64 = 1;
    let mut tier = String::from("quick");
    let mut replay: Option<String> = None;
    let mut i = 1;
    while i < args.len() {
        match args[i].as_str() {
            "--out" => { out = args[i + 1].clone(); i += 1; }
            "--seed" => { seed = args[i + 1].parse().unwrap_or(1); i += 1; }
            "--tier" => { tier = args[i + 1].clone(); i += 1; }
            "--replay" => { replay = Some(args[i + 1].clone()); i += 1; }
            _ => {}
        }
        i += 1;
    }
    silence_panics();
    let thorough = tier == "thorough";
    let mut sink = CaseSink::new(&out);
    let mut st = Stats { by: BTreeMap::new() };
    let mut rng = Rng::new(seed);
    if let Some(p) = replay {
        let txt = std::fs::read_to_string(&p).expect("cannot read replay file");
        let v: Value = serde_json::from_str(&txt).expect("replay file is not JSON");
        let cases: Vec<Value> = match v.get("cases") { Some(Value::Array(a)) => a.clone(), _ => vec![v] };
        for c in cases.iter() {
            let inp = if c.get("input").is_some() && !c["input"].is_null() { &c["input"] } else { c };
            if inp.get("problem").is_none() { continue; }
            let pr = Problem::from_json(&inp["problem"]);
            let co = Combo::from_json(&inp["combo"]);
            if inp.get("synthetic").and_then(|b| b.as_bool()).unwrap_or(false) { emit_synth(&mut sink, &mut st, &pr, &co, &mut rng); }
            else { let mut cache = BTreeMap::new(); emit_e2e(&mut sink, &mut st, &pr, &co, &mut cache); }
        }
    } else {
        // F6 regression shape first: [NN(1) with b = 1e20, PSD(4) tridiagonal], default settings
        let nprob = if thorough { 60 } else { 11 };
        for k in 0..nprob {
            let p = gen_problem(&mut rng, k);
            let mut cache = BTreeMap::new();
            for c in Combo::all().iter() { emit_e2e(&mut sink, &mut st, &p, c, &mut cache); }
        }
        let nsyn = if thorough { 400 } else { 80 };
        for k in 0..nsyn {
            let p = gen_problem(&mut rng, 1000 + k);
            let all = Combo::all();
            for j in 0..3 { let c = &all[(k * 3 + j * 9 + j) % all.len()]; emit_synth(&mut sink, &mut st, &p, c, &mut rng); }
        }
    }
    let mut by = serde_json::Map::new();
    for (k, v) in st.by.iter() { by.insert(k.clone(), json!(v)); }
    sink.record(json!({"stats": by}));
    sink.record(json!({"meta": {"prop": "c18", "seed": seed, "tier": tier, "blas": blas_shim::AVAILABLE}}));
    sink.flush();
}
