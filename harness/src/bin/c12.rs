//! c12 --out FILE [--seed N] [--tier quick|thorough] [--replay FILE]
//! Correspondence harness for C12 (sparse LDL' engine, clarabel::qdldl).
//! Every case is a script: `QDLDLFactorisation::new` followed by solve / update_values /
//! scale_values / offset_values / refactor calls.  The script, everything the Rust code
//! returned, and (for float cases) the exact residual checks are printed as one Gallina
//! expression of type N that the checker evaluates with the model (Qdldl/Check.v).
#![allow(non_snake_case)]
#[path = "../blas_shim.rs"]
mod blas_shim;
#[path = "../common.rs"]
mod common;

use clarabel::algebra::CscMatrix;
use clarabel::qdldl::{QDLDLError, QDLDLFactorisation, QDLDLSettings};
use clarabel::solver::{DefaultSettings, SupportedConeT};
use clarabel::verif_hooks::{c11 as vh11, c12 as vh12};
use common::*;
use serde_json::{json, Value};
use std::collections::BTreeMap;

// ------------------------------------------------------------------ case description
#[derive(Clone, Debug)]
enum OpIn {
    Solve(Vec<f64>),
    Update(Vec<usize>, Vec<f64>),
    Scale(Vec<usize>, f64),
    Offset(Vec<usize>, f64, Vec<i8>),
    Refactor,
}
#[derive(Clone, Debug)]
struct Inp {
    stream: String,
    mode: char, // 'Q' exact rationals, 'F' binary64 model + tolerance
    m: usize,
    n: usize,
    colptr: Vec<usize>,
    rowval: Vec<usize>,
    nzval: Vec<f64>,
    perm: Option<Vec<usize>>,
    logical: bool,
    dsigns: Option<Vec<i8>>,
    reg_enable: bool,
    eps: f64,
    delta: f64,
    ops: Vec<OpIn>,
    resid: bool, // add the exact residual checks (float cases without regularisation)
}

fn op_json(o: &OpIn) -> Value {
    match o {
        OpIn::Solve(b) => json!({"k": "solve", "b": b}),
        OpIn::Update(i, v) => json!({"k": "update", "idx": i, "vals": v}),
        OpIn::Scale(i, s) => json!({"k": "scale", "idx": i, "s": s}),
        OpIn::Offset(i, o, s) => json!({"k": "offset", "idx": i, "off": o, "signs": s}),
        OpIn::Refactor => json!({"k": "refactor"}),
    }
}
fn inp_json(c: &Inp) -> Value {
    json!({"stream": c.stream, "mode": c.mode.to_string(), "m": c.m, "n": c.n, "colptr": c.colptr,
           "rowval": c.rowval, "nzval": c.nzval, "perm": c.perm, "logical": c.logical, "dsigns": c.dsigns,
           "reg_enable": c.reg_enable, "eps": c.eps, "delta": c.delta,
           "ops": c.ops.iter().map(op_json).collect::<Vec<_>>(), "resid": c.resid})
}
fn i8_vec(v: &Value) -> Vec<i8> {
    v.as_array().unwrap().iter().map(|x| x.as_i64().unwrap() as i8).collect()
}
fn inp_from_json(v: &Value) -> Inp {
    let ops = v["ops"].as_array().unwrap().iter().map(|o| match o["k"].as_str().unwrap() {
        "solve" => OpIn::Solve(f64_vec(&o["b"])),
        "update" => OpIn::Update(usize_vec(&o["idx"]), f64_vec(&o["vals"])),
        "scale" => OpIn::Scale(usize_vec(&o["idx"]), o["s"].as_f64().unwrap()),
        "offset" => OpIn::Offset(usize_vec(&o["idx"]), o["off"].as_f64().unwrap(), i8_vec(&o["signs"])),
        _ => OpIn::Refactor,
    }).collect();
    Inp {
        stream: v["stream"].as_str().unwrap_or("replay").to_string(),
        mode: v["mode"].as_str().unwrap().chars().next().unwrap(),
        m: v["m"].as_u64().unwrap() as usize,
        n: v["n"].as_u64().unwrap() as usize,
        colptr: usize_vec(&v["colptr"]),
        rowval: usize_vec(&v["rowval"]),
        nzval: f64_vec(&v["nzval"]),
        perm: if v["perm"].is_null() { None } else { Some(usize_vec(&v["perm"])) },
        logical: v["logical"].as_bool().unwrap(),
        dsigns: if v["dsigns"].is_null() { None } else { Some(i8_vec(&v["dsigns"])) },
        reg_enable: v["reg_enable"].as_bool().unwrap(),
        eps: v["eps"].as_f64().unwrap(),
        delta: v["delta"].as_f64().unwrap(),
        ops,
        resid: v["resid"].as_bool().unwrap_or(false),
    }
}

// ------------------------------------------------------------------ printing
fn pv(mode: char, x: f64) -> String { if mode == 'Q' { cdy(x) } else { cfl(x) } }
fn pvl(mode: char, v: &[f64]) -> String { clist(v, |x| pv(mode, *x)) }
fn pzl(v: &[i8]) -> String { czlist(&v.iter().map(|x| *x as i64).collect::<Vec<_>>()) }
fn err_code(e: &QDLDLError) -> usize {
    match e {
        QDLDLError::IncompatibleDimension => 1,
        QDLDLError::EmptyColumn => 2,
        QDLDLError::NotUpperTriangular => 3,
        QDLDLError::ZeroPivot => 4,
        QDLDLError::InvalidPermutation => 5,
    }
}
fn all_finite(v: &[f64]) -> bool { v.iter().all(|x| x.is_finite()) }

fn snap_ok(mode: char, F: &QDLDLFactorisation<f64>) -> String {
    let et: Vec<i64> = F.verif_etree().iter().map(|&e| if e == usize::MAX { -1 } else { e as i64 }).collect();
    let P = F.verif_triuA();
    format!("(sok{} {} {} {} {} {} {} {} {} {} {} {} {} {})", mode,
        cnlist(&F.L.colptr), cnlist(&F.L.rowval), pvl(mode, &F.L.nzval), pvl(mode, &F.D), pvl(mode, &F.Dinv),
        cn(F.positive_inertia()), cn(F.regularize_count()), czlist(&et), cnlist(&F.verif_Lnz()),
        cnlist(&F.verif_AtoPAPt()), cnlist(&P.colptr), cnlist(&P.rowval), pvl(mode, &P.nzval))
}
fn same_bits(a: &[f64], b: &[f64]) -> bool {
    a.len() == b.len() && a.iter().zip(b).all(|(x, y)| x.to_bits() == y.to_bits())
}

struct Exec { coq: String, tags: Vec<String> }

/// the ordering AMD would return for a matrix that `new` rejected (identity if AMD cannot run on it)
fn amd_perm(A: &CscMatrix<f64>) -> Vec<usize> {
    if A.m != A.n { return (0..A.n).collect(); }
    guarded(|| clarabel::qdldl::verif_amd_ordering(A, 1.0).0).unwrap_or((0..A.n).collect())
}

/// Runs the script on the implementation and prints the checker expression.
fn exec(c: &Inp) -> Exec {
    let mode = c.mode;
    let mut tags: Vec<String> = vec![c.stream.clone()];
    let A = CscMatrix { m: c.m, n: c.n, colptr: c.colptr.clone(), rowval: c.rowval.clone(), nzval: c.nzval.clone() };
    let mk_opts = |perm: Option<Vec<usize>>, logical: bool| QDLDLSettings::<f64> {
        amd_dense_scale: 1.0, perm, logical, Dsigns: c.dsigns.clone(),
        regularize_enable: c.reg_enable, regularize_eps: c.eps, regularize_delta: c.delta,
    };
    let r = guarded(|| QDLDLFactorisation::<f64>::new(&A, Some(mk_opts(c.perm.clone(), c.logical))));
    let mut conj: Vec<String> = vec![];
    let mut opsout: Vec<String> = vec![];
    let first: String;
    let perm_model: Vec<usize>;
    // residual-check context: matrix values and factors at the time of the last (re)factorisation
    let dy_A = |nz: &[f64]| format!("{} {} {}", cnlist(&c.colptr), cnlist(&c.rowval), cdylist(nz));
    match r {
        None => { first = "SPanic".into(); perm_model = c.perm.clone().unwrap_or_else(|| amd_perm(&A)); tags.push("panic".into()); }
        Some(Err(e)) => { first = format!("(SErr {})", cn(err_code(&e))); perm_model = c.perm.clone().unwrap_or_else(|| amd_perm(&A)); tags.push(format!("err{}", err_code(&e))); }
        Some(Ok(mut F)) => {
            perm_model = c.perm.clone().unwrap_or(F.perm.clone());
            first = snap_ok(mode, &F);
            tags.push("ok".into());
            if F.regularize_count() > 0 { tags.push("regularised".into()); }
            let mut Acur = c.nzval.clone();
            let mut Afact = c.nzval.clone();
            let mut fact_clean = !c.logical && F.regularize_count() == 0;
            let mut alive = true;
            let ldl_chk = |F: &QDLDLFactorisation<f64>, nz: &[f64]| -> Option<String> {
                if all_finite(&F.L.nzval) && all_finite(&F.D) {
                    Some(format!("chk_ldl {} {} {} {} {} {} {} {}", if mode == 'Q' { 0 } else { 8 }, cn(c.n), cnlist(&perm_model), dy_A(nz),
                        cnlist(&F.L.colptr), cnlist(&F.L.rowval), cdylist(&F.L.nzval), cdylist(&F.D)))
                } else { None }
            };
            if c.resid && fact_clean { if let Some(s) = ldl_chk(&F, &Afact) { conj.push(s); } }
            // order-independent statements about the returned pivots (binding in the binary64 streams)
            let piv_chk = |F: &QDLDLFactorisation<f64>, nz: &[f64]| -> Vec<String> {
                let mut v = vec![];
                if mode != 'F' || c.logical || !all_finite(&F.D) { return v; }
                let ps: Vec<i64> = F.verif_Dsigns().iter().map(|&x| x as i64).collect();
                v.push(format!("ofb (pivots_ok {} {} {} {} {} {} {})", c.reg_enable, cfl(c.eps), cfl(c.delta), cfllist(&F.D), czlist(&ps),
                    F.regularize_count(), F.positive_inertia()));
                if c.resid && F.regularize_count() > 0 && all_finite(&F.L.nzval) {
                    let skip: Vec<bool> = F.D.iter().zip(ps.iter()).map(|(d, s)| *d == c.delta * (*s as f64)).collect();
                    v.push(format!("chk_ldl_skip 8 {} {} {} {} {} {} {} {}", cn(c.n), cnlist(&perm_model), dy_A(nz),
                        cnlist(&F.L.colptr), cnlist(&F.L.rowval), cdylist(&F.L.nzval), cdylist(&F.D), cblist(&skip)));
                }
                v
            };
            conj.extend(piv_chk(&F, &Afact));
            for o in c.ops.iter() {
                if !alive { break; }
                match o {
                    OpIn::Solve(b) => {
                        let x = guarded(|| { let mut x = b.clone(); F.solve(&mut x); x });
                        match &x {
                            Some(x) => {
                                opsout.push(format!("oSolve{} {} (Some {})", mode, pvl(mode, b), pvl(mode, x)));
                                if c.resid && fact_clean && all_finite(x) && b.len() == c.n {
                                    conj.push(format!("chk_solve {} {} {} {} {} {} {} {} {} {}", if mode == 'Q' { 0 } else { 16 }, cn(c.n), cnlist(&perm_model), dy_A(&Afact),
                                        cnlist(&F.L.colptr), cnlist(&F.L.rowval), cdylist(&F.L.nzval), cdylist(&F.D), cdylist(b), cdylist(x)));
                                }
                            }
                            None => { opsout.push(format!("oSolve{} {} None", mode, pvl(mode, b))); tags.push("solve-panic".into()); }
                        }
                    }
                    OpIn::Update(idx, vals) => {
                        F.update_values(idx, vals);
                        for (k, &i) in idx.iter().enumerate() { Acur[i] = vals[k]; }
                        opsout.push(format!("oUpdate{} {} {}", mode, cnlist(idx), pvl(mode, vals)));
                    }
                    OpIn::Scale(idx, s) => {
                        F.scale_values(idx, *s);
                        for &i in idx.iter() { Acur[i] *= *s; }
                        opsout.push(format!("oScale{} {} {}", mode, cnlist(idx), pv(mode, *s)));
                    }
                    OpIn::Offset(idx, off, signs) => {
                        let ok = guarded(|| F.offset_values(idx, *off, signs)).is_some();
                        if ok {
                            for (&i, &s) in idx.iter().zip(signs.iter()) {
                                if s > 0 { Acur[i] += *off; } else if s < 0 { Acur[i] -= *off; }
                            }
                        }
                        opsout.push(format!("oOffset{} {} {} {} {}", mode, cnlist(idx), pv(mode, *off), pzl(signs), if ok { "false" } else { "true" }));
                    }
                    OpIn::Refactor => {
                        let rr = guarded(|| F.refactor());
                        // the same matrix factored from scratch (Rust vs Rust, bit for bit)
                        let A2 = CscMatrix { m: c.m, n: c.n, colptr: c.colptr.clone(), rowval: c.rowval.clone(), nzval: Acur.clone() };
                        let fresh = guarded(|| QDLDLFactorisation::<f64>::new(&A2, Some(mk_opts(Some(perm_model.clone()), false))));
                        let bitwise;
                        match rr {
                            None => { opsout.push("ORefactor SPanic".into()); bitwise = fresh.is_none(); alive = false; }
                            Some(Err(e)) => {
                                opsout.push(format!("ORefactor (SErr {})", cn(err_code(&e))));
                                bitwise = matches!(&fresh, Some(Err(e2)) if err_code(e2) == err_code(&e));
                                // the object stays usable: the script goes on (refactor again, repair, ...);
                                // the held factors are meaningless until a refactor succeeds
                                fact_clean = false;
                                tags.push(format!("refactor-err{}", err_code(&e)));
                            }
                            Some(Ok(())) => {
                                opsout.push(format!("ORefactor {}", snap_ok(mode, &F)));
                                bitwise = match &fresh {
                                    Some(Ok(G)) => G.L.colptr == F.L.colptr && G.L.rowval == F.L.rowval && same_bits(&G.L.nzval, &F.L.nzval)
                                        && same_bits(&G.D, &F.D) && same_bits(&G.Dinv, &F.Dinv)
                                        && G.positive_inertia() == F.positive_inertia() && G.regularize_count() == F.regularize_count(),
                                    _ => false,
                                };
                                Afact = Acur.clone();
                                fact_clean = F.regularize_count() == 0;
                                if c.resid && fact_clean { if let Some(s) = ldl_chk(&F, &Afact) { conj.push(s); } }
                                conj.extend(piv_chk(&F, &Afact));
                                tags.push("refactor".into());
                            }
                        }
                        conj.push(format!("ofb {}", if bitwise { "true" } else { "false" }));
                    }
                }
            }
        }
    }
    let Acoq = format!("(spm{} {} {} {} {} {})", mode, cn(c.m), cn(c.n), cnlist(&c.colptr), cnlist(&c.rowval), pvl(mode, &c.nzval));
    let ds = match &c.dsigns { None => "None".to_string(), Some(d) => format!("(Some {})", pzl(d)) };
    let Scoq = format!("(set{} {} {} {} {} {} {})", mode, cnlist(&perm_model), c.logical, ds, c.reg_enable, pv(mode, c.eps), pv(mode, c.delta));
    let run = format!("run{} {} {} {} [{}]", mode, Acoq, Scoq, first, opsout.join("; "));
    let mut all = vec![run];
    all.extend(conj);
    Exec { coq: format!("(maxl [{}])", all.join(";\n ")), tags }
}

fn emit(sink: &mut CaseSink, stats: &mut BTreeMap<String, usize>, c: &Inp) {
    let e = exec(c);
    for t in e.tags.iter().skip(1) { *stats.entry(format!("{}:{}", c.stream, t)).or_insert(0) += 1; }
    *stats.entry(format!("{}:cases", c.stream)).or_insert(0) += 1;
    let tags: Vec<&str> = e.tags.iter().map(|s| s.as_str()).collect();
    sink.case("script", inp_json(c), e.coq, &tags);
}

/// the bare inverse-permutation routine through its hook wrapper
fn emit_invperm(sink: &mut CaseSink, stats: &mut BTreeMap<String, usize>, p: &[usize]) {
    let r = clarabel::qdldl::verif_invperm(p);
    let (acc, b) = match r { Ok(b) => (true, b), Err(_) => (false, vec![]) };
    *stats.entry(format!("invperm:{}", if acc { "accepted" } else { "rejected" })).or_insert(0) += 1;
    sink.case("invperm", json!({"perm": p}), format!("(c_invperm {} {} {})", cnlist(p), acc, cnlist(&b)), &["invperm"]);
}

// ------------------------------------------------------------------ matrix builders
/// upper-triangular CSC (sorted rows) from a dense symmetric matrix and a structural mask
fn csc_from_dense(n: usize, val: &dyn Fn(usize, usize) -> f64, mask: &dyn Fn(usize, usize) -> bool) -> (Vec<usize>, Vec<usize>, Vec<f64>) {
    let (mut cp, mut rv, mut nz) = (vec![0usize], vec![], vec![]);
    for j in 0..n {
        for i in 0..=j {
            if mask(i, j) { rv.push(i); nz.push(val(i, j)); }
        }
        cp.push(rv.len());
    }
    (cp, rv, nz)
}
fn rand_perm(rng: &mut Rng, n: usize) -> Vec<usize> {
    let mut p: Vec<usize> = (0..n).collect();
    rng.shuffle(&mut p);
    p
}
fn pow2(k: i64) -> f64 { (2.0f64).powi(k as i32) }

/// Exactness-domain case: A = P' (I+L0) D0 (I+L0)' P with small-integer L0 and D0 = +-2^k, so
/// that factoring A with ordering `perm` is exact in binary64.
fn gen_exact(rng: &mut Rng, n: usize, tag: &str) -> Inp {
    // unit lower factor
    let dens = *rng.pick(&[1usize, 2, 3, 5]);
    let mut L0 = vec![vec![0i64; n]; n];
    for i in 0..n { for j in 0..i { if rng.chance(dens, 8) { L0[i][j] = *rng.pick(&[-2i64, -1, 1, 2]); } } }
    let col_empty: Vec<bool> = (0..n).map(|j| (j + 1..n).all(|i| L0[i][j] == 0)).collect();
    let reg_enable = rng.chance(2, 3);
    let e_eps = rng.range(-4, -2);
    let eps = pow2(e_eps);
    let delta = if rng.chance(1, 12) { 0.0 } else { pow2(rng.range(-5, 1)) };
    // Dsigns kind: 0 none, 1 true signs, 2 true signs with planned flips on empty columns
    let ds_kind = if reg_enable { rng.below(3) } else { rng.below(2) };
    let mut D0 = vec![0f64; n];
    let mut sg = vec![1i8; n]; // Dsigns in factorisation order
    let mut planned = vec![0f64; n]; // the D the factorisation is expected to return
    for k in 0..n {
        let mut s: f64 = if rng.chance(1, 2) { 1.0 } else { -1.0 };
        if reg_enable && ds_kind == 0 && !col_empty[k] { s = 1.0; }
        // magnitudes: >= eps for columns that feed later pivots (boundary equality allowed)
        let mut mag = if rng.chance(1, 4) { eps } else { pow2(rng.range(e_eps, 3)) };
        if !reg_enable { mag = pow2(rng.range(-3, 3)); }
        let mut sign_given = if s > 0.0 { 1i8 } else { -1 };
        if col_empty[k] {
            match rng.below(6) {
                0 => { mag = pow2(e_eps - 2); }                       // tiny pivot: regularised when enabled
                1 => { if ds_kind == 2 { sign_given = -sign_given; } } // wrong sign: regularised, inertia flips
                2 => { if !reg_enable && rng.chance(1, 3) { mag = 0.0; } } // zero pivot -> error
                _ => {}
            }
        }
        D0[k] = s * mag;
        sg[k] = if ds_kind == 0 { 1 } else { sign_given };
        planned[k] = if reg_enable && D0[k] * (sg[k] as f64) < eps { delta * (sg[k] as f64) } else { D0[k] };
    }
    let perm = rand_perm(rng, n);
    // M = (I+L0) D0 (I+L0)' ; structural mask = boolean product
    let lf = |i: usize, j: usize| -> f64 { if i == j { 1.0 } else if j < i { L0[i][j] as f64 } else { 0.0 } };
    let mval = |d: &[f64], i: usize, j: usize| -> f64 { (0..n).map(|k| lf(i, k) * d[k] * lf(j, k)).sum() };
    let mmask = |i: usize, j: usize| -> bool { i == j || (0..n).any(|k| lf(i, k) != 0.0 && lf(j, k) != 0.0) };
    let mut iperm = vec![0usize; n];
    for (i, &p) in perm.iter().enumerate() { iperm[p] = i; }
    // A[perm i][perm j] = M[i][j]  <=>  A[a][b] = M[iperm a][iperm b]
    let build = |d: &[f64]| csc_from_dense(n, &|a, b| mval(d, iperm[a], iperm[b]), &|a, b| mmask(iperm[a], iperm[b]));
    let (cp, rv, nz) = build(&D0);
    let dsigns = if ds_kind == 0 { None } else { let mut ds = vec![1i8; n]; for k in 0..n { ds[perm[k]] = sg[k]; } Some(ds) };
    // b = A x + sum over regularised pivots (planned - D0)[k] x[perm k]  (so that the solve is exact)
    let mk_b = |rng: &mut Rng, d0: &[f64], pl: &[f64]| -> Vec<f64> {
        let x: Vec<f64> = (0..n).map(|_| rng.range(-3, 3) as f64).collect();
        let mut b = vec![0f64; n];
        for a in 0..n { for c in 0..n { b[a] += mval(pl, iperm[a], iperm[c]) * x[c]; } }
        let _ = d0;
        b
    };
    let mut ops = vec![];
    let zero_pivot = planned.iter().any(|&d| d == 0.0);
    if !zero_pivot {
        ops.push(OpIn::Solve(mk_b(rng, &D0, &planned)));
        if rng.chance(1, 2) {
            // history: scale everything by 2^j (j >= 0), or install the values of another exact matrix
            let nnz = nz.len();
            let all: Vec<usize> = (0..nnz).collect();
            if rng.chance(1, 2) {
                let j = rng.range(0, 2);
                ops.push(OpIn::Scale(all.clone(), pow2(j)));
                let d2: Vec<f64> = D0.iter().map(|d| d * pow2(j)).collect();
                let p2: Vec<f64> = (0..n).map(|k| if reg_enable && d2[k] * (sg[k] as f64) < eps { delta * (sg[k] as f64) } else { d2[k] }).collect();
                ops.push(OpIn::Refactor);
                if !p2.iter().any(|&d| d == 0.0) { ops.push(OpIn::Solve(mk_b(rng, &d2, &p2))); }
            } else {
                // flip magnitudes (keeping signs and the >= eps rule) and write them with update_values
                let d2: Vec<f64> = (0..n).map(|k| if D0[k] == 0.0 || D0[k].abs() < eps { D0[k] } else { D0[k].signum() * pow2(rng.range(e_eps, 3)).max(eps) }).collect();
                let (_, _, nz2) = build(&d2);
                // a subset update first (entries that differ), then the rest
                let diff: Vec<usize> = (0..nnz).filter(|&i| nz2[i] != nz[i]).collect();
                ops.push(OpIn::Update(diff.clone(), diff.iter().map(|&i| nz2[i]).collect()));
                let p2: Vec<f64> = (0..n).map(|k| if reg_enable && d2[k] * (sg[k] as f64) < eps { delta * (sg[k] as f64) } else { d2[k] }).collect();
                ops.push(OpIn::Refactor);
                if !p2.iter().any(|&d| d == 0.0) { ops.push(OpIn::Solve(mk_b(rng, &d2, &p2))); }
            }
        }
    }
    Inp { stream: tag.into(), mode: 'Q', m: n, n, colptr: cp, rowval: rv, nzval: nz, perm: Some(perm), logical: false,
          dsigns, reg_enable, eps, delta, ops, resid: true }
}

/// diagonally dominant float matrix on a given strict-upper mask; signs[k] = sign of the diagonal
fn dd_values(rng: &mut Rng, n: usize, mask: &dyn Fn(usize, usize) -> bool, signs: &[i8], with_diag: &dyn Fn(usize) -> bool)
    -> (Vec<usize>, Vec<usize>, Vec<f64>) {
    let mut vals = vec![vec![0f64; n]; n];
    for j in 0..n { for i in 0..=j {
        vals[i][j] = if i == j { (signs[j] as f64) * (4.0 + 4.0 * rng.unit()) } else { (2.0 * rng.unit() - 1.0) / (n as f64) };
    } }
    csc_from_dense(n, &|i, j| vals[i][j], &|i, j| if i == j { with_diag(j) } else { mask(i, j) })
}

fn gen_float(rng: &mut Rng, n: usize, tag: &str) -> Inp {
    let dens = *rng.pick(&[1usize, 2, 4]);
    let mut m = vec![vec![false; n]; n];
    for j in 0..n { for i in 0..j { m[i][j] = rng.chance(dens, 10); } }
    let mut signs: Vec<i8> = match rng.below(3) { 0 => vec![1; n], 1 => (0..n).map(|k| if k < n / 2 { 1 } else { -1 }).collect(),
                                              _ => (0..n).map(|_| if rng.chance(1, 2) { 1 } else { -1 }).collect() };
    // every column needs an entry; a column may lack its diagonal only if it has an off-diagonal entry
    let allpos = signs.iter().all(|&s| s == 1);
    let nodiag: Vec<bool> = (0..n).map(|j| allpos && j > 0 && (0..j).any(|i| m[i][j]) && rng.chance(1, 10)).collect();
    for j in 0..n { if nodiag[j] { signs[j] = -1; } }
    let (cp, rv, nz) = dd_values(rng, n, &|i, j| m[i][j], &signs, &|j| !nodiag[j]);
    let any_nodiag = nodiag.iter().any(|&b| b);
    let perm = match rng.below(3) { 0 => None, 1 => Some((0..n).collect()), _ => Some(rand_perm(rng, n)) };
    // Dsigns: correct, absent, or with a few wrong entries (forces regularisation)
    let ds_kind = rng.below(4);
    let dsigns = match ds_kind { 0 => None, 1 | 2 => Some(signs.clone()),
        _ => Some(signs.iter().map(|&s| if rng.chance(1, 6) { -s } else { s }).collect()) };
    let reg_enable = rng.chance(3, 4);
    let (eps, delta) = if rng.chance(1, 2) { (1e-12, 1e-7) } else { (0.015625 * rng.unit(), 0.5 + rng.unit()) };
    let nnz = nz.len();
    let diag_idx: Vec<usize> = (0..n).filter(|&j| !nodiag[j]).map(|j| cp[j + 1] - 1).collect();
    let mut ops = vec![];
    let rb = |rng: &mut Rng| -> Vec<f64> { (0..n).map(|_| 4.0 * rng.unit() - 2.0).collect() };
    ops.push(OpIn::Solve(rb(rng)));
    let nh = if rng.chance(1, 2) { 0 } else { rng.range(1, 8) as usize };
    for _ in 0..nh {
        match rng.below(5) {
            0 => {
                let idx: Vec<usize> = (0..nnz).filter(|_| rng.chance(1, 2)).collect();
                let vals: Vec<f64> = idx.iter().map(|&i| { let d = diag_idx.contains(&i); let s = nz[i].signum();
                    if d { s * (4.0 + 4.0 * rng.unit()) } else { (2.0 * rng.unit() - 1.0) / (n as f64) } }).collect();
                ops.push(OpIn::Update(idx, vals));
            }
            1 => { let idx: Vec<usize> = (0..nnz).filter(|_| rng.chance(2, 3)).collect(); ops.push(OpIn::Scale(idx, 0.75 + 0.5 * rng.unit())); }
            2 => {
                // shift of the diagonal, direction given by the signs (what the solver does)
                let sg: Vec<i8> = diag_idx.iter().map(|&i| if nz[i] < 0.0 { -1 } else { 1 }).collect();
                ops.push(OpIn::Offset(diag_idx.clone(), 0.25 * rng.unit(), sg));
            }
            3 => {
                let idx: Vec<usize> = (0..nnz).filter(|i| !diag_idx.contains(i) && rng.chance(1, 2)).collect();
                let sg: Vec<i8> = idx.iter().map(|_| *rng.pick(&[-3i8, -1, 0, 1, 2])).collect();
                ops.push(OpIn::Offset(idx, 0.1 * rng.unit() / (n as f64), sg));
            }
            _ => { ops.push(OpIn::Refactor); ops.push(OpIn::Solve(rb(rng))); }
        }
    }
    if nh > 0 { ops.push(OpIn::Refactor); ops.push(OpIn::Solve(rb(rng))); }
    let _ = any_nodiag;
    Inp { stream: tag.into(), mode: 'F', m: n, n, colptr: cp, rowval: rv, nzval: nz, perm, logical: false, dsigns,
          reg_enable, eps, delta, ops, resid: true }
}

/// KKT-shaped quasidefinite matrix [[H, B'],[B, 0]] stored upper: the (2,2) block has no diagonal entries
fn gen_kkt(rng: &mut Rng, n1: usize, n2: usize) -> Inp {
    let n = n1 + n2;
    let (mut cp, mut rv, mut nz) = (vec![0usize], vec![], vec![]);
    for j in 0..n1 { rv.push(j); nz.push(1.0 + rng.unit()); cp.push(rv.len()); }
    for j in 0..n2 {
        // column n1+j : entries of B' (rows < n1); at least one
        let must = rng.below(n1);
        for i in 0..n1 { if i == must || rng.chance(1, 3) { rv.push(i); nz.push(2.0 * rng.unit() - 1.0 + if i == (j % n1) { 2.0 } else { 0.0 }); } }
        cp.push(rv.len());
    }
    let mut ds = vec![1i8; n];
    for k in n1..n { ds[k] = -1; }
    let perm = if rng.chance(1, 2) { Some((0..n).collect()) } else { None };
    let b: Vec<f64> = (0..n).map(|_| 2.0 * rng.unit() - 1.0).collect();
    Inp { stream: "kkt".into(), mode: 'F', m: n, n, colptr: cp, rowval: rv, nzval: nz, perm, logical: false, dsigns: Some(ds),
          reg_enable: true, eps: 1e-12, delta: 1e-7, ops: vec![OpIn::Solve(b)], resid: true }
}


// ------------------------------------------------------------------ the QDLDL driver (round 3)
fn cstr(s: &str) -> String { format!("\"{}\"%string", s.replace('"', "\"\"")) }

/// random problem data for a driven DirectLDLKKTSolver: P (n x n, psd-ish, upper), A (m x n), cones
fn drv_problem(rng: &mut Rng, n: usize, m: usize, soc: bool) -> (CscMatrix<f64>, CscMatrix<f64>, Vec<SupportedConeT<f64>>) {
    // P = upper triangle of a diagonally dominant matrix (some zero diagonals allowed)
    let (cp, rv, nz) = {
        let (mut cp, mut rv, mut nz) = (vec![0usize], vec![], vec![]);
        for j in 0..n {
            for i in 0..=j {
                if i == j { if rng.chance(4, 5) { rv.push(i); nz.push(1.0 + rng.unit()); } }
                else if rng.chance(1, 4) { rv.push(i); nz.push((rng.unit() - 0.5) / n as f64); }
            }
            cp.push(rv.len());
        }
        (cp, rv, nz)
    };
    let P = CscMatrix { m: n, n, colptr: cp, rowval: rv, nzval: nz };
    let (mut cp, mut rv, mut nz) = (vec![0usize], vec![], vec![]);
    for j in 0..n {
        for i in 0..m { if rng.chance(2, 5) || i % n == j { rv.push(i); nz.push(2.0 * rng.unit() - 1.0); } }
        cp.push(rv.len());
    }
    let A = CscMatrix { m, n, colptr: cp, rowval: rv, nzval: nz };
    let cones = if soc && m >= 4 {
        vec![SupportedConeT::ZeroConeT(1), SupportedConeT::SecondOrderConeT(m - 1 - (m - 1) / 3), SupportedConeT::NonnegativeConeT((m - 1) / 3)]
            .into_iter().filter(|c| match c { SupportedConeT::NonnegativeConeT(0) => false, _ => true }).collect()
    } else {
        let z = m / 3;
        vec![SupportedConeT::ZeroConeT(z), SupportedConeT::NonnegativeConeT(m - z)]
            .into_iter().filter(|c| match c { SupportedConeT::ZeroConeT(0) | SupportedConeT::NonnegativeConeT(0) => false, _ => true }).collect()
    };
    (P, A, cones)
}

fn drv_settings_from(v: &Value) -> DefaultSettings<f64> {
    let mut s = DefaultSettings::<f64>::default();
    s.verbose = false;
    s.direct_solve_method = v["method"].as_str().unwrap().to_string();
    s.static_regularization_enable = v["static_enable"].as_bool().unwrap();
    s.static_regularization_constant = v["rconst"].as_f64().unwrap();
    s.static_regularization_proportional = v["rprop"].as_f64().unwrap();
    s.dynamic_regularization_enable = v["dyn_enable"].as_bool().unwrap();
    s.dynamic_regularization_eps = v["dyn_eps"].as_f64().unwrap();
    s.dynamic_regularization_delta = v["dyn_delta"].as_f64().unwrap();
    s.iterative_refinement_enable = v["ir_enable"].as_bool().unwrap();
    s.iterative_refinement_reltol = v["reltol"].as_f64().unwrap();
    s.iterative_refinement_abstol = v["abstol"].as_f64().unwrap();
    s.iterative_refinement_max_iter = v["maxiter"].as_u64().unwrap() as u32;
    s.iterative_refinement_stop_ratio = v["stopratio"].as_f64().unwrap();
    s
}
fn csc_json(a: &CscMatrix<f64>) -> Value { json!({"m": a.m, "n": a.n, "colptr": a.colptr, "rowval": a.rowval, "nzval": a.nzval}) }
fn csc_from(v: &Value) -> CscMatrix<f64> {
    CscMatrix { m: v["m"].as_u64().unwrap() as usize, n: v["n"].as_u64().unwrap() as usize, colptr: usize_vec(&v["colptr"]), rowval: usize_vec(&v["rowval"]), nzval: f64_vec(&v["nzval"]) }
}
fn cones_from(v: &Value) -> Vec<SupportedConeT<f64>> {
    v.as_array().unwrap().iter().map(|c| { let k = c[1].as_u64().unwrap() as usize; match c[0].as_str().unwrap() { "z" => SupportedConeT::ZeroConeT(k), "soc" => SupportedConeT::SecondOrderConeT(k), _ => SupportedConeT::NonnegativeConeT(k) } }).collect()
}
fn cones_json(c: &[SupportedConeT<f64>]) -> Value {
    Value::Array(c.iter().map(|c| match c { SupportedConeT::ZeroConeT(k) => json!(["z", k]), SupportedConeT::SecondOrderConeT(k) => json!(["soc", k]), SupportedConeT::NonnegativeConeT(k) => json!(["nn", k]), _ => json!(["nn", 0]) }).collect())
}

/// one driven case: new -> (scaling update -> kkt update)* -> setrhs/solve; everything replayed on the model
fn exec_driver(inp: &Value) -> (String, Vec<String>) {
    let P = csc_from(&inp["P"]); let A = csc_from(&inp["A"]); let cones = cones_from(&inp["cones"]);
    let settings = drv_settings_from(&inp["settings"]);
    let mut tags = vec!["driver".to_string()];
    let r = guarded(|| {
        let mut d = vh11::Driven::new(&P, &A, &cones, settings.clone());
        let m = A.m;
        let mut ok = true;
        for u in inp["updates"].as_array().unwrap() {
            let s = f64_vec(&u["s"]); let z = f64_vec(&u["z"]);
            if s.len() == m { d.update_scaling(&s, &z, u["mu"].as_f64().unwrap(), false); } else { d.set_identity_scaling(); }
            ok = d.kkt_update();
        }
        let snap = d.snapshot();
        let fac = d.kkt.verif_qdldl_factors();
        // K restored: repeating the same update must reproduce the same KKT copy bit for bit
        let restored = { let ok2 = d.kkt_update(); let s2 = d.snapshot(); ok2 == ok && same_bits(&s2.K.nzval, &snap.K.nzval) && s2.eps.to_bits() == snap.eps.to_bits() };
        let rhsx = f64_vec(&inp["rhsx"]); let rhsz = f64_vec(&inp["rhsz"]);
        let sol = if ok { Some(vh12::driven_solve(&mut d, &rhsx, &rhsz)) } else { None };
        let vecs = vh12::ir_take_vectors();
        (ok, snap, sol, fac, restored, vecs)
    });
    let (ok, snap, sol, fac, restored, vecs) = match r { Some(x) => x, None => { tags.push("panic".into()); return ("1%N".into(), tags); } };
    let K = &snap.K;
    let perm = guarded(|| clarabel::qdldl::verif_amd_ordering(K, 1.5).0).unwrap_or((0..K.n).collect());
    let st = &inp["settings"];
    let fl = |k: &str| cfl(st[k].as_f64().unwrap());
    // right-hand side as assembled by setrhs
    let (b, solve_ok, x, norm0, steps, has_ir) = match &sol {
        Some((sok, x, b, ev)) => {
            let mut steps: Vec<String> = vec![]; let mut norm0 = 0.0; let mut i = 0;
            let ev = ev.clone();
            while i < ev.len() {
                match ev[i].0 {
                    0 => { norm0 = ev[i].2; i += 1; }
                    1 => {
                        let nrm = ev[i].2;
                        let k2 = if i + 1 < ev.len() { ev[i + 1].0 } else { 255 };
                        let k3 = if i + 2 < ev.len() { ev[i + 2].0 } else { 255 };
                        if k2 == 4 { steps.push(format!("IrAccept {}", cfl(nrm))); i += 2; }
                        else if k2 == 3 && k3 == 2 { steps.push(format!("IrStopAccept {}", cfl(nrm))); i += 3; }
                        else if k2 == 3 { steps.push(format!("IrStopReject {}", cfl(nrm))); i += 2; }
                        else { steps.push(format!("IrNonFinite {}", cfl(nrm))); i += 1; }
                    }
                    _ => { i += 1; }
                }
            }
            if !steps.is_empty() { tags.push(format!("ir{}", steps.len())); }
            for s in steps.iter() { tags.push(s.split(' ').next().unwrap().to_string()); }
            (b.clone(), *sok, x.clone(), norm0, steps, !ev.is_empty())
        }
        None => { let mut b = f64_vec(&inp["rhsx"]); b.extend(f64_vec(&inp["rhsz"])); b.resize(K.n, 0.0); (b, false, vec![], 0.0, vec![], false) }
    };
    if !ok { tags.push("refactor-failed".into()); }
    if !solve_ok && ok { tags.push("solve-nonfinite".into()); }
    let out = format!("(mkDO {} {} {} {} {} {} [{}])", ok, cfl(snap.eps), solve_ok, cfllist(&x), cfl(norm0), has_ir, steps.join("; "));
    // ---- level B data: shifted values held by the backend, its factors, recorded candidates and norms
    let ks: Vec<f64> = match &snap.ldl_copy { Some((vals, map)) => (0..K.nzval.len()).map(|i| vals[map[i]]).collect(), None => K.nzval.clone() };
    let (lp, li, lx, dg, _fperm, psigns, regc, pos) = fac.clone().unwrap_or((vec![0; K.n + 1], vec![], vec![], vec![0.0; K.n], vec![], vec![1; K.n], 0, 0));
    let fin = |v: &[f64]| v.iter().all(|x| x.is_finite());
    let facs_ok = fin(&lx) && fin(&dg) && fin(&ks) && fac.is_some();
    let cands: Vec<Vec<f64>> = vecs.iter().map(|(_, v)| v.clone()).collect();
    let mut norms: Vec<f64> = vec![norm0];
    if let Some((_, _, _, ev)) = &sol { for e in ev.iter() { if e.0 == 1 { norms.push(e.2); } } }
    let pairs: Vec<(Vec<f64>, f64)> = cands.iter().cloned().zip(norms.iter().cloned()).filter(|(c, nr)| fin(c) && nr.is_finite()).collect();
    let normb = match &sol { Some((_, _, _, ev)) => ev.iter().find(|e| e.0 == 0).map(|e| e.1).unwrap_or(0.0), None => 0.0 };
    let strict = inp["strict"].as_bool().unwrap_or(false);
    let sem = format!("(mkDS2 {} {} {} {} {} {} {} {} {} {} {} {} {} {} {} {} {})",
        cfllist(&ks), if facs_ok { cdylist(&ks) } else { "[]".into() }, if fin(&K.nzval) { cdylist(&K.nzval) } else { "[]".into() },
        cnlist(&lp), cnlist(&li), if facs_ok { cdylist(&lx) } else { "[]".into() }, if facs_ok { cdylist(&dg) } else { "[]".into() }, cfllist(&dg),
        czlist(&psigns.iter().map(|&x| x as i64).collect::<Vec<_>>()), cn(regc), cn(pos),
        if fin(&b) { cdylist(&b) } else { "[]".into() },
        clist(&cands, |c| cfllist(c)), clist(&pairs, |p| cdylist(&p.0)), clist(&pairs, |p| cdy(p.1)), cfl(normb), restored && facs_ok);
    let coq = format!("(c_driver2 {} (spmF {} {} {} {} {}) {} {} {} {} {} {} {} {} {} {} {} {} {} {} {} {} {})",
        strict, cn(K.m), cn(K.n), cnlist(&K.colptr), cnlist(&K.rowval), cfllist(&K.nzval),
        czlist(&snap.dsigns.iter().map(|&x| x as i64).collect::<Vec<_>>()), cnlist(&snap.maps.diag_full), cnlist(&perm),
        st["dyn_model"].as_bool().unwrap(), fl("dyn_eps"), fl("dyn_delta"),
        st["static_enable"].as_bool().unwrap(), fl("rconst"), fl("rprop"),
        cfllist(&b), st["ir_enable"].as_bool().unwrap(), fl("reltol"), fl("abstol"), fl("stopratio"), cn(st["maxiter"].as_u64().unwrap() as usize), out, sem);
    (coq, tags)
}

fn exec_dispatch(inp: &Value) -> (String, Vec<String>) {
    let P = csc_from(&inp["P"]); let A = csc_from(&inp["A"]); let cones = cones_from(&inp["cones"]);
    let s = inp["method"].as_str().unwrap().to_string();
    let valid = vh12::validate_method(&s);
    let K = vh11::assemble(&P, &A, &cones, false).K;
    let (nd, nm, lnz) = vh12::amd_stats(&K);
    let mut set = DefaultSettings::<f64>::default(); set.verbose = false; set.direct_solve_method = s.clone();
    let bk = match guarded(|| vh12::driven_backend(&vh11::Driven::new(&P, &A, &cones, set))) {
        Some(name) => if name == "qdldl" { 0 } else if name == "faer" { 1 } else { 9 },
        None => 2,
    };
    let tags = vec!["dispatch".to_string(), format!("backend{}", bk), format!("valid-{}", valid)];
    (format!("(c_dispatch {} {} {} {} {} {} {})", true, cstr(&s), cfl(nd as f64), cfl(nm as f64), cfl(lnz as f64), valid, cn(bk)), tags)
}

fn gen_driver(sink: &mut CaseSink, st: &mut BTreeMap<String, usize>, rng: &mut Rng, thorough: bool) {
    let emitv = |sink: &mut CaseSink, st: &mut BTreeMap<String, usize>, op: &str, v: Value| {
        let (coq, tags) = if op == "driver" { exec_driver(&v) } else { exec_dispatch(&v) };
        for t in tags.iter() { *st.entry(format!("{}:{}", op, t)).or_insert(0) += 1; }
        let tr: Vec<&str> = tags.iter().map(|s| s.as_str()).collect();
        sink.case(op, v, coq, &tr);
    };
    // crafted exact-arithmetic cases that sit ON the decision boundaries of the refinement loop:
    // K = diag(p, -1), static eps = e with p + e a power of two, rhs (bx, 0): residuals shrink by the
    // exact factor (p+e)/e per pass
    for &(p0, e0, bx, reltol, abstol, maxiter, stopratio) in &[
        (0.75, 0.25, 1.0, 0.0, 0.0, 5u64, 4.0),        // ratio == stop_ratio exactly: accepted every pass
        (0.75, 0.25, 1.0, 0.0, 0.0, 5u64, 4.000000000000001), // just above: stop (better): StopAccept
        (0.75, 0.25, 8.0, 0.25, 0.0, 5u64, 2.0),       // norme == reltol*normb exactly: exit before any pass
        (0.75, 0.25, 1.0, 0.0, 0.25, 5u64, 2.0),       // norme == abstol exactly
        (0.75, 0.25, 1.0, 0.0, 0.0625, 5u64, 2.0),     // tolerance reached after one pass
        (0.5, 0.5, 1.2e308, 0.0, 0.0, 10u64, 1.5),     // candidates overflow: IrNonFinite, is_success = false
        (0.75, 0.25, 1.0, 0.0, 0.0, 0u64, 4.0),        // max_iter = 0
    ] {
        let P = CscMatrix { m: 1, n: 1, colptr: vec![0, 1], rowval: vec![0], nzval: vec![p0] };
        let A = CscMatrix { m: 1, n: 1, colptr: vec![0, 1], rowval: vec![0], nzval: vec![0.0] };
        let cones = vec![SupportedConeT::NonnegativeConeT(1)];
        let v = json!({"P": csc_json(&P), "A": csc_json(&A), "cones": cones_json(&cones), "updates": [{"s": [], "z": [], "mu": 1.0}], "rhsx": [bx], "rhsz": [0.0], "strict": true,
            "settings": {"method": "qdldl", "static_enable": true, "rconst": e0, "rprop": 0.0, "dyn_enable": true, "dyn_model": true,
                         "dyn_eps": 1e-13, "dyn_delta": 2e-7, "ir_enable": true, "reltol": reltol, "abstol": abstol, "maxiter": maxiter, "stopratio": stopratio}});
        emitv(sink, st, "driver", v);
    }
    let nd = if thorough { 600 } else { 120 };
    for t in 0..nd {
        let n = rng.range(1, 7) as usize; let m = rng.range(1, 8) as usize;
        let (P, A, cones) = drv_problem(rng, n, m, t % 5 == 4);
        let nupd = 1 + rng.below(2);
        let mut ups = vec![];
        for _ in 0..nupd {
            if rng.chance(1, 6) { ups.push(json!({"s": [], "z": [], "mu": 1.0})); continue; }
            // an interior point: unit initialisation scaled
            let d0 = vh11::Driven::new(&P, &A, &cones, { let mut s = DefaultSettings::<f64>::default(); s.verbose = false; s });
            let mut z = vec![0.0; m]; let mut s = vec![0.0; m]; d0.unit_initialization(&mut z, &mut s);
            let (a, b) = (0.25 + 2.0 * rng.unit(), 0.25 + 2.0 * rng.unit());
            // perturb only the nonnegative part (always interior); SOC parts keep the scaled unit point
            let mut off = 0usize;
            for c in cones.iter() { match c {
                SupportedConeT::NonnegativeConeT(k) => { for i in 0..*k { s[off + i] = a * (0.2 + rng.unit()); z[off + i] = b * (0.2 + rng.unit()); } off += k; }
                SupportedConeT::ZeroConeT(k) => { off += k; }
                SupportedConeT::SecondOrderConeT(k) => { for i in 0..*k { s[off + i] *= a; z[off + i] *= b; if i > 0 { s[off + i] = 0.3 * a * (rng.unit() - 0.5) / *k as f64; z[off + i] = 0.3 * b * (rng.unit() - 0.5) / *k as f64; } } off += k; }
                _ => {} } }
            let mu = s.iter().zip(z.iter()).map(|(x, y)| x * y).sum::<f64>() / (m as f64).max(1.0);
            ups.push(json!({"s": s, "z": z, "mu": mu}));
        }
        // settings: defaults, or pushed so that every branch of the refinement is taken
        let kind = t % 7;
        let dyn_enable = !(t % 11 == 10);
        let (static_enable, rconst, rprop) = match kind { 0 => (false, 0.0, 0.0), 1 | 2 => (true, 1e-8, 4.930380657631324e-32), 3 => (true, 0.015625, 0.0078125), _ => (true, 1e-3 * rng.unit(), 1e-4 * rng.unit()) };
        let (dyn_eps, dyn_delta) = match kind { 5 => (0.5 * rng.unit(), 0.5 + rng.unit()), _ => (1e-13, 2e-7) };
        let ir_enable = kind != 6 || rng.chance(1, 2);
        let (reltol, abstol, maxiter, stopratio) = match t % 5 { 0 => (1e-13, 1e-12, 10, 5.0), 1 => (0.0, 0.0, rng.range(0, 4) as u64, 1.0 + rng.unit()), 2 => (1e-16, 1e-18, 10, 0.5 + rng.unit()), 3 => (1e-6, 1e-6, 3, 2.0), _ => (0.0, 1e-300, 6, 1.0000001) };
        let rhsx: Vec<f64> = (0..n).map(|_| 2.0 * rng.unit() - 1.0).collect();
        let mut rhsz: Vec<f64> = (0..m).map(|_| 2.0 * rng.unit() - 1.0).collect();
        if t % 37 == 36 && m > 0 { rhsz[0] = f64::INFINITY.min(1e308) * 10.0; } // a non-finite right-hand side
        let v = json!({"P": csc_json(&P), "A": csc_json(&A), "cones": cones_json(&cones), "updates": ups, "rhsx": rhsx, "rhsz": rhsz.iter().map(|x| if x.is_finite() { json!(x) } else { json!(1e308) }).collect::<Vec<_>>(),
            "settings": {"method": "qdldl", "static_enable": static_enable, "rconst": rconst, "rprop": rprop, "dyn_enable": dyn_enable, "dyn_model": dyn_enable,
                         "dyn_eps": dyn_eps, "dyn_delta": dyn_delta, "ir_enable": ir_enable, "reltol": reltol, "abstol": abstol, "maxiter": maxiter, "stopratio": stopratio}});
        emitv(sink, st, "driver", v);
    }
    // backend dispatch: every documented name, near misses, garbage; small and large (dense) KKT matrices
    let names = ["auto", "qdldl", "faer", "", "Auto", "AUTO", "QDLDL", "qdldl ", " qdldl", "faer-sparse", "mkl", "panua", "cholmod", "ldl", "auto\n", "q\"dldl"];
    let (Ps, As, cs) = drv_problem(rng, 3, 3, false);
    for nm in names.iter() { emitv(sink, st, "dispatch", json!({"P": csc_json(&Ps), "A": csc_json(&As), "cones": cones_json(&cs), "method": nm})); }
    for &nbig in &[8usize, 40, 90, 130] {
        // dense P: the AMD flop/nnz ratio grows with n and crosses the threshold of the automatic selection
        let (cp, rv, nz) = csc_from_dense(nbig, &|i, j| if i == j { nbig as f64 } else { 0.5 / (1.0 + (i + 2 * j) as f64) }, &|_, _| true);
        let Pd = CscMatrix { m: nbig, n: nbig, colptr: cp, rowval: rv, nzval: nz };
        let Ad = CscMatrix { m: 1, n: nbig, colptr: (0..=nbig).collect(), rowval: vec![0; nbig], nzval: vec![1.0; nbig] };
        let cd = vec![SupportedConeT::NonnegativeConeT(1)];
        for nm in ["auto", "qdldl", "faer"] { emitv(sink, st, "dispatch", json!({"P": csc_json(&Pd), "A": csc_json(&Ad), "cones": cones_json(&cd), "method": nm})); }
    }
}

fn next_perm(p: &mut Vec<usize>) -> bool {
    let n = p.len();
    if n < 2 { return false; }
    let mut i = n - 1;
    while i > 0 && p[i - 1] >= p[i] { i -= 1; }
    if i == 0 { return false; }
    let mut j = n - 1;
    while p[j] <= p[i - 1] { j -= 1; }
    p.swap(i - 1, j);
    p[i..].reverse();
    true
}

fn generate(sink: &mut CaseSink, seed: u64, thorough: bool) -> BTreeMap<String, usize> {
    let mut st = BTreeMap::new();
    let mut rng = Rng::new(seed ^ 0xC12);
    // ---- corpus-like fixed cases first: the F1 witnesses through the public API
    for p in [vec![1usize, 1], vec![3, 3, 2, 0], vec![0, 0], vec![2, 2, 2]] {
        let n = p.len();
        let sg = vec![1i8; n];
        let (cp, rv, nz) = dd_values(&mut Rng::new(7), n, &|_, _| true, &sg, &|_| true);
        let b: Vec<f64> = (0..n).map(|i| 1.0 + i as f64).collect();
        emit(sink, &mut st, &Inp { stream: "perm-witness".into(), mode: 'F', m: n, n, colptr: cp, rowval: rv, nzval: nz, perm: Some(p.clone()),
            logical: false, dsigns: None, reg_enable: true, eps: 1e-12, delta: 1e-7, ops: vec![OpIn::Solve(b)], resid: true });
        emit_invperm(sink, &mut st, &p);
    }
    // ---- exactness domain
    let nex = if thorough { 1500 } else { 280 };
    for t in 0..nex {
        let n = if t < 40 { 1 + t % 4 } else if t % 10 == 0 { rng.range(13, if thorough { 40 } else { 24 }) as usize } else { rng.range(1, 12) as usize };
        let c = gen_exact(&mut rng, n, "exact");
        emit(sink, &mut st, &c);
    }
    // ---- operation histories on ONE object with FAILING refactors (regularisation off): a pivot is
    //      driven to exactly zero by offset_values / update_values; refactor must fail, fail again when
    //      nothing changed, and succeed (bit-identical to a fresh factorisation) once repaired
    {
        let mut made = 0;
        let want = if thorough { 200 } else { 50 };
        let mut tries = 0;
        while made < want && tries < 50 * want {
            tries += 1;
            let n = rng.range(1, 9) as usize;
            let mut c = gen_exact(&mut rng, n, "history-fail");
            if c.reg_enable || c.ops.is_empty() { continue; }
            let A = CscMatrix { m: c.m, n: c.n, colptr: c.colptr.clone(), rowval: c.rowval.clone(), nzval: c.nzval.clone() };
            let opts = QDLDLSettings::<f64> { amd_dense_scale: 1.0, perm: c.perm.clone(), logical: false, Dsigns: c.dsigns.clone(),
                regularize_enable: false, regularize_eps: c.eps, regularize_delta: c.delta };
            let F = match guarded(|| QDLDLFactorisation::<f64>::new(&A, Some(opts))) { Some(Ok(f)) => f, _ => continue };
            let k = rng.below(n);                       // the pivot (in elimination order) to be zeroed
            let j = F.perm[k];                          // its variable
            let idx = c.colptr[j + 1] - 1;              // the diagonal entry is stored last in its column
            if c.rowval[idx] != j { continue; }
            let d = F.D[k];
            if d == 0.0 || !d.is_finite() { continue; }
            let b0 = match &c.ops[0] { OpIn::Solve(b) => b.clone(), _ => vec![1.0; n] };
            let sg: i8 = if d > 0.0 { 1 } else { -1 };
            let mut ops = vec![OpIn::Solve(b0.clone())];
            // break it
            match made % 3 {
                0 => ops.push(OpIn::Offset(vec![idx], d.abs(), vec![-sg])),
                1 => ops.push(OpIn::Update(vec![idx], vec![c.nzval[idx] - d])),
                _ => { ops.push(OpIn::Offset(vec![idx], d.abs() * 0.5, vec![-sg])); ops.push(OpIn::Offset(vec![idx], d.abs() * 0.5, vec![-sg])); }
            }
            ops.push(OpIn::Refactor);                   // Err(ZeroPivot)
            if made % 2 == 0 { ops.push(OpIn::Refactor); } // nothing changed: must fail again
            ops.push(OpIn::Solve(b0.clone()));          // unspecified after a failed refactor (not compared)
            if made % 5 == 4 { ops.push(OpIn::Scale(vec![idx], 1.0)); ops.push(OpIn::Refactor); } // a value operation that changes nothing: still a zero pivot
            // repair it
            match made % 4 {
                0 | 1 => ops.push(OpIn::Update(vec![idx], vec![c.nzval[idx]])),
                2 => { let cur = if made % 3 == 1 { c.nzval[idx] - d } else { c.nzval[idx] - d }; ops.push(OpIn::Offset(vec![idx], (c.nzval[idx] - cur).abs(), vec![sg])); }
                _ => ops.push(OpIn::Update((0..c.nzval.len()).collect(), c.nzval.clone())),
            }
            if made % 5 == 4 { ops.push(OpIn::Update(vec![idx], vec![c.nzval[idx]])); }
            ops.push(OpIn::Refactor);                   // Ok, equal to a fresh factorisation
            ops.push(OpIn::Solve(b0.clone()));
            ops.push(OpIn::Refactor);                   // nothing changed: same factors again
            ops.push(OpIn::Solve(b0));
            c.ops = ops;
            if made % 2 == 1 { c.mode = 'F'; c.resid = true; }
            emit(sink, &mut st, &c);
            made += 1;
        }
    }
    // logical factorisations (structure only) and what they refuse to do
    for t in 0..(if thorough { 60 } else { 20 }) {
        let mut c = gen_exact(&mut rng, 2 + t % 7, "logical");
        c.logical = true;
        let n = c.n;
        c.ops = vec![OpIn::Solve(vec![1.0; n])];
        if t % 2 == 0 { c.ops = vec![OpIn::Refactor, OpIn::Solve(vec![1.0; n])]; c.mode = 'F'; c.dsigns = None; c.reg_enable = true; c.eps = 1e-12; c.delta = 1e-7; }
        emit(sink, &mut st, &c);
    }
    // ---- exhaustive small patterns x all orderings x sign vectors (general floats)
    let nmax = if thorough { 5 } else { 4 };
    for n in 1..=nmax {
        let npairs = n * (n - 1) / 2;
        let pairs: Vec<(usize, usize)> = (0..n).flat_map(|j| (0..j).map(move |i| (i, j))).collect();
        for pat in 0..(1usize << npairs) {
            let mask = |i: usize, j: usize| -> bool { pairs.iter().position(|&q| q == (i, j)).map(|k| (pat >> k) & 1 == 1).unwrap_or(false) };
            // n = 5 (thorough only): 1024 patterns x 120 orderings; one sign vector per pattern (rotating)
            // and the dyadic residual conjuncts on every 6th ordering, to keep the volume evaluable
            let nsv = if thorough { 3 } else { 2 };
            for sv in 0..nsv {
                if n == 5 && sv != pat % 3 { continue; }
                if !thorough && n == 4 && sv != pat % 2 { continue; } // quick: one (rotating) sign vector per n=4 pattern
                let signs: Vec<i8> = (0..n).map(|k| match sv { 0 => 1, 1 => if k % 2 == 0 { 1 } else { -1 }, _ => if k < n / 2 { -1 } else { 1 } }).collect();
                let (cp, rv, nz) = dd_values(&mut rng, n, &mask, &signs, &|_| true);
                let mut p: Vec<usize> = (0..n).collect();
                let mut ord = 0usize;
                loop {
                    ord += 1;
                    let b: Vec<f64> = (0..n).map(|i| 1.0 - 0.5 * i as f64).collect();
                    let c = Inp { stream: format!("patterns-n{}", n), mode: 'F', m: n, n, colptr: cp.clone(), rowval: rv.clone(), nzval: nz.clone(),
                        perm: Some(p.clone()), logical: false, dsigns: if sv == 0 { None } else { Some(signs.clone()) },
                        reg_enable: true, eps: 1e-12, delta: 1e-7, ops: vec![OpIn::Solve(b)], resid: n < 5 || ord % 6 == 1 };
                    emit(sink, &mut st, &c);
                    if !next_perm(&mut p) { break; }
                }
            }
        }
    }
    // ---- general floats with histories
    let nfl = if thorough { 1200 } else { 190 };
    for t in 0..nfl {
        let n = if t % 8 == 0 { rng.range(13, if thorough { 32 } else { 20 }) as usize } else { rng.range(1, 12) as usize };
        let c = gen_float(&mut rng, n, "float");
        emit(sink, &mut st, &c);
    }
    for _ in 0..(if thorough { 100 } else { 30 }) {
        let n1 = rng.range(1, 6) as usize; let n2 = rng.range(1, n1 as i64) as usize;
        let c = gen_kkt(&mut rng, n1, n2);
        emit(sink, &mut st, &c);
    }
    // ---- the QDLDL driver: regularize_and_refactor + solve with iterative refinement; backend dispatch
    gen_driver(sink, &mut st, &mut rng, thorough);
    // ---- malformed inputs
    for t in 0..(if thorough { 300 } else { 100 }) {
        let n = rng.range(1, 6) as usize;
        let mut c = gen_float(&mut rng, n, "malformed");
        c.ops = vec![]; c.resid = false;
        match t % 6 {
            0 => { c.m = n + 1; }                                   // non-square
            1 => { c.n = n - 1; c.colptr.pop(); if c.n == 0 { c.colptr = vec![0]; } let e = *c.colptr.last().unwrap(); c.rowval.truncate(e); c.nzval.truncate(e); } // non-square the other way
            2 => { // a lower-triangular entry
                if n >= 2 { let j = rng.below(n - 1); let k = c.colptr[j + 1] - 1; c.rowval[k] = rng.range(j as i64 + 1, n as i64 - 1) as usize; }
                else { c.m = 2; } }
            3 => { // an empty column
                let j = rng.below(n); let (a, b) = (c.colptr[j], c.colptr[j + 1]); let w = b - a;
                c.rowval.drain(a..b); c.nzval.drain(a..b); for q in j + 1..=n { c.colptr[q] -= w; } }
            4 => { // lower entry AND empty column AND (sometimes) non-square: priority of the verdicts
                if n >= 3 { let j = 1 + rng.below(n - 2); let (a, b) = (c.colptr[j], c.colptr[j + 1]); let w = b - a;
                    c.rowval.drain(a..b); c.nzval.drain(a..b); for q in j + 1..=n { c.colptr[q] -= w; }
                    c.rowval[0] = n - 1; if rng.chance(1, 2) { c.m = n + 2; } }
                else { c.m = n + 1; } }
            _ => { // zero pivot, regularisation off
                c.reg_enable = false; c.perm = Some((0..n).collect());
                let j = rng.below(n); let k = c.colptr[j + 1] - 1;
                if j == 0 || c.colptr[j + 1] - c.colptr[j] == 1 { c.nzval[k] = 0.0; } else { c.reg_enable = true; c.delta = 0.0; c.eps = 100.0; } }
        }
        emit(sink, &mut st, &c);
    }
    // ---- unsorted columns (CscMatrix does not enforce sorted rows and QDLDL accepts them):
    //      valid matrices with the rows of every column shuffled must be accepted and factored
    //      correctly; a below-diagonal entry must be rejected wherever it sits in its column
    //      (first / middle / last); duplicated entries pass check_structure (model tie only)
    for t in 0..(if thorough { 400 } else { 120 }) {
        let n = rng.range(2, 7) as usize;
        let mut c = gen_float(&mut rng, n, "unsorted");
        // densify a little so that columns have several entries, keep the diagonal
        let shuffle_cols = |c: &mut Inp, rng: &mut Rng| {
            for j in 0..c.n {
                let (a, b) = (c.colptr[j], c.colptr[j + 1]);
                let mut idx: Vec<usize> = (a..b).collect();
                rng.shuffle(&mut idx);
                let r: Vec<usize> = idx.iter().map(|&i| c.rowval[i]).collect();
                let v: Vec<f64> = idx.iter().map(|&i| c.nzval[i]).collect();
                for (k, i) in (a..b).enumerate() { c.rowval[i] = r[k]; c.nzval[i] = v[k]; }
            }
        };
        c.ops = vec![OpIn::Solve((0..n).map(|i| 1.0 + 0.25 * i as f64).collect())];
        match t % 4 {
            0 => { shuffle_cols(&mut c, &mut rng); } // valid, unsorted: accepted, residual checks apply
            1 | 2 => {
                // insert a below-diagonal entry into column j < n-1 at position first / middle / last
                let j = rng.below(n - 1);
                let (a, b) = (c.colptr[j], c.colptr[j + 1]);
                let pos = match rng.below(3) { 0 => a, 1 => a + (b - a) / 2, _ => b };
                let row = rng.range(j as i64 + 1, n as i64 - 1) as usize;
                c.rowval.insert(pos, row); c.nzval.insert(pos, 0.125);
                for q in j + 1..=n { c.colptr[q] += 1; }
                if t % 4 == 2 { shuffle_cols(&mut c, &mut rng); }
                c.ops = vec![]; c.resid = false;
            }
            _ => {
                // duplicate one stored entry (same row twice in a column), then shuffle
                let k = rng.below(c.rowval.len());
                let j = (0..n).find(|&j| c.colptr[j] <= k && k < c.colptr[j + 1]).unwrap();
                let (r, v) = (c.rowval[k], c.nzval[k] * 0.5);
                c.rowval.insert(k, r); c.nzval.insert(k, v);
                for q in j + 1..=n { c.colptr[q] += 1; }
                if rng.chance(1, 2) { shuffle_cols(&mut c, &mut rng); }
                c.resid = false; c.ops = vec![];
                // the external AMD ordering rejects duplicate entries (unwrap panic inside get_amd_ordering): give an ordering
                if c.perm.is_none() { c.perm = Some((0..n).collect()); }
            }
        }
        emit(sink, &mut st, &c);
    }
    // the two-by-two witnesses: column 0 holding rows [1,0] / [0,1] / [1]
    for rows0 in [vec![1usize, 0], vec![0, 1], vec![1]] {
        let k = rows0.len();
        let mut rowval = rows0.clone(); rowval.extend([0usize, 1]);
        let mut nzval: Vec<f64> = rows0.iter().map(|&r| if r == 0 { 4.0 } else { 0.5 }).collect(); nzval.extend([0.5, 3.0]);
        let c = Inp { stream: "unsorted".into(), mode: 'F', m: 2, n: 2, colptr: vec![0, k, k + 2], rowval, nzval, perm: Some(vec![0, 1]),
            logical: false, dsigns: None, reg_enable: true, eps: 1e-12, delta: 1e-7, ops: vec![], resid: false };
        emit(sink, &mut st, &c);
    }
    // solve with a right-hand side of the wrong length
    for n in [1usize, 3] {
        let mut c = gen_float(&mut rng, n, "malformed"); c.ops = vec![OpIn::Solve(vec![1.0; n + 1])]; c.resid = false;
        emit(sink, &mut st, &c);
    }
    // ---- every vector in {0..n}^n, n <= 4, as a permutation (public API and the bare routine);
    //      also vectors of the wrong length
    for n in 1..=4usize {
        let sg = vec![1i8; n];
        let (cp, rv, nz) = dd_values(&mut rng, n, &|_, _| true, &sg, &|_| true);
        let total = (n + 1).pow(n as u32);
        for code in 0..total {
            let mut p = vec![0usize; n]; let mut q = code;
            for k in 0..n { p[k] = q % (n + 1); q /= n + 1; }
            let b: Vec<f64> = (0..n).map(|i| 1.0 + i as f64).collect();
            let c = Inp { stream: format!("perms-n{}", n), mode: 'F', m: n, n, colptr: cp.clone(), rowval: rv.clone(), nzval: nz.clone(), perm: Some(p.clone()),
                logical: false, dsigns: None, reg_enable: true, eps: 1e-12, delta: 1e-7, ops: vec![OpIn::Solve(b)], resid: true };
            emit(sink, &mut st, &c);
            emit_invperm(sink, &mut st, &p);
        }
        for p in [(0..n + 1).collect::<Vec<usize>>(), (0..n.saturating_sub(1)).collect(), (0..n + 1).rev().collect()] {
            let c = Inp { stream: "perms-length".into(), mode: 'F', m: n, n, colptr: cp.clone(), rowval: rv.clone(), nzval: nz.clone(), perm: Some(p),
                logical: false, dsigns: None, reg_enable: true, eps: 1e-12, delta: 1e-7, ops: vec![], resid: false };
            emit(sink, &mut st, &c);
        }
    }
    for _ in 0..(if thorough { 400 } else { 80 }) {
        let n = rng.range(5, 9) as usize;
        let mut p = rand_perm(&mut rng, n);
        match rng.below(3) { 0 => { let i = rng.below(n); p[i] = p[(i + 1) % n]; } 1 => { let i = rng.below(n); p[i] = n; } _ => {} }
        emit_invperm(sink, &mut st, &p);
    }
    st
}

fn main() {
    let args: Vec<String> = std::env::args().collect();
    let mut out = String::from("/dev/stdout");
    let mut seed: u64 = 1;
    let mut tier = String::from("quick");
    let mut replay: Option<String> = None;
    let mut i = 1;
    while i < args.len() {
        match args[i].as_str() {
            "--out" => { out = args[i + 1].clone(); i += 1; }
            "--seed" => { seed = args[i + 1].parse().unwrap_or(1); i += 1; }
            "--tier" => { tier = args[i + 1].clone(); i += 1; }
            "--replay" => { replay = Some(args[i + 1].clone()); i += 1; }
            _ => {}
        }
        i += 1;
    }
    if std::env::var("C12_VERBOSE").is_err() { silence_panics(); }
    let thorough = tier == "thorough";
    let mut sink = CaseSink::new(&out);
    let mut st = BTreeMap::new();
    // corpus (regression cases) first
    let run_value = |sink: &mut CaseSink, st: &mut BTreeMap<String, usize>, v: &Value| {
        let inp = v.get("input").unwrap_or(v);
        if v.get("op").and_then(|o| o.as_str()) == Some("driver") { let (coq, tags) = exec_driver(inp); let tr: Vec<&str> = tags.iter().map(|s| s.as_str()).collect(); sink.case("driver", inp.clone(), coq, &tr); }
        else if v.get("op").and_then(|o| o.as_str()) == Some("dispatch") { let (coq, tags) = exec_dispatch(inp); let tr: Vec<&str> = tags.iter().map(|s| s.as_str()).collect(); sink.case("dispatch", inp.clone(), coq, &tr); }
        else if inp.get("perm").is_some() && inp.get("colptr").is_none() { emit_invperm(sink, st, &usize_vec(&inp["perm"])); }
        else { let mut c = inp_from_json(inp); if v.get("input").is_none() { c.stream = "corpus".into(); } emit(sink, st, &c); }
    };
    if let Some(p) = replay {
        let txt = std::fs::read_to_string(&p).expect("cannot read replay file");
        let v: Value = serde_json::from_str(&txt).expect("replay file is not JSON");
        let cases = match v.get("cases") { Some(Value::Array(a)) => a.clone(), _ => vec![v] };
        for c in cases.iter() { run_value(&mut sink, &mut st, c); }
    } else {
        let exe = std::env::current_exe().ok();
        let corpus = exe.as_ref().and_then(|e| e.ancestors().nth(4).map(|d| d.join("corpus").join("C12")));
        if let Some(dir) = corpus {
            if let Ok(rd) = std::fs::read_dir(&dir) {
                let mut files: Vec<_> = rd.flatten().map(|e| e.path()).filter(|p| p.extension().map(|x| x == "json").unwrap_or(false)).collect();
                files.sort();
                for f in files {
                    if let Ok(txt) = std::fs::read_to_string(&f) {
                        if let Ok(v) = serde_json::from_str::<Value>(&txt) {
                            let cases = match v.get("cases") { Some(Value::Array(a)) => a.clone(), _ => vec![v] };
                            for c in cases.iter() { run_value(&mut sink, &mut st, c); }
                        }
                    }
                }
            }
        }
        let g = generate(&mut sink, seed, thorough);
        for (k, v) in g { *st.entry(k).or_insert(0) += v; }
    }
    sink.record(json!({"stats": st}));
    sink.record(json!({"meta": {"prop": "c12", "seed": seed, "tier": tier, "blas": blas_shim::AVAILABLE}}));
    sink.flush();
}
