//! c14 --out FILE [--seed N] [--tier quick|thorough] [--replay FILE]
//! C14: nonsymmetric-cone barrier calculus.  Runs the Rust cones through the hooks on
//! generated interior points and prints one Coq checker application per case
//! (checkers: coq/theories/Nonsym/Check.v).  Every case is a function of its JSON `input`
//! only, so a replay file re-runs exactly the same calls.
#![allow(non_snake_case)]
#[path = "../blas_shim.rs"]
mod blas_shim;
#[path = "../common.rs"]
mod common;

use clarabel::verif_hooks::c14::{Cone, ExponentialCone, GenPowerCone, PowerCone, ScalingStrategy};
use clarabel::verif_hooks::c14 as hk;
use common::*;
use serde_json::{json, Value};
use std::collections::BTreeMap;
use std::sync::atomic::{AtomicUsize, Ordering};
// inner-iteration calls whose result is covered by the enclosure theorem C14_wright_omega_enclosure
// (argument in [0,1000]) / all Wright-omega calls / Newton-Raphson calls (certified per sample only)
static OMEGA_IN: AtomicUsize = AtomicUsize::new(0);
static OMEGA_ALL: AtomicUsize = AtomicUsize::new(0);
static NEWTON_ALL: AtomicUsize = AtomicUsize::new(0);
fn note_omega(z: f64) { OMEGA_ALL.fetch_add(1, Ordering::Relaxed); if (0.0..=1000.0).contains(&z) { OMEGA_IN.fetch_add(1, Ordering::Relaxed); } }
fn note_omega_s(s: &[f64]) { note_omega(1.0 - s[0] / s[1] - (s[1] / s[2]).ln()); }

// ---------- printing ----------
fn v3(v: &[f64]) -> String { format!("({}, {}, {})", cfl(v[0]), cfl(v[1]), cfl(v[2])) }
fn s3(d: &[f64]) -> String {
    format!("(S3 {} {} {} {} {} {})", cfl(d[0]), cfl(d[1]), cfl(d[2]), cfl(d[3]), cfl(d[4]), cfl(d[5]))
}
fn cb(b: bool) -> &'static str { if b { "true" } else { "false" } }
fn fv(v: &Value) -> Vec<f64> { f64_vec(v) }
fn f(v: &Value) -> f64 { v.as_f64().unwrap() }
fn strategy(dual: bool) -> ScalingStrategy { if dual { ScalingStrategy::Dual } else { ScalingStrategy::PrimalDual } }
fn bad(what: &str) -> String { format!("(3%N (* {} *))", what) }

// ---------- one case: input -> Coq expression ----------
fn run_case(op: &str, inp: &Value) -> String {
    let r = guarded(|| run_case_inner(op, inp));
    match r { Some(s) => s, None => bad("the implementation panicked") }
}

fn gp_state_coq(st: &(Vec<f64>, Vec<f64>, f64, Vec<f64>, Vec<f64>, Vec<f64>, Vec<f64>, f64, f64), d1: usize) -> String {
    let (grad, _z, _mu, p, q, r, dd1, d2, _psi) = st;
    format!("(GpD {} {} {} {} {} {} {} {})", cfllist(&grad[..d1]), cfllist(&grad[d1..]), cfllist(&p[..d1]), cfllist(&p[d1..]),
            cfllist(q), cfllist(r), cfllist(dd1), cfl(*d2))
}

fn run_case_inner(op: &str, inp: &Value) -> String {
    match op {
        // ---- 3x3 symmetric matrices ----
        "sym3" => {
            let h: [f64; 6] = fv(&inp["H"]).try_into().unwrap();
            let x: [f64; 3] = fv(&inp["x"]).try_into().unwrap();
            let y: [f64; 3] = fv(&inp["y"]).try_into().unwrap();
            let mut parts = vec![
                format!("c_sym3_mul_exact {} {} {}", s3(&h), v3(&x), v3(&hk::sym3_mul(h, x))),
                format!("c_sym3_quad_exact {} {} {} {}", s3(&h), v3(&y), v3(&x), cfl(hk::sym3_quad_form(h, y, x))),
                format!("c_sym3_norm_fro {} {}", s3(&h), cfl(hk::sym3_norm_fro(h))),
            ];
            for r in 0..3 { for c in 0..3 {
                parts.push(format!("c_sym3_get {} {} {} {}", s3(&h), cn(r), cn(c), cfl(hk::sym3_get(h, r, c))));
            } }
            format!("(maxl [{}])", parts.join("; "))
        }
        "chol" => {
            let a: [f64; 6] = fv(&inp["A"]).try_into().unwrap();
            let b: [f64; 3] = fv(&inp["b"]).try_into().unwrap();
            match hk::sym3_chol_factor(a) {
                Some(l) => format!("(c_sym3_chol {} {} (Some {}) {})", s3(&a), v3(&b), s3(&l), v3(&hk::sym3_chol_solve(l, b))),
                None => format!("(c_sym3_chol {} {} None {})", s3(&a), v3(&b), v3(&[0.0; 3])),
            }
        }
        // ---- exponential cone ----
        "exp_feas" => {
            let (s, z) = (fv(&inp["s"]), fv(&inp["z"]));
            let k = ExponentialCone::<f64>::new();
            let (rp, rd) = (k.verif_is_primal_feasible(&s), k.verif_is_dual_feasible(&z));
            let mut e = format!("c_exp_feas {} {} {} {}", v3(&s), v3(&z), cb(rp), cb(rd));
            if inp["clear"].as_bool().unwrap_or(false) {
                e = format!("N.max ({}) (c_exp_member {} {} {} {})", e, v3(&s), v3(&z), cb(rp), cb(rd));
            }
            format!("({})", e)
        }
        "exp_gradH" => {
            let z = fv(&inp["z"]);
            let mut k = ExponentialCone::<f64>::new();
            k.verif_update_dual_grad_H(&z);
            let (h, _, g, _) = k.verif_state();
            let fval = k.verif_barrier_dual(&z);
            format!("(c_exp_gradH {} {} {} {} {})", cfl(f(&inp["tol"])), v3(&z), v3(&g), s3(&h), cfl(fval))
        }
        "exp_hc" => {
            let (z, ds, v) = (fv(&inp["z"]), fv(&inp["ds"]), fv(&inp["v"]));
            let mut k = ExponentialCone::<f64>::new();
            k.update_scaling(&z, &z, 1.0, ScalingStrategy::Dual);
            let mut eta = [0.0; 3];
            k.verif_higher_correction(&mut eta, &ds, &v);
            let (h, _, _, zs) = k.verif_state();
            format!("(c_exp_hc {} {} {} {} {} {})", cfl(f(&inp["tol"])), s3(&h), v3(&zs), v3(&ds), v3(&v), v3(&eta))
        }
        // third-order correction at z and at (lam z, ds/lam, lam v), lam = 2^k
        "hc_cov" => {
            let is_exp = inp["cone"].as_str().unwrap() == "exp";
            let al = f(&inp["alpha"]);
            let (z, ds, v) = (fv(&inp["z"]), fv(&inp["ds"]), fv(&inp["v"]));
            let lam = (2.0f64).powi(inp["k"].as_i64().unwrap() as i32);
            let tol = f(&inp["tol"]);
            let z2: Vec<f64> = z.iter().map(|x| x * lam).collect();
            let ds2: Vec<f64> = ds.iter().map(|x| x / lam).collect();
            let v2: Vec<f64> = v.iter().map(|x| x * lam).collect();
            let run = |z: &[f64], ds: &[f64], v: &[f64]| -> ([f64; 6], [f64; 3], [f64; 3]) {
                let mut eta = [0.0; 3];
                if is_exp {
                    let mut k = ExponentialCone::<f64>::new();
                    k.update_scaling(z, z, 1.0, ScalingStrategy::Dual);
                    k.verif_higher_correction(&mut eta, ds, v);
                    let (h, _, _, zs) = k.verif_state();
                    (h, zs, eta)
                } else {
                    let mut k = PowerCone::<f64>::new(al);
                    k.update_scaling(z, z, 1.0, ScalingStrategy::Dual);
                    k.verif_higher_correction(&mut eta, ds, v);
                    let (h, _, _, zs) = k.verif_state();
                    (h, zs, eta)
                }
            };
            let (_h1, _z1, eta1) = run(&z, &ds, &v);
            let (h2, zs2, eta2) = run(&z2, &ds2, &v2);
            let inner = if is_exp {
                format!("c_exp_hc {} {} {} {} {} {}", cfl(tol), s3(&h2), v3(&zs2), v3(&ds2), v3(&v2), v3(&eta2))
            } else {
                format!("c_pow_hc {} {} {} {} {} {} {}", cfl(tol), cfl(al), s3(&h2), v3(&zs2), v3(&ds2), v3(&v2), v3(&eta2))
            };
            format!("(N.max ({}) (c_hc_cov {} {} {} {} {} {} {}))", inner, cfl(tol), cfl(lam), s3(&h2), v3(&ds2), v3(&v2), v3(&eta1), v3(&eta2))
        }
        "exp_gradp" => {
            let s = fv(&inp["s"]);
            note_omega_s(&s);
            let mut k = ExponentialCone::<f64>::new();
            let g = k.verif_gradient_primal(&s);
            let bp = k.verif_barrier_primal(&s);
            format!("(c_exp_gradp {} {} {} {})", cfl(f(&inp["tol"])), v3(&s), v3(&g), cfl(bp))
        }
        "wright" => {
            let z = f(&inp["z"]);
            note_omega(z);
            format!("(c_wright {} {})", cfl(z), cfl(hk::verif_wright_omega(z)))
        }
        "exp_scaling" | "pow_scaling" => {
            let (s, z) = (fv(&inp["s"]), fv(&inp["z"]));
            let (mu, dual, tol) = (f(&inp["mu"]), inp["dual"].as_bool().unwrap(), f(&inp["tol"]));
            let x = fv(&inp["x"]);
            let mut y = [0.0; 3];
            let mut packed = [0.0; 6];
            let mut work = [0.0; 3];
            if op == "exp_scaling" {
                if !dual { note_omega_s(&s); }
                let mut k = ExponentialCone::<f64>::new();
                k.update_scaling(&s, &z, mu, strategy(dual));
                let (h, hs, g, _) = k.verif_state();
                let zt = k.verif_gradient_primal(&s);
                k.mul_Hs(&mut y, &x, &mut work);
                k.get_Hs(&mut packed);
                format!("(N.max (c_exp_scaling {} {} {} {} {} {} {} {} {}) (c_mul_Hs {} {} {} {}))", cfl(tol), cb(dual), v3(&s), v3(&z), cfl(mu),
                        v3(&g), s3(&h), s3(&hs), v3(&zt), s3(&hs), v3(&x), v3(&y), cfllist(&packed))
            } else {
                let al = f(&inp["alpha"]);
                if !dual { NEWTON_ALL.fetch_add(1, Ordering::Relaxed); }
                let mut k = PowerCone::<f64>::new(al);
                k.update_scaling(&s, &z, mu, strategy(dual));
                let (h, hs, g, _) = k.verif_state();
                let zt = k.verif_gradient_primal(&s);
                k.mul_Hs(&mut y, &x, &mut work);
                k.get_Hs(&mut packed);
                format!("(N.max (c_pow_scaling {} {} {} {} {} {} {} {} {} {}) (c_mul_Hs {} {} {} {}))", cfl(tol), cfl(al), cb(dual), v3(&s), v3(&z), cfl(mu),
                        v3(&g), s3(&h), s3(&hs), v3(&zt), s3(&hs), v3(&x), v3(&y), cfllist(&packed))
            }
        }
        // badly balanced pairs (lam s, z/lam), lam = 2^k: covariance and strict definiteness
        "exp_scaling_cov" | "pow_scaling_cov" => {
            let (s, z) = (fv(&inp["s"]), fv(&inp["z"]));
            let lam = (2.0f64).powi(inp["k"].as_i64().unwrap() as i32);
            let al = f(&inp["alpha"]);
            let (tol, kk) = (f(&inp["tol"]), inp["minor_bits"].as_i64().unwrap());
            let s2: Vec<f64> = s.iter().map(|x| x * lam).collect();
            let z2: Vec<f64> = z.iter().map(|x| x / lam).collect();
            let run = |s: &[f64], z: &[f64]| -> ([f64; 6], [f64; 6], [f64; 3], [f64; 3]) {
                if op == "exp_scaling_cov" {
                    let mut k = ExponentialCone::<f64>::new();
                    k.update_scaling(s, z, 1.0, ScalingStrategy::PrimalDual);
                    let (h, hs, g, _) = k.verif_state();
                    (h, hs, g, k.verif_gradient_primal(s))
                } else {
                    let mut k = PowerCone::<f64>::new(al);
                    k.update_scaling(s, z, 1.0, ScalingStrategy::PrimalDual);
                    let (h, hs, g, _) = k.verif_state();
                    (h, hs, g, k.verif_gradient_primal(s))
                }
            };
            let (_h1, hs1, _g1, _zt1) = run(&s, &z);
            let (h2, hs2, g2, zt2) = run(&s2, &z2);
            let inner = if op == "exp_scaling_cov" {
                format!("c_exp_scaling {} false {} {} {} {} {} {} {}", cfl(tol), v3(&s2), v3(&z2), cfl(1.0), v3(&g2), s3(&h2), s3(&hs2), v3(&zt2))
            } else {
                format!("c_pow_scaling {} {} false {} {} {} {} {} {} {}", cfl(tol), cfl(al), v3(&s2), v3(&z2), cfl(1.0), v3(&g2), s3(&h2), s3(&hs2), v3(&zt2))
            };
            format!("(N.max ({}) (c_scaling_cov {} {} ({})%Z {} {}))", inner, cfl(tol), cfl(lam), kk, s3(&hs1), s3(&hs2))
        }
        // HISTORIES on one cone object: after every update_scaling call the stored scaling must be
        // the model's value for that call's (s, z, mu, strategy) alone
        "scaling_hist" => {
            let cone = inp["cone"].as_str().unwrap();
            let calls = inp["calls"].as_array().unwrap();
            let x = fv(&inp["x"]);
            let mut parts: Vec<String> = vec![];
            if cone == "gp" {
                let al = fv(&inp["alphas"]);
                let d1 = al.len();
                let n = x.len();
                let mut k = GenPowerCone::<f64>::new(al.clone(), n - d1);
                for c in calls {
                    let (sv, z, mu, dual) = (fv(&c["s"]), fv(&c["z"]), f(&c["mu"]), c["dual"].as_bool().unwrap());
                    let ok = k.update_scaling(&sv, &z, mu, strategy(dual));
                    if !ok { parts.push("3%N".into()); continue; }
                    let st = k.verif_state();
                    let fval = k.verif_barrier_dual(&z);
                    let (mut y, mut yz, mut work, mut diag) = (vec![0.0; n], vec![0.0; n], vec![0.0; n], vec![0.0; n]);
                    k.mul_Hs(&mut y, &x, &mut work);
                    k.mul_Hs(&mut yz, &z, &mut work);
                    k.get_Hs(&mut diag);
                    let tol = cfl(1e-7);
                    parts.push(format!("c_gp_gradH {} {} {} {} {} {}", tol, cfllist(&al), cfllist(&z[..d1]), cfllist(&z[d1..]), gp_state_coq(&st, d1), cfl(fval)));
                    parts.push(format!("c_gp_mulHs {} {} {} {} {} {} {} {} {} {}", tol, gp_state_coq(&st, d1), cfl(mu), cfllist(&x[..d1]), cfllist(&x[d1..]), cfllist(&y),
                                       cfllist(&z[..d1]), cfllist(&z[d1..]), cfllist(&yz), cfllist(&diag)));
                    parts.push(format!("ofb (feq {} {})", cfl(mu), cfl(st.2)));
                }
            } else {
                let al = f(&inp["alpha"]);
                let mut ke = ExponentialCone::<f64>::new();
                let mut kp = PowerCone::<f64>::new(al);
                for c in calls {
                    let (sv, z, mu, dual) = (fv(&c["s"]), fv(&c["z"]), f(&c["mu"]), c["dual"].as_bool().unwrap());
                    let (mut y, mut packed, mut work) = ([0.0; 3], [0.0; 6], [0.0; 3]);
                    if cone == "exp" {
                        ke.update_scaling(&sv, &z, mu, strategy(dual));
                        let (h, hs, g, zs) = ke.verif_state();
                        let zt = ke.verif_gradient_primal(&sv);
                        ke.mul_Hs(&mut y, &x, &mut work);
                        ke.get_Hs(&mut packed);
                        parts.push(format!("c_exp_scaling {} {} {} {} {} {} {} {} {}", cfl(1e-5), cb(dual), v3(&sv), v3(&z), cfl(mu), v3(&g), s3(&h), s3(&hs), v3(&zt)));
                        parts.push(format!("c_exp_gradH {} {} {} {} {}", cfl(1e-7), v3(&z), v3(&g), s3(&h), cfl(ke.verif_barrier_dual(&z))));
                        parts.push(format!("c_mul_Hs {} {} {} {}", s3(&hs), v3(&x), v3(&y), cfllist(&packed)));
                        parts.push(format!("ofb (all3 feq {} {})", v3(&z), v3(&zs)));
                    } else {
                        kp.update_scaling(&sv, &z, mu, strategy(dual));
                        let (h, hs, g, zs) = kp.verif_state();
                        let zt = kp.verif_gradient_primal(&sv);
                        kp.mul_Hs(&mut y, &x, &mut work);
                        kp.get_Hs(&mut packed);
                        parts.push(format!("c_pow_scaling {} {} {} {} {} {} {} {} {} {}", cfl(1e-5), cfl(al), cb(dual), v3(&sv), v3(&z), cfl(mu), v3(&g), s3(&h), s3(&hs), v3(&zt)));
                        parts.push(format!("c_pow_gradH {} {} {} {} {} {}", cfl(1e-7), cfl(al), v3(&z), v3(&g), s3(&h), cfl(kp.verif_barrier_dual(&z))));
                        parts.push(format!("c_mul_Hs {} {} {} {}", s3(&hs), v3(&x), v3(&y), cfllist(&packed)));
                        parts.push(format!("ofb (all3 feq {} {})", v3(&z), v3(&zs)));
                    }
                }
            }
            format!("(maxl [{}])", parts.join("; "))
        }
        // membership verdicts at (2^k s, 2^k z) vs the model there and vs the verdicts at (s, z)
        "feas_cov" => {
            let cone = inp["cone"].as_str().unwrap();
            let (s, z) = (fv(&inp["s"]), fv(&inp["z"]));
            let lam = (2.0f64).powi(inp["k"].as_i64().unwrap() as i32);
            let s2: Vec<f64> = s.iter().map(|x| x * lam).collect();
            let z2: Vec<f64> = z.iter().map(|x| x * lam).collect();
            match cone {
                "exp" => {
                    let k = ExponentialCone::<f64>::new();
                    format!("(c_exp_feas_cov {} {} {} {} {} {})", v3(&s2), v3(&z2), cb(k.verif_is_primal_feasible(&s2)), cb(k.verif_is_dual_feasible(&z2)),
                            cb(k.verif_is_primal_feasible(&s)), cb(k.verif_is_dual_feasible(&z)))
                }
                "pow" => {
                    let al = f(&inp["alpha"]);
                    let k = PowerCone::<f64>::new(al);
                    format!("(c_pow_feas_cov {} {} {} {} {} {} {})", cfl(al), v3(&s2), v3(&z2), cb(k.verif_is_primal_feasible(&s2)), cb(k.verif_is_dual_feasible(&z2)),
                            cb(k.verif_is_primal_feasible(&s)), cb(k.verif_is_dual_feasible(&z)))
                }
                _ => {
                    let al = fv(&inp["alphas"]);
                    let d1 = al.len();
                    let k = GenPowerCone::<f64>::new(al.clone(), s.len() - d1);
                    format!("(c_gp_feas_cov {} {} {} {} {} {} {} {} {})", cfllist(&al), cfllist(&s2[..d1]), cfllist(&s2[d1..]), cfllist(&z2[..d1]), cfllist(&z2[d1..]),
                            cb(k.verif_is_primal_feasible(&s2)), cb(k.verif_is_dual_feasible(&z2)), cb(k.verif_is_primal_feasible(&s)), cb(k.verif_is_dual_feasible(&z)))
                }
            }
        }
        // cone-level step_length from a (tiny-scale) interior pair along given directions
        "step_full" => {
            let cone = inp["cone"].as_str().unwrap();
            let (s, z, ds, dz) = (fv(&inp["s"]), fv(&inp["z"]), fv(&inp["ds"]), fv(&inp["dz"]));
            let amax = f(&inp["amax"]);
            let st = clarabel::verif_hooks::c1315::CoreSettings::<f64>::default();
            let (az, as_) = match cone {
                "exp" => ExponentialCone::<f64>::new().step_length(&dz, &ds, &z, &s, &st, amax),
                "pow" => PowerCone::<f64>::new(f(&inp["alpha"])).step_length(&dz, &ds, &z, &s, &st, amax),
                _ => { let al = fv(&inp["alphas"]); let d1 = al.len(); GenPowerCone::<f64>::new(al, s.len() - d1).step_length(&dz, &ds, &z, &s, &st, amax) }
            };
            format!("(c_step_full {} {} {})", cfl(amax), cfl(az), cfl(as_))
        }
        "exp_unit" => {
            let k = ExponentialCone::<f64>::new();
            let (mut z, mut s) = ([0.0; 3], [0.0; 3]);
            k.unit_initialization(&mut z, &mut s);
            format!("(c_exp_unit {} {})", v3(&z), v3(&s))
        }
        // ---- power cone ----
        "pow_feas" => {
            let (s, z, al) = (fv(&inp["s"]), fv(&inp["z"]), f(&inp["alpha"]));
            let k = PowerCone::<f64>::new(al);
            let (rp, rd) = (k.verif_is_primal_feasible(&s), k.verif_is_dual_feasible(&z));
            let mut e = format!("c_pow_feas {} {} {} {} {}", cfl(al), v3(&s), v3(&z), cb(rp), cb(rd));
            if inp["clear"].as_bool().unwrap_or(false) {
                e = format!("N.max ({}) (c_pow_member {} {} {} {} {})", e, cfl(al), v3(&s), v3(&z), cb(rp), cb(rd));
            }
            format!("({})", e)
        }
        "pow_gradH" => {
            let (z, al) = (fv(&inp["z"]), f(&inp["alpha"]));
            let mut k = PowerCone::<f64>::new(al);
            k.verif_update_dual_grad_H(&z);
            let (h, _, g, _) = k.verif_state();
            let fval = k.verif_barrier_dual(&z);
            format!("(c_pow_gradH {} {} {} {} {} {})", cfl(f(&inp["tol"])), cfl(al), v3(&z), v3(&g), s3(&h), cfl(fval))
        }
        "pow_hc" => {
            let (z, ds, v, al) = (fv(&inp["z"]), fv(&inp["ds"]), fv(&inp["v"]), f(&inp["alpha"]));
            let mut k = PowerCone::<f64>::new(al);
            k.update_scaling(&z, &z, 1.0, ScalingStrategy::Dual);
            let mut eta = [0.0; 3];
            k.verif_higher_correction(&mut eta, &ds, &v);
            let (h, _, _, zs) = k.verif_state();
            format!("(c_pow_hc {} {} {} {} {} {} {})", cfl(f(&inp["tol"])), cfl(al), s3(&h), v3(&zs), v3(&ds), v3(&v), v3(&eta))
        }
        "pow_gradp" => {
            let (s, al) = (fv(&inp["s"]), f(&inp["alpha"]));
            NEWTON_ALL.fetch_add(1, Ordering::Relaxed);
            let mut k = PowerCone::<f64>::new(al);
            let g = k.verif_gradient_primal(&s);
            let bp = k.verif_barrier_primal(&s);
            format!("(c_pow_gradp {} {} {} {} {})", cfl(f(&inp["tol"])), cfl(al), v3(&s), v3(&g), cfl(bp))
        }
        "pow_unit" => {
            let al = f(&inp["alpha"]);
            let k = PowerCone::<f64>::new(al);
            let (mut z, mut s) = ([0.0; 3], [0.0; 3]);
            k.unit_initialization(&mut z, &mut s);
            format!("(c_pow_unit {} {} {})", cfl(al), v3(&z), v3(&s))
        }
        // ---- generalised power cone ----
        "gp_feas" => {
            let (al, s, z) = (fv(&inp["alpha"]), fv(&inp["s"]), fv(&inp["z"]));
            let d1 = al.len();
            let k = GenPowerCone::<f64>::new(al.clone(), s.len() - d1);
            let (rp, rd) = (k.verif_is_primal_feasible(&s), k.verif_is_dual_feasible(&z));
            format!("(c_gp_feas {} {} {} {} {} {} {})", cfllist(&al), cfllist(&s[..d1]), cfllist(&s[d1..]), cfllist(&z[..d1]), cfllist(&z[d1..]), cb(rp), cb(rd))
        }
        "gp_gradH" => {
            let (al, z, mu, x) = (fv(&inp["alpha"]), fv(&inp["z"]), f(&inp["mu"]), fv(&inp["x"]));
            let d1 = al.len();
            let n = z.len();
            let mut k = GenPowerCone::<f64>::new(al.clone(), n - d1);
            k.update_scaling(&z, &z, mu, ScalingStrategy::Dual);
            let st = k.verif_state();
            let fval = k.verif_barrier_dual(&z);
            let mut y = vec![0.0; n];
            let mut yz = vec![0.0; n];
            let mut work = vec![0.0; n];
            let mut diag = vec![0.0; n];
            k.mul_Hs(&mut y, &x, &mut work);
            k.mul_Hs(&mut yz, &z, &mut work);
            k.get_Hs(&mut diag);
            let tol = cfl(f(&inp["tol"]));
            format!("(N.max (c_gp_gradH {} {} {} {} {} {}) (c_gp_mulHs {} {} {} {} {} {} {} {} {} {}))", tol, cfllist(&al), cfllist(&z[..d1]), cfllist(&z[d1..]),
                    gp_state_coq(&st, d1), cfl(fval),
                    tol, gp_state_coq(&st, d1), cfl(st.2), cfllist(&x[..d1]), cfllist(&x[d1..]), cfllist(&y),
                    cfllist(&z[..d1]), cfllist(&z[d1..]), cfllist(&yz), cfllist(&diag))
        }
        "gp_gradp" | "gp_gradp_model" => {
            // the cone is first scaled at zprev (this fills the stored Hessian vectors), then
            // gradient_primal(s) is evaluated: the result must not depend on zprev
            let (al, s, zprev) = (fv(&inp["alpha"]), fv(&inp["s"]), fv(&inp["zprev"]));
            NEWTON_ALL.fetch_add(1, Ordering::Relaxed);
            let d1 = al.len();
            let n = s.len();
            let mut k = GenPowerCone::<f64>::new(al.clone(), n - d1);
            if zprev.len() == n { k.update_scaling(&zprev, &zprev, 1.0, ScalingStrategy::Dual); }
            let mut g = vec![0.0; n];
            k.verif_gradient_primal(&mut g, &s);
            if op == "gp_gradp_model" {
                // tie of the model to the code as it is: the w-part is a multiple of the stored vector r
                let stored_r = k.verif_state().5;
                format!("(c_gp_gradp_model {} {} {} {} {} {} {})", cfl(f(&inp["tol"])), cfllist(&al), cfllist(&s[..d1]), cfllist(&s[d1..]), cfllist(&stored_r), cfllist(&g[..d1]), cfllist(&g[d1..]))
            } else {
                format!("(c_gp_gradp {} {} {} {} {} {})", cfl(f(&inp["tol"])), cfllist(&al), cfllist(&s[..d1]), cfllist(&s[d1..]), cfllist(&g[..d1]), cfllist(&g[d1..]))
            }
        }
        // ---- backtrack_search driven by the cones' own membership tests ----
        "bt3" => {
            let kind = inp["kind"].as_u64().unwrap() as usize;
            let al = f(&inp["alpha"]);
            let (q, dq) = (fv(&inp["q"]), fv(&inp["dq"]));
            let (a0, amin, step) = (f(&inp["a0"]), f(&inp["amin"]), f(&inp["step"]));
            let mut work = [0.0; 3];
            let ke = ExponentialCone::<f64>::new();
            let kp = PowerCone::<f64>::new(al);
            let r = clarabel::verif_hooks::c1315::verif_backtrack_search(&dq, &q, a0, amin, step, |w: &[f64]| match kind {
                0 => ke.verif_is_primal_feasible(w), 1 => ke.verif_is_dual_feasible(w),
                2 => kp.verif_is_primal_feasible(w), _ => kp.verif_is_dual_feasible(w) }, &mut work);
            format!("(c_bt3 {} {} {} {} {} {} {} {})", cn(kind), cfl(al), v3(&q), v3(&dq), cfl(a0), cfl(amin), cfl(step), cfl(r))
        }
        "bt_gp" => {
            let dual = inp["dual"].as_bool().unwrap();
            let al = fv(&inp["alpha"]);
            let (q, dq) = (fv(&inp["q"]), fv(&inp["dq"]));
            let (a0, amin, step) = (f(&inp["a0"]), f(&inp["amin"]), f(&inp["step"]));
            let d1 = al.len();
            let mut work = vec![0.0; q.len()];
            let k = GenPowerCone::<f64>::new(al.clone(), q.len() - d1);
            let r = clarabel::verif_hooks::c1315::verif_backtrack_search(&dq, &q, a0, amin, step, |w: &[f64]| if dual { k.verif_is_dual_feasible(w) } else { k.verif_is_primal_feasible(w) }, &mut work);
            format!("(c_bt_gp {} {} {} {} {} {} {} {} {} {})", cb(dual), cfllist(&al), cfllist(&q[..d1]), cfllist(&dq[..d1]), cfllist(&q[d1..]), cfllist(&dq[d1..]), cfl(a0), cfl(amin), cfl(step), cfl(r))
        }
        "gp_scaling_verdict" => {
            let (al, z, zprev, mu) = (fv(&inp["alpha"]), fv(&inp["z"]), fv(&inp["zprev"]), f(&inp["mu"]));
            let d1 = al.len();
            let mut k = GenPowerCone::<f64>::new(al.clone(), z.len() - d1);
            k.update_scaling(&zprev, &zprev, 1.0, ScalingStrategy::Dual);
            let before = k.verif_state();
            let ok = k.update_scaling(&z, &z, mu, ScalingStrategy::PrimalDual);
            let after = k.verif_state();
            let same = |a: &Vec<f64>, b: &Vec<f64>| a.iter().zip(b).all(|(x, y)| x.to_bits() == y.to_bits());
            let unchanged = same(&before.0, &after.0) && same(&before.1, &after.1) && before.2.to_bits() == after.2.to_bits()
                && same(&before.3, &after.3) && same(&before.4, &after.4) && same(&before.5, &after.5) && same(&before.6, &after.6)
                && before.7.to_bits() == after.7.to_bits();
            format!("(c_gp_scaling_verdict {} {} {} {} {} {})", cfllist(&al), cfllist(&z[..d1]), cfllist(&z[d1..]), cfl(mu), cb(ok), cb(unchanged))
        }
        "gp_unit" => {
            let al = fv(&inp["alpha"]);
            let d2 = inp["dim2"].as_u64().unwrap() as usize;
            let n = al.len() + d2;
            let k = GenPowerCone::<f64>::new(al.clone(), d2);
            let (mut z, mut s) = (vec![0.0; n], vec![0.0; n]);
            k.unit_initialization(&mut z, &mut s);
            format!("(c_gp_unit {} {} {} {})", cfllist(&al), cn(d2), cfllist(&z), cfllist(&s))
        }
        _ => bad("unknown op"),
    }
}

// ---------- generators ----------
struct Gen { rng: Rng, stats: BTreeMap<String, usize>, thorough: bool }
impl Gen {
    fn logu(&mut self, lo: f64, hi: f64) -> f64 { (lo.ln() + self.rng.unit() * (hi.ln() - lo.ln())).exp() }
    fn sym(&mut self) -> f64 { 2.0 * self.rng.unit() - 1.0 }
    /// magnitude: mostly moderate, sometimes spread over 1e-6..1e6
    fn mag(&mut self) -> f64 { if self.rng.chance(1, 3) { self.logu(1e-6, 1e6) } else { self.logu(0.1, 10.0) } }
    fn margin(&mut self) -> f64 { if self.rng.chance(1, 3) { self.logu(1e-4, 1e-1) } else { self.logu(0.05, 0.95) } }
    fn alpha(&mut self) -> f64 {
        match self.rng.below(6) { 0 => 0.5, 1 => self.logu(1e-3, 0.1), 2 => 1.0 - self.logu(1e-3, 0.1), _ => 0.05 + 0.9 * self.rng.unit() }
    }
    fn dir(&mut self, n: usize) -> Vec<f64> { (0..n).map(|_| self.sym()).collect() }
    fn count(&mut self, k: &str) { *self.stats.entry(k.to_string()).or_insert(0) += 1; }

    // interior points; `m` = relative margin to the boundary (m < 0: exterior)
    fn exp_dual(&mut self, m: f64) -> Vec<f64> {
        let (a, b) = (self.mag(), self.mag());
        let l = (b / a).ln();
        let z1min = -a - a * l;
        vec![-a, z1min + m * a * (1.0 + l.abs()), b]
    }
    fn exp_primal(&mut self, m: f64) -> Vec<f64> {
        let (y, z) = (self.mag(), self.mag());
        let l = (z / y).ln();
        vec![y * l - m * y * (1.0 + l.abs()), y, z]
    }
    fn pow_dual(&mut self, al: f64, m: f64) -> Vec<f64> {
        let (a, b) = (self.mag(), self.mag());
        let bound = (a / al).powf(al) * (b / (1.0 - al)).powf(1.0 - al);
        let sg = if self.rng.chance(1, 2) { 1.0 } else { -1.0 };
        vec![a, b, if self.rng.chance(1, 12) && m > 0.0 { 0.0 } else { sg * bound * (1.0 - m) }]
    }
    fn pow_primal(&mut self, al: f64, m: f64) -> Vec<f64> {
        let (a, b) = (self.mag(), self.mag());
        let bound = a.powf(al) * b.powf(1.0 - al);
        let sg = if self.rng.chance(1, 2) { 1.0 } else { -1.0 };
        vec![a, b, if self.rng.chance(1, 12) && m > 0.0 { 0.0 } else { sg * bound * (1.0 - m) }]
    }
    // well-balanced variants (coordinates within a factor 10 of each other): used where a binding
    // tolerance assumes moderate conditioning (scaling covariance, strict minors)
    fn bal(&mut self) -> f64 { self.logu(0.3, 3.0) }
    fn exp_dual_b(&mut self, m: f64) -> Vec<f64> { let (a, b) = (self.bal(), self.bal()); let l = (b / a).ln(); vec![-a, -a - a * l + m * a * (1.0 + l.abs()), b] }
    fn exp_primal_b(&mut self, m: f64) -> Vec<f64> { let (y, z) = (self.bal(), self.bal()); let l = (z / y).ln(); vec![y * l - m * y * (1.0 + l.abs()), y, z] }
    fn pow_dual_b(&mut self, al: f64, m: f64) -> Vec<f64> {
        let (a, b) = (self.bal(), self.bal()); let bd = (a / al).powf(al) * (b / (1.0 - al)).powf(1.0 - al);
        vec![a, b, bd * (1.0 - m) * if self.rng.chance(1, 2) { 1.0 } else { -1.0 }]
    }
    fn pow_primal_b(&mut self, al: f64, m: f64) -> Vec<f64> {
        let (a, b) = (self.bal(), self.bal()); let bd = a.powf(al) * b.powf(1.0 - al);
        vec![a, b, bd * (1.0 - m) * if self.rng.chance(1, 2) { 1.0 } else { -1.0 }]
    }
    fn gp_alpha(&mut self, d1: usize) -> Vec<f64> {
        loop {
            let raw: Vec<f64> = (0..d1).map(|_| 0.05 + self.rng.unit()).collect();
            let t: f64 = raw.iter().sum();
            let mut al: Vec<f64> = raw.iter().map(|x| x / t).collect();
            // make the sum as close to one as the constructor's assertion requires
            let rest: f64 = al[..d1 - 1].iter().sum();
            al[d1 - 1] = 1.0 - rest;
            let sum: f64 = al.iter().fold(0.0, |a, b| a + b);
            if al[d1 - 1] > 0.0 && (1.0 - sum).abs() < f64::EPSILON * d1 as f64 * 0.5 { return al; }
        }
    }
    fn gp_point(&mut self, al: &[f64], d2: usize, dual: bool, m: f64) -> Vec<f64> {
        let u: Vec<f64> = al.iter().map(|_| self.mag()).collect();
        let bound: f64 = al.iter().zip(&u).map(|(a, x)| if dual { (x / a).powf(*a) } else { x.powf(*a) }).product();
        let mut w = self.dir(d2);
        let nw = w.iter().map(|x| x * x).sum::<f64>().sqrt();
        if nw > 0.0 { for x in w.iter_mut() { *x *= bound * (1.0 - m) / nw; } }
        if self.rng.chance(1, 12) && m > 0.0 { for x in w.iter_mut() { *x = 0.0; } }
        [u, w].concat()
    }
}
fn tol_for(m: f64) -> f64 { (4e-11 / m).clamp(1e-9, 1e-6) }

fn emit(sink: &mut CaseSink, g: &mut Gen, op: &str, inp: Value, tag: &str) {
    let coq = run_case(op, &inp);
    g.count(op);
    sink.case(op, inp, coq, &[tag]);
}

fn generate(sink: &mut CaseSink, seed: u64, thorough: bool) -> BTreeMap<String, usize> {
    let mut g = Gen { rng: Rng::new(seed), stats: BTreeMap::new(), thorough };
    let scale = if g.thorough { 8 } else { 1 };
    // --- 3x3 matrices: small integers (exact), then SPD / indefinite float matrices
    for _ in 0..(40 * scale) {
        let h: Vec<f64> = (0..6).map(|_| g.rng.range(-9, 9) as f64).collect();
        let x: Vec<f64> = (0..3).map(|_| g.rng.range(-9, 9) as f64).collect();
        let y: Vec<f64> = (0..3).map(|_| g.rng.range(-9, 9) as f64).collect();
        emit(sink, &mut g, "sym3", json!({"H": h, "x": x, "y": y}), "exact");
    }
    for k in 0..(40 * scale) {
        // A = B B' + shift (packed), shift < 0 now and then to hit each failing pivot
        let b: Vec<f64> = (0..9).map(|_| g.sym() * g.mag()).collect();
        let e = |i: usize, j: usize| (0..3).map(|t| b[3 * i + t] * b[3 * j + t]).sum::<f64>();
        let mut a = vec![e(0, 0), e(0, 1), e(1, 1), e(0, 2), e(1, 2), e(2, 2)];
        if k % 5 == 4 { let i = [0usize, 2, 5][g.rng.below(3)]; a[i] = -a[i] * g.rng.unit(); }
        if k % 11 == 10 { a[0] = 0.0; }
        let rhs = g.dir(3);
        emit(sink, &mut g, "chol", json!({"A": a, "b": rhs}), "chol");
    }
    // SPD matrices scaled by exact powers of two, tiny positive and non-positive pivots
    for (i, k) in [10i32, -10, 20, -20, 30, -30, 40, -40, 52, -52, 60, -60].iter().enumerate() {
        for rep in 0..(2 * scale) {
            let b: Vec<f64> = (0..9).map(|j| if j % 4 == 0 { 2.0 + g.rng.range(0, 3) as f64 } else { g.rng.range(-2, 2) as f64 * 0.5 }).collect();
            let e = |i: usize, j: usize| (0..3).map(|t| b[3 * i + t] * b[3 * j + t]).sum::<f64>();
            let lam = (2.0f64).powi(*k);
            let a: Vec<f64> = [e(0, 0), e(0, 1), e(1, 1), e(0, 2), e(1, 2), e(2, 2)].iter().map(|x| x * lam).collect();
            let rhs: Vec<f64> = g.dir(3).iter().map(|x| x * if (i + rep) % 2 == 0 { 1.0 } else { lam }).collect();
            emit(sink, &mut g, "chol", json!({"A": a, "b": rhs}), "chol-scaled");
        }
    }
    for (d1, d2) in [(1e-20, 1e-30), (1e-30, 1.0), (1.0, 1e-20), (1e-300, 1e-300), (0.0, 1.0), (1.0, 0.0), (-1e-300, 1.0), (1.0, -1e-300)] {
        emit(sink, &mut g, "chol", json!({"A": [1.0, 0.0, d1, 0.0, 0.0, d2], "b": [1.0, 1.0, 1.0]}), "chol-pivot");
        emit(sink, &mut g, "chol", json!({"A": [4.0, 2.0, 1.0 + d1, 0.0, 0.0, d2], "b": [1.0, -1.0, 0.5]}), "chol-pivot");
    }
    // --- feasibility predicates
    // exact boundary points (strict inequalities) and sign patterns
    for (s, z) in [([0.0, 1.0, 1.0], [-1.0, -1.0, 1.0]), ([0.0, 2.0, 2.0], [-2.0, -2.0, 2.0]), ([0.0, 0.5, 0.5], [-0.5, -0.5, 0.5]),
                   ([-1.0, 0.0, 1.0], [0.0, 1.0, 1.0]), ([-1.0, 1.0, 0.0], [-1.0, 1.0, 0.0]), ([1.0, -1.0, 1.0], [1.0, 1.0, 1.0]),
                   ([-1.0, 1.0, 1.0], [-1.0, 1.0, 1.0]), ([-5.0, 1.0, -1.0], [-1.0, 5.0, -1.0])] {
        emit(sink, &mut g, "exp_feas", json!({"s": s, "z": z, "clear": false}), "boundary");
    }
    for al in [0.5, 0.25, 0.75, 0.1] {
        for sg in [1.0, -1.0] {
            emit(sink, &mut g, "pow_feas", json!({"alpha": al, "s": [1.0, 1.0, sg], "z": [al, 1.0 - al, sg], "clear": false}), "boundary");
            emit(sink, &mut g, "pow_feas", json!({"alpha": al, "s": [0.0, 1.0, 0.0], "z": [1.0, 0.0, 0.0], "clear": false}), "boundary");
            emit(sink, &mut g, "pow_feas", json!({"alpha": al, "s": [4.0, 4.0, 4.0 * sg], "z": [-1.0, 1.0, 0.0], "clear": false}), "boundary");
        }
    }
    for _ in 0..(60 * scale) {
        let near = g.rng.chance(1, 3);
        let m = if near { g.logu(1e-9, 1e-6) } else { g.logu(1e-5, 0.9) };
        let (ms, mz) = (if g.rng.chance(1, 2) { m } else { -m }, if g.rng.chance(1, 2) { m } else { -m });
        let (s, z) = (g.exp_primal(ms), g.exp_dual(mz));
        emit(sink, &mut g, "exp_feas", json!({"s": s, "z": z, "clear": !near}), "feas");
        let al = g.alpha();
        let (s, z) = (g.pow_primal(al, ms), g.pow_dual(al, mz));
        emit(sink, &mut g, "pow_feas", json!({"alpha": al, "s": s, "z": z, "clear": !near}), "feas");
    }
    // --- scale covariance of the membership tests and full steps at tiny scale
    for (i, k) in [10i64, -10, 20, -20, 27, -27, 30, -30, 40, -40, 60, -60].iter().enumerate() {
        for rep in 0..(3 * scale) {
            let cone = ["exp", "pow", "gp"][(i + rep) % 3];
            let al = g.alpha();
            let (d1, d2) = (2 + g.rng.below(3), 1 + g.rng.below(2));
            let als = g.gp_alpha(d1);
            let m = match rep % 3 { 0 => g.logu(0.05, 0.9), 1 => g.logu(1e-8, 1e-5), _ => -g.logu(1e-8, 0.5) };
            let mut gm = Gen { rng: Rng::new(g.rng.next()), stats: BTreeMap::new(), thorough: false };
            // moderate magnitudes so that 2^±60 neither overflows nor underflows the squares
            let mut mk = |prim: bool| -> Vec<f64> {
                let v = match cone { "exp" => if prim { gm.exp_primal(m) } else { gm.exp_dual(m) },
                                     "pow" => if prim { gm.pow_primal(al, m) } else { gm.pow_dual(al, m) },
                                     _ => gm.gp_point(&als, d2, !prim, m) };
                v
            };
            let (s, z) = (mk(true), mk(false));
            emit(sink, &mut g, "feas_cov", json!({"cone": cone, "alpha": al, "alphas": als, "s": s, "z": z, "k": k}), "feas-scaled");
            if rep % 3 == 0 && *k < 0 {
                let lam = (2.0f64).powi(*k as i32);
                let (s2, z2): (Vec<f64>, Vec<f64>) = (s.iter().map(|x| x * lam).collect(), z.iter().map(|x| x * lam).collect());
                let zero = vec![0.0; s.len()];
                emit(sink, &mut g, "step_full", json!({"cone": cone, "alpha": al, "alphas": als, "s": s2, "z": z2, "ds": zero, "dz": zero, "amax": 1.0}), "step-tiny");
                emit(sink, &mut g, "step_full", json!({"cone": cone, "alpha": al, "alphas": als, "s": s2, "z": z2, "ds": s2, "dz": z2, "amax": 0.99}), "step-tiny");
            }
        }
    }
    // --- dual gradient / Hessian / barrier, third-order correction
    let n_pts = 100 * scale;
    for _ in 0..n_pts {
        let m = g.margin();
        let z = g.exp_dual(m);
        emit(sink, &mut g, "exp_gradH", json!({"z": z, "tol": tol_for(m)}), "gradH");
        let al = g.alpha();
        let z = g.pow_dual(al, m);
        emit(sink, &mut g, "pow_gradH", json!({"alpha": al, "z": z, "tol": tol_for(m)}), "gradH");
    }
    for _ in 0..(60 * scale) {
        let m = g.margin();
        let z = g.exp_dual(m);
        let (sc_s, sc_v) = (g.mag(), g.mag());
        let ds: Vec<f64> = g.dir(3).iter().map(|x| x * sc_s).collect();
        let v: Vec<f64> = g.dir(3).iter().zip(&z).map(|(x, zi)| x * sc_v * zi.abs().max(1e-3)).collect();
        emit(sink, &mut g, "exp_hc", json!({"z": z, "ds": ds, "v": v, "tol": tol_for(m) * 10.0}), "hc");
        let al = g.alpha();
        let z = g.pow_dual(al, m);
        let ds: Vec<f64> = g.dir(3).iter().map(|x| x * sc_s).collect();
        let v: Vec<f64> = g.dir(3).iter().zip(&z).map(|(x, zi)| x * sc_v * zi.abs().max(1e-3)).collect();
        emit(sink, &mut g, "pow_hc", json!({"alpha": al, "z": z, "ds": ds, "v": v, "tol": tol_for(m) * 10.0}), "hc");
    }
    // third-order correction at dual points scaled by 2^k: eta -> eta / lam, never the zero vector
    for (i, k) in [10i64, -10, 20, -20, 26, -26, 30, -30, 34, -34, 40, -40].iter().enumerate() {
        for rep in 0..(2 * scale) {
            let is_exp = (i + rep) % 2 == 0;
            let al = g.alpha();
            let m = g.logu(0.05, 0.9);
            let z: Vec<f64> = if is_exp { let (a, b) = (g.logu(0.3, 3.0), g.logu(0.3, 3.0)); let l = (b / a).ln(); vec![-a, -a - a * l + m * a * (1.0 + l.abs()), b] }
                              else { let (a, b) = (g.logu(0.3, 3.0), g.logu(0.3, 3.0)); let bd = (a / al).powf(al) * (b / (1.0 - al)).powf(1.0 - al); vec![a, b, bd * (1.0 - m) * if g.rng.chance(1, 2) { 1.0 } else { -1.0 }] };
            let ds = g.dir(3);
            let v: Vec<f64> = g.dir(3).iter().zip(&z).map(|(x, zi)| x * zi.abs().max(1e-3)).collect();
            emit(sink, &mut g, "hc_cov", json!({"cone": if is_exp { "exp" } else { "pow" }, "alpha": al, "z": z, "ds": ds, "v": v, "k": k, "tol": 1e-7}), "hc-scaled");
        }
    }
    // --- primal gradient (conjugacy), Wright omega
    for _ in 0..(60 * scale) {
        let m = g.margin();
        let s = g.exp_primal(m);
        emit(sink, &mut g, "exp_gradp", json!({"s": s, "tol": 1e-6}), "gradp");
        let al = g.alpha();
        let s = g.pow_primal(al, m);
        emit(sink, &mut g, "pow_gradp", json!({"alpha": al, "s": s, "tol": 1e-6}), "gradp");
    }
    for _ in 0..(30 * scale) {
        let z = if g.rng.chance(1, 2) { 1.0 + g.rng.unit() * 4.0 } else { g.logu(1.0, 1e6) };
        emit(sink, &mut g, "wright", json!({"z": z}), "wright");
    }
    // --- update_scaling: off the central path (primal-dual branch), on it (fall-back), dual strategy
    for k in 0..(80 * scale) {
        let al = g.alpha();
        let is_exp = k % 2 == 0;
        let (ms, mz) = (g.margin(), g.margin());
        let z = if is_exp { g.exp_dual(mz) } else { g.pow_dual(al, mz) };
        let mu = g.logu(1e-6, 1e3);
        let central = k % 8 >= 6;
        let s = if central {
            // s = -mu * grad f*(z)
            let gr = if is_exp { let mut c = ExponentialCone::<f64>::new(); c.verif_update_dual_grad_H(&z); c.verif_state().2 }
                     else { let mut c = PowerCone::<f64>::new(al); c.verif_update_dual_grad_H(&z); c.verif_state().2 };
            gr.iter().map(|x| -mu * x).collect::<Vec<f64>>()
        } else if is_exp { g.exp_primal(ms) } else { g.pow_primal(al, ms) };
        let dual = k % 8 == 5 || k % 8 == 4;
        let x = g.dir(3);
        let inp = json!({"alpha": al, "s": s, "z": z, "mu": mu, "dual": dual, "x": x, "tol": 1e-5});
        emit(sink, &mut g, if is_exp { "exp_scaling" } else { "pow_scaling" }, inp, if central { "central" } else if dual { "dual" } else { "pd" });
    }
    // badly balanced pairs: (s, z) -> (2^k s, 2^-k z) at off-central interior points
    for (i, k) in [8i64, -8, 16, -16, 24, -24, 30, -30].iter().enumerate() {
        for rep in 0..(3 * scale) {
            // exponent away from 0 and 1, balanced coordinates, margins >= 0.05: the covariance and the
            // strict minors are binding and assume a moderately conditioned pair
            let al = 0.1 + 0.8 * g.rng.unit();
            let is_exp = (i + rep) % 2 == 0;
            let (ms, mz) = (g.logu(0.05, 0.9), g.logu(0.05, 0.9));
            let (s, z) = if is_exp { (g.exp_primal_b(ms), g.exp_dual_b(mz)) } else { (g.pow_primal_b(al, ms), g.pow_dual_b(al, mz)) };
            let inp = json!({"alpha": al, "s": s, "z": z, "k": k, "tol": 1e-5, "minor_bits": 40});
            emit(sink, &mut g, if is_exp { "exp_scaling_cov" } else { "pow_scaling_cov" }, inp, "balance");
        }
    }
    // histories of update_scaling calls on ONE cone object: same (s, z) with a changed strategy
    // and / or mu, interleaved with calls at new points
    for k in 0..(30 * scale) {
        let cone = ["exp", "pow", "gp"][k % 3];
        let al = g.alpha();
        let (d1, d2) = (2 + g.rng.below(2), 1 + g.rng.below(2));
        let als = g.gp_alpha(d1);
        let mut pt = |g: &mut Gen| -> (Vec<f64>, Vec<f64>) {
            let (ms, mz) = (g.logu(0.05, 0.9), g.logu(0.05, 0.9));
            match cone { "exp" => (g.exp_primal(ms), g.exp_dual(mz)), "pow" => (g.pow_primal(al, ms), g.pow_dual(al, mz)),
                         _ => (g.gp_point(&als, d2, false, ms), g.gp_point(&als, d2, true, mz)) }
        };
        let (p1, p2) = (pt(&mut g), pt(&mut g));
        let mu = g.logu(1e-3, 10.0);
        let call = |p: &(Vec<f64>, Vec<f64>), mu: f64, dual: bool| json!({"s": p.0, "z": p.1, "mu": mu, "dual": dual});
        let calls = match (k / 3) % 5 {
            0 => vec![call(&p1, mu, false), call(&p1, mu, true)],
            1 => vec![call(&p1, mu, true), call(&p1, mu, false), call(&p1, 2.0 * mu, true)],
            2 => vec![call(&p1, mu, true), call(&p1, 2.0 * mu, true), call(&p1, mu / 8.0, true)],
            3 => vec![call(&p1, mu, false), call(&p2, mu, true), call(&p2, mu / 8.0, true), call(&p1, 2.0 * mu, false)],
            _ => vec![call(&p2, mu, true), call(&p1, mu, false), call(&p1, 2.0 * mu, true), call(&p1, 2.0 * mu, false)],
        };
        let n = p1.0.len();
        let x = g.dir(n);
        emit(sink, &mut g, "scaling_hist", json!({"cone": cone, "alpha": al, "alphas": als, "calls": calls, "x": x}), "history");
    }
    emit(sink, &mut g, "exp_unit", json!({}), "unit");
    for _ in 0..(10 * scale) { let al = g.alpha(); emit(sink, &mut g, "pow_unit", json!({"alpha": al}), "unit"); }
    // --- generalised power cone: dims 2..6, dim2 0..3
    for d1 in 2..=4usize { for d2 in 0..=2usize {
        let al = g.gp_alpha(d1);
        let mut s = vec![1.0; d1]; s.extend(vec![0.0; d2]);
        let mut z = al.clone(); z.extend(vec![0.0; d2]);
        if d2 > 0 { s[d1] = 1.0; z[d1] = 1.0; }
        emit(sink, &mut g, "gp_feas", json!({"alpha": al, "s": s, "z": z}), "boundary");
        emit(sink, &mut g, "gp_unit", json!({"alpha": al, "dim2": d2}), "unit");
    } }
    for _ in 0..(100 * scale) {
        let d1 = 2 + g.rng.below(4);
        let d2 = g.rng.below(4);
        let al = g.gp_alpha(d1);
        let near = g.rng.chance(1, 4);
        let m = if near { g.logu(1e-9, 1e-6) } else { g.logu(1e-5, 0.9) };
        let (ms, mz) = (if g.rng.chance(1, 2) || d2 == 0 { m } else { -m }, if g.rng.chance(1, 2) || d2 == 0 { m } else { -m });
        let (s, z) = (g.gp_point(&al, d2, false, ms), g.gp_point(&al, d2, true, mz));
        emit(sink, &mut g, "gp_feas", json!({"alpha": al, "s": s, "z": z}), "feas");
        let m = g.margin();
        let z = g.gp_point(&al, d2, true, m);
        let mu = g.logu(1e-6, 1e3);
        let x = g.dir(d1 + d2);
        emit(sink, &mut g, "gp_gradH", json!({"alpha": al, "z": z, "mu": mu, "x": x, "tol": tol_for(m)}), "gradH");
        let m2 = g.margin(); let s = g.gp_point(&al, d2, false, m2);
        let zprev = if g.rng.chance(3, 4) { g.gp_point(&al, d2, true, 0.5) } else { vec![] };
        emit(sink, &mut g, "gp_gradp", json!({"alpha": al, "s": s, "zprev": zprev, "tol": 1e-6}), "gradp");
        emit(sink, &mut g, "gp_gradp_model", json!({"alpha": al, "s": s, "zprev": zprev, "tol": 1e-6}), "gradp");
    }
    // --- genpow update_scaling verdict: outside / on the boundary of / inside the dual cone
    for k in 0..(24 * scale) {
        let d1 = 2 + g.rng.below(3);
        let d2 = 1 + g.rng.below(2);
        let al = g.gp_alpha(d1);
        let zprev = g.gp_point(&al, d2, true, 0.5);
        let z = match k % 4 {
            0 => { let mut z = al.clone(); z.extend(vec![0.0; d2]); z[d1] = 1.0; z } // zeta = 0 exactly
            1 => { let m = g.logu(1e-9, 0.5); g.gp_point(&al, d2, true, -m) }
            2 => { let m = g.logu(1e-9, 0.5); g.gp_point(&al, d2, true, m) }
            _ => { let mut z = g.gp_point(&al, d2, true, 0.3); z[0] = -z[0]; z }
        };
        emit(sink, &mut g, "gp_scaling_verdict", json!({"alpha": al, "z": z, "zprev": zprev, "mu": 0.5}), "scaling");
    }
    // --- backtrack_search: steps 0.8 / 0.5 / 0.99 / 0.995; directions leaving the cone at
    // alpha* in 1e-6..2 (several hundred backtracks for the slow steps), never feasible, at once
    for k in 0..(48 * scale) {
        let kind = k % 4;
        let al = g.alpha();
        let m = g.logu(1e-3, 0.9);
        let q = match kind { 0 => g.exp_primal(m), 1 => g.exp_dual(m), 2 => g.pow_primal(al, m), _ => g.pow_dual(al, m) };
        let step = [0.8, 0.5, 0.99, 0.995][(k / 4) % 4];
        let astar = match k % 6 { 0 => 2.0, 5 => 5e-5, _ => g.logu(1e-4, 1.0) };
        // q + a*dq = (1 - a/astar) q + a*noise: leaves the cone near a = astar
        let nz: Vec<f64> = g.dir(3).iter().zip(&q).map(|(x, qi)| 0.05 * x * qi.abs() / astar).collect();
        let dq: Vec<f64> = q.iter().zip(&nz).map(|(qi, ni)| -qi / astar + ni).collect();
        let a0 = if g.rng.chance(1, 2) { 1.0 } else { 0.99 };
        emit(sink, &mut g, "bt3", json!({"kind": kind, "alpha": al, "q": q, "dq": dq, "a0": a0, "amin": 1e-4, "step": step}), "backtrack");
    }
    for k in 0..(16 * scale) {
        let d1 = 2 + g.rng.below(3);
        let d2 = 1 + g.rng.below(2);
        let al = g.gp_alpha(d1);
        let dual = k % 2 == 0;
        let q = g.gp_point(&al, d2, dual, 0.5);
        let step = [0.8, 0.99, 0.5, 0.995][(k / 2) % 4];
        let astar = g.logu(1e-4, 1.0);
        let dq: Vec<f64> = q.iter().map(|qi| -qi / astar).collect();
        emit(sink, &mut g, "bt_gp", json!({"dual": dual, "alpha": al, "q": q, "dq": dq, "a0": 1.0, "amin": 1e-4, "step": step}), "backtrack");
    }
    g.stats
}

fn main() {
    let args: Vec<String> = std::env::args().collect();
    let mut out = String::from("/dev/stdout");
    let mut seed: u64 = 1;
    let mut tier = String::from("quick");
    let mut replay: Option<String> = None;
    let mut i = 1;
    while i < args.len() {
        match args[i].as_str() {
            "--out" => { out = args[i + 1].clone(); i += 1; }
            "--seed" => { seed = args[i + 1].parse().unwrap_or(1); i += 1; }
            "--tier" => { tier = args[i + 1].clone(); i += 1; }
            "--replay" => { replay = Some(args[i + 1].clone()); i += 1; }
            _ => {}
        }
        i += 1;
    }
    silence_panics();
    let mut sink = CaseSink::new(&out);
    let replay_file = |sink: &mut CaseSink, p: &str, tag: &str| {
        let txt = std::fs::read_to_string(p).expect("cannot read replay file");
        let v: Value = serde_json::from_str(&txt).expect("replay file is not JSON");
        let cases = match v.get("cases") { Some(Value::Array(a)) => a.clone(), _ => vec![v] };
        for c in cases.iter() {
            if let (Some(op), Some(inp)) = (c["op"].as_str(), c.get("input")) {
                let coq = run_case(op, inp);
                sink.case(op, inp.clone(), coq, &[tag]);
            }
        }
    };
    if let Some(p) = replay {
        replay_file(&mut sink, &p, "replay");
    } else {
        // corpus first: <verif>/corpus/C14/*.json, located relative to the executable
        let mut ncorpus = 0;
        if let Ok(exe) = std::env::current_exe() {
            if let Some(root) = exe.ancestors().nth(4) {
                if let Ok(rd) = std::fs::read_dir(root.join("corpus").join("C14")) {
                    let mut files: Vec<_> = rd.flatten().map(|e| e.path()).filter(|p| p.extension().map(|e| e == "json").unwrap_or(false)).collect();
                    files.sort();
                    for p in files { replay_file(&mut sink, p.to_str().unwrap(), "corpus"); ncorpus += 1; }
                }
            }
        }
        let mut st = generate(&mut sink, seed, tier == "thorough");
        st.insert("corpus_files".into(), ncorpus);
        st.insert("omega_calls_in_enclosure_domain_0_1000".into(), OMEGA_IN.load(Ordering::Relaxed));
        st.insert("omega_calls".into(), OMEGA_ALL.load(Ordering::Relaxed));
        st.insert("newton_raphson_calls_certified_per_sample".into(), NEWTON_ALL.load(Ordering::Relaxed));
        sink.record(json!({"stats": st}));
    }
    sink.record(json!({"meta": {"prop": "c14", "seed": seed, "tier": tier, "blas": blas_shim::AVAILABLE}}));
    sink.flush();
}
