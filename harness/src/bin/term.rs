//! term --out FILE [--seed N] [--tier quick|thorough] [--replay FILE]
//! One solver run per generated problem (probgen::stream); one correspondence case per run whose
//! `coq` field evaluates the four verified checkers of Term/Check.v on (original data, returned
//! vectors, reported figures): C01 termination test, C02 Farkas certificate, C03 report, and the
//! bit-exact decision model.  Shared by the checks C01, C02, C03.
#![allow(mixed_script_confusables)]
#[path = "../blas_shim.rs"]
mod blas_shim;
#[path = "../common.rs"]
mod common;
#[path = "../probgen.rs"]
mod probgen;

use common::*;
use probgen::*;
use serde_json::{json, Value};
use std::collections::BTreeMap;

/// finite -> `(Fin (D m e))`, otherwise `FNaN` / `(FInf neg)`
fn cfv(x: f64) -> String {
    if x.is_finite() { format!("(Fin {})", cdy(x)) } else if x.is_nan() { "FNaN".into() } else { format!("(FInf {})", x < 0.0) }
}

fn case_coq(p: &Problem, o: &Outcome) -> String {
    if !p.all_finite() || !o.vectors_finite() {
        return format!("(nonfinite_case St_{})", o.status);
    }
    // the normalising scalars: for non-infeasible statuses an independent party needs none
    // (ν = τ: factor 1); for infeasible ones the reported residual figures refer to the
    // τ-normalised point and the certificate test to κ and c (hook record).
    let (tau, kappa) = (o.pre_tau, o.pre_kappa);
    let hook_ok = tau.is_finite() && kappa.is_finite() && o.c.is_finite();
    let out = format!(
        "(mkOut St_{} {} {} {} {} {} {} {} {} {} {} {} {} {} {} {})",
        o.status, cdylist(&o.x), cdylist(&o.s), cdylist(&o.z),
        cfv(o.obj_val), cfv(o.obj_val_dual), cfv(o.r_prim), cfv(o.r_dual), cn(o.iterations as usize),
        cfv(o.c), cfv(tau), cfv(kappa), cn(o.rollbacks as usize), cfv(o.dot_qx), cfv(o.dot_bz), hook_ok
    );
    let infof = format!(
        "(mkInfoF {} {} {} {} {} {} {} {} {} {} {} {} {} {})",
        cfl(o.gap_abs), cfl(o.gap_rel), cfl(o.res_primal), cfl(o.res_dual), cfl(o.res_primal_inf), cfl(o.res_dual_inf),
        cfl(o.ktratio), cfl(o.dot_bz), cfl(o.dot_qx), cfl(o.cost_primal), cfl(o.cost_dual), cfl(tau), cfl(kappa),
        hook_ok && o.rollbacks == 0 && o.unscale_calls == 1
    );
    let base = format!("(run_case {} {} {} {} {})", p.coq(), p.settings.coq(), p.settings.coq_f(), out, infof);
    match chain_y(p, o) { Some(y) => format!("(with_chain {} (c_chain {} {} St_{}))", base, p.settings.coq_f(), y, o.status), None => base }
}

/// the final info state of a real run as a `synthF` record for the full-chain tie / branch coverage
/// (only when no roll-back happened: after one the stored figures mix two iterates)
fn chain_y(p: &Problem, o: &Outcome) -> Option<String> {
    if o.rollbacks != 0 || o.unscale_calls != 1 { return None; }
    let infof = format!(
        "(mkInfoF {} {} {} {} {} {} {} {} {} {} {} 1 1 false)",
        cfl(o.gap_abs), cfl(o.gap_rel), cfl(o.res_primal), cfl(o.res_dual), cfl(o.res_primal_inf), cfl(o.res_dual_inf),
        cfl(o.ktratio), cfl(o.dot_bz), cfl(o.dot_qx), cfl(o.cost_primal), cfl(o.cost_dual));
    Some(format!("(mkSynth {} {} {} {} {} {} {} {} {} {} St_Unsolved)", infof, cfl(o.prev_res_primal), cfl(o.prev_res_dual),
                 cfl(o.prev_gap_abs), cfl(o.prev_gap_rel), cn(o.info_iterations as usize), cfl(o.solve_time),
                 cn(p.settings.max_iter as usize), cfl(p.settings.time_limit), cn(o.info_iterations as usize)))
}

fn emit(sink: &mut CaseSink, p: &Problem, o: &Outcome, stats: &mut BTreeMap<String, usize>) { emit_x(sink, p, o, stats, None) }
/// `upd` = (base problem, update) when `o` is the outcome of a re-solve after in-place updates; `p` is then the FINAL data
fn emit_x(sink: &mut CaseSink, p: &Problem, o: &Outcome, stats: &mut BTreeMap<String, usize>, upd: Option<(&Problem, &[DataUpdate])>) {
    let kinds: Vec<&str> = { let mut k: Vec<&str> = p.cones.iter().map(|c| c.kind()).collect(); k.sort(); k.dedup(); k };
    *stats.entry(format!("run:{}", o.run)).or_insert(0) += 1;
    if o.run != "ok" {
        // a panic or hang is C04's subject; recorded, not judged here
        sink.record(json!({"abnormal": {"run": o.run, "problem": p.json()}}));
        return;
    }
    *stats.entry(format!("status:{}", o.status)).or_insert(0) += 1;
    *stats.entry(format!("class:{}", p.class)).or_insert(0) += 1;
    *stats.entry(format!("method:{}", p.settings.method)).or_insert(0) += 1;
    for k in &kinds { *stats.entry(format!("cone:{}", k)).or_insert(0) += 1; }
    for (name, on) in [("equilibrate", p.settings.equilibrate), ("presolve", p.settings.presolve), ("static_reg", p.settings.static_reg),
                       ("dynamic_reg", p.settings.dynamic_reg), ("iter_refine", p.settings.iter_refine), ("p_full", p.p_full)] {
        *stats.entry(format!("{}:{}", name, if on { "on" } else { "off" })).or_insert(0) += 1;
    }
    if o.rollbacks > 0 { *stats.entry("rolled_back".into()).or_insert(0) += 1; *stats.entry(format!("rolled_back_final:{}", o.status)).or_insert(0) += 1; }
    let keep = keep_rows(p);
    if keep.iter().any(|k| !*k) { *stats.entry("rows_dropped".into()).or_insert(0) += 1; }
    // direct (Rust-side) facts that need no arithmetic: lengths, keep-map agreement, normalisation
    let n_ok = o.x.len() == p.n() && o.s.len() == p.m() && o.z.len() == p.m();
    let keep_agree = match &o.presolver_keep { Some(k) => *k == keep, None => keep.iter().all(|b| *b) };
    let infeasible = o.status.contains("Infeasible");
    let norm_ok = if infeasible { (o.var_kappa - 1.0).abs() <= 1e-12 } else { (o.var_tau - 1.0).abs() <= 1e-12 || !o.var_tau.is_finite() };
    let mut tags: Vec<&str> = vec!["C03"];
    if o.status == "Solved" { tags.push("C01"); }
    if o.status == "PrimalInfeasible" || o.status == "DualInfeasible" { tags.push("C02"); }
    let size = p.n().max(p.m());
    if let Some((_, us)) = upd {
        let u = us.last().unwrap();
        if !o.history.is_empty() { *stats.entry(format!("update_transition:{}>{}", o.history.join(">"), o.status)).or_insert(0) += 1; }
        *stats.entry(format!("update:{}", u.kinds())).or_insert(0) += 1;
        *stats.entry(format!("update_status:{}", o.status)).or_insert(0) += 1;
        if (o.c - 1.0).abs() > 1e-3 { *stats.entry("update:c_not_1".into()).or_insert(0) += 1; }
    }
    let updj = match upd { Some((b, us)) => json!({"base": b.json(), "updates": us.iter().map(|u| u.json()).collect::<Vec<_>>(), "history": o.history}), None => Value::Null };
    let cov = match chain_y(p, o) { Some(y) if p.all_finite() && o.vectors_finite() => format!("(cov_chain {} {} St_{})", p.settings.coq_f(), y, o.status), _ => String::new() };
    let input = json!({"problem": p.json(), "cov": cov, "resolve_after_update": updj, "outcome": o.json(), "status": o.status, "class": p.class, "label": p.label,
                       "n": p.n(), "m": p.m(), "size": size, "kinds": kinds,
                       "direct": {"lengths_ok": n_ok, "keep_agree": keep_agree, "normalised": norm_ok,
                                   "iterations_agree": o.iterations == o.info_iterations,
                                   "iterations_count_agree": o.kkt_iterations.map(|k| k == o.iterations).unwrap_or(true),
                                   "update_results_agree": match upd { Some((b, us)) => expected_update_results(b, us) == o.update_results, None => true }, "status_agree": o.status == o.info_status}});
    sink.case("solve", input, case_coq(p, o), &tags);
}

/// Synthetic decision states: figures placed at and around every threshold, pushed through the
/// real `check_termination` / `post_process` (hooks `residuals_with_dots`, `info_set_prev`).
fn synth(sink: &mut CaseSink, rng: &mut Rng, count: usize, stats: &mut BTreeMap<String, usize>) {
    use clarabel::solver::traits::Info;
    use clarabel::solver::{DefaultInfo, SolverStatus};
    let mults = [0.5, 0.999999, 1.0, 1.000001, 2.0, 1e-3, 1e3];
    let st_list = [SolverStatus::MaxIterations, SolverStatus::MaxTime, SolverStatus::NumericalError, SolverStatus::InsufficientProgress,
                   SolverStatus::Solved, SolverStatus::PrimalInfeasible, SolverStatus::DualInfeasible, SolverStatus::Unsolved];
    for k in 0..count {
        let post = k % 2 == 1;
        let set = sample_settings_wide(rng);
        let cs = set.to_clarabel();
        let (tga, tgr, tf, tia, tir, tk) = if post {
            (set.reduced_tol_gap_abs, set.reduced_tol_gap_rel, set.reduced_tol_feas, set.reduced_tol_infeas_abs, set.reduced_tol_infeas_rel, set.reduced_tol_ktratio)
        } else { (set.tol_gap_abs, set.tol_gap_rel, set.tol_feas, set.tol_infeas_abs, set.tol_infeas_rel, set.tol_ktratio) };
        let m = |rng: &mut Rng| *rng.pick(&mults);
        // every figure is placed around EITHER member of its pair (the members are decades apart), so that
        // each comparison is decided by exactly one member in many cases
        let gap_abs = *rng.pick(&[tga, tgr]) * m(rng);
        let gap_rel = *rng.pick(&[tga, tgr]) * m(rng);
        let res_primal = tf * m(rng) * if rng.chance(1, 6) { 150.0 } else { 1.0 };
        let res_dual = tf * m(rng) * if rng.chance(1, 6) { 150.0 } else { 1.0 };
        let ktratio = match rng.below(7) { 0 => 0.5, 1 => 1.0, 2 => 1.0000001, 3 => 1e-15, 4 => 3e-14, _ => (1000.0 / tk) * *rng.pick(&[0.999, 1.0, 1.001, 10.0]) };
        let sgn = |rng: &mut Rng| if rng.chance(4, 5) { -1.0 } else { 1.0 };
        let dot_bz = sgn(rng) * *rng.pick(&[tia, tir]) * m(rng);
        let dot_qx = sgn(rng) * *rng.pick(&[tia, tir]) * m(rng);
        let res_primal_inf = (*rng.pick(&[tia, tir]) * dot_bz).abs() * m(rng);
        let res_dual_inf = (*rng.pick(&[tia, tir]) * dot_qx).abs() * m(rng);
        let prevm = [0.5, 1.0, 2.0, 0.005, 0.02];
        let prev = (0.0, 0.0, res_primal * *rng.pick(&prevm), res_dual * *rng.pick(&prevm), *rng.pick(&[set.tol_gap_abs, set.tol_gap_rel]) * *rng.pick(&[0.5, 2.0]), *rng.pick(&[set.tol_gap_abs, set.tol_gap_rel]) * *rng.pick(&[0.5, 2.0]));
        let max_iter = 50u32;
        let iterations = if rng.chance(1, 4) { max_iter } else { 7 };
        let iter = *rng.pick(&[0u32, 1, 2, 5]);
        let solve_time = if rng.chance(1, 2) { 0.0 } else { 1.0 };
        let time_limit = if rng.chance(1, 3) { 0.5 } else { f64::INFINITY };
        let status0 = if post { *rng.pick(&st_list) } else { SolverStatus::Unsolved };
        let mut info = DefaultInfo::<f64>::new();
        info.gap_abs = gap_abs; info.gap_rel = gap_rel; info.res_primal = res_primal; info.res_dual = res_dual;
        info.res_primal_inf = res_primal_inf; info.res_dual_inf = res_dual_inf; info.ktratio = ktratio;
        info.iterations = iterations; info.solve_time = solve_time; info.status = status0;
        clarabel::verif_hooks::term::info_set_prev(&mut info, prev);
        let res = clarabel::verif_hooks::term::residuals_with_dots(dot_qx, dot_bz);
        let mut cs2 = cs.clone();
        cs2.max_iter = max_iter; cs2.time_limit = time_limit;
        let out = guarded(|| { let mut i = info.clone(); if post { i.post_process(&res, &cs2); } else { i.check_termination(&res, &cs2, iter); } i.status });
        let rust = match out { Some(s) => format!("{:?}", s), None => "Unsolved".to_string() };
        *stats.entry(format!("synth:{}:{}", if post { "post" } else { "term" }, rust)).or_insert(0) += 1;
        let infof = format!("(mkInfoF {} {} {} {} {} {} {} {} {} 0 0 1 1 false)", cfl(gap_abs), cfl(gap_rel), cfl(res_primal), cfl(res_dual),
                            cfl(res_primal_inf), cfl(res_dual_inf), cfl(ktratio), cfl(dot_bz), cfl(dot_qx));
        let y = format!("(mkSynth {} {} {} {} {} {} {} {} {} {} St_{:?})", infof, cfl(prev.2), cfl(prev.3), cfl(prev.4), cfl(prev.5),
                        cn(iterations as usize), cfl(solve_time), cn(max_iter as usize), cfl(time_limit), cn(iter as usize), status0);
        let coq = format!("(c_synth {} {} {} St_{})", post, set.coq_f(), y, rust);
        let cov = format!("(cov_synth {} {} {})", post, set.coq_f(), y);
        let input = json!({"cov": cov, "synth": {"post": post, "settings": set.json(), "gap_abs": gap_abs, "gap_rel": gap_rel, "res_primal": res_primal, "res_dual": res_dual,
                                      "res_primal_inf": res_primal_inf, "res_dual_inf": res_dual_inf, "ktratio": ktratio, "dot_bz": dot_bz, "dot_qx": dot_qx,
                                      "prev": [prev.2, prev.3, prev.4, prev.5], "iterations": iterations, "iter": iter, "solve_time": solve_time,
                                      "time_limit": if time_limit.is_finite() { json!(time_limit) } else { json!("inf") }, "status0": format!("{:?}", status0)},
                           "status": rust, "size": 2});
        sink.case("synth", input, coq, &["C01", "C02", "C03"]);
    }
}

fn main() {
    let args: Vec<String> = std::env::args().collect();
    let mut out = String::from("/dev/stdout");
    let mut seed: u64 = 1;
    let mut tier = String::from("quick");
    let mut replay: Option<String> = None;
    let mut count: Option<usize> = None;
    let mut corpus: Vec<String> = vec![];
    let mut i = 1;
    while i < args.len() {
        match args[i].as_str() {
            "--out" => { out = args[i + 1].clone(); i += 1; }
            "--seed" => { seed = args[i + 1].parse().unwrap_or(1); i += 1; }
            "--tier" => { tier = args[i + 1].clone(); i += 1; }
            "--replay" => { replay = Some(args[i + 1].clone()); i += 1; }
            "--count" => { count = args[i + 1].parse().ok(); i += 1; }
            "--corpus" => { corpus = args[i + 1].split(',').map(|x| x.to_string()).collect(); i += 1; }
            _ => {}
        }
        i += 1;
    }
    if std::env::var("VERIF_DEBUG").is_err() { silence_panics(); }
    let thorough = tier == "thorough";
    let mut sink = CaseSink::new(&out);
    let mut stats: BTreeMap<String, usize> = BTreeMap::new();
    let t0 = std::time::Instant::now();
    if let Some(path) = replay {
        let txt = std::fs::read_to_string(&path).expect("cannot read replay file");
        let v: Value = serde_json::from_str(&txt).expect("replay file is not JSON");
        let items: Vec<Value> = match v.get("cases") { Some(Value::Array(a)) => a.clone(), _ => vec![v] };
        for it in items.iter() {
            let pj = if it.get("input").map(|x| !x.is_null()).unwrap_or(false) { &it["input"]["problem"] } else if it.get("problem").is_some() { &it["problem"] } else { it };
            if pj.get("A").is_none() { continue; }
            let ru = if it.get("input").is_some() { &it["input"]["resolve_after_update"] } else { &it["resolve_after_update"] };
            if ru.is_object() {
                let base = Problem::from_json(&ru["base"]);
                let us: Vec<DataUpdate> = match ru["updates"].as_array() { Some(a) => a.iter().map(DataUpdate::from_json).collect(), None => vec![DataUpdate::from_json(&ru["update"])] };
                let fin = if us.len() == 1 { apply_update(&base, &us[0]) } else { apply_updates(&base, &us) };
                let o = run_updates(&base, &us, 60.0);
                emit_x(&mut sink, &fin, &o, &mut stats, Some((&base, &us)));
                continue;
            }
            let p = Problem::from_json(pj);
            let o = run(&p, 60.0);
            emit(&mut sink, &p, &o, &mut stats);
        }
    } else {
        // regression corpus first (problem JSON files; same record shapes as --replay)
        for dir in corpus.iter() {
            let mut files: Vec<std::path::PathBuf> = std::fs::read_dir(dir).map(|rd| rd.flatten().map(|e| e.path()).filter(|p| p.extension().map(|x| x == "json").unwrap_or(false)).collect()).unwrap_or_default();
            files.sort();
            for f in files {
                let txt = match std::fs::read_to_string(&f) { Ok(t) => t, Err(_) => continue };
                let v: Value = match serde_json::from_str(&txt) { Ok(v) => v, Err(_) => continue };
                let pj = if v.get("input").map(|x| !x.is_null()).unwrap_or(false) { &v["input"]["problem"] } else if v.get("problem").is_some() { &v["problem"] } else { &v };
                if pj.get("A").is_none() { continue; }
                let mut p = Problem::from_json(pj);
                p.label = format!("corpus {}: {}", f.file_name().map(|x| x.to_string_lossy().to_string()).unwrap_or_default(), p.label);
                let o = run(&p, 60.0);
                *stats.entry("corpus".into()).or_insert(0) += 1;
                emit(&mut sink, &p, &o, &mut stats);
            }
        }
        let (nprob, max_size) = if thorough { (count.unwrap_or(2400), 60) } else { (count.unwrap_or(320), 40) };
        let mut rng = Rng::new(seed);
        for idx in 0..nprob {
            let p = stream(&mut rng, idx, max_size);
            let o = run(&p, 30.0);
            emit(&mut sink, &p, &o, &mut stats);
        }
        // in-place data updates + re-solve, judged against the data after the update
        let mut rng3 = Rng::new(seed ^ 0xda7a);
        for idx in 0..(if thorough { 400 } else { 90 }) {
            let (base, u) = gen_update_case(&mut rng3, idx, max_size);
            let fin = apply_update(&base, &u);
            let o = run_update(&base, &u, 30.0);
            emit_x(&mut sink, &fin, &o, &mut stats, Some((&base, std::slice::from_ref(&u))));
        }
        // feasibility transitions on one solver object (feasible -> infeasible, infeasible -> feasible -> infeasible, ...)
        let mut rng5 = Rng::new(seed ^ 0x7a75);
        for idx in 0..(if thorough { 280 } else { 56 }) {
            let (base, us) = gen_transition_case(&mut rng5, idx, max_size);
            let fin = apply_updates(&base, &us);
            let o = run_updates(&base, &us, 30.0);
            emit_x(&mut sink, &fin, &o, &mut stats, Some((&base, &us)));
        }
        // refused updates (must leave the data untouched) and partial (index, value) updates
        let mut rng6 = Rng::new(seed ^ 0x4ef5);
        for idx in 0..(if thorough { 300 } else { 60 }) {
            let (base, us) = if idx % 2 == 0 { gen_refused_case(&mut rng6, idx / 2, max_size) } else { gen_partial_case(&mut rng6, idx / 2, max_size) };
            let fin = apply_updates(&base, &us);
            let o = run_updates(&base, &us, 30.0);
            emit_x(&mut sink, &fin, &o, &mut stats, Some((&base, &us)));
        }
        // right-hand sides of both signs around the infinity bound (default and lowered), presolve on;
        // the bound is process-global: the runner sets and restores it around each (serial) build
        let mut rng4 = Rng::new(seed ^ 0x1f1f);
        for idx in 0..(if thorough { 240 } else { 48 }) {
            let p = gen_infbound_case(&mut rng4, idx);
            let o = run(&p, 30.0);
            emit(&mut sink, &p, &o, &mut stats);
        }
        let mut rng2 = Rng::new(seed ^ 0x5eed);
        synth(&mut sink, &mut rng2, if thorough { 12000 } else { 2400 }, &mut stats);
    }
    sink.record(json!({"stats": stats}));
    sink.record(json!({"meta": {"prop": "term", "seed": seed, "tier": tier, "blas": blas_shim::AVAILABLE, "harness_s": t0.elapsed().as_secs_f64()}}));
    sink.flush();
}
