//! C11: KKT assembly (structure, maps, signs) and KKT values after a scaling update, against
//! Kkt/Spec.v + Kkt/Model.v (checkers in Kkt/Check.v).
//!   c11 --out FILE [--seed N] [--tier quick|thorough] [--replay FILE]
#[path = "../blas_shim.rs"]
mod blas_shim;
#[path = "../common.rs"]
mod common;

use clarabel::algebra::*;
use clarabel::solver::*;
use clarabel::verif_hooks::c11 as vh;
use common::*;
use serde_json::{json, Value};
use std::collections::BTreeMap;

// ------------------------------------------------------------------ cone descriptors
#[derive(Clone, Debug)]
enum CD {
    Z(usize),
    NN(usize),
    SOC(usize),
    EXP,
    POW(f64),
    GP(Vec<f64>, usize),
    PSD(usize),
}
impl CD {
    fn json(&self) -> Value {
        match self {
            CD::Z(d) => json!({"t": "Z", "d": d}),
            CD::NN(d) => json!({"t": "NN", "d": d}),
            CD::SOC(d) => json!({"t": "SOC", "d": d}),
            CD::EXP => json!({"t": "EXP"}),
            CD::POW(a) => json!({"t": "POW", "a": a}),
            CD::GP(a, d2) => json!({"t": "GP", "alpha": a, "d2": d2}),
            CD::PSD(d) => json!({"t": "PSD", "d": d}),
        }
    }
    fn from_json(v: &Value) -> CD {
        let d = || v["d"].as_u64().unwrap() as usize;
        match v["t"].as_str().unwrap() {
            "Z" => CD::Z(d()),
            "NN" => CD::NN(d()),
            "SOC" => CD::SOC(d()),
            "EXP" => CD::EXP,
            "POW" => CD::POW(v["a"].as_f64().unwrap()),
            "GP" => CD::GP(f64_vec(&v["alpha"]), v["d2"].as_u64().unwrap() as usize),
            "PSD" => CD::PSD(d()),
            t => panic!("unknown cone {}", t),
        }
    }
    fn cone(&self) -> SupportedConeT<f64> {
        match self {
            CD::Z(d) => ZeroConeT(*d),
            CD::NN(d) => NonnegativeConeT(*d),
            CD::SOC(d) => SecondOrderConeT(*d),
            CD::EXP => ExponentialConeT(),
            CD::POW(a) => PowerConeT(*a),
            CD::GP(a, d2) => GenPowerConeT(a.clone(), *d2),
            CD::PSD(d) => PSDTriangleConeT(*d),
        }
    }
    fn numel(&self) -> usize {
        match self {
            CD::Z(d) | CD::NN(d) | CD::SOC(d) => *d,
            CD::EXP | CD::POW(_) => 3,
            CD::GP(a, d2) => a.len() + d2,
            CD::PSD(d) => d * (d + 1) / 2,
        }
    }
    fn name(&self) -> String {
        match self {
            CD::Z(_) => "zero".into(),
            CD::NN(_) => "nonneg".into(),
            CD::SOC(d) => (if *d > 4 { "soc>4" } else { "soc<=4" }).into(),
            CD::EXP => "exp".into(),
            CD::POW(_) => "pow".into(),
            CD::GP(_, _) => "genpow".into(),
            CD::PSD(_) => "psd".into(),
        }
    }
}
fn cds_json(c: &[CD]) -> Value { Value::Array(c.iter().map(|x| x.json()).collect()) }
fn cds_from(v: &Value) -> Vec<CD> { v.as_array().unwrap().iter().map(CD::from_json).collect() }

// ------------------------------------------------------------------ raw matrices
#[derive(Clone, Debug)]
struct Raw {
    m: usize,
    n: usize,
    colptr: Vec<usize>,
    rowval: Vec<usize>,
    nzval: Vec<f64>,
}
impl Raw {
    fn json(&self) -> Value {
        json!({"m": self.m, "n": self.n, "colptr": self.colptr, "rowval": self.rowval, "nzval": self.nzval})
    }
    fn from_json(v: &Value) -> Raw {
        Raw {
            m: v["m"].as_u64().unwrap() as usize,
            n: v["n"].as_u64().unwrap() as usize,
            colptr: usize_vec(&v["colptr"]),
            rowval: usize_vec(&v["rowval"]),
            nzval: f64_vec(&v["nzval"]),
        }
    }
    fn csc(&self) -> CscMatrix<f64> {
        CscMatrix { m: self.m, n: self.n, colptr: self.colptr.clone(), rowval: self.rowval.clone(), nzval: self.nzval.clone() }
    }
    fn of(a: &CscMatrix<f64>) -> Raw {
        Raw { m: a.m, n: a.n, colptr: a.colptr.clone(), rowval: a.rowval.clone(), nzval: a.nzval.clone() }
    }
    /// integer-valued literal `R m n colptr rowval nzval` (Csc/Check.v); None if a value is not an integer
    fn coq_z(&self) -> Option<String> {
        let iv = f2i_vec(&self.nzval)?;
        Some(format!("(R {} {} {} {} {})", cn(self.m), cn(self.n), cnlist(&self.colptr), cnlist(&self.rowval), czlist(&iv)))
    }
    /// pattern from a boolean grid (column-major storage), values 1,2,3,... scaled
    fn from_mask(m: usize, n: usize, mask: &dyn Fn(usize, usize) -> bool, val: &mut dyn FnMut(usize) -> f64) -> Raw {
        let mut colptr = vec![0];
        let mut rowval = vec![];
        let mut nzval = vec![];
        for j in 0..n {
            for i in 0..m {
                if mask(i, j) {
                    rowval.push(i);
                    nzval.push(val(rowval.len()));
                }
            }
            colptr.push(rowval.len());
        }
        Raw { m, n, colptr, rowval, nzval }
    }
}

// ------------------------------------------------------------------ Coq printers
fn shape_coq(ci: &vh::ConeInfo) -> String {
    // what the cone says about its own representation decides the intended shape
    if ci.kind == 5 {
        format!("SH 3 {} {}", ci.dims.0, ci.dims.1)
    } else if ci.sparse_expandable {
        format!("SH 2 {} 0", ci.numel)
    } else if ci.hs_is_diagonal {
        format!("SH 0 {} 0", ci.numel)
    } else {
        // dense packed triangle: numel is the block dimension
        format!("SH 1 {} 0", ci.numel)
    }
}
fn shapes_coq(cis: &[vh::ConeInfo]) -> String {
    format!("[{}]", cis.iter().map(|c| format!("({})%N", shape_coq(c))).collect::<Vec<_>>().join(";"))
}
fn maps_coq(mp: &vh::Maps) -> String {
    let sp: Vec<String> = mp.sparse.iter().map(|s| match s {
        vh::SparseMap::Soc { u, v, D } => format!("SOCM {} {} {}", cnlist(u), cnlist(v), cnlist(D)),
        vh::SparseMap::GenPow { p, q, r, D } => format!("GPM {} {} {} {}", cnlist(p), cnlist(q), cnlist(r), cnlist(D)),
    }).collect();
    format!("(MP {} {} {} [{}] {} {})", cnlist(&mp.P), cnlist(&mp.A), cnlist(&mp.Hsblocks), sp.join(";"), cnlist(&mp.diagP), cnlist(&mp.diag_full))
}
fn signs_coq(ds: &[i8]) -> String { czlist(&ds.iter().map(|x| *x as i64).collect::<Vec<_>>()) }

// ------------------------------------------------------------------ structural case
fn struct_input(p: &Raw, a: &Raw, cones: &[CD], tril: bool) -> Value {
    json!({"P": p.json(), "A": a.json(), "cones": cds_json(cones), "tril": tril})
}
/// runs assemble_kkt_matrix through the hook and prints the checker call
fn struct_case(inp: &Value) -> String {
    let p = Raw::from_json(&inp["P"]);
    let a = Raw::from_json(&inp["A"]);
    let cones = cds_from(&inp["cones"]);
    let tril = inp["tril"].as_bool().unwrap();
    let ct: Vec<SupportedConeT<f64>> = cones.iter().map(|c| c.cone()).collect();
    let r = guarded(|| vh::assemble(&p.csc(), &a.csc(), &ct, tril));
    let (pz, az) = (p.coq_z().unwrap(), a.coq_z().unwrap());
    match r {
        None => {
            // the implementation panicked on a well-formed input: Spec still defined, so this is a disagreement
            "1%N".to_string()
        }
        Some(asm) => {
            let k = Raw::of(&asm.K);
            match k.coq_z() {
                None => "1%N".into(),
                Some(kz) => format!("(c_assemble {} {} {} {} {} {} {})", pz, az, shapes_coq(&asm.cones), tril, kz, maps_coq(&asm.maps), signs_coq(&asm.dsigns)),
            }
        }
    }
}

// ------------------------------------------------------------------ value case
/// exact dyadic literal list
fn dyl(v: &[f64]) -> String { cdylist(v) }

struct ValObs {
    snap: vh::Snapshot,
    infos: Vec<vh::ConeInfo>,
    hs: Vec<f64>,
    hblocks: Vec<Vec<Vec<f64>>>,
    p: Raw,
    a: Raw,
}
fn val_coq(o: &ValObs, static_reg: bool) -> String {
    let k = Raw::of(&o.snap.K);
    let (ldl, perm) = match &o.snap.ldl_copy {
        Some((v, p)) => (format!("(Some ({}, {}))", dyl(v), cnlist(p)), ()),
        None => ("None".to_string(), ()),
    };
    let _ = perm;
    let hb = clist(&o.hblocks, |blk| clist(blk, |col| dyl(col)));
    format!(
        "(c_values {} {} {} {} {} {} {} {} {} {} {} {} {} {} {})",
        cn(o.p.n), cn(o.a.m),
        cnlist(&o.p.colptr), cnlist(&o.p.rowval), dyl(&o.p.nzval),
        cnlist(&o.a.colptr), cnlist(&o.a.rowval), dyl(&o.a.nzval),
        shapes_coq(&o.infos),
        format!("{} {} {}", cnlist(&k.colptr), cnlist(&k.rowval), dyl(&k.nzval)),
        maps_coq(&o.snap.maps), signs_coq(&o.snap.dsigns),
        dyl(&o.hs), hb,
        format!("{} {} {}", cdy(o.snap.eps), static_reg, ldl)
    )
}
fn all_finite(o: &ValObs) -> bool {
    o.snap.K.nzval.iter().all(|x| x.is_finite())
        && o.hs.iter().all(|x| x.is_finite())
        && o.hblocks.iter().all(|b| b.iter().all(|c| c.iter().all(|x| x.is_finite())))
        && o.snap.eps.is_finite()
        && o.snap.ldl_copy.as_ref().map(|(v, _)| v.iter().all(|x| x.is_finite())).unwrap_or(true)
}
fn hblocks_from(infos: &[vh::ConeInfo], mul: &mut dyn FnMut(&[f64]) -> Vec<f64>) -> Vec<Vec<Vec<f64>>> {
    let m: usize = infos.iter().map(|c| c.numel).sum();
    let mut out = vec![];
    let mut o = 0;
    for ci in infos {
        let mut blk = vec![];
        for j in 0..ci.numel {
            let mut e = vec![0.0; m];
            e[o + j] = 1.0;
            let y = mul(&e);
            blk.push(y[o..o + ci.numel].to_vec());
        }
        out.push(blk);
        o += ci.numel;
    }
    out
}

fn settings_from(inp: &Value) -> DefaultSettings<f64> {
    let mut s = DefaultSettings::<f64>::default();
    s.verbose = false;
    if let Some(m) = inp.get("method").and_then(|x| x.as_str()) { s.direct_solve_method = m.to_string(); }
    if let Some(b) = inp.get("static_reg").and_then(|x| x.as_bool()) { s.static_regularization_enable = b; }
    if let Some(b) = inp.get("max_iter").and_then(|x| x.as_u64()) { s.max_iter = b as u32; }
    if let Some(b) = inp.get("equilibrate").and_then(|x| x.as_bool()) { s.equilibrate_enable = b; }
    if let Some(b) = inp.get("presolve").and_then(|x| x.as_bool()) { s.presolve_enable = b; }
    if let Some(b) = inp.get("ir").and_then(|x| x.as_bool()) { s.iterative_refinement_enable = b; }
    if let Some(b) = inp.get("dyn_reg").and_then(|x| x.as_bool()) { s.dynamic_regularization_enable = b; }
    if let Some(v) = inp.get("sreg_c").and_then(|x| x.as_f64()) { s.static_regularization_constant = v; }
    if let Some(v) = inp.get("sreg_p").and_then(|x| x.as_f64()) { s.static_regularization_proportional = v; }
    s
}

static LAST_FAILS: std::sync::atomic::AtomicUsize = std::sync::atomic::AtomicUsize::new(0);

/// driven solver: scaling update(s) at the given points, then KKTSolver::update
fn driven_case(inp: &Value) -> Option<String> {
    let p = Raw::from_json(&inp["P"]);
    let a = Raw::from_json(&inp["A"]);
    let cones = cds_from(&inp["cones"]);
    let ct: Vec<SupportedConeT<f64>> = cones.iter().map(|c| c.cone()).collect();
    let settings = settings_from(inp);
    let static_reg = settings.static_regularization_enable;
    let (sreg_c, sreg_p) = (settings.static_regularization_constant, settings.static_regularization_proportional);
    let check_each = inp.get("check_each").and_then(|x| x.as_bool()).unwrap_or(false);
    let pts = inp["points"].as_array().unwrap().clone();
    let r = guarded(move || {
        let mut d = vh::Driven::new(&p.csc(), &a.csc(), &ct, settings);
        let mut ok = true;
        let mut nfail = 0usize;
        let mut each: Vec<ValObs> = vec![];
        for pt in pts.iter() {
            // failure histories: poison one data value (NaN / inf) through the real update_P / update_A,
            // or put the original data back
            if let Some(which) = pt.get("poison").and_then(|x| x.as_str()) {
                let k = pt["k"].as_u64().unwrap() as usize;
                let bad = if pt["v"].as_str() == Some("inf") { f64::INFINITY } else { f64::NAN };
                if which == "A" { let mut m2 = a.csc(); if k < m2.nzval.len() { m2.nzval[k] = bad; } d.update_A(&m2); }
                else { let mut m2 = p.csc(); if k < m2.nzval.len() { m2.nzval[k] = bad; } d.update_P(&m2); }
                continue;
            }
            if let Some(which) = pt.get("restore").and_then(|x| x.as_str()) {
                if which == "A" { d.update_A(&a.csc()); } else { d.update_P(&p.csc()); }
                continue;
            }
            let may_fail = pt.get("may_fail").and_then(|x| x.as_bool()).unwrap_or(false);
            if pt.get("identity").and_then(|x| x.as_bool()).unwrap_or(false) {
                // identity reset (what default_start does on a re-solve), then KKT update
                d.set_identity_scaling();
                ok = d.kkt_update();
                if !ok { break; }
                continue;
            }
            let s = f64_vec(&pt["s"]);
            let z = f64_vec(&pt["z"]);
            let mu = pt["mu"].as_f64().unwrap();
            let dual = pt["dual"].as_bool().unwrap();
            ok = d.update_scaling(&s, &z, mu, dual);
            if !ok { break; }
            ok = d.kkt_update();
            if !ok && may_fail { nfail += 1; ok = true; continue; }   // an expected failed factorisation: keep using the solver
            if !ok { break; }
            if check_each {
                // observe the state after EVERY update
                let infos = d.cone_infos();
                let hs = d.get_Hs();
                let hblocks = hblocks_from(&infos, &mut |x| d.mul_Hs(x));
                each.push(ValObs { snap: d.snapshot(), infos, hs, hblocks, p: p.clone(), a: a.clone() });
            }
        }
        LAST_FAILS.store(nfail, std::sync::atomic::Ordering::SeqCst);
        if !ok { return None; }
        let infos = d.cone_infos();
        let hs = d.get_Hs();
        let hblocks = hblocks_from(&infos, &mut |x| d.mul_Hs(x));
        Some((ValObs { snap: d.snapshot(), infos, hs, hblocks, p, a }, each))
    });
    match r {
        None => Some("1%N".into()),       // panic on a well-formed input
        Some(None) => None,               // scaling/factorisation reported failure: nothing to compare
        Some(Some((o, each))) => if check_each {
            if each.is_empty() || !each.iter().all(all_finite) { return None; }
            // one conjunct per update: values + the regulariser of THAT call
            let parts: Vec<String> = each.iter().map(|e| {
                let k = Raw::of(&e.snap.K);
                format!("(N.max {} (c_eps {} {} {} {} {} {}))", val_coq(e, static_reg), dyl(&k.nzval), cnlist(&e.snap.maps.diag_full),
                        cdy(e.snap.eps), cdy(sreg_c), cdy(sreg_p), static_reg)
            }).collect();
            Some(format!("(maxl [{}])", parts.join(";")))
        } else if all_finite(&o) {
            let last_identity = inp["points"].as_array().and_then(|a| a.last()).and_then(|p| p.get("identity")).and_then(|x| x.as_bool()).unwrap_or(false);
            Some(with_identity(val_coq(&o, static_reg), &o, last_identity))
        } else { None },
    }
}

/// when the cones were just reset to the identity scaling, additionally require that the H they
/// apply is exactly the identity (zero for zero cones)
fn with_identity(coq: String, o: &ValObs, identity: bool) -> String {
    if !identity { return coq; }
    let zero_flags: Vec<bool> = o.infos.iter().map(|c| c.kind == 0).collect();
    let hb = clist(&o.hblocks, |blk| clist(blk, |col| dyl(col)));
    format!("(N.max {} (c_hident {} {}))", coq, cblist(&zero_flags), hb)
}

/// live solver: a few iterations of the real solve loop, then the same observables
fn live_case(inp: &Value) -> Option<String> {
    let p = Raw::from_json(&inp["P"]);
    let a = Raw::from_json(&inp["A"]);
    let q = f64_vec(&inp["q"]);
    let b = f64_vec(&inp["b"]);
    let cones = cds_from(&inp["cones"]);
    let ct: Vec<SupportedConeT<f64>> = cones.iter().map(|c| c.cone()).collect();
    let settings = settings_from(inp);
    let static_reg = settings.static_regularization_enable;
    let resolve_iter: Option<u32> = inp.get("resolve_iter").and_then(|x| x.as_u64()).map(|x| x as u32);
    let symmetric = cones.iter().all(|c| matches!(c, CD::Z(_) | CD::NN(_) | CD::SOC(_) | CD::PSD(_)));
    let r = guarded(move || {
        let mut solver = DefaultSolver::new(&p.csc(), &q, &a.csc(), &b, &ct, settings);
        solver.solve();
        if let Some(k) = resolve_iter {
            // re-solve on the same solver object, stopped after k iterations
            solver.settings.max_iter = k;
            solver.solve();
        } else if solver.info.iterations == 0 { return None; }
        let snap = vh::live_snapshot(&solver)?;
        let infos = vh::live_cone_infos(&solver);
        let hs = vh::live_get_Hs(&solver);
        let hblocks = hblocks_from(&infos, &mut |x| vh::live_mul_Hs(&mut solver, x));
        let (pe, ae) = vh::live_data(&solver);
        Some(ValObs { snap, infos, hs, hblocks, p: Raw::of(&pe), a: Raw::of(&ae) })
    });
    match r {
        None => Some("1%N".into()),
        Some(None) => None,
        Some(Some(o)) => if all_finite(&o) {
            // a symmetric problem re-solved and stopped before the first iteration sits at the identity scaling
            let ident = symmetric && resolve_iter == Some(0);
            Some(with_identity(val_coq(&o, static_reg), &o, ident))
        } else { None },
    }
}

// ------------------------------------------------------------------ generators
fn alpha_for(d1: usize) -> Vec<f64> {
    match d1 {
        1 => vec![1.0],
        2 => vec![0.25, 0.75],
        3 => vec![0.5, 0.25, 0.25],
        4 => vec![0.25, 0.25, 0.25, 0.25],
        _ => { let mut v = vec![0.0; d1]; let w = 1.0 / 8.0; for x in v.iter_mut().take(d1 - 1) { *x = w / ((d1 - 1) as f64) * 1.0; }
               // dyadic-friendly: put the remainder on the last entry (sum is exact when d1-1 is a power of two)
               let s: f64 = v.iter().sum(); v[d1 - 1] = 1.0 - s; v }
    }
}
/// upper-triangular P pattern from a bit mask over the triu cells (column-major order)
fn p_from_bits(n: usize, bits: u64, scale: f64) -> Raw {
    let mut idx = vec![vec![usize::MAX; n]; n];
    let mut k = 0;
    for j in 0..n { for i in 0..=j { idx[i][j] = k; k += 1; } }
    Raw::from_mask(n, n, &|i, j| i <= j && (bits >> idx[i][j]) & 1 == 1, &mut |c| c as f64 * scale)
}
fn a_from_bits(m: usize, n: usize, bits: u64) -> Raw {
    Raw::from_mask(m, n, &|i, j| (bits >> (j * m + i)) & 1 == 1, &mut |c| (100 + c) as f64)
}
fn rand_a(rng: &mut Rng, m: usize, n: usize, dens_num: usize, dens_den: usize) -> Raw {
    let mut mask = vec![vec![false; n]; m];
    for row in mask.iter_mut() { for c in row.iter_mut() { *c = rng.chance(dens_num, dens_den); } }
    Raw::from_mask(m, n, &|i, j| mask[i][j], &mut |c| (100 + c) as f64)
}
fn rand_p(rng: &mut Rng, n: usize, off_num: usize, diag_num: usize, den: usize) -> Raw {
    let mut mask = vec![vec![false; n]; n];
    for i in 0..n { for j in i..n { mask[i][j] = if i == j { rng.chance(diag_num, den) } else { rng.chance(off_num, den) }; } }
    Raw::from_mask(n, n, &|i, j| mask[i][j], &mut |c| c as f64)
}
fn popcount_le(bits: u64, k: u32) -> bool { bits.count_ones() <= k }

fn alphabet() -> Vec<CD> {
    vec![
        CD::Z(1), CD::NN(1), CD::NN(2), CD::SOC(2), CD::SOC(3), CD::SOC(4), CD::EXP, CD::POW(0.5),
        CD::PSD(2), CD::SOC(5), CD::SOC(6), CD::GP(alpha_for(1), 1), CD::GP(alpha_for(2), 1),
        CD::GP(alpha_for(2), 0), CD::GP(alpha_for(1), 2),
    ]
}

struct Stats { by: BTreeMap<String, usize> }
impl Stats {
    fn hit(&mut self, k: &str) { *self.by.entry(k.to_string()).or_insert(0) += 1; }
}

fn emit_struct(sink: &mut CaseSink, st: &mut Stats, stream: &str, p: &Raw, a: &Raw, cones: &[CD], tril: bool) {
    let inp = struct_input(p, a, cones, tril);
    let coq = struct_case(&inp);
    st.hit(&format!("struct/{}", stream));
    st.hit(if tril { "triangle/tril" } else { "triangle/triu" });
    for c in cones { st.hit(&format!("cone/{}", c.name())); }
    sink.case("assemble", inp, coq, &[stream]);
}

fn gen_struct(sink: &mut CaseSink, st: &mut Stats, rng: &mut Rng, thorough: bool) {
    let tris = [false, true];
    // E1: every upper-triangular P pattern (n <= 3; n <= 4 thorough), a few A, a few cone lists
    let nmax = if thorough { 4 } else { 3 };
    let cone_sets: Vec<Vec<CD>> = vec![
        vec![CD::NN(4)],
        vec![CD::SOC(3), CD::Z(1)],
        vec![CD::SOC(2), CD::SOC(2)],
        vec![CD::Z(0), CD::NN(1), CD::EXP],
    ];
    for n in 0..=nmax {
        let cells = n * (n + 1) / 2;
        for bits in 0..(1u64 << cells) {
            let p = p_from_bits(n, bits, 1.0);
            let a_list: Vec<Raw> = vec![
                a_from_bits(4, n, 0),
                a_from_bits(4, n, (1u64 << (4 * n)) - 1),
                a_from_bits(4, n, 0x2491_2491_2491u64 & ((1u64 << (4 * n)) - 1)),
            ];
            for (ai, a) in a_list.iter().enumerate() {
                for (ci, cs) in cone_sets.iter().enumerate() {
                    // thin the product for n = 4 (1024 patterns)
                    if n == 4 && (ai + ci) % 3 != (bits as usize) % 3 { continue; }
                    for &t in tris.iter() { emit_struct(sink, st, "E1-allP", &p, a, cs, t); }
                }
            }
        }
    }
    // E2: every A pattern with few nonzeros
    let dims: Vec<(usize, usize, u32)> = if thorough {
        vec![(3, 2, 6), (4, 1, 4), (2, 3, 4), (4, 2, 4), (5, 2, 3), (3, 3, 4), (5, 3, 3)]
    } else {
        vec![(3, 2, 3), (4, 1, 4), (2, 3, 3), (4, 2, 3), (5, 2, 2)]
    };
    for (m, n, kmax) in dims {
        let ps = vec![p_from_bits(n, 0, 1.0), p_from_bits(n, (1u64 << (n * (n + 1) / 2)) - 1, 1.0), p_from_bits(n, 0b10, 1.0)];
        let cs_list: Vec<Vec<CD>> = match m {
            2 => vec![vec![CD::NN(2)], vec![CD::SOC(2)]],
            3 => vec![vec![CD::NN(3)], vec![CD::POW(0.25)], vec![CD::GP(alpha_for(2), 1)]],
            4 => vec![vec![CD::Z(1), CD::SOC(3)], vec![CD::SOC(4)], vec![CD::GP(alpha_for(2), 2)]],
            _ => vec![vec![CD::SOC(5)], vec![CD::NN(2), CD::EXP], vec![CD::GP(alpha_for(3), 2)]],
        };
        for bits in 0..(1u64 << (m * n)) {
            if !popcount_le(bits, kmax) { continue; }
            let a = a_from_bits(m, n, bits);
            for (pi, p) in ps.iter().enumerate() {
                for (ci, cs) in cs_list.iter().enumerate() {
                    if !thorough && (pi + ci + bits as usize) % 2 == 1 { continue; }
                    for &t in tris.iter() { emit_struct(sink, st, "E2-allA", p, &a, cs, t); }
                }
            }
        }
    }
    // E3: every cone list of length <= 3 (<= 4 thorough, thinned) over the alphabet
    let al = alphabet();
    let lmax = 3;
    let mut lists: Vec<Vec<CD>> = vec![vec![]];
    let mut frontier: Vec<Vec<CD>> = vec![vec![]];
    for _ in 0..lmax {
        let mut next = vec![];
        for l in frontier.iter() { for c in al.iter() { let mut l2 = l.clone(); l2.push(c.clone()); next.push(l2); } }
        lists.extend(next.iter().cloned());
        frontier = next;
    }
    if thorough {
        for _ in 0..6000 { let l: Vec<CD> = (0..4).map(|_| rng.pick(&al).clone()).collect(); lists.push(l); }
    }
    for (k, cs) in lists.iter().enumerate() {
        let m: usize = cs.iter().map(|c| c.numel()).sum();
        let n = 1 + k % 3;
        let p = match k % 4 { 0 => p_from_bits(n, 0b10, 1.0), 1 => p_from_bits(n, 0, 1.0), 2 => p_from_bits(n, 0b101101, 1.0), _ => p_from_bits(n, 0b111111, 1.0) };
        let a = rand_a(rng, m, n, 2, 5);
        for &t in tris.iter() { emit_struct(sink, st, "E3-allcones", &p, &a, cs, t); }
    }
    // R: random large layouts with several sparse cones
    let nr = if thorough { 300 } else { 40 };
    for _ in 0..nr {
        let n = 3 + rng.below(30);
        let nc = 3 + rng.below(12);
        let mut cs = vec![];
        for _ in 0..nc {
            cs.push(match rng.below(10) {
                0 => CD::Z(rng.below(4)),
                1 => CD::NN(1 + rng.below(6)),
                2 => CD::SOC(2 + rng.below(3)),
                3 | 4 => CD::SOC(5 + rng.below(12)),
                5 => CD::EXP,
                6 => CD::POW(0.375),
                7 | 8 => { let d1 = 1 + rng.below(4); CD::GP(alpha_for(d1), rng.below(5)) }
                _ => CD::PSD(1 + rng.below(3)),
            });
        }
        let m: usize = cs.iter().map(|c| c.numel()).sum();
        let p = rand_p(rng, n, 1, 3, 5);
        let a = rand_a(rng, m, n, 1, 6);
        let t = rng.chance(1, 2);
        emit_struct(sink, st, "R-large", &p, &a, &cs, t);
    }
}

// interior points -----------------------------------------------------------
fn dy8(rng: &mut Rng, lo: i64, hi: i64) -> f64 { rng.range(lo, hi) as f64 / 8.0 }

fn interior_point(rng: &mut Rng, cones: &[CD], ct: &[SupportedConeT<f64>], p: &Raw, a: &Raw, spread: f64) -> (Vec<f64>, Vec<f64>) {
    // start from the cones' own unit initialisation, perturb, rescale each cone
    let m: usize = cones.iter().map(|c| c.numel()).sum();
    let d = vh::Driven::new(&p.csc(), &a.csc(), ct, { let mut s = DefaultSettings::<f64>::default(); s.verbose = false; s });
    let mut z = vec![0.0; m];
    let mut s = vec![0.0; m];
    d.unit_initialization(&mut z, &mut s);
    let mut o = 0;
    for c in cones {
        let k = c.numel();
        match c {
            CD::SOC(_) => {
                for v in [&mut s, &mut z] {
                    let mut nrm = 0.0;
                    for i in 1..k { let x = rng.unit() * 2.0 - 1.0; v[o + i] = x; nrm += x * x; }
                    let gap = 0.02 + spread * rng.unit() * 2.0;
                    v[o] = nrm.sqrt() * (1.0 + gap) + 0.01;
                }
            }
            CD::NN(_) => { for i in 0..k { s[o + i] = 0.05 + spread * 4.0 * rng.unit(); z[o + i] = 0.05 + spread * 4.0 * rng.unit(); } }
            CD::Z(_) => { for i in 0..k { s[o + i] = 0.0; z[o + i] = rng.unit() - 0.5; } }
            CD::PSD(dd) => {
                // identity + small symmetric perturbation (scaled svec layout: off-diagonals are small)
                let _ = dd;
                for i in 0..k { s[o + i] += 0.05 * (rng.unit() - 0.5); z[o + i] += 0.05 * (rng.unit() - 0.5); }
            }
            _ => { for i in 0..k { s[o + i] += 0.04 * (rng.unit() - 0.5); z[o + i] += 0.04 * (rng.unit() - 0.5); } }
        }
        let (fs, fz) = (2f64.powi(rng.range(-2, 2) as i32), 2f64.powi(rng.range(-2, 2) as i32));
        for i in 0..k { s[o + i] *= fs; z[o + i] *= fz; }
        o += k;
    }
    (s, z)
}

fn gen_values(sink: &mut CaseSink, st: &mut Stats, rng: &mut Rng, thorough: bool) {
    let pool: Vec<CD> = vec![
        CD::Z(2), CD::NN(3), CD::SOC(2), CD::SOC(3), CD::SOC(4), CD::SOC(5), CD::SOC(6), CD::SOC(9), CD::EXP,
        CD::POW(0.375), CD::GP(alpha_for(2), 1), CD::GP(alpha_for(3), 2), CD::GP(alpha_for(1), 3), CD::GP(alpha_for(2), 0), CD::PSD(2), CD::PSD(3),
    ];
    let nd = if thorough { 400 } else { 60 };
    for it in 0..nd {
        let nc = 1 + rng.below(5);
        let mut cs: Vec<CD> = (0..nc).map(|_| rng.pick(&pool).clone()).collect();
        if it % 3 == 0 { cs.push(CD::SOC(5 + rng.below(4))); }
        if it % 3 == 1 { let d1 = 1 + rng.below(3); cs.push(CD::GP(alpha_for(d1), rng.below(3))); }
        let m: usize = cs.iter().map(|c| c.numel()).sum();
        let n = 1 + rng.below(5);
        // P: diagonally dominant dyadic values, some diagonals missing; A dyadic
        let mut p = rand_p(rng, n, 1, 3, 4);
        for (k, v) in p.nzval.iter_mut().enumerate() { *v = 0.125 * ((k % 5) as f64 + 1.0); }
        for j in 0..n { let e = p.colptr[j + 1]; if e > p.colptr[j] && p.rowval[e - 1] == j { p.nzval[e - 1] = 4.0 + j as f64 * 0.5; } }
        let mut a = rand_a(rng, m, n, 1, 3);
        for v in a.nzval.iter_mut() { *v = dy8(rng, -16, 16); }
        let ct: Vec<SupportedConeT<f64>> = cs.iter().map(|c| c.cone()).collect();
        let npts = 1 + rng.below(2);
        let mut pts = vec![];
        let nonsym = cs.iter().any(|c| matches!(c, CD::EXP | CD::POW(_) | CD::GP(_, _)));
        let okpt = guarded(|| {
            let mut pts = vec![];
            for _ in 0..npts {
                let (s, z) = interior_point(rng, &cs, &ct, &p, &a, if it % 2 == 0 { 0.3 } else { 1.0 });
                let mu = (s.iter().zip(z.iter()).map(|(x, y)| x * y).sum::<f64>() / (m.max(1) as f64)).abs().max(1e-3);
                pts.push(json!({"s": s, "z": z, "mu": mu, "dual": nonsym && rng.chance(1, 2)}));
            }
            pts
        });
        if let Some(ps) = okpt { pts = ps; } else { continue; }
        let method = if it % 5 == 4 { "auto" } else { "qdldl" };
        let inp = json!({"P": p.json(), "A": a.json(), "cones": cds_json(&cs), "points": pts, "method": method, "static_reg": it % 7 != 6});
        if let Some(coq) = driven_case(&inp) {
            st.hit("values/driven");
            for c in cs.iter() { st.hit(&format!("vcone/{}", c.name())); }
            sink.case("driven", inp, coq, &["values"]);
        } else {
            st.hit("values/driven-skipped(scaling or refactor failed / non-finite)");
        }
    }
    // live solves: feasible problems, stopped after a few iterations
    let nl = if thorough { 120 } else { 24 };
    for it in 0..nl {
        let nc = 1 + rng.below(4);
        let sym_pool: Vec<CD> = vec![CD::Z(1), CD::NN(2), CD::SOC(3), CD::SOC(5), CD::SOC(7), CD::EXP, CD::POW(0.5), CD::GP(alpha_for(2), 1), CD::PSD(2)];
        let cs: Vec<CD> = (0..nc).map(|_| rng.pick(&sym_pool).clone()).collect();
        let m: usize = cs.iter().map(|c| c.numel()).sum();
        let n = 2 + rng.below(4);
        let mut p = rand_p(rng, n, 1, 3, 4);
        for (k, v) in p.nzval.iter_mut().enumerate() { *v = 0.125 * ((k % 3) as f64 + 1.0); }
        for j in 0..n { let e = p.colptr[j + 1]; if e > p.colptr[j] && p.rowval[e - 1] == j { p.nzval[e - 1] = 2.0 + j as f64; } }
        let mut a = rand_a(rng, m, n, 1, 2);
        for v in a.nzval.iter_mut() { *v = dy8(rng, -16, 16); }
        // b = A x0 + s0 with s0 interior, so the problem is strictly feasible
        let ct: Vec<SupportedConeT<f64>> = cs.iter().map(|c| c.cone()).collect();
        let s0 = match guarded(|| interior_point(rng, &cs, &ct, &p, &a, 0.5)) { Some((s, _)) => s, None => continue };
        let x0: Vec<f64> = (0..n).map(|_| dy8(rng, -8, 8)).collect();
        let mut b = s0.clone();
        let ac = a.csc();
        for j in 0..n { for k in ac.colptr[j]..ac.colptr[j + 1] { b[ac.rowval[k]] += ac.nzval[k] * x0[j]; } }
        let q: Vec<f64> = (0..n).map(|_| dy8(rng, -8, 8)).collect();
        let inp = json!({"P": p.json(), "A": a.json(), "q": q, "b": b, "cones": cds_json(&cs),
                         "max_iter": 2 + it % 4, "equilibrate": it % 2 == 0, "presolve": false,
                         "method": if it % 3 == 2 { "auto" } else { "qdldl" }, "static_reg": true});
        if let Some(coq) = live_case(&inp) {
            st.hit("values/live");
            sink.case("live", inp, coq, &["values"]);
        } else {
            st.hit("values/live-skipped");
        }
    }
}

/// driven sequences with an identity reset after earlier scaling updates, and live re-solves
fn gen_values_reset(sink: &mut CaseSink, st: &mut Stats, rng: &mut Rng, thorough: bool) {
    let sym_pool: Vec<CD> = vec![CD::Z(1), CD::NN(2), CD::SOC(3), CD::SOC(4), CD::SOC(5), CD::SOC(6), CD::SOC(8), CD::PSD(2)];
    let nd = if thorough { 150 } else { 30 };
    for it in 0..nd {
        let nc = rng.below(4);
        let mut cs: Vec<CD> = (0..nc).map(|_| rng.pick(&sym_pool).clone()).collect();
        cs.push(CD::SOC(5 + rng.below(5)));
        rng.shuffle(&mut cs);
        let m: usize = cs.iter().map(|c| c.numel()).sum();
        let n = 1 + rng.below(4);
        let mut p = rand_p(rng, n, 1, 3, 4);
        for (k, v) in p.nzval.iter_mut().enumerate() { *v = 0.125 * ((k % 5) as f64 + 1.0); }
        for j in 0..n { let e = p.colptr[j + 1]; if e > p.colptr[j] && p.rowval[e - 1] == j { p.nzval[e - 1] = 4.0 + j as f64 * 0.5; } }
        let mut a = rand_a(rng, m, n, 1, 3);
        for v in a.nzval.iter_mut() { *v = dy8(rng, -16, 16); }
        let ct: Vec<SupportedConeT<f64>> = cs.iter().map(|c| c.cone()).collect();
        let mkpt = |rng: &mut Rng| -> Option<Value> {
            guarded(|| {
                let (s, z) = interior_point(rng, &cs, &ct, &p, &a, 1.0);
                let mu = (s.iter().zip(z.iter()).map(|(x, y)| x * y).sum::<f64>() / (m.max(1) as f64)).abs().max(1e-3);
                json!({"s": s, "z": z, "mu": mu, "dual": false})
            })
        };
        let ident = json!({"identity": true});
        let mut pts: Vec<Value> = vec![];
        let pattern = it % 4;
        let mut okp = true;
        let mut push_pt = |pts: &mut Vec<Value>, rng: &mut Rng| { match mkpt(rng) { Some(v) => pts.push(v), None => okp = false } };
        match pattern {
            0 => { push_pt(&mut pts, rng); pts.push(ident.clone()); }
            1 => { push_pt(&mut pts, rng); push_pt(&mut pts, rng); pts.push(ident.clone()); }
            2 => { push_pt(&mut pts, rng); pts.push(ident.clone()); push_pt(&mut pts, rng); pts.push(ident.clone()); }
            _ => { pts.push(ident.clone()); push_pt(&mut pts, rng); pts.push(ident.clone()); push_pt(&mut pts, rng); }
        }
        if !okp { continue; }
        let inp = json!({"P": p.json(), "A": a.json(), "cones": cds_json(&cs), "points": pts,
                         "method": if it % 5 == 4 { "auto" } else { "qdldl" }, "static_reg": it % 6 != 5});
        if let Some(coq) = driven_case(&inp) {
            st.hit("values/driven-identity-reset");
            sink.case("driven", inp, coq, &["values", "reset"]);
        } else {
            st.hit("values/driven-reset-skipped");
        }
    }
    // live re-solves: full solve, then solve() again stopped after 0..2 iterations
    let nl = if thorough { 90 } else { 24 };
    for it in 0..nl {
        let symmetric = it % 3 != 2;
        let pool: Vec<CD> = if symmetric {
            vec![CD::Z(1), CD::NN(2), CD::SOC(3), CD::SOC(5), CD::SOC(6), CD::SOC(8)]
        } else {
            vec![CD::NN(2), CD::SOC(3), CD::SOC(6), CD::GP(alpha_for(2), 1), CD::GP(alpha_for(3), 2), CD::EXP]
        };
        let nc = rng.below(3);
        let mut cs: Vec<CD> = (0..nc).map(|_| rng.pick(&pool).clone()).collect();
        cs.push(CD::SOC(5 + rng.below(4)));
        if !symmetric { cs.push(CD::GP(alpha_for(1 + rng.below(3)), 1 + rng.below(2))); }
        rng.shuffle(&mut cs);
        let m: usize = cs.iter().map(|c| c.numel()).sum();
        let n = 2 + rng.below(4);
        let mut p = rand_p(rng, n, 1, 3, 4);
        for (k, v) in p.nzval.iter_mut().enumerate() { *v = 0.125 * ((k % 3) as f64 + 1.0); }
        for j in 0..n { let e = p.colptr[j + 1]; if e > p.colptr[j] && p.rowval[e - 1] == j { p.nzval[e - 1] = 2.0 + j as f64; } }
        let mut a = rand_a(rng, m, n, 1, 2);
        for v in a.nzval.iter_mut() { *v = dy8(rng, -16, 16); }
        let ct: Vec<SupportedConeT<f64>> = cs.iter().map(|c| c.cone()).collect();
        let s0 = match guarded(|| interior_point(rng, &cs, &ct, &p, &a, 0.5)) { Some((s, _)) => s, None => continue };
        let x0: Vec<f64> = (0..n).map(|_| dy8(rng, -8, 8)).collect();
        let mut b = s0.clone();
        let ac = a.csc();
        for j in 0..n { for k in ac.colptr[j]..ac.colptr[j + 1] { b[ac.rowval[k]] += ac.nzval[k] * x0[j]; } }
        let q: Vec<f64> = (0..n).map(|_| dy8(rng, -8, 8)).collect();
        let inp = json!({"P": p.json(), "A": a.json(), "q": q, "b": b, "cones": cds_json(&cs),
                         "max_iter": 50, "resolve_iter": it % 3, "equilibrate": it % 2 == 0, "presolve": false,
                         "method": "qdldl", "static_reg": true});
        if let Some(coq) = live_case(&inp) {
            st.hit(if symmetric { "values/live-resolve-symmetric" } else { "values/live-resolve-genpow" });
            sink.case("live", inp, coq, &["values", "resolve"]);
        } else {
            st.hit("values/live-resolve-skipped");
        }
    }
}

/// value updates through the maps: drive the real `_update_values` / `_scale_values` /
/// `update_P` / `update_A` on a freshly built DirectLDLKKTSolver and print before/after values
fn mapops_case(inp: &Value) -> Option<String> {
    let p = Raw::from_json(&inp["P"]);
    let a = Raw::from_json(&inp["A"]);
    let cones = cds_from(&inp["cones"]);
    let ct: Vec<SupportedConeT<f64>> = cones.iter().map(|c| c.cone()).collect();
    let mut settings = DefaultSettings::<f64>::default();
    settings.verbose = false;
    settings.direct_solve_method = inp.get("method").and_then(|x| x.as_str()).unwrap_or("qdldl").to_string();
    let ops = inp["ops"].as_array().unwrap().clone();
    let r = guarded(move || {
        let mut d = vh::Driven::new(&p.csc(), &a.csc(), &ct, settings);
        let before = d.snapshot();
        let mut coq_ops: Vec<String> = vec![];
        for op in ops.iter() {
            match op["k"].as_str().unwrap() {
                "u" => { let idx = usize_vec(&op["idx"]); let v = f64_vec(&op["v"]); d.update_values(&idx, &v);
                         coq_ops.push(format!("OpU {} {}", cnlist(&idx), dyl(&v))); }
                "s" => { let idx = usize_vec(&op["idx"]); let c = op["c"].as_f64().unwrap(); d.scale_values(&idx, c);
                         coq_ops.push(format!("OpS {} {}", cnlist(&idx), cdy(c))); }
                "o" => { let idx = usize_vec(&op["idx"]); let c = op["c"].as_f64().unwrap();
                         let sg: Vec<i8> = i64_vec(&op["sg"]).iter().map(|x| *x as i8).collect();
                         d.offset_values(&idx, c, &sg);
                         coq_ops.push(format!("OpO {} {} {}", cnlist(&idx), cdy(c), czlist(&sg.iter().map(|x| *x as i64).collect::<Vec<_>>()))); }
                "P" => { let v = f64_vec(&op["v"]); let mut p2 = p.csc(); p2.nzval = v.clone(); d.update_P(&p2);
                         coq_ops.push(format!("OpU {} {}", cnlist(&before.maps.P), dyl(&v))); }
                "A" => { let v = f64_vec(&op["v"]); let mut a2 = a.csc(); a2.nzval = v.clone(); d.update_A(&a2);
                         coq_ops.push(format!("OpU {} {}", cnlist(&before.maps.A), dyl(&v))); }
                k => panic!("unknown op {}", k),
            }
        }
        let after = d.snapshot();
        (before, after, coq_ops)
    });
    match r {
        None => Some("1%N".into()),
        Some((before, after, coq_ops)) => {
            let (l0, perm) = before.ldl_copy.clone()?;
            let (l1, _) = after.ldl_copy.clone()?;
            let all = [&before.K.nzval, &after.K.nzval, &l0, &l1];
            if !all.iter().all(|v| v.iter().all(|x| x.is_finite())) { return None; }
            Some(format!("(c_mapops {} {} {} [{}] {} {})", dyl(&before.K.nzval), dyl(&l0), cnlist(&perm),
                         coq_ops.join(";"), dyl(&after.K.nzval), dyl(&l1)))
        }
    }
}

fn gen_mapops(sink: &mut CaseSink, st: &mut Stats, rng: &mut Rng, thorough: bool) {
    let pool: Vec<CD> = vec![CD::Z(1), CD::NN(2), CD::SOC(3), CD::SOC(5), CD::SOC(6), CD::EXP, CD::GP(alpha_for(2), 1), CD::PSD(2)];
    let nd = if thorough { 300 } else { 60 };
    for it in 0..nd {
        let nc = 1 + rng.below(4);
        let cs: Vec<CD> = (0..nc).map(|_| rng.pick(&pool).clone()).collect();
        let m: usize = cs.iter().map(|c| c.numel()).sum();
        let n = 1 + rng.below(5);
        let mut p = rand_p(rng, n, 1, 3, 4);
        for v in p.nzval.iter_mut() { *v = dy8(rng, -16, 16); }
        let mut a = rand_a(rng, m, n, 1, 3);
        for v in a.nzval.iter_mut() { *v = dy8(rng, -16, 16); }
        // nnz of the KKT matrix: ask the implementation
        let ct: Vec<SupportedConeT<f64>> = cs.iter().map(|c| c.cone()).collect();
        let nnz = match guarded(|| vh::assemble(&p.csc(), &a.csc(), &ct, false).K.nzval.len()) { Some(k) => k, None => continue };
        if nnz == 0 { continue; }
        let nops = 1 + rng.below(6);
        let mut ops = vec![];
        for _ in 0..nops {
            match rng.below(8) {
                6 | 7 => { let k = rng.below(nnz.min(8) + 1);
                           let idx: Vec<usize> = (0..k).map(|_| rng.below(nnz)).collect();
                           let sg: Vec<i64> = (0..k).map(|_| if rng.chance(1, 2) { 1 } else { -1 }).collect();
                           let c = dy8(rng, -16, 16);
                           ops.push(json!({"k": "o", "idx": idx, "c": c, "sg": sg})); }
                0 | 1 => { let k = rng.below(nnz.min(8) + 1);
                           let idx: Vec<usize> = (0..k).map(|_| rng.below(nnz)).collect();   // repeats allowed
                           let v: Vec<f64> = (0..k).map(|_| dy8(rng, -64, 64)).collect();
                           ops.push(json!({"k": "u", "idx": idx, "v": v})); }
                2 | 3 => { let k = rng.below(nnz.min(8) + 1);
                           let idx: Vec<usize> = (0..k).map(|_| rng.below(nnz)).collect();
                           let c = *rng.pick(&[0.5, 2.0, -4.0, 0.25, -1.0, 0.0]);
                           ops.push(json!({"k": "s", "idx": idx, "c": c})); }
                4 => { let v: Vec<f64> = p.nzval.iter().map(|_| dy8(rng, -32, 32)).collect(); ops.push(json!({"k": "P", "v": v})); }
                _ => { let v: Vec<f64> = a.nzval.iter().map(|_| dy8(rng, -32, 32)).collect(); ops.push(json!({"k": "A", "v": v})); }
            }
        }
        let method = if it % 2 == 0 { "qdldl" } else { "faer" };
        let inp = json!({"P": p.json(), "A": a.json(), "cones": cds_json(&cs), "ops": ops, "method": method});
        if let Some(coq) = mapops_case(&inp) {
            st.hit(&format!("values/mapops-{}", method));
            sink.case("mapops", inp, coq, &["values", "mapops"]);
        } else {
            st.hit("values/mapops-skipped");
        }
    }
}

/// failure histories on one solver object: a factorisation made to fail by a poisoned data value
/// (NaN / inf written through update_A / update_P), then corrected data and a further update;
/// also success -> failure -> success
fn gen_failure_histories(sink: &mut CaseSink, st: &mut Stats, rng: &mut Rng, thorough: bool) {
    let pool: Vec<CD> = vec![CD::Z(1), CD::NN(2), CD::SOC(3), CD::SOC(5), CD::SOC(6), CD::EXP, CD::GP(alpha_for(2), 1), CD::PSD(2)];
    let nd = if thorough { 200 } else { 40 };
    for it in 0..nd {
        let nc = 1 + rng.below(3);
        let cs: Vec<CD> = (0..nc).map(|_| rng.pick(&pool).clone()).collect();
        let m: usize = cs.iter().map(|c| c.numel()).sum();
        let n = 1 + rng.below(4);
        // P with some stored and some missing diagonal entries; A with at least one entry
        let mut p = rand_p(rng, n, 1, 3, 4);
        for (k, v) in p.nzval.iter_mut().enumerate() { *v = 0.125 * ((k % 5) as f64 + 1.0); }
        for j in 0..n { let e = p.colptr[j + 1]; if e > p.colptr[j] && p.rowval[e - 1] == j { p.nzval[e - 1] = 4.0 + j as f64 * 0.5; } }
        let mut a = rand_a(rng, m, n, 1, 2);
        for v in a.nzval.iter_mut() { *v = dy8(rng, -16, 16); }
        if a.nzval.is_empty() && p.nzval.is_empty() { continue; }
        let ct: Vec<SupportedConeT<f64>> = cs.iter().map(|c| c.cone()).collect();
        let nonsym = cs.iter().any(|c| matches!(c, CD::EXP | CD::POW(_) | CD::GP(_, _)));
        let mkpt = |rng: &mut Rng, may_fail: bool| -> Option<Value> {
            guarded(|| {
                let (s, z) = interior_point(rng, &cs, &ct, &p, &a, 0.6);
                let mu = (s.iter().zip(z.iter()).map(|(x, y)| x * y).sum::<f64>() / (m.max(1) as f64)).abs().max(1e-3);
                json!({"s": s, "z": z, "mu": mu, "dual": nonsym, "may_fail": may_fail})
            })
        };
        let use_a = !a.nzval.is_empty() && (p.nzval.is_empty() || it % 3 != 2);
        let (which, len) = if use_a { ("A", a.nzval.len()) } else { ("P", p.nzval.len()) };
        let poison = json!({"poison": which, "k": rng.below(len), "v": if it % 4 == 3 { "inf" } else { "nan" }});
        let restore = json!({"restore": which});
        let mut pts: Vec<Value> = vec![];
        let mut okp = true;
        let mut push_pt = |pts: &mut Vec<Value>, rng: &mut Rng, mf: bool| { match mkpt(rng, mf) { Some(v) => pts.push(v), None => okp = false } };
        match it % 3 {
            0 => { pts.push(poison.clone()); push_pt(&mut pts, rng, true); pts.push(restore.clone()); push_pt(&mut pts, rng, false); }
            1 => { push_pt(&mut pts, rng, false); pts.push(poison.clone()); push_pt(&mut pts, rng, true); pts.push(restore.clone()); push_pt(&mut pts, rng, false); }
            _ => { push_pt(&mut pts, rng, false); pts.push(poison.clone()); push_pt(&mut pts, rng, true); push_pt(&mut pts, rng, true);
                   pts.push(restore.clone()); push_pt(&mut pts, rng, false); push_pt(&mut pts, rng, false); }
        }
        if !okp { continue; }
        let inp = json!({"P": p.json(), "A": a.json(), "cones": cds_json(&cs), "points": pts,
                         "method": if it % 5 == 4 { "faer" } else { "qdldl" }, "static_reg": true});
        if let Some(coq) = driven_case(&inp) {
            let nf = LAST_FAILS.load(std::sync::atomic::Ordering::SeqCst);
            st.hit(if nf > 0 { "values/driven-failure-history(a factorisation failed)" } else { "values/driven-failure-history(no factorisation failed)" });
            sink.case("driven", inp, coq, &["values", "failure-history"]);
        } else {
            st.hit("values/driven-failure-history-skipped");
        }
    }
}

/// settings histories: every combination of iterative refinement / static regularisation / dynamic
/// regularisation on-off and static (constant, proportional) in {default, 0, 1e-4}, 3..6 successive
/// updates with changing scalings on one solver object, everything checked after EVERY update
fn gen_settings_histories(sink: &mut CaseSink, st: &mut Stats, rng: &mut Rng, thorough: bool) {
    let pool: Vec<CD> = vec![CD::Z(1), CD::NN(2), CD::SOC(3), CD::SOC(5), CD::SOC(6), CD::EXP, CD::GP(alpha_for(2), 1), CD::PSD(2)];
    let consts: [Option<f64>; 3] = [None, Some(0.0), Some(1e-4)];
    let mut combos = vec![];
    for ir in [true, false] { for sr in [true, false] { for dr in [true, false] { for c in consts.iter() { for pr in consts.iter() {
        combos.push((ir, sr, dr, *c, *pr));
    }}}}}
    let reps = if thorough { 3 } else { 1 };
    for (idx, (ir, sr, dr, c, pr)) in combos.iter().cycle().take(combos.len() * reps).enumerate() {
        // quick: all 72 combinations once, but only every other one with static regularisation off
        if !thorough && !*sr && idx % 2 == 1 { continue; }
        let nc = 1 + rng.below(3);
        let mut cs: Vec<CD> = (0..nc).map(|_| rng.pick(&pool).clone()).collect();
        // without any regularisation a zero cone gives an exactly zero pivot, which QDLDL reports by
        // panicking (C12's business, not C11's): keep those layouts out of the unregularised runs
        if !*sr && !*dr { for c in cs.iter_mut() { if matches!(c, CD::Z(_)) { *c = CD::NN(1); } } }
        let m: usize = cs.iter().map(|c| c.numel()).sum();
        let n = 1 + rng.below(3);
        let mut p = rand_p(rng, n, 1, 3, 4);
        for (k, v) in p.nzval.iter_mut().enumerate() { *v = 0.125 * ((k % 5) as f64 + 1.0); }
        for j in 0..n { let e = p.colptr[j + 1]; if e > p.colptr[j] && p.rowval[e - 1] == j { p.nzval[e - 1] = 4.0 + j as f64 * 0.5; } }
        let mut a = rand_a(rng, m, n, 1, 2);
        for v in a.nzval.iter_mut() { *v = dy8(rng, -16, 16); }
        let ct: Vec<SupportedConeT<f64>> = cs.iter().map(|c| c.cone()).collect();
        let nonsym = cs.iter().any(|c| matches!(c, CD::EXP | CD::POW(_) | CD::GP(_, _)));
        let nup = 3 + rng.below(4);
        let mut pts = vec![];
        let mut okp = true;
        for _ in 0..nup {
            match guarded(|| {
                let (s, z) = interior_point(rng, &cs, &ct, &p, &a, 0.8);
                let mu = (s.iter().zip(z.iter()).map(|(x, y)| x * y).sum::<f64>() / (m.max(1) as f64)).abs().max(1e-3);
                json!({"s": s, "z": z, "mu": mu, "dual": nonsym})
            }) { Some(v) => pts.push(v), None => okp = false }
        }
        if !okp { continue; }
        let mut inp = json!({"P": p.json(), "A": a.json(), "cones": cds_json(&cs), "points": pts, "check_each": true,
                             "method": if idx % 7 == 6 { "faer" } else { "qdldl" },
                             "static_reg": sr, "ir": ir, "dyn_reg": dr});
        if let Some(v) = c { inp["sreg_c"] = json!(v); }
        if let Some(v) = pr { inp["sreg_p"] = json!(v); }
        if let Some(coq) = driven_case(&inp) {
            st.hit(&format!("values/settings-history ir={} static={} dyn={}", ir, sr, dr));
            sink.case("driven", inp, coq, &["values", "settings-history"]);
        } else {
            st.hit("values/settings-history-skipped");
        }
    }
}

fn replay_case(sink: &mut CaseSink, case: &Value) {
    let op = case["op"].as_str().unwrap_or("assemble");
    let inp = &case["input"];
    let coq = match op {
        "assemble" => Some(struct_case(inp)),
        "driven" => driven_case(inp),
        "live" => live_case(inp),
        "mapops" => mapops_case(inp),
        _ => panic!("unknown op {}", op),
    };
    sink.case(op, inp.clone(), coq.unwrap_or_else(|| "0%N".into()), &["replay"]);
}

fn main() {
    let args: Vec<String> = std::env::args().collect();
    let mut out = String::from("/dev/stdout");
    let mut seed: u64 = 1;
    let mut tier = String::from("quick");
    let mut replay: Option<String> = None;
    let mut i = 1;
    while i < args.len() {
        match args[i].as_str() {
            "--out" => { out = args[i + 1].clone(); i += 1; }
            "--seed" => { seed = args[i + 1].parse().unwrap_or(1); i += 1; }
            "--tier" => { tier = args[i + 1].clone(); i += 1; }
            "--replay" => { replay = Some(args[i + 1].clone()); i += 1; }
            _ => {}
        }
        i += 1;
    }
    silence_panics();
    let thorough = tier == "thorough";
    let mut sink = CaseSink::new(&out);
    if let Some(pth) = replay {
        let txt = std::fs::read_to_string(&pth).expect("cannot read replay file");
        let v: Value = serde_json::from_str(&txt).expect("replay file is not JSON");
        let cases = match v.get("cases") { Some(Value::Array(a)) => a.clone(), _ => vec![v] };
        for c in cases.iter() { if c.get("input").map(|x| !x.is_null()).unwrap_or(false) { replay_case(&mut sink, c); } }
    } else {
        // corpus first
        if let Ok(rd) = std::fs::read_dir("../../corpus/C11") {
            let mut files: Vec<_> = rd.flatten().map(|e| e.path()).collect();
            files.sort();
            for f in files {
                if let Ok(txt) = std::fs::read_to_string(&f) {
                    if let Ok(v) = serde_json::from_str::<Value>(&txt) { replay_case(&mut sink, &v); }
                }
            }
        }
        let mut rng = Rng::new(seed);
        let mut st = Stats { by: BTreeMap::new() };
        gen_struct(&mut sink, &mut st, &mut rng, thorough);
        gen_values(&mut sink, &mut st, &mut rng, thorough);
        gen_values_reset(&mut sink, &mut st, &mut rng, thorough);
        gen_mapops(&mut sink, &mut st, &mut rng, thorough);
        gen_failure_histories(&mut sink, &mut st, &mut rng, thorough);
        gen_settings_histories(&mut sink, &mut st, &mut rng, thorough);
        sink.record(json!({"stats": st.by}));
    }
    sink.record(json!({"meta": {"prop": "c11", "seed": seed, "tier": tier, "blas": blas_shim::AVAILABLE}}));
    sink.flush();
}
