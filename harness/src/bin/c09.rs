//! C09: presolve (removal of "infinite" rows of nonnegative cones, capping, restoring s and z)
//! vs. the Coq model (Presolve/Model.v, checkers in Presolve/Check.v).
//!
//! c09 --out FILE [--seed N] [--tier quick|thorough] [--replay FILE]
//!
//! Three kinds of cases, all run sequentially in this one thread because the infinity bound is
//! a process-global:
//!   build   : DefaultSolver::new on (A, b, cones) with equilibration off; the internal
//!             (A, b, cones, m) and the keep-map are compared with the model inside Coq
//!   solve   : solve with presolve on; the user-visible (s, z) must be the expansion of the
//!             internal ones (checked in Coq) and, on kept rows, bit-for-bit the (s, z) of the
//!             hand-reduced problem solved with presolve off
//!   history : interleaved set_infinity / default_infinity / build / solve
#[path = "../blas_shim.rs"]
mod blas_shim;
#[path = "../common.rs"]
mod common;

use clarabel::algebra::*;
use clarabel::solver::*;
use clarabel::verif_hooks as vh;
use common::*;
use serde_json::{json, Value};
use std::collections::BTreeMap;

// ------------------------------------------------------------------ floats in JSON (bit exact)
fn fj(x: f64) -> Value {
    json!(format!("{:016x}", x.to_bits()))
}
fn fjv(v: &[f64]) -> Value {
    Value::Array(v.iter().map(|x| fj(*x)).collect())
}
fn jf(v: &Value) -> f64 {
    match v {
        Value::String(s) => f64::from_bits(u64::from_str_radix(s, 16).expect("bad float bits")),
        _ => v.as_f64().expect("bad float"),
    }
}
fn jfv(v: &Value) -> Vec<f64> {
    v.as_array().unwrap().iter().map(jf).collect()
}

// ------------------------------------------------------------------ cones
#[derive(Clone, Debug, PartialEq)]
enum C {
    Z(usize),
    NN(usize),
    SOC(usize),
    EXP,
    POW(f64),
    GP(Vec<f64>, usize),
    PSD(usize),
}
impl C {
    fn nvars(&self) -> usize {
        match self {
            C::Z(n) | C::NN(n) | C::SOC(n) => *n,
            C::EXP | C::POW(_) => 3,
            C::GP(a, d) => a.len() + d,
            C::PSD(n) => n * (n + 1) / 2,
        }
    }
    /// the property's notion of "row sits in a nonnegative cone": NN rows, and the single row of
    /// a second-order / PSD cone of dimension one (the same constraint s >= 0)
    fn scalar(&self) -> bool {
        matches!(self, C::NN(_) | C::SOC(1) | C::PSD(1))
    }
    fn to_rust(&self) -> SupportedConeT<f64> {
        match self {
            C::Z(n) => ZeroConeT(*n),
            C::NN(n) => NonnegativeConeT(*n),
            C::SOC(n) => SecondOrderConeT(*n),
            C::EXP => ExponentialConeT(),
            C::POW(a) => PowerConeT(*a),
            C::GP(a, d) => GenPowerConeT(a.clone(), *d),
            C::PSD(n) => PSDTriangleConeT(*n),
        }
    }
    fn of_rust(c: &SupportedConeT<f64>) -> C {
        match c {
            ZeroConeT(n) => C::Z(*n),
            NonnegativeConeT(n) => C::NN(*n),
            SecondOrderConeT(n) => C::SOC(*n),
            ExponentialConeT() => C::EXP,
            PowerConeT(a) => C::POW(*a),
            GenPowerConeT(a, d) => C::GP(a.clone(), *d),
            PSDTriangleConeT(n) => C::PSD(*n),
        }
    }
    fn coq(&self) -> String {
        match self {
            C::Z(n) => format!("ZeroC {}", n),
            C::NN(n) => format!("NNC {}", n),
            C::SOC(n) => format!("SOC {}", n),
            C::EXP => "ExpC".into(),
            C::POW(_) => "PowC".into(),
            C::GP(a, d) => format!("GenPowC {} {}", a.len(), d),
            C::PSD(n) => format!("PSDC {}", n),
        }
    }
    fn json(&self) -> Value {
        match self {
            C::Z(n) => json!({"k": "Z", "n": n}),
            C::NN(n) => json!({"k": "NN", "n": n}),
            C::SOC(n) => json!({"k": "SOC", "n": n}),
            C::EXP => json!({"k": "EXP"}),
            C::POW(a) => json!({"k": "POW", "a": fj(*a)}),
            C::GP(a, d) => json!({"k": "GP", "a": fjv(a), "d": d}),
            C::PSD(n) => json!({"k": "PSD", "n": n}),
        }
    }
    fn from_json(v: &Value) -> C {
        let n = || v["n"].as_u64().unwrap() as usize;
        match v["k"].as_str().unwrap() {
            "Z" => C::Z(n()),
            "NN" => C::NN(n()),
            "SOC" => C::SOC(n()),
            "EXP" => C::EXP,
            "POW" => C::POW(jf(&v["a"])),
            "GP" => C::GP(jfv(&v["a"]), v["d"].as_u64().unwrap() as usize),
            "PSD" => C::PSD(n()),
            k => panic!("unknown cone kind {}", k),
        }
    }
    /// parameters the Coq model does not carry
    fn params(&self) -> Option<Vec<f64>> {
        match self {
            C::POW(a) => Some(vec![*a]),
            C::GP(a, _) => Some(a.clone()),
            _ => None,
        }
    }
}
fn cones_coq(cs: &[C]) -> String {
    clist(cs, |c| c.coq())
}
fn cones_json(cs: &[C]) -> Value {
    Value::Array(cs.iter().map(|c| c.json()).collect())
}
fn cones_from_json(v: &Value) -> Vec<C> {
    v.as_array().unwrap().iter().map(C::from_json).collect()
}
fn total(cs: &[C]) -> usize {
    cs.iter().map(|c| c.nvars()).sum()
}
fn params_of(cs: &[C]) -> Vec<Vec<f64>> {
    cs.iter().filter(|c| c.nvars() != 0).filter_map(|c| c.params()).collect()
}
fn bits_eq(a: &[f64], b: &[f64]) -> bool {
    a.len() == b.len() && a.iter().zip(b).all(|(x, y)| x.to_bits() == y.to_bits())
}

// ------------------------------------------------------------------ matrices
fn dense_to_csc(d: &[Vec<f64>], n: usize) -> CscMatrix<f64> {
    let m = d.len();
    let mut colptr = vec![0usize];
    let mut rowval = vec![];
    let mut nzval = vec![];
    for j in 0..n {
        for (i, row) in d.iter().enumerate() {
            if row[j] != 0.0 {
                rowval.push(i);
                nzval.push(row[j]);
            }
        }
        colptr.push(rowval.len());
    }
    CscMatrix { m, n, colptr, rowval, nzval }
}
fn raw_coq(a: &CscMatrix<f64>) -> String {
    format!("(RF {} {} {} {} {})", cn(a.m), cn(a.n), cnlist(&a.colptr), cnlist(&a.rowval), cfllist(&a.nzval))
}
fn dense_json(d: &[Vec<f64>]) -> Value {
    Value::Array(d.iter().map(|r| fjv(r)).collect())
}
fn dense_from_json(v: &Value) -> Vec<Vec<f64>> {
    v.as_array().unwrap().iter().map(jfv).collect()
}
fn optkeep_coq(k: &Option<Vec<bool>>) -> String {
    match k {
        Some(k) => format!("(Some {})", cblist(k)),
        None => "None".into(),
    }
}

fn settings(pe: bool, equil: bool) -> DefaultSettings<f64> {
    let mut s = DefaultSettings::<f64>::default();
    s.verbose = false;
    s.presolve_enable = pe;
    s.equilibrate_enable = equil;
    s.chordal_decomposition_enable = false;
    s
}

fn threshold(inf: f64) -> f64 {
    (1.0 - f64::EPSILON * 10.0) * inf
}
fn next_up(x: f64) -> f64 {
    if !x.is_finite() || x == 0.0 { return x; }
    let b = x.to_bits();
    f64::from_bits(if x > 0.0 { b + 1 } else { b - 1 })
}
fn next_down(x: f64) -> f64 {
    if !x.is_finite() || x == 0.0 { return x; }
    let b = x.to_bits();
    f64::from_bits(if x > 0.0 { b - 1 } else { b + 1 })
}
/// values at, around and far above the contracted threshold of bound `inf`
fn big_ladder(inf: f64) -> Vec<f64> {
    let e = f64::EPSILON;
    let thr = threshold(inf);
    let mut v = vec![
        f64::INFINITY, f64::MAX, 2.0 * inf, inf, next_down(inf), next_up(inf),
        thr, next_up(thr), next_down(thr), next_up(next_up(thr)),
        inf * (1.0 - 5.0 * e), inf * (1.0 - 8.0 * e), inf * (1.0 - 9.0 * e), inf * (1.0 - 11.0 * e),
        inf * (1.0 - 12.0 * e), inf * (1.0 - 50.0 * e), inf * (1.0 - 200.0 * e), inf * (1.0 - 2000.0 * e),
        inf * 0.5, inf * 1.0e3,
    ];
    v.retain(|x| !x.is_nan());
    v
}

// ------------------------------------------------------------------ statistics
#[derive(Default)]
struct Stats {
    by: BTreeMap<String, usize>,
}
impl Stats {
    fn bump(&mut self, k: &str) {
        *self.by.entry(k.to_string()).or_insert(0) += 1;
    }
}

// ------------------------------------------------------------------ build cases
struct BuildOut {
    a: CscMatrix<f64>,
    b: Vec<f64>,
    cones: Vec<C>,
    m: usize,
    keep: Option<Vec<bool>>,
}
fn do_build(a: &CscMatrix<f64>, b: &[f64], q: &[f64], cones: &[C], pe: bool, equil: bool) -> Option<DefaultSolver<f64>> {
    let n = a.n;
    let p = CscMatrix::<f64>::zeros((n, n));
    let rc: Vec<SupportedConeT<f64>> = cones.iter().map(|c| c.to_rust()).collect();
    guarded(|| DefaultSolver::new(&p, q, a, b, &rc, settings(pe, equil)))
}
fn observe_build(s: &DefaultSolver<f64>) -> BuildOut {
    BuildOut {
        a: s.data.A.clone(),
        b: s.data.b.clone(),
        cones: s.data.cones.iter().map(C::of_rust).collect(),
        m: s.data.m,
        keep: vh::presolver_keep(&s.data),
    }
}

fn run_build(sink: &mut CaseSink, st: &mut Stats, input: &Value, tags: &[&str]) {
    let cones = cones_from_json(&input["cones"]);
    let ad = dense_from_json(&input["A"]);
    let n = input["n"].as_u64().unwrap() as usize;
    let b = jfv(&input["b"]);
    let pe = input["presolve"].as_bool().unwrap();
    let inf = jf(&input["infbound"]);
    let a = dense_to_csc(&ad, n);
    let q = vec![1.0; n];
    clarabel::set_infinity(inf);
    let solver = do_build(&a, &b, &q, &cones, pe, false);
    let head = format!("c_build {} {} {} {} {}", pe, cfl(inf), raw_coq(&a), cfllist(&b), cones_coq(&cones));
    let coq = match solver {
        None => {
            st.bump("build:panicked");
            // the model is total: a panic of the implementation on a dimension-consistent
            // problem is a disagreement
            "1%N".to_string()
        }
        Some(s) => {
            let o = observe_build(&s);
            let params_ok = params_of(&cones) == params_of(&o.cones);
            if o.keep.is_some() { st.bump("build:reduced"); } else { st.bump("build:not-reduced"); }
            if o.m == 0 { st.bump("build:all-rows-dropped"); }
            format!("({} {} {} {} {} {} {})", head, raw_coq(&o.a), cfllist(&o.b), cones_coq(&o.cones), cn(o.m), optkeep_coq(&o.keep), params_ok)
        }
    };
    sink.case("build", input.clone(), coq, tags);
}

fn finite_b(i: usize) -> f64 {
    (((i * 7 + 3) % 11) as f64) - 3.0
}
fn small_a(m: usize, n: usize) -> Vec<Vec<f64>> {
    (0..m)
        .map(|i| (0..n).map(|j| if j == 0 { (i + 1) as f64 } else if (i + j) % 3 == 1 { 0.0 } else { ((i * 5 + j * 3) % 7) as f64 - 3.0 }).collect())
        .collect()
}

fn alphabet(thorough: bool) -> Vec<C> {
    let mut v = vec![
        C::Z(0), C::Z(1), C::Z(2), C::NN(0), C::NN(1), C::NN(2), C::SOC(1), C::SOC(2), C::SOC(3), C::EXP,
        C::POW(0.5), C::GP(vec![0.5, 0.5], 1), C::PSD(1), C::PSD(2),
    ];
    if thorough {
        v.extend(vec![C::NN(3), C::SOC(0), C::PSD(0), C::POW(0.25), C::GP(vec![0.25, 0.75], 0)]);
    }
    v
}

fn bounds_pool() -> Vec<f64> {
    vec![1e20, 1e20, 1e20, 1e20, 1e6, (2.0f64).powi(40), 3.5e12, 1e20, 5.0, 1e300, f64::INFINITY, 0.0, -1e3]
}

fn gen_build_case(cones: &[C], mask: u64, pe: bool, inf: f64, rng: &mut Rng, n: usize) -> Value {
    let m = total(cones);
    let ladder = big_ladder(inf);
    let b: Vec<f64> = (0..m).map(|i| if (mask >> i) & 1 == 1 { *rng.pick(&ladder) } else { finite_b(i) }).collect();
    json!({"cones": cones_json(cones), "n": n, "A": dense_json(&small_a(m, n)), "b": fjv(&b), "presolve": pe, "infbound": fj(inf)})
}

fn enumerate_builds(sink: &mut CaseSink, st: &mut Stats, rng: &mut Rng, thorough: bool) {
    // quick   : lists of <= 3 cones over the core alphabet, <= 6 rows; all placements when the list
    //           has <= 2 cones or <= 3 rows, otherwise none / all / 3 sampled placements
    // thorough: lists of <= 3 cones over the extended alphabet and of 4 cones over the core
    //           alphabet, <= 8 rows; all placements when <= 2 cones, or 3 cones and <= 6 rows, or <= 4 rows,
    //           otherwise none / all / 4 sampled placements
    let core = alphabet(false);
    let ext = alphabet(thorough);
    let maxlen = if thorough { 4 } else { 3 };
    let maxm = if thorough { 8 } else { 6 };
    let pool = bounds_pool();
    let mut lists: Vec<Vec<C>> = vec![vec![]];
    let mut frontier: Vec<Vec<C>> = vec![vec![]];
    for len in 1..=maxlen {
        let alpha = if len <= 3 { &ext } else { &core };
        let mut next = vec![];
        for l in &frontier {
            if len == 4 && l.iter().any(|c| !core.contains(c)) { continue; }
            for c in alpha {
                let mut l2 = l.clone();
                l2.push(c.clone());
                if total(&l2) <= maxm {
                    next.push(l2);
                }
            }
        }
        lists.extend(next.iter().cloned());
        frontier = next;
    }
    for l in &lists {
        let m = total(l);
        let nmask = 1u64 << m;
        let full = if thorough { l.len() <= 2 || (l.len() == 3 && m <= 6) || m <= 4 } else { l.len() <= 2 || m <= 3 };
        let masks: Vec<u64> = if full {
            (0..nmask).collect()
        } else {
            let mut v = vec![0, nmask - 1];
            let k = if thorough { 4 } else { 3 };
            for _ in 0..k { v.push(rng.next() % nmask); }
            v
        };
        for mask in masks {
            let inf = *rng.pick(&pool);
            // presolve off is the simpler path (cap only): one case in three
            let pe = !rng.chance(1, 3);
            let input = gen_build_case(l, mask, pe, inf, rng, 2);
            st.bump(&format!("build:enum:len{}", l.len()));
            run_build(sink, st, &input, &["enum"]);
        }
    }
}

fn random_cone(rng: &mut Rng, maxd: usize) -> C {
    match rng.below(10) {
        0 => C::Z(rng.below(maxd + 1)),
        1 | 2 | 3 => C::NN(rng.below(maxd + 1)),
        4 => C::SOC(rng.below(maxd + 1)),
        5 => C::EXP,
        6 => C::POW(0.3),
        7 => {
            let k = 1 + rng.below(3);
            C::GP(vec![1.0 / k as f64; k], rng.below(3))
        }
        8 => C::PSD(rng.below(4)),
        _ => C::SOC(1),
    }
}

fn random_builds(sink: &mut CaseSink, st: &mut Stats, rng: &mut Rng, count: usize) {
    let pool = bounds_pool();
    let mut k = 0;
    while k < count {
        let nc = 1 + rng.below(8);
        let cones: Vec<C> = (0..nc).map(|_| random_cone(rng, 6)).collect();
        let m = total(&cones);
        if m > 40 { continue; }
        let n = 1 + rng.below(6);
        let inf = *rng.pick(&pool);
        let ladder = big_ladder(inf);
        let pbig = rng.below(5);
        let b: Vec<f64> = (0..m).map(|_| if rng.below(4) < pbig { *rng.pick(&ladder) } else { rng.range(-9, 9) as f64 }).collect();
        let a: Vec<Vec<f64>> = (0..m).map(|_| (0..n).map(|_| if rng.chance(1, 2) { 0.0 } else { rng.range(-5, 5) as f64 }).collect()).collect();
        let pe = !rng.chance(1, 4);
        let input = json!({"cones": cones_json(&cones), "n": n, "A": dense_json(&a), "b": fjv(&b), "presolve": pe, "infbound": fj(inf)});
        st.bump("build:random");
        run_build(sink, st, &input, &["random"]);
        k += 1;
    }
}

// ------------------------------------------------------------------ solve cases
fn interior(c: &C, dual: bool, rng: &mut Rng) -> Vec<f64> {
    match c {
        C::Z(n) => (0..*n).map(|_| if dual { rng.range(-2, 2) as f64 } else { 0.0 }).collect(),
        C::NN(n) => (0..*n).map(|_| rng.range(1, 3) as f64).collect(),
        C::SOC(n) => (0..*n).map(|i| if i == 0 { (*n as f64) + 1.0 } else { rng.range(-1, 1) as f64 }).collect(),
        C::EXP => if dual { vec![-1.0, 0.0, 1.0] } else { vec![0.0, 1.0, 2.0] },
        C::POW(_) => vec![1.0, 1.0, 0.0],
        C::GP(a, d) => {
            let mut v = vec![1.0; a.len()];
            v.extend(vec![0.0; *d]);
            v
        }
        C::PSD(n) => {
            // svec of the identity
            let mut v = vec![];
            for j in 0..*n { for i in 0..=j { v.push(if i == j { 1.0 } else { 0.0 }); } }
            v
        }
    }
}

fn gen_solve_case(rng: &mut Rng, flavour: usize) -> Value {
    let alpha = vec![
        C::Z(1), C::NN(1), C::NN(2), C::NN(3), C::SOC(1), C::SOC(2), C::SOC(3), C::EXP, C::POW(0.5),
        C::GP(vec![0.5, 0.5], 1), C::PSD(1), C::PSD(2), C::NN(0), C::Z(0), C::NN(4),
    ];
    let nc = 1 + rng.below(4);
    let mut cones: Vec<C> = (0..nc).map(|_| rng.pick(&alpha).clone()).collect();
    if flavour == 1 {
        // nonnegative rows only: a placement that drops everything is possible
        cones = (0..nc).map(|_| rng.pick(&[C::NN(1), C::NN(2), C::SOC(1), C::PSD(1), C::NN(0)]).clone()).collect();
    }
    if total(&cones) == 0 { cones.push(C::NN(2)); }
    let m = total(&cones);
    let n = 1 + rng.below(3);
    let inf = *rng.pick(&[1e20, 1e20, 1e6, 1e3, 1e20, 4096.0]);
    // the bound in force when solve() is called: must be irrelevant
    let inf_after = *rng.pick(&[inf, 1e20, 7.0, 1e9, 1e30]);
    let ladder = big_ladder(inf);
    let a: Vec<Vec<f64>> = (0..m).map(|_| (0..n).map(|_| if rng.chance(1, 3) { 0.0 } else { rng.range(-3, 3) as f64 }).collect()).collect();
    let x0: Vec<f64> = (0..n).map(|_| rng.range(-2, 2) as f64).collect();
    let mut s0 = vec![];
    let mut z0 = vec![];
    let mut scalar = vec![];
    for c in &cones {
        s0.extend(interior(c, false, rng));
        z0.extend(interior(c, true, rng));
        scalar.extend(vec![c.scalar(); c.nvars()]);
    }
    // placement of the "infinite" entries
    let mode = rng.below(6);
    let mut big = vec![false; m];
    for i in 0..m {
        big[i] = match mode {
            0 => scalar[i],                                // every nonnegative row
            1 => scalar[i] && rng.chance(1, 2),
            2 => scalar[i] && (i == 0 || i + 1 == m || rng.chance(1, 4)),
            3 => rng.chance(1, 5),                         // any cone: capped when not nonnegative
            4 => false,
            _ => scalar[i] && rng.chance(2, 3),
        };
    }
    if flavour == 1 && rng.chance(1, 2) { for i in 0..m { big[i] = true; } }
    let mut b = vec![0.0; m];
    for i in 0..m {
        let ax: f64 = (0..n).map(|j| a[i][j] * x0[j]).sum();
        b[i] = if big[i] {
            // mostly clearly infinite, sometimes at the edge of the threshold
            if rng.chance(3, 4) { *rng.pick(&[f64::INFINITY, 2.0 * inf, inf, f64::MAX]) } else { *rng.pick(&ladder) }
        } else { ax + s0[i] };
        if big[i] { z0[i] = 0.0; }
    }
    let q: Vec<f64> = (0..n).map(|j| -(0..m).map(|i| a[i][j] * z0[i]).sum::<f64>()).collect();
    let pe = !rng.chance(1, 8);
    let equil = rng.chance(1, 2);
    json!({"cones": cones_json(&cones), "n": n, "A": dense_json(&a), "b": fjv(&b), "q": fjv(&q), "presolve": pe,
           "equilibrate": equil, "infbound": fj(inf), "infbound_at_solve": fj(inf_after), "drop_empty": rng.chance(1, 2)})
}

fn run_solve(sink: &mut CaseSink, st: &mut Stats, input: &Value, tags: &[&str]) {
    let cones = cones_from_json(&input["cones"]);
    let ad = dense_from_json(&input["A"]);
    let n = input["n"].as_u64().unwrap() as usize;
    let b = jfv(&input["b"]);
    let q = jfv(&input["q"]);
    let pe = input["presolve"].as_bool().unwrap();
    let equil = input["equilibrate"].as_bool().unwrap();
    let inf = jf(&input["infbound"]);
    let inf_after = jf(&input["infbound_at_solve"]);
    let drop_empty = input["drop_empty"].as_bool().unwrap_or(true);
    let a = dense_to_csc(&ad, n);
    let m = b.len();

    // the property's own description of the dropped rows
    let thr = threshold(inf);
    let mut keep_hand = vec![];
    for c in &cones {
        for _ in 0..c.nvars() {
            let i = keep_hand.len();
            keep_hand.push(!(c.scalar() && b[i] > thr));
        }
    }
    // the problem with those rows deleted by hand
    let ad2: Vec<Vec<f64>> = (0..m).filter(|i| keep_hand[*i]).map(|i| ad[i].clone()).collect();
    let b2: Vec<f64> = (0..m).filter(|i| keep_hand[*i]).map(|i| b[i]).collect();
    let mut cones2 = vec![];
    let mut pos = 0;
    for c in &cones {
        let k = c.nvars();
        if c.scalar() {
            let cnt = keep_hand[pos..pos + k].iter().filter(|x| **x).count();
            if cnt > 0 || !drop_empty { cones2.push(C::NN(cnt)); }
        } else {
            cones2.push(c.clone());
        }
        pos += k;
    }
    let a2 = dense_to_csc(&ad2, n);

    // Build and solve are guarded separately.  A panic while *building* either solver is a
    // disagreement (the model of the build is total).  A panic inside solve() that occurs with
    // presolve on AND identically on the hand-reduced problem with presolve off is a defect of the
    // interior-point iteration on that problem (subject of C04/C07/C14), not of presolve: such a
    // case is recorded as information (code 2), not as a C09 violation.
    clarabel::set_infinity(inf);
    let s1 = do_build(&a, &b, &q, &cones, pe, equil);
    let built1 = s1.is_some();
    clarabel::set_infinity(inf_after);
    let r1 = s1.and_then(|mut s| guarded(move || { s.solve(); s }));
    clarabel::set_infinity(inf);
    let s2 = if pe { do_build(&a2, &b2, &q, &cones2, false, equil) } else { None };
    let built2 = s2.is_some();
    let r2 = s2.and_then(|mut s| guarded(move || { s.solve(); s }));
    let solve_panic_both = built1 && r1.is_none() && (if pe { built2 && r2.is_none() } else { true });
    if solve_panic_both {
        st.bump("solve:panic-inside-solve-with-and-without-presolve(info)");
        sink.case("solve", input.clone(), "2%N".to_string(), tags);
        return;
    }

    let head = format!("c_solve {} {} {} {} {}", pe, cfl(inf), raw_coq(&a), cfllist(&b), cones_coq(&cones));
    let coq = match (r1, r2, pe) {
        (Some(s1), Some(s2), true) => {
            let flags = bits_eq(&s1.solution.x, &s2.solution.x)
                && s1.solution.status == s2.solution.status
                && s1.solution.iterations == s2.solution.iterations
                && s1.solution.obj_val.to_bits() == s2.solution.obj_val.to_bits();
            st.bump(&format!("solve:status:{:?}", s1.solution.status));
            if keep_hand.iter().all(|x| !*x) { st.bump("solve:all-rows-dropped"); }
            if keep_hand.iter().any(|x| !*x) { st.bump("solve:some-row-dropped"); }
            format!("({} {} {} {} {} {} {} {} {} {} {})", head,
                cfllist(&s1.variables.s), cfllist(&s1.variables.z), cfllist(&s1.solution.s), cfllist(&s1.solution.z),
                cblist(&keep_hand), raw_coq(&a2), cfllist(&b2), cfllist(&s2.solution.s), cfllist(&s2.solution.z), flags)
        }
        (Some(s1), _, false) => {
            st.bump(&format!("solve:nopresolve:{:?}", s1.solution.status));
            format!("({} {} {} {} {} {} {} {} {} {} true)", head,
                cfllist(&s1.variables.s), cfllist(&s1.variables.z), cfllist(&s1.solution.s), cfllist(&s1.solution.z),
                cblist(&keep_hand), raw_coq(&a2), cfllist(&b2), cfllist(&s1.solution.s), cfllist(&s1.solution.z))
        }
        (r1, r2, _) => {
            st.bump(&format!("solve:panicked:{}{}", r1.is_none(), r2.is_none()));
            "1%N".to_string()
        }
    };
    sink.case("solve", input.clone(), coq, tags);
}

// ------------------------------------------------------------------ histories of the global bound
fn gen_history(rng: &mut Rng, len: usize) -> Value {
    let vals = [1e20, 1e10, 5.0, 1e3, (2.0f64).powi(60), 1e30, 7.5, 1e20];
    let mut ops = vec![];
    let mut built = 0usize;
    for _ in 0..len {
        match rng.below(8) {
            0 | 1 => ops.push(json!({"op": "set", "v": fj(*rng.pick(&vals))})),
            2 => ops.push(json!({"op": "default"})),
            3 | 4 => { ops.push(json!({"op": "build", "id": built})); built += 1; }
            _ => {
                if built > 0 { ops.push(json!({"op": "solve", "id": rng.below(built)})); }
                else { ops.push(json!({"op": "set", "v": fj(*rng.pick(&vals))})); }
            }
        }
    }
    json!({"c0": fj(*rng.pick(&vals)), "ops": ops, "dropped_row": rng.below(2)})
}

fn run_history(sink: &mut CaseSink, st: &mut Stats, input: &Value, tags: &[&str]) {
    let c0 = jf(&input["c0"]);
    let ops = input["ops"].as_array().unwrap().clone();
    let dr = input["dropped_row"].as_u64().unwrap_or(0) as usize;
    // min x  s.t.  x >= 1 (nonnegative row), one nonnegative row with an infinite right-hand side
    // (dropped at build, restored at solve), and a second-order cone (t, 0) with t = +inf - x
    // (capped at build)
    let inf = f64::INFINITY;
    let (ad, b): (Vec<Vec<f64>>, Vec<f64>) = if dr == 0 {
        (vec![vec![1.0], vec![-1.0], vec![1.0], vec![0.0]], vec![inf, -1.0, inf, 0.0])
    } else {
        (vec![vec![-1.0], vec![1.0], vec![1.0], vec![0.0]], vec![-1.0, inf, inf, 0.0])
    };
    let cones = vec![C::NN(2), C::SOC(2)];
    let a = dense_to_csc(&ad, 1);
    let q = vec![1.0];
    clarabel::set_infinity(c0);
    let mut solvers: Vec<Option<DefaultSolver<f64>>> = vec![];
    let mut coq_ops = vec![];
    let mut outs: Vec<String> = vec![];
    for o in &ops {
        match o["op"].as_str().unwrap() {
            "set" => { let v = jf(&o["v"]); clarabel::set_infinity(v); coq_ops.push(format!("SetInf {}", cfl(v))); outs.push("None".into()); }
            "default" => { clarabel::default_infinity(); coq_ops.push("DefaultInf".into()); outs.push("None".into()); }
            "build" => {
                let id = o["id"].as_u64().unwrap() as usize;
                let s = do_build(&a, &b, &q, &cones, true, false);
                // observable at build: the capped right-hand side of the cone row (internal row 1)
                let obs = s.as_ref().map(|s| s.data.b[1]);
                while solvers.len() <= id { solvers.push(None); }
                solvers[id] = s;
                coq_ops.push(format!("Build {}", id));
                outs.push(match obs { Some(v) => format!("(Some {})", cfl(v)), None => "None".into() });
                st.bump("history:build");
            }
            "solve" => {
                let id = o["id"].as_u64().unwrap() as usize;
                let mut obs = None;
                if let Some(Some(s)) = solvers.get_mut(id) {
                    let ok = guarded(|| s.solve()).is_some();
                    if ok && s.solution.s.len() == 4 && s.solution.z[dr] == 0.0 { obs = Some(s.solution.s[dr]); }
                }
                coq_ops.push(format!("Use {}", id));
                outs.push(match obs { Some(v) => format!("(Some {})", cfl(v)), None => "None".into() });
                st.bump("history:solve");
            }
            k => panic!("unknown history op {}", k),
        }
    }
    let coq = format!("(c_bound_history {} {} {} {})", cfl(1e20), cfl(c0), clist(&coq_ops, |x| x.clone()), clist(&outs, |x| x.clone()));
    sink.case("history", input.clone(), coq, tags);
}

// ------------------------------------------------------------------ the global bound with several live solvers
/// a small strictly feasible conic problem whose "large" right-hand sides are absolute values, so
/// that the set of dropped / capped rows depends on the bound in force when the solver is built
fn gen_gproblem(rng: &mut Rng) -> Value {
    let alpha = vec![C::Z(1), C::NN(1), C::NN(2), C::NN(3), C::SOC(1), C::SOC(2), C::SOC(3), C::EXP, C::PSD(1), C::PSD(2), C::NN(0), C::NN(2)];
    let nc = 1 + rng.below(3);
    let mut cones: Vec<C> = (0..nc).map(|_| rng.pick(&alpha).clone()).collect();
    cones.insert(rng.below(cones.len() + 1), C::NN(1 + rng.below(2)));
    let m = total(&cones);
    let n = 1 + rng.below(2);
    let a: Vec<Vec<f64>> = (0..m).map(|_| (0..n).map(|_| if rng.chance(1, 3) { 0.0 } else { rng.range(-3, 3) as f64 }).collect()).collect();
    let x0: Vec<f64> = (0..n).map(|_| rng.range(-2, 2) as f64).collect();
    let mut s0 = vec![];
    let mut z0 = vec![];
    let mut scalar = vec![];
    for c in &cones {
        s0.extend(interior(c, false, rng));
        z0.extend(interior(c, true, rng));
        scalar.extend(vec![c.scalar(); c.nvars()]);
    }
    let bigs = [5e2, 5e3, 5e7, f64::INFINITY, 1e25, 1e3, 50.0];
    let mut b = vec![0.0; m];
    let mut any = false;
    for i in 0..m {
        let ax: f64 = (0..n).map(|j| a[i][j] * x0[j]).sum();
        let big = (scalar[i] && rng.chance(1, 2)) || rng.chance(1, 12);
        b[i] = if big { z0[i] = 0.0; any = any || scalar[i]; *rng.pick(&bigs) } else { ax + s0[i] };
    }
    if !any {
        // make sure some nonnegative row is droppable
        for i in 0..m { if scalar[i] { b[i] = *rng.pick(&bigs); z0[i] = 0.0; break; } }
    }
    let q: Vec<f64> = (0..n).map(|j| -(0..m).map(|i| a[i][j] * z0[i]).sum::<f64>()).collect();
    json!({"op": "new", "presolve": !rng.chance(1, 6), "cones": cones_json(&cones), "n": n, "A": dense_json(&a), "b": fjv(&b), "q": fjv(&q)})
}

fn gen_ghistory(rng: &mut Rng, len: usize) -> Value {
    let vals = [1e20, 1e3, 1e6, 50.0, (2.0f64).powi(40), 1e30, 1e20, 7.0e2];
    let maxs = 1 + rng.below(3);
    let mut ops: Vec<Value> = vec![];
    let mut built: Vec<usize> = vec![]; // user's m of every solver
    while ops.len() < len {
        let r = rng.below(12);
        if built.is_empty() && (r >= 5 || ops.len() + 2 >= len) {
            let p = gen_gproblem(rng);
            built.push(p["b"].as_array().unwrap().len());
            ops.push(p);
            continue;
        }
        match r {
            0 | 1 | 2 => ops.push(json!({"op": "set", "v": fj(*rng.pick(&vals))})),
            3 => ops.push(json!({"op": "default"})),
            4 => ops.push(json!({"op": "get"})),
            5 | 6 => {
                if built.len() < maxs {
                    let p = gen_gproblem(rng);
                    built.push(p["b"].as_array().unwrap().len());
                    ops.push(p);
                } else { ops.push(json!({"op": "set", "v": fj(*rng.pick(&vals))})); }
            }
            7 | 8 | 9 | 10 => ops.push(json!({"op": "solve", "k": rng.below(built.len())})),
            _ => {
                let k = rng.below(built.len());
                let m = built[k];
                let nb: Vec<f64> = match rng.below(6) {
                    0 => vec![],
                    1 => vec![1.0; m + 1],
                    _ => (0..m).map(|_| if rng.chance(1, 6) { *rng.pick(&[5e2, 5e3, 2e3]) } else { rng.range(0, 9) as f64 }).collect(),
                };
                ops.push(json!({"op": "update", "k": k, "b": fjv(&nb)}));
            }
        }
    }
    json!({"c0": fj(*rng.pick(&vals)), "ops": ops})
}

fn run_ghistory(sink: &mut CaseSink, st: &mut Stats, input: &Value, tags: &[&str]) {
    let c0 = jf(&input["c0"]);
    let ops = input["ops"].as_array().unwrap().clone();
    clarabel::set_infinity(c0);
    let mut solvers: Vec<Option<DefaultSolver<f64>>> = vec![];
    let mut coq_ops: Vec<String> = vec![];
    let mut outs: Vec<String> = vec![];
    let mut bounds_seen: Vec<u64> = vec![];
    for o in &ops {
        match o["op"].as_str().unwrap() {
            "set" => { let v = jf(&o["v"]); clarabel::set_infinity(v); coq_ops.push(format!("GSet {}", cfl(v))); outs.push("RNone".into()); }
            "default" => { clarabel::default_infinity(); coq_ops.push("GDefault".into()); outs.push("RNone".into()); }
            "get" => { coq_ops.push("GGet".into()); outs.push(format!("(RGet {})", cfl(clarabel::get_infinity()))); }
            "new" => {
                let cones = cones_from_json(&o["cones"]);
                let n = o["n"].as_u64().unwrap() as usize;
                let a = dense_to_csc(&dense_from_json(&o["A"]), n);
                let b = jfv(&o["b"]);
                let q = jfv(&o["q"]);
                let pe = o["presolve"].as_bool().unwrap();
                let s = do_build(&a, &b, &q, &cones, pe, false);
                coq_ops.push(format!("(GNew {} (decode {}) {} {})", pe, raw_coq(&a), cfllist(&b), cones_coq(&cones)));
                outs.push(match &s {
                    Some(s) => { let ob = observe_build(s);
                        if ob.keep.is_some() { st.bump("ghistory:new:reduced"); } else { st.bump("ghistory:new:not-reduced"); }
                        format!("(RNew {} {} {})", optkeep_coq(&ob.keep), cfllist(&ob.b), cones_coq(&ob.cones)) }
                    None => "RPanic".into(),
                });
                let cur = clarabel::get_infinity().to_bits();
                if !bounds_seen.contains(&cur) { bounds_seen.push(cur); }
                solvers.push(s);
            }
            "solve" => {
                let k = o["k"].as_u64().unwrap() as usize;
                coq_ops.push(format!("GSolve {}", k));
                let mut obs = "RPanic".to_string();
                if let Some(Some(s)) = solvers.get_mut(k) {
                    if guarded(|| s.solve()).is_some() {
                        obs = format!("(RSolve {} {} {})", cfllist(&s.solution.s), cfllist(&s.solution.z), cfllist(&s.data.b));
                        st.bump("ghistory:solve");
                    } else { st.bump("ghistory:solve-panicked"); }
                }
                outs.push(obs);
            }
            "update" => {
                let k = o["k"].as_u64().unwrap() as usize;
                let nb = jfv(&o["b"]);
                coq_ops.push(format!("GUpdateB {} {}", k, cfllist(&nb)));
                let mut obs = "RPanic".to_string();
                if let Some(Some(s)) = solvers.get_mut(k) {
                    if let Some(r) = guarded(|| s.update_b(&nb)) {
                        if r.is_ok() { st.bump("ghistory:update:accepted"); } else { st.bump("ghistory:update:rejected"); }
                        obs = format!("(RUpd {} {})", r.is_ok(), cfllist(&s.data.b));
                    }
                }
                outs.push(obs);
            }
            k => panic!("unknown ghistory op {}", k),
        }
    }
    if bounds_seen.len() >= 2 { st.bump("ghistory:solvers-built-under-different-bounds"); }
    let coq = format!("(c_ghistory {} {} {} {})", cfl(1e20), cfl(c0), clist(&coq_ops, |x| x.clone()), clist(&outs, |x| x.clone()));
    sink.case("ghistory", input.clone(), coq, tags);
}

// ------------------------------------------------------------------ collapse alone
fn gen_collapse(rng: &mut Rng) -> Value {
    let alpha = vec![C::NN(1), C::NN(2), C::NN(0), C::SOC(1), C::PSD(1), C::Z(1), C::Z(0), C::Z(2), C::SOC(0), C::PSD(0),
                     C::SOC(2), C::SOC(3), C::EXP, C::POW(0.5), C::GP(vec![0.5, 0.5], 1), C::PSD(2), C::NN(3), C::SOC(1), C::Z(1), C::NN(1)];
    let nc = rng.below(13);
    let cones: Vec<C> = (0..nc).map(|_| rng.pick(&alpha).clone()).collect();
    json!({"cones": cones_json(&cones)})
}
fn run_collapse(sink: &mut CaseSink, st: &mut Stats, input: &Value, tags: &[&str]) {
    let cones = cones_from_json(&input["cones"]);
    let m = total(&cones);
    let ad = small_a(m, 1);
    let a = dense_to_csc(&ad, 1);
    let b = vec![0.0; m];
    clarabel::default_infinity();
    let coq = match do_build(&a, &b, &[1.0], &cones, false, false) {
        Some(s) => {
            let out: Vec<C> = s.data.cones.iter().map(C::of_rust).collect();
            let ok = params_of(&cones) == params_of(&out) && s.data.m == m;
            st.bump("collapse");
            format!("(N.max (c_collapse {} {}) (ofb {}))", cones_coq(&cones), cones_coq(&out), ok)
        }
        None => { st.bump("collapse:panicked"); "1%N".to_string() }
    };
    sink.case("collapse", input.clone(), coq, tags);
}

// ------------------------------------------------------------------ presolve together with chordal decomposition
/// maximise t subject to M - t*I >= 0 (M tridiagonal 4x4, so the PSD(4) constraint is chordally
/// sparse and gets decomposed with default settings), t + s_i = b_i for k nonnegative rows, some
/// of which carry an "infinite" right-hand side.  Default settings except verbose.
fn run_chordal(sink: &mut CaseSink, st: &mut Stats, input: &Value, tags: &[&str]) {
    let big = bool_vec(&input["big_rows"]);
    let inf = jf(&input["infbound"]);
    let nn_first = input["nn_first"].as_bool().unwrap_or(true);
    let k = big.len();
    let r2 = std::f64::consts::SQRT_2;
    let mut psd_a = vec![0.0; 10];
    let mut psd_b = vec![0.0; 10];
    for j in 0..4usize {
        for i in 0..=j {
            let idx = j * (j + 1) / 2 + i;
            if i == j { psd_a[idx] = 1.0; psd_b[idx] = 4.0 + j as f64; }
            else if i + 1 == j { psd_b[idx] = r2; }
        }
    }
    let nn_b: Vec<f64> = (0..k).map(|i| if big[i] { f64::INFINITY } else { 100.0 + i as f64 }).collect();
    let (ad, b, cones): (Vec<Vec<f64>>, Vec<f64>, Vec<C>) = if nn_first {
        ((0..k).map(|_| vec![1.0]).chain(psd_a.iter().map(|v| vec![*v])).collect(),
         nn_b.iter().cloned().chain(psd_b.iter().cloned()).collect(), vec![C::NN(k), C::PSD(4)])
    } else {
        (psd_a.iter().map(|v| vec![*v]).chain((0..k).map(|_| vec![1.0])).collect(),
         psd_b.iter().cloned().chain(nn_b.iter().cloned()).collect(), vec![C::PSD(4), C::NN(k)])
    };
    let m = b.len();
    let q = vec![-1.0];
    let thr = threshold(inf);
    let mut keep_hand = vec![];
    for c in &cones { for _ in 0..c.nvars() { let i = keep_hand.len(); keep_hand.push(!(c.scalar() && b[i] > thr)); } }
    let ad2: Vec<Vec<f64>> = (0..m).filter(|i| keep_hand[*i]).map(|i| ad[i].clone()).collect();
    let b2: Vec<f64> = (0..m).filter(|i| keep_hand[*i]).map(|i| b[i]).collect();
    let kk = keep_hand.iter().zip(&b).filter(|(kp, _)| **kp).count() - 10;
    let cones2: Vec<C> = if nn_first { vec![C::NN(kk), C::PSD(4)] } else { vec![C::PSD(4), C::NN(kk)] };
    let solve = |ad: &[Vec<f64>], b: &[f64], cones: &[C], pe: bool| -> Option<DefaultSolver<f64>> {
        let a = dense_to_csc(ad, 1);
        let p = CscMatrix::<f64>::zeros((1, 1));
        let rc: Vec<SupportedConeT<f64>> = cones.iter().map(|c| c.to_rust()).collect();
        let mut s = DefaultSettings::<f64>::default();
        s.verbose = false;
        s.presolve_enable = pe;
        guarded(|| { let mut sv = DefaultSolver::new(&p, &q, &a, b, &rc, s); sv.solve(); sv })
    };
    clarabel::set_infinity(inf);
    let r1 = solve(&ad, &b, &cones, true);
    let r2s = solve(&ad2, &b2, &cones2, false);
    let coq = match (r1, r2s) {
        (Some(s1), Some(s2)) => {
            let flags = bits_eq(&s1.solution.x, &s2.solution.x) && s1.solution.status == s2.solution.status;
            st.bump(&format!("chordal:status:{:?}", s1.solution.status));
            format!("(c_restore {} {} {} {} {} {} {} {} {})", cfl(inf), cfllist(&b), cones_coq(&cones),
                cfllist(&s1.solution.s), cfllist(&s1.solution.z), cblist(&keep_hand),
                cfllist(&s2.solution.s), cfllist(&s2.solution.z), flags)
        }
        (r1, r2s) => {
            st.bump(&format!("chordal:panicked:presolved={}:hand-reduced={}", r1.is_none(), r2s.is_none()));
            "1%N".to_string()
        }
    };
    sink.case("chordal", input.clone(), coq, tags);
}

// ------------------------------------------------------------------ main
fn main() {
    let args: Vec<String> = std::env::args().collect();
    let mut out = String::from("/dev/stdout");
    let mut seed: u64 = 1;
    let mut tier = String::from("quick");
    let mut replay: Option<String> = None;
    let mut i = 1;
    while i < args.len() {
        match args[i].as_str() {
            "--out" => { out = args[i + 1].clone(); i += 1; }
            "--seed" => { seed = args[i + 1].parse().unwrap_or(1); i += 1; }
            "--tier" => { tier = args[i + 1].clone(); i += 1; }
            "--replay" => { replay = Some(args[i + 1].clone()); i += 1; }
            _ => {}
        }
        i += 1;
    }
    if std::env::var("C09_SHOW_PANICS").is_err() { silence_panics(); }
    let thorough = tier == "thorough";
    let mut sink = CaseSink::new(&out);
    let mut st = Stats::default();
    let mut rng = Rng::new(seed);

    let run_one = |sink: &mut CaseSink, st: &mut Stats, c: &Value, tags: &[&str]| {
        let inp = if c.get("input").is_some() { &c["input"] } else { c };
        let op = c.get("op").and_then(|x| x.as_str()).unwrap_or_else(|| {
            if inp.get("ops").is_some() { "history" } else if inp.get("big_rows").is_some() { "chordal" } else if inp.get("q").is_some() { "solve" } else { "build" }
        });
        match op {
            "build" => run_build(sink, st, inp, tags),
            "solve" => run_solve(sink, st, inp, tags),
            "history" => run_history(sink, st, inp, tags),
            "chordal" => run_chordal(sink, st, inp, tags),
            "ghistory" => run_ghistory(sink, st, inp, tags),
            "collapse" => run_collapse(sink, st, inp, tags),
            _ => {}
        }
    };

    if let Some(p) = replay {
        let txt = std::fs::read_to_string(&p).expect("cannot read replay file");
        let v: Value = serde_json::from_str(&txt).expect("replay file is not JSON");
        let cases = match v.get("cases") { Some(Value::Array(a)) => a.clone(), _ => vec![v] };
        for c in &cases { run_one(&mut sink, &mut st, c, &["replay"]); }
    } else {
        // corpus first
        if let Ok(rd) = std::fs::read_dir("../../corpus/C09") {
            let mut files: Vec<_> = rd.flatten().map(|e| e.path()).filter(|p| p.extension().map(|e| e == "json").unwrap_or(false)).collect();
            files.sort();
            for f in files {
                if let Ok(txt) = std::fs::read_to_string(&f) {
                    if let Ok(v) = serde_json::from_str::<Value>(&txt) {
                        let cases = match v.get("cases") { Some(Value::Array(a)) => a.clone(), _ => vec![v] };
                        for c in &cases { run_one(&mut sink, &mut st, c, &["corpus"]); st.bump("corpus"); }
                    }
                }
            }
        }
        enumerate_builds(&mut sink, &mut st, &mut rng, thorough);
        random_builds(&mut sink, &mut st, &mut rng, if thorough { 3000 } else { 400 });
        let nsolve = if thorough { 3000 } else { 400 };
        for k in 0..nsolve {
            let input = gen_solve_case(&mut rng, if k % 5 == 0 { 1 } else { 0 });
            run_solve(&mut sink, &mut st, &input, &["solve"]);
        }
        for k in 1..=3usize {
            for mask in 0..(1u32 << k) {
                for nn_first in [true, false] {
                    let big: Vec<bool> = (0..k).map(|i| (mask >> i) & 1 == 1).collect();
                    let input = json!({"big_rows": big, "infbound": fj(1e20), "nn_first": nn_first});
                    run_chordal(&mut sink, &mut st, &input, &["chordal"]);
                }
            }
        }
        let ngh = if thorough { 2500 } else { 300 };
        for k in 0..ngh {
            let input = gen_ghistory(&mut rng, 3 + k % 10);
            run_ghistory(&mut sink, &mut st, &input, &["ghistory"]);
        }
        let ncol = if thorough { 6000 } else { 600 };
        for _ in 0..ncol {
            let input = gen_collapse(&mut rng);
            run_collapse(&mut sink, &mut st, &input, &["collapse"]);
        }
        let nhist = if thorough { 600 } else { 120 };
        for k in 0..nhist {
            let input = gen_history(&mut rng, 3 + k % 10);
            run_history(&mut sink, &mut st, &input, &["history"]);
        }
    }
    clarabel::default_infinity();
    sink.record(json!({"stats": st.by}));
    sink.record(json!({"meta": {"prop": "c09", "seed": seed, "tier": tier, "blas": blas_shim::AVAILABLE}}));
    sink.flush();
}
