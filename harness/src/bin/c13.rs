//! C13: Nesterov-Todd scaling of the real NN / SOC cone objects vs. the Coq models
//! (Cones/{NN,SOC}.v at OpsF) and vs. exact dyadic identity checks (Cones/Check.v).
//! c13 --out FILE [--seed N] [--tier quick|thorough] [--replay FILE]
#![allow(non_snake_case)]
#[path = "../blas_shim.rs"]
mod blas_shim;
#[path = "../common.rs"]
mod common;
#[path = "../conegen.rs"]
mod conegen;

use clarabel::verif_hooks::c1315 as vh;
use common::*;
use conegen::*;
use serde_json::{json, Value};
use vh::{Cone, JordanAlgebra, ScalingStrategy, SymmetricCone};

struct Gen {
    sink: CaseSink,
    rng: Rng,
    stats: std::collections::BTreeMap<String, usize>,
}
impl Gen {
    fn count(&mut self, k: &str) {
        *self.stats.entry(k.to_string()).or_insert(0) += 1;
    }
}
fn tolf(dist: f64) -> &'static str {
    // float model comparison tolerance 2^-40 / dist (cancellation in the residuals grows as 1/dist)
    if dist >= 1.0 { "(0x1p-40)%float" } else if dist >= 1e-4 { "(0x1p-27)%float" } else { "(0x1p-13)%float" }
}
fn tolp(dist: f64) -> i64 {
    // identity residuals: 1e-10/dist relative to the magnitudes of the terms (DESIGN C13)
    if dist >= 1.0 { -33 } else if dist >= 1e-4 { -20 } else { -7 }
}
fn tolinv(dist: f64) -> i64 {
    if dist >= 1.0 { -30 } else if dist >= 1e-4 { -18 } else { -6 }
}
/// NaN-free, non-zero contents for every output buffer: a skipped write or a skipped beta*y shows
fn garbage(n: usize) -> Vec<f64> {
    (0..n).map(|i| (if i % 2 == 0 { 1.0 } else { -1.0 }) * (3.25 + 0.5 * (i % 7) as f64)).collect()
}
fn maxabs(v: &[f64]) -> f64 { v.iter().fold(0.0f64, |a, x| a.max(x.abs())) }

struct Ops13 {
    wx: Vec<f64>, winvx: Vec<f64>, hs: Vec<f64>, hsx: Vec<f64>, aff: Vec<f64>, off: Vec<f64>, shift: Vec<f64>,
    circ: Vec<f64>, icirc: Vec<f64>, wwinvx: Vec<f64>, winvwx: Vec<f64>, w1x: Vec<f64>, wty: Vec<f64>, winv1x: Vec<f64>,
}
/// drives every scaling-related entry point of a symmetric cone whose scaling was just updated
fn drive<C: Cone<f64> + SymmetricCone<f64> + JordanAlgebra<f64>>(c: &mut C, z: &[f64], x: &[f64], y: &[f64], a: f64, b: f64, sigmamu: f64, hslen: usize, with_inv_circ: bool) -> Ops13 {
    let n = x.len();
    let mut wx = y.to_vec();
    vh::mul_W(c, false, &mut wx, x, a, b);
    let mut winvx = y.to_vec();
    vh::mul_Winv(c, false, &mut winvx, x, a, b);
    let mut hs = garbage(hslen);
    c.get_Hs(&mut hs);
    let mut hsx = garbage(n);
    let mut work = garbage(n);
    c.mul_Hs(&mut hsx, x, &mut work);
    let mut aff = garbage(n);
    c.affine_ds(&mut aff, x);
    let mut off = garbage(n);
    c.Δs_from_Δz_offset(&mut off, x, &mut work, z);
    let mut shift = garbage(n);
    let (mut sz, mut ss) = (x.to_vec(), y.to_vec());
    c.combined_ds_shift(&mut shift, &mut sz, &mut ss, sigmamu);
    let mut circ = garbage(n);
    c.circ_op(&mut circ, x, y);
    let mut icirc = garbage(n);
    if with_inv_circ { c.inv_circ_op(&mut icirc, z, y); }
    // inverse / transpose consistency on the implementation's own outputs (alpha = 1, beta = 0)
    let mut t1 = garbage(n);
    vh::mul_Winv(c, false, &mut t1, x, 1.0, 0.0);
    let mut wwinvx = garbage(n);
    vh::mul_W(c, false, &mut wwinvx, &t1, 1.0, 0.0);
    let mut w1x = garbage(n);
    vh::mul_W(c, false, &mut w1x, x, 1.0, 0.0);
    let mut winvwx = garbage(n);
    vh::mul_Winv(c, false, &mut winvwx, &w1x, 1.0, 0.0);
    let mut wty = garbage(n);
    vh::mul_W(c, true, &mut wty, y, 1.0, 0.0);
    let winv1x = t1.clone();
    Ops13 { wx, winvx, hs, hsx, aff, off, shift, circ, icirc, wwinvx, winvwx, w1x, wty, winv1x }
}

fn nn_case(g: &mut Gen, s: &[f64], z: &[f64], x: &[f64], y: &[f64], a: f64, b: f64, sigmamu: f64, tag: &str) {
    let n = s.len();
    let input = json!({"cone": "nn", "s": s, "z": z, "x": x, "y": y, "a": a, "b": b, "sigmamu": sigmamu});
    let r = guarded(|| {
        let mut c = vh::NonnegativeCone::<f64>::new(n);
        let ok = c.update_scaling(s, z, 1.0, ScalingStrategy::PrimalDual);
        let w = c.verif_w().to_vec();
        let lam = c.verif_lambda().to_vec();
        let o = drive(&mut c, z, x, y, a, b, sigmamu, n, true);
        (ok, w, lam, o, c.Hs_is_diagonal())
    });
    let Some((ok, w, lam, o, diag)) = r else { g.sink.case("nn_scaling", input, "1%N".into(), &[tag, "panic"]); return; };
    let fin = |v: &[f64]| v.iter().all(|x| x.is_finite());
    if !(fin(&w) && fin(&lam) && fin(&o.wx) && fin(&o.winvx) && fin(&o.hs) && fin(&o.hsx) && fin(&o.aff) && fin(&o.off) && fin(&o.shift)
         && fin(&o.circ) && fin(&o.icirc) && fin(&o.wwinvx) && fin(&o.winvwx) && fin(&o.w1x) && fin(&o.wty)) {
        g.sink.case("nn_scaling", input, "1%N".into(), &[tag, "nonfinite"]);
        return;
    }
    let t = "(0x1p-44)%float";
    let obs = format!("(mkNNObs {} {} {} {} {} {} {} {} {} {} {})", cfllist(&w), cfllist(&lam), cfllist(&o.wx), cfllist(&o.winvx), cfllist(&o.hs),
        cfllist(&o.hsx), cfllist(&o.aff), cfllist(&o.off), cfllist(&o.shift), cfllist(&o.circ), cfllist(&o.icirc));
    let sc = maxabs(x);
    let coq = format!(
        "(maxl [ofb {ok}; ofb {diag}; c_nn_scaling {t} {s} {z} {x} {y} {a} {b} {sm} {obs}; p_nn_nt (-44) {sd} {zd} {wd} {ld}; p_hs_diag (-44) {hd} {xd} {hxd}; p_inverse (-40) {sc} {xd} {wwd} {wwd2}; p_transpose (-40) {w1xd} {yd} {xd} {wtyd}])",
        ok = ok, diag = diag, t = t, s = cfllist(s), z = cfllist(z), x = cfllist(x), y = cfllist(y), a = cfl(a), b = cfl(b), sm = cfl(sigmamu), obs = obs,
        sd = cdylist(s), zd = cdylist(z), wd = cdylist(&w), ld = cdylist(&lam), hd = cdylist(&o.hs), xd = cdylist(x), hxd = cdylist(&o.hsx),
        sc = cdy(sc), wwd = cdylist(&o.wwinvx), wwd2 = cdylist(&o.winvwx), w1xd = cdylist(&o.w1x), yd = cdylist(y), wtyd = cdylist(&o.wty));
    g.sink.case("nn_scaling", input, coq, &[tag]);
    g.count(&format!("nn/{}", tag));
}

fn soc_case(g: &mut Gen, s: &[f64], z: &[f64], x: &[f64], y: &[f64], a: f64, b: f64, sigmamu: f64, dist: f64, tag: &str) {
    let n = s.len();
    let input = json!({"cone": "soc", "s": s, "z": z, "x": x, "y": y, "a": a, "b": b, "sigmamu": sigmamu, "dist": dist});
    let r = guarded(|| {
        let mut c = vh::SecondOrderCone::<f64>::new(n);
        let ok = c.update_scaling(s, z, 1.0, ScalingStrategy::PrimalDual);
        let sparse = c.is_sparse_expandable();
        let hslen = if sparse { n } else { n * (n + 1) / 2 };
        let (u, v, d) = match &c.sparse_data { Some(sd) => (sd.u.clone(), sd.v.clone(), sd.d), None => (vec![], vec![], 0.0) };
        let (w, lam, eta) = (c.w.clone(), c.λ.clone(), c.η);
        let diag = c.Hs_is_diagonal();
        let o = if ok { Some(drive(&mut c, z, x, y, a, b, sigmamu, hslen, true)) } else { None };
        (ok, sparse, diag, w, lam, eta, u, v, d, o)
    });
    let Some((ok, sparse, diag, w, lam, eta, u, v, d, o)) = r else { g.sink.case("soc_scaling", input, "1%N".into(), &[tag, "panic"]); return; };
    let fin = |v: &[f64]| v.iter().all(|x| x.is_finite());
    if let Some(o) = &o {
        if !(fin(&w) && fin(&lam) && eta.is_finite() && fin(&u) && fin(&v) && d.is_finite() && fin(&o.wx) && fin(&o.winvx) && fin(&o.hs) && fin(&o.hsx)
             && fin(&o.aff) && fin(&o.off) && fin(&o.shift) && fin(&o.circ) && fin(&o.icirc) && fin(&o.wwinvx) && fin(&o.winvwx) && fin(&o.w1x) && fin(&o.wty)) {
            g.sink.case("soc_scaling", input, "1%N".into(), &[tag, "nonfinite"]);
            return;
        }
    }
    let t = tolf(dist);
    let e: Vec<f64> = vec![];
    let (coq_obs, extra) = match &o {
        Some(o) => {
            let obs = format!("(mkSOCObs true {} {} {} {} {} {} {} {} {} {} {} {} {} {} {})", cfllist(&w), cfllist(&lam), cfl(eta), cfllist(&u), cfllist(&v), cfl(d),
                cfllist(&o.wx), cfllist(&o.winvx), cfllist(&o.hs), cfllist(&o.hsx), cfllist(&o.aff), cfllist(&o.off), cfllist(&o.shift), cfllist(&o.circ), cfllist(&o.icirc));
            let hs_chk = if sparse {
                format!("p_hs_sparse (-36) {} {} {} {} {} {}", cdylist(&o.hs), cdylist(&u), cdylist(&v), cdy(eta), cdylist(x), cdylist(&o.hsx))
            } else {
                format!("p_hs_dense (-36) {} {} {}", cdylist(&o.hs), cdylist(x), cdylist(&o.hsx))
            };
            let pops = format!("p_soc_ops ({}) {} {} {} {} {} {} {} {} {} (mkSOCOut {} {} {} {} {} {} {} {} {} {})", tolinv(dist), cdylist(&w), cdylist(&lam), cdy(eta),
                cdylist(x), cdylist(y), cdylist(z), cdy(a), cdy(b), cdy(sigmamu),
                cdylist(&o.w1x), cdylist(&o.winv1x), cdylist(&o.hsx), cdylist(&o.wx), cdylist(&o.winvx), cdylist(&o.aff), cdylist(&o.circ), cdylist(&o.icirc), cdylist(&o.shift), cdylist(&o.off));
            let ex = format!("{}; p_soc_nt ({}) {} {} {} {} {}; {}; p_inverse ({}) {} {} {} {}; p_transpose ({}) {} {} {} {}",
                pops, tolp(dist), cdylist(s), cdylist(z), cdylist(&w), cdylist(&lam), cdy(eta), hs_chk,
                tolinv(dist), cdy(maxabs(x)), cdylist(x), cdylist(&o.wwinvx), cdylist(&o.winvwx),
                tolinv(dist), cdylist(&o.w1x), cdylist(y), cdylist(x), cdylist(&o.wty));
            (obs, ex)
        }
        None => (format!("(mkSOCObs false {} {} {} {} {} {} {} {} {} {} {} {} {} {} {})", cfllist(&e), cfllist(&e), cfl(0.0), cfllist(&e), cfllist(&e), cfl(0.0),
                 cfllist(&e), cfllist(&e), cfllist(&e), cfllist(&e), cfllist(&e), cfllist(&e), cfllist(&e), cfllist(&e), cfllist(&e)), "0%N".to_string()),
    };
    let expect_ok = !tag.contains("refused");
    let coq = format!("(maxl [ofb {}; ofb {}; c_soc_scaling {} {} {} {} {} {} {} {} {}; {}])",
        ok == expect_ok, sparse == (n > 4) && diag == sparse, t, cfllist(s), cfllist(z), cfllist(x), cfllist(y), cfl(a), cfl(b), cfl(sigmamu), coq_obs, extra);
    g.sink.case("soc_scaling", input, coq, &[tag]);
    g.count(&format!("soc/{}/{}", if sparse { "sparse" } else { "dense" }, tag));
}


// ------------------------------------------------------------------ PSD cone (partial: per-call validation)
fn psd_case(g: &mut Gen, S: &Mat, Z: &Mat, X: &Mat, Y: &Mat, tag: &str) {
    let n = S.len();
    let (s, z, x, y) = (svec(S), svec(Z), svec(X), svec(Y));
    let nv = s.len();
    let input = json!({"cone": "psd", "n": n, "S": S, "Z": Z, "X": X, "Y": Y});
    let r = guarded(|| {
        let mut c = vh::PSDTriangleCone::<f64>::new(n);
        let ok = c.update_scaling(&s, &z, 1.0, ScalingStrategy::PrimalDual);
        let (lam, rr, ri) = (c.verif_lambda().to_vec(), c.verif_R(), c.verif_Rinv());
        let ((l1, l2), (su, ss, svt), isq) = (c.verif_chol_L(), c.verif_svd(), c.verif_lambda_isqrt().to_vec());
        let mut wz = garbage(nv);
        vh::mul_W(&mut c, false, &mut wz, &z, 1.0, 0.0);
        let mut wits = garbage(nv);
        vh::mul_Winv(&mut c, true, &mut wits, &s, 1.0, 0.0);
        let mut hsz = garbage(nv);
        let mut work = garbage(nv);
        c.mul_Hs(&mut hsz, &z, &mut work);
        let o = drive(&mut c, &z, &x, &y, 2.0, 0.5, 0.5, nv * (nv + 1) / 2, false);
        let mut lic = garbage(nv);
        c.λ_inv_circ_op(&mut lic, &x);
        (ok, lam, rr, ri, wz, wits, hsz, o, c.Hs_is_diagonal(), l1, l2, su, ss, svt, isq, lic)
    });
    let Some((ok, lam, rr, ri, wz, wits, hsz, o, diag, l1, l2, su, ss, svt, isq, lic)) = r else { g.sink.case("psd_scaling", input, "1%N".into(), &[tag, "panic"]); return; };
    let fin = |v: &[f64]| v.iter().all(|x| x.is_finite());
    if !(fin(&l1) && fin(&l2) && fin(&su) && fin(&ss) && fin(&svt) && fin(&isq)) {
        g.sink.case("psd_scaling", input, "1%N".into(), &[tag, "nonfinite"]);
        return;
    }
    if !(fin(&lic) && fin(&o.aff) && fin(&o.off) && fin(&o.shift) && fin(&o.circ) && fin(&o.wx) && fin(&o.winvx)) {
        g.sink.case("psd_scaling", input, "1%N".into(), &[tag, "nonfinite"]);
        return;
    }
    if !(ok && fin(&lam) && fin(&rr) && fin(&ri) && fin(&wz) && fin(&wits) && fin(&hsz) && fin(&o.hs) && fin(&o.hsx) && fin(&o.wwinvx) && fin(&o.winvwx) && fin(&o.w1x) && fin(&o.wty)) {
        g.sink.case("psd_scaling", input, "1%N".into(), &[tag, "nonfinite-or-refused"]);
        return;
    }
    // expected svec(Λ): λ_k at the diagonal positions k(k+3)/2
    let mut lamvec = vec![0.0; nv];
    for k in 0..n { lamvec[k * (k + 3) / 2] = lam[k]; }
    let sc = maxabs(&lam);
    let coq = format!(
        "(maxl [ofb {nd}; c_psd_model (0x1p-30)%float {n} {rf} {rif} {lf} {xf} {yf} (0x1p+1)%float (0x1p-1)%float (0x1p-1)%float {wxf} {wif} {hsf} {hsxf} {afff} {offf} {shf} {cif} {licf}; p_psd_factors (-36) {n} {S} {Z} {l1} {l2} {su} {ss} {svt} {isq} {r} {ri}; c_bitsame {lf} {ssf}; p_psd_nt (-30) {n} {r} {ri} {l} {S} {Z}; p_close2 (-26) {sc} {lv} {wz} {wits}; p_close2 (-26) {ssc} {sv} {hsz} {hsz}; p_hs_dense (-30) {hs} {x} {hsx}; p_inverse (-26) {xsc} {x} {ww} {ww2}; p_transpose (-30) {w1x} {y} {x} {wty}])",
        l1 = cdylist(&l1), l2 = cdylist(&l2), su = cdylist(&su), ss = cdylist(&ss), svt = cdylist(&svt), isq = cdylist(&isq), ssf = cfllist(&ss), lf = cfllist(&lam), rf = cfllist(&rr), rif = cfllist(&ri), xf = cfllist(&x), yf = cfllist(&y),
        wxf = cfllist(&o.wx), wif = cfllist(&o.winvx), hsf = cfllist(&o.hs), hsxf = cfllist(&o.hsx), afff = cfllist(&o.aff), offf = cfllist(&o.off), shf = cfllist(&o.shift), cif = cfllist(&o.circ), licf = cfllist(&lic),
        nd = !diag, n = n, r = cdylist(&rr), ri = cdylist(&ri), l = cdylist(&lam), S = cdymat(S), Z = cdymat(Z),
        sc = cdy(sc), lv = cdylist(&lamvec), wz = cdylist(&wz), wits = cdylist(&wits),
        ssc = cdy(maxabs(&s)), sv = cdylist(&s), hsz = cdylist(&hsz),
        hs = cdylist(&o.hs), x = cdylist(&x), hsx = cdylist(&o.hsx), xsc = cdy(maxabs(&x)), ww = cdylist(&o.wwinvx), ww2 = cdylist(&o.winvwx),
        w1x = cdylist(&o.w1x), y = cdylist(&y), wty = cdylist(&o.wty));
    g.sink.case("psd_scaling", input, coq, &[tag]);
    g.count(&format!("psd/n{}/{}", n, tag));
}

// ------------------------------------------------------------------ operation sequences on ONE cone object
/// what a cone exposes after some history: the operator outputs on x (alpha = 1, beta = 0) and the KKT block
fn observe<C: Cone<f64> + SymmetricCone<f64>>(c: &mut C, x: &[f64], hslen: usize) -> (Vec<f64>, Vec<f64>, Vec<f64>, Vec<f64>) {
    let n = x.len();
    let mut wx = garbage(n);
    vh::mul_W(c, false, &mut wx, x, 1.0, 0.0);
    let mut winvx = garbage(n);
    vh::mul_Winv(c, false, &mut winvx, x, 1.0, 0.0);
    let mut hsx = garbage(n);
    let mut work = garbage(n);
    c.mul_Hs(&mut hsx, x, &mut work);
    let mut hs = garbage(hslen);
    c.get_Hs(&mut hs);
    (wx, winvx, hsx, hs)
}
fn cat(parts: &[&[f64]]) -> Vec<f64> { parts.iter().flat_map(|p| p.iter().cloned()).collect() }

fn seq_nn(g: &mut Gen, s1: &[f64], z1: &[f64], s2: &[f64], z2: &[f64], x: &[f64]) {
    let n = s1.len();
    let input = json!({"cone": "nn", "seq": true, "s1": s1, "z1": z1, "s2": s2, "z2": z2, "x": x});
    let r = guarded(|| {
        // (a) update; identity reset
        let mut c = vh::NonnegativeCone::<f64>::new(n);
        c.update_scaling(s1, z1, 1.0, ScalingStrategy::PrimalDual);
        c.set_identity_scaling();
        let w = c.verif_w().to_vec();
        let o = observe(&mut c, x, n);
        // (b) update twice on one object vs once on a fresh object
        let mut c1 = vh::NonnegativeCone::<f64>::new(n);
        c1.update_scaling(s1, z1, 1.0, ScalingStrategy::PrimalDual);
        c1.update_scaling(s2, z2, 1.0, ScalingStrategy::PrimalDual);
        let o1 = observe(&mut c1, x, n);
        let st1 = cat(&[c1.verif_w(), c1.verif_lambda(), &o1.0, &o1.1, &o1.2, &o1.3]);
        let mut c2 = vh::NonnegativeCone::<f64>::new(n);
        c2.update_scaling(s2, z2, 1.0, ScalingStrategy::PrimalDual);
        let o2 = observe(&mut c2, x, n);
        let st2 = cat(&[c2.verif_w(), c2.verif_lambda(), &o2.0, &o2.1, &o2.2, &o2.3]);
        (w, o, st1, st2)
    });
    let Some((w, o, st1, st2)) = r else { g.sink.case("nn_sequence", input, "1%N".into(), &["panic"]); return; };
    if !cat(&[&w, &o.0, &o.1, &o.2, &o.3, &st1, &st2]).iter().all(|v| v.is_finite()) { g.sink.case("nn_sequence", input, "1%N".into(), &["nonfinite"]); return; }
    let coq = format!("(maxl [c_nn_identity {w}; p_identity_ops (-45) {x} {wx} {wi} {hx}; p_hs_diag (-45) {hs} {x} {hx}; c_bitsame {a} {b}])",
        w = cfllist(&w), x = cdylist(x), wx = cdylist(&o.0), wi = cdylist(&o.1), hx = cdylist(&o.2), hs = cdylist(&o.3), a = cfllist(&st1), b = cfllist(&st2));
    g.sink.case("nn_sequence", input, coq, &["sequence"]);
    g.count("sequence/nn");
}

fn seq_soc(g: &mut Gen, s1: &[f64], z1: &[f64], s2: &[f64], z2: &[f64], x: &[f64]) {
    let n = s1.len();
    let input = json!({"cone": "soc", "seq": true, "s1": s1, "z1": z1, "s2": s2, "z2": z2, "x": x});
    let state = |c: &vh::SecondOrderCone<f64>| -> Vec<f64> {
        let mut v = cat(&[&c.w, &c.λ, &[c.η]]);
        if let Some(sd) = &c.sparse_data { v.extend(cat(&[&sd.u, &sd.v, &[sd.d]])); }
        v
    };
    let r = guarded(|| {
        let mut c = vh::SecondOrderCone::<f64>::new(n);
        let sparse = c.is_sparse_expandable();
        let hslen = if sparse { n } else { n * (n + 1) / 2 };
        c.update_scaling(s1, z1, 1.0, ScalingStrategy::PrimalDual);
        c.set_identity_scaling();
        let (w, eta) = (c.w.clone(), c.η);
        let (u, v, d) = match &c.sparse_data { Some(sd) => (sd.u.clone(), sd.v.clone(), sd.d), None => (vec![], vec![], 0.0) };
        let o = observe(&mut c, x, hslen);
        let mut c1 = vh::SecondOrderCone::<f64>::new(n);
        c1.update_scaling(s1, z1, 1.0, ScalingStrategy::PrimalDual);
        c1.update_scaling(s2, z2, 1.0, ScalingStrategy::PrimalDual);
        let o1 = observe(&mut c1, x, hslen);
        let st1 = cat(&[&state(&c1), &o1.0, &o1.1, &o1.2, &o1.3]);
        let mut c2 = vh::SecondOrderCone::<f64>::new(n);
        c2.update_scaling(s2, z2, 1.0, ScalingStrategy::PrimalDual);
        let o2 = observe(&mut c2, x, hslen);
        let st2 = cat(&[&state(&c2), &o2.0, &o2.1, &o2.2, &o2.3]);
        (sparse, w, eta, u, v, d, o, st1, st2)
    });
    let Some((sparse, w, eta, u, v, d, o, st1, st2)) = r else { g.sink.case("soc_sequence", input, "1%N".into(), &["panic"]); return; };
    if !cat(&[&w, &[eta, d], &u, &v, &o.0, &o.1, &o.2, &o.3, &st1, &st2]).iter().all(|t| t.is_finite()) { g.sink.case("soc_sequence", input, "1%N".into(), &["nonfinite"]); return; }
    let hs_chk = if sparse {
        format!("p_hs_sparse (-45) {} {} {} {} {} {}", cdylist(&o.3), cdylist(&u), cdylist(&v), cdy(eta), cdylist(x), cdylist(&o.2))
    } else {
        format!("p_hs_dense (-45) {} {} {}", cdylist(&o.3), cdylist(x), cdylist(&o.2))
    };
    let coq = format!("(maxl [c_soc_identity {n} {sp} {w} {eta} {u} {v} {d}; p_identity_ops (-45) {x} {wx} {wi} {hx}; {hs}; c_bitsame {a} {b}])",
        n = n, sp = sparse, w = cfllist(&w), eta = cfl(eta), u = cfllist(&u), v = cfllist(&v), d = cfl(d),
        x = cdylist(x), wx = cdylist(&o.0), wi = cdylist(&o.1), hx = cdylist(&o.2), hs = hs_chk, a = cfllist(&st1), b = cfllist(&st2));
    g.sink.case("soc_sequence", input, coq, &["sequence"]);
    g.count(&format!("sequence/soc/{}", if sparse { "sparse" } else { "dense" }));
}

fn seq_psd(g: &mut Gen, S1: &Mat, Z1: &Mat, S2: &Mat, Z2: &Mat, X: &Mat) {
    let n = S1.len();
    let (s1, z1, s2, z2, x) = (svec(S1), svec(Z1), svec(S2), svec(Z2), svec(X));
    let nv = x.len();
    let hslen = nv * (nv + 1) / 2;
    let input = json!({"cone": "psd", "seq": true, "S1": S1, "Z1": Z1, "S2": S2, "Z2": Z2, "X": X});
    let r = guarded(|| {
        let mut c = vh::PSDTriangleCone::<f64>::new(n);
        c.update_scaling(&s1, &z1, 1.0, ScalingStrategy::PrimalDual);
        c.set_identity_scaling();
        let (rr, ri) = (c.verif_R(), c.verif_Rinv());
        let o = observe(&mut c, &x, hslen);
        let mut c1 = vh::PSDTriangleCone::<f64>::new(n);
        c1.update_scaling(&s1, &z1, 1.0, ScalingStrategy::PrimalDual);
        c1.update_scaling(&s2, &z2, 1.0, ScalingStrategy::PrimalDual);
        let o1 = observe(&mut c1, &x, hslen);
        let st1 = cat(&[c1.verif_lambda(), &c1.verif_R(), &c1.verif_Rinv(), &o1.0, &o1.1, &o1.2, &o1.3]);
        let mut c2 = vh::PSDTriangleCone::<f64>::new(n);
        c2.update_scaling(&s2, &z2, 1.0, ScalingStrategy::PrimalDual);
        let o2 = observe(&mut c2, &x, hslen);
        let st2 = cat(&[c2.verif_lambda(), &c2.verif_R(), &c2.verif_Rinv(), &o2.0, &o2.1, &o2.2, &o2.3]);
        (rr, ri, o, st1, st2)
    });
    let Some((rr, ri, o, st1, st2)) = r else { g.sink.case("psd_sequence", input, "1%N".into(), &["panic"]); return; };
    if !cat(&[&rr, &ri, &o.0, &o.1, &o.2, &o.3, &st1, &st2]).iter().all(|t| t.is_finite()) { g.sink.case("psd_sequence", input, "1%N".into(), &["nonfinite"]); return; }
    // R = R^-1 = I exactly after the reset
    let mut eye = vec![0.0; n * n];
    for k in 0..n { eye[k + n * k] = 1.0; }
    let coq = format!("(maxl [c_bitsame {rr} {eye}; c_bitsame {ri} {eye}; p_identity_ops (-45) {x} {wx} {wi} {hx}; p_hs_dense (-45) {hs} {x} {hx}; c_bitsame {a} {b}])",
        rr = cfllist(&rr), ri = cfllist(&ri), eye = cfllist(&eye), x = cdylist(&x), wx = cdylist(&o.0), wi = cdylist(&o.1), hx = cdylist(&o.2),
        hs = cdylist(&o.3), a = cfllist(&st1), b = cfllist(&st2));
    g.sink.case("psd_sequence", input, coq, &["sequence"]);
    g.count("sequence/psd");
}

fn sequences(g: &mut Gen, reps: usize) {
    for _ in 0..reps {
        for &n in &[1usize, 3, 6] {
            let (s1, z1): (Vec<f64>, Vec<f64>) = (0..n).map(|_| nn_pair(&mut g.rng)).unzip();
            let (s2, z2): (Vec<f64>, Vec<f64>) = (0..n).map(|_| nn_pair(&mut g.rng)).unzip();
            let x: Vec<f64> = (0..n).map(|_| (g.rng.unit() - 0.5) * 4.0).collect();
            seq_nn(g, &s1, &z1, &s2, &z2, &x);
        }
        for &n in &[2usize, 3, 4, 5, 6, 9, 12] {
            let d1 = *g.rng.pick(&[1.0, 1e-4]);
            let s1 = soc_interior(&mut g.rng, n, d1, 1.0);
            let z1 = soc_interior(&mut g.rng, n, d1, 10.0);
            let s2 = soc_interior(&mut g.rng, n, 1.0, 0.1);
            let z2 = soc_interior(&mut g.rng, n, 1.0, 1.0);
            let x: Vec<f64> = (0..n).map(|_| (g.rng.unit() - 0.5) * 4.0 + 0.25).collect();
            seq_soc(g, &s1, &z1, &s2, &z2, &x);
        }
        if blas_shim::AVAILABLE {
            for n in 1..=4usize {
                let S1 = psd_matrix(&mut g.rng, n, 0.3, 1.0);
                let Z1 = psd_matrix(&mut g.rng, n, 0.3, 2.0);
                let S2 = psd_matrix(&mut g.rng, n, 0.3, 0.5);
                let Z2 = psd_matrix(&mut g.rng, n, 0.3, 1.0);
                let X = sym_matrix(&mut g.rng, n, 2.0);
                seq_psd(g, &S1, &Z1, &S2, &Z2, &X);
            }
        }
    }
}

// ------------------------------------------------------------------ y <- alpha*W x + beta*y on structured probes
const AB_GRID: [(f64, f64); 12] = [(0.0, 0.0), (0.0, 1.0), (0.0, -1.0), (0.0, 0.5), (0.0, 2.0),
                                   (1.0, 0.0), (-1.0, 0.0), (2.0, 0.0), (1.0, 1.0), (2.0, 0.5), (0.5, -1.0), (-3.0, 2.0)];
/// unit vectors, vectors with x0 = 0, a generic vector
fn probes(rng: &mut Rng, n: usize) -> Vec<Vec<f64>> {
    let mut v: Vec<Vec<f64>> = (0..n.min(4)).map(|i| { let mut e = vec![0.0; n]; e[i] = 1.0; e }).collect();
    if n > 4 { let mut e = vec![0.0; n]; e[n - 1] = 1.0; v.push(e); }
    let mut x: Vec<f64> = (0..n).map(|_| (rng.unit() - 0.5) * 4.0).collect();
    x[0] = 0.0;
    v.push(x);
    v.push((0..n).map(|_| (rng.unit() - 0.5) * 4.0).collect());
    v
}
/// runs mul_W / mul_Winv (N and T) over the (alpha, beta) grid with garbage in the output buffer and
/// returns Coq conjuncts: the contract y_out = alpha*(W x) + beta*y_in in exact dyadics (W x taken
/// from the call with alpha = 1, beta = 0), plus whatever `model` adds for the model comparison
fn ab_conjuncts<C: SymmetricCone<f64>>(c: &mut C, x: &[f64], full_t: bool, model: &dyn Fn(bool, f64, f64, &[f64], &[f64]) -> Option<String>) -> Option<Vec<String>> {
    let n = x.len();
    let yin = garbage(n);
    let mut parts = vec![];
    for inv in [false, true] {
        for tr in [false, true] {
            let mut refx = garbage(n);
            if inv { vh::mul_Winv(c, tr, &mut refx, x, 1.0, 0.0) } else { vh::mul_W(c, tr, &mut refx, x, 1.0, 0.0) };
            if !refx.iter().all(|v| v.is_finite()) { return None; }
            let grid: &[(f64, f64)] = if tr && !full_t { &[(0.0, 2.0), (2.0, 0.5)] } else { &AB_GRID };
            for &(a, b) in grid.iter() {
                let mut y = yin.clone();
                if inv { vh::mul_Winv(c, tr, &mut y, x, a, b) } else { vh::mul_W(c, tr, &mut y, x, a, b) };
                if !y.iter().all(|v| v.is_finite()) { return None; }
                parts.push(format!("p_affine (-44) {} {} {} {} {}", cdy(a), cdy(b), cdylist(&refx), cdylist(&yin), cdylist(&y)));
                if !tr { if let Some(m) = model(inv, a, b, &yin, &y) { parts.push(m); } }
            }
        }
    }
    Some(parts)
}

fn probe_cases(g: &mut Gen, thorough: bool) {
    // --- NN
    for n in [1usize, 3] {
        for mode in 0..3 {
            let (s, z): (Vec<f64>, Vec<f64>) = match mode {
                0 => (vec![1.0; n], vec![1.0; n]),
                1 => ((0..n).map(|i| 1.0 + i as f64).collect(), (0..n).map(|i| 4.0 / (1.0 + i as f64)).collect()),
                _ => (0..n).map(|_| nn_pair(&mut g.rng)).unzip(),
            };
            for x in probes(&mut g.rng, n) {
                let input = json!({"cone": "nn", "probe": true, "s": s, "z": z, "x": x});
                let r = guarded(|| {
                    let mut c = vh::NonnegativeCone::<f64>::new(n);
                    c.update_scaling(&s, &z, 1.0, ScalingStrategy::PrimalDual);
                    let w = c.verif_w().to_vec();
                    let wl = cfllist(&w);
                    let xl = cfllist(&x);
                    ab_conjuncts(&mut c, &x, false, &|inv, a, b, yin, y| Some(format!("cmpv_el (0x1p-44)%float ({} F {} {} {} {} {}) {}",
                        if inv { "nn_mul_Winv" } else { "nn_mul_W" }, wl, xl, cfl(a), cfl(b), cfllist(yin), cfllist(y))))
                });
                match r {
                    Some(Some(parts)) => { g.sink.case("nn_probe", input, format!("(maxl [{}])", parts.join("; ")), &["probe"]); g.count("probe/nn"); }
                    _ => g.sink.case("nn_probe", input, "1%N".into(), &["probe", "panic-or-nonfinite"]),
                }
            }
        }
    }
    // --- SOC, dense and sparse
    let dims: &[usize] = if thorough { &[2, 3, 4, 5, 6, 9] } else { &[2, 4, 5, 8] };
    for &n in dims {
        for mode in 0..5 {
            let e0 = |v: f64| -> Vec<f64> { let mut t = vec![0.0; n]; t[0] = v; t };
            let (s, z): (Vec<f64>, Vec<f64>) = match mode {
                0 => (e0(1.0), e0(1.0)),                                   // the identity point s = z = e
                1 => (e0(2.0), e0(8.0)),                                   // zero tails
                2 => { let mut s = e0(3.0); s[1] = 1.0; let mut z = e0(2.0); z[n - 1] = -1.0; (s, z) } // axis-aligned tails
                3 => { let mut s = e0(3.0); s[1] = 2.0; (s.clone(), s) }   // s = z, one tail entry
                _ => (soc_interior(&mut g.rng, n, 1.0, 1.0), soc_interior(&mut g.rng, n, 1.0, 2.0)),
            };
            for x in probes(&mut g.rng, n) {
                let input = json!({"cone": "soc", "probe": true, "s": s, "z": z, "x": x});
                let r = guarded(|| {
                    let mut c = vh::SecondOrderCone::<f64>::new(n);
                    if !c.update_scaling(&s, &z, 1.0, ScalingStrategy::PrimalDual) { return None; }
                    let (wl, el, xl) = (cfllist(&c.w), cfl(c.η), cfllist(&x));
                    let mut parts = ab_conjuncts(&mut c, &x, false, &|inv, a, b, yin, y| Some(format!("info (cmpv (0x1p-40)%float ({} F {} {} {} {} {} {}) {})",
                        if inv { "soc_mul_Winv" } else { "soc_mul_W" }, wl, el, xl, cfl(a), cfl(b), cfllist(yin), cfllist(y))))?;
                    // the same probes after an identity reset
                    c.set_identity_scaling();
                    let (wl, el) = (cfllist(&c.w), cfl(c.η));
                    parts.extend(ab_conjuncts(&mut c, &x, false, &|inv, a, b, yin, y| Some(format!("info (cmpv (0x1p-40)%float ({} F {} {} {} {} {} {}) {})",
                        if inv { "soc_mul_Winv" } else { "soc_mul_W" }, wl, el, xl, cfl(a), cfl(b), cfllist(yin), cfllist(y))))?);
                    Some(parts)
                });
                match r {
                    Some(Some(parts)) => { g.sink.case("soc_probe", input, format!("(maxl [{}])", parts.join("; ")), &["probe"]); g.count(&format!("probe/soc/{}", if n > 4 { "sparse" } else { "dense" })); }
                    _ => g.sink.case("soc_probe", input, "1%N".into(), &["probe", "panic-or-nonfinite-or-refused"]),
                }
            }
        }
    }
    // --- PSD (contract only)
    if blas_shim::AVAILABLE {
        for n in [1usize, 2, 3] {
            for mode in 0..2 {
                let (S, Z) = if mode == 0 {
                    let mut i = vec![vec![0.0; n]; n]; for k in 0..n { i[k][k] = 1.0; } (i.clone(), i)
                } else { (psd_matrix(&mut g.rng, n, 0.3, 1.0), psd_matrix(&mut g.rng, n, 0.3, 2.0)) };
                let (s, z) = (svec(&S), svec(&Z));
                for x in probes(&mut g.rng, s.len()) {
                    let input = json!({"cone": "psd", "probe": true, "S": S, "Z": Z, "x": x});
                    let r = guarded(|| {
                        let mut c = vh::PSDTriangleCone::<f64>::new(n);
                        if !c.update_scaling(&s, &z, 1.0, ScalingStrategy::PrimalDual) { return None; }
                        ab_conjuncts(&mut c, &x, true, &|_, _, _, _, _| None)
                    });
                    match r {
                        Some(Some(parts)) => { g.sink.case("psd_probe", input, format!("(maxl [{}])", parts.join("; ")), &["probe"]); g.count("probe/psd"); }
                        _ => g.sink.case("psd_probe", input, "1%N".into(), &["probe", "panic-or-nonfinite-or-refused"]),
                    }
                }
            }
        }
    }
}

// ------------------------------------------------------------------ HISTORIES on one cone object
// After every step the complete observable state of the cone that lived through the history must be
// bit-identical to that of a fresh cone brought there by this step alone, must agree with the model
// evaluated from this step's (s, z) alone, and the KKT block must be the operator of mul_Hs.
#[derive(Clone)]
enum Step { Upd(Vec<f64>, Vec<f64>), Ident }

fn ops_obs<C: Cone<f64> + SymmetricCone<f64>>(c: &mut C, x: &[f64], hslen: usize) -> (Vec<f64>, Vec<f64>, Vec<f64>) {
    // (everything for the bitwise comparison, hs block, mul_Hs x)
    let n = x.len();
    let mut all = vec![];
    for &(a, b) in &[(1.0, 0.0), (0.0, 2.0), (2.0, 0.5)] {
        let mut y = garbage(n);
        vh::mul_W(c, false, &mut y, x, a, b);
        all.extend(y);
        let mut y = garbage(n);
        vh::mul_Winv(c, false, &mut y, x, a, b);
        all.extend(y);
    }
    let mut hsx = garbage(n);
    let mut work = garbage(n);
    c.mul_Hs(&mut hsx, x, &mut work);
    let mut hs = garbage(hslen);
    c.get_Hs(&mut hs);
    all.extend(hsx.iter().cloned());
    all.extend(hs.iter().cloned());
    (all, hs, hsx)
}

fn soc_history(g: &mut Gen, n: usize, steps: &[Step], x: &[f64], tag: &str) {
    let input = json!({"cone": "soc", "history": steps.iter().map(|s| match s { Step::Upd(a, b) => json!({"s": a, "z": b}), Step::Ident => json!("identity") }).collect::<Vec<_>>(), "x": x});
    let r = guarded(|| {
        let mut c = vh::SecondOrderCone::<f64>::new(n);
        let sparse = c.is_sparse_expandable();
        let hslen = if sparse { n } else { n * (n + 1) / 2 };
        let state = |c: &vh::SecondOrderCone<f64>, with_lam: bool| -> Vec<f64> {
            let mut v = cat(&[&c.w, &[c.η]]);
            if with_lam { v.extend(c.λ.iter().cloned()); }
            if let Some(sd) = &c.sparse_data { v.extend(cat(&[&sd.u, &sd.v, &[sd.d]])); }
            v
        };
        let mut parts: Vec<String> = vec![];
        for st in steps {
            let mut f = vh::SecondOrderCone::<f64>::new(n);
            let is_upd = matches!(st, Step::Upd(_, _));
            match st {
                Step::Upd(s, z) => {
                    let ok1 = c.update_scaling(s, z, 1.0, ScalingStrategy::PrimalDual);
                    let ok2 = f.update_scaling(s, z, 1.0, ScalingStrategy::PrimalDual);
                    if !(ok1 && ok2) { return None; }
                }
                Step::Ident => { c.set_identity_scaling(); f.set_identity_scaling(); }
            }
            let (oc, hs, hsx) = ops_obs(&mut c, x, hslen);
            let (of, _, _) = ops_obs(&mut f, x, hslen);
            let a = cat(&[&state(&c, is_upd), &oc]);
            let b = cat(&[&state(&f, is_upd), &of]);
            if !a.iter().chain(b.iter()).all(|v| v.is_finite()) { return None; }
            parts.push(format!("c_bitsame {} {}", cfllist(&a), cfllist(&b)));
            let (u, v, d) = match &c.sparse_data { Some(sd) => (sd.u.clone(), sd.v.clone(), sd.d), None => (vec![], vec![], 0.0) };
            if sparse {
                parts.push(format!("p_hs_sparse (-40) {} {} {} {} {} {}", cdylist(&hs), cdylist(&u), cdylist(&v), cdy(c.η), cdylist(x), cdylist(&hsx)));
            } else {
                parts.push(format!("p_hs_dense (-40) {} {} {}", cdylist(&hs), cdylist(x), cdylist(&hsx)));
            }
            if let Step::Upd(s, z) = st {
                parts.push(format!("c_soc_state (0x1p-40)%float {} {} {} {} {} {} {} {} {}", cfllist(s), cfllist(z), cfllist(&c.w), cfllist(&c.λ), cfl(c.η), cfllist(&u), cfllist(&v), cfl(d), cfllist(&hs)));
                parts.push(format!("p_soc_nt (-33) {} {} {} {} {}", cdylist(s), cdylist(z), cdylist(&c.w), cdylist(&c.λ), cdy(c.η)));
                // the block written into the KKT matrix maps z to s  ((W'W) z = s)
                if sparse {
                    parts.push(format!("p_hs_sparse (-33) {} {} {} {} {} {}", cdylist(&hs), cdylist(&u), cdylist(&v), cdy(c.η), cdylist(z), cdylist(s)));
                } else {
                    parts.push(format!("p_hs_dense (-33) {} {} {}", cdylist(&hs), cdylist(z), cdylist(s)));
                }
            }
        }
        Some(parts)
    });
    match r {
        Some(Some(parts)) => { g.sink.case("soc_history", input, format!("(maxl [{}])", parts.join("; ")), &["history", tag]); g.count(&format!("history/soc/{}", if n > 4 { "sparse" } else { "dense" })); }
        _ => g.sink.case("soc_history", input, "1%N".into(), &["history", tag, "panic-or-nonfinite-or-refused"]),
    }
}

fn nn_history(g: &mut Gen, n: usize, steps: &[Step], x: &[f64]) {
    let input = json!({"cone": "nn", "history": steps.iter().map(|s| match s { Step::Upd(a, b) => json!({"s": a, "z": b}), Step::Ident => json!("identity") }).collect::<Vec<_>>(), "x": x});
    let r = guarded(|| {
        let mut c = vh::NonnegativeCone::<f64>::new(n);
        let mut parts: Vec<String> = vec![];
        for st in steps {
            let mut f = vh::NonnegativeCone::<f64>::new(n);
            let is_upd = matches!(st, Step::Upd(_, _));
            match st {
                Step::Upd(s, z) => { c.update_scaling(s, z, 1.0, ScalingStrategy::PrimalDual); f.update_scaling(s, z, 1.0, ScalingStrategy::PrimalDual); }
                Step::Ident => { c.set_identity_scaling(); f.set_identity_scaling(); }
            }
            let (oc, hs, hsx) = ops_obs(&mut c, x, n);
            let (of, _, _) = ops_obs(&mut f, x, n);
            let st_c = if is_upd { cat(&[c.verif_w(), c.verif_lambda()]) } else { c.verif_w().to_vec() };
            let st_f = if is_upd { cat(&[f.verif_w(), f.verif_lambda()]) } else { f.verif_w().to_vec() };
            let (a, b) = (cat(&[&st_c, &oc]), cat(&[&st_f, &of]));
            if !a.iter().chain(b.iter()).all(|v| v.is_finite()) { return None; }
            parts.push(format!("c_bitsame {} {}", cfllist(&a), cfllist(&b)));
            parts.push(format!("p_hs_diag (-44) {} {} {}", cdylist(&hs), cdylist(x), cdylist(&hsx)));
            if let Step::Upd(s, z) = st {
                parts.push(format!("c_nn_state (0x1p-44)%float {} {} {} {} {}", cfllist(s), cfllist(z), cfllist(c.verif_w()), cfllist(c.verif_lambda()), cfllist(&hs)));
                parts.push(format!("p_nn_nt (-44) {} {} {} {}", cdylist(s), cdylist(z), cdylist(c.verif_w()), cdylist(c.verif_lambda())));
            }
        }
        Some(parts)
    });
    match r {
        Some(Some(parts)) => { g.sink.case("nn_history", input, format!("(maxl [{}])", parts.join("; ")), &["history"]); g.count("history/nn"); }
        _ => g.sink.case("nn_history", input, "1%N".into(), &["history", "panic-or-nonfinite"]),
    }
}

fn psd_history(g: &mut Gen, n: usize, steps: &[(Option<(Mat, Mat)>,)], X: &Mat) {
    let x = svec(X);
    let nv = x.len();
    let hslen = nv * (nv + 1) / 2;
    let input = json!({"cone": "psd", "n": n, "history": steps.iter().map(|s| match &s.0 { Some((a, b)) => json!({"S": a, "Z": b}), None => json!("identity") }).collect::<Vec<_>>(), "X": X});
    let r = guarded(|| {
        let mut c = vh::PSDTriangleCone::<f64>::new(n);
        let mut parts: Vec<String> = vec![];
        for st in steps {
            let mut f = vh::PSDTriangleCone::<f64>::new(n);
            match &st.0 {
                Some((S, Z)) => {
                    let (s, z) = (svec(S), svec(Z));
                    if !(c.update_scaling(&s, &z, 1.0, ScalingStrategy::PrimalDual) && f.update_scaling(&s, &z, 1.0, ScalingStrategy::PrimalDual)) { return None; }
                }
                None => { c.set_identity_scaling(); f.set_identity_scaling(); }
            }
            let (oc, hs, hsx) = ops_obs(&mut c, &x, hslen);
            let (of, _, _) = ops_obs(&mut f, &x, hslen);
            let is_upd = st.0.is_some();
            let st_c = if is_upd { cat(&[c.verif_lambda(), &c.verif_R(), &c.verif_Rinv()]) } else { cat(&[&c.verif_R(), &c.verif_Rinv()]) };
            let st_f = if is_upd { cat(&[f.verif_lambda(), &f.verif_R(), &f.verif_Rinv()]) } else { cat(&[&f.verif_R(), &f.verif_Rinv()]) };
            let (a, b) = (cat(&[&st_c, &oc]), cat(&[&st_f, &of]));
            if !a.iter().chain(b.iter()).all(|v| v.is_finite()) { return None; }
            parts.push(format!("c_bitsame {} {}", cfllist(&a), cfllist(&b)));
            parts.push(format!("p_hs_dense (-30) {} {} {}", cdylist(&hs), cdylist(&x), cdylist(&hsx)));
            if let Some((S, Z)) = &st.0 {
                parts.push(format!("p_psd_nt (-30) {} {} {} {} {} {}", n, cdylist(&c.verif_R()), cdylist(&c.verif_Rinv()), cdylist(c.verif_lambda()), cdymat(S), cdymat(Z)));
            }
        }
        Some(parts)
    });
    match r {
        Some(Some(parts)) => { g.sink.case("psd_history", input, format!("(maxl [{}])", parts.join("; ")), &["history"]); g.count("history/psd"); }
        _ => g.sink.case("psd_history", input, "1%N".into(), &["history", "panic-or-nonfinite-or-refused"]),
    }
}

// ------------------------------------------------------------------ HISTORIES on a COMPOSITE cone
// update_scaling(s_k, z_k, mu_k, strategy_k) with the strategy alternating PrimalDual / Dual while
// (s, z) changes: after every call every symmetric block (and the composite Hs / mul_Hs) must be what a
// fresh composite gives for that call alone, and must agree with the model evaluated from (s_k, z_k).
#[derive(Clone)]
enum CB { NN(usize), SOC(usize), PSD(usize), Exp, Pow(f64) }
fn cb_spec(b: &CB) -> vh::SupportedConeT<f64> {
    match b {
        CB::NN(n) => vh::SupportedConeT::NonnegativeConeT(*n),
        CB::SOC(n) => vh::SupportedConeT::SecondOrderConeT(*n),
        CB::PSD(n) => vh::SupportedConeT::PSDTriangleConeT(*n),
        CB::Exp => vh::SupportedConeT::ExponentialConeT(),
        CB::Pow(a) => vh::SupportedConeT::PowerConeT(*a),
    }
}
fn cb_dim(b: &CB) -> usize { match b { CB::NN(n) | CB::SOC(n) => *n, CB::PSD(n) => n * (n + 1) / 2, _ => 3 } }
fn cb_hs(b: &CB) -> usize {
    match b { CB::NN(n) => *n, CB::SOC(n) => if *n > 4 { *n } else { n * (n + 1) / 2 }, CB::PSD(n) => { let m = n * (n + 1) / 2; m * (m + 1) / 2 }, _ => 6 }
}
/// stored scaling state of every symmetric constituent, block by block
fn comp_states(c: &vh::CompositeCone<f64>) -> Vec<Vec<f64>> {
    c.iter().map(|cone| match cone {
        vh::SupportedCone::NonnegativeCone(k) => cat(&[k.verif_w(), k.verif_lambda()]),
        vh::SupportedCone::SecondOrderCone(k) => {
            let mut v = cat(&[&k.w, &k.λ, &[k.η]]);
            if let Some(sd) = &k.sparse_data { v.extend(cat(&[&sd.u, &sd.v, &[sd.d]])); }
            v
        }
        vh::SupportedCone::PSDTriangleCone(k) => cat(&[k.verif_lambda(), &k.verif_R(), &k.verif_Rinv()]),
        _ => vec![],
    }).collect()
}

fn composite_history(g: &mut Gen, blks: &[CB], nsteps: usize, first_dual: bool, tag: &str) {
    let specs: Vec<_> = blks.iter().map(cb_spec).collect();
    let ntot: usize = blks.iter().map(cb_dim).sum();
    let hstot: usize = blks.iter().map(cb_hs).sum();
    let degree: usize = blks.iter().map(|b| match b { CB::NN(n) => *n, CB::SOC(_) => 1, CB::PSD(n) => *n, _ => 3 }).sum();
    // the (s_k, z_k) of every step: fresh interior points for the symmetric blocks, the unit point
    // (slightly rescaled) for exp / pow
    let mut unit_z = vec![0.0; ntot];
    let mut unit_s = vec![0.0; ntot];
    { let c0 = vh::CompositeCone::<f64>::new(&specs); c0.unit_initialization(&mut unit_z, &mut unit_s); }
    let mut steps: Vec<(Vec<f64>, Vec<f64>, f64, bool)> = vec![];
    for k in 0..nsteps {
        let (mut s, mut z) = (unit_s.clone(), unit_z.clone());
        let mut off = 0;
        for b in blks {
            let n = cb_dim(b);
            match b {
                CB::NN(_) => for i in 0..n { let (a, c) = nn_pair(&mut g.rng); s[off + i] = a.min(1e4).max(1e-4); z[off + i] = c.min(1e4).max(1e-4); },
                CB::SOC(m) => {
                    s[off..off + n].copy_from_slice(&soc_interior(&mut g.rng, *m, 1.0, 1.0 + k as f64));
                    z[off..off + n].copy_from_slice(&soc_interior(&mut g.rng, *m, 1.0, 2.0));
                }
                CB::PSD(m) => {
                    s[off..off + n].copy_from_slice(&svec(&psd_matrix(&mut g.rng, *m, 0.3, 1.0)));
                    z[off..off + n].copy_from_slice(&svec(&psd_matrix(&mut g.rng, *m, 0.3, 2.0)));
                }
                _ => { let f = 1.0 + 0.125 * (k as f64); for i in 0..n { s[off + i] *= f; z[off + i] *= f; } }
            }
            off += n;
        }
        let mu = s.iter().zip(&z).map(|(a, b)| a * b).sum::<f64>() / (degree as f64);
        steps.push((s, z, mu, (k % 2 == 0) == first_dual));
    }
    let x: Vec<f64> = (0..ntot).map(|_| (g.rng.unit() - 0.5) * 4.0 + 0.25).collect();
    let input = json!({"cone": "composite", "blocks": blks.iter().map(|b| match b { CB::NN(n) => format!("NN{}", n), CB::SOC(n) => format!("SOC{}", n), CB::PSD(n) => format!("PSD{}", n), CB::Exp => "Exp".to_string(), CB::Pow(a) => format!("Pow{}", a) }).collect::<Vec<_>>(),
                       "steps": steps.iter().map(|t| json!({"s": t.0, "z": t.1, "mu": t.2, "dual": t.3})).collect::<Vec<_>>(), "x": x});
    let r = guarded(|| {
        let mut c = vh::CompositeCone::<f64>::new(&specs);
        let mut parts: Vec<String> = vec![];
        for (s, z, mu, dual) in steps.iter() {
            let strat = if *dual { ScalingStrategy::Dual } else { ScalingStrategy::PrimalDual };
            let mut f = vh::CompositeCone::<f64>::new(&specs);
            if !(c.update_scaling(s, z, *mu, strat) && f.update_scaling(s, z, *mu, strat)) { return None; }
            let obs = |k: &mut vh::CompositeCone<f64>| -> (Vec<f64>, Vec<f64>) {
                let mut hs = garbage(hstot);
                k.get_Hs(&mut hs);
                let mut y = garbage(ntot);
                let mut work = garbage(ntot);
                k.mul_Hs(&mut y, &x, &mut work);
                (hs, y)
            };
            let (hs_c, y_c) = obs(&mut c);
            let (hs_f, y_f) = obs(&mut f);
            let (st_c, st_f) = (comp_states(&c), comp_states(&f));
            // block by block: symmetric blocks bitwise + model; composite Hs and mul_Hs of those blocks
            let (mut off, mut hoff) = (0, 0);
            for (bi, b) in blks.iter().enumerate() {
                let (n, hn) = (cb_dim(b), cb_hs(b));
                let sym = !matches!(b, CB::Exp | CB::Pow(_));
                if sym {
                    let a = cat(&[&st_c[bi], &hs_c[hoff..hoff + hn], &y_c[off..off + n]]);
                    let bb = cat(&[&st_f[bi], &hs_f[hoff..hoff + hn], &y_f[off..off + n]]);
                    if !a.iter().chain(bb.iter()).all(|v| v.is_finite()) { return None; }
                    parts.push(format!("c_bitsame {} {}", cfllist(&a), cfllist(&bb)));
                    let (sb, zb, hb) = (&s[off..off + n], &z[off..off + n], &hs_c[hoff..hoff + hn]);
                    match c.iter().nth(bi).unwrap() {
                        vh::SupportedCone::NonnegativeCone(k) => parts.push(format!("c_nn_state (0x1p-44)%float {} {} {} {} {}", cfllist(sb), cfllist(zb), cfllist(k.verif_w()), cfllist(k.verif_lambda()), cfllist(hb))),
                        vh::SupportedCone::SecondOrderCone(k) => {
                            let (u, v, d) = match &k.sparse_data { Some(sd) => (sd.u.clone(), sd.v.clone(), sd.d), None => (vec![], vec![], 0.0) };
                            parts.push(format!("c_soc_state (0x1p-40)%float {} {} {} {} {} {} {} {} {}", cfllist(sb), cfllist(zb), cfllist(&k.w), cfllist(&k.λ), cfl(k.η), cfllist(&u), cfllist(&v), cfl(d), cfllist(hb)));
                            parts.push(format!("p_soc_nt (-33) {} {} {} {} {}", cdylist(sb), cdylist(zb), cdylist(&k.w), cdylist(&k.λ), cdy(k.η)));
                        }
                        _ => {}
                    }
                }
                off += n;
                hoff += hn;
            }
        }
        Some(parts)
    });
    match r {
        Some(Some(parts)) => { g.sink.case("composite_history", input, format!("(maxl [{}])", parts.join("; ")), &["history", tag]); g.count("history/composite"); }
        _ => g.sink.case("composite_history", input, "1%N".into(), &["history", tag, "panic-or-nonfinite-or-refused"]),
    }
}

fn composite_histories(g: &mut Gen, thorough: bool) {
    let psd = blas_shim::AVAILABLE;
    let mut lists: Vec<Vec<CB>> = vec![
        vec![CB::NN(3), CB::SOC(3), CB::SOC(6), CB::Exp],
        vec![CB::SOC(5), CB::Pow(0.4), CB::NN(2)],
        vec![CB::Exp, CB::SOC(4), CB::SOC(9)],
        vec![CB::NN(2), CB::SOC(8)],
    ];
    if psd { lists.push(vec![CB::PSD(2), CB::SOC(5), CB::Exp, CB::NN(1)]); lists.push(vec![CB::Pow(0.7), CB::PSD(3), CB::SOC(3)]); }
    for (i, l) in lists.iter().enumerate() {
        composite_history(g, l, 3, i % 2 == 0, "alternating");
        if thorough || i < 3 { composite_history(g, l, 4, i % 2 == 1, "alternating"); }
    }
}

fn histories(g: &mut Gen, thorough: bool) {
    let dims: &[usize] = if thorough { &[2, 3, 4, 5, 6, 8, 9, 12] } else { &[3, 4, 5, 8, 12] };
    for &n in dims {
        let e0 = |v: f64| -> Vec<f64> { let mut t = vec![0.0; n]; t[0] = v; t };
        let gen = |g: &mut Gen, m: f64| Step::Upd(soc_interior(&mut g.rng, n, 1.0, m), soc_interior(&mut g.rng, n, 1.0, 2.0 * m));
        let axis_e = Step::Upd(e0(1.0), e0(1.0));
        let axis_zero_tails = Step::Upd(e0(2.0), e0(8.0));
        let axis_aligned = { let mut s = e0(3.0); s[1] = 1.0; let mut z = e0(2.0); z[n - 1] = -1.0; Step::Upd(s, z) };
        let tiny = |t: f64| { let mut s = e0(2.0); s[1] = t; let mut z = e0(3.0); z[n - 1] = -t; Step::Upd(s, z) };
        let x: Vec<f64> = (0..n).map(|_| (g.rng.unit() - 0.5) * 4.0 + 0.25).collect();
        let hs: Vec<(Vec<Step>, &str)> = vec![
            (vec![gen(g, 1.0), axis_e.clone()], "gen-axis"),
            (vec![gen(g, 1.0), axis_zero_tails.clone(), gen(g, 0.5)], "gen-zerotails-gen"),
            (vec![gen(g, 3.0), Step::Ident, axis_aligned.clone(), axis_e.clone()], "gen-ident-aligned-axis"),
            (vec![gen(g, 1.0), tiny(1e-200)], "gen-tiny200"),
            (vec![gen(g, 1.0), tiny(1e-17), Step::Ident, gen(g, 2.0)], "gen-tiny17-ident-gen"),
            (vec![axis_e.clone(), gen(g, 1.0), axis_zero_tails.clone(), Step::Ident], "axis-gen-zerotails-ident"),
        ];
        for (h, tag) in hs.iter() { soc_history(g, n, h, &x, tag); }
    }
    for &n in &[1usize, 4] {
        let gen = |g: &mut Gen| { let (s, z): (Vec<f64>, Vec<f64>) = (0..n).map(|_| nn_pair(&mut g.rng)).unzip(); Step::Upd(s, z) };
        let x: Vec<f64> = (0..n).map(|_| (g.rng.unit() - 0.5) * 4.0).collect();
        let ones = Step::Upd(vec![1.0; n], vec![1.0; n]);
        let h1 = vec![gen(g), ones.clone(), gen(g)];
        nn_history(g, n, &h1, &x);
        let h2 = vec![gen(g), Step::Ident, ones, Step::Ident];
        nn_history(g, n, &h2, &x);
    }
    if blas_shim::AVAILABLE {
        for &n in &[1usize, 3] {
            let eye = |v: f64| -> Mat { let mut m = vec![vec![0.0; n]; n]; for k in 0..n { m[k][k] = v; } m };
            let gen = |g: &mut Gen| (Some((psd_matrix(&mut g.rng, n, 0.3, 1.0), psd_matrix(&mut g.rng, n, 0.3, 2.0))),);
            let X = sym_matrix(&mut g.rng, n, 2.0);
            let diag = { let mut a = eye(1.0); let mut b = eye(1.0); for k in 0..n { a[k][k] = 1.0 + k as f64; b[k][k] = 4.0 / (1.0 + k as f64); } (Some((a, b)),) };
            let h1 = vec![gen(g), (Some((eye(1.0), eye(1.0))),), gen(g)];
            psd_history(g, n, &h1, &X);
            let h2 = vec![gen(g), (None,), diag, (Some((eye(2.0), eye(8.0))),)];
            psd_history(g, n, &h2, &X);
        }
    }
}

const AB: [(f64, f64); 4] = [(1.0, 0.0), (-1.0, 0.0), (2.0, 0.5), (0.5, -1.0)];

fn generate(g: &mut Gen, thorough: bool) {
    let reps = if thorough { 8 } else { 2 };
    sequences(g, reps);
    probe_cases(g, thorough);
    histories(g, thorough);
    composite_histories(g, thorough);
    for _ in 0..reps {
        for n in 1..=12usize {
            for mode in 0..3 {
                let (s, z): (Vec<f64>, Vec<f64>) = match mode {
                    0 => (0..n).map(|_| nn_pair(&mut g.rng)).unzip(),                                  // magnitudes 1e-8..1e8
                    1 => (0..n).map(|_| (1.0 + g.rng.below(9) as f64, 1.0 + g.rng.below(9) as f64)).unzip(), // small integers
                    _ => (0..n).map(|_| { let (a, _) = nn_pair(&mut g.rng); (a, 1.0 / a) }).unzip(),  // on the central path
                };
                let x: Vec<f64> = (0..n).map(|_| (g.rng.unit() - 0.5) * 4.0).collect();
                let y: Vec<f64> = (0..n).map(|_| (g.rng.unit() - 0.5) * 4.0 + 3.0).collect();
                let (a, b) = *g.rng.pick(&AB);
                let sm = 0.1 + g.rng.unit();
                nn_case(g, &s, &z, &x, &y, a, b, sm, ["magnitudes", "integers", "central"][mode]);
            }
        }
    }
    for rep in 0..reps {
        for n in 2..=12usize {
            if !thorough && rep > 0 && n > 6 && n != 9 { continue; }
            for &dist in &[1.0, 1e-4, 1e-8] {
                for &(ms, mz) in &[(1.0, 1.0), (1e8, 1e-8), (1e-8, 1e8), (1e4, 1e4)] {
                    let s = soc_interior(&mut g.rng, n, dist, ms);
                    let z = soc_interior(&mut g.rng, n, dist, mz);
                    let x: Vec<f64> = (0..n).map(|_| (g.rng.unit() - 0.5) * 4.0).collect();
                    let y = soc_interior(&mut g.rng, n, 1.0, 1.0); // interior: inv_circ_op divides by its residual
                    let (a, b) = *g.rng.pick(&AB);
                    let tag = if dist >= 1.0 { "dist1" } else if dist >= 1e-4 { "dist1e-4" } else { "dist1e-8" };
                    let sm = 0.1 + g.rng.unit();
                    soc_case(g, &s, &z, &x, &y, a, b, sm, dist, tag);
                }
            }
        }
    }
    // exact data: s = z gives w = e-direction scaling; integer interior points
    for n in 2..=7usize {
        let mut s = vec![0.0; n];
        s[0] = 3.0; s[1] = 1.0; if n > 2 { s[2] = 2.0; }
        let mut z = vec![0.0; n];
        z[0] = 5.0; z[n - 1] = 3.0;
        let x: Vec<f64> = (0..n).map(|i| (i as f64) - 1.5).collect();
        let y = { let mut y = vec![0.0; n]; y[0] = 2.0; y[1] = 1.0; y };
        soc_case(g, &s, &z, &x, &y, 1.0, 0.0, 0.5, 1.0, "integers");
        soc_case(g, &s, &s, &x, &y, 1.0, 0.0, 0.5, 1.0, "s-equals-z");
    }
    // PSD cone, n = 1..5 (scaling through LAPACK; validated per call)
    if blas_shim::AVAILABLE {
        for rep in 0..reps {
            for n in 1..=5usize {
                if !thorough && rep > 0 && n > 3 { continue; }
                for &(ms, mz, fl) in &[(1.0, 1.0, 0.3), (1e3, 1e-3, 0.3), (1.0, 1.0, 0.01), (1e-4, 1e2, 0.1)] {
                    let S = psd_matrix(&mut g.rng, n, fl, ms);
                    let Z = psd_matrix(&mut g.rng, n, fl, mz);
                    let X = sym_matrix(&mut g.rng, n, 2.0);
                    let Y = sym_matrix(&mut g.rng, n, 2.0);
                    psd_case(g, &S, &Z, &X, &Y, if fl < 0.05 { "near-singular" } else { "generic" });
                }
                // S = Z (W = I up to rotation) and small integer data
                let S = psd_matrix(&mut g.rng, n, 0.3, 1.0);
                let X = sym_matrix(&mut g.rng, n, 2.0);
                psd_case(g, &S, &S, &X, &X, "s-equals-z");
            }
        }
    }
    // points not in the interior: update_scaling must refuse (returns false) in model and code
    soc_case(g, &[1.0, 1.0, 0.0], &[2.0, 1.0, 0.0], &[1.0, 0.0, 0.0], &[2.0, 1.0, 0.0], 1.0, 0.0, 0.5, 1.0, "boundary-refused");
    soc_case(g, &[2.0, 1.0, 0.0], &[1.0, 0.0, 2.0], &[1.0, 0.0, 0.0], &[2.0, 1.0, 0.0], 1.0, 0.0, 0.5, 1.0, "outside-refused");
}

fn replay(g: &mut Gen, v: &Value) {
    let inp = if v.get("input").is_some() { &v["input"] } else { v };
    let f = |k: &str| f64_vec(&inp[k]);
    let h = |k: &str| inp[k].as_f64().unwrap();
    let m = |k: &str| -> Mat { inp[k].as_array().unwrap().iter().map(|r| f64_vec(r)).collect() };
    if inp.get("seq").is_some() {
        match inp["cone"].as_str().unwrap_or("soc") {
            "nn" => seq_nn(g, &f("s1"), &f("z1"), &f("s2"), &f("z2"), &f("x")),
            "psd" => seq_psd(g, &m("S1"), &m("Z1"), &m("S2"), &m("Z2"), &m("X")),
            _ => seq_soc(g, &f("s1"), &f("z1"), &f("s2"), &f("z2"), &f("x")),
        }
        return;
    }
    match inp["cone"].as_str().unwrap_or("soc") {
        "psd" => psd_case(g, &m("S"), &m("Z"), &m("X"), &m("Y"), "replay"),
        "nn" => nn_case(g, &f("s"), &f("z"), &f("x"), &f("y"), h("a"), h("b"), h("sigmamu"), "replay"),
        _ => soc_case(g, &f("s"), &f("z"), &f("x"), &f("y"), h("a"), h("b"), h("sigmamu"), inp.get("dist").and_then(|d| d.as_f64()).unwrap_or(1.0), "replay"),
    }
}

fn main() {
    let args: Vec<String> = std::env::args().collect();
    let mut out = String::from("/dev/stdout");
    let mut seed: u64 = 1;
    let mut tier = String::from("quick");
    let mut replay_file: Option<String> = None;
    let mut i = 1;
    while i < args.len() {
        match args[i].as_str() {
            "--out" => { out = args[i + 1].clone(); i += 1; }
            "--seed" => { seed = args[i + 1].parse().unwrap_or(1); i += 1; }
            "--tier" => { tier = args[i + 1].clone(); i += 1; }
            "--replay" => { replay_file = Some(args[i + 1].clone()); i += 1; }
            _ => {}
        }
        i += 1;
    }
    if std::env::var("VERIF_SHOW_PANIC").is_err() { silence_panics(); }
    let mut g = Gen { sink: CaseSink::new(&out), rng: Rng::new(seed), stats: Default::default() };
    if let Some(p) = replay_file {
        let txt = std::fs::read_to_string(&p).expect("cannot read replay file");
        let v: Value = serde_json::from_str(&txt).expect("replay file is not JSON");
        let cases = match v.get("cases") { Some(Value::Array(a)) => a.clone(), _ => vec![v] };
        for c in cases.iter() { replay(&mut g, c); }
    } else {
        generate(&mut g, tier == "thorough");
    }
    let st = json!(g.stats);
    g.sink.record(json!({"stats": st}));
    g.sink.record(json!({"meta": {"prop": "c13", "seed": seed, "tier": tier, "blas": blas_shim::AVAILABLE}}));
    g.sink.flush();
}
