//! C08: in-place data updating vs. the Coq model (Update/Model.v, checkers in Update/Check.v).
//!
//! One case = one small conic problem + one history of update / solve operations of every
//! argument form (valid and invalid).  The state of the live solver is printed after
//! construction and the changed fields after every operation; Coq replays the history in
//! the model on exact dyadics and compares (see Update/Check.v).  After the history the
//! updated solver and a freshly constructed solver on the final user data are both solved
//! and compared (status class, objective, exact primal residual, and — equilibration off —
//! bitwise equality of the internal data).
#![allow(non_snake_case)]
#[path = "../blas_shim.rs"]
mod blas_shim;
#[path = "../common.rs"]
mod common;

use clarabel::algebra::*;
use clarabel::solver::*;
use clarabel::verif_hooks::c08 as vh;
use common::*;
use serde_json::{json, Value};
use std::collections::BTreeMap;

// ------------------------------------------------------------------ argument forms
#[derive(Clone, Debug)]
enum MArg {
    Full(Vec<f64>),
    Mat(CscMatrix<f64>),
    Partial(Vec<usize>, Vec<f64>, bool), // bool: pass as zip iterator instead of tuple
    Empty,
}
#[derive(Clone, Debug)]
enum VArg {
    Full(Vec<f64>),
    Partial(Vec<usize>, Vec<f64>, bool),
    Empty,
}
#[derive(Clone, Debug)]
enum Op {
    P(MArg),
    Q(VArg),
    A(MArg),
    B(VArg),
    Data(MArg, VArg, MArg, VArg),
    Solve,
}

// the enum wrappers only dispatch to the library's own implementations
impl MatrixProblemDataUpdate<f64> for MArg {
    fn update_matrix(&self, M: &mut CscMatrix<f64>, l: &[f64], r: &[f64], c: Option<f64>) -> Result<(), SparseFormatError> {
        match self {
            MArg::Full(v) => v.update_matrix(M, l, r, c),
            MArg::Mat(m) => m.update_matrix(M, l, r, c),
            MArg::Partial(i, v, true) => std::iter::zip(i.iter(), v.iter()).update_matrix(M, l, r, c),
            MArg::Partial(i, v, false) => (i.clone(), v.clone()).update_matrix(M, l, r, c),
            MArg::Empty => {
                let e: [f64; 0] = [];
                e.update_matrix(M, l, r, c)
            }
        }
    }
}
impl VectorProblemDataUpdate<f64> for VArg {
    fn update_vector(&self, v: &mut [f64], s: &[f64], c: Option<f64>) -> Result<(), SparseFormatError> {
        match self {
            VArg::Full(d) => d.update_vector(v, s, c),
            VArg::Partial(i, d, true) => std::iter::zip(i.iter(), d.iter()).update_vector(v, s, c),
            VArg::Partial(i, d, false) => (i.clone(), d.clone()).update_vector(v, s, c),
            VArg::Empty => {
                let e: [f64; 0] = [];
                e.update_vector(v, s, c)
            }
        }
    }
}

fn dyl(v: &[f64]) -> String {
    cdylist(v)
}
fn craw(m: &CscMatrix<f64>) -> String {
    format!("(RD {} {} {} {} {})", cn(m.m), cn(m.n), cnlist(&m.colptr), cnlist(&m.rowval), dyl(&m.nzval))
}
impl MArg {
    fn coq(&self) -> String {
        match self {
            MArg::Full(v) if v.is_empty() => "(MFull (@nil dy))".into(),
            MArg::Full(v) => format!("(MFull {})", dyl(v)),
            MArg::Mat(m) => format!("(MMat {})", craw(m)),
            MArg::Partial(i, v, _) => format!("(mpartial {} {})", cnlist(i), if v.is_empty() { "(@nil dy)".into() } else { dyl(v) }),
            MArg::Empty => "(@MEmpty dy)".into(),
        }
    }
    fn kind(&self) -> &'static str {
        match self {
            MArg::Full(v) if v.is_empty() => "emptyvec",
            MArg::Full(_) => "full",
            MArg::Mat(_) => "mat",
            MArg::Partial(..) => "partial",
            MArg::Empty => "empty0",
        }
    }
    fn json(&self) -> Value {
        match self {
            MArg::Full(v) => json!({"full": v}),
            MArg::Mat(m) => json!({"mat": {"m": m.m, "n": m.n, "colptr": m.colptr, "rowval": m.rowval, "nzval": m.nzval}}),
            MArg::Partial(i, v, z) => json!({"partial": {"idx": i, "vals": v, "zip": z}}),
            MArg::Empty => json!("empty"),
        }
    }
    fn whole(&self) -> bool {
        !matches!(self, MArg::Partial(..))
    }
}
impl VArg {
    fn coq(&self) -> String {
        match self {
            VArg::Full(v) if v.is_empty() => "(VFull (@nil dy))".into(),
            VArg::Full(v) => format!("(VFull {})", dyl(v)),
            VArg::Partial(i, v, _) => format!("(vpartial {} {})", cnlist(i), if v.is_empty() { "(@nil dy)".into() } else { dyl(v) }),
            VArg::Empty => "(@VEmpty dy)".into(),
        }
    }
    fn kind(&self) -> &'static str {
        match self {
            VArg::Full(v) if v.is_empty() => "emptyvec",
            VArg::Full(_) => "full",
            VArg::Partial(..) => "partial",
            VArg::Empty => "empty0",
        }
    }
    fn json(&self) -> Value {
        match self {
            VArg::Full(v) => json!({"full": v}),
            VArg::Partial(i, v, z) => json!({"partial": {"idx": i, "vals": v, "zip": z}}),
            VArg::Empty => json!("empty"),
        }
    }
    fn whole(&self) -> bool {
        !matches!(self, VArg::Partial(..))
    }
}
impl Op {
    fn coq(&self) -> String {
        match self {
            Op::P(f) => format!("UpdP {}", f.coq()),
            Op::Q(f) => format!("UpdQ {}", f.coq()),
            Op::A(f) => format!("UpdA {}", f.coq()),
            Op::B(f) => format!("UpdB {}", f.coq()),
            Op::Data(p, q, a, b) => format!("UpdData {} {} {} {}", p.coq(), q.coq(), a.coq(), b.coq()),
            Op::Solve => "@Solve dy".into(),
        }
    }
    fn json(&self) -> Value {
        match self {
            Op::P(f) => json!({"P": f.json()}),
            Op::Q(f) => json!({"q": f.json()}),
            Op::A(f) => json!({"A": f.json()}),
            Op::B(f) => json!({"b": f.json()}),
            Op::Data(p, q, a, b) => json!({"data": [p.json(), q.json(), a.json(), b.json()]}),
            Op::Solve => json!("solve"),
        }
    }
    fn label(&self) -> String {
        match self {
            Op::P(f) => format!("P/{}", f.kind()),
            Op::Q(f) => format!("q/{}", f.kind()),
            Op::A(f) => format!("A/{}", f.kind()),
            Op::B(f) => format!("b/{}", f.kind()),
            Op::Data(..) => "data".into(),
            Op::Solve => "solve".into(),
        }
    }
}

// ------------------------------------------------------------------ problems
#[derive(Clone, Debug)]
enum ConeK {
    Zero(usize),
    NN(usize),
    SOC(usize),
    Exp,
    PSD(usize),
}
struct Problem {
    P: CscMatrix<f64>, // upper triangle
    q: Vec<f64>,
    A: CscMatrix<f64>,
    b: Vec<f64>,
    cones: Vec<ConeK>,
}
fn cones_t(c: &[ConeK]) -> Vec<SupportedConeT<f64>> {
    c.iter()
        .map(|k| match k {
            ConeK::Zero(d) => ZeroConeT(*d),
            ConeK::NN(d) => NonnegativeConeT(*d),
            ConeK::SOC(d) => SecondOrderConeT(*d),
            ConeK::Exp => ExponentialConeT(),
            ConeK::PSD(d) => PSDTriangleConeT(*d),
        })
        .collect()
}
fn cone_dim(k: &ConeK) -> usize {
    match k {
        ConeK::Zero(d) | ConeK::NN(d) | ConeK::SOC(d) => *d,
        ConeK::Exp => 3,
        ConeK::PSD(d) => d * (d + 1) / 2,
    }
}
/// role of every constraint row: how to draw a value of b that keeps x = 0 strictly feasible
#[derive(Clone, Copy, Debug)]
enum Role {
    Zero,
    Pos,      // nonnegative row / PSD diagonal
    SocHead,
    SocTail,
    ExpX,
    ExpY,
    ExpZ,
    PsdOff,
}
fn roles(c: &[ConeK]) -> Vec<Role> {
    let mut r = vec![];
    for k in c {
        match k {
            ConeK::Zero(d) => r.extend(std::iter::repeat(Role::Zero).take(*d)),
            ConeK::NN(d) => r.extend(std::iter::repeat(Role::Pos).take(*d)),
            ConeK::SOC(d) => {
                r.push(Role::SocHead);
                r.extend(std::iter::repeat(Role::SocTail).take(*d - 1));
            }
            ConeK::Exp => r.extend([Role::ExpX, Role::ExpY, Role::ExpZ]),
            ConeK::PSD(d) => {
                for j in 0..*d {
                    for i in 0..=j {
                        r.push(if i == j { Role::Pos } else { Role::PsdOff });
                    }
                }
            }
        }
    }
    r
}
const VALS: [f64; 12] = [-3.0, -2.0, -1.5, -1.0, -0.5, -0.25, 0.25, 0.5, 1.0, 1.5, 2.0, 3.0];
fn val(r: &mut Rng) -> f64 {
    *r.pick(&VALS)
}
fn bval(r: &mut Rng, role: Role) -> f64 {
    match role {
        Role::Zero => if r.chance(1, 12) { val(r) } else { 0.0 },
        Role::Pos => *r.pick(&[0.5, 1.0, 2.0, 4.0]),
        Role::SocHead => *r.pick(&[4.0, 8.0]),
        Role::SocTail => *r.pick(&[-1.0, -0.5, 0.0, 0.5, 1.0]),
        Role::ExpX => *r.pick(&[-1.0, 0.0, 0.5]),
        Role::ExpY => *r.pick(&[1.0, 2.0]),
        Role::ExpZ => *r.pick(&[8.0, 16.0]),
        Role::PsdOff => *r.pick(&[-0.25, 0.0, 0.25]),
    }
}
fn pdiag(r: &mut Rng) -> f64 {
    *r.pick(&[4.0, 8.0, 16.0])
}
fn poff(r: &mut Rng) -> f64 {
    *r.pick(&[-0.5, -0.25, 0.25, 0.5])
}
/// value for entry k of the (triu) P pattern
fn pval(r: &mut Rng, P: &CscMatrix<f64>, k: usize) -> f64 {
    let col = P.colptr.iter().filter(|&&c| c <= k).count() - 1;
    if P.rowval[k] == col { pdiag(r) } else { poff(r) }
}

fn gen_problem(r: &mut Rng, rich: bool) -> Problem {
    let n = 1 + r.below(5);
    // cones
    let mut cones = vec![];
    let mut m = 0;
    let ncones = 1 + r.below(3);
    for _ in 0..ncones {
        let k = match r.below(if rich { 12 } else { 9 }) {
            0 | 1 => ConeK::Zero(1 + r.below(2)),
            2..=5 => ConeK::NN(1 + r.below(3)),
            6..=8 => ConeK::SOC(3 + r.below(2)),
            9 | 10 => ConeK::Exp,
            _ => ConeK::PSD(2),
        };
        if m + cone_dim(&k) > 8 { continue; }
        m += cone_dim(&k);
        cones.push(k);
    }
    if cones.is_empty() {
        cones.push(ConeK::NN(2));
        m = 2;
    }
    // P : upper triangle.  mode 0: empty (LP); 1: full diagonal + some off-diagonal; 2: partial diagonal
    let mode = r.below(4);
    let mut diag = vec![false; n];
    for d in diag.iter_mut() {
        *d = match mode { 0 => false, 1 | 3 => true, _ => r.chance(1, 2) };
    }
    let (mut colptr, mut rowval, mut nzval) = (vec![0usize], vec![], vec![]);
    for j in 0..n {
        for i in 0..=j {
            if i == j {
                if diag[j] { rowval.push(i); nzval.push(pdiag(r)); }
            } else if diag[i] && diag[j] && r.chance(1, 3) {
                rowval.push(i);
                nzval.push(poff(r));
            }
        }
        colptr.push(rowval.len());
    }
    let P = CscMatrix { m: n, n, colptr, rowval, nzval };
    // A : random sparse, every row gets an entry with probability 3/4
    let (mut colptr, mut rowval, mut nzval) = (vec![0usize], vec![], vec![]);
    let dens = 2 + r.below(3);
    for _j in 0..n {
        for i in 0..m {
            if r.chance(dens, 6) { rowval.push(i); nzval.push(val(r)); }
        }
        colptr.push(rowval.len());
    }
    let A = CscMatrix { m, n, colptr, rowval, nzval };
    let q: Vec<f64> = (0..n).map(|_| if r.chance(1, 8) { 0.0 } else { val(r) }).collect();
    let ro = roles(&cones);
    let b: Vec<f64> = ro.iter().map(|x| bval(r, *x)).collect();
    Problem { P, q, A, b, cones }
}

// ------------------------------------------------------------------ snapshots
#[derive(Clone, PartialEq)]
struct Snap {
    P: Vec<u64>,
    q: Vec<u64>,
    A: Vec<u64>,
    b: Vec<u64>,
    kkt: Vec<u64>, // at mapP ++ mapA
}
fn bits(v: &[f64]) -> Vec<u64> {
    v.iter().map(|x| x.to_bits()).collect()
}
fn unbits(v: &[u64]) -> Vec<f64> {
    v.iter().map(|x| f64::from_bits(*x)).collect()
}
struct Frame {
    Pcp: Vec<usize>,
    Prv: Vec<usize>,
    Acp: Vec<usize>,
    Arv: Vec<usize>,
    d: Vec<u64>,
    dinv: Vec<u64>,
    e: Vec<u64>,
    einv: Vec<u64>,
    c: u64,
    mapP: Vec<usize>,
    mapA: Vec<usize>,
}
fn frame(s: &DefaultSolver<f64>) -> Frame {
    let (mapP, mapA) = vh::kkt_maps(s);
    let eq = &s.data.equilibration;
    Frame {
        Pcp: s.data.P.colptr.clone(), Prv: s.data.P.rowval.clone(),
        Acp: s.data.A.colptr.clone(), Arv: s.data.A.rowval.clone(),
        d: bits(&eq.d), dinv: bits(&eq.dinv), e: bits(&eq.e), einv: bits(&eq.einv), c: eq.c.to_bits(),
        mapP, mapA,
    }
}
fn frame_same(a: &Frame, b: &Frame) -> bool {
    a.Pcp == b.Pcp && a.Prv == b.Prv && a.Acp == b.Acp && a.Arv == b.Arv && a.d == b.d && a.dinv == b.dinv
        && a.e == b.e && a.einv == b.einv && a.c == b.c && a.mapP == b.mapP && a.mapA == b.mapA
}
fn snap(s: &DefaultSolver<f64>, fr: &Frame) -> Snap {
    let k = vh::kkt_nzval(s);
    let mut kk = vec![];
    for &i in fr.mapP.iter().chain(fr.mapA.iter()) {
        kk.push(k[i]);
    }
    Snap { P: bits(&s.data.P.nzval), q: bits(&s.data.q), A: bits(&s.data.A.nzval), b: bits(&s.data.b), kkt: bits(&kk) }
}
fn copt(v: Option<f64>) -> String {
    match v { Some(x) => format!("(Some {})", cdy(x)), None => "None".into() }
}
fn cchg(new: &[u64], old: &[u64]) -> String {
    if new == old { "None".into() } else { format!("(Some {})", dyl(&unbits(new))) }
}
fn all_finite(v: &[f64]) -> bool {
    v.iter().all(|x| x.is_finite())
}

/// does the LDL backend's own copy agree with KKT.nzval?  A-entries and off-diagonal
/// P-entries always; diagonal P-entries when `with_diag` (the backend's diagonal carries the
/// static regularisation after a solve and is rewritten from KKT before every factorisation).
fn backend_sync(s: &DefaultSolver<f64>, fr: &Frame, with_diag: bool) -> Option<bool> {
    let k = vh::kkt_nzval(s);
    let mut idx: Vec<usize> = fr.mapA.clone();
    let P = &s.data.P;
    for (kk, &ki) in fr.mapP.iter().enumerate() {
        let col = P.colptr.iter().filter(|&&c| c <= kk).count() - 1;
        if with_diag || P.rowval[kk] != col { idx.push(ki); }
    }
    let vals = vh::backend_values(s, &idx)?;
    Some(idx.iter().zip(vals.iter()).all(|(&i, v)| k[i].to_bits() == v.to_bits()))
}

// ------------------------------------------------------------------ user-side bookkeeping
/// the update as the user sees it, on the user's copy of the values; returns (accepted, touched)
fn user_m(u: &mut Vec<f64>, pat: &CscMatrix<f64>, f: &MArg) -> (bool, bool) {
    match f {
        MArg::Empty => (true, false),
        MArg::Full(v) => {
            if v.is_empty() { (true, false) } else if v.len() != u.len() { (false, false) } else { *u = v.clone(); (true, true) }
        }
        MArg::Mat(m) => {
            if m.m != pat.m || m.n != pat.n || m.colptr != pat.colptr || m.rowval != pat.rowval { return (false, false); }
            if m.nzval.is_empty() { (true, false) } else if m.nzval.len() != u.len() { (false, false) } else { *u = m.nzval.clone(); (true, true) }
        }
        MArg::Partial(i, v, _) => {
            let mut touched = false;
            for (&k, &x) in i.iter().zip(v.iter()) {
                if k >= u.len() { return (false, touched); }
                u[k] = x;
                touched = true;
            }
            (true, touched)
        }
    }
}
fn user_v(u: &mut Vec<f64>, f: &VArg) -> (bool, bool) {
    match f {
        VArg::Empty => (true, false),
        VArg::Full(v) => {
            if v.is_empty() { (true, false) } else if v.len() != u.len() { (false, false) } else { *u = v.clone(); (true, true) }
        }
        VArg::Partial(i, v, _) => {
            let mut touched = false;
            for (&k, &x) in i.iter().zip(v.iter()) {
                if k >= u.len() { return (false, touched); }
                u[k] = x;
                touched = true;
            }
            (true, touched)
        }
    }
}

// ------------------------------------------------------------------ op generation
fn gen_marg(r: &mut Rng, pat: &CscMatrix<f64>, isP: bool, invalid: bool) -> MArg {
    let nnz = pat.nzval.len();
    let newval = |r: &mut Rng, k: usize| if isP { pval(r, pat, k) } else { val(r) };
    if !invalid {
        match r.below(10) {
            0 => MArg::Empty,
            1 => MArg::Full(vec![]),
            2..=4 => MArg::Full((0..nnz).map(|k| newval(r, k)).collect()),
            5 | 6 => {
                let mut m = pat.clone();
                for k in 0..nnz { m.nzval[k] = newval(r, k); }
                MArg::Mat(m)
            }
            _ => {
                // partial: random positions (duplicates allowed), sometimes unequal lengths, sometimes empty
                let cnt = if nnz == 0 { 0 } else { r.below(nnz.min(4) + 1) };
                let idx: Vec<usize> = (0..cnt).map(|_| r.below(nnz)).collect();
                let mut vals: Vec<f64> = idx.iter().map(|&k| newval(r, k)).collect();
                let mut idx = idx;
                if cnt > 0 && r.chance(1, 6) {
                    if r.chance(1, 2) { vals.push(val(r)); } else { idx.push(r.below(nnz)); }
                }
                MArg::Partial(idx, vals, r.chance(1, 2))
            }
        }
    } else {
        match r.below(9) {
            0 => MArg::Full((0..nnz + 1).map(|_| val(r)).collect()),
            1 => if nnz >= 2 { MArg::Full((0..nnz - 1).map(|_| val(r)).collect()) } else { MArg::Full((0..nnz + 2).map(|_| val(r)).collect()) },
            2 => {
                // wrong dimensions
                let mut m = pat.clone();
                if r.chance(1, 2) { m.m += 1; } else { m.n += 1; m.colptr.push(*m.colptr.last().unwrap()); }
                MArg::Mat(m)
            }
            3 | 4 => {
                // same dimensions and nnz, different pattern (rowval or colptr)
                let mut m = pat.clone();
                for k in 0..nnz { m.nzval[k] = val(r); }
                let mut changed = false;
                if nnz > 0 && r.chance(1, 2) {
                    let k = r.below(nnz);
                    let old = m.rowval[k];
                    m.rowval[k] = if old + 1 < m.m.max(1) { old + 1 } else if old > 0 { old - 1 } else { old };
                    changed = m.rowval[k] != old;
                }
                if !changed && m.n >= 1 {
                    // move one entry across a column boundary
                    for j in 1..m.n {
                        if m.colptr[j] > m.colptr[j - 1] { m.colptr[j] -= 1; changed = true; break; }
                        if m.colptr[j] < m.colptr[j + 1] { m.colptr[j] += 1; changed = true; break; }
                    }
                }
                if !changed {
                    // fall back: one more stored entry in the last column
                    m.rowval.push(0);
                    m.nzval.push(1.0);
                    *m.colptr.last_mut().unwrap() += 1;
                }
                MArg::Mat(m)
            }
            5 => {
                // same pattern, value vector of the wrong length (public fields)
                let mut m = pat.clone();
                m.nzval.push(1.0);
                MArg::Mat(m)
            }
            _ => {
                // partial with an out-of-range index at a random position
                let cnt = 1 + r.below(3);
                let bad = r.below(cnt);
                let mut idx = vec![];
                let mut vals = vec![];
                for t in 0..cnt {
                    if t == bad || nnz == 0 { idx.push(nnz + r.below(3)); vals.push(val(r)); }
                    else { let k = r.below(nnz); idx.push(k); vals.push(newval(r, k)); }
                }
                MArg::Partial(idx, vals, r.chance(1, 2))
            }
        }
    }
}
fn gen_varg(r: &mut Rng, len: usize, gen: &mut dyn FnMut(&mut Rng, usize) -> f64, invalid: bool) -> VArg {
    if !invalid {
        match r.below(8) {
            0 => VArg::Empty,
            1 => VArg::Full(vec![]),
            2..=4 => VArg::Full((0..len).map(|k| gen(r, k)).collect()),
            _ => {
                let cnt = r.below(len.min(4) + 1);
                let mut idx: Vec<usize> = (0..cnt).map(|_| r.below(len)).collect();
                let mut vals: Vec<f64> = idx.iter().map(|&k| gen(r, k)).collect();
                if cnt > 0 && r.chance(1, 6) {
                    if r.chance(1, 2) { vals.push(val(r)); } else { idx.push(r.below(len)); }
                }
                VArg::Partial(idx, vals, r.chance(1, 2))
            }
        }
    } else {
        match r.below(4) {
            0 => VArg::Full((0..len + 1).map(|_| val(r)).collect()),
            1 => if len >= 2 { VArg::Full((0..len - 1).map(|_| val(r)).collect()) } else { VArg::Full((0..len + 2).map(|_| val(r)).collect()) },
            _ => {
                let cnt = 1 + r.below(3);
                let bad = r.below(cnt);
                let mut idx = vec![];
                let mut vals = vec![];
                for t in 0..cnt {
                    if t == bad { idx.push(len + r.below(3)); vals.push(val(r)); }
                    else { let k = r.below(len); idx.push(k); vals.push(gen(r, k)); }
                }
                VArg::Partial(idx, vals, r.chance(1, 2))
            }
        }
    }
}


// ------------------------------------------------------------------ traced solves, twins
use clarabel::verif_hooks::trace as tr;
/// the raw iterates (x, s, z, tau, kappa) seen by `DefaultInfo::update`, one per iteration,
/// as bit patterns
fn solve_traced(s: &mut DefaultSolver<f64>) -> Option<Vec<Vec<u64>>> {
    tr::start();
    let ok = guarded(|| s.solve()).is_some();
    let ev = tr::take();
    if !ok { return None; }
    Some(ev.into_iter().filter_map(|e| match e {
        tr::Event::Vars { x, s, z, tau, kappa } => {
            let mut v = bits(&x); v.extend(bits(&s)); v.extend(bits(&z)); v.push(tau.to_bits()); v.push(kappa.to_bits()); Some(v)
        }
        _ => None,
    }).collect())
}
fn apply_update_only(s: &mut DefaultSolver<f64>, op: &Op) -> Option<usize> {
    if matches!(op, Op::Solve) { return Some(9); }
    apply(s, op)
}
/// Coq conjuncts about the start of a solve and its trajectory against a twin (same
/// constructor data, same update operations, never solved before)
fn twin_parts(traj_u: &[Vec<u64>], traj_t: &[Vec<u64>], it_u: u32, it_t: u32) -> Vec<String> {
    let mut parts = vec![];
    let same = traj_u == traj_t;
    parts.push(format!("c08_traj {} {} {}", same, cn(it_u as usize), cn(it_t as usize)));
    if let (Some(a), Some(b)) = (traj_u.first(), traj_t.first()) {
        let (fa, fb) = (unbits(a), unbits(b));
        if all_finite(&fa) && all_finite(&fb) {
            parts.push(format!("c08_same {} {}", dyl(&fa), dyl(&fb)));
            let n = fa.len();
            parts.push(format!("c08_start {} {}", cdy(fa[n - 2]), cdy(fa[n - 1])));
        } else if a != b {
            parts.push("1%N".into());
        }
    }
    parts
}

fn res_code(r: &Result<(), DataUpdateError>) -> usize {
    match r {
        Ok(()) => 0,
        Err(DataUpdateError::PresolveIsActive) => 1,
        Err(DataUpdateError::ChordalDecompositionIsActive) => 2,
        Err(DataUpdateError::BadFormat(SparseFormatError::IncompatibleDimension)) => 3,
        Err(DataUpdateError::BadFormat(SparseFormatError::SparsityMismatch)) => 4,
        Err(_) => 5,
    }
}
fn status_class(s: SolverStatus) -> (usize, bool) {
    match s {
        SolverStatus::Solved => (1, true),
        SolverStatus::AlmostSolved => (1, false),
        SolverStatus::PrimalInfeasible => (2, true),
        SolverStatus::AlmostPrimalInfeasible => (2, false),
        SolverStatus::DualInfeasible => (3, true),
        SolverStatus::AlmostDualInfeasible => (3, false),
        _ => (0, false),
    }
}

struct Stats {
    m: BTreeMap<String, usize>,
}
impl Stats {
    fn hit(&mut self, k: &str) {
        *self.m.entry(k.to_string()).or_insert(0) += 1;
    }
}

fn settings(eq: bool, method: &str) -> DefaultSettings<f64> {
    let mut st = DefaultSettings::default();
    st.verbose = false;
    st.presolve_enable = false;
    st.chordal_decomposition_enable = false;
    st.equilibrate_enable = eq;
    st.direct_solve_method = method.to_string();
    st
}

fn cstate(s: &DefaultSolver<f64>, fr: &Frame) -> String {
    let (nq, nb) = vh::norm_caches(s);
    let (pres, dec) = vh::structure_flags(s);
    let eq = &s.data.equilibration;
    format!(
        "(ST {} {} {} {} {} {} {} {} {} {} {} {} {} {} {} {})",
        craw(&s.data.P), dyl(&s.data.q), craw(&s.data.A), dyl(&s.data.b),
        dyl(&eq.d), dyl(&eq.dinv), dyl(&eq.e), dyl(&eq.einv), cdy(eq.c),
        copt(nq), copt(nb), dyl(&vh::kkt_nzval(s)), cnlist(&fr.mapP), cnlist(&fr.mapA), pres, dec
    )
}

/// Applies one operation to the live solver; None = the library panicked.
fn apply(s: &mut DefaultSolver<f64>, op: &Op) -> Option<usize> {
    guarded(|| match op {
        Op::P(f) => res_code(&s.update_P(f)),
        Op::Q(f) => res_code(&s.update_q(f)),
        Op::A(f) => res_code(&s.update_A(f)),
        Op::B(f) => res_code(&s.update_b(f)),
        Op::Data(p, q, a, b) => res_code(&s.update_data(p, q, a, b)),
        Op::Solve => {
            s.solve();
            9
        }
    })
}

struct Special {
    presolve: bool,
    chordal: bool,
}

/// one complete case
fn run_case(sink: &mut CaseSink, stats: &mut Stats, case_seed: u64, special: Option<Special>) {
    let mut r = Rng::new(case_seed);
    let eq = r.chance(3, 5);
    let method = match r.below(8) { 0 => "auto", 1 => "faer", _ => "qdldl" };
    let rich = blas_shim::AVAILABLE && r.chance(1, 3);
    let mut st = settings(eq, method);
    let mut prob = gen_problem(&mut r, rich);
    let mut stream = if eq { "equil" } else { "exact" }.to_string();
    if let Some(sp) = &special {
        if sp.presolve {
            // a nonnegative row with a huge bound: the presolver removes it
            prob.cones = vec![ConeK::NN(prob.A.m)];
            prob.b = (0..prob.A.m).map(|_| *r.pick(&[1.0, 2.0])).collect();
            let k = r.below(prob.A.m);
            prob.b[k] = 1e30;
            st.presolve_enable = true;
            stream = "presolve".into();
        }
        if sp.chordal {
            // 4x4 PSD cone with a tridiagonal aggregate pattern: decomposes into 3 cliques
            let n = 3;
            prob.P = CscMatrix { m: n, n, colptr: vec![0; n + 1], rowval: vec![], nzval: vec![] };
            prob.q = vec![1.0, -1.0, 0.5];
            prob.A = CscMatrix { m: 10, n, colptr: vec![0, 1, 2, 3], rowval: vec![1, 4, 8], nzval: vec![1.0, 1.0, 1.0] };
            prob.b = vec![4.0, 0.0, 4.0, 0.0, 0.0, 4.0, 0.0, 0.0, 0.0, 4.0];
            prob.cones = vec![ConeK::PSD(4)];
            st.chordal_decomposition_enable = true;
            stream = "chordal".into();
        }
    }
    let cones = cones_t(&prob.cones);
    let exact = !st.equilibrate_enable;
    let input0 = json!({
        "case_seed": case_seed, "stream": stream, "equilibrate": st.equilibrate_enable, "method": method,
        "P": {"m": prob.P.m, "n": prob.P.n, "colptr": prob.P.colptr, "rowval": prob.P.rowval, "nzval": prob.P.nzval},
        "q": prob.q,
        "A": {"m": prob.A.m, "n": prob.A.n, "colptr": prob.A.colptr, "rowval": prob.A.rowval, "nzval": prob.A.nzval},
        "b": prob.b, "cones": format!("{:?}", prob.cones),
    });
    let solver = guarded(|| DefaultSolver::new(&prob.P, &prob.q, &prob.A, &prob.b, &cones, st.clone()));
    let mut solver = match solver {
        Some(s) => s,
        None => {
            stats.hit("constructor-panicked");
            return;
        }
    };
    stats.hit(&format!("stream/{}", stream));
    stats.hit(&format!("method/{}", method));
    for k in &prob.cones {
        stats.hit(&format!("cone/{}", match k { ConeK::Zero(_) => "zero", ConeK::NN(_) => "nn", ConeK::SOC(_) => "soc", ConeK::Exp => "exp", ConeK::PSD(_) => "psd" }));
    }
    let (pres, dec) = vh::structure_flags(&solver);
    let updatable = !pres && !dec;
    if special.is_some() && updatable {
        stats.hit("special-case-not-reduced");
    }
    let fr0 = frame(&solver);
    let init = cstate(&solver, &fr0);
    let mut last = snap(&solver, &fr0);
    // user-side copies (values in the pattern of the internal matrices)
    let patP = solver.data.P.clone();
    let patA = solver.data.A.clone();
    let mut uP = if updatable { prob.P.nzval.clone() } else { solver.data.P.nzval.clone() };
    let mut uq = prob.q.clone();
    let mut uA = if updatable { prob.A.nzval.clone() } else { solver.data.A.nzval.clone() };
    let mut ub = prob.b.clone();
    let ro = roles(&prob.cones);
    let (mut staleP, mut staleA, mut staleq, mut staleb) = (false, false, false, false);
    let mut solved_since_P = false; // has a solve happened after the last rewrite of the backend's P diagonal?

    let hlen = 1 + r.below(12);
    let inv_rate = if special.is_some() { 2 } else { 4 + r.below(4) };
    let mut hist: Vec<String> = vec![];
    let mut ops_json: Vec<Value> = vec![];
    let mut ops_done: Vec<Op> = vec![];
    let mut aborted = false;
    let mut findings: Vec<Value> = vec![];
    for step in 0..hlen {
        let invalid = r.chance(1, inv_rate);
        let n = uq.len();
        let m = ub.len();
        let mut genq = |r: &mut Rng, _k: usize| val(r);
        let ro2 = ro.clone();
        let mut genb = move |r: &mut Rng, k: usize| if k < ro2.len() { bval(r, ro2[k]) } else { val(r) };
        let op = match r.below(16) {
            0..=2 => Op::P(gen_marg(&mut r, &patP, true, invalid)),
            3..=5 => Op::Q(gen_varg(&mut r, n, &mut genq, invalid)),
            6..=8 => Op::A(gen_marg(&mut r, &patA, false, invalid)),
            9..=11 => Op::B(gen_varg(&mut r, m, &mut genb, invalid)),
            12 | 13 => {
                // update_data: each component valid with probability 5/6 when `invalid`
                let iv = |r: &mut Rng| invalid && r.chance(1, 3);
                let (i1, i2, i3, i4) = (iv(&mut r), iv(&mut r), iv(&mut r), iv(&mut r));
                if invalid && r.chance(1, 3) {
                    // whole-form arguments only; a later component is the invalid one
                    let nnzP = patP.nzval.len();
                    let nnzA = patA.nzval.len();
                    let fp = MArg::Full((0..nnzP).map(|k| pval(&mut r, &patP, k)).collect());
                    let fq_ok = VArg::Full((0..n).map(|_| val(&mut r)).collect());
                    let fq_bad = VArg::Full((0..n + 1).map(|_| val(&mut r)).collect());
                    let fa_bad = MArg::Full((0..nnzA + 1).map(|_| val(&mut r)).collect());
                    let fb = VArg::Full(vec![]);
                    if r.chance(1, 2) { Op::Data(fp, fq_bad, MArg::Empty, fb) } else { Op::Data(fp, fq_ok, fa_bad, fb) }
                } else {
                Op::Data(gen_marg(&mut r, &patP, true, i1), gen_varg(&mut r, n, &mut genq, i2),
                         gen_marg(&mut r, &patA, false, i3), gen_varg(&mut r, m, &mut genb, i4))
                }
            }
            _ => Op::Solve,
        };
        let code = apply(&mut solver, &op);
        let code = match code {
            Some(c) => c,
            None => {
                // a panic inside the library: the model never panics on these inputs
                hist.push(format!("({}, mkObs 77%N None None None None None None None false)", op.coq()));
                ops_json.push(op.json());
                stats.hit("panic-in-op");
                aborted = true;
                break;
            }
        };
        stats.hit(&format!("op/{}/{}", op.label(), code));
        // user-side bookkeeping + staleness flags (F11: a rejected partial update leaves a prefix
        // applied; for P/A the KKT copy and for q/b the norm cache are then out of date until the
        // next accepted update of the same item)
        if updatable {
            let mut comp_m = |which: u8, f: &MArg, uP: &mut Vec<f64>, uA: &mut Vec<f64>| -> bool {
                let (ok, touched) = if which == 0 { user_m(uP, &patP, f) } else { user_m(uA, &patA, f) };
                let st = if which == 0 { &mut staleP } else { &mut staleA };
                if ok { *st = false; } else if touched { *st = true; }
                ok
            };
            let mut comp_v = |which: u8, f: &VArg, uq: &mut Vec<f64>, ub: &mut Vec<f64>| -> bool {
                let (ok, touched) = if which == 0 { user_v(uq, f) } else { user_v(ub, f) };
                let st = if which == 0 { &mut staleq } else { &mut staleb };
                if ok { *st = false; } else if touched { *st = true; }
                ok
            };
            match &op {
                Op::P(f) => { if comp_m(0, f, &mut uP, &mut uA) { solved_since_P = false; } }
                Op::A(f) => { comp_m(1, f, &mut uP, &mut uA); }
                Op::Q(f) => { comp_v(0, f, &mut uq, &mut ub); }
                Op::B(f) => { comp_v(1, f, &mut uq, &mut ub); }
                Op::Data(p, q, a, b) => {
                    if comp_m(0, p, &mut uP, &mut uA) {
                        solved_since_P = false;
                        if comp_v(0, q, &mut uq, &mut ub) && comp_m(1, a, &mut uP, &mut uA) {
                            comp_v(1, b, &mut uq, &mut ub);
                        }
                    }
                }
                Op::Solve => { solved_since_P = true; }
            }
        } else if matches!(op, Op::Solve) {
            solved_since_P = true;
        }
        let fr = frame(&solver);
        let now = snap(&solver, &fr0);
        let (nq, nb) = vh::norm_caches(&solver);
        let bsync = backend_sync(&solver, &fr0, !solved_since_P);
        match bsync { Some(true) => stats.hit("backend-sync-checked"), Some(false) => stats.hit("backend-sync-FAILED"), None => stats.hit("backend-not-readable") };
        let sync = frame_same(&fr, &fr0) && bsync.unwrap_or(true);
        if !(all_finite(&solver.data.P.nzval) && all_finite(&solver.data.q) && all_finite(&solver.data.A.nzval) && all_finite(&solver.data.b)) {
            stats.hit("nonfinite-data");
        }
        // update_data with whole forms only, rejected, yet some data changed
        if let Op::Data(p, q, a, b) = &op {
            if code != 0 && p.whole() && q.whole() && a.whole() && b.whole() && now != last {
                findings.push(json!({"finding": "update_data-not-atomic", "case_seed": case_seed, "step": step, "op": op.json(), "result_code": code}));
            }
        }
        if code != 0 && code != 9 {
            let partial_prefix = match &op {
                Op::P(f) | Op::A(f) => !f.whole() && now != last,
                Op::Q(f) | Op::B(f) => !f.whole() && now != last,
                _ => false,
            };
            if partial_prefix { stats.hit("F11-rejected-partial-left-prefix"); }
        }
        hist.push(format!(
            "({}, mkObs {} {} {} {} {} {} {} {} {})",
            op.coq(), cn(code), cchg(&now.P, &last.P), cchg(&now.q, &last.q), cchg(&now.A, &last.A),
            cchg(&now.b, &last.b), cchg(&now.kkt, &last.kkt), copt(nq), copt(nb), sync
        ));
        ops_json.push(op.json());
        ops_done.push(op.clone());
        last = now;
    }
    let mut input = input0.clone();
    input["ops"] = Value::Array(ops_json);
    let tol = -48;
    let coq = format!("c08_history2 {} ({})%Z {} [{}]", exact, tol, init, hist.join(";\n "));
    sink.case("history", input.clone(), coq, &[&stream]);
    for f in findings { sink.record(f); }
    stats.hit(&format!("histlen/{}", hlen));
    if aborted || !updatable {
        if !updatable { stats.hit("not-updatable-case"); }
        return;
    }
    // ---------------- final comparison: updated solver vs fresh solver on the final user data
    if staleP || staleA || staleq || staleb {
        stats.hit("final-skipped-after-rejected-partial(F11)");
        return;
    }
    if ub.iter().any(|x| *x >= 1e20) {
        stats.hit("final-skipped-b-above-infinity-bound");
        return;
    }
    let traj_u = match solve_traced(&mut solver) {
        Some(t) => t,
        None => {
            stats.hit("final-solve-panicked");
            sink.case("final", input.clone(), "1%N".into(), &[&stream, "panic"]);
            return;
        }
    };
    // twin: same constructor data, same update operations, no earlier solve
    let twin = guarded(|| {
        let mut t = DefaultSolver::new(&prob.P, &prob.q, &prob.A, &prob.b, &cones, st.clone());
        for o in ops_done.iter() { apply_update_only(&mut t, o); }
        let tj = solve_traced(&mut t);
        (t, tj)
    });
    let mut twin_conj: Vec<String> = vec![];
    match twin {
        Some((t, Some(traj_t))) => {
            twin_conj = twin_parts(&traj_u, &traj_t, solver.solution.iterations, t.solution.iterations);
            stats.hit(if traj_u == traj_t { "twin-trajectory-bitwise-equal" } else { "twin-trajectory-DIFFERS" });
            if solver.solution.status != t.solution.status { stats.hit("twin-status-differs"); }
        }
        _ => stats.hit("twin-failed"),
    }
    let Pu = CscMatrix { m: patP.m, n: patP.n, colptr: patP.colptr.clone(), rowval: patP.rowval.clone(), nzval: uP.clone() };
    let Au = CscMatrix { m: patA.m, n: patA.n, colptr: patA.colptr.clone(), rowval: patA.rowval.clone(), nzval: uA.clone() };
    let fresh = guarded(|| {
        let mut f = DefaultSolver::new(&Pu, &uq, &Au, &ub, &cones, st.clone());
        f.solve();
        f
    });
    let fresh = match fresh {
        Some(f) => f,
        None => {
            stats.hit("fresh-solver-panicked");
            return;
        }
    };
    let (c1, full1) = status_class(solver.solution.status);
    let (c2, full2) = status_class(fresh.solution.status);
    stats.hit(&format!("final/{:?}~{:?}", solver.solution.status, fresh.solution.status));
    let full = full1 && full2;
    // tolerance: termination gap tolerances of the settings (reduced ones if either verdict is "Almost")
    let eps = if full { st.tol_gap_abs.max(st.tol_gap_rel).max(st.tol_feas) } else { st.reduced_tol_gap_abs.max(st.reduced_tol_gap_rel).max(st.reduced_tol_feas) };
    let (o1, o2) = (solver.solution.obj_val, fresh.solution.obj_val);
    let mut parts: Vec<String> = twin_conj.clone();
    // well-posed by construction: strictly convex (full positive diagonal, diagonally dominant P)
    // and x = 0 strictly feasible (b interior to the cone, equality rows 0): the verdict class
    // is then determined (solved) and independent of the scaling.  For the other instances
    // (LPs that may be unbounded / degenerate) the verdict of the solver itself depends on the
    // equilibration, so a class mismatch there says nothing about data updating: it is counted,
    // and objectives are still compared whenever both runs report a solution.
    let full_diag = (0..patP.n).all(|j| (patP.colptr[j]..patP.colptr[j + 1]).any(|k| patP.rowval[k] == j));
    let wellposed = full_diag && ro.iter().zip(ub.iter()).all(|(role, v)| !matches!(role, Role::Zero) || *v == 0.0);
    stats.hit(if wellposed { "final-wellposed" } else { "final-not-wellposed" });
    if !wellposed && c1 != c2 {
        stats.hit("final-class-mismatch-on-illposed-instance(info)");
    } else if wellposed && c1 != 0 && c2 != 0 && !(c1 == 1 && c2 == 1) {
        parts.push("1%N".to_string());
    } else if c1 == 1 && c2 == 1 && !(o1.is_finite() && o2.is_finite()) {
        parts.push("1%N".to_string());
    } else {
        let z = |x: f64| if x.is_finite() { x } else { 0.0 };
        parts.push(format!("c08_final {} {} {} {} {} 50", cn(c1), cn(c2), cdy(z(o1)), cdy(z(o2)), cdy(eps)));
    }
    if c1 == 1 && all_finite(&solver.solution.x) && all_finite(&solver.solution.s) {
        // exact primal residual of the updated solver's answer against the final user data
        let mut rows = vec![vec![0.0f64; Au.n]; Au.m];
        for j in 0..Au.n {
            for k in Au.colptr[j]..Au.colptr[j + 1] {
                rows[Au.rowval[k]][j] = Au.nzval[k];
            }
        }
        let feas = if full1 { st.tol_feas } else { st.reduced_tol_feas };
        parts.push(format!("c08_primal_res {} {} {} {} {}", clist(&rows, |r| dyl(r)), dyl(&solver.solution.x), dyl(&solver.solution.s), dyl(&ub), cdy(feas * 100.0)));
    }
    if exact {
        // equilibration off: both solvers hold the user data itself; must agree bitwise
        let frf = frame(&fresh);
        let sf = snap(&fresh, &frf);
        let su = snap(&solver, &fr0);
        let cat = |s: &Snap| { let mut v = unbits(&s.P); v.extend(unbits(&s.q)); v.extend(unbits(&s.A)); v.extend(unbits(&s.b)); v.extend(unbits(&s.kkt)); v };
        parts.push(format!("c08_same {} {}", dyl(&cat(&su)), dyl(&cat(&sf))));
        stats.hit("final-bitwise-internal-compare");
    }
    input["final"] = json!({"uP": uP, "uq": uq, "uA": uA, "ub": ub,
        "status_updated": format!("{:?}", solver.solution.status), "status_fresh": format!("{:?}", fresh.solution.status),
        "obj_updated": o1, "obj_fresh": o2, "iters": [solver.solution.iterations, fresh.solution.iterations]});
    let coq = format!("maxl [{}]", parts.join(";\n "));
    sink.case("final", input, coq, &[&stream]);
    if c1 == 0 || c2 == 0 { stats.hit("final-inconclusive"); } else { stats.hit("final-compared"); }
}



// ------------------------------------------------------------------ verdict-transition stream
/// One solver object is driven through feasible / primal infeasible / dual infeasible versions
/// of a box problem by accepted updates of b, q and A in every argument form; every solve is
/// compared with (1) a fresh solver on the same user data (class, objective, iteration count)
/// and (2) a twin (same constructor data + the same updates, never solved): bitwise equal
/// trajectory of raw iterates, first iterate with tau = kappa = 1.
///   min 1/2 x'Px + q'x   s.t.  x <= u,  a_j x_j <= -l_j (a_j = -1: lower bound l_j; a_j = 0: none)
///   [+ ||x|| <= 8 as a second-order cone]
/// feasible iff l_j <= u_j wherever a_j = -1; unbounded iff P = 0, no SOC, a_j = 0 and q_j > 0.
#[derive(Clone)]
struct TState { q: Vec<f64>, a: Vec<f64>, l: Vec<f64>, u: Vec<f64> }
fn run_transition(sink: &mut CaseSink, stats: &mut Stats, case_seed: u64) {
    let mut r = Rng::new(case_seed ^ 0x7A55);
    let eq = r.chance(1, 2);
    let method = match r.below(6) { 0 => "auto", 1 => "faer", _ => "qdldl" };
    let st = settings(eq, method);
    let n = 2 + r.below(3);
    let soc = r.chance(1, 3);
    let qp = r.chance(1, 3);
    let can_di = !soc && !qp;
    let per_col = if soc { 3 } else { 2 };
    let m = 2 * n + if soc { n + 1 } else { 0 };
    let P = if qp {
        CscMatrix { m: n, n, colptr: (0..=n).collect(), rowval: (0..n).collect(), nzval: (0..n).map(|_| pdiag(&mut r)).collect() }
    } else {
        CscMatrix { m: n, n, colptr: vec![0; n + 1], rowval: vec![], nzval: vec![] }
    };
    let cones: Vec<SupportedConeT<f64>> = if soc { vec![NonnegativeConeT(2 * n), SecondOrderConeT(n + 1)] } else { vec![NonnegativeConeT(2 * n)] };
    let a_mat = |t: &TState| -> CscMatrix<f64> {
        let (mut colptr, mut rowval, mut nzval) = (vec![0usize], vec![], vec![]);
        for j in 0..n {
            rowval.push(j); nzval.push(1.0);
            rowval.push(n + j); nzval.push(t.a[j]);
            if soc { rowval.push(2 * n + 1 + j); nzval.push(-1.0); }
            colptr.push(rowval.len());
        }
        CscMatrix { m, n, colptr, rowval, nzval }
    };
    let b_vec = |t: &TState| -> Vec<f64> {
        let mut b: Vec<f64> = t.u.clone();
        b.extend(t.l.iter().map(|x| -x));
        if soc { b.push(8.0); b.extend(std::iter::repeat(0.0).take(n)); }
        b
    };
    // expected class: 1 solved, 2 primal infeasible, 3 dual infeasible
    let class_of = |t: &TState| -> usize {
        if (0..n).any(|j| t.a[j] != 0.0 && t.l[j] > t.u[j]) { 2 }
        else if can_di && (0..n).any(|j| t.a[j] == 0.0 && t.q[j] > 0.0) { 3 } else { 1 }
    };
    // draw a state of the requested class
    let draw = |r: &mut Rng, cls: usize| -> TState {
        let mut t = TState {
            q: (0..n).map(|_| *r.pick(&[-2.0, -1.0, -0.5, 0.5, 1.0, 2.0])).collect(),
            a: vec![-1.0; n],
            l: (0..n).map(|_| *r.pick(&[-2.0, -1.0, -0.5])).collect(),
            u: (0..n).map(|_| *r.pick(&[0.5, 1.0, 2.0])).collect(),
        };
        // some lower bounds switched off (harmless when the objective pushes upwards)
        for j in 0..n { if r.chance(1, 4) { t.a[j] = 0.0; if can_di { t.q[j] = -t.q[j].abs(); } } }
        match cls {
            2 => { let k = r.below(n); t.a[k] = -1.0; t.l[k] = *r.pick(&[1.0, 2.0]); t.u[k] = *r.pick(&[-2.0, -1.0]);
                   if r.chance(1, 2) { let k2 = r.below(n); t.a[k2] = -1.0; t.l[k2] = 2.0; t.u[k2] = -1.0; } }
            3 => { let k = r.below(n); t.a[k] = 0.0; t.q[k] = *r.pick(&[0.5, 1.0, 2.0]); }
            _ => {}
        }
        t
    };
    let classes: Vec<usize> = if can_di { vec![1, 2, 3] } else { vec![1, 2] };
    let mut cur_cls = *r.pick(&classes);
    let mut cur = draw(&mut r, cur_cls);
    let base = cur.clone();
    let (A0, b0) = (a_mat(&base), b_vec(&base));
    stats.hit("stream/transition");
    let solver = guarded(|| DefaultSolver::new(&P, &base.q, &A0, &b0, &cones, st.clone()));
    let mut solver = match solver { Some(s) => s, None => { stats.hit("transition-constructor-panicked"); return; } };
    let mut ops_done: Vec<Op> = vec![];
    let mut parts: Vec<String> = vec![];
    let mut phases: Vec<Value> = vec![];
    let nph = 4 + r.below(5);
    let mut vform = |r: &mut Rng, old: &[f64], new: &[f64]| -> VArg {
        let changed: Vec<usize> = (0..new.len()).filter(|&i| old[i].to_bits() != new[i].to_bits()).collect();
        match r.below(3) {
            0 => VArg::Full(new.to_vec()),
            _ if changed.is_empty() => VArg::Full(new.to_vec()),
            k => VArg::Partial(changed.clone(), changed.iter().map(|&i| new[i]).collect(), k == 1),
        }
    };
    for ph in 0..nph {
        if ph > 0 {
            // move to another class by accepted updates
            let others: Vec<usize> = classes.iter().cloned().filter(|c| *c != cur_cls).collect();
            let tgt_cls = if r.chance(1, 8) { cur_cls } else { *r.pick(&others) };
            let tgt = draw(&mut r, tgt_cls);
            let mut ops: Vec<Op> = vec![];
            let (bo, bn) = (b_vec(&cur), b_vec(&tgt));
            let (ao, an) = (a_mat(&cur), a_mat(&tgt));
            let use_data = r.chance(1, 5);
            let fb = vform(&mut r, &bo, &bn);
            let fq = vform(&mut r, &cur.q, &tgt.q);
            let fa = {
                let changed: Vec<usize> = (0..an.nzval.len()).filter(|&i| ao.nzval[i].to_bits() != an.nzval[i].to_bits()).collect();
                match r.below(4) {
                    0 => MArg::Full(an.nzval.clone()),
                    1 => MArg::Mat(an.clone()),
                    _ if changed.is_empty() => MArg::Full(an.nzval.clone()),
                    k => MArg::Partial(changed.clone(), changed.iter().map(|&i| an.nzval[i]).collect(), k == 2),
                }
            };
            if use_data {
                ops.push(Op::Data(MArg::Empty, fq, fa, fb));
            } else {
                let mut three = vec![Op::Q(fq), Op::A(fa), Op::B(fb)];
                r.shuffle(&mut three);
                ops.extend(three);
            }
            let mut all_ok = true;
            for o in ops.iter() {
                let code = apply(&mut solver, o);
                stats.hit(&format!("transition-op/{}/{:?}", o.label(), code));
                if code != Some(0) { all_ok = false; }
                ops_done.push(o.clone());
            }
            if !all_ok { parts.push("1%N".into()); stats.hit("transition-update-rejected"); break; }
            cur = tgt;
            cur_cls = tgt_cls;
        }
        let expect = class_of(&cur);
        // the solve of the re-used solver
        let traj_u = match solve_traced(&mut solver) { Some(t) => t, None => { parts.push("1%N".into()); break; } };
        let (cu, _) = status_class(solver.solution.status);
        let (Ac, bc) = (a_mat(&cur), b_vec(&cur));
        let fresh = guarded(|| { let mut f = DefaultSolver::new(&P, &cur.q, &Ac, &bc, &cones, st.clone()); f.solve(); f });
        let twin = guarded(|| {
            let mut t = DefaultSolver::new(&P, &base.q, &A0, &b0, &cones, st.clone());
            for o in ops_done.iter() { apply_update_only(&mut t, o); }
            let tj = solve_traced(&mut t);
            (t, tj)
        });
        let mut pj = json!({"phase": ph, "expected_class": expect, "status_updated": format!("{:?}", solver.solution.status), "iters_updated": solver.solution.iterations, "obj_updated": solver.solution.obj_val});
        if let Some(f) = fresh {
            let (cf, _) = status_class(f.solution.status);
            pj["status_fresh"] = json!(format!("{:?}", f.solution.status));
            pj["iters_fresh"] = json!(f.solution.iterations);
            stats.hit(&format!("transition/{}:{:?}~{:?}", expect, solver.solution.status, f.solution.status));
            if cf != expect { stats.hit("transition-fresh-verdict-differs-from-construction(info)"); }
            if cf != 0 {
                // the instances are well-posed by construction: the re-used solver must reach the same class
                parts.push(format!("c08_class_is {} {}", cn(cu), cn(cf)));
                let z = |x: f64| if x.is_finite() { x } else { 0.0 };
                parts.push(format!("c08_final {} {} {} {} {} 50", cn(cu), cn(cf), cdy(z(solver.solution.obj_val)), cdy(z(f.solution.obj_val)), cdy(st.tol_gap_abs.max(st.tol_gap_rel).max(st.tol_feas))));
                parts.push(format!("c08_iters {} {}", cn(solver.solution.iterations as usize), cn(f.solution.iterations as usize)));
                if solver.solution.iterations > 2 * f.solution.iterations + 5 {
                    sink.record(json!({"direct_record": "iterations-of-reused-solver-exceed-2x-fresh+5", "case_seed": case_seed, "phase": ph,
                        "iters_updated": solver.solution.iterations, "iters_fresh": f.solution.iterations,
                        "status_updated": format!("{:?}", solver.solution.status), "status_fresh": format!("{:?}", f.solution.status)}));
                }
            } else { stats.hit("transition-fresh-inconclusive"); }
        }
        match twin {
            Some((t, Some(traj_t))) => {
                pj["iters_twin"] = json!(t.solution.iterations);
                pj["status_twin"] = json!(format!("{:?}", t.solution.status));
                parts.extend(twin_parts(&traj_u, &traj_t, solver.solution.iterations, t.solution.iterations));
                if solver.solution.status != t.solution.status { parts.push("1%N".into()); }
                stats.hit(if traj_u == traj_t { "twin-trajectory-bitwise-equal" } else { "twin-trajectory-DIFFERS" });
            }
            _ => stats.hit("twin-failed"),
        }
        phases.push(pj);
    }
    let input = json!({"case_seed": case_seed, "stream": "transition", "equilibrate": eq, "method": method, "n": n, "soc": soc, "qp": qp,
        "base": {"q": base.q, "a": base.a, "l": base.l, "u": base.u}, "ops": ops_done.iter().map(|o| o.json()).collect::<Vec<_>>(), "phases": phases});
    sink.case("transition", input, format!("maxl [{}]", parts.join(";\n ")), &["transition"]);
}

// ------------------------------------------------------------------ time-limit stream
/// A re-used solver with a finite time limit must not run out of time because of earlier
/// solves.  Timers are observed, not modelled.  The limit is calibrated on a dry run of the
/// same kind of history; rounds (update_q / update_b + solve) continue until the SUM of the
/// solve calls exceeds 3x the limit.  Verdict rules (evaluated in Coq, `c08_timelimit`) cannot
/// false-alarm under load: see Update/Check.v.
fn run_timelimit(sink: &mut CaseSink, stats: &mut Stats, case_seed: u64) {
    use std::time::Instant;
    // solve_time = setup timer + solve timer + post-process timer of THIS call, each measured
    // inside the bracketed calls with the same monotonic clock: the inequality
    // reported <= constructor call + solve call holds exactly; 50 us of slack is generosity
    const SLACK: f64 = 5e-5;
    let mut r = Rng::new(case_seed ^ 0x7131);
    let eq = r.chance(1, 2);
    // small strictly convex QP with nonnegative rows: x = 0 strictly feasible
    let n = 2 + r.below(3);
    let m = 2 + r.below(4);
    let (mut colptr, mut rowval, mut nzval) = (vec![0usize], vec![], vec![]);
    for j in 0..n { rowval.push(j); nzval.push(pdiag(&mut r)); colptr.push(rowval.len()); }
    let P = CscMatrix { m: n, n, colptr, rowval, nzval };
    let (mut colptr, mut rowval, mut nzval) = (vec![0usize], vec![], vec![]);
    for _j in 0..n {
        for i in 0..m { if r.chance(1, 2) { rowval.push(i); nzval.push(val(&mut r)); } }
        colptr.push(rowval.len());
    }
    let A = CscMatrix { m, n, colptr, rowval, nzval };
    let q0: Vec<f64> = (0..n).map(|_| val(&mut r)).collect();
    let b0: Vec<f64> = (0..m).map(|_| bval(&mut r, Role::Pos)).collect();
    let cones = vec![NonnegativeConeT(m)];
    let mut st = settings(eq, "qdldl");
    stats.hit("stream/timelimit");
    // one round: an accepted update of q or b, then a solve; returns (status, wall seconds of the solve call)
    let round = |s: &mut DefaultSolver<f64>, r: &mut Rng, uq: &mut Vec<f64>, ub: &mut Vec<f64>| -> Option<(SolverStatus, f64, f64)> {
        let ok = if r.chance(1, 2) {
            *uq = (0..uq.len()).map(|_| val(r)).collect();
            guarded(|| s.update_q(&*uq).is_ok())
        } else {
            let k = r.below(ub.len());
            ub[k] = bval(r, Role::Pos);
            let (i, v) = (vec![k], vec![ub[k]]);
            guarded(|| s.update_b(&(i, v)).is_ok())
        };
        if ok != Some(true) { return None; }
        let t = Instant::now();
        guarded(|| s.solve())?;
        let dt = t.elapsed().as_secs_f64();
        Some((s.solution.status, dt, s.solution.solve_time))
    };
    // ---- dry run without a limit: calibrate
    let t = Instant::now();
    let dry = guarded(|| DefaultSolver::new(&P, &q0, &A, &b0, &cones, st.clone()));
    let tnew_dry = t.elapsed().as_secs_f64();
    let mut dry = match dry { Some(d) => d, None => { stats.hit("timelimit-constructor-panicked"); return; } };
    let (mut uq, mut ub) = (q0.clone(), b0.clone());
    let mut tmax: f64 = 0.0;
    let mut rd = Rng::new(case_seed ^ 0x55);
    for _ in 0..40 {
        match round(&mut dry, &mut rd, &mut uq, &mut ub) {
            Some((_, dt, _)) => { tmax = tmax.max(dt); }
            None => { stats.hit("timelimit-dry-run-failed"); return; }
        }
    }
    let limit = (8.0 * (tmax + tnew_dry)).max(0.02);
    // ---- the run with the limit
    st.time_limit = limit;
    let t = Instant::now();
    let solver = guarded(|| DefaultSolver::new(&P, &q0, &A, &b0, &cones, st.clone()));
    let tnew = t.elapsed().as_secs_f64();
    let mut solver = match solver { Some(s) => s, None => { stats.hit("timelimit-constructor-panicked"); return; } };
    let (mut uq, mut ub) = (q0.clone(), b0.clone());
    let mut recs: Vec<(usize, f64, f64)> = vec![];
    let mut sum = 0.0;
    let started = Instant::now();
    let mut flagged: Vec<Value> = vec![];
    let mut early_maxtime = 0usize;
    let mut loaded_maxtime = 0usize;
    while sum < 3.5 * limit && recs.len() < 40000 && started.elapsed().as_secs_f64() < 6.0 {
        match round(&mut solver, &mut r, &mut uq, &mut ub) {
            Some((status, dt, rep)) => {
                let code = if status == SolverStatus::MaxTime { 7 } else { status_class(status).0 };
                if code == 7 {
                    if tnew + dt < limit { early_maxtime += 1; } else { loaded_maxtime += 1; }
                }
                if rep > tnew + dt + SLACK && flagged.len() < 3 {
                    flagged.push(json!({"direct_record": "solve_time-exceeds-wall-time-of-own-call", "case_seed": case_seed,
                        "solve_index": recs.len(), "reported_solve_time": rep, "measured_constructor_call": tnew, "measured_solve_call": dt,
                        "text": "solution.solve_time (setup + solve timers) is larger than the wall time of the constructor call plus this solve call: the solve timer was not reset"}));
                }
                sum += dt;
                recs.push((code, dt, rep));
                if code == 7 && recs.len() > 50 && early_maxtime > 3 { break; } // enough evidence
            }
            None => { stats.hit("timelimit-round-failed"); break; }
        }
    }
    let powered = sum >= 3.0 * limit;
    stats.hit(if powered { "timelimit-powered(sum of solves >= 3x limit)" } else { "timelimit-underpowered" });
    if early_maxtime > 0 { stats.hit("timelimit-MaxTime-before-limit"); }
    if loaded_maxtime > 0 { stats.hit("timelimit-MaxTime-after-limit(load, inconclusive)"); }
    for f in flagged { sink.record(f); }
    // final: the re-used solver's last verdict vs a fresh solver on the final data, same limit
    let t = Instant::now();
    let fresh = guarded(|| { let mut f = DefaultSolver::new(&P, &uq, &A, &ub, &cones, st.clone()); f.solve(); f });
    let tfresh = t.elapsed().as_secs_f64();
    let mut parts = vec![format!("c08_timelimit {} {} {} {}", cdy(limit), cdy(tnew), cdy(SLACK),
        clist(&recs, |(c, dt, rep)| format!("({}, {}, {})", cn(*c), cdy(*dt), cdy(if rep.is_finite() { *rep } else { 0.0 }))))];
    let mut fin = json!(null);
    if let (Some(f), Some(last)) = (fresh, recs.last()) {
        let cf = if f.solution.status == SolverStatus::MaxTime { 0 } else { status_class(f.solution.status).0 };
        let cu = if last.0 == 7 { 0 } else { last.0 }; // MaxTime: rule 1 of c08_timelimit decides; here inconclusive
        let z = |x: f64| if x.is_finite() { x } else { 0.0 };
        parts.push(format!("c08_final {} {} {} {} {} 50", cn(cu), cn(cf), cdy(z(solver.solution.obj_val)), cdy(z(f.solution.obj_val)), cdy(st.tol_gap_abs.max(st.tol_gap_rel).max(st.tol_feas))));
        fin = json!({"status_updated": format!("{:?}", solver.solution.status), "status_fresh": format!("{:?}", f.solution.status), "fresh_call_s": tfresh});
    }
    let input = json!({"case_seed": case_seed, "stream": "timelimit", "equilibrate": eq, "n": n, "m": m,
        "time_limit_s": limit, "calibration": {"longest_dry_solve_s": tmax, "constructor_s": tnew_dry},
        "solves": recs.len(), "sum_of_solve_calls_s": sum, "powered": powered,
        "maxtime_before_limit": early_maxtime, "maxtime_after_limit": loaded_maxtime, "final": fin});
    sink.case("timelimit", input, format!("maxl [{}]", parts.join(";\n ")), &["timelimit"]);
}

/// the b-capping caveat: a fresh solver caps b at the infinity bound, update_b does not
fn b_cap_observation(sink: &mut CaseSink) {
    let P = CscMatrix { m: 1, n: 1, colptr: vec![0, 1], rowval: vec![0], nzval: vec![4.0] };
    let A = CscMatrix { m: 2, n: 1, colptr: vec![0, 2], rowval: vec![0, 1], nzval: vec![1.0, -1.0] };
    let q = vec![1.0];
    let b = vec![1.0, 1.0];
    let cones = vec![NonnegativeConeT(2)];
    let st = settings(false, "qdldl");
    let r = guarded(|| {
        let mut s = DefaultSolver::new(&P, &q, &A, &b, &cones, st.clone());
        let rc = res_code(&s.update_b(&vec![1.0, 1e30]));
        let f = DefaultSolver::new(&P, &q, &A, &[1.0, 1e30], &cones, st.clone());
        (rc, s.data.b.clone(), f.data.b.clone())
    });
    if let Some((rc, bu, bf)) = r {
        sink.record(json!({"observation": "b-cap", "update_b_result": rc, "b_after_update": bu, "b_in_fresh_solver": bf,
            "text": "a fresh solver caps b at the infinity bound (1e20); update_b stores the value as given"}));
    }
}

fn main() {
    let args: Vec<String> = std::env::args().collect();
    let mut out = String::from("/dev/stdout");
    let mut seed: u64 = 1;
    let mut tier = String::from("quick");
    let mut replay: Option<String> = None;
    let mut i = 1;
    while i < args.len() {
        match args[i].as_str() {
            "--out" => { out = args[i + 1].clone(); i += 1; }
            "--seed" => { seed = args[i + 1].parse().unwrap_or(1); i += 1; }
            "--tier" => { tier = args[i + 1].clone(); i += 1; }
            "--replay" => { replay = Some(args[i + 1].clone()); i += 1; }
            _ => {}
        }
        i += 1;
    }
    silence_panics();
    let mut sink = CaseSink::new(&out);
    let mut stats = Stats { m: BTreeMap::new() };
    // a replay / corpus file: {"cases": [ {case_seed, stream}, ... ]} or a single such object
    // (also accepted: a violation file written by the check, whose "input" holds them)
    let run_file = |p: &str, sink: &mut CaseSink, stats: &mut Stats| {
        let txt = match std::fs::read_to_string(p) { Ok(t) => t, Err(_) => return };
        let v: Value = match serde_json::from_str(&txt) { Ok(v) => v, Err(_) => return };
        let cases = match v.get("cases") { Some(Value::Array(a)) => a.clone(), _ => vec![v] };
        for c in cases {
            let inp = if c.get("input").is_some() { &c["input"] } else { &c };
            if let Some(cs) = inp.get("case_seed").and_then(|x| x.as_u64()) {
                let stream = inp.get("stream").and_then(|x| x.as_str()).unwrap_or("");
                if stream == "timelimit" { run_timelimit(sink, stats, cs); continue; }
                if stream == "transition" { run_transition(sink, stats, cs); continue; }
                let sp = match stream { "presolve" => Some(Special { presolve: true, chordal: false }), "chordal" => Some(Special { presolve: false, chordal: true }), _ => None };
                run_case(sink, stats, cs, sp);
            }
        }
    };
    if let Some(p) = replay {
        run_file(&p, &mut sink, &mut stats);
    } else {
        // regression corpus first (cwd of a check run is <verif>/work/C08)
        for dir in ["../../corpus/C08", "corpus/C08"] {
            if let Ok(rd) = std::fs::read_dir(dir) {
                let mut files: Vec<String> = rd.flatten().map(|e| e.path().to_string_lossy().to_string()).filter(|p| p.ends_with(".json")).collect();
                files.sort();
                for f in files { run_file(&f, &mut sink, &mut stats); stats.hit("corpus-files"); }
                break;
            }
        }
        let ncases = if tier == "thorough" { 6000 } else { 420 };
        let mut master = Rng::new(seed ^ 0xC08);
        for k in 0..ncases {
            let cs = master.next() >> 12; // fits a JSON number exactly
            let sp = if k % 20 == 7 { Some(Special { presolve: true, chordal: false }) }
                     else if k % 40 == 13 && blas_shim::AVAILABLE { Some(Special { presolve: false, chordal: true }) }
                     else { None };
            run_case(&mut sink, &mut stats, cs, sp);
        }
        let ntr = if tier == "thorough" { 500 } else { 40 };
        for _ in 0..ntr {
            let cs = master.next() >> 12;
            run_transition(&mut sink, &mut stats, cs);
        }
        let ntl = if tier == "thorough" { 12 } else { 3 };
        for _ in 0..ntl {
            let cs = master.next() >> 12;
            run_timelimit(&mut sink, &mut stats, cs);
        }
        b_cap_observation(&mut sink);
    }
    sink.record(json!({"stats": stats.m}));
    sink.record(json!({"meta": {"prop": "c08", "seed": seed, "tier": tier, "blas": blas_shim::AVAILABLE}}));
    sink.flush();
}
