//! C10: equilibration vs. the Coq model (Equil/Model.v, checkers in Equil/Check.v).
//!
//! For every generated problem the real `DefaultSolver::new` is run and what it leaves in
//! `solver.data.{P,q,A,b,equilibration}` is printed as four Gallina cases:
//!   model          the model at binary64 (OpsF) on the same inputs   (bitwise equality required)
//!   props          the property evaluated on the Rust output alone, exact dyadic arithmetic
//!   strict_clip    literal bounds of d, c, scalar-cone e (clip-then-multiply) (F9)
//!   strict_rect    literal bounds of rectified e                            (F9)
//!   strict_uniform e bit-constant over every rectified cone          (F9 measurement)
//! plus one dedicated `literal_bounds` witness (settings with min > 1).
#[path = "../blas_shim.rs"]
mod blas_shim;
#[path = "../common.rs"]
mod common;

use clarabel::algebra::*;
use clarabel::solver::*;
use common::*;
use serde_json::{json, Value};
use std::collections::BTreeMap;

#[derive(Clone, Debug)]
struct Raw {
    m: usize,
    n: usize,
    colptr: Vec<usize>,
    rowval: Vec<usize>,
    nzval: Vec<f64>,
}
fn bits(v: &[f64]) -> Vec<String> { v.iter().map(|x| format!("{:016x}", x.to_bits())).collect() }
fn unbits(v: &Value) -> Vec<f64> {
    v.as_array().unwrap().iter().map(|s| f64::from_bits(u64::from_str_radix(s.as_str().unwrap(), 16).unwrap())).collect()
}
impl Raw {
    fn json(&self) -> Value {
        json!({"m": self.m, "n": self.n, "colptr": self.colptr, "rowval": self.rowval,
               "nzval_bits": bits(&self.nzval), "nzval": self.nzval})
    }
    fn from_json(v: &Value) -> Self {
        Raw { m: v["m"].as_u64().unwrap() as usize, n: v["n"].as_u64().unwrap() as usize,
              colptr: usize_vec(&v["colptr"]), rowval: usize_vec(&v["rowval"]), nzval: unbits(&v["nzval_bits"]) }
    }
    fn csc(&self) -> CscMatrix<f64> {
        CscMatrix::new(self.m, self.n, self.colptr.clone(), self.rowval.clone(), self.nzval.clone())
    }
    fn of(a: &CscMatrix<f64>) -> Self {
        Raw { m: a.m, n: a.n, colptr: a.colptr.clone(), rowval: a.rowval.clone(), nzval: a.nzval.clone() }
    }
    fn coq(&self, ctor: &str, f: &dyn Fn(&[f64]) -> String) -> String {
        format!("({} {} {} {} {} {})", ctor, cn(self.m), cn(self.n), cnlist(&self.colptr), cnlist(&self.rowval), f(&self.nzval))
    }
    fn from_dense(g: &[Vec<Option<f64>>], m: usize, n: usize) -> Self {
        let (mut colptr, mut rowval, mut nzval) = (vec![0], vec![], vec![]);
        for j in 0..n {
            for i in 0..m {
                if let Some(v) = g[i][j] { rowval.push(i); nzval.push(v); }
            }
            colptr.push(rowval.len());
        }
        Raw { m, n, colptr, rowval, nzval }
    }
    fn all_finite(&self) -> bool { self.nzval.iter().all(|x| x.is_finite()) }
}

#[derive(Clone, Debug)]
enum ConeS { Zero(usize), Nn(usize), Soc(usize), Exp, Pow(f64), GenPow(Vec<f64>, usize), Psd(usize) }
impl ConeS {
    fn numel(&self) -> usize {
        match self {
            ConeS::Zero(n) | ConeS::Nn(n) | ConeS::Soc(n) => *n,
            ConeS::Exp | ConeS::Pow(_) => 3,
            ConeS::GenPow(a, d2) => a.len() + d2,
            ConeS::Psd(n) => n * (n + 1) / 2,
        }
    }
    fn kind(&self) -> &'static str {
        match self {
            ConeS::Zero(_) => "KZero", ConeS::Nn(_) => "KNonneg", ConeS::Soc(_) => "KSoc", ConeS::Exp => "KExp",
            ConeS::Pow(_) => "KPow", ConeS::GenPow(..) => "KGenPow", ConeS::Psd(_) => "KPsd",
        }
    }
    fn rust(&self) -> SupportedConeT<f64> {
        match self {
            ConeS::Zero(n) => SupportedConeT::ZeroConeT(*n),
            ConeS::Nn(n) => SupportedConeT::NonnegativeConeT(*n),
            ConeS::Soc(n) => SupportedConeT::SecondOrderConeT(*n),
            ConeS::Exp => SupportedConeT::ExponentialConeT(),
            ConeS::Pow(a) => SupportedConeT::PowerConeT(*a),
            ConeS::GenPow(a, d2) => SupportedConeT::GenPowerConeT(a.clone(), *d2),
            ConeS::Psd(n) => SupportedConeT::PSDTriangleConeT(*n),
        }
    }
    fn of_rust(c: &SupportedConeT<f64>) -> ConeS {
        match c {
            SupportedConeT::ZeroConeT(n) => ConeS::Zero(*n),
            SupportedConeT::NonnegativeConeT(n) => ConeS::Nn(*n),
            SupportedConeT::SecondOrderConeT(n) => ConeS::Soc(*n),
            SupportedConeT::ExponentialConeT() => ConeS::Exp,
            SupportedConeT::PowerConeT(a) => ConeS::Pow(*a),
            SupportedConeT::GenPowerConeT(a, d2) => ConeS::GenPow(a.clone(), *d2),
            SupportedConeT::PSDTriangleConeT(n) => ConeS::Psd(*n),
        }
    }
    fn json(&self) -> Value {
        match self {
            ConeS::Zero(n) => json!({"k": "zero", "n": n}), ConeS::Nn(n) => json!({"k": "nn", "n": n}),
            ConeS::Soc(n) => json!({"k": "soc", "n": n}), ConeS::Exp => json!({"k": "exp"}),
            ConeS::Pow(a) => json!({"k": "pow", "a": a}),
            ConeS::GenPow(a, d2) => json!({"k": "genpow", "a": a, "d2": d2}),
            ConeS::Psd(n) => json!({"k": "psd", "n": n}),
        }
    }
    fn from_json(v: &Value) -> ConeS {
        let n = || v["n"].as_u64().unwrap() as usize;
        match v["k"].as_str().unwrap() {
            "zero" => ConeS::Zero(n()), "nn" => ConeS::Nn(n()), "soc" => ConeS::Soc(n()), "exp" => ConeS::Exp,
            "pow" => ConeS::Pow(v["a"].as_f64().unwrap()),
            "genpow" => ConeS::GenPow(f64_vec(&v["a"]), v["d2"].as_u64().unwrap() as usize),
            "psd" => ConeS::Psd(n()),
            k => panic!("bad cone kind {}", k),
        }
    }
}
fn cones_coq(cs: &[ConeS]) -> String { clist(cs, |c| format!("({}, {})", c.kind(), cn(c.numel()))) }

#[derive(Clone, Debug)]
struct Problem {
    p: Raw, q: Vec<f64>, a: Raw, b: Vec<f64>, cones: Vec<ConeS>,
    enable: bool, iters: u32, smin: f64, smax: f64, defaults: bool, // defaults: presolve/chordal left at their defaults
}
impl Problem {
    fn json(&self) -> Value {
        json!({"P": self.p.json(), "q_bits": bits(&self.q), "q": self.q, "A": self.a.json(), "b_bits": bits(&self.b), "b": self.b,
               "cones": self.cones.iter().map(|c| c.json()).collect::<Vec<_>>(),
               "enable": self.enable, "iters": self.iters, "min_bits": bits(&[self.smin]), "max_bits": bits(&[self.smax]),
               "min": self.smin, "max": self.smax, "defaults": self.defaults})
    }
    fn from_json(v: &Value) -> Problem {
        Problem { p: Raw::from_json(&v["P"]), q: unbits(&v["q_bits"]), a: Raw::from_json(&v["A"]), b: unbits(&v["b_bits"]),
                  cones: v["cones"].as_array().unwrap().iter().map(ConeS::from_json).collect(),
                  enable: v["enable"].as_bool().unwrap(), iters: v["iters"].as_u64().unwrap() as u32,
                  smin: unbits(&v["min_bits"])[0], smax: unbits(&v["max_bits"])[0], defaults: v["defaults"].as_bool().unwrap_or(false) }
    }
}

struct Output { p: Raw, q: Vec<f64>, a: Raw, b: Vec<f64>, d: Vec<f64>, dinv: Vec<f64>, e: Vec<f64>, einv: Vec<f64>, c: f64, icones: Vec<ConeS> }
impl Output {
    fn finite(&self) -> bool {
        self.p.all_finite() && self.a.all_finite()
            && [&self.q, &self.b, &self.d, &self.dinv, &self.e, &self.einv].iter().all(|v| v.iter().all(|x| x.is_finite()))
            && self.c.is_finite()
    }
    fn coq(&self, ctor: &str, fl: &dyn Fn(&[f64]) -> String, f1: &dyn Fn(f64) -> String) -> String {
        format!("(mkOut {} {} {} {} {} {} {} {} {})", self.p.coq(ctor, fl), fl(&self.q), self.a.coq(ctor, fl), fl(&self.b),
                fl(&self.d), fl(&self.dinv), fl(&self.e), fl(&self.einv), f1(self.c))
    }
}

fn run_rust(pr: &Problem) -> Option<Output> {
    guarded(|| {
        let mut s = DefaultSettings::<f64>::default();
        s.verbose = false;
        s.equilibrate_enable = pr.enable;
        s.equilibrate_max_iter = pr.iters;
        s.equilibrate_min_scaling = pr.smin;
        s.equilibrate_max_scaling = pr.smax;
        if !pr.defaults {
            s.presolve_enable = false;
            s.chordal_decomposition_enable = false;
        }
        let cones: Vec<SupportedConeT<f64>> = pr.cones.iter().map(|c| c.rust()).collect();
        let solver = DefaultSolver::new(&pr.p.csc(), &pr.q, &pr.a.csc(), &pr.b, &cones, s);
        let dt = &solver.data;
        let eq = &dt.equilibration;
        Output { p: Raw::of(&dt.P), q: dt.q.clone(), a: Raw::of(&dt.A), b: dt.b.clone(),
                 d: eq.d.clone(), dinv: eq.dinv.clone(), e: eq.e.clone(), einv: eq.einv.clone(), c: eq.c,
                 icones: dt.cones.iter().map(ConeS::of_rust).collect() }
    })
}

#[derive(Default)]
struct Stats {
    by: BTreeMap<String, usize>,
    over_max: usize, under_min: usize, max_excess_ulps: f64,
    cones_rectified: usize, cones_not_bit_constant: usize, max_spread_rel: f64,
}
impl Stats {
    fn bump(&mut self, k: &str) { *self.by.entry(k.to_string()).or_insert(0) += 1; }
}

/// Emits the cases of one problem.
fn emit(sink: &mut CaseSink, st: &mut Stats, pr: &Problem, tags: &[&str]) {
    let input = pr.json();
    let out = match run_rust(pr) {
        Some(o) => o,
        None => {
            // DefaultSolver::new panicked on dimensionally consistent data
            st.bump("rust_panicked");
            sink.case("model", input, "1%N".into(), tags);
            return;
        }
    };
    let dims_same = out.a.m == pr.a.m && out.a.n == pr.a.n && out.p.n == pr.p.n;
    if !dims_same {
        // presolve / chordal decomposition changed the problem: outside this property's scope
        st.bump("reduced_by_presolve_or_chordal(skipped)");
        return;
    }
    st.bump(if pr.enable { "enabled" } else { "disabled" });
    st.bump(&format!("iters={}", pr.iters));
    st.bump(&format!("minmax={:e}/{:e}", pr.smin, pr.smax));
    for c in pr.cones.iter() { st.bump(&format!("cone:{}", c.kind())); }
    if pr.p.nzval.is_empty() { st.bump("P_empty"); }
    let set_f = format!("{} {} {} {}", pr.enable, cn(pr.iters as usize), cfl(pr.smin), cfl(pr.smax));
    let set_d = format!("{} {} {} {}", pr.enable, cn(pr.iters as usize), cdy(pr.smin), cdy(pr.smax));
    // (i) the model at binary64, with the cones as the solver holds them internally
    let coq_model = format!("c_model {} {} {} {} {} {} {}", set_f, cones_coq(&out.icones),
        pr.p.coq("RF", &cfllist), cfllist(&pr.q), pr.a.coq("RF", &cfllist), cfllist(&pr.b), out.coq("RF", &cfllist, &cfl));
    sink.case("model", input.clone(), coq_model, tags);
    if !out.finite() {
        // overflow inside the scaling (only seen with absurd bounds such as min = 1e300): the model
        // above must reproduce the same infinities / NaNs; the property itself does not hold
        st.bump("nonfinite_output");
        sink.case("props", input, "1%N".into(), tags);
        return;
    }
    // (ii) the property on the Rust output, with the cones as the user gave them
    let coq_props = format!("c_props {} {} {} {} {} {} {}", set_d, cones_coq(&pr.cones),
        pr.p.coq("RD", &cdylist), cdylist(&pr.q), pr.a.coq("RD", &cdylist), cdylist(&pr.b), out.coq("RD", &cdylist, &cdy));
    sink.case("props", input.clone(), coq_props, tags);
    if pr.enable {
        // (iii) the literal statement, split by the operation that can round
        let (lo, hi) = (pr.smin.min(pr.smax), pr.smin.max(pr.smax));
        let applies = (lo <= 1.0 && 1.0 <= hi) || pr.iters >= 1;
        let outside = |x: f64| x < lo || x > hi;
        // rows of scalar (Zero/NN) cones vs rows of rectified cones
        let mut scalar_row = vec![true; out.e.len()];
        { let mut off = 0; for c in pr.cones.iter() { let n = c.numel();
            if !matches!(c, ConeS::Zero(_) | ConeS::Nn(_)) { for i in off..(off + n).min(scalar_row.len()) { scalar_row[i] = false; } }
            off += n; } }
        let clip_excess = applies && (out.d.iter().any(|&x| outside(x)) || (outside(out.c) && out.c != 1.0)
            || out.e.iter().zip(scalar_row.iter()).any(|(&x, &sc)| sc && outside(x)));
        let rect_excess = applies && out.e.iter().zip(scalar_row.iter()).any(|(&x, &sc)| !sc && outside(x));
        let mut tags_c: Vec<&str> = tags.to_vec();
        if clip_excess { tags_c.push("f9_clip_excess"); st.bump("f9:clip_multiply_outside_bounds"); }
        let mut tags_r: Vec<&str> = tags.to_vec();
        if rect_excess { tags_r.push("f9_rect_excess"); st.bump("f9:rectified_outside_bounds"); }
        sink.case("strict_clip", input.clone(),
                  format!("c_strict_clip {} {} {} {} {} {} {}", cn(pr.iters as usize), cdy(pr.smin), cdy(pr.smax), cones_coq(&pr.cones),
                          cdylist(&out.d), cdylist(&out.e), cdy(out.c)), &tags_c);
        sink.case("strict_rect", input.clone(),
                  format!("c_strict_rect {} {} {} {} {}", cn(pr.iters as usize), cdy(pr.smin), cdy(pr.smax), cones_coq(&pr.cones), cdylist(&out.e)), &tags_r);
        sink.case("strict_uniform", input.clone(), format!("c_strict_uniform {} {}", cones_coq(&pr.cones), cdylist(&out.e)), tags);
        // the same measured here for the statistics record (the verdict is Coq's)
        if applies {
            for &x in out.d.iter().chain(out.e.iter()).chain(std::iter::once(&out.c)) {
                if x > hi && x != 1.0 { st.over_max += 1; st.max_excess_ulps = st.max_excess_ulps.max((x / hi - 1.0) / f64::EPSILON); }
                if x < lo && x != 1.0 { st.under_min += 1; st.max_excess_ulps = st.max_excess_ulps.max((1.0 - x / lo) / f64::EPSILON); }
            }
        }
        let mut off = 0;
        for c in pr.cones.iter() {
            let n = c.numel();
            if !matches!(c, ConeS::Zero(_) | ConeS::Nn(_)) && n >= 2 {
                st.cones_rectified += 1;
                let sl = &out.e[off..off + n];
                let (lo, hi) = sl.iter().fold((f64::INFINITY, 0.0f64), |(l, h), &x| (l.min(x), h.max(x)));
                if lo != hi { st.cones_not_bit_constant += 1; st.max_spread_rel = st.max_spread_rel.max((hi - lo) / lo / f64::EPSILON); }
            }
            off += n;
        }
    }
}

// ---------------------------------------------------------------- generators
const MINMAX: [(f64, f64); 4] = [(1e-4, 1e4), (1.0, 1.0), (1e-1, 1e2), (1e-8, 1e8)];
/// out-of-the-ordinary settings: min > max (both orders of magnitude), 1 outside [min,max],
/// huge / tiny bounds
const MINMAX_ODD: [(f64, f64); 7] = [(1e4, 1e-4), (10.0, 0.1), (2.0, 0.5), (2.0, 4.0), (0.25, 0.5), (1e-300, 1e300), (1e300, 1e-300)];
const ITERS: [u32; 4] = [0, 1, 10, 50];

/// magnitude generators: 0 = powers of two over 2^-50..2^50 (30 orders of magnitude),
/// 1 = general values over 1e-15..1e15, 2 = small integers, 3 = moderate general values
fn mag(rng: &mut Rng, mode: usize) -> f64 {
    let s = if rng.chance(1, 2) { -1.0 } else { 1.0 };
    match mode {
        0 => s * (2.0f64).powi(rng.range(-50, 50) as i32),
        1 => s * (1.0 + rng.unit()) * (10.0f64).powi(rng.range(-15, 15) as i32),
        2 => s * (rng.range(1, 9) as f64),
        _ => s * (0.1 + 9.9 * rng.unit()),
    }
}
/// row/column scale factors
fn scales(rng: &mut Rng, k: usize, mode: usize) -> Vec<f64> {
    (0..k).map(|_| match mode {
        0 => (2.0f64).powi(rng.range(-25, 25) as i32),
        1 => (1.0 + rng.unit()) * (10.0f64).powi(rng.range(-7, 7) as i32),
        _ => 1.0,
    }).collect()
}

fn gen_cones(rng: &mut Rng, maxm: usize, scalar_only: bool) -> Vec<ConeS> {
    let mut cs = vec![];
    let mut m = 0;
    let k = rng.range(0, 4) as usize;
    for _ in 0..k {
        let c = if scalar_only { if rng.chance(1, 2) { ConeS::Zero(rng.range(0, 3) as usize) } else { ConeS::Nn(rng.range(0, 4) as usize) } }
        else {
            match rng.below(10) {
                0 => ConeS::Zero(rng.range(0, 3) as usize),
                1 | 2 => ConeS::Nn(rng.range(0, 3) as usize),
                3 | 4 => ConeS::Soc(rng.range(1, 4) as usize),
                5 => ConeS::Exp,
                6 => ConeS::Pow(*rng.pick(&[0.5, 0.25, 0.7])),
                7 => match rng.below(3) { 0 => ConeS::GenPow(vec![0.5, 0.5], 1), 1 => ConeS::GenPow(vec![0.25, 0.75], 2), _ => ConeS::GenPow(vec![0.25, 0.25, 0.5], 1) },
                _ => ConeS::Psd(rng.range(1, 3) as usize),
            }
        };
        if m + c.numel() > maxm { continue; }
        m += c.numel();
        cs.push(c);
    }
    cs
}

fn gen_problem(rng: &mut Rng, big: bool) -> Problem {
    let n = rng.range(1, if big { 8 } else { 5 }) as usize;
    let scalar_only = rng.chance(1, 6);
    let cones = gen_cones(rng, if big { 16 } else { 10 }, scalar_only);
    let m: usize = cones.iter().map(|c| c.numel()).sum();
    let vmode = rng.below(4);
    let smode = rng.below(3);
    let (rs, cs) = (scales(rng, m, smode), scales(rng, n, smode));
    // A
    let dens = *rng.pick(&[2usize, 5, 8]);
    let mut ga = vec![vec![None; n]; m];
    for i in 0..m { for j in 0..n {
        if rng.below(10) < dens { ga[i][j] = Some(mag(rng, vmode) * rs[i] * cs[j]); }
        else if rng.chance(1, 25) { ga[i][j] = Some(0.0); } // a stored zero
    } }
    // zero rows / columns of A
    let zero_cols: Vec<usize> = (0..n).filter(|_| rng.chance(1, 5)).collect();
    for i in 0..m { if rng.chance(1, 5) { for j in 0..n { ga[i][j] = if rng.chance(1, 6) { Some(0.0) } else { None }; } } }
    for &j in zero_cols.iter() { for i in 0..m { ga[i][j] = None; } }
    // P (upper triangle)
    let pk = rng.below(5); // 0: empty, 1: diagonal, 2: dense-ish triu, 3: sparse triu, 4: zero rows/cols where A has them
    let mut gp = vec![vec![None; n]; n];
    if pk != 0 {
        for j in 0..n { for i in 0..=j {
            let keep = match pk { 1 => i == j, 2 => rng.chance(4, 5), _ => rng.chance(2, 5) };
            if keep { gp[i][j] = Some(mag(rng, vmode) * cs[i] * cs[j]); }
        } }
        if pk >= 3 || rng.chance(1, 2) {
            for &j in zero_cols.iter() { for i in 0..n { gp[i.min(j)][i.max(j)] = if rng.chance(1, 8) { Some(0.0) } else { None }; } }
        }
    }
    let q: Vec<f64> = match rng.below(6) { 0 => vec![0.0; n], _ => (0..n).map(|j| if rng.chance(1, 6) { 0.0 } else { mag(rng, vmode) * cs[j] }).collect() };
    // |b| stays below the solver's "infinity" (1e20): larger entries are capped / presolved away,
    // which is C09's subject, not this property's
    let b: Vec<f64> = (0..m).map(|i| if rng.chance(1, 6) { 0.0 } else {
        let mut v = mag(rng, vmode) * rs[i];
        while v.abs() >= 1e19 { v *= (2.0f64).powi(-40); }
        v }).collect();
    let (smin, smax) = if rng.chance(1, 5) { *rng.pick(&MINMAX_ODD) } else { *rng.pick(&MINMAX) };
    Problem { p: Raw::from_dense(&gp, n, n), q, a: Raw::from_dense(&ga, m, n), b, cones,
              enable: !rng.chance(1, 8), iters: *rng.pick(&ITERS), smin, smax, defaults: rng.chance(1, 3) }
}

/// "creep" stream: the objective block pins the column scalings while tiny rows of A keep pulling
/// the row scalings up (or large rows down) pass after pass, so that the clip engages with a
/// cumulative factor that is a generic binary64 number (not 1 and not a bound): the situation in
/// which fl(cum * fl(bound / cum)) can differ from the bound by one ulp (F9).  The excess is
/// transient (the next pass clips again and usually lands on the bound), so the number of passes
/// varies over 2..8 to catch the pass at which the clip first engages.
fn gen_creep(rng: &mut Rng) -> Problem {
    let n = rng.range(1, 2) as usize;
    let m = rng.range(1, 3) as usize;
    let up = rng.chance(2, 3);
    let mut gp = vec![vec![None; n]; n];
    for j in 0..n { gp[j][j] = Some((1.0 + rng.unit()) * (10.0f64).powi(rng.range(0, 3) as i32)); }
    let mut ga = vec![vec![None; n]; m];
    for i in 0..m { for j in 0..n {
        if j == i % n || rng.chance(1, 3) {
            let e = if up { rng.range(-9, -3) } else { rng.range(5, 11) };
            ga[i][j] = Some((1.0 + rng.unit()) * (10.0f64).powi(e as i32));
        }
    } }
    let cones = if m >= 2 && rng.chance(1, 2) { vec![ConeS::Soc(m)] } else { vec![ConeS::Nn(m)] };
    let q: Vec<f64> = if rng.chance(1, 2) { vec![0.0; n] } else { (0..n).map(|_| 1.0 + rng.unit()).collect() };
    let b: Vec<f64> = (0..m).map(|_| 1.0 + rng.unit()).collect();
    let (smin, smax) = *rng.pick(&[(1e-1, 1e2), (1e-4, 1e4), (1e-1, 1e2), (10.0, 0.1)]);
    Problem { p: Raw::from_dense(&gp, n, n), q, a: Raw::from_dense(&ga, m, n), b, cones,
              enable: true, iters: rng.range(2, 8) as u32, smin, smax, defaults: false }
}

/// fixed boundary cases (always run first)
fn fixed_cases() -> Vec<Problem> {
    let mut v = vec![];
    let a = Raw::from_dense(&[vec![Some(1e15), Some(2.0)], vec![None, Some(3e-15)], vec![None, None]], 3, 2);
    let p0 = Raw::from_dense(&[vec![None, None], vec![None, None]], 2, 2);
    let p1 = Raw::from_dense(&[vec![Some(4.0), Some(1e10)], vec![None, Some(1e-10)]], 2, 2);
    for &(smin, smax) in MINMAX.iter().chain(MINMAX_ODD.iter()) { for &iters in ITERS.iter() { for (k, p) in [&p0, &p1].iter().enumerate() {
        v.push(Problem { p: (*p).clone(), q: vec![1.0, -2e5], a: a.clone(), b: vec![1.0, 2.0, 3.0],
                         cones: if k == 0 { vec![ConeS::Zero(1), ConeS::Nn(2)] } else { vec![ConeS::Soc(3)] },
                         enable: true, iters, smin, smax, defaults: false });
    } } }
    // m = 0
    v.push(Problem { p: p1.clone(), q: vec![1.0, 1.0], a: Raw::from_dense(&[], 0, 2), b: vec![], cones: vec![], enable: true, iters: 10, smin: 1e-4, smax: 1e4, defaults: false });
    // disabled
    v.push(Problem { p: p1.clone(), q: vec![1.0, -2e5], a: a.clone(), b: vec![1.0, 2.0, 3.0], cones: vec![ConeS::Exp], enable: false, iters: 10, smin: 1e-4, smax: 1e4, defaults: false });
    v
}

/// Witness of C10_equil_bounds_literal_refuted: settings with min > 1 (the identity scaling the
/// code starts from is then outside [min,max]); with max_iter = 0 nothing moves it.
fn literal_bounds_witness(sink: &mut CaseSink, st: &mut Stats) {
    let pr = Problem { p: Raw::from_dense(&[vec![None]], 1, 1), q: vec![1.0], a: Raw::from_dense(&[vec![Some(1.0)]], 1, 1), b: vec![1.0],
                       cones: vec![ConeS::Nn(1)], enable: true, iters: 0, smin: 2.0, smax: 4.0, defaults: false };
    if let Some(out) = run_rust(&pr) {
        st.bump("literal_bounds_witness");
        sink.case("literal_bounds", pr.json(),
                  format!("ofb (bounds_ok d0 {} {} {} {} {})", cdy(pr.smin), cdy(pr.smax), cdylist(&out.d), cdylist(&out.e), cdy(out.c)),
                  &["witness"]);
    }
}

fn main() {
    let args: Vec<String> = std::env::args().collect();
    let mut out = String::from("/dev/stdout");
    let mut seed: u64 = 1;
    let mut tier = String::from("quick");
    let mut replay: Option<String> = None;
    let mut i = 1;
    while i < args.len() {
        match args[i].as_str() {
            "--out" => { out = args[i + 1].clone(); i += 1; }
            "--seed" => { seed = args[i + 1].parse().unwrap_or(1); i += 1; }
            "--tier" => { tier = args[i + 1].clone(); i += 1; }
            "--replay" => { replay = Some(args[i + 1].clone()); i += 1; }
            _ => {}
        }
        i += 1;
    }
    silence_panics();
    let thorough = tier == "thorough";
    let mut sink = CaseSink::new(&out);
    let mut st = Stats::default();
    if let Some(p) = replay {
        let txt = std::fs::read_to_string(&p).expect("cannot read replay file");
        let v: Value = serde_json::from_str(&txt).expect("replay file is not JSON");
        let cases = match v.get("cases") { Some(Value::Array(a)) => a.clone(), _ => vec![v] };
        for c in cases.iter() {
            let inp = if c.get("input").is_some() { &c["input"] } else { c };
            if c.get("op").and_then(|o| o.as_str()) == Some("literal_bounds") { literal_bounds_witness(&mut sink, &mut st); continue; }
            if inp.get("P").is_none() { st.bump("replay_record_without_input(skipped)"); continue; }
            emit(&mut sink, &mut st, &Problem::from_json(inp), &["replay"]);
        }
    } else {
        // corpus first
        if let Ok(rd) = std::fs::read_dir("../../corpus/C10") {
            let mut files: Vec<_> = rd.flatten().map(|e| e.path()).filter(|p| p.extension().map(|e| e == "json").unwrap_or(false)).collect();
            files.sort();
            for f in files {
                if let Ok(txt) = std::fs::read_to_string(&f) {
                    if let Ok(v) = serde_json::from_str::<Value>(&txt) {
                        let inp = if v.get("input").is_some() { v["input"].clone() } else { v.clone() };
                        emit(&mut sink, &mut st, &Problem::from_json(&inp), &["corpus"]);
                    }
                }
            }
        }
        for pr in fixed_cases().iter() { emit(&mut sink, &mut st, pr, &["fixed"]); }
        literal_bounds_witness(&mut sink, &mut st);
        let mut rng = Rng::new(seed);
        let nprob = if thorough { 6000 } else { 520 };
        for k in 0..nprob {
            let pr = gen_problem(&mut rng, k % 4 == 3);
            emit(&mut sink, &mut st, &pr, &["random"]);
        }
        for _ in 0..(if thorough { 1500 } else { 120 }) {
            let pr = gen_creep(&mut rng);
            emit(&mut sink, &mut st, &pr, &["creep"]);
        }
    }
    sink.record(json!({"stats": st.by}));
    sink.record(json!({"f9": {"scalings_over_max": st.over_max, "scalings_under_min": st.under_min, "max_excess_in_eps": st.max_excess_ulps,
                              "cones_rectified": st.cones_rectified, "cones_not_bit_constant": st.cones_not_bit_constant,
                              "max_spread_in_eps": st.max_spread_rel}}));
    sink.record(json!({"meta": {"prop": "c10", "seed": seed, "tier": tier, "blas": blas_shim::AVAILABLE}}));
    sink.flush();
}
