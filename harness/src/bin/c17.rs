//! C17: chordal analysis yields a valid clique tree covering the sparsity pattern.
//! Runs the implementation's analysis (through `ChordalInfo::new`, i.e. the path the solver
//! takes) on exhaustive small graphs and random structured families, for the three merge
//! strategies, under catch_unwind + watchdog, and prints for every run a Gallina term that
//! evaluates the proved checker `check_tree` (Chordal/TreeSpec.v) on the produced tree.
//! Also: DisjointSetUnion against the Coq model (Chordal/Dsu.v).
#[path = "../blas_shim.rs"]
mod blas_shim;
#[path = "../common.rs"]
mod common;

use clarabel::algebra::*;
use clarabel::solver::*;
use clarabel::verif_hooks::c1718 as vh;
use common::*;
use serde_json::{json, Value};
use std::collections::BTreeMap;
use std::sync::mpsc;
use std::time::Duration;

const MERGES: [&str; 3] = ["none", "parent_child", "clique_graph"];

fn tri_idx(i: usize, j: usize) -> usize {
    // own packed upper-triangle index (i <= j): column j starts at j(j+1)/2
    let (i, j) = if i <= j { (i, j) } else { (j, i) };
    j * (j + 1) / 2 + i
}

#[derive(Clone, Debug)]
pub struct Graph {
    pub n: usize,
    pub edges: Vec<(usize, usize)>, // i < j, sorted, distinct
}
impl Graph {
    fn new(n: usize, mut e: Vec<(usize, usize)>) -> Self {
        for p in e.iter_mut() {
            if p.0 > p.1 { *p = (p.1, p.0); }
        }
        e.retain(|p| p.0 != p.1 && p.1 < n);
        e.sort();
        e.dedup();
        Graph { n, edges: e }
    }
    fn json(&self) -> Value {
        json!({"n": self.n, "edges": self.edges.iter().map(|e| vec![e.0, e.1]).collect::<Vec<_>>()})
    }
    fn from_json(v: &Value) -> Self {
        let n = v["n"].as_u64().unwrap() as usize;
        let e = v["edges"].as_array().unwrap().iter().map(|p| (p[0].as_u64().unwrap() as usize, p[1].as_u64().unwrap() as usize)).collect();
        Graph::new(n, e)
    }
    fn coq(&self) -> String {
        format!("(mkPat {} {}%N)", cn(self.n), clist(&self.edges, |e| format!("({},{})", e.0, e.1)))
    }
    fn is_dense(&self) -> bool {
        self.edges.len() == self.n * (self.n.max(1) - 1) / 2
    }
    fn permuted(&self, rng: &mut Rng) -> Graph {
        let mut p: Vec<usize> = (0..self.n).collect();
        rng.shuffle(&mut p);
        Graph::new(self.n, self.edges.iter().map(|e| (p[e.0], p[e.1])).collect())
    }
}

/// how the pattern is presented to the analysis: which entries sit in A, which in b, and
/// whether diagonal entries are present in the data at all (the analysis must force them)
#[derive(Clone, Copy, Debug)]
struct Present { diag: bool, in_b: bool }

fn problem_of(g: &Graph, pr: Present) -> (CscMatrix<f64>, Vec<f64>, Vec<SupportedConeT<f64>>) {
    let n = g.n;
    let m = n * (n + 1) / 2;
    let mut rows: Vec<usize> = g.edges.iter().map(|e| tri_idx(e.0, e.1)).collect();
    if pr.diag { for i in 0..n { rows.push(tri_idx(i, i)); } }
    rows.sort();
    let mut b = vec![0.0; m];
    let mut ar = vec![];
    for (k, r) in rows.iter().enumerate() {
        if pr.in_b && k % 2 == 1 { b[*r] = 1.0; } else { ar.push(*r); }
    }
    let nnz = ar.len();
    let a = CscMatrix::new(m, 1, vec![0, nnz], ar, vec![1.0; nnz]);
    (a, b, vec![SupportedConeT::PSDTriangleConeT(n)])
}

enum Outcome { Decomposed(vh::TreeView), Undecomposed(usize), Panicked, Hung }

fn settings_for(merge: &str) -> DefaultSettings<f64> {
    let mut s = DefaultSettings::<f64>::default();
    s.chordal_decomposition_merge_method = merge.to_string();
    s
}

/// the analysis itself (through ChordalInfo::new), panics caught; no watchdog
fn analyse_raw(g2: &Graph, merge2: &str, pr: Present) -> Option<Result<vh::TreeView, usize>> {
    guarded(|| {
        let (a, b, cones) = problem_of(g2, pr);
        let st = settings_for(merge2);
        let mut v = vh::analyse_problem(&a, &b, &cones, &st);
        if let Some(t) = v.pop() {
            Ok(t)
        } else {
            // not decomposed: which exit?  run the analysis without the early exits
            let n = g2.n;
            let mut mask = vec![false; n * (n + 1) / 2];
            for e in g2.edges.iter() { mask[tri_idx(e.0, e.1)] = true; }
            for i in 0..n { mask[tri_idx(i, i)] = true; }
            if mask.iter().all(|x| *x) { Err(0usize) } else { Err(vh::analyse_mask_direct(&mask, merge2).n_cliques) }
        }
    })
}
fn outcome_of(r: Option<Result<vh::TreeView, usize>>) -> Outcome {
    match r { Some(Ok(t)) => Outcome::Decomposed(t), Some(Err(k)) => Outcome::Undecomposed(k), None => Outcome::Panicked }
}

/// All graphs with enumeration index in lo..hi on n vertices, three strategies each, computed by
/// ONE persistent worker thread that the caller watches: if the worker stays on one graph longer
/// than `timeout_ms` that graph is recorded as Hung (all strategies) and a fresh worker continues
/// after it (the stuck thread is abandoned).
fn run_range(n: usize, lo: u64, hi: u64, pr: Present, timeout_ms: u64) -> Vec<(u64, Vec<Outcome>)> {
    use std::sync::atomic::{AtomicU64, Ordering};
    use std::sync::{Arc, Mutex};
    let results: Arc<Mutex<Vec<(u64, u64, Vec<Outcome>)>>> = Arc::new(Mutex::new(vec![])); // (generation, bits, outcomes)
    let mut out: Vec<(u64, Vec<Outcome>)> = vec![];
    let mut start = lo;
    let mut generation = 0u64;
    let t_origin = std::time::Instant::now();
    while start < hi {
        generation += 1;
        let cur = Arc::new(AtomicU64::new(start));
        let since = Arc::new(AtomicU64::new(t_origin.elapsed().as_millis() as u64));
        let done = Arc::new(AtomicU64::new(0));
        let (cur2, since2, done2, res2) = (cur.clone(), since.clone(), done.clone(), results.clone());
        let gen = generation;
        let spawn = std::thread::Builder::new().stack_size(32 << 20).spawn(move || {
            for bits in start..hi {
                cur2.store(bits, Ordering::SeqCst);
                since2.store(t_origin.elapsed().as_millis() as u64, Ordering::SeqCst);
                let g = graph_of_bits(n, bits);
                let o: Vec<Outcome> = MERGES.iter().map(|m| outcome_of(analyse_raw(&g, m, pr))).collect();
                res2.lock().unwrap().push((gen, bits, o));
            }
            done2.store(1, Ordering::SeqCst);
        });
        if spawn.is_err() { std::thread::sleep(Duration::from_millis(200)); generation -= 1; continue; }
        loop {
            std::thread::sleep(Duration::from_millis(if hi - lo < 64 { 1 } else { 20 }));
            if done.load(Ordering::SeqCst) == 1 { start = hi; break; }
            let now = t_origin.elapsed().as_millis() as u64;
            if now.saturating_sub(since.load(Ordering::SeqCst)) > timeout_ms {
                let stuck = cur.load(Ordering::SeqCst);
                // double-check that the worker has not moved on meanwhile
                if now.saturating_sub(since.load(Ordering::SeqCst)) > timeout_ms && cur.load(Ordering::SeqCst) == stuck {
                    let mut r = results.lock().unwrap();
                    r.push((generation, stuck, vec![Outcome::Hung, Outcome::Hung, Outcome::Hung]));
                    drop(r);
                    start = stuck + 1;
                    break;
                }
            }
        }
        let mut r = results.lock().unwrap();
        let mut seen = std::collections::BTreeSet::new();
        for (gn, bits, o) in r.drain(..) { if gn == generation && seen.insert(bits) { out.push((bits, o)); } }
    }
    out.sort_by_key(|e| e.0);
    out
}

static HUNG_RUNS: std::sync::atomic::AtomicUsize = std::sync::atomic::AtomicUsize::new(0);
fn analyse(g: &Graph, merge: &str, pr: Present, timeout_ms: u64) -> Outcome {
    let (tx, rx) = mpsc::channel();
    let mut tries = 0;
    loop {
        let g2 = g.clone();
        let merge2 = merge.to_string();
        let tx2 = tx.clone();
        let stack = if g.n <= 64 { 1usize << 20 } else { 32usize << 20 };
        let r = std::thread::Builder::new().stack_size(stack).spawn(move || {
            let r = analyse_raw(&g2, &merge2, pr);
            let _ = tx2.send(r);
        });
        // the OS may refuse a new thread under load: wait and retry (never a verdict)
        if r.is_ok() { break; }
        tries += 1;
        if tries > 600 { eprintln!("cannot spawn worker thread"); std::process::exit(3); }
        std::thread::sleep(Duration::from_millis(100));
    }
    // once three runs have hung (already a violation) the remaining ones get a short leash, so
    // that a looping implementation cannot stretch the check to hours
    let eff = if HUNG_RUNS.load(std::sync::atomic::Ordering::Relaxed) >= 3 { timeout_ms.min(3000) } else { timeout_ms };
    match rx.recv_timeout(Duration::from_millis(eff)) {
        Ok(Some(Ok(t))) => Outcome::Decomposed(t),
        Ok(Some(Err(k))) => Outcome::Undecomposed(k),
        Ok(None) => Outcome::Panicked,
        Err(_) => { HUNG_RUNS.fetch_add(1, std::sync::atomic::Ordering::Relaxed); Outcome::Hung }
    }
}

fn cpar(p: usize) -> String {
    if p == vh::NO_PARENT_V { "Root".into() } else if p == vh::INACTIVE_NODE_V { "Dead".into() } else { format!("Par {}", p) }
}
fn cnn(v: &[Vec<usize>]) -> String {
    format!("{}%N", clist(v, |l| clist(l, |x| format!("{}", x))))
}
fn tree_coq(t: &vh::TreeView) -> String {
    let nblk = t.nblk.clone().unwrap_or_default();
    format!("(mkTree {} {} {}%N {} {} {} {})", cnn(&t.snode), cnn(&t.separators), clist(&t.parent, |p| cpar(*p)),
            cnlist(&t.snode_post), cnlist(&nblk), cnlist(&t.ordering), cn(t.n_cliques))
}
fn outcome_coq(o: &Outcome) -> String {
    match o {
        Outcome::Decomposed(t) => format!("(Decomposed {})", tree_coq(t)),
        Outcome::Undecomposed(k) => format!("(Undecomposed {})", cn(*k)),
        Outcome::Panicked => "Crashed".into(),
        Outcome::Hung => "Hung".into(),
    }
}
fn outcome_tag(o: &Outcome) -> &'static str {
    match o { Outcome::Decomposed(_) => "decomposed", Outcome::Undecomposed(0) => "dense", Outcome::Undecomposed(_) => "single_clique", Outcome::Panicked => "panic", Outcome::Hung => "hang" }
}

struct Stats { by: BTreeMap<String, usize>, max_cliques: usize, max_n: usize }
impl Stats {
    fn bump(&mut self, k: &str) { *self.by.entry(k.to_string()).or_insert(0) += 1; }
}

/// one case = one graph under the listed strategies (max of the per-strategy codes)
fn emit(sink: &mut CaseSink, st: &mut Stats, fam: &str, g: &Graph, merges: &[&str], pr: Present, timeout_ms: u64) -> bool {
    let outs: Vec<Outcome> = merges.iter().map(|m| analyse(g, m, pr, timeout_ms)).collect();
    emit_with(sink, st, fam, g, merges, pr, &outs);
    !outs.iter().any(|o| matches!(o, Outcome::Panicked | Outcome::Hung))
}
fn emit_with(sink: &mut CaseSink, st: &mut Stats, fam: &str, g: &Graph, merges: &[&str], pr: Present, outs: &[Outcome]) {
    let mut parts = vec![];
    for (m, o) in merges.iter().zip(outs.iter()) {
        st.bump(&format!("{}:{}", m, outcome_tag(o)));
        if let Outcome::Decomposed(t) = o { st.max_cliques = st.max_cliques.max(t.n_cliques); }
        parts.push(format!("c17_case_po p {}", outcome_coq(o)));
    }
    st.bump(&format!("family:{}", fam));
    st.max_n = st.max_n.max(g.n);
    let coq = format!("(let p := {} in maxl [{}])", g.coq(), parts.join("; "));
    let mut inp = g.json();
    inp["merges"] = json!(merges);
    inp["diag"] = json!(pr.diag);
    inp["in_b"] = json!(pr.in_b);
    sink.case("tree", inp, coq, &[fam]);
}
/// all labelled graphs on n vertices, analysed by `workers` threads (each call still under its
/// own watchdog), emitted in enumeration order
fn emit_exhaustive(sink: &mut CaseSink, st: &mut Stats, n: usize, pr: Present, workers: usize) {
    let fam = format!("exhaustive{}", n);
    let total: u64 = 1u64 << (n * (n - 1) / 2);
    let w = (workers as u64).min(total).max(1);
    let mut results: Vec<Vec<(u64, Vec<Outcome>)>> = vec![];
    std::thread::scope(|sc| {
        let hs: Vec<_> = (0..w).map(|k| sc.spawn(move || run_range(n, total * k / w, total * (k + 1) / w, pr, 10000))).collect();
        for h in hs { results.push(h.join().expect("worker")); }
    });
    for chunk in results.iter() { for (bits, o) in chunk.iter() { emit_with(sink, st, &fam, &graph_of_bits(n, *bits), &MERGES, pr, o); } }
}

/// run `f` in its own thread; None if it panicked or did not finish within `timeout_ms`
fn watched<R: Send + 'static>(timeout_ms: u64, f: impl FnOnce() -> R + Send + 'static) -> Option<R> {
    let (tx, rx) = mpsc::channel();
    let h = std::thread::Builder::new().stack_size(32 << 20).spawn(move || { let r = guarded(f); let _ = tx.send(r); });
    if h.is_err() { return None; }
    match rx.recv_timeout(Duration::from_millis(timeout_ms)) { Ok(Some(r)) => Some(r), _ => None }
}
/// model validation of reorder_snode_consecutively (information only)
fn emit_reorder(sink: &mut CaseSink, st: &mut Stats, g: &Graph) {
    let n = g.n;
    let mut mask = vec![false; n * (n + 1) / 2];
    for e in g.edges.iter() { mask[tri_idx(e.0, e.1)] = true; }
    for i in 0..n { mask[tri_idx(i, i)] = true; }
    if mask.iter().all(|x| *x) { return; }
    let mut parts = vec![];
    for m in MERGES.iter() {
        let (mk, mm) = (mask.clone(), m.to_string());
        if let Some((a, b)) = watched(15000, move || vh::reorder_trace(&mk, &mm)) {
            if a.n_cliques < 2 { continue; }
            parts.push(format!("c17_reorder {} {} {} {} {} {} {}", cnn(&a.snode), cnn(&a.separators), cnlist(&a.snode_post), cnlist(&a.ordering), cnn(&b.snode), cnn(&b.separators), cnlist(&b.ordering)));
        }
    }
    if parts.is_empty() { return; }
    st.bump("reorder_model_cases");
    let mut inp = g.json();
    inp["reorder"] = json!(true);
    sink.case("reorder", inp, format!("(maxl [{}])", parts.join("; ")), &["reorder"]);
}

/// model validation of the merge strategies (information only): decisions taken by the real
/// strategy objects (hook merge_trace) against the Gallina models MergePC / MergeCG, and the
/// no-merge pipeline (factor pattern, supernodes, separators, parents) against NoMerge
fn emit_merge_models(sink: &mut CaseSink, st: &mut Stats, g: &Graph) {
    let n = g.n;
    let mut mask = vec![false; n * (n + 1) / 2];
    for e in g.edges.iter() { mask[tri_idx(e.0, e.1)] = true; }
    for i in 0..n { mask[tri_idx(i, i)] = true; }
    if mask.iter().all(|x| *x) { return; }
    let dec = |d: &[(usize, usize, bool)]| clist(d, |e| format!("({},{},{})", e.0, e.1, if e.2 { "true" } else { "false" }));
    let nat = |v: &[usize]| clist(v, |x| format!("{}", x));
    let nnat = |v: &[Vec<usize>]| clist(v, |l| clist(l, |x| format!("{}", x)));
    let ppar = |v: &[usize]| clist(v, |p| if *p == vh::NO_PARENT_V { "PostOrder.Root".to_string() } else if *p == vh::INACTIVE_NODE_V { "PostOrder.Dead".to_string() } else { format!("PostOrder.Par {}", p) });
    let mut parts = vec![];
    let mk = mask.clone();
    if let Some(t) = watched(15000, move || vh::merge_trace(&mk, "parent_child")) {
        if t.before.n_cliques >= 2 {
            parts.push(format!("c17_merge_pc {} {} {} {} {} {} {} {}", nnat(&t.before.snode), nnat(&t.before.separators), ppar(&t.before.parent), nat(&t.before.snode_post),
                               dec(&t.decisions), nnat(&t.loop_end_snode), ppar(&t.after.parent), nat(&t.after.snode_post)));
        }
    }
    let mk = mask.clone();
    if let Some(t) = watched(15000, move || vh::merge_trace(&mk, "clique_graph")) {
        if t.before.n_cliques >= 2 {
            parts.push(format!("c17_merge_cg {} {} {} {}", nnat(&t.before_snode_raw), nnat(&t.before_sep_raw), dec(&t.decisions), nnat(&t.loop_end_snode)));
        }
    }
    let (mk, mk2) = (mask.clone(), mask.clone());
    if let Some((cols, ordering)) = watched(15000, move || vh::factor_columns(&mk)) {
        // the pattern in the permuted numbering that QDLDL factors: tree vertex k is original vertex ordering[k]
        let mut inv = vec![0usize; n];
        for (k, &o) in ordering.iter().enumerate() { inv[o] = k; }
        let pe: Vec<(usize, usize)> = g.edges.iter().map(|e| (inv[e.0], inv[e.1])).collect();
        parts.push(format!("c17_fill {} {} {}", n, clist(&pe, |e| format!("({},{})", e.0, e.1)), nnat(&cols)));
        if let Some(t) = watched(15000, move || vh::merge_trace(&mk2, "none")) {
            let par: Vec<String> = t.before.parent.iter().map(|p| if *p == vh::NO_PARENT_V { "None".to_string() } else { format!("Some {}", p) }).collect();
            parts.push(format!("c17_nomerge {} {} {} [{}]", nnat(&cols), nnat(&t.before.snode), nnat(&t.before.separators), par.join(";")));
            parts.push(format!("c17_ps {} {} [{}]", nnat(&cols), nnat(&t.before.snode), par.join(";")));
        }
    }
    let mk = mask.clone();
    if let Some(ct) = watched(15000, move || vh::merge_trace_cg(&mk)) {
        if let Some((edges, taken)) = &ct.kruskal {
            let t = &ct.trace;
            let ncl_live = t.loop_end_snode.iter().filter(|c| !c.is_empty()).count();
            let es = clist(edges, |e| format!("({},{},{}%Z)", e.0, e.1, e.2));
            parts.push(format!("c17_kruskal {} {} {} {}", t.loop_end_snode.len(), ncl_live - 1, es, cblist(taken)));
            let mst: Vec<(usize, usize)> = edges.iter().zip(taken.iter()).filter(|(_, k)| **k).map(|(e, _)| (e.0, e.1)).collect();
            let alle: Vec<(usize, usize)> = edges.iter().map(|e| (e.0, e.1)).collect();
            let pl = |v: &[(usize, usize)]| clist(v, |e| format!("({},{})", e.0, e.1));
            let vlast = *t.before.vertex_post.last().unwrap_or(&0);
            parts.push(format!("c17_cgtree {} {} {} {} {} {} {} {}", nnat(&t.loop_end_snode), pl(&mst), pl(&alle), vlast, ppar(&t.after.parent), nat(&t.after.snode_post), nnat(&t.after.snode), nnat(&t.after.separators)));
        }
    }
    if parts.is_empty() { return; }
    st.bump("merge_model_cases");
    let mut inp = g.json();
    inp["merge_models"] = json!(true);
    sink.case("merge_models", inp, format!("(maxl [{}]%nat)", parts.join("; ")), &["merge_models"]);
}

// ------------------------------------------------------------------ generators
fn all_graphs(n: usize, f: &mut dyn FnMut(Graph)) {
    let pairs: Vec<(usize, usize)> = (0..n).flat_map(|j| (0..j).map(move |i| (i, j))).collect();
    let k = pairs.len();
    for bits in 0u64..(1u64 << k) {
        let e = (0..k).filter(|b| bits >> b & 1 == 1).map(|b| pairs[b]).collect();
        f(Graph { n, edges: { let mut e: Vec<(usize, usize)> = e; e.sort(); e } });
    }
}
fn banded(n: usize, bw: usize) -> Graph {
    Graph::new(n, (0..n).flat_map(|i| (1..=bw).map(move |d| (i, i + d))).collect())
}
fn arrow(n: usize, head: usize, bw: usize) -> Graph {
    let mut e = banded(n, bw).edges;
    for h in 0..head.min(n) { for i in 0..n { e.push((n - 1 - h, i)); } }
    Graph::new(n, e)
}
fn block_diag(rng: &mut Rng, n: usize, maxb: usize, connect: bool) -> Graph {
    let mut e = vec![];
    let mut s = 0;
    while s < n {
        let b = 1 + rng.below(maxb.min(n - s));
        let dense = rng.chance(1, 2);
        for i in s..s + b { for j in i + 1..s + b { if dense || j - i <= 2 { e.push((i, j)); } } }
        if connect && s > 0 { e.push((s - 1, s)); }
        s += b;
    }
    Graph::new(n, e)
}
fn erdos(rng: &mut Rng, n: usize, num: usize, den: usize) -> Graph {
    let mut e = vec![];
    for j in 0..n { for i in 0..j { if rng.chance(num, den) { e.push((i, j)); } } }
    Graph::new(n, e)
}
fn cycle(n: usize) -> Graph { Graph::new(n, (0..n).map(|i| (i, (i + 1) % n)).collect()) }
fn grid(r: usize, c: usize) -> Graph {
    let mut e = vec![];
    for i in 0..r { for j in 0..c { if j + 1 < c { e.push((i * c + j, i * c + j + 1)); } if i + 1 < r { e.push((i * c + j, (i + 1) * c + j)); } } }
    Graph::new(r * c, e)
}
/// random chordal graph built as a tree of cliques: every new clique shares `sep` vertices with
/// a random existing clique and brings `fresh` new vertices.  Large `fresh`/small `sep` keeps the
/// merge strategies from merging (many surviving cliques: deep union-find trees in Kruskal).
fn clique_tree(rng: &mut Rng, ncl: usize, fresh: (usize, usize), sep: (usize, usize), star: bool, nmax: usize) -> Graph {
    let mut cliques: Vec<Vec<usize>> = vec![];
    let mut n = 0;
    let mut e = vec![];
    for k in 0..ncl {
        let f = fresh.0 + rng.below(fresh.1 - fresh.0 + 1);
        if n + f > nmax { break; }
        let mut c: Vec<usize> = vec![];
        if k > 0 {
            let host = if star { cliques[0].clone() } else { cliques[rng.below(cliques.len())].clone() };
            let s = (sep.0 + rng.below(sep.1 - sep.0 + 1)).min(host.len());
            let mut h = host.clone();
            rng.shuffle(&mut h);
            c.extend(&h[0..s]);
        }
        for _ in 0..f { c.push(n); n += 1; }
        for a in 0..c.len() { for b in a + 1..c.len() { e.push((c[a], c[b])); } }
        cliques.push(c);
    }
    Graph::new(n.max(1), e)
}
fn disconnected(rng: &mut Rng, parts: &[Graph], isolated: usize) -> Graph {
    let mut e = vec![];
    let mut off = 0;
    for p in parts { for x in p.edges.iter() { e.push((x.0 + off, x.1 + off)); } off += p.n; }
    Graph::new(off + isolated, e).permuted(rng)
}

/// many overlapping cliques of unequal overlap on 10..40 vertices (window cliques over a band or
/// arrow skeleton plus a few long-range edges): after fill-in the clique graph has many edges
/// whose maximum-weight one is often not permissible, which drives `traverse` into its scan of
/// the remaining edges (through `index_to_coord`), also after clique 0 has been merged away
fn overlap_family(rng: &mut Rng, n: usize) -> Graph {
    let mut e = match rng.below(3) { 0 => banded(n, 1).edges, 1 => arrow(n, 1, 1).edges, _ => cycle(n).edges };
    let ncl = n / 2 + rng.below(n);
    for _ in 0..ncl {
        let sz = 2 + rng.below(4);
        let w = (sz + rng.below(5)).min(n);
        let start = rng.below(n - w + 1);
        let mut vs: Vec<usize> = (start..start + w).collect();
        rng.shuffle(&mut vs);
        vs.truncate(sz);
        for a in 0..vs.len() { for b in a + 1..vs.len() { e.push((vs[a], vs[b])); } }
    }
    for _ in 0..rng.below(4) { e.push((rng.below(n), rng.below(n))); }
    let g = Graph::new(n, e);
    if rng.chance(1, 2) { g.permuted(rng) } else { g }
}
fn random_family(rng: &mut Rng, k: usize, big: bool) -> (String, Graph) {
    let nmax = if big { 300 } else { 48 };
    let n = 4 + rng.below(nmax - 3);
    match k % 12 {
        0 => ("banded".into(), banded(n, 1 + rng.below(5))),
        1 => ("arrow".into(), arrow(n, 1 + rng.below(3), rng.below(3))),
        2 => ("blockdiag".into(), block_diag(rng, n, 9, false)),
        3 => ("blockdiag_linked".into(), block_diag(rng, n, 9, true)),
        4 => { let a = banded(2 + rng.below(n / 2 + 1), 2); let b = cycle(3 + rng.below(8)); let c = clique_tree(rng, 6, (1, 3), (1, 2), false, n); let iso = rng.below(4); ("disconnected".into(), disconnected(rng, &[a, b, c], iso)) }
        5 => { let k = 3 + rng.below(if big { 60 } else { 12 }); ("chordal_tree".into(), clique_tree(rng, k, (1, 4), (1, 3), false, nmax).permuted(rng)) }
        6 => { let k = 8 + rng.below(if big { 50 } else { 8 }); ("chordal_deep".into(), clique_tree(rng, k, (3, 5), (1, 2), false, nmax)) }
        7 => { let k = 8 + rng.below(if big { 40 } else { 6 }); ("chordal_star".into(), clique_tree(rng, k, (3, 5), (1, 3), true, nmax).permuted(rng)) }
        8 => { let d = 2 + rng.below(12); ("erdos_sparse".into(), erdos(rng, n.min(if big { 120 } else { 40 }), 1, d)) }
        9 => ("cycle".into(), cycle(n).permuted(rng)),
        10 => { let r = 2 + rng.below(if big { 12 } else { 5 }); let c = 2 + rng.below(if big { 12 } else { 6 }); ("grid".into(), grid(r, c)) }
        _ => ("banded_permuted".into(), banded(n, 1 + rng.below(4)).permuted(rng)),
    }
}

/// `CscMatrix::index_to_coord` against the CSC model (Csc/Model.v): every stored index of random
/// sparse patterns, always including matrices whose leading columns are empty
fn idx2coord_cases(sink: &mut CaseSink, st: &mut Stats, rng: &mut Rng, count: usize) {
    for k in 0..count {
        let (m, n) = (1 + rng.below(5), 1 + rng.below(6));
        let lead = if k % 2 == 0 { 1 + rng.below(n) } else { 0 }; // columns 0..lead are empty
        let mut colptr = vec![0usize];
        let mut rowval = vec![];
        for j in 0..n {
            if j >= lead.min(n - 1) || lead == 0 { for i in 0..m { if rng.chance(1, 2) { rowval.push(i); } } }
            colptr.push(rowval.len());
        }
        if rowval.is_empty() { rowval.push(m - 1); *colptr.last_mut().unwrap() = 1; }
        let nnz = rowval.len();
        let a = CscMatrix::new(m, n, colptr.clone(), rowval.clone(), vec![1.0f64; nnz]);
        let mut parts = vec![];
        for idx in 0..=nnz {
            let o = guarded(|| a.index_to_coord(idx));
            let os = match o { Some((r, c)) => format!("(Some ({}%N,{}%N))", r, c), None => "None".to_string() };
            parts.push(format!("c17_idx2coord {} {} {} {} {} {}", cn(m), cn(n), cnlist(&colptr), cnlist(&rowval), cn(idx), os));
        }
        st.bump("idx2coord");
        sink.case("idx2coord", json!({"m": m, "n": n, "colptr": colptr, "rowval": rowval}), format!("(maxl [{}])", parts.join("; ")), &["idx2coord"]);
    }
}

// ------------------------------------------------------------------ DSU correspondence
fn dsu_cases(sink: &mut CaseSink, st: &mut Stats, rng: &mut Rng, count: usize) {
    // the F5 witness first, then random union sequences (balanced ones build deep trees)
    let mut seqs: Vec<(usize, Vec<(usize, usize)>)> = vec![(8, vec![(0, 1), (2, 3), (1, 3), (4, 5), (6, 7), (5, 7), (3, 7)])];
    for k in 0..count {
        let n = 2 + rng.below(if k % 3 == 0 { 40 } else { 12 });
        let mut ops = vec![];
        if k % 2 == 0 {
            // tournament-style: merge blocks of doubling size through their first/last elements
            let mut w = 1;
            while w < n {
                let mut s = 0;
                while s + w < n { let a = s + rng.below(w); let b = s + w + rng.below(w.min(n - s - w)); ops.push(if rng.chance(1, 2) { (a, b) } else { (b, a) }); s += 2 * w; }
                w *= 2;
            }
            let drop = rng.below(ops.len().max(1));
            if rng.chance(1, 3) && !ops.is_empty() { ops.remove(drop); }
        } else {
            for _ in 0..rng.below(2 * n) { ops.push((rng.below(n), rng.below(n))); }
        }
        seqs.push((n, ops));
    }
    for (n, ops) in seqs { dsu_one(sink, st, n, ops); }
}
fn dsu_one(sink: &mut CaseSink, st: &mut Stats, n: usize, ops: Vec<(usize, usize)>) {
    {
        let mut d = vh::Dsu::new(n);
        for (x, y) in ops.iter() { d.union(*x, *y); }
        let mut qs = vec![];
        for a in 0..n { for b in 0..n { if n <= 10 || (a + 3 * b) % 7 == 0 { qs.push((a, b)); } } }
        let ans: Option<Vec<bool>> = guarded(|| qs.iter().map(|q| d.in_same_set(q.0, q.1)).collect());
        let coq = match &ans {
            Some(a) => format!("c17_dsu {} {}%N {}%N {}", cn(n), clist(&ops, |p| format!("({},{})", p.0, p.1)), clist(&qs, |p| format!("({},{})", p.0, p.1)), cblist(a)),
            None => "1%N".to_string(),
        };
        st.bump("dsu");
        sink.case("dsu", json!({"n": n, "ops": ops.iter().map(|p| vec![p.0, p.1]).collect::<Vec<_>>()}), coq, &["dsu"]);
    }
}

// ------------------------------------------------------------------ compact stream for the extracted checker
fn compact_outcome(o: &Outcome, out: &mut String) {
    use std::fmt::Write as _;
    let nl = |v: &[usize], out: &mut String| { let _ = write!(out, " {}", v.len()); for x in v { let _ = write!(out, " {}", x); } };
    match o {
        Outcome::Decomposed(t) => {
            out.push_str(" 0");
            let _ = write!(out, " {}", t.snode.len()); for l in t.snode.iter() { nl(l, out); }
            let _ = write!(out, " {}", t.separators.len()); for l in t.separators.iter() { nl(l, out); }
            let _ = write!(out, " {}", t.parent.len());
            for &p in t.parent.iter() { if p == vh::NO_PARENT_V { out.push_str(" -1"); } else if p == vh::INACTIVE_NODE_V { out.push_str(" -2"); } else { let _ = write!(out, " {}", p); } }
            nl(&t.snode_post, out);
            nl(&t.nblk.clone().unwrap_or_default(), out);
            nl(&t.ordering, out);
            let _ = write!(out, " {}", t.n_cliques);
        }
        Outcome::Undecomposed(k) => { let _ = write!(out, " 1 {}", k); }
        Outcome::Panicked => out.push_str(" 2"),
        Outcome::Hung => out.push_str(" 3"),
    }
}
fn graph_of_bits(n: usize, bits: u64) -> Graph {
    let pairs: Vec<(usize, usize)> = (0..n).flat_map(|j| (0..j).map(move |i| (i, j))).collect();
    let mut e: Vec<(usize, usize)> = (0..pairs.len()).filter(|b| bits >> b & 1 == 1).map(|b| pairs[b]).collect();
    e.sort();
    Graph { n, edges: e }
}
/// every labelled graph on n vertices whose enumeration index is = shard (mod nshards), one line
/// each: bits n #edges (i j)* then the three strategy outcomes
fn exhaustive_stream(n: usize, shard: u64, nshards: u64, path: &str) {
    use std::io::Write as _;
    let f: Box<dyn std::io::Write> = if path == "/dev/stdout" || path == "-" { Box::new(std::io::stdout()) } else { Box::new(std::fs::File::create(path).expect("cannot create output")) };
    let mut w = std::io::BufWriter::with_capacity(1 << 20, f);
    let npairs = n * (n - 1) / 2;
    let std_pr = Present { diag: true, in_b: false };
    // shard = contiguous slice of the enumeration
    let total = 1u64 << npairs;
    let (lo, hi) = (total * shard / nshards, total * (shard + 1) / nshards);
    let mut c0 = lo;
    while c0 < hi {
        let c1 = (c0 + 4096).min(hi);
        for (bits, outs) in run_range(n, c0, c1, std_pr, 10000) {
            let g = graph_of_bits(n, bits);
            let mut line = format!("{} {} {}", bits, n, g.edges.len());
            for e in g.edges.iter() { line.push_str(&format!(" {} {}", e.0, e.1)); }
            for o in outs.iter() { compact_outcome(o, &mut line); }
            writeln!(w, "{}", line).unwrap();
        }
        c0 = c1;
    }
    w.flush().unwrap();
}

// ------------------------------------------------------------------ search mode (F5 end-to-end)
/// quick native plausibility test of a tree (NOT used for verdicts; only to look for patterns
/// on which the clique-graph strategy misbehaves)
fn native_ok(g: &Graph, t: &vh::TreeView) -> bool {
    let k = t.snode_post.len();
    if k != t.n_cliques || k == 0 { return false; }
    let cl = |c: usize| -> Vec<usize> { let mut v = t.snode[c].clone(); v.extend(&t.separators[c]); v };
    let pos: BTreeMap<usize, usize> = t.snode_post.iter().enumerate().map(|(i, c)| (*c, i)).collect();
    for (i, &c) in t.snode_post.iter().enumerate() {
        let p = t.parent[c];
        if i + 1 == k { if p != vh::NO_PARENT_V { return false; } continue; }
        match pos.get(&p) { Some(&j) if j > i => {}, _ => return false }
        let cp = cl(p);
        if !t.separators[c].iter().all(|v| cp.contains(v)) { return false; }
        if t.snode[c].iter().any(|v| cp.contains(v)) { return false; }
    }
    let mut inv = vec![usize::MAX; g.n];
    for (v, &o) in t.ordering.iter().enumerate() { if o < g.n { inv[o] = v; } }
    let cls: Vec<Vec<usize>> = t.snode_post.iter().map(|&c| cl(c)).collect();
    g.edges.iter().all(|e| cls.iter().any(|c| c.contains(&inv[e.0]) && c.contains(&inv[e.1])))
}

fn main() {
    let args: Vec<String> = std::env::args().collect();
    let mut out = String::from("/dev/stdout");
    let mut seed: u64 = 1;
    let mut tier = String::from("quick");
    let mut replay: Option<String> = None;
    let mut search: usize = 0;
    let mut search_fb: usize = 0;
    let mut exn: Option<(usize, u64, u64)> = None;
    let mut i = 1;
    while i < args.len() {
        match args[i].as_str() {
            "--out" => { out = args[i + 1].clone(); i += 1; }
            "--seed" => { seed = args[i + 1].parse().unwrap_or(1); i += 1; }
            "--tier" => { tier = args[i + 1].clone(); i += 1; }
            "--replay" => { replay = Some(args[i + 1].clone()); i += 1; }
            "--search" => { search = args[i + 1].parse().unwrap_or(0); i += 1; }
            "--search-fallback" => { search_fb = args[i + 1].parse().unwrap_or(0); i += 1; }
            "--exn" => { exn = Some((args[i + 1].parse().unwrap(), args[i + 2].parse().unwrap(), args[i + 3].parse().unwrap())); i += 3; }
            _ => {}
        }
        i += 1;
    }
    silence_panics();
    if let Some((n, shard, nshards)) = exn { exhaustive_stream(n, shard, nshards, &out); return; }
    let thorough = tier == "thorough";
    let mut sink = CaseSink::new(&out);
    let mut st = Stats { by: BTreeMap::new(), max_cliques: 0, max_n: 0 };
    let mut rng = Rng::new(seed);
    let std_pr = Present { diag: true, in_b: false };

    if search_fb > 0 {
        // exploration only: graphs on which the clique-graph strategy scans the remaining edges
        // after clique 0 has been merged away (kept as corpus when interesting)
        let mut found = 0;
        let _ = vh::take_traverse_fallback_counts();
        for k in 0..search_fb {
            let g = match k % 4 { 0 => { let n = 10 + rng.below(31); overlap_family(&mut rng, n) }, 1 => { let (n, d) = (8 + rng.below(33), 2 + rng.below(8)); erdos(&mut rng, n, 1, d) }, 2 => { let n = 10 + rng.below(20); overlap_family(&mut rng, n) }, _ => random_family(&mut rng, k, false).1 };
            let o = analyse(&g, "clique_graph", std_pr, 20000);
            let (fb, fb0) = vh::take_traverse_fallback_counts();
            let bad = matches!(o, Outcome::Panicked | Outcome::Hung);
            if fb0 > 0 || bad {
                found += 1;
                let mut inp = g.json();
                inp["merges"] = json!(["clique_graph"]); inp["diag"] = json!(true); inp["in_b"] = json!(false);
                sink.record(json!({"search_hit": inp, "outcome": outcome_tag(&o), "fallback": fb, "fallback_c0_dead": fb0}));
            }
        }
        sink.record(json!({"search": {"tried": search_fb, "found": found}}));
        sink.flush();
        return;
    }
    if search > 0 {
        // exploration only: clique-graph strategy on many-clique chordal patterns
        let mut found = 0;
        for k in 0..search {
            let big = k % 4 == 0;
            let g = match k % 3 { 0 => { let c = 8 + rng.below(30); clique_tree(&mut rng, c, (3, 5), (1, 2), false, 300) }, 1 => { let c = 8 + rng.below(30); clique_tree(&mut rng, c, (3, 6), (1, 3), true, 300).permuted(&mut rng) }, _ => random_family(&mut rng, k, big).1 };
            let o = analyse(&g, "clique_graph", std_pr, 20000);
            let bad = match &o { Outcome::Decomposed(t) => !native_ok(&g, t), Outcome::Undecomposed(_) => false, _ => true };
            if bad {
                found += 1;
                let mut inp = g.json();
                inp["merges"] = json!(["clique_graph"]); inp["diag"] = json!(true); inp["in_b"] = json!(false);
                sink.record(json!({"search_hit": inp, "outcome": outcome_tag(&o)}));
                if found >= 20 { break; }
            }
        }
        sink.record(json!({"search": {"tried": search, "found": found}}));
        sink.flush();
        return;
    }

    if let Some(p) = replay {
        let txt = std::fs::read_to_string(&p).expect("cannot read replay file");
        let v: Value = serde_json::from_str(&txt).expect("replay file is not JSON");
        let cases: Vec<Value> = match v.get("cases") { Some(Value::Array(a)) => a.clone(), _ => vec![v] };
        for c in cases.iter() {
            let inp = if c.get("input").is_some() && !c["input"].is_null() { &c["input"] } else { c };
            if inp.get("ops").is_some() {
                let n = inp["n"].as_u64().unwrap() as usize;
                let ops = inp["ops"].as_array().unwrap().iter().map(|p| (p[0].as_u64().unwrap() as usize, p[1].as_u64().unwrap() as usize)).collect();
                dsu_one(&mut sink, &mut st, n, ops);
                continue;
            }
            if inp.get("edges").is_none() && inp.get("bits").is_some() {
                let g = graph_of_bits(inp["n"].as_u64().unwrap() as usize, inp["bits"].as_u64().unwrap());
                emit(&mut sink, &mut st, "replay", &g, &MERGES, std_pr, 20000);
                continue;
            }
            if inp.get("edges").is_none() { continue; }
            if inp.get("merge_models").and_then(|b| b.as_bool()).unwrap_or(false) { emit_merge_models(&mut sink, &mut st, &Graph::from_json(inp)); continue; }
            if inp.get("reorder").and_then(|b| b.as_bool()).unwrap_or(false) { emit_reorder(&mut sink, &mut st, &Graph::from_json(inp)); continue; }
            let g = Graph::from_json(inp);
            let merges: Vec<String> = inp.get("merges").and_then(|m| m.as_array()).map(|a| a.iter().map(|x| x.as_str().unwrap().to_string()).collect()).unwrap_or_else(|| MERGES.iter().map(|s| s.to_string()).collect());
            let mr: Vec<&str> = merges.iter().map(|s| s.as_str()).collect();
            let pr = Present { diag: inp.get("diag").and_then(|b| b.as_bool()).unwrap_or(true), in_b: inp.get("in_b").and_then(|b| b.as_bool()).unwrap_or(false) };
            emit(&mut sink, &mut st, "replay", &g, &mr, pr, 20000);
        }
    } else {
        // 1. exhaustive: every labelled graph on n vertices
        // 6 and 7 vertices go through the extracted checker (vp/c17.py, `--exn`)
        for n in 1..=5 { emit_exhaustive(&mut sink, &mut st, n, std_pr, 8); }
        { let mut cnt = 0usize; for n in 4..=5 { all_graphs(n, &mut |g| { cnt += 1; if thorough || n == 4 || cnt % 4 == 0 { emit_merge_models(&mut sink, &mut st, &g); } }); } }
        // 2. presentation variants on small graphs: diagonal absent from the data, entries split between A and b
        for k in 0..(if thorough { 600 } else { 150 }) {
            let (nn, dd) = (3 + rng.below(6), 2 + rng.below(3)); let g = erdos(&mut rng, nn, 1, dd);
            emit(&mut sink, &mut st, "presentation", &g, &MERGES, Present { diag: k % 2 == 0, in_b: k % 3 != 0 }, 20000);
        }
        // 3. random structured families
        let nrand = if thorough { 2400 } else { 480 };
        for k in 0..nrand {
            let big = (k / 12) % 16 == 15;
            let (fam, g) = if k % 24 == 9 && !big { let n = 10 + rng.below(31); ("overlap".to_string(), overlap_family(&mut rng, n)) } else { random_family(&mut rng, k, big) };
            // the model ties are skipped for a pattern on which the analysis itself crashed or hung
            let normal = emit(&mut sink, &mut st, &fam, &g, &MERGES, std_pr, 15000);
            if normal && g.n <= 60 { emit_reorder(&mut sink, &mut st, &g); }
            if normal && (g.n <= 32 || (thorough && g.n <= 48)) { emit_merge_models(&mut sink, &mut st, &g); }
        }
        // 4. DisjointSetUnion
        dsu_cases(&mut sink, &mut st, &mut rng, if thorough { 400 } else { 120 });
        // 5. index_to_coord (fallback scan of the clique-graph strategy)
        idx2coord_cases(&mut sink, &mut st, &mut rng, if thorough { 300 } else { 80 });
    }
    let mut by = serde_json::Map::new();
    for (k, v) in st.by.iter() { by.insert(k.clone(), json!(v)); }
    let (fb, fb0) = vh::take_traverse_fallback_counts();
    by.insert("traverse_fallback_scans".into(), json!(fb));
    by.insert("traverse_fallback_scans_clique0_merged".into(), json!(fb0));
    by.insert("max_cliques".into(), json!(st.max_cliques));
    by.insert("max_vertices".into(), json!(st.max_n));
    sink.record(json!({"stats": by}));
    sink.record(json!({"meta": {"prop": "c17", "seed": seed, "tier": tier, "blas": blas_shim::AVAILABLE}}));
    sink.flush();
}
