//! explore --seed N --count K : throw-away exploration (NOT a registered check): small problems of
//! every cone kind under extreme but valid settings; reports panics / hangs / non-terminal results.
#![allow(non_snake_case)]
#[path = "../blas_shim.rs"] mod blas_shim;
#[path = "../common.rs"] mod common;
#[path = "../smallgen.rs"] mod smallgen;
use clarabel::algebra::*;
use clarabel::solver::*;
use common::*;
use smallgen::*;
use std::sync::mpsc;
use std::time::Duration;

fn main() {
    let args: Vec<String> = std::env::args().collect();
    let mut seed = 1u64; let mut count = 500usize;
    let mut i = 1;
    while i < args.len() { match args[i].as_str() { "--seed" => { seed = args[i+1].parse().unwrap(); i += 1; } "--count" => { count = args[i+1].parse().unwrap(); i += 1; } _ => {} } i += 1; }
    silence_panics();
    let _ = blas_shim::AVAILABLE;
    let mut rng = Rng::new(seed ^ 0xe1);
    let mut bad = 0;
    for k in 0..count {
        let ncones = 1 + rng.below(3);
        let cones: Vec<_> = (0..ncones).map(|_| random_cone(&mut rng, &[0, 1, 1, 2, 2, 3, 4, 5, 6])).collect();
        let m: usize = cones.iter().map(cone_dim).sum();
        let n = (1 + rng.below(5)).min(m.max(1));
        let p = match k % 5 { 3 => primal_infeasible(&mut rng, n, cones), 4 => dual_infeasible(&mut rng, n, cones), _ => { let pk = rng.below(4); planted(&mut rng, n, cones, pk) } };
        let d = DefaultSettings::<f64>::default();
        let pickf = |rng: &mut Rng, v: &[f64]| v[rng.below(v.len())];
        let st = DefaultSettings {
            verbose: false,
            max_iter: *rng.pick(&[200u32, 200, 50, 3, 1, 0]),
            max_step_fraction: pickf(&mut rng, &[0.99, 0.99, 1.0, 0.5, 1e-3, 0.999999]),
            tol_gap_abs: pickf(&mut rng, &[1e-8, 1e-8, 0.0, 1e-15, 1e-2, 1e3]),
            tol_gap_rel: pickf(&mut rng, &[1e-8, 1e-8, 0.0, 1e-15, 1e-2]),
            tol_feas: pickf(&mut rng, &[1e-8, 1e-8, 0.0, 1e-15, 1e-2, 10.0]),
            tol_infeas_abs: pickf(&mut rng, &[1e-8, 0.0, 1e-2]),
            tol_infeas_rel: pickf(&mut rng, &[1e-8, 0.0, 1e-2]),
            tol_ktratio: pickf(&mut rng, &[1e-6, 0.0, 1.0, 1e6]),
            equilibrate_enable: rng.chance(3, 4),
            equilibrate_max_iter: *rng.pick(&[10u32, 10, 0, 1, 200]),
            equilibrate_min_scaling: pickf(&mut rng, &[1e-4, 1e-4, 1.0, 1e-12, 0.5]),
            equilibrate_max_scaling: pickf(&mut rng, &[1e4, 1e4, 1.0, 1e12, 2.0]),
            linesearch_backtrack_step: pickf(&mut rng, &[0.8, 0.8, 0.999, 0.01, 0.5]),
            min_switch_step_length: pickf(&mut rng, &[0.1, 0.1, 1.0, 1e-12, 0.0]),
            min_terminate_step_length: pickf(&mut rng, &[1e-4, 1e-4, 0.0, 0.5, 1e-300]),
            direct_solve_method: rng.pick(&["qdldl", "qdldl", "auto", "faer"]).to_string(),
            static_regularization_enable: rng.chance(4, 5),
            static_regularization_constant: pickf(&mut rng, &[1e-8, 1e-8, 0.0, 1e-2, 1e-20]),
            static_regularization_proportional: pickf(&mut rng, &[d.static_regularization_proportional, 0.0, 1e-3]),
            dynamic_regularization_enable: rng.chance(4, 5),
            dynamic_regularization_eps: pickf(&mut rng, &[1e-13, 1e-13, 0.0, 1e-3]),
            dynamic_regularization_delta: pickf(&mut rng, &[2e-7, 2e-7, 0.0, 1e-2]),
            iterative_refinement_enable: rng.chance(4, 5),
            iterative_refinement_max_iter: *rng.pick(&[10u32, 10, 0, 1, 100]),
            iterative_refinement_reltol: pickf(&mut rng, &[1e-13, 0.0, 1e-2]),
            iterative_refinement_abstol: pickf(&mut rng, &[1e-12, 0.0, 1e-2]),
            iterative_refinement_stop_ratio: pickf(&mut rng, &[5.0, 5.0, 1.0, 0.5, 1e6]),
            presolve_enable: rng.chance(3, 4),
            ..DefaultSettings::default()
        };
        let desc = format!("{:?}", st);
        let valid = st.validate().is_ok();
        let (tx, rx) = mpsc::channel();
        let p2 = p.clone();
        std::thread::spawn(move || {
            let r = guarded(|| {
                let mut solver = DefaultSolver::new(&p2.P, &p2.q, &p2.A, &p2.b, &p2.cones, st);
                solver.solve();
                (solver.solution.status as u32, solver.solution.iterations)
            });
            let _ = tx.send(r);
        });
        match rx.recv_timeout(Duration::from_secs(30)) {
            Ok(Some((status, _it))) => { if status == 0 { bad += 1; println!("UNSOLVED-STATUS k={} valid={} {} | {}", k, valid, p.label, desc); } }
            Ok(None) => { bad += 1; println!("PANIC k={} valid={} {} | {}", k, valid, p.label, desc); }
            Err(_) => { bad += 1; println!("HANG k={} valid={} {} | {}", k, valid, p.label, desc); }
        }
    }
    println!("explored {} bad {}", count, bad);
}
