//! c06 --out FILE [--seed N] [--tier quick|thorough] [--replay FILE]
//!   * Newton cases: directions recorded at the exit of DefaultKKTSystem::solve, re-evaluated
//!     exactly in Coq against the linearised equations (c_newton)
//!   * family G: planted strictly feasible problems (sizes 1..60, all cone mixtures,
//!     magnitudes <= 1e3) solved with default settings; one record per instance
#![allow(non_snake_case)]
#[path = "../blas_shim.rs"]
mod blas_shim;
#[path = "../common.rs"]
mod common;
#[path = "../smallgen.rs"]
mod smallgen;

use clarabel::algebra::*;
use clarabel::solver::*;
use clarabel::verif_hooks::trace::{self, Event};
use common::*;
use serde_json::{json, Value};
use smallgen::*;

fn trips(m: &CscMatrix<f64>) -> String {
    let mut items = vec![];
    for j in 0..m.n {
        for k in m.colptr[j]..m.colptr[j + 1] {
            items.push(format!("({}, {}, {})", cn(m.rowval[k]), cn(j), cdy(m.nzval[k])));
        }
    }
    format!("[{}]", items.join("; "))
}

fn finite(v: &[f64]) -> bool {
    v.iter().all(|x| x.is_finite())
}

fn g_cone(rng: &mut Rng) -> SupportedConeT<f64> {
    match rng.below(8) {
        0 => ZeroConeT(1 + rng.below(6)),
        1 | 2 => NonnegativeConeT(1 + rng.below(20)),
        3 => SecondOrderConeT(2 + rng.below(12)),
        4 => ExponentialConeT(),
        5 => PowerConeT(0.1 + 0.8 * rng.unit()),
        6 => random_cone(rng, &[5]),
        _ => PSDTriangleConeT(2 + rng.below(4)),
    }
}

const STRATA: [(&str, u8); 7] = [("lp_qp", 0), ("soc_small", 1), ("soc", 2), ("exp", 3), ("pow", 4), ("genpow", 5), ("psd", 6)];
fn stratum_cone(rng: &mut Rng, kind: u8) -> SupportedConeT<f64> {
    match kind {
        0 => if rng.chance(1, 4) { ZeroConeT(1 + rng.below(4)) } else { NonnegativeConeT(1 + rng.below(20)) },
        1 => SecondOrderConeT(2 + rng.below(3)),
        2 => SecondOrderConeT(5 + rng.below(9)),
        3 => ExponentialConeT(),
        4 => random_cone(rng, &[4]),
        5 => random_cone(rng, &[5]),
        _ => PSDTriangleConeT(2 + rng.below(4)),
    }
}

fn main() {
    let args: Vec<String> = std::env::args().collect();
    let mut out = String::from("/dev/stdout");
    let mut seed: u64 = 1;
    let mut tier = String::from("quick");
    let mut replay: Option<String> = None;
    let mut i = 1;
    while i < args.len() {
        match args[i].as_str() {
            "--out" => { out = args[i + 1].clone(); i += 1; }
            "--seed" => { seed = args[i + 1].parse().unwrap_or(1); i += 1; }
            "--tier" => { tier = args[i + 1].clone(); i += 1; }
            "--replay" => { replay = Some(args[i + 1].clone()); i += 1; }
            _ => {}
        }
        i += 1;
    }
    silence_panics();
    let thorough = tier == "thorough";
    let mut sink = CaseSink::new(&out);
    let mut rng = Rng::new(seed ^ 0x06);

    // ------------------------------------------------------------ problems
    let mut newton_probs: Vec<Prob> = vec![];
    let mut g_probs: Vec<Prob> = vec![];
    let mut s_probs: Vec<(String, Prob)> = vec![];
    if let Some(path) = replay.as_ref() {
        let txt = std::fs::read_to_string(path).expect("cannot read replay file");
        let v: Value = serde_json::from_str(&txt).expect("replay file is not JSON");
        let inp = v.get("input").cloned().unwrap_or(v.clone());
        if let Some(list) = inp.get("instances").and_then(|x| x.as_array()) {
            for it in list { g_probs.push(Prob::from_json(&it["problem"])); }
        } else if inp.get("problem").is_some() {
            newton_probs.push(Prob::from_json(&inp["problem"]));
        }
    } else {
        // well-posed planted problems only: the theorem speaks about exact solves with a
        // nonsingular quasi-definite matrix (n <= m or strictly convex objective)
        for _ in 0..(if thorough { 400 } else { 90 }) {
            let ncones = 1 + rng.below(3);
            let cones: Vec<_> = (0..ncones).map(|_| random_cone(&mut rng, &[0, 1, 1, 2, 2, 3, 4, 5, 6])).collect();
            let m: usize = cones.iter().map(cone_dim).sum();
            let target = 1 + rng.below(8);
            let strictly_convex = target > m || rng.chance(1, 3);
            let n = if strictly_convex { target } else { target.min(m) };
            let pk = if strictly_convex { 3 } else { rng.below(3) };
            newton_probs.push(planted(&mut rng, n, cones, pk));
        }
        let ng = if thorough { 20000 } else { 2000 };
        for k in 0..ng {
            // Well-posedness (bounded conditioning): either the cone rows are at least as many as
            // the variables (n <= m, A generically of full column rank) or the objective is
            // strictly convex (P = G'G + I); otherwise the solution set would be unbounded.
            let ncones = 1 + rng.below(5);
            let cones: Vec<_> = (0..ncones).map(|_| g_cone(&mut rng)).collect();
            let m: usize = cones.iter().map(cone_dim).sum();
            let target = 1 + (k * 61 / ng + rng.below(8)) % 60; // sizes 1..60
            let strictly_convex = target > m || rng.chance(1, 4);
            let n = if strictly_convex { target } else { target.min(m) };
            let pk = if strictly_convex { 3 } else { rng.below(3) };
            let mut p = planted(&mut rng, n, cones, pk);
            // magnitudes up to 1e3: scale the objective
            let sc = [1.0, 1.0, 10.0, 100.0, 1000.0, 0.1, 0.01][rng.below(7)];
            for v in p.q.iter_mut() { *v *= sc; }
            for v in p.P.nzval.iter_mut() { *v *= sc; }
            g_probs.push(p);
        }
        // stratum "soc_axis": LPs in t whose entries also bound the norm of blocks x_i that occur only
        // in a symmetric cost, so every second-order iterate sits exactly on the cone axis
        // (planted: t* > 0 strictly feasible with x = 0; dual z_soc = (zeta, 0, .., 0))
        {
            let ns = if thorough { 1200 } else { 200 };
            for kk in 0..ns {
                let (nt, kb, m1, w) = [(3usize, 2usize, 2usize, 1.0f64), (5, 2, 3, 0.0), (4, 5, 3, 1.0), (8, 1, 5, 1.0)][kk % 4];
                let n = nt * (1 + kb);
                let m = m1 + n;
                let mut Pd = vec![vec![0.0; n]; n];
                for i in 0..nt { for j in 0..kb { let c = i * (1 + kb) + 1 + j; Pd[c][c] = w; } }
                let tstar: Vec<f64> = (0..nt).map(|_| 0.5 + 1.5 * rng.unit()).collect();
                let znn: Vec<f64> = (0..m1).map(|_| 0.2 + 1.8 * rng.unit()).collect();
                let zeta: Vec<f64> = (0..nt).map(|_| 0.2 + 1.8 * rng.unit()).collect();
                let mut Ad = vec![vec![0.0; n]; m];
                let mut b = vec![0.0; m];
                for row in 0..m1 {
                    let mut gt = 0.0;
                    for i in 0..nt { let g = 2.0 * rng.unit() - 1.0; Ad[row][i * (1 + kb)] = g; gt += g * tstar[i]; }
                    b[row] = gt + 0.2 + 1.8 * rng.unit();
                }
                for c in 0..n { Ad[m1 + c][c] = -1.0; }
                let mut q = vec![0.0; n];
                for i in 0..nt { let col = i * (1 + kb); let gz: f64 = (0..m1).map(|row| Ad[row][col] * znn[row]).sum(); q[col] = zeta[i] - gz; }
                let mut cones = vec![NonnegativeConeT(m1)];
                cones.extend((0..nt).map(|_| SecondOrderConeT(1 + kb)));
                let mut Ptri = vec![vec![0.0; n]; n];
                for i in 0..n { Ptri[i][i] = Pd[i][i]; }
                let p = Prob { P: dense_rows_to_csc(&Ptri, n, n), q, A: dense_rows_to_csc(&Ad, m, n), b, cones, label: format!("soc axis nt={} k={} w={}", nt, kb, w), intent: 0 };
                s_probs.push(("soc_axis".to_string(), p));
            }
        }
        // strata "across all supported cone types": pure problems of one cone kind each
        // (same sizes, same well-posedness rule), so that a defect confined to one kind is
        // not diluted by the mixtures
        let ns = if thorough { 2000 } else { 300 };
        for (sname, skind) in STRATA.iter() {
            // small second-order cones are cheap and were the stratum in which a seeded defect sat just
            // below the decision threshold: twice the sample
            let ns = if *sname == "soc_small" { 2 * ns } else { ns };
            for k in 0..ns {
                let ncones = 1 + rng.below(4);
                let cones: Vec<_> = (0..ncones).map(|_| stratum_cone(&mut rng, *skind)).collect();
                let m: usize = cones.iter().map(cone_dim).sum();
                let target = 1 + (k * 31 / ns + rng.below(8)) % 30;
                let strictly_convex = target > m || rng.chance(1, 4);
                let n = if strictly_convex { target } else { target.min(m) };
                let pk = if strictly_convex { 3 } else { rng.below(3) };
                let mut p = planted(&mut rng, n, cones, pk);
                let sc = [1.0, 1.0, 10.0, 100.0, 1000.0, 0.1, 0.01][rng.below(7)];
                for v in p.q.iter_mut() { *v *= sc; }
                for v in p.P.nzval.iter_mut() { *v *= sc; }
                s_probs.push((sname.to_string(), p));
            }
        }
    }

    // ------------------------------------------------------------ Newton equations
    let mut nsolves = 0usize;
    let mut nevents = 0usize;
    let mut ninit = 0usize;
    let mut nsteps = 0usize;
    for p in newton_probs.iter() {
        let settings = DefaultSettings { verbose: false, ..DefaultSettings::default() };
        let built = guarded(|| DefaultSolver::new(&p.P, &p.q, &p.A, &p.b, &p.cones, settings));
        let mut solver = match built { Some(s) => s, None => continue };
        trace::start();
        let ok = guarded(|| solver.solve());
        let events = trace::take();
        if ok.is_none() { continue; }
        nsolves += 1;
        let d = &solver.data;
        let (n, m) = (d.n, d.m);
        for (idx, e) in events.iter().filter(|e| matches!(e, Event::AlphaAff { .. })).enumerate() {
            if let Event::AlphaAff { alpha, sigma } = e {
                if idx < 8 && alpha.is_finite() && sigma.is_finite() {
                    sink.case("sigma", json!({"label": p.label, "problem": p.to_json(), "alpha": alpha, "sigma": sigma, "m": m}),
                        format!("(c_sigma {} {})", cfl(*alpha), cfl(*sigma)), &["C06"]);
                }
            }
        }
        // the starting point of symmetric-cone problems (Newton/Init.v): primal rows and dual equality
        for e in events.iter() {
            if let Event::InitPoint { x, s, z, lp, ok } = e {
                if !*ok || !(finite(x) && finite(s) && finite(z)) || s.len() != m { continue; }
                // diagonal of the identity scaling over the solver's internal cone list
                let mut h: Vec<f64> = vec![];
                for c in d.cones.iter() {
                    let dim = cone_dim(c);
                    let v = if matches!(c, ZeroConeT(_)) { 0.0 } else { 1.0 };
                    h.extend(std::iter::repeat(v).take(dim));
                }
                if h.len() != m { continue; }
                ninit += 1;
                sink.case("init", json!({"label": p.label, "problem": p.to_json(), "n": n, "m": m, "lp_branch": lp}),
                    format!("(c_init 10 {} {} {} {} {} {} {} {} {} {})", cn(n), cn(m), trips(&d.P), trips(&d.A), cdylist(&d.q), cdylist(&d.b), cdylist(&h),
                            cdylist(x), cdylist(s), cdylist(z)),
                    &["C06"]);
            }
        }
        // one predictor-corrector iteration (Newton/Step.v): residuals, right-hand sides, mu, update
        {
            let deg = clarabel::verif_hooks::skel::cone_degree(&solver);
            #[derive(Default, Clone)]
            struct It { vars: Option<(Vec<f64>, Vec<f64>, Vec<f64>, f64, f64)>, mu: f64, iterc: u32,
                        aff: Option<(Vec<f64>, Vec<f64>, f64, f64, f64, f64)>, aa: Option<(f64, f64)>,
                        comb: Option<(Vec<f64>, Vec<f64>, f64, f64, Vec<f64>, Vec<f64>, Vec<f64>, f64, f64)>, alpha: Option<f64> }
            let mut cur = It::default();
            let mut done: Option<It> = None;
            let mut emitted = 0;
            for e in events.iter() {
                match e {
                    Event::Head { mu, .. } => { if cur.alpha.is_some() { done = Some(cur.clone()); } else { done = None; } cur = It::default(); cur.mu = *mu; }
                    Event::Vars { x, s, z, tau, kappa } => {
                        if let Some(d0) = done.take() {
                            if let (Some(v), Some(a), Some(aa), Some(c), Some(al)) = (d0.vars, d0.aff, d0.aa, d0.comb, d0.alpha) {
                                let allfin = finite(&v.0) && finite(&v.1) && finite(&v.2) && finite(&a.0) && finite(&a.1) && finite(&c.0) && finite(&c.1) && finite(&c.4) && finite(&c.5) && finite(&c.6)
                                    && finite(x) && finite(s) && finite(z) && [v.3, v.4, a.2, a.3, a.4, a.5, aa.0, aa.1, c.2, c.3, c.7, c.8, al, d0.mu, *tau, *kappa].iter().all(|t| t.is_finite());
                                if allfin && emitted < 6 && v.1.len() == m && v.0.len() == n {
                                    emitted += 1; nsteps += 1;
                                    let mfac = if d0.iterc > 1 { 1.0 } else { aa.0 };
                                    sink.case("step", json!({"label": p.label, "problem": p.to_json(), "iteration": d0.iterc, "n": n, "m": m}),
                                        format!("(c_step {} {} {} {} {} {} {} {} {} {} {} {} {} {} {} {} {} {} {} {} {} {} {} {} {} {} {} {} {} {} {} {} {} {} {} {})",
                                            cn(n), cn(m), cn(deg), trips(&d.P), trips(&d.A), cdylist(&d.q), cdylist(&d.b),
                                            cdylist(&v.0), cdylist(&v.1), cdylist(&v.2), cdy(v.3), cdy(v.4),
                                            cdylist(&a.0), cdylist(&a.1), cdy(a.2), cdy(a.3),
                                            cdy(aa.1), cdy(d0.mu), cdy(mfac), cdy(a.4), cdy(a.5),
                                            cdylist(&c.0), cdylist(&c.1), cdy(c.2), cdy(c.3),
                                            cdylist(&c.4), cdylist(&c.5), cdylist(&c.6), cdy(c.7), cdy(c.8), cdy(al),
                                            cdylist(x), cdylist(s), cdylist(z), cdy(*tau), cdy(*kappa)),
                                        &["C06"]);
                                }
                            }
                        }
                        cur.vars = Some((x.clone(), s.clone(), z.clone(), *tau, *kappa));
                    }
                    Event::IterInc { iter } => cur.iterc = *iter,
                    Event::KktSolve { dir, lhs_x, lhs_z, lhs_s, lhs_tau, lhs_kappa, rhs_x, rhs_z, rhs_tau, rhs_kappa, .. } => {
                        if *dir == 0 { cur.aff = Some((rhs_x.clone(), rhs_z.clone(), *rhs_tau, *rhs_kappa, *lhs_tau, *lhs_kappa)); }
                        else { cur.comb = Some((rhs_x.clone(), rhs_z.clone(), *rhs_tau, *rhs_kappa, lhs_x.clone(), lhs_z.clone(), lhs_s.clone(), *lhs_tau, *lhs_kappa)); }
                    }
                    Event::AlphaAff { alpha, sigma } => cur.aa = Some((*alpha, *sigma)),
                    Event::AddStep { alpha } => cur.alpha = Some(*alpha),
                    Event::Rollback => { cur = It::default(); done = None; }
                    _ => {}
                }
            }
        }
        let ks: Vec<&Event> = events.iter().filter(|e| matches!(e, Event::KktSolve { .. })).collect();
        let total = ks.len();
        for (idx, e) in ks.iter().enumerate() {
            // the first ten directions of every solve: late iterations are where the regularised,
            // iteratively refined KKT solve is least exact (the theorem assumes exact solves)
            let _ = total;
            if idx >= 10 { continue; }
            if let Event::KktSolve { dir, lhs_x, lhs_z, lhs_s, lhs_tau, lhs_kappa, rhs_x, rhs_z, rhs_tau, rhs_kappa, x, tau, kappa } = e {
                if !(finite(lhs_x) && finite(lhs_z) && finite(lhs_s) && finite(rhs_x) && finite(rhs_z) && finite(x)
                     && lhs_tau.is_finite() && lhs_kappa.is_finite() && rhs_tau.is_finite() && rhs_kappa.is_finite()) {
                    continue;
                }
                nevents += 1;
                // float-level residual ratios of the x- and z-equations (diagnostics only)
                let diag = {
                    let mut px = vec![0.0; n]; let mut sx = vec![0.0; n];
                    for j in 0..d.P.n { for k in d.P.colptr[j]..d.P.colptr[j+1] { let i = d.P.rowval[k]; let v = d.P.nzval[k];
                        px[i] += v * lhs_x[j]; sx[i] += (v * lhs_x[j]).abs();
                        if i != j { px[j] += v * lhs_x[i]; sx[j] += (v * lhs_x[i]).abs(); } } }
                    let mut az = vec![0.0; m]; let mut sz = vec![0.0; m];
                    for j in 0..d.A.n { for k in d.A.colptr[j]..d.A.colptr[j+1] { let i = d.A.rowval[k]; let v = d.A.nzval[k];
                        px[j] += v * lhs_z[i]; sx[j] += (v * lhs_z[i]).abs();
                        az[i] += v * lhs_x[j]; sz[i] += (v * lhs_x[j]).abs(); } }
                    let mut ex: f64 = 0.0; let mut scx: f64 = 0.0;
                    for i in 0..n { ex = ex.max((px[i] + lhs_tau * d.q[i] - rhs_x[i]).abs()); scx = scx.max(sx[i] + (lhs_tau * d.q[i]).abs() + rhs_x[i].abs()); }
                    let mut ez: f64 = 0.0; let mut scz: f64 = 0.0;
                    for i in 0..m { ez = ez.max((az[i] + lhs_s[i] - lhs_tau * d.b[i] + rhs_z[i]).abs()); scz = scz.max(sz[i] + lhs_s[i].abs() + (lhs_tau * d.b[i]).abs() + rhs_z[i].abs()); }
                    json!({"x_resid": ex, "x_scale": scx, "z_resid": ez, "z_scale": scz})
                };
                let coq = format!(
                    "(c_newton 10 {} {} {} {} {} {} {} {} {} {} {} {} {} {} {} {} {} {})",
                    cn(n), cn(m), trips(&d.P), trips(&d.A), cdylist(&d.q), cdylist(&d.b),
                    cdylist(x), cdy(*tau), cdy(*kappa),
                    cdylist(rhs_x), cdylist(rhs_z), cdy(*rhs_tau), cdy(*rhs_kappa),
                    cdylist(lhs_x), cdylist(lhs_z), cdylist(lhs_s), cdy(*lhs_tau), cdy(*lhs_kappa));
                sink.case("newton", json!({"label": p.label, "problem": p.to_json(), "direction": idx, "dir": dir, "n": n, "m": m, "float_diag": diag}), coq, &["C06"]);
            }
        }
    }

    // ------------------------------------------------------------ family G
    for (k, p) in g_probs.iter().enumerate() {
        let settings = DefaultSettings { verbose: false, ..DefaultSettings::default() };
        let r = guarded(|| {
            let mut solver = DefaultSolver::new(&p.P, &p.q, &p.A, &p.b, &p.cones, settings);
            solver.solve();
            (solver.solution.status as u32, solver.solution.iterations)
        });
        let (status, iters) = r.unwrap_or((99, 0));
        sink.record(json!({"g": {"k": k, "status": status, "iterations": iters, "n": p.q.len(), "m": p.b.len(),
                                 "cones": p.cones.iter().map(cone_name).collect::<Vec<_>>(),
                                 "problem": if status != 1 { p.to_json() } else { Value::Null }}}));
    }

    for (k, (sname, p)) in s_probs.iter().enumerate() {
        let settings = DefaultSettings { verbose: false, ..DefaultSettings::default() };
        let r = guarded(|| {
            let mut solver = DefaultSolver::new(&p.P, &p.q, &p.A, &p.b, &p.cones, settings);
            solver.solve();
            let first = (solver.solution.status as u32, solver.solution.iterations);
            // the same object solved again: default_start re-initialises everything, so a
            // well-posed problem is solved again, in about as many iterations
            solver.solve();
            (first, (solver.solution.status as u32, solver.solution.iterations))
        });
        let ((status, iters), (status2, iters2)) = r.unwrap_or(((99, 0), (99, 0)));
        sink.record(json!({"gs": {"stratum": format!("{}_resolve", sname), "k": k, "status": status2, "iterations": iters2, "n": p.q.len(), "m": p.b.len(),
                                  "cones": p.cones.iter().map(cone_name).collect::<Vec<_>>(),
                                  "problem": if status2 != 1 { p.to_json() } else { Value::Null }}}));
        sink.record(json!({"gs": {"stratum": sname, "k": k, "status": status, "iterations": iters, "n": p.q.len(), "m": p.b.len(),
                                  "cones": p.cones.iter().map(cone_name).collect::<Vec<_>>(),
                                  "problem": if status != 1 { p.to_json() } else { Value::Null }}}));
    }

    sink.record(json!({"stats": {"newton_solves": nsolves, "newton_directions": nevents, "init_points": ninit, "step_cases": nsteps, "family_G_instances": g_probs.len()}}));
    sink.record(json!({"meta": {"prop": "c06", "seed": seed, "tier": tier, "blas": blas_shim::AVAILABLE}}));
    sink.flush();
}
