//! C15: cone step lengths, margins and shifts of the real cone objects vs. the Coq models
//! (Cones/{NN,SOC,Step}.v run at OpsF) and vs. exact dyadic property checks (Cones/Check.v).
//! c15 --out FILE [--seed N] [--tier quick|thorough] [--replay FILE]
#![allow(non_snake_case)]
#[path = "../blas_shim.rs"]
mod blas_shim;
#[path = "../common.rs"]
mod common;
#[path = "../conegen.rs"]
mod conegen;

use clarabel::verif_hooks::c1315 as vh;
use common::*;
use conegen::*;
use serde_json::{json, Value};
use vh::{Cone, CompositeCone, CoreSettings, PrimalOrDualCone, SupportedConeT};

const TOLF: &str = "(0x1p-40)%float"; // float model comparison: code 2 (information) below, 1 above
const TOLP: i64 = -36; // property-level relative tolerance 2^-36 (about 1.5e-11), see design.d/C15.md
const ALPHAS: [f64; 4] = [1.0, 0.99, 0.5, 1e-3];
const HUGE_MAGS: &[f64] = &[1e15, 1e16, 1e17, 1e20, 1e30, 1e100, 1e150, 1e160, 1e300];

fn settings(step: f64, amin: f64, msf: f64) -> CoreSettings<f64> {
    let mut s = CoreSettings::<f64>::default();
    s.linesearch_backtrack_step = step;
    s.min_terminate_step_length = amin;
    s.max_step_fraction = msf;
    s
}

struct Gen {
    sink: CaseSink,
    rng: Rng,
    stats: std::collections::BTreeMap<String, usize>,
}
impl Gen {
    fn count(&mut self, k: &str) {
        *self.stats.entry(k.to_string()).or_insert(0) += 1;
    }
}

// ------------------------------------------------------------------ NN step
fn nn_step_case(g: &mut Gen, z: &[f64], dz: &[f64], s: &[f64], ds: &[f64], amax: f64, tag: &str) {
    let n = z.len();
    let r = guarded(|| {
        let mut c = vh::NonnegativeCone::<f64>::new(n);
        c.step_length(dz, ds, z, s, &settings(0.8, 1e-4, 0.99), amax)
    });
    let Some((az, as_)) = r else {
        g.sink.case("nn_step", json!({"z": z, "dz": dz, "s": s, "ds": ds, "amax": amax}), "1%N".into(), &[tag, "panic"]);
        return;
    };
    if !az.is_finite() || !as_.is_finite() {
        g.sink.case("nn_step", json!({"z": z, "dz": dz, "s": s, "ds": ds, "amax": amax, "out": format!("{:?}", (az, as_))}), "1%N".into(), &[tag, "nonfinite"]);
        return;
    }
    let coq = format!(
        "(maxl [c_nn_step {t} {z} {dz} {am} {az}; c_nn_step {t} {s} {ds} {am} {as_}; p_nn_step ({tp}) {zd} {dzd} {amd} {azd}; p_nn_step ({tp}) {sd} {dsd} {amd} {asd}])",
        t = TOLF, z = cfllist(z), dz = cfllist(dz), s = cfllist(s), ds = cfllist(ds), am = cfl(amax), az = cfl(az), as_ = cfl(as_),
        tp = TOLP, zd = cdylist(z), dzd = cdylist(dz), sd = cdylist(s), dsd = cdylist(ds), amd = cdy(amax), azd = cdy(az), asd = cdy(as_));
    g.sink.case("nn_step", json!({"z": z, "dz": dz, "s": s, "ds": ds, "amax": amax, "out": [az, as_]}), coq, &[tag]);
    g.count(&format!("nn_step/{}", tag));
}

// ------------------------------------------------------------------ SOC step
fn soc_step_case(g: &mut Gen, z: &[f64], dz: &[f64], s: &[f64], ds: &[f64], amax: f64, tag: &str, interior: bool) {
    let n = z.len();
    let r = guarded(|| {
        let mut c = vh::SecondOrderCone::<f64>::new(n);
        c.step_length(dz, ds, z, s, &settings(0.8, 1e-4, 0.99), amax)
    });
    let Some((az, as_)) = r else {
        g.sink.case("soc_step", json!({"z": z, "dz": dz, "s": s, "ds": ds, "amax": amax}), "1%N".into(), &[tag, "panic"]);
        return;
    };
    if !az.is_finite() || !as_.is_finite() {
        g.sink.case("soc_step", json!({"z": z, "dz": dz, "s": s, "ds": ds, "amax": amax, "interior": interior, "out": format!("{:?}", (az, as_))}), "1%N".into(), &[tag, "nonfinite"]);
        return;
    }
    let mut parts = vec![
        format!("c_soc_step {} {} {} {} {}", TOLF, cfllist(z), cfllist(dz), cfl(amax), cfl(az)),
        format!("c_soc_step {} {} {} {} {}", TOLF, cfllist(s), cfllist(ds), cfl(amax), cfl(as_)),
    ];
    if interior {
        parts.push(format!("p_soc_step ({}) {} {} {} {}", TOLP, cdylist(z), cdylist(dz), cdy(amax), cdy(az)));
        parts.push(format!("p_soc_step ({}) {} {} {} {}", TOLP, cdylist(s), cdylist(ds), cdy(amax), cdy(as_)));
    }
    let coq = format!("(maxl [{}])", parts.join("; "));
    g.sink.case("soc_step", json!({"z": z, "dz": dz, "s": s, "ds": ds, "amax": amax, "interior": interior, "out": [az, as_]}), coq, &[tag]);
    g.count(&format!("soc_step/{}", tag));
}

// ------------------------------------------------------------------ backtracking
fn in_test(kind: usize, p: f64, w: &[f64]) -> bool {
    match kind {
        0 => w.iter().all(|v| 0.0 < *v),
        1 => {
            let ss = w[1..].iter().fold(0.0, |a, v| a + v * v);
            0.0 < w[0] && ss < w[0] * w[0]
        }
        2 => w.iter().fold(0.0, |a, v| a + v * v) < p,
        3 => false,
        _ => true,
    }
}
fn backtrack_case(g: &mut Gen, kind: usize, p: f64, dq: &[f64], q: &[f64], a0: f64, amin: f64, step: f64, tag: &str) {
    let mut work = vec![0.0; q.len()];
    let r = guarded(|| vh::verif_backtrack_search(dq, q, a0, amin, step, |w: &[f64]| in_test(kind, p, w), &mut work));
    let Some(r) = r else {
        g.sink.case("backtrack", json!({"kind": kind, "p": p, "dq": dq, "q": q, "a0": a0, "amin": amin, "step": step}), "1%N".into(), &[tag, "panic"]);
        return;
    };
    if !r.is_finite() {
        g.sink.case("backtrack", json!({"kind": kind, "p": p, "dq": dq, "q": q, "a0": a0, "amin": amin, "step": step, "out": format!("{:?}", r)}), "1%N".into(), &[tag, "nonfinite"]);
        return;
    }
    // property level, evaluated with the same closure: result feasible or 0; alpha_init or the
    // previous trial (r/step, slightly beyond) infeasible; for r = 0 the trial at amin/step
    let pt = |a: f64| -> Vec<f64> { q.iter().zip(dq).map(|(qi, di)| qi + a * di).collect() };
    let feas = in_test(kind, p, &pt(r));
    let beyond_pt = if r == 0.0 { amin / step } else { r / step };
    let beyond = !in_test(kind, p, &pt(beyond_pt * (1.0 + 1e-12)));
    let convex_kind = kind <= 2; // the "one factor beyond is infeasible" reading needs a convex set
    let coq = format!(
        "(maxl [c_backtrack {t} {k} {p} {dq} {q} {a0} {amin} {st} {r}; p_nonsym_step {a0d} {rd} {feas} {bey}])",
        t = TOLF, k = cn(kind), p = cfl(p), dq = cfllist(dq), q = cfllist(q), a0 = cfl(a0), amin = cfl(amin), st = cfl(step), r = cfl(r),
        a0d = cdy(a0), rd = cdy(r), feas = feas, bey = if convex_kind { beyond } else { true });
    g.sink.case("backtrack", json!({"kind": kind, "p": p, "dq": dq, "q": q, "a0": a0, "amin": amin, "step": step, "out": r}), coq, &[tag]);
    g.count(&format!("backtrack/{}", tag));
}

// ------------------------------------------------------------------ nonsymmetric cones
fn nonsym_case(g: &mut Gen, which: usize, amax: f64, step: f64, amin: f64) {
    // which: 0 exp, 1 pow, 2 genpow
    let rng = &mut g.rng;
    let (n, spec): (usize, SupportedConeT<f64>) = match which {
        0 => (3, SupportedConeT::ExponentialConeT()),
        1 => (3, SupportedConeT::PowerConeT(0.1 + 0.8 * rng.unit())),
        _ => {
            let d1 = 2 + rng.below(3);
            let d2 = 1 + rng.below(3);
            // exponents k_i/16 with integers k_i >= 1 summing to 16: the sum is exactly 1
            let mut k = vec![1usize; d1];
            for _ in 0..(16 - d1) { let i = rng.below(d1); k[i] += 1; }
            let a: Vec<f64> = k.iter().map(|v| *v as f64 / 16.0).collect();
            (d1 + d2, SupportedConeT::GenPowerConeT(a, d2))
        }
    };
    let mut cone = vh::make_cone(&spec);
    let mut z = vec![0.0; n];
    let mut s = vec![0.0; n];
    cone.unit_initialization(&mut z, &mut s);
    let feas = |cone: &vh::SupportedCone<f64>, v: &[f64], primal: bool| -> bool {
        match cone {
            vh::SupportedCone::ExponentialCone(c) => if primal { c.verif_c15_is_primal_feasible(v) } else { c.verif_c15_is_dual_feasible(v) },
            vh::SupportedCone::PowerCone(c) => if primal { c.verif_c15_is_primal_feasible(v) } else { c.verif_c15_is_dual_feasible(v) },
            vh::SupportedCone::GenPowerCone(c) => if primal { c.verif_c15_is_primal_feasible(v) } else { c.verif_c15_is_dual_feasible(v) },
            _ => unreachable!(),
        }
    };
    // move the start inside the cone by a feasible random perturbation
    for _ in 0..4 {
        let pz: Vec<f64> = z.iter().map(|v| v + 0.3 * (rng.unit() - 0.5)).collect();
        if feas(&cone, &pz, false) { z = pz; }
        let ps: Vec<f64> = s.iter().map(|v| v + 0.3 * (rng.unit() - 0.5)).collect();
        if feas(&cone, &ps, true) { s = ps; }
    }
    let mag = *rng.pick(&[0.01, 0.3, 1.0, 3.0, 30.0, 1e4]);
    let dz: Vec<f64> = (0..n).map(|_| mag * (rng.unit() - 0.5) * 2.0).collect();
    let ds: Vec<f64> = (0..n).map(|_| mag * (rng.unit() - 0.5) * 2.0).collect();
    let st = settings(step, amin, 0.99);
    let r = guarded(|| cone.step_length(&dz, &ds, &z, &s, &st, amax));
    let input = json!({"cone": which, "z": z, "s": s, "dz": dz, "ds": ds, "amax": amax, "step": step, "amin": amin});
    let Some((az, as_)) = r else {
        g.sink.case("nonsym_step", input, "1%N".into(), &["panic"]);
        return;
    };
    if !az.is_finite() || !as_.is_finite() {
        g.sink.case("nonsym_step", input, "1%N".into(), &["nonfinite"]);
        return;
    }
    let pt = |x: &[f64], d: &[f64], a: f64| -> Vec<f64> { x.iter().zip(d).map(|(xi, di)| xi + a * di).collect() };
    let mut parts = vec![];
    for (x, d, a, primal) in [(&z, &dz, az, false), (&s, &ds, as_, true)] {
        let f = feas(&cone, &pt(x, d, a), primal);
        let b = if a == 0.0 { amin / step } else { a / step } * (1.0 + 1e-12);
        let inf = !feas(&cone, &pt(x, d, b), primal);
        parts.push(format!("p_nonsym_step {} {} {} {}", cdy(amax), cdy(a), f, inf));
    }
    let tag = ["exp", "pow", "genpow"][which];
    g.sink.case("nonsym_step", input, format!("(maxl [{}])", parts.join("; ")), &[tag]);
    g.count(&format!("nonsym_step/{}{}", tag, if az < amax || as_ < amax { "/backtracked" } else { "/full" }));
}


// ------------------------------------------------------------------ PSD step length (partial: per-call validation)
fn psd_step_case(g: &mut Gen, S: &Mat, Z: &Mat, dS: &Mat, dZ: &Mat, amax: f64, tag: &str) {
    let n = S.len();
    let (s, z, ds, dz) = (svec(S), svec(Z), svec(dS), svec(dZ));
    let input = json!({"n": n, "S": S, "Z": Z, "dS": dS, "dZ": dZ, "amax": amax});
    let r = guarded(|| {
        let mut c = vh::PSDTriangleCone::<f64>::new(n);
        let ok = c.update_scaling(&s, &z, 1.0, vh::ScalingStrategy::PrimalDual);
        let (az, as_) = c.step_length(&dz, &ds, &z, &s, &settings(0.8, 1e-4, 0.99), amax);
        (ok, az, as_, c.verif_R(), c.verif_Rinv(), c.verif_lambda_isqrt().to_vec(), c.verif_lambda().to_vec())
    });
    let Some((ok, az, as_, rr, ri, isq, lam)) = r else { g.sink.case("psd_step", input, "1%N".into(), &[tag, "panic"]); return; };
    if !ok || !az.is_finite() || !as_.is_finite() {
        g.sink.case("psd_step", input, "1%N".into(), &[tag, "nonfinite-or-refused"]);
        return;
    }
    if !rr.iter().chain(ri.iter()).chain(isq.iter()).chain(lam.iter()).all(|v| v.is_finite()) {
        g.sink.case("psd_step", input, "1%N".into(), &[tag, "nonfinite"]);
        return;
    }
    // hypotheses of C15_psd_step_z / _s: R R^-1 = I, R'ZR = Lambda = R^-1 S R^-T (p_psd_nt), and
    // gamma = -1/alpha is a lower bound of the spectrum of the scaled direction (p_psd_step_hyp);
    // conclusion re-checked end to end by p_psd_step
    let coq = format!("(maxl [p_psd_nt (-30) {n} {r} {ri} {l} {S} {Z}; p_psd_step_hyp (-30) {n} false {r} {isq} {dZ} {az}; p_psd_step_hyp (-30) {n} true {ri} {isq} {dS} {as_}; p_psd_step (-26) {n} {Z} {dZ} {am} {az}; p_psd_step (-26) {n} {S} {dS} {am} {as_}])",
        r = cdylist(&rr), ri = cdylist(&ri), isq = cdylist(&isq), l = cdylist(&lam), n = n, Z = cdymat(Z), dZ = cdymat(dZ), S = cdymat(S), dS = cdymat(dS), am = cdy(amax), az = cdy(az), as_ = cdy(as_));
    let mut inp = input;
    inp["out"] = json!([az, as_]);
    g.sink.case("psd_step", inp, coq, &[tag]);
    g.count(&format!("psd_step/n{}/{}{}", n, tag, if az < amax || as_ < amax { "/bounded" } else { "/full" }));
}

// ------------------------------------------------------------------ composite
#[derive(Clone)]
enum Blk { Zero(usize), NN(usize), SOC(usize), Exp, Pow(f64) }
fn blk_spec(b: &Blk) -> SupportedConeT<f64> {
    match b {
        Blk::Zero(n) => SupportedConeT::ZeroConeT(*n),
        Blk::NN(n) => SupportedConeT::NonnegativeConeT(*n),
        Blk::SOC(n) => SupportedConeT::SecondOrderConeT(*n),
        Blk::Exp => SupportedConeT::ExponentialConeT(),
        Blk::Pow(a) => SupportedConeT::PowerConeT(*a),
    }
}
fn blk_dim(b: &Blk) -> usize { match b { Blk::Zero(n) | Blk::NN(n) | Blk::SOC(n) => *n, _ => 3 } }
fn blk_kind(b: &Blk) -> &'static str { match b { Blk::Zero(_) => "KZero", Blk::NN(_) => "KNN", Blk::SOC(_) => "KSOC", _ => "?" } }

fn composite_case(g: &mut Gen, blks: &[Blk], amax: f64, msf: f64, tag: &str) {
    let specs: Vec<_> = blks.iter().map(blk_spec).collect();
    let mut comp = CompositeCone::<f64>::new(&specs);
    let ntot: usize = blks.iter().map(blk_dim).sum();
    let (mut z, mut s) = (vec![0.0; ntot], vec![0.0; ntot]);
    comp.unit_initialization(&mut z, &mut s);
    // interior start: unit point scaled, plus for NN/SOC a generated interior point
    let mut off = 0;
    let (mut dz, mut ds) = (vec![0.0; ntot], vec![0.0; ntot]);
    for b in blks {
        let n = blk_dim(b);
        match b {
            Blk::NN(_) => {
                for i in 0..n { z[off + i] = nn_point(&mut g.rng); s[off + i] = nn_point(&mut g.rng); }
            }
            Blk::SOC(_) => {
                let d = *g.rng.pick(&[1.0, 1e-4]);
                z[off..off + n].copy_from_slice(&soc_interior(&mut g.rng, n, d, 1.0));
                s[off..off + n].copy_from_slice(&soc_interior(&mut g.rng, n, d, 1.0));
            }
            _ => {}
        }
        let mag = *g.rng.pick(&[0.1, 1.0, 10.0]);
        for i in 0..n {
            dz[off + i] = mag * (g.rng.unit() - 0.5) * 2.0;
            ds[off + i] = mag * (g.rng.unit() - 0.5) * 2.0;
        }
        off += n;
    }
    let step = *g.rng.pick(&[0.5, 0.8, 0.95]);
    let st = settings(step, 1e-4, msf);
    let r = guarded(|| comp.step_length(&dz, &ds, &z, &s, &st, amax));
    let input = json!({"blocks": blks.iter().map(|b| format!("{}{}", blk_kind(b), blk_dim(b))).collect::<Vec<_>>(), "z": z, "s": s, "dz": dz, "ds": ds, "amax": amax, "msf": msf, "step": step});
    let Some((r, r2)) = r else {
        g.sink.case("composite_step", input, "1%N".into(), &[tag, "panic"]);
        return;
    };
    if !r.is_finite() || !r2.is_finite() {
        g.sink.case("composite_step", input, "1%N".into(), &[tag, "nonfinite"]);
        return;
    }
    // own answers of every cone, from fresh single-cone objects
    let mut sym_steps: Vec<f64> = vec![];
    let mut feas_at: Vec<bool> = vec![];
    let mut infeas_beyond: Vec<bool> = vec![];
    let mut model_blocks: Vec<String> = vec![];
    let has_nonsym = blks.iter().any(|b| matches!(b, Blk::Exp | Blk::Pow(_)));
    let mut off = 0;
    for b in blks {
        let n = blk_dim(b);
        let (zi, si, dzi, dsi) = (&z[off..off + n], &s[off..off + n], &dz[off..off + n], &ds[off..off + n]);
        let mut c = vh::make_cone(&blk_spec(b));
        match b {
            Blk::Exp | Blk::Pow(_) => {
                let feas = |v: &[f64], primal: bool| -> bool {
                    match &c {
                        vh::SupportedCone::ExponentialCone(c) => if primal { c.verif_c15_is_primal_feasible(v) } else { c.verif_c15_is_dual_feasible(v) },
                        vh::SupportedCone::PowerCone(c) => if primal { c.verif_c15_is_primal_feasible(v) } else { c.verif_c15_is_dual_feasible(v) },
                        _ => unreachable!(),
                    }
                };
                let pt = |x: &[f64], d: &[f64], a: f64| -> Vec<f64> { x.iter().zip(d).map(|(xi, di)| xi + a * di).collect() };
                feas_at.push(feas(&pt(zi, dzi, r), false) && feas(&pt(si, dsi, r), true));
                let b = if r == 0.0 { 1e-4 / step } else { r / step } * (1.0 + 1e-12);
                infeas_beyond.push(!(feas(&pt(zi, dzi, b), false) && feas(&pt(si, dsi, b), true)));
            }
            _ => {
                let (a1, a2) = c.step_length(dzi, dsi, zi, si, &st, amax);
                sym_steps.push(a1.min(a2));
                model_blocks.push(format!("({}, ({}, {}, {}, {}))", blk_kind(b), cfllist(zi), cfllist(si), cfllist(dzi), cfllist(dsi)));
            }
        }
        off += n;
    }
    let mut parts = vec![format!(
        "p_comp_step ({}) {} {} {} {} {} {} {}", TOLP, cdy(amax), cdy(msf), cdy(r), has_nonsym, cdylist(&sym_steps),
        cblist(&feas_at), cblist(&infeas_beyond))];
    parts.push(format!("ofb {}", r == r2));
    if !has_nonsym {
        parts.push(format!("c_comp_sym {} [{}] {} {} {}", TOLF, model_blocks.join("; "), cfl(msf), cfl(amax), cfl(r)));
    }
    g.sink.case("composite_step", input, format!("(maxl [{}])", parts.join("; ")), &[tag]);
    g.count(&format!("composite_step/{}", tag));
}

// ------------------------------------------------------------------ margins / shift
fn fblocks(blks: &[Blk], v: &[f64]) -> String {
    let mut off = 0;
    let mut out = vec![];
    for b in blks {
        let n = blk_dim(b);
        out.push(format!("({}, {})", blk_kind(b), cfllist(&v[off..off + n])));
        off += n;
    }
    format!("[{}]", out.join("; "))
}
fn dblocks(blks: &[Blk], v: &[f64]) -> String {
    let mut off = 0;
    let mut out = vec![];
    for b in blks {
        let n = blk_dim(b);
        out.push(format!("({}, {})", blk_kind(b), cdylist(&v[off..off + n])));
        off += n;
    }
    format!("[{}]", out.join("; "))
}
fn shift_case(g: &mut Gen, blks: &[Blk], z: &[f64], primal: bool, tag: &str) {
    let specs: Vec<_> = blks.iter().map(blk_spec).collect();
    let pd = if primal { PrimalOrDualCone::PrimalCone } else { PrimalOrDualCone::DualCone };
    let input = json!({"blocks": blks.iter().map(|b| format!("{}{}", blk_kind(b), blk_dim(b))).collect::<Vec<_>>(), "z": z, "primal": primal});
    let r = guarded(|| {
        let mut comp = CompositeCone::<f64>::new(&specs);
        let mut z0 = z.to_vec();
        let (ma, mb) = comp.margins(&mut z0, pd);
        let mut z1 = z.to_vec();
        vh::verif_shift_to_cone_interior(&mut z1, &mut comp, pd);
        let mut z2 = z.to_vec();
        comp.scaled_unit_shift(&mut z2, 0.75, pd);
        (ma, mb, z1, z2)
    });
    let Some((ma, mb, z1, z2)) = r else {
        g.sink.case("shift", input, "1%N".into(), &[tag, "panic"]);
        return;
    };
    if !(ma.is_finite() && mb.is_finite() && z1.iter().chain(z2.iter()).all(|v| v.is_finite())) {
        g.sink.case("shift", input, "1%N".into(), &[tag, "nonfinite"]);
        return;
    }
    let maxabs = z.iter().fold(0.0f64, |a, v| a.max(v.abs()));
    let m = 1.0 - 1e-9 * (1.0 + maxabs).min(1e8);
    let coq = format!(
        "(maxl [p_margins (-40) {bd} {mad} {mbd}; c_margins {t} {b} {ma} {mb}; c_shift {t} {p} {b} {o}; c_unit_shift {t} {p} (0x3p-2)%float {b} {o2}; p_shift {m} {od}])",
        t = TOLF, b = fblocks(blks, z), ma = cfl(ma), mb = cfl(mb), p = primal, o = fblocks(blks, &z1), o2 = fblocks(blks, &z2),
        m = cdy(m), od = dblocks(blks, &z1), bd = dblocks(blks, z), mad = cdy(ma), mbd = cdy(mb));
    g.sink.case("shift", input, coq, &[tag]);
    g.count(&format!("shift/{}", tag));
}


// ------------------------------------------------------------------ PSD margins / unit shift / interior shift
/// M is the exact symmetric matrix; the cone sees svec(M).  The result matrix is rebuilt from the
/// ORIGINAL off-diagonal entries (the shifts only touch the diagonal; checked) and the new diagonal.
fn psd_shift_case(g: &mut Gen, M: &Mat, primal: bool, huge: bool, tag: &str) {
    let n = M.len();
    let z = svec(M);
    let pd = if primal { PrimalOrDualCone::PrimalCone } else { PrimalOrDualCone::DualCone };
    let op = if huge { "shift_huge_psd" } else { "psd_shift" };
    let input = json!({"n": n, "M": M, "primal": primal, "huge": huge});
    let r = guarded(|| {
        let mut comp = CompositeCone::<f64>::new(&[SupportedConeT::PSDTriangleConeT(n)]);
        let mut z0 = z.clone();
        let (ma, mb) = comp.margins(&mut z0, pd);
        let mut z1 = z.clone();
        vh::verif_shift_to_cone_interior(&mut z1, &mut comp, pd);
        let mut z2 = z.clone();
        comp.scaled_unit_shift(&mut z2, 0.75, pd);
        (ma, mb, z1, z2)
    });
    let Some((ma, mb, z1, z2)) = r else { g.sink.case(op, input, "1%N".into(), &[tag, "panic"]); return; };
    if !(ma.is_finite() && mb.is_finite() && z1.iter().chain(z2.iter()).all(|v| v.is_finite())) {
        g.sink.case(op, input, "1%N".into(), &[tag, "nonfinite"]);
        return;
    }
    // off-diagonal packed entries must be untouched by the shift; rebuild the shifted matrix
    let mut offdiag_same = true;
    let mut out = M.clone();
    let mut idx = 0;
    for c in 0..n { for r in 0..=c { if r == c { out[r][c] = z1[idx]; } else if z1[idx].to_bits() != z[idx].to_bits() { offdiag_same = false; } idx += 1; } }
    let maxoff = M.iter().enumerate().flat_map(|(i, row)| row.iter().enumerate().filter(move |(j, _)| *j != i).map(|(_, v)| v.abs())).fold(0.0f64, f64::max);
    let mut inp = input;
    inp["out"] = json!(z1);
    if huge {
        // strictly inside, up to the rounding of the sqrt(2) scaling of the off-diagonal entries
        let m = 1e-12 * (n as f64) * maxoff;
        let coq = format!("(maxl [ofb {}; p_psd_strict {} {} {}])", offdiag_same, n, cdymat(&out), cdy(m));
        g.sink.case(op, inp, coq, &[tag]);
    } else {
        let maxabs = M.iter().flat_map(|r| r.iter()).fold(0.0f64, |a, v| a.max(v.abs()));
        let m = 1.0 - 1e-9 * (1.0 + maxabs).min(1e8);
        let coq = format!("(maxl [ofb {}; p_psd_margin (-30) {} {} {}; ofb {}; c_psd_unit_shift {} {} (0x3p-2)%float {}; p_psd_strict {} {} {}])",
            offdiag_same, n, cdymat(M), cdy(ma), mb >= ma.max(0.0) && mb <= (n as f64) * maxabs * (1.0 + 1e-9) + 1e-300,
            n, cfllist(&z), cfllist(&z2), n, cdymat(&out), cdy(m));
        g.sink.case(op, inp, coq, &[tag]);
    }
    g.count(&format!("{}/{}", op, tag));
}

/// vectors with one or two components of huge magnitude far outside the cone: the exact check is
/// "strictly inside" (a margin of 1 is not representable next to 1e16)
fn shift_huge_case(g: &mut Gen, blks: &[Blk], z: &[f64], primal: bool, tag: &str) {
    let specs: Vec<_> = blks.iter().map(blk_spec).collect();
    let pd = if primal { PrimalOrDualCone::PrimalCone } else { PrimalOrDualCone::DualCone };
    let input = json!({"huge": true, "blocks": blks.iter().map(|b| format!("{}{}", blk_kind(b), blk_dim(b))).collect::<Vec<_>>(), "z": z, "primal": primal});
    let r = guarded(|| {
        let mut comp = CompositeCone::<f64>::new(&specs);
        let mut z1 = z.to_vec();
        vh::verif_shift_to_cone_interior(&mut z1, &mut comp, pd);
        z1
    });
    let has_soc = blks.iter().any(|b| matches!(b, Blk::SOC(_)));
    let opname = if has_soc { "shift_huge_soc" } else { "shift_huge_nn" };
    let Some(z1) = r else { g.sink.case(opname, input, "1%N".into(), &[tag, "panic"]); return; };
    if !z1.iter().all(|v| v.is_finite()) { g.sink.case(opname, input, "1%N".into(), &[tag, "nonfinite"]); return; }
    // one case per cone class, so that a listed finding about one class never hides the other
    let only = |kind: &str| -> String {
        let mut off = 0;
        let mut out = vec![];
        for b in blks {
            let n = blk_dim(b);
            if blk_kind(b) == kind { out.push(format!("({}, {})", kind, cdylist(&z1[off..off + n]))); }
            off += n;
        }
        format!("[{}]", out.join("; "))
    };
    let mut inp = input;
    inp["out"] = json!(z1);
    if blks.iter().any(|b| matches!(b, Blk::NN(_))) {
        let coq = format!("(maxl [c_shift {t} {p} {b} {o}; p_shift_strict {od}])", t = TOLF, p = primal, b = fblocks(blks, z), o = fblocks(blks, &z1), od = only("KNN"));
        g.sink.case("shift_huge_nn", inp.clone(), coq, &[tag]);
    }
    if blks.iter().any(|b| matches!(b, Blk::SOC(_))) {
        let coq = format!("(maxl [p_shift_strict {od}])", od = only("KSOC"));
        g.sink.case("shift_huge_soc", inp, coq, &[tag]);
    }
    g.count(&format!("shift/{}", tag));
}


// ------------------------------------------------------------------ scale sweeps
const SCALE_EXPS: [i32; 10] = [10, -10, 20, -20, 27, -27, 30, -30, 40, -40];
fn sc(v: &[f64], k: i32) -> Vec<f64> { let f = 2f64.powi(k); v.iter().map(|x| x * f).collect() }
fn scm(m: &Mat, k: i32) -> Mat { m.iter().map(|r| sc(r, k)).collect() }

fn run_cone_step(spec: &SupportedConeT<f64>, z: &[f64], s: &[f64], dz: &[f64], ds: &[f64], amax: f64, st: &CoreSettings<f64>, scale_first: bool) -> Option<(f64, f64)> {
    guarded(|| {
        let mut c = vh::make_cone(spec);
        if scale_first { if !c.update_scaling(s, z, 1.0, vh::ScalingStrategy::PrimalDual) { return (f64::NAN, f64::NAN); } }
        c.step_length(dz, ds, z, s, st, amax)
    })
}

/// symmetric cones: identical step for (2^k x, 2^k dx), and the exact step property on the scaled data
fn sweep_sym(g: &mut Gen, kind: &str, z: &[f64], s: &[f64], dz: &[f64], ds: &[f64], amax: f64) {
    let n = z.len();
    let spec = if kind == "nn" { SupportedConeT::NonnegativeConeT(n) } else { SupportedConeT::SecondOrderConeT(n) };
    let st = settings(0.8, 1e-4, 0.99);
    let Some((bz, bs)) = run_cone_step(&spec, z, s, dz, ds, amax, &st, false) else { return; };
    for &k in SCALE_EXPS.iter() {
        let (z2, s2, dz2, ds2) = (sc(z, k), sc(s, k), sc(dz, k), sc(ds, k));
        let input = json!({"kind": kind, "k": k, "z": z, "s": s, "dz": dz, "ds": ds, "amax": amax});
        let Some((az, as_)) = run_cone_step(&spec, &z2, &s2, &dz2, &ds2, amax, &st, false) else { g.sink.case("scale_sweep", input, "1%N".into(), &[kind, "panic"]); continue; };
        if !(az.is_finite() && as_.is_finite()) { g.sink.case("scale_sweep", input, "1%N".into(), &[kind, "nonfinite"]); continue; }
        let p = if kind == "nn" { "p_nn_step" } else { "p_soc_step" };
        let coq = format!("(maxl [c_bitsame {} {}; {p} ({t}) {} {} {am} {}; {p} ({t}) {} {} {am} {}])", cfllist(&[az, as_]), cfllist(&[bz, bs]),
            cdylist(&z2), cdylist(&dz2), cdy(az), cdylist(&s2), cdylist(&ds2), cdy(as_), p = p, t = TOLP, am = cdy(amax));
        g.sink.case("scale_sweep", input, coq, &[kind]);
        g.count(&format!("scale_sweep/{}", kind));
    }
}

fn sweep_psd(g: &mut Gen, S: &Mat, Z: &Mat, dS: &Mat, dZ: &Mat, amax: f64) {
    let n = S.len();
    let spec = SupportedConeT::PSDTriangleConeT(n);
    let st = settings(0.8, 1e-4, 0.99);
    let Some((bz, bs)) = run_cone_step(&spec, &svec(Z), &svec(S), &svec(dZ), &svec(dS), amax, &st, true) else { return; };
    for &k in SCALE_EXPS.iter() {
        let (S2, Z2, dS2, dZ2) = (scm(S, k), scm(Z, k), scm(dS, k), scm(dZ, k));
        let input = json!({"kind": "psd", "k": k, "S": S, "Z": Z, "dS": dS, "dZ": dZ, "amax": amax});
        let Some((az, as_)) = run_cone_step(&spec, &svec(&Z2), &svec(&S2), &svec(&dZ2), &svec(&dS2), amax, &st, true) else { g.sink.case("scale_sweep", input, "1%N".into(), &["psd", "panic"]); continue; };
        if !(az.is_finite() && as_.is_finite()) { g.sink.case("scale_sweep", input, "1%N".into(), &["psd", "nonfinite"]); continue; }
        let coq = format!("(maxl [p_rel_equal (-26) {} {}; p_rel_equal (-26) {} {}; p_psd_step (-26) {n} {} {} {am} {}; p_psd_step (-26) {n} {} {} {am} {}])",
            cdy(az), cdy(bz), cdy(as_), cdy(bs), cdymat(&Z2), cdymat(&dZ2), cdy(az), cdymat(&S2), cdymat(&dS2), cdy(as_), n = n, am = cdy(amax));
        g.sink.case("scale_sweep", input, coq, &["psd"]);
        g.count("scale_sweep/psd");
    }
}

/// interior start of a nonsymmetric cone: the unit point moved by a feasible perturbation at scale 1
fn nonsym_start(g: &mut Gen, which: usize) -> (SupportedConeT<f64>, Vec<f64>, Vec<f64>) {
    let rng = &mut g.rng;
    let (n, spec): (usize, SupportedConeT<f64>) = match which {
        0 => (3, SupportedConeT::ExponentialConeT()),
        1 => (3, SupportedConeT::PowerConeT(0.25 + 0.5 * rng.unit())),
        _ => {
            let d1 = 2 + rng.below(2);
            let d2 = 1 + rng.below(2);
            let mut kk = vec![1usize; d1];
            for _ in 0..(16 - d1) { let i = rng.below(d1); kk[i] += 1; }
            (d1 + d2, SupportedConeT::GenPowerConeT(kk.iter().map(|v| *v as f64 / 16.0).collect(), d2))
        }
    };
    let c = vh::make_cone(&spec);
    let (mut z, mut s) = (vec![0.0; n], vec![0.0; n]);
    c.unit_initialization(&mut z, &mut s);
    (spec, z, s)
}

/// nonsymmetric cones: the step of the scaled data equals the unscaled one up to one backtracking
/// factor; zero and inward directions return alpha_max at every scale
fn sweep_nonsym(g: &mut Gen, which: usize, amax: f64, step: f64) {
    let (spec, z, s) = nonsym_start(g, which);
    let n = z.len();
    let st = settings(step, 1e-4, 0.99);
    let tag = ["exp", "pow", "genpow"][which];
    let mag = *g.rng.pick(&[0.3, 1.0, 3.0, 30.0]);
    let dz: Vec<f64> = (0..n).map(|_| mag * (g.rng.unit() - 0.5) * 2.0).collect();
    let ds: Vec<f64> = (0..n).map(|_| mag * (g.rng.unit() - 0.5) * 2.0).collect();
    let zero = vec![0.0; n];
    let Some((bz, bs)) = run_cone_step(&spec, &z, &s, &dz, &ds, amax, &st, false) else { return; };
    for &k in SCALE_EXPS.iter() {
        let (z2, s2, dz2, ds2) = (sc(&z, k), sc(&s, k), sc(&dz, k), sc(&ds, k));
        let input = json!({"kind": tag, "k": k, "z": z, "s": s, "dz": dz, "ds": ds, "amax": amax, "step": step});
        let r1 = run_cone_step(&spec, &z2, &s2, &dz2, &ds2, amax, &st, false);
        let r2 = run_cone_step(&spec, &z2, &s2, &zero, &zero, amax, &st, false);   // zero direction
        let r3 = run_cone_step(&spec, &z2, &s2, &z2, &s2, amax, &st, false);       // inward: x + a x = (1 + a) x
        let (Some((az, as_)), Some((zz, zs)), Some((iz, is_))) = (r1, r2, r3) else { g.sink.case("scale_sweep", input, "1%N".into(), &[tag, "panic"]); continue; };
        if ![az, as_, zz, zs, iz, is_].iter().all(|v| v.is_finite()) { g.sink.case("scale_sweep", input, "1%N".into(), &[tag, "nonfinite"]); continue; }
        let coq = format!("(maxl [p_grid_equal {st} {} {}; p_grid_equal {st} {} {}; c_bitsame {} {}; c_bitsame {} {}])",
            cdy(bz), cdy(az), cdy(bs), cdy(as_), cfllist(&[zz, zs]), cfllist(&[amax, amax]), cfllist(&[iz, is_]), cfllist(&[amax, amax]), st = cdy(step));
        g.sink.case("scale_sweep", input, coq, &[tag]);
        g.count(&format!("scale_sweep/{}", tag));
    }
}

/// tiny / huge scale interior points of the symmetric cones with zero and inward directions: alpha_max
fn sweep_sym_inward(g: &mut Gen) {
    let st = settings(0.8, 1e-4, 0.99);
    for &k in SCALE_EXPS.iter() {
        let amax = *g.rng.pick(&ALPHAS);
        let n = 2 + g.rng.below(5);
        let znn: Vec<f64> = (0..n).map(|_| 0.5 + g.rng.unit()).collect();
        let zsoc = soc_interior(&mut g.rng, n, 1.0, 1.0);
        for (kind, x) in [("nn", sc(&znn, k)), ("soc", sc(&zsoc, k))] {
            let spec = if kind == "nn" { SupportedConeT::NonnegativeConeT(n) } else { SupportedConeT::SecondOrderConeT(n) };
            let zero = vec![0.0; n];
            let input = json!({"kind": kind, "k": k, "x": x, "amax": amax, "inward": true});
            let (Some((a1, a2)), Some((b1, b2))) = (run_cone_step(&spec, &x, &x, &zero, &zero, amax, &st, false), run_cone_step(&spec, &x, &x, &x, &x, amax, &st, false)) else { g.sink.case("scale_sweep", input, "1%N".into(), &[kind, "panic"]); continue; };
            let coq = format!("(maxl [c_bitsame {} {}])", cfllist(&[a1, a2, b1, b2]), cfllist(&[amax; 4]));
            g.sink.case("scale_sweep", input, coq, &[kind, "inward"]);
            g.count("scale_sweep/inward");
        }
    }
}

fn scale_sweeps(g: &mut Gen, thorough: bool) {
    let reps = if thorough { 4 } else { 1 };
    for _ in 0..reps {
        for (i, &n) in [1usize, 3, 7, 12].iter().enumerate() {
            let amax = ALPHAS[i % 4];
            let z: Vec<f64> = (0..n).map(|_| 0.5 + g.rng.unit()).collect();
            let s: Vec<f64> = (0..n).map(|_| 0.5 + 4.0 * g.rng.unit()).collect();
            let dz: Vec<f64> = z.iter().map(|v| v * (g.rng.unit() - 0.6) * 6.0).collect();
            let ds: Vec<f64> = s.iter().map(|v| v * (g.rng.unit() - 0.6) * 6.0).collect();
            sweep_sym(g, "nn", &z, &s, &dz, &ds, amax);
        }
        for (i, &n) in [2usize, 3, 4, 5, 8, 12].iter().enumerate() {
            let amax = ALPHAS[i % 4];
            let dist = [1.0, 1e-4][i % 2];
            let z = soc_interior(&mut g.rng, n, dist, 1.0);
            let s = soc_interior(&mut g.rng, n, dist, 3.0);
            let dz = soc_direction(&mut g.rng, &z, [1, 5, 2, 3, 1, 5][i]);
            let ds = soc_direction(&mut g.rng, &s, [5, 1, 0, 5, 2, 1][i]);
            sweep_sym(g, "soc", &z, &s, &dz, &ds, amax);
        }
        // exact integer data incl. the a == 0 class
        sweep_sym(g, "soc", &[5., 0., 0.], &[3., 1., 1.], &[-5., 3., 4.], &[-2., 1., 0.], 1.0);
        sweep_sym(g, "soc", &[3., 0.], &[2., 0.], &[-2., 1.], &[0., 1.], 0.99);
        if blas_shim::AVAILABLE {
            for (i, &n) in [1usize, 2, 4].iter().enumerate() {
                let S = psd_matrix(&mut g.rng, n, 0.3, 1.0);
                let Z = psd_matrix(&mut g.rng, n, 0.3, 2.0);
                let dS = if i == 1 { mat_scale(&psd_matrix(&mut g.rng, n, 0.1, 1.0), -3.0) } else { sym_matrix(&mut g.rng, n, 3.0) };
                let dZ = sym_matrix(&mut g.rng, n, 3.0);
                sweep_psd(g, &S, &Z, &dS, &dZ, ALPHAS[i % 4]);
            }
        }
        for which in 0..3usize {
            for &step in &[0.5, 0.8] {
                let amax = *g.rng.pick(&ALPHAS);
                sweep_nonsym(g, which, amax, step);
            }
        }
        sweep_sym_inward(g);
    }
}

// ------------------------------------------------------------------ generation
fn generate(g: &mut Gen, thorough: bool) {
    let reps = if thorough { 6 } else { 1 };
    scale_sweeps(g, thorough);
    // --- NN
    for _ in 0..reps {
        for n in 1..=12usize {
            for &amax in ALPHAS.iter() {
                for dir in 0..5 {
                    let z: Vec<f64> = (0..n).map(|_| nn_point(&mut g.rng)).collect();
                    let s: Vec<f64> = (0..n).map(|_| nn_point(&mut g.rng)).collect();
                    let mk = |rng: &mut Rng, x: &[f64]| -> Vec<f64> {
                        match dir {
                            0 => x.iter().map(|v| v * rng.unit()).collect(),                       // inward
                            1 => x.iter().map(|v| -v * (0.5 + 4.0 * rng.unit())).collect(),        // outward
                            2 => x.iter().map(|v| v * (rng.unit() - 0.5) * 8.0).collect(),          // mixed
                            3 => x.iter().map(|v| if rng.chance(1, 2) { -v } else { 0.0 }).collect(), // exactly to the boundary at 1
                            _ => vec![0.0; x.len()],                                                 // zero
                        }
                    };
                    let dz = mk(&mut g.rng, &z);
                    let ds = mk(&mut g.rng, &s);
                    let tag = ["inward", "outward", "mixed", "grazing", "zero"][dir];
                    nn_step_case(g, &z, &dz, &s, &ds, amax, tag);
                }
            }
        }
    }
    // --- SOC, exact integer / Pythagorean data: every branch condition hit exactly
    for (x, y, interior, tag) in soc_exact_cases() {
        for &amax in ALPHAS.iter() {
            for &sc in &[1.0, 0.25, 1024.0] {
                let xs: Vec<f64> = x.iter().map(|v| v * sc).collect();
                let ys: Vec<f64> = y.iter().map(|v| v * sc).collect();
                soc_step_case(g, &xs, &ys, &xs, &ys, amax, tag, interior);
                soc_step_case(g, &xs, &y, &xs, &y, amax, tag, interior);
            }
        }
    }
    // --- SOC, generated
    for _ in 0..reps {
        for n in 2..=12usize {
            for &dist in &[1.0, 1e-4, 1e-8] {
                for &mag in &[1.0, 1e8, 1e-8] {
                    for dir in 0..6 {
                        let amax = *g.rng.pick(&ALPHAS);
                        let z = soc_interior(&mut g.rng, n, dist, mag);
                        let s = soc_interior(&mut g.rng, n, dist, 1.0 / mag);
                        let dz = soc_direction(&mut g.rng, &z, dir);
                        let ds = soc_direction(&mut g.rng, &s, dir);
                        let tag = ["inward", "outward", "tangent", "to-apex", "zero", "random"][dir];
                        soc_step_case(g, &z, &dz, &s, &ds, amax, tag, true);
                    }
                }
            }
        }
    }
    // --- backtracking on the real backtrack_search with Coq-evaluable membership tests
    for _ in 0..reps * 3 {
        for kind in 0..5usize {
            for &step in &[0.5, 0.8, 0.95] {
                for &amin in &[1e-4, 1e-8] {
                    let n = 2 + g.rng.below(4);
                    let a0 = *g.rng.pick(&ALPHAS);
                    let q: Vec<f64> = match kind {
                        1 => soc_interior(&mut g.rng, n, 1.0, 1.0),
                        2 => (0..n).map(|_| 0.2 * (g.rng.unit() - 0.5)).collect(),
                        _ => (0..n).map(|_| nn_point(&mut g.rng).min(1e3).max(1e-3)).collect(),
                    };
                    let mag = *g.rng.pick(&[0.1, 1.0, 10.0, 1e3, 1e6]);
                    let dq: Vec<f64> = (0..n).map(|_| mag * (g.rng.unit() - 0.6) * 2.0).collect();
                    backtrack_case(g, kind, 1.0, &dq, &q, a0, amin, step, ["nn", "soc", "ball", "never", "always"][kind]);
                }
            }
        }
    }
    // --- nonsymmetric cones, property level through the feasibility hooks
    for _ in 0..reps * 4 {
        for which in 0..3usize {
            for &step in &[0.5, 0.8, 0.95] {
                let amax = *g.rng.pick(&ALPHAS);
                nonsym_case(g, which, amax, step, 1e-4);
            }
        }
    }
    // --- PSD cone n = 1..5 (eigenvalue routine is LAPACK: validated per call, exact PD test)
    if blas_shim::AVAILABLE {
        for _ in 0..reps * 2 {
            for n in 1..=5usize {
                for dir in 0..5 {
                    let amax = *g.rng.pick(&ALPHAS);
                    let mag = *g.rng.pick(&[1.0, 1e3, 1e-3]);
                    let S = psd_matrix(&mut g.rng, n, 0.3, mag);
                    let Z = psd_matrix(&mut g.rng, n, 0.3, 1.0 / mag);
                    let mk = |rng: &mut Rng, X: &Mat, m: f64| -> Mat {
                        match dir {
                            0 => psd_matrix(rng, n, 0.1, m),                          // inward
                            1 => mat_scale(&psd_matrix(rng, n, 0.1, m), -3.0),         // outward
                            2 => sym_matrix(rng, n, 3.0 * m),                          // indefinite
                            3 => mat_scale(X, -*rng.pick(&[1.0, 2.0, 0.5])),           // straight to the apex
                            _ => mat_scale(X, 0.0),                                    // zero
                        }
                    };
                    let dS = mk(&mut g.rng, &S, mag);
                    let dZ = mk(&mut g.rng, &Z, 1.0 / mag);
                    psd_step_case(g, &S, &Z, &dS, &dZ, amax, ["inward", "outward", "indefinite", "to-apex", "zero"][dir]);
                }
            }
        }
    }
    // --- composite
    for k in 0..(if thorough { 240 } else { 60 }) {
        let nb = 1 + g.rng.below(5);
        let with_nonsym = k % 2 == 1;
        let mut blks = vec![];
        for _ in 0..nb {
            let c = g.rng.below(if with_nonsym { 5 } else { 3 });
            blks.push(match c {
                0 => Blk::Zero(1 + g.rng.below(3)),
                1 => Blk::NN(1 + g.rng.below(5)),
                2 => Blk::SOC(2 + g.rng.below(6)),
                3 => Blk::Exp,
                _ => Blk::Pow(0.2 + 0.6 * g.rng.unit()),
            });
        }
        let amax = *g.rng.pick(&ALPHAS);
        let msf = *g.rng.pick(&[0.99, 0.9, 0.5]);
        composite_case(g, &blks, amax, msf, if with_nonsym { "mixed" } else { "symmetric" });
    }
    // --- shift of vectors with huge components far outside the cone
    let mags: &[f64] = if std::env::var("VERIF_HUGE_EXPLORE").is_ok() { &[1e15, 1e16, 1e17, 1e20, 1e30, 1e100, 1e150, 1e160, 1e300] } else { HUGE_MAGS };
    for (mi, &m) in mags.iter().enumerate() {
        for k in 0..(if thorough { 12 } else { 4 }) {
            let mut blks = vec![];
            let which = k % 4; // 0: NN only, 1: SOC huge in the vector part, 2: SOC huge negative head, 3: mixed
            match which {
                0 => blks.push(Blk::NN(2 + g.rng.below(5))),
                1 | 2 => blks.push(Blk::SOC(2 + g.rng.below(6))),
                _ => { blks.push(Blk::NN(1 + g.rng.below(4))); blks.push(Blk::SOC(2 + g.rng.below(5))); blks.push(Blk::Zero(1)); }
            }
            let ntot: usize = blks.iter().map(blk_dim).sum();
            let mut z: Vec<f64> = (0..ntot).map(|_| (g.rng.unit() - 0.3) * 4.0).collect();
            let fac = 1.0 + g.rng.unit();
            match which {
                0 => { let i = g.rng.below(ntot); z[i] = -m * fac; if g.rng.chance(1, 2) { let j = g.rng.below(ntot); z[j] = -m * 0.37; } }
                1 => { let i = 1 + g.rng.below(ntot - 1); z[i] = if g.rng.chance(1, 2) { m * fac } else { -m * fac }; }
                2 => { z[0] = -m * fac; }
                _ => { let n0 = blk_dim(&blks[0]); z[g.rng.below(n0)] = -m * fac; }
            }
            let tag = format!("huge-1e{}-{}", m.log10().round() as i64, ["nn", "soc-vec", "soc-head", "mixed"][which]);
            shift_huge_case(g, &blks, &z, (k + mi) % 2 == 0, &tag);
        }
    }
    // --- PSD margins / unit shift / interior shift (ordinary magnitudes) and huge diagonal entries
    if blas_shim::AVAILABLE {
        for k in 0..(if thorough { 60 } else { 20 }) {
            let n = 1 + k % 5;
            let mag = *g.rng.pick(&[1.0, 1e-3, 1e3]);
            let M = match k % 4 {
                0 => sym_matrix(&mut g.rng, n, 3.0 * mag),                    // indefinite
                1 => psd_matrix(&mut g.rng, n, 0.3, mag * 20.0),               // comfortably inside
                2 => mat_scale(&psd_matrix(&mut g.rng, n, 0.01, 1.0), 0.5),    // 0 < margin < target
                _ => mat_scale(&sym_matrix(&mut g.rng, n, 1.0), 0.0),          // the origin
            };
            psd_shift_case(g, &M, k % 2 == 0, false, ["indefinite", "interior", "small-margin", "origin"][k % 4]);
        }
        let pmags: &[f64] = if std::env::var("VERIF_HUGE_EXPLORE").is_ok() { &[1e10, 1e13, 1e15, 1e16, 1e17, 1e20, 1e100] } else { &[1e15, 1e16, 1e17, 1e20, 1e100] };
        for &m in pmags {
            for k in 0..(if thorough { 6 } else { 3 }) {
                let n = 2 + k % 3;
                let mut M = sym_matrix(&mut g.rng, n, 3.0);
                let fac = 1.0 + g.rng.unit();
                match k % 3 {
                    0 => { M[0][0] = -m * fac; }                                            // one huge negative diagonal entry
                    1 => { for i in 0..n { M[i][i] = -m; } M[0][1] = 5.0; M[1][0] = 5.0; } // all diagonals huge: -m I + small coupling
                    _ => { let j = n - 1; M[j][j] = -m * fac; M[0][0] = -m * 0.37; }
                }
                let tag = format!("huge-1e{}-{}", m.log10().round() as i64, ["one-diag", "all-diag", "two-diag"][k % 3]);
                psd_shift_case(g, &M, k % 2 == 0, true, &tag);
            }
        }
    }
    // --- margins / shift
    for k in 0..(if thorough { 300 } else { 90 }) {
        let nb = 1 + g.rng.below(4);
        let mut blks = vec![];
        for _ in 0..nb {
            blks.push(match g.rng.below(3) {
                0 => Blk::Zero(1 + g.rng.below(3)),
                1 => Blk::NN(1 + g.rng.below(5)),
                _ => Blk::SOC(2 + g.rng.below(6)),
            });
        }
        if !blks.iter().any(|b| !matches!(b, Blk::Zero(_))) { blks.push(Blk::NN(2)); }
        let ntot: usize = blks.iter().map(blk_dim).sum();
        let mode = k % 5;
        let mag = *g.rng.pick(&[1.0, 1e-3, 1e3, 1e8]);
        let z: Vec<f64> = (0..ntot).map(|_| match mode {
            0 => mag * (g.rng.unit() - 0.5) * 2.0,     // anywhere
            1 => mag * (0.5 + g.rng.unit()) + 3.0,      // comfortably positive
            2 => 0.0,                                    // the origin
            4 => 0.05 + 0.85 * g.rng.unit(),             // small positive margins (0 < margin < target)
            _ => (g.rng.range(-3, 3)) as f64,            // small integers (exact)
        }).collect();
        // mode 1: make SOC blocks have a large margin as well
        let mut z = z;
        if mode == 1 {
            let mut off = 0;
            for b in &blks {
                if let Blk::SOC(n) = b { let nn = z[off + 1..off + n].iter().fold(0.0, |a, v| a + v * v).sqrt(); z[off] = nn * 2.0 + 5.0 * mag; }
                off += blk_dim(b);
            }
        }
        if mode == 4 {
            let mut off = 0;
            for b in &blks {
                if let Blk::SOC(n) = b {
                    for i in 1..*n { z[off + i] = (g.rng.unit() - 0.5) * 2.0; }
                    let nn = z[off + 1..off + n].iter().fold(0.0, |a, v| a + v * v).sqrt();
                    z[off] = nn + 0.05 + 0.85 * g.rng.unit();
                }
                off += blk_dim(b);
            }
        }
        shift_case(g, &blks, &z, k % 2 == 0, ["anywhere", "interior", "origin", "integers", "small-margin"][mode]);
    }
}

fn replay(g: &mut Gen, v: &Value) {
    let inp = if v.get("input").is_some() { &v["input"] } else { v };
    let op = v.get("op").and_then(|x| x.as_str()).unwrap_or("soc_step");
    match op {
        "nn_step" => nn_step_case(g, &f64_vec(&inp["z"]), &f64_vec(&inp["dz"]), &f64_vec(&inp["s"]), &f64_vec(&inp["ds"]), inp["amax"].as_f64().unwrap(), "replay"),
        "soc_step" => soc_step_case(g, &f64_vec(&inp["z"]), &f64_vec(&inp["dz"]), &f64_vec(&inp["s"]), &f64_vec(&inp["ds"]), inp["amax"].as_f64().unwrap(), "replay",
                                    inp.get("interior").and_then(|b| b.as_bool()).unwrap_or(true)),
        "backtrack" => backtrack_case(g, inp["kind"].as_u64().unwrap() as usize, inp["p"].as_f64().unwrap(), &f64_vec(&inp["dq"]), &f64_vec(&inp["q"]),
                                      inp["a0"].as_f64().unwrap(), inp["amin"].as_f64().unwrap(), inp["step"].as_f64().unwrap(), "replay"),
        "shift_huge_nn" | "shift_huge_soc" | "shift_huge" => {
            let blks: Vec<Blk> = inp["blocks"].as_array().unwrap().iter().map(|b| {
                let t = b.as_str().unwrap();
                if let Some(n) = t.strip_prefix("KSOC") { Blk::SOC(n.parse().unwrap()) }
                else if let Some(n) = t.strip_prefix("KNN") { Blk::NN(n.parse().unwrap()) }
                else { Blk::Zero(t.strip_prefix("KZero").unwrap().parse().unwrap()) }
            }).collect();
            shift_huge_case(g, &blks, &f64_vec(&inp["z"]), inp["primal"].as_bool().unwrap_or(true), "replay")
        }
        "psd_shift" | "shift_huge_psd" => {
            let m: Mat = inp["M"].as_array().unwrap().iter().map(|r| f64_vec(r)).collect();
            psd_shift_case(g, &m, inp["primal"].as_bool().unwrap_or(true), inp["huge"].as_bool().unwrap_or(false), "replay")
        }
        "psd_step" => {
            let m = |k: &str| -> Mat { inp[k].as_array().unwrap().iter().map(|r| f64_vec(r)).collect() };
            psd_step_case(g, &m("S"), &m("Z"), &m("dS"), &m("dZ"), inp["amax"].as_f64().unwrap(), "replay")
        }
        _ => { g.sink.record(json!({"note": format!("replay of op {} re-runs the generator stream instead", op)})); generate(g, false); }
    }
}

fn main() {
    let args: Vec<String> = std::env::args().collect();
    let mut out = String::from("/dev/stdout");
    let mut seed: u64 = 1;
    let mut tier = String::from("quick");
    let mut replay_file: Option<String> = None;
    let mut i = 1;
    while i < args.len() {
        match args[i].as_str() {
            "--out" => { out = args[i + 1].clone(); i += 1; }
            "--seed" => { seed = args[i + 1].parse().unwrap_or(1); i += 1; }
            "--tier" => { tier = args[i + 1].clone(); i += 1; }
            "--replay" => { replay_file = Some(args[i + 1].clone()); i += 1; }
            _ => {}
        }
        i += 1;
    }
    if std::env::var("VERIF_SHOW_PANIC").is_err() { silence_panics(); }
    let mut g = Gen { sink: CaseSink::new(&out), rng: Rng::new(seed), stats: Default::default() };
    // corpus first
    for (x, y, amax) in corpus_soc() {
        soc_step_case(&mut g, &x, &y, &x, &y, amax, "corpus-F3", true);
    }
    // F13 (known finding): absorption in the SOC margin for components beyond 2^53
    shift_huge_case(&mut g, &[Blk::SOC(3)], &[-1e17, 3.0, 4.0], true, "corpus-F13");
    if blas_shim::AVAILABLE {
        psd_shift_case(&mut g, &vec![vec![-1e17, 5.0], vec![5.0, -1e17]], true, true, "corpus-F13-psd");
    }
    if let Some(p) = replay_file {
        let txt = std::fs::read_to_string(&p).expect("cannot read replay file");
        let v: Value = serde_json::from_str(&txt).expect("replay file is not JSON");
        let cases = match v.get("cases") { Some(Value::Array(a)) => a.clone(), _ => vec![v] };
        for c in cases.iter() { replay(&mut g, c); }
    } else {
        generate(&mut g, tier == "thorough");
    }
    let st = json!(g.stats);
    g.sink.record(json!({"stats": st}));
    g.sink.record(json!({"meta": {"prop": "c15", "seed": seed, "tier": tier, "blas": blas_shim::AVAILABLE}}));
    g.sink.flush();
}
