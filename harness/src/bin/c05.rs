//! c05 --out FILE [--seed N] [--tier quick|thorough] [--replay FILE]
//! Equivalent formulations / configurations of one base problem are solved and compared:
//! verdict class and objective agreement are decided in Coq (c_class, c_cross) on the
//! returned points mapped back to the base problem's coordinates; bitwise reproducibility
//! and concurrency are compared here (Rust vs Rust) and reported as direct records.
#![allow(non_snake_case)]
#[path = "../blas_shim.rs"]
mod blas_shim;
#[path = "../common.rs"]
mod common;
#[path = "../smallgen.rs"]
mod smallgen;

use clarabel::algebra::*;
use clarabel::solver::*;
use common::*;
use serde_json::{json, Value};
use smallgen::*;

#[derive(Clone)]
struct Sol {
    status: u32,
    iterations: u32,
    x: Vec<f64>,
    s: Vec<f64>,
    z: Vec<f64>,
    obj: f64,
    obj_dual: f64,
}

#[derive(Clone)]
struct Knobs {
    presolve: bool,
    equilibrate: bool,
    static_reg: bool,
    method: &'static str,
    threads: u32,
    /// (tol_gap_abs, tol_gap_rel, tol_feas); None = defaults
    tols: Option<(f64, f64, f64)>,
}
impl Knobs {
    fn default() -> Self { Knobs { presolve: true, equilibrate: true, static_reg: true, method: "qdldl", threads: 0, tols: None } }
    fn settings(&self) -> DefaultSettings<f64> {
        let d = DefaultSettings::<f64>::default();
        let (ga, gr, tf) = self.tols.unwrap_or((d.tol_gap_abs, d.tol_gap_rel, d.tol_feas));
        DefaultSettings {
            tol_gap_abs: ga,
            tol_gap_rel: gr,
            tol_feas: tf,
            verbose: false,
            presolve_enable: self.presolve,
            equilibrate_enable: self.equilibrate,
            static_regularization_enable: self.static_reg,
            direct_solve_method: self.method.to_string(),
            max_threads: self.threads,
            ..DefaultSettings::default()
        }
    }
    fn json(&self) -> Value {
        json!({"presolve": self.presolve, "equilibrate": self.equilibrate, "static_reg": self.static_reg, "method": self.method, "threads": self.threads,
               "tols": self.tols.map(|t| vec![t.0, t.1, t.2])})
    }
}

fn solve(p: &Prob, k: &Knobs) -> Option<Sol> {
    guarded(|| {
        let mut solver = DefaultSolver::new(&p.P, &p.q, &p.A, &p.b, &p.cones, k.settings());
        solver.solve();
        let s = &solver.solution;
        Sol { status: s.status as u32, iterations: s.iterations, x: s.x.clone(), s: s.s.clone(), z: s.z.clone(), obj: s.obj_val, obj_dual: s.obj_val_dual }
    })
}

fn dense(m: &CscMatrix<f64>) -> Vec<Vec<f64>> {
    let mut d = vec![vec![0.0; m.n]; m.m];
    for j in 0..m.n {
        for k in m.colptr[j]..m.colptr[j + 1] {
            d[m.rowval[k]][j] += m.nzval[k];
        }
    }
    d
}
fn csc(d: &[Vec<f64>], m: usize, n: usize) -> CscMatrix<f64> {
    let (mut I, mut J, mut V) = (vec![], vec![], vec![]);
    for i in 0..m { for j in 0..n { if d[i][j] != 0.0 { I.push(i); J.push(j); V.push(d[i][j]); } } }
    CscMatrix::new_from_triplets(m, n, I, J, V)
}
fn sym_full(P: &CscMatrix<f64>) -> Vec<Vec<f64>> {
    let d = dense(P);
    let n = P.n;
    let mut f = vec![vec![0.0; n]; n];
    for i in 0..n { for j in i..n { f[i][j] = d[i][j]; f[j][i] = d[i][j]; } }
    f
}
fn triu_of(f: &[Vec<f64>], n: usize) -> CscMatrix<f64> {
    let mut u = vec![vec![0.0; n]; n];
    for i in 0..n { for j in i..n { u[i][j] = f[i][j]; } }
    csc(&u, n, n)
}
fn trips(m: &CscMatrix<f64>) -> String {
    let mut items = vec![];
    for j in 0..m.n { for k in m.colptr[j]..m.colptr[j + 1] { items.push(format!("({}, {}, {})", cn(m.rowval[k]), cn(j), cdy(m.nzval[k]))); } }
    format!("[{}]", items.join("; "))
}

/// a variant problem together with the maps that take its solution back to base coordinates
struct Variant {
    name: String,
    prob: Prob,
    knobs: Knobs,
    /// x_base[col_map[j]] = x_var[j]
    col_map: Vec<usize>,
    /// s_base[row_map[i]] = s_var[i]
    row_map: Vec<usize>,
    lambda: f64,
}

fn identity_variant(name: &str, p: &Prob, k: Knobs) -> Variant {
    Variant { name: name.into(), prob: p.clone(), knobs: k, col_map: (0..p.q.len()).collect(), row_map: (0..p.b.len()).collect(), lambda: 1.0 }
}

fn variants(rng: &mut Rng, p: &Prob) -> Vec<Variant> {
    let n = p.q.len();
    let m = p.b.len();
    let A = dense(&p.A);
    let Pf = sym_full(&p.P);
    let mut out = vec![];
    // --- settings toggles
    let mut k = Knobs::default(); k.presolve = false; out.push(identity_variant("presolve off", p, k));
    let mut k = Knobs::default(); k.equilibrate = false; out.push(identity_variant("equilibrate off", p, k));
    let mut k = Knobs::default(); k.static_reg = false; out.push(identity_variant("static regularisation off", p, k));
    let mut k = Knobs::default(); k.method = "faer"; out.push(identity_variant("faer backend", p, k));
    let mut k = Knobs::default(); k.method = "faer"; k.threads = 4; out.push(identity_variant("faer backend, 4 threads", p, k));
    let mut k = Knobs::default(); k.method = "auto"; k.threads = 1; out.push(identity_variant("auto backend, 1 thread", p, k));
    // --- an unbounded constraint written in different ways: extra nonnegative rows whose bound is
    // the infinity constant itself, or far beyond it (presolve removes them; the verdict and the
    // base rows' solution must not depend on how 'no bound' was spelt)
    for (nm, bound) in [("vacuous rows bounded by get_infinity()", clarabel::get_infinity()), ("vacuous rows bounded by 1e30", 1e30)] {
        let extra = 1 + rng.below(2);
        let mut A2 = A.clone();
        let mut b2 = p.b.clone();
        for _ in 0..extra {
            A2.push((0..n).map(|_| rng.range(-2, 2) as f64).collect());
            b2.push(bound);
        }
        let mut cones2 = p.cones.clone();
        cones2.push(NonnegativeConeT(extra));
        let prob = Prob { P: p.P.clone(), q: p.q.clone(), A: csc(&A2, m + extra, n), b: b2, cones: cones2, label: p.label.clone(), intent: p.intent };
        out.push(Variant { name: nm.into(), prob, knobs: Knobs::default(), col_map: (0..n).collect(), row_map: (0..m).collect(), lambda: 1.0 });
    }
    // --- P given as full symmetric matrix
    {
        let mut q2 = p.clone();
        q2.P = csc(&Pf, n, n);
        out.push(Variant { name: "P full symmetric".into(), prob: q2, knobs: Knobs::default(), col_map: (0..n).collect(), row_map: (0..m).collect(), lambda: 1.0 });
    }
    // --- variables permuted
    {
        let mut perm: Vec<usize> = (0..n).collect();
        rng.shuffle(&mut perm); // new column j is old column perm[j]
        let mut P2 = vec![vec![0.0; n]; n];
        for i in 0..n { for j in 0..n { P2[i][j] = Pf[perm[i]][perm[j]]; } }
        let mut A2 = vec![vec![0.0; n]; m];
        for i in 0..m { for j in 0..n { A2[i][j] = A[i][perm[j]]; } }
        let q2: Vec<f64> = (0..n).map(|j| p.q[perm[j]]).collect();
        let prob = Prob { P: triu_of(&P2, n), q: q2, A: csc(&A2, m, n), b: p.b.clone(), cones: p.cones.clone(), label: p.label.clone(), intent: p.intent };
        out.push(Variant { name: "variables permuted".into(), prob, knobs: Knobs::default(), col_map: perm, row_map: (0..m).collect(), lambda: 1.0 });
    }
    // --- rows permuted inside nonnegative / zero cones, cones reordered, NN cones split
    {
        // blocks of the base problem
        let mut blocks: Vec<(SupportedConeT<f64>, Vec<usize>)> = vec![];
        let mut r = 0;
        for c in p.cones.iter() { let d = cone_dim(c); blocks.push((c.clone(), (r..r + d).collect())); r += d; }
        // permute rows within scalar cones
        for (c, rows) in blocks.iter_mut() {
            if matches!(c, NonnegativeConeT(_) | ZeroConeT(_)) { rng.shuffle(rows); }
        }
        // split some nonnegative cones in two
        let mut blocks2: Vec<(SupportedConeT<f64>, Vec<usize>)> = vec![];
        for (c, rows) in blocks.into_iter() {
            match c {
                NonnegativeConeT(d) if d >= 2 && rng.chance(1, 2) => {
                    let k = 1 + rng.below(d - 1);
                    blocks2.push((NonnegativeConeT(k), rows[..k].to_vec()));
                    blocks2.push((NonnegativeConeT(d - k), rows[k..].to_vec()));
                }
                _ => blocks2.push((c, rows)),
            }
        }
        // reorder the cones
        rng.shuffle(&mut blocks2);
        let row_map: Vec<usize> = blocks2.iter().flat_map(|(_, rows)| rows.clone()).collect();
        let cones2: Vec<_> = blocks2.iter().map(|(c, _)| c.clone()).collect();
        let A2: Vec<Vec<f64>> = row_map.iter().map(|&i| A[i].clone()).collect();
        let b2: Vec<f64> = row_map.iter().map(|&i| p.b[i]).collect();
        let prob = Prob { P: p.P.clone(), q: p.q.clone(), A: csc(&A2, m, n), b: b2, cones: cones2, label: p.label.clone(), intent: p.intent };
        out.push(Variant { name: "rows permuted in scalar cones, NN cones split, cones reordered".into(), prob, knobs: Knobs::default(), col_map: (0..n).collect(), row_map, lambda: 1.0 });
    }
    // --- adjacent nonnegative cones merged (only if the base has some)
    {
        let mut cones2: Vec<SupportedConeT<f64>> = vec![];
        let mut merged = false;
        for c in p.cones.iter() {
            if let (Some(NonnegativeConeT(a)), NonnegativeConeT(b)) = (cones2.last().cloned(), c) {
                let l = cones2.len();
                cones2[l - 1] = NonnegativeConeT(a + *b);
                merged = true;
            } else { cones2.push(c.clone()); }
        }
        if merged {
            let mut q2 = p.clone();
            q2.cones = cones2;
            out.push(Variant { name: "adjacent NN cones merged".into(), prob: q2, knobs: Knobs::default(), col_map: (0..n).collect(), row_map: (0..m).collect(), lambda: 1.0 });
        }
    }
    // --- objective scaled by a positive constant
    // (powers of two up to 2^+-24: the objective-scaling constant of the equilibration hits its bounds)
    for lam in [2.0, 0.125, 3.0, 16777216.0, 1.0 / 16777216.0] {
        let mut q2 = p.clone();
        for v in q2.q.iter_mut() { *v *= lam; }
        for v in q2.P.nzval.iter_mut() { *v *= lam; }
        out.push(Variant { name: format!("objective scaled by {}", lam), prob: q2, knobs: Knobs::default(), col_map: (0..n).collect(), row_map: (0..m).collect(), lambda: lam });
    }
    out
}

fn map_back(v: &Variant, s: &Sol) -> (Vec<f64>, Vec<f64>, Vec<f64>) {
    let n = v.col_map.len();
    let m = v.row_map.len();
    let mut x = vec![0.0; n];
    let mut ss = vec![0.0; m];
    let mut z = vec![0.0; m];
    for j in 0..n { x[v.col_map[j]] = s.x[j]; }
    for i in 0..m { ss[v.row_map[i]] = s.s[i]; z[v.row_map[i]] = s.z[i] / v.lambda; }
    (x, ss, z)
}

fn gap_tol(obj: f64, obj_dual: f64, lambda: f64) -> f64 {
    let st = DefaultSettings::<f64>::default();
    let g = st.tol_gap_abs.max(st.tol_gap_rel * 1f64.max(obj.abs().min(obj_dual.abs())));
    g / lambda
}

fn bits(v: &[f64]) -> Vec<u64> { v.iter().map(|x| x.to_bits()).collect() }
fn same_bits(a: &Sol, b: &Sol) -> bool {
    a.status == b.status && a.iterations == b.iterations && bits(&a.x) == bits(&b.x) && bits(&a.s) == bits(&b.s)
        && bits(&a.z) == bits(&b.z) && a.obj.to_bits() == b.obj.to_bits() && a.obj_dual.to_bits() == b.obj_dual.to_bits()
}
fn finite(v: &[f64]) -> bool { v.iter().all(|x| x.is_finite()) }

fn main() {
    let args: Vec<String> = std::env::args().collect();
    let mut out = String::from("/dev/stdout");
    let mut seed: u64 = 1;
    let mut tier = String::from("quick");
    let mut replay: Option<String> = None;
    let mut i = 1;
    while i < args.len() {
        match args[i].as_str() {
            "--out" => { out = args[i + 1].clone(); i += 1; }
            "--seed" => { seed = args[i + 1].parse().unwrap_or(1); i += 1; }
            "--tier" => { tier = args[i + 1].clone(); i += 1; }
            "--replay" => { replay = Some(args[i + 1].clone()); i += 1; }
            _ => {}
        }
        i += 1;
    }
    silence_panics();
    let thorough = tier == "thorough";
    let mut sink = CaseSink::new(&out);
    let mut rng = Rng::new(seed ^ 0x05);
    let mut stats = serde_json::Map::new();
    let mut bump = |stats: &mut serde_json::Map<String, Value>, k: &str| {
        let v = stats.get(k).and_then(|x| x.as_u64()).unwrap_or(0);
        stats.insert(k.to_string(), json!(v + 1));
    };

    // ------------------------------------------------------------ base problems
    let mut bases: Vec<Prob> = vec![];
    if let Some(path) = replay.as_ref() {
        let txt = std::fs::read_to_string(path).expect("cannot read replay file");
        let v: Value = serde_json::from_str(&txt).expect("replay file is not JSON");
        let inp = v.get("input").cloned().unwrap_or(v.clone());
        if inp.get("problem").is_some() { bases.push(Prob::from_json(&inp["problem"])); }
    } else {
        let nb = if thorough { 250 } else { 40 };
        for k in 0..nb {
            let ncones = 1 + rng.below(3);
            let cones: Vec<_> = (0..ncones).map(|_| random_cone(&mut rng, &[0, 1, 1, 1, 2, 2, 3, 4, 5, 6])).collect();
            let m: usize = cones.iter().map(cone_dim).sum();
            let target = 1 + rng.below(7);
            match k % 8 {
                6 => bases.push(primal_infeasible(&mut rng, target, cones)),
                7 => bases.push(dual_infeasible(&mut rng, target, cones)),
                _ => {
                    // well-posed (see c06.rs): n <= m or strictly convex objective
                    let strictly_convex = target > m || rng.chance(1, 3);
                    let n = if strictly_convex { target } else { target.min(m) };
                    let pk = if strictly_convex { 3 } else { rng.below(3) };
                    bases.push(planted(&mut rng, n, cones, pk));
                }
            }
        }
    }

    // box-constrained LPs (degenerate vertices: the refinement / regularisation paths matter here)
    if replay.is_none() {
        for k in 0..(if thorough { 30 } else { 10 }) {
            let n = 3 + rng.below(6);
            let mut rows: Vec<Vec<f64>> = vec![];
            let mut b: Vec<f64> = vec![];
            for j in 0..n { let mut r = vec![0.0; n]; r[j] = 1.0; rows.push(r); b.push(1.0 + rng.below(3) as f64); }
            for j in 0..n { let mut r = vec![0.0; n]; r[j] = -1.0; rows.push(r); b.push(rng.below(2) as f64); }
            if k % 2 == 1 { rows.push(vec![1.0; n]); b.push(n as f64 / 2.0); }
            let m = rows.len();
            bases.push(Prob { P: CscMatrix::zeros((n, n)), q: (0..n).map(|_| (rng.range(-3, 3) as f64) + 0.5).collect(), A: dense_rows_to_csc(&rows, m, n), b,
                              cones: vec![NonnegativeConeT(m)], label: format!("box LP n={} ({})", n, k), intent: 0 });
        }
    }

    // ------------------------------------------------------------ variants
    let tol_feas = DefaultSettings::<f64>::default().tol_feas;
    for p in bases.iter() {
        let base = match solve(p, &Knobs::default()) { Some(s) => s, None => continue };
        bump(&mut stats, &format!("base_status_{}", base.status));
        // identical call repeated: bit-for-bit
        if let Some(again) = solve(p, &Knobs::default()) {
            sink.record(json!({"direct": {"prop": "C05", "ok": same_bits(&base, &again), "what": "repeating an identical call is bit-for-bit reproducible", "input": {"label": p.label, "problem": p.to_json()}}}));
        }
        // the same solver object solved twice
        let twice = guarded(|| {
            let mut solver = DefaultSolver::new(&p.P, &p.q, &p.A, &p.b, &p.cones, Knobs::default().settings());
            solver.solve();
            let a = (solver.solution.status as u32, solver.solution.obj_val, bits(&solver.solution.x));
            solver.solve();
            let b = (solver.solution.status as u32, solver.solution.obj_val, bits(&solver.solution.x));
            (a, b)
        });
        if let Some((a, b)) = twice {
            let class_ok = a.0 == b.0;
            let obj_ok = (a.1.is_nan() && b.1.is_nan()) || (a.1 - b.1).abs() <= 2.0 * gap_tol(a.1, a.1, 1.0);
            // with symmetric cones only there is no scaling-strategy switch: default_start
            // re-initialises every variable, so the second solve must repeat the first bit for bit
            let symmetric_only = p.cones.iter().all(|c| matches!(c, ZeroConeT(_) | NonnegativeConeT(_) | SecondOrderConeT(_) | PSDTriangleConeT(_)));
            let bit_ok = !symmetric_only || a.2 == b.2;
            sink.record(json!({"direct": {"prop": "C05", "ok": class_ok && obj_ok && bit_ok, "what": "the same solver solved twice gives the same verdict and objective (bit-identical iterates for symmetric-cone problems)", "input": {"label": p.label, "problem": p.to_json(), "bitwise": a.2 == b.2, "symmetric_only": symmetric_only}}}));
            bump(&mut stats, if a.2 == b.2 { "second_solve_bitwise_equal" } else { "second_solve_not_bitwise" });
        }
        for v in variants(&mut rng, p) {
            let sol = match solve(&v.prob, &v.knobs) {
                Some(s) => s,
                None => {
                    sink.record(json!({"direct": {"prop": "C05", "ok": false, "what": format!("variant '{}' panicked", v.name), "input": {"label": p.label, "problem": p.to_json(), "variant": v.name}}}));
                    continue;
                }
            };
            bump(&mut stats, &format!("variant_{}", v.name.split(' ').next().unwrap_or("?")));
            let input = json!({"label": p.label, "problem": p.to_json(), "variant": v.name, "knobs": v.knobs.json(),
                               "status": [base.status, sol.status], "obj": [base.obj, sol.obj / v.lambda], "iterations": [base.iterations, sol.iterations]});
            let mut coq = format!("(c_class {} {})", cn(base.status as usize), cn(sol.status as usize));
            if base.status == 1 && sol.status == 1 && finite(&sol.x) && finite(&sol.s) && finite(&sol.z) {
                let (x2, s2, z2) = map_back(&v, &sol);
                let g1 = gap_tol(base.obj, base.obj_dual, 1.0);
                let g2 = gap_tol(sol.obj, sol.obj_dual, v.lambda);
                // residual bounds each run's own Solved verdict guarantees (own data, own point), in base units
                let n2 = |v: &[f64]| v.iter().map(|x| x * x).sum::<f64>().sqrt();
                let ni = |v: &[f64]| v.iter().fold(0.0f64, |m, x| m.max(x.abs()));
                let up = 1.0 + 1e-9;
                let rp1 = tol_feas * 1f64.max(ni(&p.b) + n2(&base.x) + n2(&base.s)) * up;
                let rd1 = tol_feas * 1f64.max(ni(&p.q) + n2(&base.x) + n2(&base.z)) * up;
                let rp2 = tol_feas * 1f64.max(ni(&v.prob.b) + n2(&sol.x) + n2(&sol.s)) * up;
                let rd2 = tol_feas * 1f64.max(ni(&v.prob.q) + n2(&sol.x) + n2(&sol.z)) / v.lambda * up;
                coq = format!("(N.max {} (c_cross {} {} {} {} {} {} {} {} {} {} {} {} {} {} {} {} {} {} {} {}))", coq,
                    cn(p.q.len()), cn(p.b.len()), trips(&p.P), trips(&p.A), cdylist(&p.q), cdylist(&p.b),
                    cdy(g1), cdy(g2), cdy(rp1), cdy(rd1), cdy(rp2), cdy(rd2), cdy(base.obj), cdy(sol.obj / v.lambda),
                    cdylist(&base.x), cdylist(&base.s), cdylist(&base.z), cdylist(&x2), cdylist(&s2), cdylist(&z2));
            }
            sink.case("variant", input, coq, &["C05"]);
        }
    }

    // ------------------------------------------------------------ non-default tolerances: the same problem under
    // two configurations that share the tolerances (equilibration on / off, presolve off, other backend)
    // must agree within THOSE tolerances.  Objectives are scaled up so that absolute and relative gap
    // tolerances differ by orders of magnitude in effect.
    if replay.is_none() {
        let tolsets: [(f64, f64, f64); 3] = [(1e-3, 1e-10, 1e-8), (1e-10, 1e-4, 1e-8), (1e-6, 1e-6, 1e-6)];
        let mut done = 0;
        for p0 in bases.iter().filter(|p| p.intent == 0) {
            if done >= (if thorough { 60 } else { 12 }) { break; }
            done += 1;
            let mut p = p0.clone();
            let sc = [1e5, 1e3, 1e6][done % 3];
            for v in p.q.iter_mut() { *v *= sc; }
            for v in p.P.nzval.iter_mut() { *v *= sc; }
            p.label = format!("{} objective x{}", p.label, sc);
            for (ti, t) in tolsets.iter().enumerate() {
                let ka = Knobs { tols: Some(*t), ..Knobs::default() };
                let kb = match (done + ti) % 3 {
                    0 => Knobs { tols: Some(*t), equilibrate: false, ..Knobs::default() },
                    1 => Knobs { tols: Some(*t), presolve: false, static_reg: false, ..Knobs::default() },
                    _ => Knobs { tols: Some(*t), method: "faer", ..Knobs::default() },
                };
                let (a, b) = match (solve(&p, &ka), solve(&p, &kb)) { (Some(a), Some(b)) => (a, b), _ => continue };
                bump(&mut stats, "tolerance_pairs");
                let input = json!({"label": p.label, "problem": p.to_json(), "variant": format!("tolerances {:?} vs same tolerances with {:?}", t, kb.json()), "knobs": kb.json(),
                                   "status": [a.status, b.status], "obj": [a.obj, b.obj], "iterations": [a.iterations, b.iterations]});
                let mut coq = format!("(c_class {} {})", cn(a.status as usize), cn(b.status as usize));
                if a.status == 1 && b.status == 1 && finite(&a.x) && finite(&a.s) && finite(&a.z) && finite(&b.x) && finite(&b.s) && finite(&b.z) {
                    let gt = |o: f64, od: f64| t.0.max(t.1 * 1f64.max(o.abs().min(od.abs())));
                    let n2 = |v: &[f64]| v.iter().map(|x| x * x).sum::<f64>().sqrt();
                    let ni = |v: &[f64]| v.iter().fold(0.0f64, |m, x| m.max(x.abs()));
                    let up = 1.0 + 1e-9;
                    let rp1 = t.2 * 1f64.max(ni(&p.b) + n2(&a.x) + n2(&a.s)) * up;
                    let rd1 = t.2 * 1f64.max(ni(&p.q) + n2(&a.x) + n2(&a.z)) * up;
                    let rp2 = t.2 * 1f64.max(ni(&p.b) + n2(&b.x) + n2(&b.s)) * up;
                    let rd2 = t.2 * 1f64.max(ni(&p.q) + n2(&b.x) + n2(&b.z)) * up;
                    coq = format!("(N.max {} (c_cross {} {} {} {} {} {} {} {} {} {} {} {} {} {} {} {} {} {} {} {}))", coq,
                        cn(p.q.len()), cn(p.b.len()), trips(&p.P), trips(&p.A), cdylist(&p.q), cdylist(&p.b),
                        cdy(gt(a.obj, a.obj_dual)), cdy(gt(b.obj, b.obj_dual)), cdy(rp1), cdy(rd1), cdy(rp2), cdy(rd2), cdy(a.obj), cdy(b.obj),
                        cdylist(&a.x), cdylist(&a.s), cdylist(&a.z), cdylist(&b.x), cdylist(&b.s), cdylist(&b.z));
                }
                sink.case("variant", input, coq, &["C05"]);
            }
        }
    }

    // ------------------------------------------------------------ concurrency: 8 threads x distinct problems
    if replay.is_none() {
        let probs: Vec<Prob> = bases.iter().take(if thorough { 64 } else { 16 }).cloned().collect();
        let seq: Vec<Option<Sol>> = probs.iter().map(|p| solve(p, &Knobs::default())).collect();
        let mut handles = vec![];
        for chunk in probs.chunks((probs.len() + 7) / 8).map(|c| c.to_vec()) {
            handles.push(std::thread::spawn(move || chunk.iter().map(|p| solve(p, &Knobs::default())).collect::<Vec<_>>()));
        }
        let mut conc: Vec<Option<Sol>> = vec![];
        for h in handles { conc.extend(h.join().unwrap_or_default()); }
        for (k, (a, b)) in seq.iter().zip(conc.iter()).enumerate() {
            let ok = match (a, b) { (Some(a), Some(b)) => same_bits(a, b), (None, None) => true, _ => false };
            sink.record(json!({"direct": {"prop": "C05", "ok": ok, "what": "solver instances run concurrently on different threads reproduce the sequential results bit for bit", "input": {"label": probs[k].label, "problem": probs[k].to_json()}}}));
        }
    }

    // ------------------------------------------------------------ the same solver solved twice, with idle
    // time before and between the solves and a finite time limit: idle wall-clock time outside
    // solve() and the time of the earlier solve must not count against the limit, so both solves
    // return the base verdict.  Robust under load: MaxTime is a failure only when the WHOLE call
    // took less than the limit by this harness's own clock.
    if replay.is_none() {
        let lim = 0.4f64;
        let probs: Vec<Prob> = bases.iter().take(if thorough { 32 } else { 8 }).cloned().collect();
        let mut handles = vec![];
        for p in probs.into_iter() {
            handles.push(std::thread::spawn(move || {
                let base = solve(&p, &Knobs::default());
                let r = guarded(|| {
                    let mut st = Knobs::default().settings();
                    st.time_limit = lim;
                    // solve_time is the sum of the solver's root timers: set-up (spent in the constructor)
                    // + this solve + post-processing, so the constructor call is part of the bound
                    let tn = std::time::Instant::now();
                    let mut solver = DefaultSolver::new(&p.P, &p.q, &p.A, &p.b, &p.cones, st);
                    let tnew = tn.elapsed().as_secs_f64();
                    let mut outs = vec![];
                    for _ in 0..2 {
                        std::thread::sleep(std::time::Duration::from_secs_f64(lim * 1.25));
                        let t0 = std::time::Instant::now();
                        solver.solve();
                        let d = t0.elapsed().as_secs_f64();
                        outs.push((solver.solution.status, solver.solution.solve_time, tnew + d));
                    }
                    outs
                });
                (p, base, r)
            }));
        }
        for h in handles {
            if let Ok((p, Some(base), Some(outs))) = h.join() {
                for (k, (st, reported, d)) in outs.iter().enumerate() {
                    let early_maxtime = *st == SolverStatus::MaxTime && *d < lim;
                    let inconclusive = *st == SolverStatus::MaxTime && *d >= lim;
                    let same = (*st as u32) == base.status;
                    let time_ok = *reported <= *d + 1e-3;
                    let ok = !early_maxtime && (same || inconclusive) && time_ok;
                    sink.record(json!({"direct": {"prop": "C05", "ok": ok,
                        "what": "a solver solved after idle time (and solved twice) under a finite time limit gives the base verdict: idle time and earlier solves do not count against the limit, reported solve_time <= duration of constructor + call",
                        "input": {"label": p.label, "problem": p.to_json(), "solve": k + 1, "status": *st as u32, "base_status": base.status,
                                  "time_limit": lim, "reported_solve_time": reported, "measured_constructor_plus_call_s": d}}}));
                }
            }
        }
    }

    sink.record(json!({"stats": Value::Object(stats)}));
    sink.record(json!({"meta": {"prop": "c05", "seed": seed, "tier": tier, "blas": blas_shim::AVAILABLE}}));
    sink.flush();
}
