//! skel --out FILE [--seed N] [--tier quick|thorough]
//! One run serves C04, C07 and C20: real solves with the per-thread event recorder armed.
//!   * C04 cases  : c_trace (control flow = model) and c_final, plus direct records for
//!                  panics / hangs / construction rejects on the boundary-shape stream
//!   * C07 cases  : budget sweep (bitwise, Rust vs Rust) and interior snapshots
//!   * C20 cases  : c_column (iteration column, footer) plus direct records for routing
#![allow(non_snake_case)]
#[path = "../blas_shim.rs"]
mod blas_shim;
#[path = "../common.rs"]
mod common;
#[path = "../smallgen.rs"]
mod smallgen;

use clarabel::algebra::*;
use clarabel::io::ConfigurablePrintTarget;
use clarabel::solver::*;
use clarabel::verif_hooks::trace::{self, Event};
use common::*;
use serde_json::{json, Value};
use smallgen::*;
use std::sync::mpsc;
use std::sync::{Arc, Mutex};
use std::time::Duration;

#[derive(Clone, Debug)]
struct Cfg {
    max_iter: u32,
    time_limit: f64,
    equilibrate: bool,
    presolve: bool,
    static_reg: bool,
    dynamic_reg: bool,
    method: String,
    max_step_fraction: f64,
    backtrack: f64,
    verbose: bool,
    tight: f64,
}
impl Cfg {
    fn default() -> Self {
        Cfg { max_iter: 200, time_limit: f64::INFINITY, equilibrate: true, presolve: true, static_reg: true, dynamic_reg: true,
              method: "qdldl".into(), max_step_fraction: 0.99, backtrack: 0.8, verbose: true, tight: 0.0 }
    }
    fn settings(&self) -> DefaultSettings<f64> {
        let d = DefaultSettings::<f64>::default();
        let t = |x: f64| if self.tight > 0.0 { self.tight } else { x };
        DefaultSettings {
            tol_feas: t(d.tol_feas),
            tol_gap_abs: t(d.tol_gap_abs),
            tol_gap_rel: t(d.tol_gap_rel),
            verbose: self.verbose,
            max_iter: self.max_iter,
            time_limit: self.time_limit,
            equilibrate_enable: self.equilibrate,
            presolve_enable: self.presolve,
            static_regularization_enable: self.static_reg,
            dynamic_regularization_enable: self.dynamic_reg,
            direct_solve_method: self.method.clone(),
            max_step_fraction: self.max_step_fraction,
            linesearch_backtrack_step: self.backtrack,
            ..DefaultSettings::default()
        }
    }
    fn from_json(v: &Value) -> Cfg {
        let mut c = Cfg::default();
        if let Some(x) = v.get("max_iter").and_then(|x| x.as_u64()) { c.max_iter = x as u32; }
        if let Some(x) = v.get("time_limit") { c.time_limit = x.as_f64().unwrap_or(f64::INFINITY); }
        if let Some(x) = v.get("equilibrate").and_then(|x| x.as_bool()) { c.equilibrate = x; }
        if let Some(x) = v.get("presolve").and_then(|x| x.as_bool()) { c.presolve = x; }
        if let Some(x) = v.get("static_reg").and_then(|x| x.as_bool()) { c.static_reg = x; }
        if let Some(x) = v.get("dynamic_reg").and_then(|x| x.as_bool()) { c.dynamic_reg = x; }
        if let Some(x) = v.get("method").and_then(|x| x.as_str()) { c.method = x.to_string(); }
        if let Some(x) = v.get("max_step_fraction").and_then(|x| x.as_f64()) { c.max_step_fraction = x; }
        if let Some(x) = v.get("backtrack").and_then(|x| x.as_f64()) { c.backtrack = x; }
        if let Some(x) = v.get("tight").and_then(|x| x.as_f64()) { c.tight = x; }
        c
    }
    fn json(&self) -> Value {
        json!({"max_iter": self.max_iter, "time_limit": if self.time_limit.is_finite() { json!(self.time_limit) } else { json!("inf") },
               "equilibrate": self.equilibrate, "presolve": self.presolve, "static_reg": self.static_reg, "dynamic_reg": self.dynamic_reg, "method": self.method,
               "max_step_fraction": self.max_step_fraction, "backtrack": self.backtrack, "verbose": self.verbose, "tight": self.tight})
    }
}

#[derive(Clone)]
struct Outcome {
    events: Vec<Event>,
    status: u32,
    iterations: u32,
    x: Vec<f64>,
    s: Vec<f64>,
    z: Vec<f64>,
    obj_val: f64,
    obj_val_dual: f64,
    r_prim: f64,
    r_dual: f64,
    sym: bool,
    pd: bool,
    min_switch: f64,
    min_term: f64,
    buffer: String,
    int_cones: Vec<SupportedConeT<f64>>,
    wall_s: f64,
    setup_s: f64,
    n_int: usize,
    m_int: usize,
    nnzP: usize,
    nnzA: usize,
    ncones: usize,
    removed: Option<usize>,
}

enum RunResult {
    Done(Box<Outcome>),
    ConstructPanic,
    SolvePanic,
    Hang,
}

#[derive(Clone, Copy, PartialEq)]
enum Target {
    Buffer,
    Stream,
    File,
    Sink,
}

/// a stream that accepts at most `1` bytes per `write` call (0 = everything), like a pipe or
/// socket that takes short writes: callers must honour the returned count
struct SharedBuf(Arc<Mutex<Vec<u8>>>, usize);
impl std::io::Write for SharedBuf {
    fn write(&mut self, buf: &[u8]) -> std::io::Result<usize> {
        let k = if self.1 == 0 { buf.len() } else { buf.len().min(self.1) };
        self.0.lock().unwrap().extend_from_slice(&buf[..k]);
        Ok(k)
    }
    fn flush(&mut self) -> std::io::Result<()> {
        Ok(())
    }
}

fn run(p: &Prob, cfg: &Cfg, target: Target, scratch: &str) -> RunResult {
    let (tx, rx) = mpsc::channel();
    let p2 = p.clone();
    let cfg2 = cfg.clone();
    let scratch = scratch.to_string();
    std::thread::spawn(move || {
        let tb = std::time::Instant::now();
        let built = guarded(|| DefaultSolver::new(&p2.P, &p2.q, &p2.A, &p2.b, &p2.cones, cfg2.settings()));
        let setup_s = tb.elapsed().as_secs_f64();
        let mut solver = match built {
            Some(s) => s,
            None => {
                let _ = tx.send(RunResult::ConstructPanic);
                return;
            }
        };
        let shared = Arc::new(Mutex::new(Vec::<u8>::new()));
        let fpath = format!("{}/skel_print_{:?}.txt", scratch, std::thread::current().id());
        match target {
            Target::Buffer => solver.print_to_buffer(),
            Target::Stream => solver.print_to_stream(Box::new(SharedBuf(shared.clone(), 13))),
            Target::File => solver.print_to_file(std::fs::File::create(&fpath).unwrap()),
            Target::Sink => solver.print_to_sink(),
        }
        let (sym, pd) = clarabel::verif_hooks::skel::cone_flags(&solver);
        trace::start();
        let t0 = std::time::Instant::now();
        let ok = guarded(|| solver.solve());
        let wall_s = t0.elapsed().as_secs_f64();
        let events = trace::take();
        if ok.is_none() {
            let _ = tx.send(RunResult::SolvePanic);
            return;
        }
        let buffer = match target {
            Target::Buffer => solver.get_print_buffer().unwrap_or_default(),
            Target::Stream => String::from_utf8_lossy(&shared.lock().unwrap()).to_string(),
            Target::File => {
                // the file handle is owned by the solver: drop it before reading
                solver.print_to_sink();
                let t = std::fs::read_to_string(&fpath).unwrap_or_default();
                let _ = std::fs::remove_file(&fpath);
                t
            }
            Target::Sink => String::new(),
        };
        let sol = &solver.solution;
        let out = Outcome {
            events,
            status: sol.status as u32,
            iterations: sol.iterations,
            x: sol.x.clone(),
            s: sol.s.clone(),
            z: sol.z.clone(),
            obj_val: sol.obj_val,
            obj_val_dual: sol.obj_val_dual,
            r_prim: sol.r_prim,
            r_dual: sol.r_dual,
            sym,
            pd,
            min_switch: solver.settings.min_switch_step_length,
            min_term: solver.settings.min_terminate_step_length,
            buffer,
            n_int: solver.data.n,
            m_int: solver.data.m,
            nnzP: solver.data.P.nnz(),
            nnzA: solver.data.A.nnz(),
            ncones: solver.data.cones.len(),
            removed: clarabel::verif_hooks::presolver_dims(&solver.data).map(|(mf, mr, _)| mf - mr),
            int_cones: solver.data.cones.clone(),
            wall_s,
            setup_s,
        };
        let _ = tx.send(RunResult::Done(Box::new(out)));
    });
    match rx.recv_timeout(Duration::from_secs(60)) {
        Ok(r) => r,
        Err(_) => RunResult::Hang,
    }
}

fn cb(b: bool) -> &'static str {
    if b { "true" } else { "false" }
}

fn coq_events(evs: &[Event]) -> String {
    let mut out: Vec<String> = vec![];
    for e in evs {
        let s = match e {
            Event::Head { iter, alpha, .. } => format!("OHead {} {}", cn(*iter as usize), cfl(*alpha)),
            Event::PreLimit { status, iterations, max_iter, solve_time, time_limit } => format!(
                "OPreLimit {} {} {} {} {}", cn(*status as usize), cn(*iterations as usize), cn(*max_iter as usize), cfl(*solve_time), cfl(*time_limit)),
            Event::Term { done, status } => format!("OTerm {} {}", cb(*done), cn(*status as usize)),
            Event::Rollback => "ORollback".to_string(),
            Event::Ck { kind, code } => format!("OCk {} {}", cn(*kind as usize), cn(*code as usize)),
            Event::Scale { ok, scaling } => format!("OScale {} {}", cb(*ok), cn(*scaling as usize)),
            Event::IterInc { iter } => format!("OIterInc {}", cn(*iter as usize)),
            Event::Kkt { ok } => format!("OKkt {}", cb(*ok)),
            Event::Aff { ok } => format!("OAff {}", cb(*ok)),
            Event::AlphaAff { alpha, .. } => format!("OAlphaAff {}", cfl(*alpha)),
            Event::Comb { ok } => format!("OComb {}", cb(*ok)),
            Event::Alpha { alpha } => format!("OAlpha {}", cfl(*alpha)),
            Event::SavePrev => "OSavePrev".to_string(),
            Event::AddStep { alpha } => format!("OAddStep {}", cfl(*alpha)),
            Event::End { alpha, iter, status } => format!("OEnd {} {} {}", cfl(*alpha), cn(*iter as usize), cn(*status as usize)),
            Event::ExtraLine { iter } => format!("OExtraLine {}", cn(*iter as usize)),
            Event::Post { status_in, status_out } => format!("OPost {} {}", cn(*status_in as usize), cn(*status_out as usize)),
            _ => continue,
        };
        out.push(s);
    }
    format!("[{}]", out.join("; "))
}

fn model_args(o: &Outcome, max_iter: u32) -> String {
    format!("{} {} {} {} {}", cb(o.sym), cb(o.pd), cn(max_iter as usize), cfl(o.min_switch), cfl(o.min_term))
}

/// iteration column and footer status parsed from the printed text
fn parse_print(buf: &str) -> (Vec<usize>, Option<String>, Option<String>) {
    let mut col = vec![];
    let mut footer = None;
    let mut last_line = None;
    let mut in_table = false;
    let mut dashes = 0;
    for line in buf.lines() {
        if line.starts_with("iter ") {
            in_table = true;
            dashes = 0;
            continue;
        }
        if in_table {
            if line.starts_with("-----") {
                dashes += 1;
                if dashes == 2 {
                    in_table = false;
                }
                continue;
            }
            if let Some(tok) = line.split_whitespace().next() {
                if let Ok(k) = tok.parse::<usize>() {
                    col.push(k);
                    last_line = Some(line.to_string());
                }
            }
        }
        if let Some(rest) = line.strip_prefix("Terminated with status = ") {
            footer = Some(rest.trim().to_string());
        }
    }
    (col, footer, last_line)
}

fn status_code(name: &str) -> Option<usize> {
    ["Unsolved", "Solved", "PrimalInfeasible", "DualInfeasible", "AlmostSolved", "AlmostPrimalInfeasible",
     "AlmostDualInfeasible", "MaxIterations", "MaxTime", "NumericalError", "InsufficientProgress"]
        .iter().position(|s| *s == name)
}

fn header_field(buf: &str, key: &str) -> Option<usize> {
    for line in buf.lines() {
        let t = line.trim_start();
        if let Some(rest) = t.strip_prefix(key) {
            let rest = rest.trim_start();
            if let Some(v) = rest.strip_prefix('=') {
                return v.trim().split_whitespace().next().and_then(|x| x.parse().ok());
            }
        }
    }
    None
}

/// the "    : <Kind> = count,  numel = ..." lines of the configuration header, as
/// (kind, count, listed sizes, elided?)
fn header_cone_lines(buf: &str) -> Vec<(String, usize, Vec<usize>, bool)> {
    let mut out = vec![];
    for line in buf.lines() {
        let t = line.trim_start();
        if let Some(rest) = t.strip_prefix(": ") {
            let mut it = rest.splitn(2, '=');
            let kind = it.next().unwrap_or("").trim().to_string();
            let rest = it.next().unwrap_or("");
            let mut parts = rest.splitn(2, ',');
            let count: usize = parts.next().unwrap_or("").trim().parse().unwrap_or(usize::MAX);
            let tail = parts.next().unwrap_or("");
            let elided = tail.contains("...");
            let nums: Vec<usize> = tail.split(|c: char| !c.is_ascii_digit()).filter(|x| !x.is_empty()).filter_map(|x| x.parse().ok()).collect();
            out.push((kind, count, nums, elided));
        }
    }
    out
}
/// what the header must say for a cone list (independent re-statement of the documented
/// format: all sizes when there are at most five cones of a kind, else the first four and the last)
fn expected_cone_lines(cones: &[SupportedConeT<f64>]) -> Vec<(String, usize, Vec<usize>, bool)> {
    let kinds = ["Zero", "Nonnegative", "SecondOrder", "Exponential", "Power", "GenPower", "PSDTriangle"];
    let mut out = vec![];
    for (k, name) in kinds.iter().enumerate() {
        let sizes: Vec<usize> = cones.iter().filter(|c| match c {
            ZeroConeT(_) => k == 0, NonnegativeConeT(_) => k == 1, SecondOrderConeT(_) => k == 2, ExponentialConeT() => k == 3,
            PowerConeT(_) => k == 4, GenPowerConeT(_, _) => k == 5, PSDTriangleConeT(_) => k == 6 }).map(cone_dim).collect();
        if sizes.is_empty() { continue; }
        let (listed, elided) = if sizes.len() <= 5 { (sizes.clone(), false) } else {
            let mut l = sizes[..4].to_vec(); l.push(*sizes.last().unwrap()); (l, true) };
        out.push((name.to_string(), sizes.len(), listed, elided));
    }
    out
}

fn mask_time(buf: &str) -> String {
    buf.lines().filter(|l| !l.starts_with("solve time =")).collect::<Vec<_>>().join("\n")
}

fn close(printed: f64, value: f64, rel: f64) -> bool {
    if printed.is_nan() && value.is_nan() {
        return true;
    }
    if printed.is_infinite() || value.is_infinite() {
        return printed == value;
    }
    (printed - value).abs() <= rel * value.abs().max(printed.abs()) + 1e-300
}

fn vars_at(events: &[Event], pick: impl Fn(u32, u32) -> bool) -> Option<(Vec<f64>, Vec<f64>, Vec<f64>, f64, f64)> {
    // Vars is recorded (info.update) before PreLimit within a head; find the first head whose
    // PreLimit (iterations, status) satisfies `pick`
    let mut last_vars: Option<(Vec<f64>, Vec<f64>, Vec<f64>, f64, f64)> = None;
    for e in events {
        match e {
            Event::Vars { x, s, z, tau, kappa } => last_vars = Some((x.clone(), s.clone(), z.clone(), *tau, *kappa)),
            Event::PreLimit { status, iterations, .. } => {
                if pick(*iterations, *status) {
                    return last_vars;
                }
            }
            _ => {}
        }
    }
    None
}
fn last_vars(events: &[Event]) -> Option<(Vec<f64>, Vec<f64>, Vec<f64>, f64, f64)> {
    let mut last = None;
    for e in events {
        if let Event::Vars { x, s, z, tau, kappa } = e {
            last = Some((x.clone(), s.clone(), z.clone(), *tau, *kappa));
        }
    }
    last
}
fn bits(v: &[f64]) -> Vec<u64> {
    v.iter().map(|x| x.to_bits()).collect()
}

fn cones_coq(cones: &[SupportedConeT<f64>]) -> String {
    // the cone list as Term/Eval.v's [coneD] (exponents as exact dyadics)
    let items: Vec<String> = cones.iter().map(|c| match c {
        ZeroConeT(d) => format!("KZero {}", cn(*d)),
        NonnegativeConeT(d) => format!("KNN {}", cn(*d)),
        SecondOrderConeT(d) => format!("KSOC {}", cn(*d)),
        ExponentialConeT() => "KExp".to_string(),
        PowerConeT(a) => format!("KPow {}", cdy(*a)),
        GenPowerConeT(a, d2) => format!("KGenPow {} {}", cdylist(a), cn(*d2)),
        PSDTriangleConeT(d) => format!("KPSD {}", cn(*d)),
    }).collect();
    format!("[{}]", items.join("; "))
}

fn main() {
    let args: Vec<String> = std::env::args().collect();
    let mut out = String::from("/dev/stdout");
    let mut seed: u64 = 1;
    let mut tier = String::from("quick");
    let mut replay: Option<String> = None;
    let mut corpus: Option<String> = None;
    let mut i = 1;
    while i < args.len() {
        match args[i].as_str() {
            "--out" => { out = args[i + 1].clone(); i += 1; }
            "--seed" => { seed = args[i + 1].parse().unwrap_or(1); i += 1; }
            "--tier" => { tier = args[i + 1].clone(); i += 1; }
            "--replay" => { replay = Some(args[i + 1].clone()); i += 1; }
            "--corpus" => { corpus = Some(args[i + 1].clone()); i += 1; }
            _ => {}
        }
        i += 1;
    }
    silence_panics();
    let thorough = tier == "thorough";
    let mut sink = CaseSink::new(&out);
    let scratch = std::path::Path::new(&out).parent().map(|p| p.to_string_lossy().to_string()).unwrap_or(".".into());
    let mut rng = Rng::new(seed);
    let mut stats = serde_json::Map::new();
    let mut bump = |stats: &mut serde_json::Map<String, Value>, k: &str| {
        let v = stats.get(k).and_then(|x| x.as_u64()).unwrap_or(0);
        stats.insert(k.to_string(), json!(v + 1));
    };

    // ------------------------------------------------------------ problem streams
    let mut probs: Vec<(Prob, Cfg)> = vec![];
    let replaying = replay.is_some();
    let mut replay_route: Option<Vec<(u8, usize, String)>> = None;
    if let Some(path) = replay.as_ref() {
        // a replay file holds the `input` of a failing case: {problem, settings, ..}
        let txt = std::fs::read_to_string(path).expect("cannot read replay file");
        let v: Value = serde_json::from_str(&txt).expect("replay file is not JSON");
        let inp = v.get("input").cloned().unwrap_or(v.clone());
        if inp.get("problem").is_some() {
            probs.push((Prob::from_json(&inp["problem"]), Cfg::from_json(&inp["settings"])));
        }
        if let Some(h) = inp.get("route_history").and_then(|x| x.as_array()) {
            replay_route = Some(h.iter().map(|e| (e[0].as_u64().unwrap_or(6) as u8, e[1].as_u64().unwrap_or(0) as usize, e[2].as_str().unwrap_or("").to_string())).collect());
        }
    }
    let replay_has_route = replay_route.is_some();
    // corpus: regression problems kept from earlier findings ({"input": {"problem", "settings"}} files)
    if let (false, Some(dir)) = (replaying, corpus.as_ref()) {
        let mut files: Vec<_> = std::fs::read_dir(dir).map(|rd| rd.flatten().map(|e| e.path()).collect()).unwrap_or_default();
        files.sort();
        for f in files {
            if f.extension().map(|e| e == "json").unwrap_or(false) {
                if let Ok(txt) = std::fs::read_to_string(&f) {
                    if let Ok(v) = serde_json::from_str::<Value>(&txt) {
                        let inp = v.get("input").cloned().unwrap_or(v.clone());
                        if inp.get("problem").is_some() {
                            let mut p = Prob::from_json(&inp["problem"]);
                            p.label = format!("corpus {}: {}", f.file_name().unwrap().to_string_lossy(), p.label);
                            probs.push((p, Cfg::from_json(&inp["settings"])));
                        }
                    }
                }
            }
        }
    }
    for p in (if replaying { vec![] } else { boundary_shapes(&mut rng) }) {
        for (mi, tl) in [(200u32, f64::INFINITY), (0, f64::INFINITY), (1, f64::INFINITY), (2, f64::INFINITY), (200, 0.0)] {
            let mut c = Cfg::default();
            c.max_iter = mi;
            c.time_limit = tl;
            probs.push((p.clone(), c));
        }
    }
    let nmixed = if thorough { 3000 } else { 450 };
    let nmixed = if replaying { 0 } else { nmixed };
    for (k, p) in mixed_stream(&mut rng, nmixed, if thorough { 14 } else { 8 }, true).into_iter().enumerate() {
        let mut c = Cfg::default();
        c.max_iter = *rng.pick(&[200u32, 200, 200, 200, 0, 1, 2, 3, 5, 8]);
        c.time_limit = *rng.pick(&[f64::INFINITY, f64::INFINITY, f64::INFINITY, f64::INFINITY, 0.0, 1e-9, 1e-4]);
        c.equilibrate = rng.chance(3, 4);
        c.presolve = rng.chance(3, 4);
        c.static_reg = rng.chance(5, 6);
        c.method = if k % 11 == 10 { "faer".into() } else { "qdldl".into() };
        c.max_step_fraction = *rng.pick(&[0.99, 0.99, 0.9, 0.5, 0.999]);
        c.backtrack = *rng.pick(&[0.8, 0.8, 0.5, 0.95]);
        probs.push((p, c));
    }

    // unreachable tolerances: the solve stalls, rolls back (insufficient progress) and, with
    // nonsymmetric cones under primal-dual scaling, switches strategy and continues
    if !replaying {
        let ntight = if thorough { 120 } else { 36 };
        for k in 0..ntight {
            let kinds: &[u8] = if k % 3 == 0 { &[1, 2] } else { &[3, 4, 3, 4, 1, 2] };
            let ncones = 1 + rng.below(2);
            let mut cones: Vec<_> = (0..ncones).map(|_| random_cone(&mut rng, kinds)).collect();
            if k % 3 != 0 && !cones.iter().any(|c| matches!(c, ExponentialConeT() | PowerConeT(_))) { cones.push(ExponentialConeT()); }
            let m: usize = cones.iter().map(cone_dim).sum();
            let n = (1 + rng.below(4)).min(m);
            let pk = rng.below(3);
            let p = planted(&mut rng, n, cones, pk);
            let mut c = Cfg::default();
            c.tight = *rng.pick(&[1e-12, 1e-13, 1e-14, 1e-16]);
            probs.push((p, c));
        }
    }

    // singular KKT systems with every regularisation switched off: duplicated equality rows make
    // the very first factorisation fail, so the solve must end with a numerical error - and the
    // iterate it started from must still have been shifted into the cones
    if !replaying {
        let nsing = if thorough { 40 } else { 10 };
        for k in 0..nsing {
            let n = 2 + rng.below(3);
            let mut rows: Vec<Vec<f64>> = vec![];
            let mut b: Vec<f64> = vec![];
            let eq: Vec<f64> = (0..n).map(|_| rng.range(-3, 3) as f64).collect();
            let eqb = rng.range(-2, 2) as f64;
            rows.push(eq.clone()); b.push(eqb);
            rows.push(eq.clone()); b.push(eqb);   // the same equality again
            let mineq = 1 + rng.below(3);
            for _ in 0..mineq { rows.push((0..n).map(|_| rng.range(-3, 3) as f64).collect()); b.push(1.0 + rng.below(3) as f64); }
            let m = rows.len();
            let mut A_rows = rows.clone();
            if k % 2 == 1 { A_rows[1] = eq.iter().map(|v| 2.0 * v).collect(); b[1] = 2.0 * eqb; }
            let pk = rng.below(2);
            let Pd = if pk == 0 { CscMatrix::<f64>::zeros((n, n)) } else { CscMatrix::<f64>::identity(n) };
            let p = Prob { P: Pd, q: (0..n).map(|_| rng.range(-2, 2) as f64).collect(), A: dense_rows_to_csc(&A_rows, m, n), b,
                           cones: vec![ZeroConeT(2), NonnegativeConeT(m - 2)], label: format!("duplicated equality rows, no regularisation ({})", k), intent: 3 };
            let mut c = Cfg::default();
            c.static_reg = false;
            c.dynamic_reg = false;
            c.presolve = rng.chance(1, 2);
            probs.push((p, c));
        }
    }

    // steep nonsymmetric problems with fine backtracking steps: the line search of the
    // exponential / power cones takes dozens of backtracking steps per iteration
    if !replaying {
        let nsteep = if thorough { 160 } else { 36 };
        for k in 0..nsteep {
            let n = 2 + rng.below(3);
            let mc = 2 + rng.below(5);
            let scale = *rng.pick(&[1.0, 10.0, 10.0, 30.0]);
            let p = steep_nonsym(&mut rng, n, mc, scale, k % 3 == 2);
            let mut c = Cfg::default();
            c.backtrack = *rng.pick(&[0.99, 0.99, 0.995, 0.97, 0.9]);
            c.max_step_fraction = *rng.pick(&[0.99, 0.99, 0.999]);
            probs.push((p, c));
        }
    }

    // ------------------------------------------------------------ traced solves
    let mut longruns: Vec<(Prob, Cfg, Outcome)> = vec![];
    for (p, cfg) in probs.iter() {
        let input = json!({"label": p.label, "settings": cfg.json(), "n": p.q.len(), "m": p.b.len(), "problem": p.to_json()});
        match run(p, cfg, Target::Buffer, &scratch) {
            RunResult::ConstructPanic => {
                bump(&mut stats, "construct_panic");
                sink.record(json!({"direct": {"prop": "C04", "ok": false, "what": "DefaultSolver::new panicked on a well-formed problem", "input": input}}));
            }
            RunResult::SolvePanic => {
                bump(&mut stats, "solve_panic");
                sink.record(json!({"direct": {"prop": "C04", "ok": false, "what": "solve() panicked on a well-formed problem", "input": input}}));
            }
            RunResult::Hang => {
                bump(&mut stats, "hang");
                sink.record(json!({"direct": {"prop": "C04", "ok": false, "what": "solve() did not return within 60 s", "input": input}}));
            }
            RunResult::Done(o) => {
                bump(&mut stats, &format!("status_{}", o.status));
                for e in o.events.iter() {
                    match e {
                        Event::Ck { kind, code } => bump(&mut stats, &format!("branch_ck{}_{}", kind, code)),
                        Event::Rollback => bump(&mut stats, "branch_rollback"),
                        Event::ExtraLine { .. } => bump(&mut stats, "branch_extra_line"),
                        Event::Scale { ok: false, .. } => bump(&mut stats, "branch_scale_failed"),
                        Event::Kkt { ok: false } => bump(&mut stats, "branch_kkt_update_failed"),
                        Event::Aff { ok: false } => bump(&mut stats, "branch_affine_failed"),
                        Event::Comb { ok: false } => bump(&mut stats, "branch_combined_failed"),
                        Event::Post { status_in, status_out } if status_in != status_out => bump(&mut stats, "branch_post_almost"),
                        _ => {}
                    }
                }
                let evs = coq_events(&o.events);
                let margs = model_args(&o, cfg.max_iter);
                // C04: control flow and final report
                sink.case("trace", input.clone(),
                    format!("(let evs := {} in N.max (c_trace {} evs) (c_final {} {} {} evs))",
                            evs, margs, cn(cfg.max_iter as usize), cn(o.iterations as usize), cn(o.status as usize)),
                    &["C04"]);
                // direct facts about what the user receives
                let lens_ok = o.x.len() == p.q.len() && o.s.len() == p.b.len() && o.z.len() == p.b.len();
                sink.record(json!({"direct": {"prop": "C04", "ok": lens_ok && o.status != 0 && o.iterations <= cfg.max_iter,
                    "what": "returned vector lengths / terminal status / iterations <= max_iter", "input": {"label": p.label, "settings": cfg.json(), "problem": p.to_json()}}}));
                // MaxTime at the next boundary: with time_limit = 0 the very first head sees the clock past the limit
                if cfg.time_limit == 0.0 {
                    let first_pre = o.events.iter().find_map(|e| if let Event::PreLimit { status, .. } = e { Some(*status) } else { None });
                    let heads = o.events.iter().filter(|e| matches!(e, Event::Head { .. })).count();
                    let ok = if first_pre == Some(0) && cfg.max_iter != 0 { o.status == 8 && heads == 1 && o.iterations == 0 } else { true };
                    sink.record(json!({"direct": {"prop": "C04", "ok": ok, "what": "time_limit = 0: MaxTime at the first iteration boundary", "input": {"label": p.label, "settings": cfg.json(), "problem": p.to_json(), "status": o.status, "heads": heads}}}));
                }
                // C20: iteration column, footer
                let (col, footer, lastline) = parse_print(&o.buffer);
                let fcode = footer.as_deref().and_then(status_code).unwrap_or(99);
                sink.case("column", json!({"label": p.label, "settings": cfg.json(), "column": col, "footer": footer}),
                    format!("(c_column {} {} {} {} {} {})", margs, evs, cnlist(&col), cn(fcode), cn(o.status as usize), cn(o.iterations as usize)),
                    &["C20"]);
                // C20: last line figures against the solution (skip NaN objectives of infeasible verdicts)
                if let Some(l) = lastline {
                    let toks: Vec<&str> = l.split_whitespace().collect();
                    let mut ok = toks.len() >= 6;
                    let mut detail = json!(null);
                    if ok {
                        let pc: f64 = toks[1].parse().unwrap_or(f64::NAN);
                        let dc: f64 = toks[2].parse().unwrap_or(f64::NAN);
                        let pr: f64 = toks[4].parse().unwrap_or(f64::NAN);
                        let dr: f64 = toks[5].parse().unwrap_or(f64::NAN);
                        let infeas = matches!(o.status, 2 | 3 | 5 | 6);
                        let rolled = o.events.iter().any(|e| matches!(e, Event::Rollback));
                        let c1 = infeas || (close(pc, o.obj_val, 2e-4) && close(dc, o.obj_val_dual, 2e-4));
                        let c2 = close(pr, o.r_prim, 2e-2) && close(dr, o.r_dual, 2e-2);
                        ok = c1 && c2;
                        detail = json!({"line": l, "obj_val": o.obj_val, "obj_val_dual": o.obj_val_dual, "r_prim": o.r_prim, "r_dual": o.r_dual, "rolled_back": rolled, "status": o.status});
                    }
                    sink.record(json!({"direct": {"prop": "C20", "ok": ok, "what": "last status line agrees with the returned solution", "key": "last-line-after-rollback",
                        "input": {"label": p.label, "settings": cfg.json(), "problem": p.to_json(), "detail": detail}}}));
                }
                // C20: header fields against the true internal dimensions
                let hv = header_field(&o.buffer, "variables");
                let hc = header_field(&o.buffer, "constraints");
                let hp = header_field(&o.buffer, "nnz(P)");
                let ha = header_field(&o.buffer, "nnz(A)");
                let hk = header_field(&o.buffer, "cones (total)");
                // independent expectations computed from the user's input
                let infb = clarabel::get_infinity();
                let mut dropped = 0usize;
                let mut dropped_nnz = 0usize;
                if cfg.presolve {
                    let mut row = 0usize;
                    let mut drop = vec![false; p.b.len()];
                    for c in p.cones.iter() {
                        let d = cone_dim(c);
                        let scalar = matches!(c, NonnegativeConeT(_)) || (d == 1 && matches!(c, SecondOrderConeT(_) | PSDTriangleConeT(_)));
                        for k in 0..d {
                            if scalar && p.b[row + k] > infb * (1.0 - 10.0 * f64::EPSILON) {
                                drop[row + k] = true;
                            }
                        }
                        row += d;
                    }
                    dropped = drop.iter().filter(|x| **x).count();
                    dropped_nnz = p.A.rowval.iter().filter(|r| drop[**r]).count();
                }
                let triuP = {
                    let mut c = 0;
                    for j in 0..p.P.n {
                        for k in p.P.colptr[j]..p.P.colptr[j + 1] {
                            if p.P.rowval[k] <= j { c += 1; }
                        }
                    }
                    c
                };
                let ok = hv == Some(p.q.len()) && hc == Some(p.b.len() - dropped) && hp == Some(triuP)
                    && ha == Some(p.A.nnz() - dropped_nnz) && hk == Some(o.ncones)
                    && hc == Some(o.m_int) && hp == Some(o.nnzP) && ha == Some(o.nnzA) && hv == Some(o.n_int);
                sink.record(json!({"direct": {"prop": "C20", "ok": ok, "what": "configuration header reports the true internal dimensions",
                    "input": {"label": p.label, "settings": cfg.json(), "header": [hv, hc, hp, ha, hk], "expected": [p.q.len(), p.b.len() - dropped, triuP, p.A.nnz() - dropped_nnz, o.ncones]}}}));
                // C20: per-kind cone lines of the header against the solver's internal cone list
                {
                    let got = header_cone_lines(&o.buffer);
                    let want = expected_cone_lines(&o.int_cones);
                    sink.record(json!({"direct": {"prop": "C20", "ok": got == want, "what": "configuration header lists the cone counts and sizes of every cone kind",
                        "input": {"label": p.label, "settings": cfg.json(), "problem": p.to_json(), "printed": format!("{:?}", got), "expected": format!("{:?}", want)}}}));
                }
                // C04: the clock read by the time-limit test advances from head to head
                {
                    let times: Vec<f64> = o.events.iter().filter_map(|e| if let Event::PreLimit { solve_time, .. } = e { Some(*solve_time) } else { None }).collect();
                    let nondecr = times.windows(2).all(|w| w[1] >= w[0]);
                    let advances = times.len() < 3 || times[times.len() - 1] > times[0];
                    sink.record(json!({"direct": {"prop": "C04", "ok": nondecr && advances, "what": "the solve time seen by the time-limit test advances with the iterations",
                        "input": {"label": p.label, "settings": cfg.json(), "problem": p.to_json(), "times": times}}}));
                }
                if let Some(rem) = o.removed {
                    let printed = o.buffer.lines().find_map(|l| l.strip_prefix("presolve: removed ").and_then(|r| r.split_whitespace().next()).and_then(|x| x.parse::<usize>().ok()));
                    sink.record(json!({"direct": {"prop": "C20", "ok": printed == Some(rem) && rem == dropped, "what": "presolve reduction count in the header", "input": {"label": p.label, "printed": printed, "removed": rem, "expected": dropped}}}));
                }
                // C07: every step-length computation is what the model computes from its recorded
                // inputs, and keeps tau, kappa positive
                {
                    let mut nsl = 0;
                    for e in o.events.iter() {
                        if let Event::StepLen { tau, kappa, dtau, dkappa, alpha_cap, alpha_z, alpha_s, alpha_out, combined, max_step_fraction } = e {
                            nsl += 1;
                            if nsl > 40 { break; }
                            sink.case("steplen", json!({"label": p.label, "settings": cfg.json(), "problem": p.to_json(), "call": nsl, "tau": tau, "kappa": kappa, "dtau": dtau, "dkappa": dkappa}),
                                format!("(c_steplen {} {} {} {} {} {} {} {} {} {})", cfl(*tau), cfl(*kappa), cfl(*dtau), cfl(*dkappa), cfl(*alpha_cap), cfl(*alpha_z), cfl(*alpha_s), cfl(*alpha_out), cfl(*max_step_fraction), cb(*combined)),
                                &["C07"]);
                        }
                    }
                }
                // C07: barrier backtracking of the combined step under dual scaling
                {
                    let mut nbt = 0;
                    for e in o.events.iter() {
                        if let Event::BarrierBt { alpha_init, step, answers, alpha_out } = e {
                            nbt += 1;
                            if nbt > 30 { break; }
                            bump(&mut stats, if answers.len() > 1 { "branch_barrier_backtracked" } else { "branch_barrier_first_try" });
                            let ans: Vec<&str> = answers.iter().map(|b| cb(*b)).collect();
                            sink.case("barrier_bt", json!({"label": p.label, "settings": cfg.json(), "problem": p.to_json(), "call": nbt, "alpha_init": alpha_init, "trials": answers.len()}),
                                format!("(c_barrier_bt {} {} {} [{}])", cfl(*step), cfl(*alpha_init), cfl(*alpha_out), ans.join("; ")),
                                &["C07"]);
                        }
                    }
                }
                // C07: interior snapshots (every cone kind: Solver/InteriorAll.v)
                let mut nsnap = 0;
                for e in o.events.iter() {
                    if let Event::Vars { s, z, tau, kappa, .. } = e {
                        nsnap += 1;
                        if nsnap > 40 { break; }
                        // thinning (quick tier): the first six iterates, then every third
                        if !thorough && nsnap > 6 && nsnap % 3 != 0 { continue; }
                        // the internal cone list may differ from the user's (collapse, presolve): use the solver's
                        // own internal dimensions only when they match the user's list
                        // problems of the extreme-magnitude stream (data scaled by 1e+-50 / 1e+-150) are
                        // excluded: there "strictly inside up to rounding" cannot be told apart from
                        // "on the boundary" (a unit shift is absorbed by entries of size 1e50)
                        if s.len() == p.b.len() && o.removed.unwrap_or(0) == 0 && !p.label.contains("scaled by") {
                            sink.case("interior", json!({"label": p.label, "snapshot": nsnap, "tau": tau, "kappa": kappa}),
                                format!("(c_interior_all {} {} {} {} {})", cones_coq(&p.cones), cdylist(s), cdylist(z), cdy(*tau), cdy(*kappa)),
                                &["C07"]);
                        }
                    }
                }
                if cfg.max_iter == 200 && cfg.time_limit.is_infinite() && longruns.len() < (if thorough { 200 } else { 45 }) {
                    longruns.push((p.clone(), cfg.clone(), (*o).clone()));
                }
            }
        }
    }

    // ------------------------------------------------------------ C07: budget sweep
    for (p, cfg, long) in longruns.iter() {
        let kmax = (long.iterations.min(if thorough { 30 } else { 10 })) as u32;
        for k in 0..=kmax {
            let mut c = cfg.clone();
            c.max_iter = k;
            if let RunResult::Done(short) = run(p, &c, Target::Sink, &scratch) {
                // the long run's first head with iterations = k at which no verdict applied
                let reference = vars_at(&long.events, |it, st| it == k && st == 0);
                let got = last_vars(&short.events);
                let (ok, what) = match (reference, got) {
                    (Some(r), Some(g)) => {
                        let same = bits(&r.0) == bits(&g.0) && bits(&r.1) == bits(&g.1) && bits(&r.2) == bits(&g.2)
                            && r.3.to_bits() == g.3.to_bits() && r.4.to_bits() == g.4.to_bits();
                        (same && short.iterations == k && matches!(short.status, 7 | 4 | 5 | 6), "k-th iterate of the long run = final iterate of the run limited to k (bitwise)")
                    }
                    (None, Some(_)) => {
                        // the long run stopped (or had a verdict) before reaching such a head: both runs must coincide
                        (short.status == long.status && short.iterations == long.iterations && bits(&short.x) == bits(&long.x)
                            && bits(&short.s) == bits(&long.s) && bits(&short.z) == bits(&long.z), "run limited to k coincides with the long run (which ended before k)")
                    }
                    _ => (false, "no iterate recorded"),
                };
                sink.record(json!({"direct": {"prop": "C07", "ok": ok, "what": what, "input": {"label": p.label, "settings": cfg.json(), "problem": p.to_json(), "k": k, "long_iterations": long.iterations, "long_status": long.status, "short_status": short.status, "short_iterations": short.iterations}}}));
                bump(&mut stats, "budget_runs");
            } else {
                sink.record(json!({"direct": {"prop": "C07", "ok": false, "what": "budget-limited run panicked or hung", "input": {"label": p.label, "k": k}}}));
            }
        }
    }

    // ------------------------------------------------------------ C07: iterates of a RE-solve are interior too
    if !replaying {
        let mut count = 0;
        // problems mixing a symmetric non-scalar cone with a nonsymmetric one first (their
        // re-solve goes through unit_initialization of every cone), then the others
        let mixes = |p: &Prob| {
            let has_soc = p.cones.iter().any(|c| matches!(c, SecondOrderConeT(_) | PSDTriangleConeT(_)));
            let has_nonsym = p.cones.iter().any(|c| matches!(c, ExponentialConeT() | PowerConeT(_) | GenPowerConeT(_, _)));
            (has_soc, has_nonsym)
        };
        let mut order: Vec<&(Prob, Cfg)> = probs.iter().filter(|(p, _)| { let (a, b) = mixes(p); a && b }).collect();
        let rest: Vec<&(Prob, Cfg)> = probs.iter().filter(|(p, _)| { let (a, b) = mixes(p); (a || b) && !(a && b) }).collect();
        let nmix = order.len().min(if thorough { 120 } else { 35 });
        order.truncate(nmix);
        order.extend(rest.into_iter().take(if thorough { 60 } else { 12 }));
        for (p, cfg) in order.into_iter() {
            if cfg.time_limit == 0.0 || p.label.contains("scaled by") { continue; }
            if count >= (if thorough { 180 } else { 47 }) { break; }
            let p2 = p.clone();
            let cfg2 = cfg.clone();
            let second = std::thread::spawn(move || {
                guarded(|| {
                    let mut solver = DefaultSolver::new(&p2.P, &p2.q, &p2.A, &p2.b, &p2.cones, { let mut s = cfg2.settings(); s.verbose = false; s });
                    solver.solve();
                    trace::start();
                    solver.solve();
                    let ev = trace::take();
                    let removed = clarabel::verif_hooks::presolver_dims(&solver.data).map(|(mf, mr, _)| mf - mr).unwrap_or(0);
                    (ev, removed)
                })
            }).join().ok().flatten();
            if let Some((events, removed)) = second {
                count += 1;
                let mut nsnap = 0;
                for e in events.iter() {
                    if let Event::Vars { s, z, tau, kappa, .. } = e {
                        nsnap += 1;
                        if nsnap > 12 { break; }
                        if s.len() == p.b.len() && removed == 0 {
                            sink.case("interior", json!({"label": p.label, "settings": cfg.json(), "problem": p.to_json(), "resolve": true, "snapshot": nsnap, "tau": tau, "kappa": kappa}),
                                format!("(c_interior_all {} {} {} {} {})", cones_coq(&p.cones), cdylist(s), cdylist(z), cdy(*tau), cdy(*kappa)),
                                &["C07"]);
                        }
                    }
                }
            }
        }
        stats.insert("resolve_traces".into(), json!(count));
    }

    // ------------------------------------------------------------ C20: routing
    let nroute = if thorough { 60 } else { 20 };
    for (p, cfg, long) in longruns.iter().take(nroute) {
        let base = mask_time(&long.buffer);
        for (t, name) in [(Target::Stream, "stream"), (Target::File, "file")] {
            if let RunResult::Done(o) = run(p, cfg, t, &scratch) {
                let ok = mask_time(&o.buffer) == base && !base.is_empty();
                sink.record(json!({"direct": {"prop": "C20", "ok": ok, "what": format!("bytes delivered to {} equal the buffer's", name), "input": {"label": p.label, "len": base.len(), "other_len": o.buffer.len()}}}));
            }
        }
        let mut quiet = cfg.clone();
        quiet.verbose = false;
        for (t, name) in [(Target::Buffer, "buffer"), (Target::Stream, "stream"), (Target::File, "file")] {
            if let RunResult::Done(o) = run(p, &quiet, t, &scratch) {
                sink.record(json!({"direct": {"prop": "C20", "ok": o.buffer.is_empty(), "what": format!("verbose = false writes nothing to the {}", name), "input": {"label": p.label, "written": o.buffer.len()}}}));
            }
        }
    }

    // ------------------------------------------------------------ C04: the time limit bites, printing or not
    if !replaying {
        for k in 0..(if thorough { 12 } else { 4 }) {
            // a problem that needs far longer than the limit: many iterations of a large KKT system
            let n = 120 + 20 * k;
            let cones = vec![NonnegativeConeT(n), SecondOrderConeT(40), NonnegativeConeT(n / 2)];
            let p = planted(&mut rng, n, cones, 2);
            for verbose in [true, false] {
                let mut unlimited = Cfg::default();
                unlimited.verbose = verbose;
                // fastest of three unlimited runs: (set-up time, solve time) as this harness measures them
                let mut best: Option<Outcome> = None;
                for _ in 0..3 {
                    if let RunResult::Done(o) = run(&p, &unlimited, Target::Buffer, &scratch) {
                        if best.as_ref().map(|b| o.setup_s + o.wall_s < b.setup_s + b.wall_s).unwrap_or(true) { best = Some(*o); }
                    }
                }
                let full = match best { Some(o) => o, None => continue };
                let mut c = Cfg::default();
                c.verbose = verbose;
                // a limit that set-up alone does not exhaust but the iterations do (the clock the
                // solver reads includes its set-up time)
                c.time_limit = 1.2 * full.setup_s + 0.2 * full.wall_s;
                if let RunResult::Done(o) = run(&p, &c, Target::Buffer, &scratch) {
                    // MaxTime, or the run really did finish within the limit by this harness's clock
                    let finished_in_time = o.setup_s + o.wall_s <= c.time_limit;
                    // the limit check fired (MaxTime at an iteration boundary); post-processing may then
                    // turn MaxTime into an Almost* status when the reduced tolerances are already met
                    let limit_hit = o.events.iter().any(|e| matches!(e, Event::PreLimit { status: 8, .. }));
                    let ok = o.status == 8 || (limit_hit && matches!(o.status, 4 | 5 | 6)) || finished_in_time || full.status != 1;
                    sink.record(json!({"direct": {"prop": "C04", "ok": ok, "what": format!("a solve that runs past time_limit stops with MaxTime (verbose = {})", verbose),
                        "input": {"label": p.label, "settings": c.json(), "unlimited_setup_s": full.setup_s, "unlimited_solve_s": full.wall_s, "unlimited_iterations": full.iterations,
                                  "status": o.status, "iterations": o.iterations, "this_run_total_s": o.setup_s + o.wall_s}}}));
                }
            }
        }
    }

    // ------------------------------------------------------------ C04: inconsistent dimensions are rejected
    if !replaying {
        let good = planted(&mut rng, 3, vec![NonnegativeConeT(2), SecondOrderConeT(3)], 1);
        let mut bad: Vec<(Prob, &str)> = vec![];
        let mut p = good.clone(); p.q.push(0.0); bad.push((p, "q too long"));
        let mut p = good.clone(); p.b.pop(); bad.push((p, "b too short"));
        let mut p = good.clone(); p.cones.push(NonnegativeConeT(1)); bad.push((p, "cones exceed m"));
        let mut p = good.clone(); p.cones.pop(); bad.push((p, "cones below m"));
        let mut p = good.clone(); p.P = CscMatrix::zeros((2, 3)); bad.push((p, "P not square"));
        let mut p = good.clone(); p.P = CscMatrix::zeros((4, 4)); bad.push((p, "P wrong size"));
        let mut p = good.clone(); p.A = CscMatrix::zeros((5, 2)); bad.push((p, "A wrong columns"));
        for (p, what) in bad {
            let r = run(&p, &Cfg::default(), Target::Sink, &scratch);
            let ok = matches!(r, RunResult::ConstructPanic);
            sink.record(json!({"direct": {"prop": "C04", "ok": ok, "what": format!("inconsistent dimensions ({}) rejected at construction", what), "input": {"case": what}}}));
            bump(&mut stats, "dimension_rejects");
        }
        // random shapes, mostly consistent, each kind of mismatch with small probability: the
        // constructor must panic exactly when the Coq model of _check_dimensions says so
        let nd = if thorough { 600 } else { 120 };
        for _ in 0..nd {
            let n = 1 + rng.below(4);
            let ncones = rng.below(4);
            let cones: Vec<SupportedConeT<f64>> = (0..ncones).map(|_| random_cone(&mut rng, &[0, 1, 1, 2, 3])).collect();
            let m: usize = cones.iter().map(cone_dim).sum();
            let mut jig = |v: usize, rng: &mut Rng| -> usize { if rng.chance(1, 9) { if rng.chance(1, 2) { v + 1 + rng.below(2) } else { v.saturating_sub(1 + rng.below(2)) } } else { v } };
            let (pm, pn, qn, am, an, bn) = (jig(n, &mut rng), jig(n, &mut rng), jig(n, &mut rng), jig(m, &mut rng), jig(n, &mut rng), jig(m, &mut rng));
            let P = CscMatrix::<f64>::zeros((pm, pn));
            let A = CscMatrix::<f64>::zeros((am, an));
            let q = vec![1.0; qn];
            let b = vec![1.0; bn];
            let cs = cones.clone();
            let panicked = guarded(move || { let _ = DefaultSolver::new(&P, &q, &A, &b, &cs, DefaultSettings { verbose: false, ..DefaultSettings::default() }); }).is_none();
            let cd: Vec<String> = cones.iter().map(|c| cn(cone_dim(c))).collect();
            sink.case("dims", json!({"label": "constructor shapes", "P": [pm, pn], "q": qn, "A": [am, an], "b": bn, "cones": cones.iter().map(cone_name).collect::<Vec<_>>(), "panicked": panicked}),
                format!("(c_dims {} {} {} {} {} {} [{}] {})", cn(pm), cn(pn), cn(qn), cn(am), cn(an), cn(bn), cd.join("; "), cb(panicked)),
                &["C04"]);
        }
    }

    // ------------------------------------------------------------ C20: the settings block of the header under
    // non-default, pairwise distinct values (every printed setting differs from every other, so a
    // line that shows a neighbour's value is seen)
    if !replaying {
        let nset = if thorough { 60 } else { 12 };
        for k in 0..nset {
            let pickf = |rng: &mut Rng, v: &[f64]| v[rng.below(v.len())];
            let st = DefaultSettings::<f64> {
                verbose: true,
                max_iter: 3 + rng.below(40) as u32,
                time_limit: if k % 3 == 0 { f64::INFINITY } else { 1000.5 + rng.below(500) as f64 },
                max_step_fraction: pickf(&mut rng, &[0.985, 0.97, 0.9, 0.975]),
                tol_feas: pickf(&mut rng, &[3e-7, 2e-9, 4e-6]),
                tol_gap_abs: pickf(&mut rng, &[5e-7, 6e-9, 7e-6]),
                tol_gap_rel: pickf(&mut rng, &[8e-7, 9e-9, 1e-5]),
                static_regularization_enable: rng.chance(1, 2),
                static_regularization_constant: pickf(&mut rng, &[2e-8, 3e-9]),
                static_regularization_proportional: pickf(&mut rng, &[4e-30, 5e-31]),
                dynamic_regularization_enable: rng.chance(1, 2),
                dynamic_regularization_eps: pickf(&mut rng, &[6e-13, 7e-12]),
                dynamic_regularization_delta: pickf(&mut rng, &[8e-7, 9e-8]),
                iterative_refinement_enable: rng.chance(1, 2),
                iterative_refinement_reltol: pickf(&mut rng, &[2e-13, 3e-12]),
                iterative_refinement_abstol: pickf(&mut rng, &[4e-12, 5e-11]),
                iterative_refinement_max_iter: 11 + rng.below(9) as u32,
                iterative_refinement_stop_ratio: pickf(&mut rng, &[2.5, 4.5, 6.0]),
                equilibrate_enable: rng.chance(1, 2),
                equilibrate_min_scaling: pickf(&mut rng, &[2e-4, 3e-5]),
                equilibrate_max_scaling: pickf(&mut rng, &[4e4, 5e5]),
                equilibrate_max_iter: 21 + rng.below(9) as u32,
                ..DefaultSettings::default()
            };
            let st2 = st.clone();
            let buf = guarded(move || {
                let P = CscMatrix::<f64>::identity(2);
                let A = CscMatrix::<f64>::identity(2);
                let mut solver = DefaultSolver::new(&P, &[1.0, -1.0], &A, &[1.0, 1.0], &[NonnegativeConeT(2)], st2);
                solver.print_to_buffer();
                solver.solve();
                solver.get_print_buffer().unwrap_or_default()
            });
            let text = match buf { Some(t) => t, None => { sink.record(json!({"direct": {"prop": "C20", "ok": false, "what": "solve with non-default settings panicked", "input": {"k": k}}})); continue; } };
            // parse "group: .." / "key = value" pairs of the settings block
            let mut found: Vec<(String, String, String)> = vec![];
            let mut in_block = false;
            let mut group = String::new();
            for line in text.lines() {
                if line.trim_start().starts_with("settings:") { in_block = true; continue; }
                if !in_block { continue; }
                if line.trim().is_empty() { break; }
                let segs: Vec<&str> = line.split(',').collect();
                for (si, seg) in segs.iter().enumerate() {
                    let seg = seg.trim();
                    if seg.is_empty() { continue; }
                    if si == 0 {
                        if let Some(pos) = seg.find(':') {
                            let (g, rest) = seg.split_at(pos);
                            if !g.contains('=') { group = g.trim().to_string(); found.push((group.clone(), "enable".into(), rest[1..].trim().to_string())); continue; }
                        }
                    }
                    if let Some(pos) = seg.find('=') { found.push((group.clone(), seg[..pos].trim().to_string(), seg[pos + 1..].trim().to_string())); }
                }
            }
            let onoff = |b: bool| if b { "on" } else { "false" };
            let tl = if st.time_limit.is_infinite() { "Inf".to_string() } else { format!("{:?}", st.time_limit) };
            let expect: Vec<(&str, &str, String)> = vec![
                ("linear algebra", "max iter", format!("{}", st.max_iter)), ("linear algebra", "time limit", tl), ("linear algebra", "max step", format!("{}", st.max_step_fraction)),
                ("linear algebra", "tol_feas", format!("{}", st.tol_feas)), ("linear algebra", "tol_gap_abs", format!("{}", st.tol_gap_abs)), ("linear algebra", "tol_gap_rel", format!("{}", st.tol_gap_rel)),
                ("static reg", "enable", onoff(st.static_regularization_enable).into()), ("static reg", "ϵ1", format!("{}", st.static_regularization_constant)), ("static reg", "ϵ2", format!("{}", st.static_regularization_proportional)),
                ("dynamic reg", "enable", onoff(st.dynamic_regularization_enable).into()), ("dynamic reg", "ϵ", format!("{}", st.dynamic_regularization_eps)), ("dynamic reg", "δ", format!("{}", st.dynamic_regularization_delta)),
                ("iter refine", "enable", onoff(st.iterative_refinement_enable).into()), ("iter refine", "reltol", format!("{}", st.iterative_refinement_reltol)), ("iter refine", "abstol", format!("{}", st.iterative_refinement_abstol)),
                ("iter refine", "max iter", format!("{}", st.iterative_refinement_max_iter)), ("iter refine", "stop ratio", format!("{}", st.iterative_refinement_stop_ratio)),
                ("equilibrate", "enable", onoff(st.equilibrate_enable).into()), ("equilibrate", "min_scale", format!("{}", st.equilibrate_min_scaling)), ("equilibrate", "max_scale", format!("{}", st.equilibrate_max_scaling)),
                ("equilibrate", "max iter", format!("{}", st.equilibrate_max_iter)),
            ];
            let mut wrong: Vec<String> = vec![];
            for (g, key, want) in expect.iter() {
                let got = found.iter().find(|(fg, fk, _)| fg == g && fk == key).map(|t| t.2.clone());
                let ok = match &got {
                    None => false,
                    Some(v) => v == want || match (v.parse::<f64>(), want.parse::<f64>()) { (Ok(a), Ok(b)) => a == b, _ => false },
                };
                if !ok { wrong.push(format!("{} / {}: printed {:?}, setting {}", g, key, got, want)); }
            }
            sink.record(json!({"direct": {"prop": "C20", "ok": wrong.is_empty(), "what": "the settings block of the header shows the settings in force (non-default, pairwise distinct values)",
                "input": {"wrong": wrong, "header": text.lines().skip_while(|l| !l.trim_start().starts_with("settings:")).take(12).collect::<Vec<_>>()}}}));
        }
    }

    // ------------------------------------------------------------ C20: routing histories against Solver/Route.v
    if !replaying || replay_has_route {
        let nh = if thorough { 1500 } else { 250 };
        let pool: [&str; 9] = ["", "\n", "iter    pcost        dcost\n", "  0  -3.1415e+00  2.7183e-01  9.99e-01\n", "μ ≤ ∞ — ok\n",
                               "Terminated with status = Solved\n", "x", "-------------------------------------------------------------\n", "κ/τ"];
        let histories: Vec<Vec<(u8, usize, String)>> = if let Some(h) = replay_route.clone() { vec![h] } else {
            (0..nh).map(|_| {
                let len = 3 + rng.below(22);
                (0..len).map(|_| {
                    // op codes: 0 stdout, 1 file id, 2 stream id, 3 sink, 4 buffer, 5 write, 6 get, 7 clone
                    let c = *rng.pick(&[1u8, 1, 2, 2, 3, 4, 4, 4, 5, 5, 5, 5, 5, 5, 5, 5, 5, 6, 6, 6, 7, 7, 0]);
                    let id = rng.below(3);
                    let mut text = String::new();
                    if c == 5 {
                        let k = 1 + rng.below(3);
                        for _ in 0..k { text.push_str(pool[rng.below(pool.len())]); }
                        if rng.chance(1, 12) { text = text.repeat(40); }
                    }
                    (c, id, text)
                }).collect()
            }).collect()
        };
        for (hidx, h) in histories.iter().enumerate() {
            let r = guarded(|| {
                // a tiny LP: the solver object only carries the print target here
                let P = CscMatrix::<f64>::zeros((1, 1));
                let A = CscMatrix::new(1, 1, vec![0, 1], vec![0], vec![1.0]);
                let settings = DefaultSettings { verbose: false, ..DefaultSettings::default() };
                let mut solver = DefaultSolver::new(&P, &[1.0], &A, &[1.0], &[NonnegativeConeT(1)], settings);
                let fpath = |id: usize| format!("{}/route_{:?}_{}.txt", scratch, std::thread::current().id(), id);
                for id in 0..3 { let _ = std::fs::remove_file(fpath(id)); }
                let streams: Vec<Arc<Mutex<Vec<u8>>>> = (0..3).map(|_| Arc::new(Mutex::new(vec![]))).collect();
                let mut outs: Vec<Vec<u8>> = vec![];
                for (c, id, text) in h.iter() {
                    let mut o: Vec<u8> = vec![0];
                    match c {
                        0 => solver.print_to_stdout(),
                        1 => {
                            let f = std::fs::OpenOptions::new().create(true).append(true).open(fpath(*id)).expect("open");
                            solver.print_to_file(f)
                        }
                        2 => solver.print_to_stream(Box::new(SharedBuf(streams[*id].clone(), [0usize, 7, 64][*id % 3]))),
                        3 => solver.print_to_sink(),
                        4 => solver.print_to_buffer(),
                        5 => {
                            // never write to the real stdout from the harness: the model's stdout is not observed
                            if clarabel::verif_hooks::skel::print_target_kind(&solver) != 0 {
                                clarabel::verif_hooks::skel::print_target_write(&mut solver, text.as_bytes()).expect("write");
                            }
                        }
                        6 => match solver.get_print_buffer() {
                            Ok(st) => { o = vec![2]; o.extend_from_slice(st.as_bytes()); }
                            Err(_) => { o = vec![1]; }
                        },
                        _ => clarabel::verif_hooks::skel::info_replace_by_clone(&mut solver),
                    }
                    outs.push(o);
                }
                let kind = clarabel::verif_hooks::skel::print_target_kind(&solver);
                drop(solver);
                let files: Vec<Vec<u8>> = (0..3).map(|id| std::fs::read(fpath(id)).unwrap_or_default()).collect();
                for id in 0..3 { let _ = std::fs::remove_file(fpath(id)); }
                let strs: Vec<Vec<u8>> = streams.iter().map(|s| s.lock().unwrap().clone()).collect();
                (outs, kind, files, strs)
            });
            let hist_json: Vec<Value> = h.iter().map(|(c, id, t)| json!([c, id, t])).collect();
            match r {
                None => sink.record(json!({"direct": {"prop": "C20", "ok": false, "what": "a print-target operation panicked", "input": {"route_history": hist_json}}})),
                Some((outs, kind, files, strs)) => {
                    let cbytes = |b: &[u8]| clist(b, |x| format!("{}%N", x));
                    // writes issued while the target is stdout are skipped by the harness: drop them from the model's history too
                    let mut cur_stdout = true; // the solver starts on stdout
                    let mut ops: Vec<String> = vec![];
                    let mut outs_m: Vec<String> = vec![];
                    for ((c, id, t), o) in h.iter().zip(outs.iter()) {
                        let opstr = match c {
                            0 => { cur_stdout = true; "ToStdout".to_string() }
                            1 => { cur_stdout = false; format!("ToFile {}", cn(*id)) }
                            2 => { cur_stdout = false; format!("ToStream {}", cn(*id)) }
                            3 => { cur_stdout = false; "ToSink".to_string() }
                            4 => { cur_stdout = false; "ToBuffer".to_string() }
                            5 => { if cur_stdout { continue; } format!("Write {}", cbytes(t.as_bytes())) }
                            6 => "GetBuffer".to_string(),
                            _ => "CloneInfo".to_string(),
                        };
                        ops.push(opstr);
                        outs_m.push(cbytes(o));
                    }
                    let files_m: Vec<String> = files.iter().enumerate().map(|(i, b)| format!("({}, {})", cn(i), cbytes(b))).collect();
                    let strs_m: Vec<String> = strs.iter().enumerate().map(|(i, b)| format!("({}, {})", cn(i), cbytes(b))).collect();
                    sink.case("route", json!({"label": format!("routing history {}", hidx), "route_history": hist_json, "final_kind": kind}),
                        format!("(c_route [{}] [{}] {} [{}] [{}])", ops.join("; "), outs_m.join("; "), cn(kind as usize), files_m.join("; "), strs_m.join("; ")),
                        &["C20"]);
                }
            }
        }
    }

    sink.record(json!({"stats": Value::Object(stats)}));
    sink.record(json!({"meta": {"prop": "skel", "seed": seed, "tier": tier, "blas": blas_shim::AVAILABLE}}));
    sink.flush();
}
