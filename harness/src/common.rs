//! Shared helpers: deterministic PRNG, Coq-term printers, panic capture, case output.
#![allow(dead_code)]
use serde_json::{json, Value};
use std::io::Write;
use std::panic::{catch_unwind, AssertUnwindSafe};

pub struct Rng(pub u64);
impl Rng {
    pub fn new(seed: u64) -> Self {
        // mix the seed through the splitmix64 finaliser first, so that adjacent seeds do not
        // produce the same stream shifted by one draw
        let mut z = seed.wrapping_add(0x1234_5678_9ABC_DEF1).wrapping_mul(0x9E3779B97F4A7C15);
        z = (z ^ (z >> 30)).wrapping_mul(0xBF58476D1CE4E5B9);
        z = (z ^ (z >> 27)).wrapping_mul(0x94D049BB133111EB);
        Rng(z ^ (z >> 31))
    }
    pub fn next(&mut self) -> u64 {
        // splitmix64
        self.0 = self.0.wrapping_add(0x9E3779B97F4A7C15);
        let mut z = self.0;
        z = (z ^ (z >> 30)).wrapping_mul(0xBF58476D1CE4E5B9);
        z = (z ^ (z >> 27)).wrapping_mul(0x94D049BB133111EB);
        z ^ (z >> 31)
    }
    pub fn below(&mut self, n: usize) -> usize {
        if n == 0 { 0 } else { (self.next() % (n as u64)) as usize }
    }
    pub fn range(&mut self, lo: i64, hi: i64) -> i64 {
        lo + (self.next() % ((hi - lo + 1) as u64)) as i64
    }
    pub fn chance(&mut self, num: usize, den: usize) -> bool {
        self.below(den) < num
    }
    pub fn unit(&mut self) -> f64 {
        (self.next() >> 11) as f64 / (1u64 << 53) as f64
    }
    pub fn pick<'a, T>(&mut self, v: &'a [T]) -> &'a T {
        &v[self.below(v.len())]
    }
    pub fn shuffle<T>(&mut self, v: &mut [T]) {
        for i in (1..v.len()).rev() {
            let j = self.below(i + 1);
            v.swap(i, j);
        }
    }
}

/// Run `f`, returning None if it panicked.
pub fn guarded<R>(f: impl FnOnce() -> R) -> Option<R> {
    catch_unwind(AssertUnwindSafe(f)).ok()
}
pub fn silence_panics() {
    std::panic::set_hook(Box::new(|_| {}));
}

// ---------- Coq term printing ----------
pub fn cz(v: i64) -> String {
    format!("({})%Z", v)
}
pub fn cn(v: usize) -> String {
    format!("{}%N", v)
}
pub fn clist<T>(v: &[T], f: impl Fn(&T) -> String) -> String {
    let mut s = String::from("[");
    for (i, x) in v.iter().enumerate() {
        if i > 0 { s.push(';'); }
        s.push_str(&f(x));
    }
    s.push(']');
    s
}
pub fn cnlist(v: &[usize]) -> String { format!("{}%N", clist(v, |x| format!("{}", x))) }
pub fn czlist(v: &[i64]) -> String {
    format!("{}%Z", clist(v, |x| if *x < 0 { format!("({})", x) } else { format!("{}", x) }))
}
pub fn cblist(v: &[bool]) -> String { clist(v, |x| (if *x { "true" } else { "false" }).to_string()) }
/// f64 that must be an exactly representable small integer (exactness domain); None otherwise
pub fn f2i(x: f64) -> Option<i64> {
    if x.is_finite() && x == x.trunc() && x.abs() < 9.0e15 { Some(x as i64) } else { None }
}
pub fn f2i_vec(v: &[f64]) -> Option<Vec<i64>> { v.iter().map(|x| f2i(*x)).collect() }

/// Exact decomposition of a finite f64 as (mantissa, exponent): x = m * 2^e.
pub fn f64_decomp(x: f64) -> Option<(i64, i64)> {
    if !x.is_finite() { return None; }
    if x == 0.0 { return Some((0, 0)); }
    let bits = x.to_bits();
    let sign: i64 = if bits >> 63 == 1 { -1 } else { 1 };
    let exp = ((bits >> 52) & 0x7ff) as i64;
    let frac = (bits & 0xfffffffffffff) as i64;
    let (mut m, mut e) = if exp == 0 { (frac, -1074) } else { (frac | (1i64 << 52), exp - 1075) };
    while m & 1 == 0 { m >>= 1; e += 1; }
    Some((sign * m, e))
}
/// Coq term `(Float radix2 m e)` printed through the helper `D m e` (Base/Dyadic.v)
pub fn cdy(x: f64) -> String {
    match f64_decomp(x) {
        Some((m, e)) => format!("(D ({}) ({}))", m, e),
        None => if x.is_nan() { "DNaN".into() } else if x > 0.0 { "DInf".into() } else { "DNInf".into() },
    }
}
pub fn cdylist(v: &[f64]) -> String { clist(v, |x| cdy(*x)) }
/// primitive-float literal (hexadecimal, exact)
pub fn cfl(x: f64) -> String {
    if x.is_nan() { return "nan".into(); }
    if x.is_infinite() { return if x > 0.0 { "infinity".into() } else { "neg_infinity".into() }; }
    if x == 0.0 { return if x.is_sign_negative() { "(-0)%float".into() } else { "0%float".into() }; }
    let (m, e) = f64_decomp(x).unwrap();
    if m < 0 { format!("(-0x{:x}p{:+})%float", -m, e) } else { format!("(0x{:x}p{:+})%float", m, e) }
}
pub fn cfllist(v: &[f64]) -> String { clist(v, |x| cfl(*x)) }

// ---------- case output ----------
pub struct CaseSink {
    out: Box<dyn Write>,
    pub n: usize,
}
impl CaseSink {
    pub fn new(path: &str) -> Self {
        let f = std::fs::File::create(path).expect("cannot create case file");
        CaseSink { out: Box::new(std::io::BufWriter::new(f)), n: 0 }
    }
    /// One correspondence case: `coq` is a Gallina expression of type N (0 = agree).
    pub fn case(&mut self, op: &str, input: Value, coq: String, tags: &[&str]) {
        let v = json!({"id": self.n, "op": op, "input": input, "coq": coq, "tags": tags});
        writeln!(self.out, "{}", v).unwrap();
        self.n += 1;
    }
    /// A free-form record (statistics, direct oracle verdicts, ...)
    pub fn record(&mut self, v: Value) {
        writeln!(self.out, "{}", v).unwrap();
    }
    pub fn flush(&mut self) { self.out.flush().unwrap(); }
}

pub fn usize_vec(v: &Value) -> Vec<usize> {
    v.as_array().unwrap().iter().map(|x| x.as_u64().unwrap() as usize).collect()
}
pub fn i64_vec(v: &Value) -> Vec<i64> {
    v.as_array().unwrap().iter().map(|x| x.as_i64().unwrap()).collect()
}
pub fn f64_vec(v: &Value) -> Vec<f64> {
    v.as_array().unwrap().iter().map(|x| x.as_f64().unwrap()).collect()
}
pub fn bool_vec(v: &Value) -> Vec<bool> {
    v.as_array().unwrap().iter().map(|x| x.as_bool().unwrap()).collect()
}
