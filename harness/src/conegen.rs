//! Generators shared by the C13 and C15 harness binaries: interior points of the nonnegative
//! and second-order cones at controlled relative distance from the boundary and controlled
//! magnitude, search directions of every qualitative kind, and exact integer / Pythagorean
//! data on which every branch condition of the SOC step-length routine is hit exactly.
#![allow(dead_code)]
use crate::common::Rng;

/// positive number with magnitude 10^[-8,8]
pub fn nn_point(rng: &mut Rng) -> f64 {
    let e = (rng.unit() - 0.5) * 16.0;
    (0.5 + rng.unit()) * 10f64.powf(e)
}
/// pair (s, z) of positive numbers whose ratio and product span many magnitudes
pub fn nn_pair(rng: &mut Rng) -> (f64, f64) {
    (nn_point(rng), nn_point(rng))
}

pub fn norm2(v: &[f64]) -> f64 {
    v.iter().fold(0.0, |a, x| a + x * x).sqrt()
}

/// interior point of the SOC of dimension n: x0 = ||x1|| (1 + dist), everything times mag
pub fn soc_interior(rng: &mut Rng, n: usize, dist: f64, mag: f64) -> Vec<f64> {
    let mut x = vec![0.0; n];
    loop {
        for i in 1..n {
            x[i] = (rng.unit() - 0.5) * 2.0;
            if rng.chance(1, 6) { x[i] = 0.0; }
        }
        let nn = norm2(&x[1..]);
        if nn > 1e-3 {
            x[0] = nn * (1.0 + dist);
            break;
        }
    }
    x.iter().map(|v| v * mag).collect()
}

/// direction kinds: 0 inward (in int K), 1 outward (in -int K), 2 tangent (y0 = 0),
/// 3 straight to the apex (y = -k x), 4 zero, 5 random
pub fn soc_direction(rng: &mut Rng, x: &[f64], kind: usize) -> Vec<f64> {
    let n = x.len();
    let scale = norm2(x) * *rng.pick(&[1e-3, 1.0, 1.0, 30.0, 1e3]);
    match kind {
        0 => { let d = *rng.pick(&[1.0, 1e-4]); soc_interior(rng, n, d, scale) }
        1 => { let d = *rng.pick(&[1.0, 1e-4, 1e-8]); soc_interior(rng, n, d, scale).iter().map(|v| -v).collect() }
        2 => {
            let mut y: Vec<f64> = (0..n).map(|_| scale * (rng.unit() - 0.5)).collect();
            y[0] = 0.0;
            y
        }
        3 => {
            let k = *rng.pick(&[1.0, 2.0, 0.5, 4.0]);
            x.iter().map(|v| -k * v).collect()
        }
        4 => vec![0.0; n],
        _ => (0..n).map(|_| scale * (rng.unit() - 0.5) * 2.0).collect(),
    }
}

fn pad(v: &[f64], n: usize) -> Vec<f64> {
    let mut o = v.to_vec();
    o.resize(n, 0.0);
    o
}

/// (x, y, x is interior, tag): exact small-integer data
pub fn soc_exact_cases() -> Vec<(Vec<f64>, Vec<f64>, bool, &'static str)> {
    let mut v: Vec<(Vec<f64>, Vec<f64>, bool, &'static str)> = vec![];
    // a == 0 with b < 0 : direction on the boundary of -K (finding F3)
    v.push((vec![1., 0.], vec![-1., 1.], true, "a0-bneg"));
    v.push((vec![5., 0., 0.], vec![-5., 3., 4.], true, "a0-bneg"));
    v.push((vec![3., 1., 1., 0., 0.], vec![-3., 1., 2., 2., 0.], true, "a0-bneg"));
    v.push((vec![10., 1., 2., 3., 0., 0., 0.], vec![-7., 2., 3., 6., 0., 0., 0.], true, "a0-bneg"));
    v.push((vec![4., 1., -1., 1.], vec![-9., 4., 4., 7.], true, "a0-bneg"));
    v.push((pad(&[20., 1., 2., 3.], 12), pad(&[-11., 0., 0., 0., 2., 6., 9.], 12), true, "a0-bneg"));
    // a == 0 with b < 0 where the scalar cap binds before the root
    v.push((vec![1., 0., 0.], vec![-25., 7., 24.], true, "a0-bneg"));
    // a == 0 with b > 0 : direction on the boundary of K
    v.push((vec![5., 0., 0.], vec![5., 3., 4.], true, "a0-bpos"));
    v.push((vec![3., 1., 1., 0., 0.], vec![3., 1., 2., 2., 0.], true, "a0-bpos"));
    // a == 0, b == 0 : zero direction
    v.push((vec![2., 1.], vec![0., 0.], true, "a0-b0"));
    v.push((pad(&[7., 1., 2.], 6), pad(&[], 6), true, "a0-b0"));
    // two real roots, perfect-square discriminant
    v.push((vec![3., 0.], vec![-2., 1.], true, "roots-apos"));
    v.push((vec![2., 0.], vec![0., 1.], true, "roots-aneg-bzero"));
    v.push((vec![5., 0., 0.], vec![-1., 3., 4.], true, "roots-aneg"));
    v.push((vec![5., 0., 0.], vec![1., 3., 4.], true, "roots-aneg-bpos"));
    v.push((vec![5., 3., 0., 0., 0.], vec![-1., 0., 3., 4., 0.], true, "roots-aneg"));
    v.push((pad(&[13., 3., 4.], 9), pad(&[-1., 0., 0., 12., 5.], 9), true, "roots-aneg"));
    // inward: a > 0 and b > 0
    v.push((vec![3., 1.], vec![2., 1.], true, "inward"));
    v.push((vec![3., 1., 1.], vec![5., 3., -3.], true, "inward"));
    // straight to the apex: double root, d == 0 exactly
    v.push((vec![3., 1., 2.], vec![-3., -1., -2.], true, "apex-d0"));
    v.push((vec![3., 1., 2.], vec![-6., -2., -4.], true, "apex-d0"));
    // start exactly on the boundary (c == 0): outside the property's quantifier, model only
    v.push((vec![5., 3., 4.], vec![1., 0., 0.], false, "c0"));
    v.push((vec![5., 3., 4.], vec![0., 1., 0.], false, "c0"));
    v.push((vec![5., 3., 4.], vec![-1., 0., 0.], false, "c0"));
    v.push((vec![5., 3., 4.], vec![5., 3., 4.], false, "c0"));
    v.push((vec![5., 3., 4.], vec![-5., -3., -4.], false, "c0"));
    v
}

/// regression corpus (former witnesses of F3): (x, y, alpha_max)
pub fn corpus_soc() -> Vec<(Vec<f64>, Vec<f64>, f64)> {
    vec![
        (vec![1., 0.], vec![-1., 1.], 1.0),
        (vec![5., 0., 0.], vec![-5., 3., 4.], 1.0),
    ]
}

// ---------------------------------------------------------------- PSD cone
pub type Mat = Vec<Vec<f64>>;
/// random symmetric matrix with entries in [-scale, scale]
pub fn sym_matrix(rng: &mut Rng, n: usize, scale: f64) -> Mat {
    let mut m = vec![vec![0.0; n]; n];
    for c in 0..n {
        for r in 0..=c {
            let v = scale * (rng.unit() - 0.5) * 2.0;
            m[r][c] = v;
            m[c][r] = v;
        }
    }
    m
}
/// symmetric positive definite: mag * (A Aᵀ / n + floor * I), eigenvalues roughly in [floor, 1+floor]·mag
pub fn psd_matrix(rng: &mut Rng, n: usize, floor: f64, mag: f64) -> Mat {
    let a: Mat = (0..n).map(|_| (0..n).map(|_| (rng.unit() - 0.5) * 2.0).collect()).collect();
    let mut m = vec![vec![0.0; n]; n];
    for c in 0..n {
        for r in 0..=c {
            let mut v = 0.0;
            for k in 0..n { v += a[r][k] * a[c][k]; }
            v = v / (n as f64) + if r == c { floor } else { 0.0 };
            m[r][c] = v * mag;
            m[c][r] = v * mag;
        }
    }
    m
}
pub fn mat_scale(m: &Mat, k: f64) -> Mat { m.iter().map(|r| r.iter().map(|v| v * k).collect()).collect() }
/// scaled vectorisation of the upper triangle, column by column, off-diagonals times sqrt(2)
pub fn svec(m: &Mat) -> Vec<f64> {
    let n = m.len();
    let mut x = vec![];
    for c in 0..n {
        for r in 0..=c {
            x.push(if r == c { m[r][c] } else { m[r][c] * std::f64::consts::SQRT_2 });
        }
    }
    x
}
/// Coq literal: list of rows of dyadics
pub fn cdymat(m: &Mat) -> String {
    format!("[{}]", m.iter().map(|r| crate::common::cdylist(r)).collect::<Vec<_>>().join("; "))
}
