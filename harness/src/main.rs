//! vharness <property> --out FILE [--seed N] [--tier quick|thorough] [--replay FILE]
//! Runs the implementation on generated (or replayed) inputs and writes one JSON line per
//! correspondence case; the `coq` field is a Gallina expression evaluated by the checker.
mod blas_shim;
mod common;
mod c16;

use common::*;
use serde_json::{json, Value};

fn main() {
    let args: Vec<String> = std::env::args().collect();
    if args.len() < 2 { eprintln!("usage: vharness <prop> --out FILE [--seed N] [--tier T] [--replay FILE]"); std::process::exit(2); }
    let prop = args[1].clone();
    let mut out = String::from("/dev/stdout");
    let mut seed: u64 = 1;
    let mut tier = String::from("quick");
    let mut replay: Option<String> = None;
    let mut i = 2;
    while i < args.len() {
        match args[i].as_str() {
            "--out" => { out = args[i + 1].clone(); i += 1; }
            "--seed" => { seed = args[i + 1].parse().unwrap_or(1); i += 1; }
            "--tier" => { tier = args[i + 1].clone(); i += 1; }
            "--replay" => { replay = Some(args[i + 1].clone()); i += 1; }
            _ => {}
        }
        i += 1;
    }
    silence_panics();
    let thorough = tier == "thorough";
    let mut sink = CaseSink::new(&out);
    let replay_cases: Option<Vec<Value>> = replay.map(|p| {
        let txt = std::fs::read_to_string(&p).expect("cannot read replay file");
        let v: Value = serde_json::from_str(&txt).expect("replay file is not JSON");
        match v.get("cases") { Some(Value::Array(a)) => a.clone(), _ => vec![v] }
    });
    match prop.as_str() {
        "c16" => {
            if let Some(cases) = replay_cases { for c in cases.iter() { c16::replay(&mut sink, c); } }
            else {
                let st = c16::generate(&mut sink, seed, thorough);
                sink.record(json!({"stats": st.by_stream}));
            }
        }
        _ => { eprintln!("unknown property {}", prop); std::process::exit(2); }
    }
    sink.record(json!({"meta": {"prop": prop, "seed": seed, "tier": tier, "blas": blas_shim::AVAILABLE}}));
    sink.flush();
}
