mod blas_shim;
use clarabel::algebra::*;
fn main(){
    let a = CscMatrix::<f64>{m:1,n:1,colptr:vec![1,2],rowval:vec![0,0],nzval:vec![5.,7.]};
    println!("{:?} nnz={} get={:?}", a.check_format(), a.nnz(), a.get_entry((0,0)));
    let b = CscMatrix::<f64>::identity(1);
    let c = CscMatrix::hcat(&a,&b);
    println!("{:?}", c);
    let mut d = a.clone(); println!("{:?}", d.canonicalize()); println!("{:?}",d);
}
