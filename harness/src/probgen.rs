//! Reusable conic-problem generator and solver runner.
//!
//! Include with `#[path = "../probgen.rs"] mod probgen;` (after `mod common;` and
//! `mod blas_shim;`).  Everything is deterministic from a `common::Rng`.
//!
//! Public API
//! ----------
//! * `ConeK`                     user-level cone kinds (Zero, NN, SOC, Exp, Pow, GenPow, PSD triangle)
//! * `SpMat`                     sparse matrix as sorted, duplicate-free triplets (column major)
//! * `Settings`                  the subset of solver settings that the checks vary
//! * `Problem {P,q,A,b,cones,settings,label,class,p_full}`
//!       `P` holds the UPPER TRIANGLE; `p_full = true` means the solver is handed the full
//!       symmetric matrix instead (same meaning).  `json()/from_json()/coq()` printers.
//! * planted generators: `gen_feasible`, `gen_primal_infeasible`, `gen_dual_infeasible`,
//!       `gen_near_infeasible`, `gen_degenerate`, modifiers `badly_scale`, `add_inf_bounds`,
//!       cone samplers `sample_cones`, `cone_interior`, settings sampler `sample_settings`,
//!       `stream(rng, idx, max_size)` = the mixed stream used by the C01-C03 run.
//! * data-updating stream: `DataUpdate`, `gen_update_case`, `apply_update`, `run_update` (first solve,
//!       update_P/q/A/b in place, re-solve; judged against the data after the update), `collect(&solver)`
//! * `gen_refused_case` (updates that must be refused: presolve active, wrong lengths, out-of-range index),
//!       `gen_partial_case` (partial (index,value) updates, shuffled / descending / repeated indices, tuple and
//!       zip forms), `apply_update_model` (model of the update calls incl. refusals), `solve_counting`
//! * update sequences on one solver object: `run_updates`, `apply_updates`, `gen_transition_case`
//!       (feasible -> infeasible, infeasible -> feasible -> infeasible, ... via update_b / update_q / update_A)
//! * `gen_infbound_case` — presolve on, right-hand sides of both signs around the infinity bound
//!       (default and lowered with set_infinity; `Settings::infbound` carries the bound of the case)
//! * `keep_rows(problem)`        the rows an independent party regards as kept (not infinite bounds)
//! * `run(problem, watchdog_s) -> Outcome`   solve under catch_unwind with a watchdog thread;
//!       `Outcome` has status, x, s, z, obj_val, obj_val_dual, r_prim, r_dual, iterations, the
//!       public info fields, equilibration {d,e,c}, the hook records (tau, kappa before
//!       normalisation, roll-back count, scaled dot products) and the presolver keep-map.
#![allow(dead_code)]
#![allow(non_snake_case)]
#![allow(mixed_script_confusables)]
use crate::common::*;
use clarabel::algebra::CscMatrix;
use clarabel::solver::*;
use serde_json::{json, Value};

// ------------------------------------------------------------------------------------------
// cones
// ------------------------------------------------------------------------------------------
#[derive(Clone, Debug, PartialEq)]
pub enum ConeK {
    Zero(usize),
    NN(usize),
    SOC(usize),
    Exp,
    Pow(f64),
    GenPow(Vec<f64>, usize),
    /// PSD triangle cone of matrix dimension n (n(n+1)/2 entries, off-diagonals scaled by sqrt 2)
    PSD(usize),
}
impl ConeK {
    pub fn dim(&self) -> usize {
        match self {
            ConeK::Zero(n) | ConeK::NN(n) | ConeK::SOC(n) => *n,
            ConeK::Exp | ConeK::Pow(_) => 3,
            ConeK::GenPow(a, d2) => a.len() + d2,
            ConeK::PSD(n) => n * (n + 1) / 2,
        }
    }
    pub fn kind(&self) -> &'static str {
        match self {
            ConeK::Zero(_) => "zero",
            ConeK::NN(_) => "nn",
            ConeK::SOC(_) => "soc",
            ConeK::Exp => "exp",
            ConeK::Pow(_) => "pow",
            ConeK::GenPow(..) => "genpow",
            ConeK::PSD(_) => "psd",
        }
    }
    /// true when equilibration may scale the rows of this cone individually
    pub fn elementwise(&self) -> bool {
        matches!(self, ConeK::Zero(_) | ConeK::NN(_))
    }
    pub fn to_clarabel(&self) -> SupportedConeT<f64> {
        match self {
            ConeK::Zero(n) => ZeroConeT(*n),
            ConeK::NN(n) => NonnegativeConeT(*n),
            ConeK::SOC(n) => SecondOrderConeT(*n),
            ConeK::Exp => ExponentialConeT(),
            ConeK::Pow(a) => PowerConeT(*a),
            ConeK::GenPow(a, d) => GenPowerConeT(a.clone(), *d),
            ConeK::PSD(n) => PSDTriangleConeT(*n),
        }
    }
    pub fn json(&self) -> Value {
        match self {
            ConeK::Zero(n) => json!({"k": "zero", "n": n}),
            ConeK::NN(n) => json!({"k": "nn", "n": n}),
            ConeK::SOC(n) => json!({"k": "soc", "n": n}),
            ConeK::Exp => json!({"k": "exp"}),
            ConeK::Pow(a) => json!({"k": "pow", "a": a}),
            ConeK::GenPow(a, d) => json!({"k": "genpow", "a": a, "d2": d}),
            ConeK::PSD(n) => json!({"k": "psd", "n": n}),
        }
    }
    pub fn from_json(v: &Value) -> ConeK {
        let n = || v["n"].as_u64().unwrap() as usize;
        match v["k"].as_str().unwrap() {
            "zero" => ConeK::Zero(n()),
            "nn" => ConeK::NN(n()),
            "soc" => ConeK::SOC(n()),
            "exp" => ConeK::Exp,
            "pow" => ConeK::Pow(v["a"].as_f64().unwrap()),
            "genpow" => ConeK::GenPow(f64_vec(&v["a"]), v["d2"].as_u64().unwrap() as usize),
            "psd" => ConeK::PSD(n()),
            k => panic!("unknown cone kind {}", k),
        }
    }
    /// Coq literal of type `coneD` (Term/Eval.v)
    pub fn coq(&self) -> String {
        match self {
            ConeK::Zero(n) => format!("KZero {}", cn(*n)),
            ConeK::NN(n) => format!("KNN {}", cn(*n)),
            ConeK::SOC(n) => format!("KSOC {}", cn(*n)),
            ConeK::Exp => "KExp".into(),
            ConeK::Pow(a) => format!("KPow {}", cdy(*a)),
            ConeK::GenPow(a, d) => format!("KGenPow {} {}", cdylist(a), cn(*d)),
            ConeK::PSD(n) => format!("KPSD {}", cn(*n)),
        }
    }
}
pub fn cones_dim(c: &[ConeK]) -> usize { c.iter().map(|k| k.dim()).sum() }

// ------------------------------------------------------------------------------------------
// sparse matrices as triplets
// ------------------------------------------------------------------------------------------
#[derive(Clone, Debug)]
pub struct SpMat {
    pub m: usize,
    pub n: usize,
    /// (row, col, value) sorted by (col, row), no duplicates
    pub ents: Vec<(usize, usize, f64)>,
}
impl SpMat {
    pub fn zeros(m: usize, n: usize) -> Self { SpMat { m, n, ents: vec![] } }
    pub fn from_dense(d: &[Vec<f64>], m: usize, n: usize) -> Self {
        let mut ents = vec![];
        for j in 0..n { for i in 0..m { if d[i][j] != 0.0 { ents.push((i, j, d[i][j])); } } }
        SpMat { m, n, ents }
    }
    pub fn dense(&self) -> Vec<Vec<f64>> {
        let mut d = vec![vec![0.0; self.n]; self.m];
        for &(i, j, v) in &self.ents { d[i][j] += v; }
        d
    }
    pub fn to_csc(&self) -> CscMatrix<f64> {
        let mut colptr = vec![0usize; self.n + 1];
        for &(_, j, _) in &self.ents { colptr[j + 1] += 1; }
        for j in 0..self.n { colptr[j + 1] += colptr[j]; }
        CscMatrix::new(self.m, self.n, colptr, self.ents.iter().map(|e| e.0).collect(), self.ents.iter().map(|e| e.2).collect())
    }
    /// full symmetric matrix from an upper triangle
    pub fn sym_full(&self) -> SpMat {
        let mut d = self.dense();
        for i in 0..self.m { for j in (i + 1)..self.n { d[j][i] = d[i][j]; } }
        SpMat::from_dense(&d, self.m, self.n)
    }
    pub fn mul_vec(&self, x: &[f64]) -> Vec<f64> {
        let mut y = vec![0.0; self.m];
        for &(i, j, v) in &self.ents { y[i] += v * x[j]; }
        y
    }
    pub fn tmul_vec(&self, z: &[f64]) -> Vec<f64> {
        let mut y = vec![0.0; self.n];
        for &(i, j, v) in &self.ents { y[j] += v * z[i]; }
        y
    }
    /// symmetric product, `self` holding the upper triangle
    pub fn sym_mul_vec(&self, x: &[f64]) -> Vec<f64> {
        let mut y = vec![0.0; self.m];
        for &(i, j, v) in &self.ents { y[i] += v * x[j]; if i != j { y[j] += v * x[i]; } }
        y
    }
    pub fn json(&self) -> Value {
        json!({"m": self.m, "n": self.n,
               "i": self.ents.iter().map(|e| e.0).collect::<Vec<_>>(),
               "j": self.ents.iter().map(|e| e.1).collect::<Vec<_>>(),
               "v": self.ents.iter().map(|e| e.2).collect::<Vec<_>>()})
    }
    pub fn from_json(v: &Value) -> SpMat {
        let (i, j, x) = (usize_vec(&v["i"]), usize_vec(&v["j"]), f64_vec(&v["v"]));
        let mut ents: Vec<(usize, usize, f64)> = (0..i.len()).map(|k| (i[k], j[k], x[k])).collect();
        ents.sort_by(|a, b| (a.1, a.0).cmp(&(b.1, b.0)));
        SpMat { m: v["m"].as_u64().unwrap() as usize, n: v["n"].as_u64().unwrap() as usize, ents }
    }
    /// Coq literal: list of `(i, j, D m e)` triplets with `N` indices
    pub fn coq(&self) -> String {
        clist(&self.ents, |e| format!("({},{},{})", cn(e.0), cn(e.1), cdy(e.2)))
    }
    pub fn all_finite(&self) -> bool { self.ents.iter().all(|e| e.2.is_finite()) }
}

// ------------------------------------------------------------------------------------------
// settings
// ------------------------------------------------------------------------------------------
#[derive(Clone, Debug)]
pub struct Settings {
    pub equilibrate: bool,
    pub presolve: bool,
    pub static_reg: bool,
    pub dynamic_reg: bool,
    pub iter_refine: bool,
    pub method: String,
    pub tol_gap_abs: f64,
    pub tol_gap_rel: f64,
    pub tol_feas: f64,
    pub tol_infeas_abs: f64,
    pub tol_infeas_rel: f64,
    pub tol_ktratio: f64,
    pub reduced_tol_gap_abs: f64,
    pub reduced_tol_gap_rel: f64,
    pub reduced_tol_feas: f64,
    pub reduced_tol_infeas_abs: f64,
    pub reduced_tol_infeas_rel: f64,
    pub reduced_tol_ktratio: f64,
    pub max_iter: u32,
    pub time_limit: f64,
    /// the process-global "infinity" bound in force for this solve (clarabel::set_infinity); the
    /// runner sets it before building the solver and restores the default afterwards (runs are serial)
    pub infbound: f64,
    /// CoreSettings::min_terminate_step_length / min_switch_step_length (defaults 1e-4 / 1e-1)
    pub min_terminate_step_length: f64,
    pub min_switch_step_length: f64,
}
impl Default for Settings {
    fn default() -> Self {
        Settings {
            equilibrate: true, presolve: true, static_reg: true, dynamic_reg: true, iter_refine: true,
            method: "qdldl".into(),
            tol_gap_abs: 1e-8, tol_gap_rel: 1e-8, tol_feas: 1e-8, tol_infeas_abs: 1e-8, tol_infeas_rel: 1e-8, tol_ktratio: 1e-6,
            reduced_tol_gap_abs: 5e-5, reduced_tol_gap_rel: 5e-5, reduced_tol_feas: 1e-4,
            reduced_tol_infeas_abs: 5e-12, reduced_tol_infeas_rel: 5e-5, reduced_tol_ktratio: 1e-4,
            max_iter: 200, time_limit: f64::INFINITY, infbound: 1e20, min_terminate_step_length: 1e-4, min_switch_step_length: 1e-1,
        }
    }
}
impl Settings {
    pub fn to_clarabel(&self) -> DefaultSettings<f64> {
        let mut s = DefaultSettings::<f64>::default();
        s.verbose = false;
        s.equilibrate_enable = self.equilibrate;
        s.presolve_enable = self.presolve;
        s.static_regularization_enable = self.static_reg;
        s.dynamic_regularization_enable = self.dynamic_reg;
        s.iterative_refinement_enable = self.iter_refine;
        s.direct_solve_method = self.method.clone();
        s.tol_gap_abs = self.tol_gap_abs;
        s.tol_gap_rel = self.tol_gap_rel;
        s.tol_feas = self.tol_feas;
        s.tol_infeas_abs = self.tol_infeas_abs;
        s.tol_infeas_rel = self.tol_infeas_rel;
        s.tol_ktratio = self.tol_ktratio;
        s.reduced_tol_gap_abs = self.reduced_tol_gap_abs;
        s.reduced_tol_gap_rel = self.reduced_tol_gap_rel;
        s.reduced_tol_feas = self.reduced_tol_feas;
        s.reduced_tol_infeas_abs = self.reduced_tol_infeas_abs;
        s.reduced_tol_infeas_rel = self.reduced_tol_infeas_rel;
        s.reduced_tol_ktratio = self.reduced_tol_ktratio;
        s.max_iter = self.max_iter;
        s.time_limit = self.time_limit;
        s.min_terminate_step_length = self.min_terminate_step_length;
        s.min_switch_step_length = self.min_switch_step_length;
        s.max_threads = 1;
        s.chordal_decomposition_enable = false; // excluded by the properties' quantifier
        s
    }
    pub fn json(&self) -> Value {
        json!({"equilibrate": self.equilibrate, "presolve": self.presolve, "static_reg": self.static_reg,
               "dynamic_reg": self.dynamic_reg, "iter_refine": self.iter_refine, "method": self.method,
               "tol_gap_abs": self.tol_gap_abs, "tol_gap_rel": self.tol_gap_rel, "tol_feas": self.tol_feas,
               "tol_infeas_abs": self.tol_infeas_abs, "tol_infeas_rel": self.tol_infeas_rel, "tol_ktratio": self.tol_ktratio,
               "reduced_tol_gap_abs": self.reduced_tol_gap_abs, "reduced_tol_gap_rel": self.reduced_tol_gap_rel,
               "reduced_tol_feas": self.reduced_tol_feas, "reduced_tol_infeas_abs": self.reduced_tol_infeas_abs,
               "reduced_tol_infeas_rel": self.reduced_tol_infeas_rel, "reduced_tol_ktratio": self.reduced_tol_ktratio,
               "max_iter": self.max_iter, "infbound": self.infbound, "min_terminate_step_length": self.min_terminate_step_length, "min_switch_step_length": self.min_switch_step_length,
               "time_limit": if self.time_limit.is_finite() { json!(self.time_limit) } else { json!("inf") }})
    }
    pub fn from_json(v: &Value) -> Settings {
        let f = |k: &str| v[k].as_f64().unwrap();
        let b = |k: &str| v[k].as_bool().unwrap();
        Settings {
            equilibrate: b("equilibrate"), presolve: b("presolve"), static_reg: b("static_reg"), dynamic_reg: b("dynamic_reg"),
            iter_refine: b("iter_refine"), method: v["method"].as_str().unwrap().to_string(),
            tol_gap_abs: f("tol_gap_abs"), tol_gap_rel: f("tol_gap_rel"), tol_feas: f("tol_feas"),
            tol_infeas_abs: f("tol_infeas_abs"), tol_infeas_rel: f("tol_infeas_rel"), tol_ktratio: f("tol_ktratio"),
            reduced_tol_gap_abs: f("reduced_tol_gap_abs"), reduced_tol_gap_rel: f("reduced_tol_gap_rel"),
            reduced_tol_feas: f("reduced_tol_feas"), reduced_tol_infeas_abs: f("reduced_tol_infeas_abs"),
            reduced_tol_infeas_rel: f("reduced_tol_infeas_rel"), reduced_tol_ktratio: f("reduced_tol_ktratio"),
            max_iter: v["max_iter"].as_u64().unwrap() as u32,
            infbound: v["infbound"].as_f64().unwrap_or(1e20),
            min_terminate_step_length: v["min_terminate_step_length"].as_f64().unwrap_or(1e-4),
            min_switch_step_length: v["min_switch_step_length"].as_f64().unwrap_or(1e-1),
            time_limit: v["time_limit"].as_f64().unwrap_or(f64::INFINITY),
        }
    }
    /// Coq literal `(mkSet …)`: the twelve tolerances as exact dyadics, then max_iter
    pub fn coq(&self) -> String {
        format!("(mkSet {} {} {} {} {} {} {} {} {} {} {} {} {})",
            cdy(self.tol_gap_abs), cdy(self.tol_gap_rel), cdy(self.tol_feas), cdy(self.tol_infeas_abs), cdy(self.tol_infeas_rel), cdy(self.tol_ktratio),
            cdy(self.reduced_tol_gap_abs), cdy(self.reduced_tol_gap_rel), cdy(self.reduced_tol_feas), cdy(self.reduced_tol_infeas_abs),
            cdy(self.reduced_tol_infeas_rel), cdy(self.reduced_tol_ktratio), cn(self.max_iter as usize))
    }
    /// the same as primitive-float literals (for the bit-exact decision model)
    pub fn coq_f(&self) -> String {
        format!("(mkSetF {} {} {} {} {} {} {} {} {} {} {} {})",
            cfl(self.tol_gap_abs), cfl(self.tol_gap_rel), cfl(self.tol_feas), cfl(self.tol_infeas_abs), cfl(self.tol_infeas_rel), cfl(self.tol_ktratio),
            cfl(self.reduced_tol_gap_abs), cfl(self.reduced_tol_gap_rel), cfl(self.reduced_tol_feas), cfl(self.reduced_tol_infeas_abs),
            cfl(self.reduced_tol_infeas_rel), cfl(self.reduced_tol_ktratio))
    }
}

/// Settings sampler: every switch on/off, the three backends, tolerances 1e-4..1e-10.
pub fn sample_settings(rng: &mut Rng) -> Settings {
    let tols = [1e-4, 1e-5, 1e-6, 1e-7, 1e-8, 1e-9, 1e-10];
    let itols = [1e-6, 1e-7, 1e-8, 1e-9, 1e-10];
    let mut s = Settings::default();
    s.equilibrate = rng.chance(3, 4);
    s.presolve = rng.chance(3, 4);
    s.static_reg = rng.chance(5, 6);
    s.dynamic_reg = rng.chance(5, 6);
    s.iter_refine = rng.chance(5, 6);
    s.method = rng.pick(&["qdldl", "auto", "faer"]).to_string();
    s.tol_gap_abs = *rng.pick(&tols);
    s.tol_gap_rel = *rng.pick(&tols);
    s.tol_feas = *rng.pick(&tols);
    s.tol_infeas_abs = *rng.pick(&itols);
    s.tol_infeas_rel = *rng.pick(&itols);
    s.max_iter = 200;
    s
}

/// Wide, ASYMMETRIC tolerances: all twelve (full and reduced; gap abs/rel, feas, infeas abs/rel,
/// ktratio) drawn independently from sets several decades apart, so that the two members of every
/// pair are usually far from each other and a swapped or duplicated field changes a verdict.
pub fn sample_settings_wide(rng: &mut Rng) -> Settings {
    let mut s = sample_settings(rng);
    let w = [1e-2, 1e-5, 1e-8, 1e-11];
    s.tol_gap_abs = *rng.pick(&w); s.tol_gap_rel = *rng.pick(&w); s.tol_feas = *rng.pick(&w);
    s.tol_infeas_abs = *rng.pick(&w); s.tol_infeas_rel = *rng.pick(&w);
    s.tol_ktratio = *rng.pick(&[1e-4, 1e-6, 1e-8]);
    s.reduced_tol_gap_abs = *rng.pick(&w); s.reduced_tol_gap_rel = *rng.pick(&w); s.reduced_tol_feas = *rng.pick(&w);
    s.reduced_tol_infeas_abs = *rng.pick(&w); s.reduced_tol_infeas_rel = *rng.pick(&w);
    s.reduced_tol_ktratio = *rng.pick(&[1e-2, 1e-4, 1e-6]);
    s
}

// ------------------------------------------------------------------------------------------
// problems
// ------------------------------------------------------------------------------------------
#[derive(Clone, Debug)]
pub struct Problem {
    /// upper triangle of the symmetric PSD matrix P
    pub P: SpMat,
    pub q: Vec<f64>,
    pub A: SpMat,
    pub b: Vec<f64>,
    pub cones: Vec<ConeK>,
    pub settings: Settings,
    /// free text: how the instance was made
    pub label: String,
    /// "feas" | "pinf" | "dinf" | "near" | "degenerate" (what was planted)
    pub class: String,
    /// hand the solver the full symmetric P instead of its upper triangle
    pub p_full: bool,
}
impl Problem {
    pub fn n(&self) -> usize { self.q.len() }
    pub fn m(&self) -> usize { self.b.len() }
    pub fn json(&self) -> Value {
        json!({"P": self.P.json(), "q": self.q, "A": self.A.json(), "b": self.b,
               "cones": self.cones.iter().map(|c| c.json()).collect::<Vec<_>>(),
               "settings": self.settings.json(), "label": self.label, "class": self.class, "p_full": self.p_full})
    }
    pub fn from_json(v: &Value) -> Problem {
        Problem {
            P: SpMat::from_json(&v["P"]), q: f64_vec(&v["q"]), A: SpMat::from_json(&v["A"]), b: f64_vec(&v["b"]),
            cones: v["cones"].as_array().unwrap().iter().map(ConeK::from_json).collect(),
            settings: Settings::from_json(&v["settings"]),
            label: v["label"].as_str().unwrap_or("").to_string(), class: v["class"].as_str().unwrap_or("").to_string(),
            p_full: v["p_full"].as_bool().unwrap_or(false),
        }
    }
    pub fn all_finite(&self) -> bool {
        self.P.all_finite() && self.A.all_finite() && self.q.iter().all(|x| x.is_finite()) && self.b.iter().all(|x| x.is_finite())
    }
    /// Coq literal `(mkProb n m Ptriu q A b cones keep)` (Term/Eval.v); data as exact dyadics
    pub fn coq(&self) -> String {
        format!("(mkProb {} {} {} {} {} {} {} {})", cn(self.n()), cn(self.m()), self.P.coq(), cdylist(&self.q),
                self.A.coq(), cdylist(&self.b), clist(&self.cones, |c| c.coq()), cblist(&keep_rows(self)))
    }
}

/// The rows an independent party regards as kept: with presolve enabled, rows of
/// nonnegative-type cones (NN, and the one-dimensional SOC/PSD cones, which are the same set)
/// whose bound is at least the solver's infinity are dropped (the "rows dropped as infinite
/// bounds" of the property text).
pub fn keep_rows(p: &Problem) -> Vec<bool> {
    let mut keep = vec![true; p.m()];
    if !p.settings.presolve { return keep; }
    // the MODEL of the presolver (make_reduction_map): strictly greater than the slightly contracted
    // bound, sign-sensitive — never what the implementation reports
    let thr = (1.0 - f64::EPSILON * 10.0) * p.settings.infbound;
    let mut idx = 0;
    for c in &p.cones {
        let d = c.dim();
        let nnlike = matches!(c, ConeK::NN(_)) || matches!(c, ConeK::SOC(1)) || matches!(c, ConeK::PSD(1));
        for _ in 0..d {
            if nnlike && p.b[idx] > thr { keep[idx] = false; }
            idx += 1;
        }
    }
    keep
}

fn small_int(rng: &mut Rng, lo: i64, hi: i64) -> f64 { rng.range(lo, hi) as f64 }

/// A point in the interior of the cone (`dual = false`) or of its dual cone (`dual = true`).
/// For the zero cone: primal = 0, dual = arbitrary.
pub fn cone_interior(rng: &mut Rng, c: &ConeK, dual: bool) -> Vec<f64> {
    match c {
        ConeK::Zero(n) => (0..*n).map(|_| if dual { small_int(rng, -3, 3) } else { 0.0 }).collect(),
        ConeK::NN(n) => (0..*n).map(|_| small_int(rng, 1, 5)).collect(),
        ConeK::SOC(n) => {
            if *n == 0 { return vec![]; }
            let tail: Vec<f64> = (1..*n).map(|_| small_int(rng, -3, 3)).collect();
            let nrm = tail.iter().map(|x| x * x).sum::<f64>().sqrt();
            let mut v = vec![nrm.ceil() + small_int(rng, 1, 3)];
            v.extend(tail);
            v
        }
        ConeK::Exp => {
            if !dual {
                let x = small_int(rng, -2, 2);
                let y = small_int(rng, 1, 3);
                vec![x, y, (y * (x / y).exp()).ceil() + small_int(rng, 1, 2)]
            } else {
                let u = -small_int(rng, 1, 3);
                let v = small_int(rng, -2, 2);
                vec![u, v, (-u * (v / u - 1.0).exp()).ceil() + small_int(rng, 1, 2)]
            }
        }
        ConeK::Pow(a) => {
            let (x, y) = (small_int(rng, 1, 4), small_int(rng, 1, 4));
            let bound = if !dual { x.powf(*a) * y.powf(1.0 - a) } else { (x / a).powf(*a) * (y / (1.0 - a)).powf(1.0 - a) };
            let z = ((bound * 0.5 * 4.0).floor() / 4.0) * if rng.chance(1, 2) { 1.0 } else { -1.0 };
            vec![x, y, z]
        }
        ConeK::GenPow(al, d2) => {
            let xs: Vec<f64> = al.iter().map(|_| small_int(rng, 1, 4)).collect();
            let mut bound = 1.0;
            for (x, a) in xs.iter().zip(al) { bound *= if !dual { x.powf(*a) } else { (x / a).powf(*a) }; }
            let w: Vec<f64> = (0..*d2).map(|_| small_int(rng, -2, 2)).collect();
            let nw = w.iter().map(|x| x * x).sum::<f64>().sqrt();
            let sc = if nw > 0.0 { ((0.5 * bound / nw) * 8.0).floor() / 8.0 } else { 0.0 };
            let mut v = xs;
            v.extend(w.iter().map(|x| x * sc));
            v
        }
        ConeK::PSD(n) => {
            // S = G G' + I, integers; svec with sqrt(2) off-diagonals, column-major upper triangle
            let g: Vec<Vec<f64>> = (0..*n).map(|_| (0..*n).map(|_| small_int(rng, -1, 1)).collect()).collect();
            let mut v = vec![];
            for j in 0..*n {
                for i in 0..=j {
                    let mut sij: f64 = (0..*n).map(|k| g[i][k] * g[j][k]).sum();
                    if i == j { sij += 1.0; v.push(sij); } else { v.push(sij * std::f64::consts::SQRT_2); }
                }
            }
            v
        }
    }
}

/// random cone mixture with total dimension about `target_m`; `kinds` restricts the cone kinds
pub fn sample_cones(rng: &mut Rng, target_m: usize, kinds: &[&str]) -> Vec<ConeK> {
    let mut cones = vec![];
    let mut m = 0;
    let alphas = [0.5, 0.25, 0.75, 0.375, 0.125, 0.625];
    while m < target_m.max(1) {
        let left = target_m.max(1) - m;
        let k = *rng.pick(kinds);
        let c = match k {
            "zero" => ConeK::Zero(1 + rng.below(left.min(4))),
            "nn" => ConeK::NN(1 + rng.below(left.min(8))),
            "soc" => ConeK::SOC(1 + rng.below(left.min(6).max(1))),
            "exp" => ConeK::Exp,
            "pow" => ConeK::Pow(if rng.chance(1, 8) { 0.3 } else { *rng.pick(&alphas) }),
            "genpow" => {
                let al = match rng.below(3) { 0 => vec![0.5, 0.5], 1 => vec![0.25, 0.25, 0.5], _ => vec![0.125, 0.375, 0.5] };
                ConeK::GenPow(al, 1 + rng.below(2))
            }
            "psd" => ConeK::PSD(1 + rng.below(4)),
            _ => ConeK::NN(1),
        };
        m += c.dim();
        cones.push(c);
    }
    cones
}

fn random_sparse(rng: &mut Rng, m: usize, n: usize, density_num: usize, density_den: usize) -> Vec<Vec<f64>> {
    let mut d = vec![vec![0.0; n]; m];
    for i in 0..m {
        let mut any = false;
        for j in 0..n {
            if rng.chance(density_num, density_den) { d[i][j] = small_int(rng, -3, 3); any = any || d[i][j] != 0.0; }
        }
        if !any && n > 0 { let j = rng.below(n); d[i][j] = if rng.chance(1, 2) { 1.0 } else { -2.0 }; }
    }
    d
}

/// P = G'G (small integers, k rows) as an upper triangle; `None` rows -> zero matrix
fn random_psd(rng: &mut Rng, n: usize, orth_to: Option<&[f64]>) -> SpMat {
    let k = rng.below(4);
    if k == 0 || n == 0 { return SpMat::zeros(n, n); }
    let mut g = random_sparse(rng, k, n, 1, 3);
    if let Some(x) = orth_to {
        // make every row of G orthogonal to x (integers): g <- (x'x) g - (g.x) x'
        let xx: f64 = x.iter().map(|v| v * v).sum();
        for row in g.iter_mut() {
            let gx: f64 = row.iter().zip(x).map(|(a, b)| a * b).sum();
            for j in 0..n { row[j] = xx * row[j] - gx * x[j]; }
        }
    }
    let mut d = vec![vec![0.0; n]; n];
    for i in 0..n { for j in i..n { d[i][j] = (0..k).map(|r| g[r][i] * g[r][j]).sum(); } }
    SpMat::from_dense(&d, n, n)
}

fn concat_interior(rng: &mut Rng, cones: &[ConeK], dual: bool) -> Vec<f64> {
    let mut v = vec![];
    for c in cones { v.extend(cone_interior(rng, c, dual)); }
    v
}

/// Planted strictly feasible problem: x, s in int K, z in int K*, b = Ax+s, q = -(Px+A'z).
pub fn gen_feasible(rng: &mut Rng, n: usize, cones: Vec<ConeK>) -> Problem {
    let m = cones_dim(&cones);
    let a = random_sparse(rng, m, n, 1, if n > 12 { 6 } else { 3 });
    let A = SpMat::from_dense(&a, m, n);
    let P = random_psd(rng, n, None);
    let x: Vec<f64> = (0..n).map(|_| small_int(rng, -3, 3)).collect();
    let s = concat_interior(rng, &cones, false);
    let z = concat_interior(rng, &cones, true);
    let ax = A.mul_vec(&x);
    let b: Vec<f64> = (0..m).map(|i| ax[i] + s[i]).collect();
    let px = P.sym_mul_vec(&x);
    let atz = A.tmul_vec(&z);
    let q: Vec<f64> = (0..n).map(|j| -(px[j] + atz[j])).collect();
    Problem { P, q, A, b, cones, settings: Settings::default(), label: "planted-feasible".into(), class: "feas".into(), p_full: rng.chance(1, 4) }
}

/// Strongly primal infeasible: planted z in int K* with A'z = 0 and b'z < 0 (dual feasible by
/// construction of q).
pub fn gen_primal_infeasible(rng: &mut Rng, n: usize, cones: Vec<ConeK>) -> Problem {
    let m = cones_dim(&cones);
    let mut z = concat_interior(rng, &cones, true);
    // pivot row: some row with z_k != 0 (prefer a non-zero-cone row)
    let mut k = (0..m).find(|&i| z[i] != 0.0 && z[i].fract() == 0.0).unwrap_or(0);
    if z[k] == 0.0 { z[k] = 1.0; }
    let cand: Vec<usize> = (0..m).filter(|&i| z[i] != 0.0 && z[i].fract() == 0.0).collect();
    if !cand.is_empty() { k = *rng.pick(&cand); }
    let a0 = random_sparse(rng, m, n, 1, 3);
    let mut a = vec![vec![0.0; n]; m];
    for j in 0..n {
        let mut acc = 0.0;
        for i in 0..m { if i != k { a[i][j] = z[k] * a0[i][j]; acc += z[i] * a0[i][j]; } }
        a[k][j] = -acc;
    }
    let A = SpMat::from_dense(&a, m, n);
    let mut b: Vec<f64> = (0..m).map(|_| small_int(rng, -3, 3)).collect();
    let bz: f64 = b.iter().zip(&z).map(|(x, y)| x * y).sum();
    let delta = small_int(rng, 1, 4);
    b[k] -= (bz + delta) / z[k];
    let P = random_psd(rng, n, None);
    let x0: Vec<f64> = (0..n).map(|_| small_int(rng, -2, 2)).collect();
    let z0 = concat_interior(rng, &cones, true);
    let px = P.sym_mul_vec(&x0);
    let atz = A.tmul_vec(&z0);
    let q: Vec<f64> = (0..n).map(|j| -(px[j] + atz[j])).collect();
    Problem { P, q, A, b, cones, settings: Settings::default(), label: "planted-primal-infeasible".into(), class: "pinf".into(), p_full: false }
}

/// Strongly dual infeasible (unbounded): planted x with Px = 0, Ax + s = 0 for some s in int K,
/// q'x < 0; primal feasible by construction of b.
pub fn gen_dual_infeasible(rng: &mut Rng, n: usize, cones: Vec<ConeK>) -> Problem {
    let n = n.max(1);
    let m = cones_dim(&cones);
    let mut x: Vec<f64> = (0..n).map(|_| small_int(rng, -2, 2)).collect();
    let k = rng.below(n);
    x[k] = small_int(rng, 1, 2);
    let s = concat_interior(rng, &cones, false);
    let a0 = random_sparse(rng, m, n, 1, 3);
    let mut a = vec![vec![0.0; n]; m];
    for i in 0..m {
        let mut acc = 0.0;
        for j in 0..n { if j != k { a[i][j] = x[k] * a0[i][j]; acc += x[j] * a0[i][j]; } }
        a[i][k] = -(s[i] + acc);
    }
    let A = SpMat::from_dense(&a, m, n);
    let P = random_psd(rng, n, Some(&x));
    let mut q: Vec<f64> = (0..n).map(|_| small_int(rng, -3, 3)).collect();
    let qx: f64 = q.iter().zip(&x).map(|(a, b)| a * b).sum();
    q[k] -= (qx + small_int(rng, 1, 4)) / x[k];
    let x0: Vec<f64> = (0..n).map(|_| small_int(rng, -2, 2)).collect();
    let s0 = concat_interior(rng, &cones, false);
    let ax = A.mul_vec(&x0);
    let b: Vec<f64> = (0..m).map(|i| ax[i] + s0[i]).collect();
    Problem { P, q, A, b, cones, settings: Settings::default(), label: "planted-dual-infeasible".into(), class: "dinf".into(), p_full: false }
}

/// Feasible, but with a tiny interior margin (planted slacks and multipliers scaled by 2^-k)
pub fn gen_near_infeasible(rng: &mut Rng, n: usize, cones: Vec<ConeK>) -> Problem {
    let mut p = gen_feasible(rng, n, cones);
    let k = rng.range(18, 30) as i32;
    let sc = 2f64.powi(-k);
    // b = Ax + sc*s : recompute from a fresh planted pair
    let x: Vec<f64> = (0..p.n()).map(|_| small_int(rng, -3, 3)).collect();
    let s = concat_interior(rng, &p.cones, false);
    let ax = p.A.mul_vec(&x);
    p.b = (0..p.m()).map(|i| ax[i] + sc * s[i]).collect();
    p.label = format!("near-infeasible margin 2^-{}", k);
    p.class = "near".into();
    p
}

/// Rank-deficient equality rows (duplicated constraints) — stresses the linear solver,
/// especially with regularisation off.
pub fn gen_degenerate(rng: &mut Rng, n: usize, cones: Vec<ConeK>) -> Problem {
    let mut cones = cones;
    cones.insert(0, ConeK::Zero(2 + rng.below(2)));
    let mut p = gen_feasible(rng, n, cones);
    // make equality row 1 a copy of row 0 (consistent: b copied too)
    let mut d = p.A.dense();
    let r0 = d[0].clone();
    d[1] = r0;
    p.b[1] = p.b[0];
    p.A = SpMat::from_dense(&d, p.m(), p.n());
    // q must stay dual feasible: recompute with a planted z
    let z = concat_interior(rng, &p.cones, true);
    let x: Vec<f64> = (0..p.n()).map(|_| small_int(rng, -2, 2)).collect();
    let px = p.P.sym_mul_vec(&x);
    let atz = p.A.tmul_vec(&z);
    p.q = (0..p.n()).map(|j| -(px[j] + atz[j])).collect();
    let s = concat_interior(rng, &p.cones, false);
    let ax = p.A.mul_vec(&x);
    p.b = (0..p.m()).map(|i| ax[i] + s[i]).collect();
    p.label = "degenerate (duplicated equality row)".into();
    p.class = "degenerate".into();
    p
}

/// Row / column scalings by powers of two up to 2^±`maxexp` (rows of a non-elementwise cone
/// share one factor, so cone membership is preserved): A <- R A C, b <- R b, P <- C P C, q <- C q.
pub fn badly_scale(rng: &mut Rng, p: &mut Problem, maxexp: i64) {
    let mut r = vec![];
    for c in &p.cones {
        if c.elementwise() { for _ in 0..c.dim() { r.push(2f64.powi(rng.range(-maxexp, maxexp) as i32)); } }
        else { let f = 2f64.powi(rng.range(-maxexp, maxexp) as i32); for _ in 0..c.dim() { r.push(f); } }
    }
    let c: Vec<f64> = (0..p.n()).map(|_| 2f64.powi(rng.range(-maxexp, maxexp) as i32)).collect();
    for e in p.A.ents.iter_mut() { e.2 *= r[e.0] * c[e.1]; }
    for i in 0..p.m() { p.b[i] *= r[i]; }
    for e in p.P.ents.iter_mut() { e.2 *= c[e.0] * c[e.1]; }
    for j in 0..p.n() { p.q[j] *= c[j]; }
    p.label = format!("{} + scaled 2^±{}", p.label, maxexp);
}

/// Appends `k` inequality rows `a_i x + s_i = 1e20, s_i >= 0` (infinite bounds): dropped by the
/// presolver when it is enabled (call after the settings are chosen).
pub fn add_inf_bounds(rng: &mut Rng, p: &mut Problem, k: usize) {
    let (m, n) = (p.m(), p.n());
    let extra = random_sparse(rng, k, n, 1, 3);
    let mut d = p.A.dense();
    d.extend(extra);
    p.A = SpMat::from_dense(&d, m + k, n);
    let big = p.settings.infbound;
    // a bound above the solver's infinity only where the row is certain to be dropped (presolve on):
    // on a kept row the solver caps b at its infinity, i.e. solves other data than the user's
    let over = p.settings.presolve;
    for _ in 0..k { p.b.push(if over && rng.chance(1, 3) { big * 4.0 } else { big }); }
    // in front, behind or as a separate cone: exercise the cone bookkeeping
    match p.cones.last_mut() {
        Some(ConeK::NN(d)) if rng.chance(1, 2) => { *d += k; }
        _ => { p.cones.push(ConeK::NN(k)); }
    }
    p.label = format!("{} + {} infinite bounds", p.label, k);
}

/// The mixed stream used by the C01-C03 run: index `idx` selects the family so that every
/// cone kind, every planted class, every settings switch and every terminal status is reached
/// within a few hundred problems.
pub fn stream(rng: &mut Rng, idx: usize, max_size: usize) -> Problem {
    let all: [&str; 7] = ["zero", "nn", "soc", "exp", "pow", "genpow", "psd"];
    let sym: [&str; 3] = ["zero", "nn", "soc"];
    let fam = idx % 20;
    let size = match rng.below(10) { 0 => 1, 1 | 2 => 1 + rng.below(3), 9 => max_size / 2 + rng.below(max_size / 2 + 1), _ => 2 + rng.below((max_size / 3).max(2)) };
    let n = size.max(1);
    let target_m = (1 + rng.below(2 * n)).min(max_size);
    // single-kind families make sure each cone kind is met on its own as well
    let kinds: Vec<&str> = match fam {
        0 => vec!["nn"], 1 => vec!["zero", "nn"], 2 => vec!["soc"], 3 => vec!["exp"], 4 => vec!["pow"], 5 => vec!["genpow"], 6 => vec!["psd"],
        7 | 8 => sym.to_vec(),
        _ => all.to_vec(),
    };
    let cones = sample_cones(rng, target_m, &kinds);
    let mut p = match fam {
        9 | 10 => gen_primal_infeasible(rng, n, cones),
        11 | 12 => gen_dual_infeasible(rng, n, cones),
        13 => gen_near_infeasible(rng, n, cones),
        14 => gen_degenerate(rng, n, cones),
        _ => match rng.below(8) { 0 => gen_primal_infeasible(rng, n, cones), 1 => gen_dual_infeasible(rng, n, cones), _ => gen_feasible(rng, n, cones) },
    };
    p.settings = sample_settings(rng);
    if fam == 14 && rng.chance(1, 2) { p.settings.static_reg = false; p.settings.dynamic_reg = false; }
    if rng.chance(1, 5) { let ex = if rng.chance(1, 2) { 20 } else { 8 }; badly_scale(rng, &mut p, ex); }
    if rng.chance(1, 5) { let k = 1 + rng.below(3); add_inf_bounds(rng, &mut p, k); }
    if idx % 3 == 1 {
        // asymmetric tolerances (full and reduced), objective scaled so that gap_abs and gap_rel are
        // decades apart, and usually a budget that cuts the iteration off in mid-convergence
        let keep = p.settings.clone();
        p.settings = sample_settings_wide(rng);
        p.settings.equilibrate = keep.equilibrate; p.settings.presolve = keep.presolve; p.settings.method = keep.method.clone();
        let sc = *rng.pick(&[1.0, 1e3, 1e6]);
        for e in p.P.ents.iter_mut() { e.2 *= sc; }
        for v in p.q.iter_mut() { *v *= sc; }
        if rng.chance(2, 3) { p.settings.max_iter = 3 + rng.below(12) as u32; }
        p.label = format!("{} + wide asymmetric tolerances, objective x{:e}", p.label, sc);
    }
    if idx % 20 == 19 || idx % 20 == 7 {
        // stop on an undersized step: the small-step checkpoint fails as soon as alpha <= min_terminate
        p.settings.min_terminate_step_length = *rng.pick(&[0.5, 0.9]);
        p.settings.min_switch_step_length = 0.95;
        p.label += " + min_terminate_step_length large";
    }
    match fam {
        15 => { p.settings.max_iter = rng.below(6) as u32; p.label += " + tiny max_iter"; }
        16 => { p.settings.time_limit = 0.0; p.label += " + time_limit 0"; }
        18 => {
            // budget that stops the iteration in mid-convergence: figures land between the full and
            // the reduced tolerances (Almost*) or just outside them
            p.settings.max_iter = 4 + rng.below(10) as u32;
            p.label += " + mid-convergence budget";
        }
        17 => {
            // tolerances no float iteration can meet, modest budget: ends Almost* / MaxIterations / InsufficientProgress
            p.settings.tol_gap_abs = 1e-15; p.settings.tol_gap_rel = 1e-15; p.settings.tol_feas = 1e-15;
            p.settings.tol_infeas_abs = 1e-1; p.settings.tol_infeas_rel = 1e-16;
            p.settings.max_iter = 15 + rng.below(25) as u32;
            p.label += " + unreachable tolerances";
        }
        _ => {}
    }
    p
}

// ------------------------------------------------------------------------------------------
// running the solver
// ------------------------------------------------------------------------------------------
#[derive(Clone, Debug, Default)]
pub struct Outcome {
    /// "ok" | "panic" | "hang"
    pub run: String,
    pub status: String,
    pub x: Vec<f64>,
    pub s: Vec<f64>,
    pub z: Vec<f64>,
    pub obj_val: f64,
    pub obj_val_dual: f64,
    pub r_prim: f64,
    pub r_dual: f64,
    pub iterations: u32,
    pub solve_time: f64,
    // public info fields
    pub info_iterations: u32,
    pub cost_primal: f64,
    pub cost_dual: f64,
    pub res_primal: f64,
    pub res_dual: f64,
    pub res_primal_inf: f64,
    pub res_dual_inf: f64,
    pub gap_abs: f64,
    pub gap_rel: f64,
    pub ktratio: f64,
    pub info_status: String,
    // equilibration of the (reduced) internal problem
    pub d: Vec<f64>,
    pub e: Vec<f64>,
    pub c: f64,
    // internal (reduced, unscaled, normalised) variables after the solve
    pub var_tau: f64,
    pub var_kappa: f64,
    // hooks
    pub pre_tau: f64,
    pub pre_kappa: f64,
    pub pre_infeasible: bool,
    pub unscale_calls: u32,
    pub rollbacks: u32,
    pub dot_qx: f64,
    pub dot_bz: f64,
    pub dot_sz: f64,
    pub dot_xpx: f64,
    /// previous-iterate figures kept by the info record (hook): res_primal, res_dual, gap_abs, gap_rel
    pub prev_res_primal: f64,
    pub prev_res_dual: f64,
    pub prev_gap_abs: f64,
    pub prev_gap_rel: f64,
    pub presolver_keep: Option<Vec<bool>>,
    /// statuses of the earlier solves on the same solver object (update sequences)
    pub history: Vec<String>,
    /// number of `iter += 1` events of the main loop seen by the trace hook (independent iteration count)
    pub kkt_iterations: Option<u32>,
    /// Ok / Err of every update call of the sequence, in call order
    pub update_results: Vec<bool>,
    pub internal_m: usize,
    pub internal_n: usize,
}
fn jf(x: f64) -> Value { if x.is_finite() { json!(x) } else if x.is_nan() { json!("nan") } else if x > 0.0 { json!("inf") } else { json!("-inf") } }
fn jfv(v: &[f64]) -> Value { Value::Array(v.iter().map(|x| jf(*x)).collect()) }
impl Outcome {
    pub fn json(&self) -> Value {
        json!({"run": self.run, "status": self.status, "x": jfv(&self.x), "s": jfv(&self.s), "z": jfv(&self.z),
               "obj_val": jf(self.obj_val), "obj_val_dual": jf(self.obj_val_dual), "r_prim": jf(self.r_prim), "r_dual": jf(self.r_dual),
               "iterations": self.iterations, "gap_abs": jf(self.gap_abs), "gap_rel": jf(self.gap_rel), "ktratio": jf(self.ktratio),
               "res_primal_inf": jf(self.res_primal_inf), "res_dual_inf": jf(self.res_dual_inf),
               "c": jf(self.c), "pre_tau": jf(self.pre_tau), "pre_kappa": jf(self.pre_kappa), "rollbacks": self.rollbacks,
               "dot_qx": jf(self.dot_qx), "dot_bz": jf(self.dot_bz)})
    }
    pub fn vectors_finite(&self) -> bool {
        self.x.iter().chain(&self.s).chain(&self.z).all(|v| v.is_finite())
    }
}

/// Solve `p` in a fresh thread under `catch_unwind`; give up after `watchdog_s` seconds.
pub fn run(p: &Problem, watchdog_s: f64) -> Outcome {
    let p = p.clone();
    let (tx, rx) = std::sync::mpsc::channel();
    std::thread::Builder::new().stack_size(64 << 20).spawn(move || {
        let r = guarded(|| run_here(&p));
        let _ = tx.send(r);
    }).expect("spawn");
    match rx.recv_timeout(std::time::Duration::from_secs_f64(watchdog_s)) {
        Ok(Some(o)) => o,
        Ok(None) => Outcome { run: "panic".into(), ..Default::default() },
        Err(_) => Outcome { run: "hang".into(), ..Default::default() },
    }
}

/// Solve on the calling thread (hook records are thread-local).
pub fn run_here(p: &Problem) -> Outcome {
    let Pm = if p.p_full { p.P.sym_full().to_csc() } else { p.P.to_csc() };
    let Am = p.A.to_csc();
    let cones: Vec<SupportedConeT<f64>> = p.cones.iter().map(|c| c.to_clarabel()).collect();
    clarabel::verif_hooks::term::reset();
    clarabel::set_infinity(p.settings.infbound);
    let mut solver = DefaultSolver::new(&Pm, &p.q, &Am, &p.b, &cones, p.settings.to_clarabel());
    clarabel::default_infinity();
    let it = solve_counting(&mut solver);
    let mut o = collect(&solver);
    o.kkt_iterations = Some(it);
    o
}

/// `solve()` under the trace hook; returns the number of main-loop iteration increments (`iter += 1`,
/// "we only count iterations that produce a KKT update") — what an independent party counts.
pub fn solve_counting(solver: &mut DefaultSolver<f64>) -> u32 {
    use clarabel::verif_hooks::trace;
    trace::start();
    solver.solve();
    trace::take().iter().filter(|e| matches!(e, trace::Event::IterInc { .. })).count() as u32
}

/// Reads everything the checks look at out of a solver that has just finished `solve()`.
pub fn collect(solver: &DefaultSolver<f64>) -> Outcome {
    let (pt, pk, pinf, calls) = clarabel::verif_hooks::term::pre_unscale();
    let (dqx, dbz, dsz, dxpx) = clarabel::verif_hooks::term::residual_dots(&solver.residuals);
    let sol = &solver.solution;
    let info = &solver.info;
    let prevs = clarabel::verif_hooks::term::info_prev(info);
    Outcome {
        prev_res_primal: prevs.2, prev_res_dual: prevs.3, prev_gap_abs: prevs.4, prev_gap_rel: prevs.5,
        run: "ok".into(),
        status: format!("{:?}", sol.status),
        x: sol.x.clone(), s: sol.s.clone(), z: sol.z.clone(),
        obj_val: sol.obj_val, obj_val_dual: sol.obj_val_dual, r_prim: sol.r_prim, r_dual: sol.r_dual,
        iterations: sol.iterations, solve_time: sol.solve_time,
        info_iterations: info.iterations, cost_primal: info.cost_primal, cost_dual: info.cost_dual,
        res_primal: info.res_primal, res_dual: info.res_dual, res_primal_inf: info.res_primal_inf, res_dual_inf: info.res_dual_inf,
        gap_abs: info.gap_abs, gap_rel: info.gap_rel, ktratio: info.ktratio, info_status: format!("{:?}", info.status),
        d: solver.data.equilibration.d.clone(), e: solver.data.equilibration.e.clone(), c: solver.data.equilibration.c,
        var_tau: solver.variables.τ, var_kappa: solver.variables.κ,
        pre_tau: pt, pre_kappa: pk, pre_infeasible: pinf, unscale_calls: calls,
        rollbacks: clarabel::verif_hooks::term::rollbacks(),
        dot_qx: dqx, dot_bz: dbz, dot_sz: dsz, dot_xpx: dxpx,
        presolver_keep: clarabel::verif_hooks::presolver_keep(&solver.data),
        history: vec![], kkt_iterations: None, update_results: vec![],
        internal_m: solver.data.m, internal_n: solver.data.n,
    }
}

// ------------------------------------------------------------------------------------------
// in-place data updates followed by a re-solve (update_q / update_b / update_P / update_A)
// ------------------------------------------------------------------------------------------
/// Full-vector updates applied to an existing solver after its first solve.  `p_vals` / `a_vals`
/// are the new stored values in the order of `Problem::P.ents` (upper triangle) / `Problem::A.ents`.
#[derive(Clone, Debug, Default)]
pub struct DataUpdate {
    pub q: Option<Vec<f64>>,
    pub b: Option<Vec<f64>>,
    pub p_vals: Option<Vec<f64>>,
    pub a_vals: Option<Vec<f64>>,
    /// partial (index, value) updates; indices refer to the stored entries (`P.ents` / `A.ents` order,
    /// i.e. the CSC nzval order) resp. to vector positions; applied in list order (a repeated index: last wins)
    pub p_part: Option<PartUpd>,
    pub a_part: Option<PartUpd>,
    pub q_part: Option<PartUpd>,
    pub b_part: Option<PartUpd>,
    /// iteration budget of the re-solve (None = unchanged)
    pub max_iter: Option<u32>,
}
#[derive(Clone, Debug, Default)]
pub struct PartUpd {
    pub idx: Vec<usize>,
    pub vals: Vec<f64>,
    /// false: the `(Vec<usize>, Vec<T>)` tuple form; true: the `zip(&index, &values)` iterator form
    pub zip_form: bool,
}
impl PartUpd {
    pub fn json(&self) -> Value { json!({"idx": self.idx, "vals": self.vals, "zip": self.zip_form}) }
    pub fn from_json(v: &Value) -> Option<PartUpd> {
        if !v.is_object() { return None; }
        Some(PartUpd { idx: usize_vec(&v["idx"]), vals: f64_vec(&v["vals"]), zip_form: v["zip"].as_bool().unwrap_or(false) })
    }
}
impl DataUpdate {
    pub fn json(&self) -> Value {
        let pj = |x: &Option<PartUpd>| x.as_ref().map(|p| p.json()).unwrap_or(Value::Null);
        json!({"q": self.q, "b": self.b, "p_vals": self.p_vals, "a_vals": self.a_vals, "max_iter": self.max_iter,
               "p_part": pj(&self.p_part), "a_part": pj(&self.a_part), "q_part": pj(&self.q_part), "b_part": pj(&self.b_part)})
    }
    pub fn from_json(v: &Value) -> DataUpdate {
        let ov = |k: &str| if v[k].is_array() { Some(f64_vec(&v[k])) } else { None };
        DataUpdate { q: ov("q"), b: ov("b"), p_vals: ov("p_vals"), a_vals: ov("a_vals"), max_iter: v["max_iter"].as_u64().map(|x| x as u32),
                     p_part: PartUpd::from_json(&v["p_part"]), a_part: PartUpd::from_json(&v["a_part"]),
                     q_part: PartUpd::from_json(&v["q_part"]), b_part: PartUpd::from_json(&v["b_part"]) }
    }
    pub fn kinds(&self) -> String {
        let mut k = vec![];
        if self.p_vals.is_some() { k.push("P"); }
        if self.p_part.is_some() { k.push("P[part]"); }
        if self.q.is_some() { k.push("q"); }
        if self.q_part.is_some() { k.push("q[part]"); }
        if self.a_vals.is_some() { k.push("A"); }
        if self.a_part.is_some() { k.push("A[part]"); }
        if self.b.is_some() { k.push("b"); }
        if self.b_part.is_some() { k.push("b[part]"); }
        k.join("+")
    }
}
/// MODEL of the update calls (what the user is entitled to expect): the calls are made in the order
/// P, P[part], q, q[part], A, A[part], b, b[part]; a call is REFUSED as a whole — data unchanged, Err
/// returned — when the presolver is active (some row dropped as an infinite bound), when a full vector
/// has the wrong length, or when a partial update names an index out of range; otherwise it overwrites
/// exactly the named entries.  Returns the data after the update and the expected Ok/Err per call.
pub fn apply_update_model(p: &Problem, u: &DataUpdate) -> (Problem, Vec<bool>) {
    let mut f = p.clone();
    let mut exp = vec![];
    let presolved = keep_rows(p).iter().any(|k| !*k);
    let full_ok = |len: usize, want: usize| !presolved && (len == 0 || len == want);
    let part_ok = |pu: &PartUpd, want: usize| !presolved && pu.idx.iter().all(|i| *i < want) && pu.idx.len() == pu.vals.len();
    if let Some(v) = &u.p_vals { let ok = full_ok(v.len(), f.P.ents.len()); exp.push(ok); if ok && !v.is_empty() { for (e, x) in f.P.ents.iter_mut().zip(v) { e.2 = *x; } } }
    if let Some(pu) = &u.p_part { let ok = part_ok(pu, f.P.ents.len()); exp.push(ok); if ok { for (i, x) in pu.idx.iter().zip(&pu.vals) { f.P.ents[*i].2 = *x; } } }
    if let Some(v) = &u.q { let ok = full_ok(v.len(), f.q.len()); exp.push(ok); if ok && !v.is_empty() { f.q = v.clone(); } }
    if let Some(pu) = &u.q_part { let ok = part_ok(pu, f.q.len()); exp.push(ok); if ok { for (i, x) in pu.idx.iter().zip(&pu.vals) { f.q[*i] = *x; } } }
    if let Some(v) = &u.a_vals { let ok = full_ok(v.len(), f.A.ents.len()); exp.push(ok); if ok && !v.is_empty() { for (e, x) in f.A.ents.iter_mut().zip(v) { e.2 = *x; } } }
    if let Some(pu) = &u.a_part { let ok = part_ok(pu, f.A.ents.len()); exp.push(ok); if ok { for (i, x) in pu.idx.iter().zip(&pu.vals) { f.A.ents[*i].2 = *x; } } }
    if let Some(v) = &u.b { let ok = full_ok(v.len(), f.b.len()); exp.push(ok); if ok && !v.is_empty() { f.b = v.clone(); } }
    if let Some(pu) = &u.b_part { let ok = part_ok(pu, f.b.len()); exp.push(ok); if ok { for (i, x) in pu.idx.iter().zip(&pu.vals) { f.b[*i] = *x; } } }
    if let Some(k) = u.max_iter { f.settings.max_iter = k; }
    (f, exp)
}
/// The user's data after the update: what the re-solve's result must be judged against.
pub fn apply_update(p: &Problem, u: &DataUpdate) -> Problem {
    let (mut f, _) = apply_update_model(p, u);
    f.label = format!("{} ; then update_{} and re-solve", p.label, u.kinds());
    f
}
/// expected Ok/Err of every update call of a sequence (model)
pub fn expected_update_results(p: &Problem, us: &[DataUpdate]) -> Vec<bool> {
    let mut f = p.clone();
    let mut all = vec![];
    for u in us { let (g, e) = apply_update_model(&f, u); f = g; all.extend(e); }
    all
}
/// Base problem + update for the data-updating stream.  Objective scaled by a power of two so the
/// equilibration's cost scaling c is far from 1; equilibration on, presolve off (updates are refused
/// otherwise), upper-triangular P.  Mode (idx % 10, the last three all being mode 7): q only / b only / P+q / A+b+q / all four /
/// vectors only on an infeasible base / A+b(+q) on an infeasible base / q(+b) on a problem whose rows
/// are scaled by 2^10 (then c >> 1 while ||x||, ||z|| stay small, so a stale or mis-scaled cached norm
/// changes the Solved verdict itself, not only the reported figure).
pub fn gen_update_case(rng: &mut Rng, idx: usize, max_size: usize) -> (Problem, DataUpdate) {
    let all: [&str; 7] = ["zero", "nn", "soc", "exp", "pow", "genpow", "psd"];
    let sym: [&str; 3] = ["zero", "nn", "soc"];
    let n = 1 + rng.below((max_size / 4).max(2));
    let target_m = 1 + rng.below(2 * n + 2);
    let kinds: &[&str] = if rng.chance(1, 2) { &sym } else { &all };
    let cones = sample_cones(rng, target_m, kinds);
    let mode = [0usize, 1, 2, 3, 4, 5, 6, 7, 7, 7][idx % 10];
    let mut p = match mode { 5 | 6 => if rng.chance(1, 2) { gen_primal_infeasible(rng, n, cones) } else { gen_dual_infeasible(rng, n, cones) }, _ => gen_feasible(rng, n, cones) };
    p.settings = sample_settings(rng);
    p.settings.equilibrate = true;
    p.settings.presolve = false;
    p.p_full = false;
    // P must be nonzero for c to move: give every problem a diagonal if P is empty
    if p.P.ents.is_empty() && mode != 5 && mode != 6 {
        let mut d = vec![vec![0.0; p.n()]; p.n()];
        for j in 0..p.n() { d[j][j] = small_int(rng, 1, 3); }
        p.P = SpMat::from_dense(&d, p.n(), p.n());
        // keep the planted dual feasibility: q <- q - P x0 for some x0
        let x0: Vec<f64> = (0..p.n()).map(|_| small_int(rng, -2, 2)).collect();
        let px = p.P.sym_mul_vec(&x0);
        for j in 0..p.n() { p.q[j] -= px[j]; }
    }
    // badly scaled objective (power of two): (P, q) <- sigma (P, q)
    let mut rowscale7 = 1.0;
    let sigma = if mode == 7 { 1.0 } else { 2f64.powi(*rng.pick(&[-14, -10, -6, 6, 10, 14])) };
    for e in p.P.ents.iter_mut() { e.2 *= sigma; }
    for v in p.q.iter_mut() { *v *= sigma; }
    if mode == 7 {
        // all rows x 2^k: D becomes small, c large, the multipliers small
        let k = *rng.pick(&[8, 10, 12]);
        let f = 2f64.powi(k);
        rowscale7 = f;
        for e in p.A.ents.iter_mut() { e.2 *= f; }
        for v in p.b.iter_mut() { *v *= f; }
        p.settings.tol_feas = *rng.pick(&[1e-4, 1e-5, 1e-6]);
        p.settings.tol_gap_abs = 1e-4; p.settings.tol_gap_rel = 1e-4;
        p.label = format!("{} + rows x2^{}", p.label, k);
    } else if rng.chance(1, 2) { badly_scale(rng, &mut p, 8); }
    p.label = format!("{} + objective x2^{}", p.label, sigma.log2());
    let (n, m) = (p.n(), p.m());
    let mut u = DataUpdate::default();
    // (mode 7: the multipliers live at scale 2^-k, so that q stays moderate)
    let dz: Vec<f64> = concat_interior(rng, &p.cones, true).iter().map(|v| v / rowscale7).collect();
    let dx: Vec<f64> = (0..n).map(|_| small_int(rng, -2, 2)).collect();
    let q_shift = |p: &Problem, a: &SpMat, scale: f64| -> Vec<f64> { let t = a.tmul_vec(&dz); (0..p.n()).map(|j| p.q[j] * scale - sigma * t[j]).collect() };
    let b_shift = |p: &Problem, a: &SpMat| -> Vec<f64> { let t = a.mul_vec(&dx); (0..p.m()).map(|i| p.b[i] + t[i]).collect() };
    match mode {
        0 => { u.q = Some(q_shift(&p, &p.A, *rng.pick(&[1.0, 4.0, 0.25]))); }
        1 => { u.b = Some(b_shift(&p, &p.A)); }
        2 => {
            let f = *rng.pick(&[0.5, 2.0, 3.0]);
            u.p_vals = Some(p.P.ents.iter().map(|e| e.2 * f).collect());
            u.q = Some(q_shift(&p, &p.A, f));
        }
        3 | 4 => {
            // new A values on the same pattern (row factor 2 on some rows of elementwise cones keeps everything planted)
            let mut a2 = p.A.clone();
            let mut rowf = vec![1.0; m];
            let mut i0 = 0;
            for c in &p.cones { for k in 0..c.dim() { if c.elementwise() && rng.chance(1, 2) { rowf[i0 + k] = *rng.pick(&[2.0, 0.5, 4.0]); } } i0 += c.dim(); }
            for e in a2.ents.iter_mut() { e.2 *= rowf[e.0]; }
            u.a_vals = Some(a2.ents.iter().map(|e| e.2).collect());
            let mut pb = p.clone(); for i in 0..m { pb.b[i] *= rowf[i]; }
            u.b = Some(b_shift(&pb, &a2));
            u.q = Some(q_shift(&p, &a2, 1.0));
            if mode == 4 { let f = *rng.pick(&[0.5, 2.0]); u.p_vals = Some(p.P.ents.iter().map(|e| e.2 * f).collect()); }
        }
        5 => {
            // infeasible base: rescale q and b (certificates survive positive rescaling of b / q)
            if rng.chance(1, 2) { u.q = Some(p.q.iter().map(|v| v * 4.0).collect()); }
            if u.q.is_none() || rng.chance(1, 2) { u.b = Some(p.b.iter().map(|v| v * 0.5).collect()); }
        }
        6 => {
            // infeasible base: rows of A and b rescaled (uniform factor, and per-row factors on the
            // elementwise cones): the planted certificate survives with z_i / f_i (resp. s_i f_i)
            let g = *rng.pick(&[2.0, 0.5, 8.0]);
            let mut rowf = vec![g; m];
            let mut i0 = 0;
            for c in &p.cones { for k in 0..c.dim() { if c.elementwise() && rng.chance(1, 2) { rowf[i0 + k] *= *rng.pick(&[2.0, 0.25]); } } i0 += c.dim(); }
            u.a_vals = Some(p.A.ents.iter().map(|e| e.2 * rowf[e.0]).collect());
            u.b = Some((0..m).map(|i| p.b[i] * rowf[i]).collect());
            if rng.chance(1, 2) { u.q = Some(p.q.iter().map(|v| v * 2.0).collect()); }
        }
        _ => {
            u.q = Some(q_shift(&p, &p.A, *rng.pick(&[1.0, 2.0])));
            if rng.chance(1, 2) { u.b = Some(b_shift(&p, &p.A)); }
        }
    }
    if mode == 7 { return (p, u); }
    u.max_iter = match rng.below(3) { 0 => Some(2 + rng.below(4) as u32), 1 => Some(6 + rng.below(8) as u32), _ => None };
    (p, u)
}
/// First solve of `p`, then the in-place updates of `u`, then a re-solve; returns the RE-SOLVE's
/// outcome (`run = "update-refused"` if an update call returned an error).
pub fn run_update(p: &Problem, u: &DataUpdate, watchdog_s: f64) -> Outcome { run_updates(p, std::slice::from_ref(u), watchdog_s) }

/// The user's data after a whole sequence of updates.
pub fn apply_updates(p: &Problem, us: &[DataUpdate]) -> Problem {
    let mut f = p.clone();
    for u in us { let l = f.label.clone(); f = apply_update_model(&f, u).0; f.label = format!("{} ; update_{}", l, u.kinds()); }
    f.label = format!("{} ; re-solve (same solver object, {} updates)", f.label, us.len());
    f
}
/// One solver object: solve, then for every update of `us` in turn: update_P/q/A/b, solve().  Returns the
/// LAST solve's outcome; `history` holds the statuses of all earlier solves.
pub fn run_updates(p: &Problem, us: &[DataUpdate], watchdog_s: f64) -> Outcome {
    let (p, us) = (p.clone(), us.to_vec());
    let (tx, rx) = std::sync::mpsc::channel();
    std::thread::Builder::new().stack_size(64 << 20).spawn(move || {
        let r = guarded(|| {
            let cones: Vec<SupportedConeT<f64>> = p.cones.iter().map(|c| c.to_clarabel()).collect();
            clarabel::verif_hooks::term::reset();
            clarabel::set_infinity(p.settings.infbound);
            let mut solver = DefaultSolver::new(&p.P.to_csc(), &p.q, &p.A.to_csc(), &p.b, &cones, p.settings.to_clarabel());
            clarabel::default_infinity();
            solver.solve();
            let mut history = vec![format!("{:?}", solver.solution.status)];
            let mut results: Vec<bool> = vec![];
            let mut it = 0u32;
            fn mpart(solver: &mut DefaultSolver<f64>, pu: &PartUpd, is_p: bool) -> bool {
                if pu.zip_form {
                    let z = std::iter::zip(pu.idx.iter(), pu.vals.iter());
                    if is_p { solver.update_P(&z).is_ok() } else { solver.update_A(&z).is_ok() }
                } else {
                    let t = (pu.idx.clone(), pu.vals.clone());
                    if is_p { solver.update_P(&t).is_ok() } else { solver.update_A(&t).is_ok() }
                }
            }
            fn vpart(solver: &mut DefaultSolver<f64>, pu: &PartUpd, is_q: bool) -> bool {
                if pu.zip_form {
                    let z = std::iter::zip(pu.idx.iter(), pu.vals.iter());
                    if is_q { solver.update_q(&z).is_ok() } else { solver.update_b(&z).is_ok() }
                } else {
                    let t = (pu.idx.clone(), pu.vals.clone());
                    if is_q { solver.update_q(&t).is_ok() } else { solver.update_b(&t).is_ok() }
                }
            }
            for (k, u) in us.iter().enumerate() {
                if let Some(v) = &u.p_vals { results.push(solver.update_P(v).is_ok()); }
                if let Some(pu) = &u.p_part { results.push(mpart(&mut solver, pu, true)); }
                if let Some(v) = &u.q { results.push(solver.update_q(v).is_ok()); }
                if let Some(pu) = &u.q_part { results.push(vpart(&mut solver, pu, true)); }
                if let Some(v) = &u.a_vals { results.push(solver.update_A(v).is_ok()); }
                if let Some(pu) = &u.a_part { results.push(mpart(&mut solver, pu, false)); }
                if let Some(v) = &u.b { results.push(solver.update_b(v).is_ok()); }
                if let Some(pu) = &u.b_part { results.push(vpart(&mut solver, pu, false)); }
                if let Some(k) = u.max_iter { solver.settings.max_iter = k; }
                clarabel::verif_hooks::term::reset();
                it = solve_counting(&mut solver);
                if k + 1 < us.len() { history.push(format!("{:?}", solver.solution.status)); }
            }
            let mut o = collect(&solver);
            o.history = history;
            o.update_results = results;
            if !us.is_empty() { o.kkt_iterations = Some(it); }
            o
        });
        let _ = tx.send(r);
    }).expect("spawn");
    match rx.recv_timeout(std::time::Duration::from_secs_f64(watchdog_s)) {
        Ok(Some(o)) => o,
        Ok(None) => Outcome { run: "panic".into(), ..Default::default() },
        Err(_) => Outcome { run: "hang".into(), ..Default::default() },
    }
}

/// Feasibility transitions on ONE solver object (presolve off).  Mode (idx % 7):
///  0 feasible -> primal infeasible via update_b        1 feasible -> dual infeasible via update_q
///  2 feasible -> primal infeasible via update_A + update_b
///  3 primal infeasible -> feasible -> primal infeasible (update_b twice)
///  4 dual infeasible -> feasible -> dual infeasible (update_q twice)
///  5 primal infeasible -> feasible (update_b)           6 dual infeasible -> feasible (update_q)
/// The infeasible data come from the planted-certificate generators, the feasible right-hand side /
/// cost from a planted primal (dual) feasible point of the same A (A, P).
pub fn gen_transition_case(rng: &mut Rng, idx: usize, max_size: usize) -> (Problem, Vec<DataUpdate>) {
    let all: [&str; 7] = ["zero", "nn", "soc", "exp", "pow", "genpow", "psd"];
    let sym: [&str; 3] = ["zero", "nn", "soc"];
    let n = 1 + rng.below((max_size / 5).max(2));
    let target_m = 1 + rng.below(2 * n + 2);
    let kinds: &[&str] = if rng.chance(2, 3) { &sym } else { &all };
    let cones = sample_cones(rng, target_m, kinds);
    let mode = idx % 7;
    let primal = matches!(mode, 0 | 2 | 3 | 5);
    let mut inf = if primal { gen_primal_infeasible(rng, n, cones) } else { gen_dual_infeasible(rng, n, cones) };
    inf.settings = sample_settings(rng);
    inf.settings.presolve = false;
    inf.p_full = false;
    let (n, m) = (inf.n(), inf.m());
    // a feasible counterpart of the vector the certificate lives on
    let x0: Vec<f64> = (0..n).map(|_| small_int(rng, -2, 2)).collect();
    let b_feas = |rng: &mut Rng, a: &SpMat, cones: &[ConeK]| -> Vec<f64> { let s0 = concat_interior(rng, cones, false); let ax = a.mul_vec(&x0); (0..m).map(|i| ax[i] + s0[i]).collect() };
    let q_feas = |rng: &mut Rng, p: &Problem| -> Vec<f64> { let z1 = concat_interior(rng, &p.cones, true); let px = p.P.sym_mul_vec(&x0); let t = p.A.tmul_vec(&z1); (0..n).map(|j| -(px[j] + t[j])).collect() };
    let upd_b = |b: Vec<f64>| DataUpdate { b: Some(b), ..Default::default() };
    let upd_q = |q: Vec<f64>| DataUpdate { q: Some(q), ..Default::default() };
    let (base, us) = match mode {
        0 => { let mut base = inf.clone(); base.b = b_feas(rng, &inf.A, &inf.cones); (base, vec![upd_b(inf.b.clone())]) }
        1 => { let mut base = inf.clone(); base.q = q_feas(rng, &inf); (base, vec![upd_q(inf.q.clone())]) }
        2 => {
            // base matrix: the certificate is broken by doubling one row that carries nonzeros (same pattern)
            let mut base = inf.clone();
            let k = inf.A.ents.get(rng.below(inf.A.ents.len().max(1))).map(|e| e.0).unwrap_or(0);
            for e in base.A.ents.iter_mut() { if e.0 == k { e.2 *= 2.0; } }
            base.b = b_feas(rng, &base.A, &inf.cones);
            (base, vec![DataUpdate { a_vals: Some(inf.A.ents.iter().map(|e| e.2).collect()), b: Some(inf.b.clone()), ..Default::default() }])
        }
        3 => { let bf = b_feas(rng, &inf.A, &inf.cones); let b2: Vec<f64> = inf.b.iter().map(|v| v * 2.0).collect(); (inf.clone(), vec![upd_b(bf), upd_b(b2)]) }
        4 => { let qf = q_feas(rng, &inf); let q2: Vec<f64> = inf.q.iter().map(|v| v * 2.0).collect(); (inf.clone(), vec![upd_q(qf), upd_q(q2)]) }
        5 => { let bf = b_feas(rng, &inf.A, &inf.cones); (inf.clone(), vec![upd_b(bf)]) }
        _ => { let qf = q_feas(rng, &inf); (inf.clone(), vec![upd_q(qf)]) }
    };
    let mut base = base;
    base.class = format!("transition{}", mode);
    base.label = format!("transition mode {} from {}", mode, inf.label);
    (base, us)
}

/// REFUSED updates followed by a solve: the solver must still certify the ORIGINAL data.  Mode (drawn from
/// [0,1,0,2,0,3,1,4,0,5][idx % 10]):
///  0,1 presolve active (an infinite bound dropped): update_q (full) / update_b, update_A, update_P, partial forms
///  2 wrong-length q   3 wrong-length b   4 wrong-length P / A value vectors   5 partial update with an
///  out-of-range FIRST index (nothing may be written).  The candidate data are genuinely different (a
///  dual-feasible shift of q, a feasible shift of b, scaled matrices), so a refusal that leaks data changes
///  the solution.
pub fn gen_refused_case(rng: &mut Rng, idx: usize, max_size: usize) -> (Problem, Vec<DataUpdate>) {
    let sym: [&str; 3] = ["zero", "nn", "soc"];
    let all: [&str; 5] = ["zero", "nn", "soc", "exp", "pow"];
    let n = 1 + rng.below((max_size / 5).max(2));
    let tm = 1 + rng.below(2 * n + 2);
    let kinds: &[&str] = if rng.chance(2, 3) { &sym } else { &all };
    let cones = sample_cones(rng, tm, kinds);
    let mode = [0usize, 1, 0, 2, 0, 3, 1, 4, 0, 5][idx % 10];
    let mut p = gen_feasible(rng, n, cones);
    p.settings = sample_settings(rng);
    p.settings.equilibrate = true;
    p.p_full = false;
    if mode <= 1 { p.settings.presolve = true; let k = 1 + rng.below(2); add_inf_bounds(rng, &mut p, k); } else { p.settings.presolve = false; }
    if rng.chance(1, 2) { badly_scale(rng, &mut p, 6); }
    let (n, m) = (p.n(), p.m());
    let dz = concat_interior(rng, &p.cones, true);
    let t = p.A.tmul_vec(&dz);
    let q2: Vec<f64> = (0..n).map(|j| p.q[j] * 3.0 - t[j] + small_int(rng, 1, 3)).collect();
    let dx: Vec<f64> = (0..n).map(|_| small_int(rng, -2, 2)).collect();
    let ax = p.A.mul_vec(&dx);
    let b2: Vec<f64> = (0..m).map(|i| if p.b[i].abs() < 1e19 { p.b[i] + ax[i] + 1.0 } else { p.b[i] }).collect();
    let a2: Vec<f64> = p.A.ents.iter().map(|e| e.2 * 2.0).collect();
    let p2: Vec<f64> = p.P.ents.iter().map(|e| e.2 * 3.0 + 1.0).collect();
    let mut u = DataUpdate::default();
    match mode {
        0 => { u.q = Some(q2); }
        1 => match rng.below(4) {
            0 => { u.b = Some(b2); }
            1 => { u.a_vals = Some(a2); u.q = Some(q2); }
            2 => { u.p_vals = Some(p2); u.q_part = Some(PartUpd { idx: (0..n).collect(), vals: q2, zip_form: rng.chance(1, 2) }); }
            _ => { u.a_part = Some(PartUpd { idx: (0..p.A.ents.len()).rev().collect(), vals: a2.iter().rev().cloned().collect(), zip_form: rng.chance(1, 2) }); u.b_part = Some(PartUpd { idx: (0..m).collect(), vals: b2, zip_form: false }); }
        },
        2 => { let mut v = q2; if rng.chance(1, 2) { v.push(1.0); } else { v.pop(); if v.is_empty() { v = vec![1.0, 2.0]; } } u.q = Some(v); }
        3 => { let mut v = b2; v.push(7.0); u.b = Some(v); }
        4 => { if !p.P.ents.is_empty() && rng.chance(1, 2) { let mut v = p2; v.push(1.0); u.p_vals = Some(v); } else { let mut v = a2; v.push(1.0); u.a_vals = Some(v); } }
        _ => {
            let nz = p.A.ents.len();
            let mut idxs: Vec<usize> = vec![nz + 3]; idxs.extend(0..nz);
            let mut vals = vec![5.0]; vals.extend(a2.iter());
            u.a_part = Some(PartUpd { idx: idxs, vals, zip_form: rng.chance(1, 2) });
            let mut qi: Vec<usize> = vec![n]; qi.extend(0..n);
            let mut qv = vec![1.0]; qv.extend(q2.iter());
            u.q_part = Some(PartUpd { idx: qi, vals: qv, zip_form: rng.chance(1, 2) });
        }
    }
    p.class = format!("refused{}", mode);
    p.label = format!("refused-update mode {} on {}", mode, p.label);
    (p, vec![u])
}

/// PARTIAL (index, value) updates of A and P with index lists that are shuffled, descending or contain
/// repeats (tuple and zip forms), equilibration on, columns of very different magnitude (2^+-10), presolve
/// off; targets: feasible (even idx) and infeasible (odd idx: primal / dual planted certificates).  Half of
/// the lists rewrite the current values (user data unchanged), the others scale whole rows of elementwise
/// cones by 2 or 1/2 together with b (planted structure preserved).
pub fn gen_partial_case(rng: &mut Rng, idx: usize, max_size: usize) -> (Problem, Vec<DataUpdate>) {
    let sym: [&str; 3] = ["zero", "nn", "soc"];
    let n = 2 + rng.below((max_size / 5).max(2));
    let tm = 2 + rng.below(2 * n + 2);
    let cones = sample_cones(rng, tm, &sym);
    let mut p = match idx % 4 { 1 => gen_primal_infeasible(rng, n, cones), 3 => gen_dual_infeasible(rng, n, cones), _ => gen_feasible(rng, n, cones) };
    p.settings = sample_settings(rng);
    p.settings.equilibrate = true;
    p.settings.presolve = false;
    p.p_full = false;
    // columns of very different magnitude: x_j <- x_j / c_j
    let cs: Vec<f64> = (0..p.n()).map(|_| 2f64.powi(*rng.pick(&[-10, -6, 0, 6, 10]))).collect();
    for e in p.A.ents.iter_mut() { e.2 *= cs[e.1]; }
    for e in p.P.ents.iter_mut() { e.2 *= cs[e.0] * cs[e.1]; }
    for j in 0..p.n() { p.q[j] *= cs[j]; }
    let m = p.m();
    let nz = p.A.ents.len();
    let mut order: Vec<usize> = (0..nz).collect();
    match rng.below(3) { 0 => rng.shuffle(&mut order), 1 => order.reverse(), _ => { rng.shuffle(&mut order); let k = order.len() / 2; order.truncate(k.max(1)); } }
    let mut u = DataUpdate::default();
    let mut rowf = vec![1.0; m];
    if rng.chance(1, 2) {
        let mut i0 = 0;
        for c in &p.cones { for k in 0..c.dim() { if c.elementwise() && rng.chance(1, 2) { rowf[i0 + k] = *rng.pick(&[2.0, 0.5]); } } i0 += c.dim(); }
        // rows with a factor must be rewritten completely: append their entries
        for (k, e) in p.A.ents.iter().enumerate() { if rowf[e.0] != 1.0 && !order.contains(&k) { order.push(k); } }
        u.b = Some((0..m).map(|i| p.b[i] * rowf[i]).collect());
    }
    let mut idxs = vec![];
    let mut vals = vec![];
    for &k in &order {
        let e = p.A.ents[k];
        if rng.chance(1, 5) { idxs.push(k); vals.push(e.2 * 17.0 + 3.0); } // a repeat: this first value must be overwritten
        idxs.push(k); vals.push(e.2 * rowf[e.0]);
    }
    if !idxs.is_empty() { u.a_part = Some(PartUpd { idx: idxs, vals, zip_form: rng.chance(1, 2) }); }
    if !p.P.ents.is_empty() && rng.chance(1, 2) {
        let mut po: Vec<usize> = (0..p.P.ents.len()).collect();
        if rng.chance(1, 2) { po.reverse(); } else { rng.shuffle(&mut po); }
        let f = *rng.pick(&[1.0, 2.0]);
        u.p_part = Some(PartUpd { idx: po.clone(), vals: po.iter().map(|k| p.P.ents[*k].2 * f).collect(), zip_form: rng.chance(1, 2) });
    }
    if rng.chance(1, 3) { u.max_iter = Some(3 + rng.below(6) as u32); }
    p.class = format!("partial{}", idx % 4);
    p.label = format!("partial-update on {} + columns x2^+-10", p.label);
    (p, vec![u])
}

// ------------------------------------------------------------------------------------------
// right-hand sides of both signs around the infinity bound (presolve on)
// ------------------------------------------------------------------------------------------
/// Planted feasible problem, presolve ON, whose nonnegative rows carry right-hand sides
/// +-B, +-B/10, +-10B, +-B(1 +- 2^-20) for the bound B in force: the default 1e20 (idx even) or a
/// bound lowered with set_infinity to 1e3..1e6 (idx odd).  Positive specials are ordinary
/// "infinite bound" rows over the existing variables (dropped iff b > (1 - 10 eps) B); every negative
/// special `x_new + s_i = -v, s_i >= 0` gets its own new variable with a unit quadratic cost, so the
/// row is a very tight constraint that must be kept (x_new <= -v, optimum x_new = -v) while the
/// problem without the row is still bounded (x_new = 0).
pub fn gen_infbound_case(rng: &mut Rng, idx: usize) -> Problem {
    let kinds: [&str; 4] = ["zero", "nn", "soc", "exp"];
    let n0 = 1 + rng.below(4);
    let tm = 1 + rng.below(2 * n0 + 1);
    let cones = sample_cones(rng, tm, &kinds);
    let mut p = gen_feasible(rng, n0, cones);
    p.settings = sample_settings(rng);
    p.settings.presolve = true;
    p.p_full = false;
    let bound = if idx % 2 == 0 { 1e20 } else { *rng.pick(&[1e3, 1e4, 1e5, 1e6]) };
    p.settings.infbound = bound;
    let eps20 = 2f64.powi(-20);
    let mags = [1.0, 0.1, 10.0, 1.0 + eps20, 1.0 - eps20];
    let nspec = 2 + rng.below(3);
    let mut specials: Vec<f64> = vec![];
    // always at least one negative and one positive special
    for k in 0..nspec {
        let sign = if k == 0 { -1.0 } else if k == 1 { 1.0 } else if rng.chance(1, 2) { 1.0 } else { -1.0 };
        specials.push(sign * bound * *rng.pick(&mags));
    }
    let nneg = specials.iter().filter(|v| **v < 0.0).count();
    let (m0, n_new) = (p.m(), n0 + nneg);
    let mut a = p.A.dense();
    for row in a.iter_mut() { row.resize(n_new, 0.0); }
    let mut pd = p.P.dense();
    for row in pd.iter_mut() { row.resize(n_new, 0.0); }
    let mut next = n0;
    for v in specials.iter() {
        let mut row = vec![0.0; n_new];
        if *v < 0.0 {
            row[next] = 1.0;
            pd.push({ let mut r = vec![0.0; n_new]; r[next] = 1.0; r });
            p.q.push(0.0);
            next += 1;
        } else {
            for j in 0..n0 { if rng.chance(1, 3) { row[j] = small_int(rng, -2, 2); } }
        }
        a.push(row);
        p.b.push(*v);
    }
    p.A = SpMat::from_dense(&a, m0 + specials.len(), n_new);
    p.P = SpMat::from_dense(&pd, n_new, n_new);
    // the special rows as one nonnegative cone, or merged into a trailing one
    match p.cones.last_mut() {
        Some(ConeK::NN(d)) if rng.chance(1, 2) => { *d += specials.len(); }
        _ => { p.cones.push(ConeK::NN(specials.len())); }
    }
    p.label = format!("planted-feasible + rhs around the bound {:e}: {:?}", bound, specials);
    p.class = "infbound".into();
    p
}
