// synthetic (model comparison) part of C18 -- included by bin/c18.rs
fn cpar(p: usize) -> String {
    if p == vh::NO_PARENT_V { "Root".into() } else if p == vh::INACTIVE_NODE_V { "Dead".into() } else { format!("Par {}", p) }
}
fn cnn(v: &[Vec<usize>]) -> String { format!("{}%N", clist(v, |l| clist(l, |x| format!("{}", x)))) }
fn tree_coq(t: &vh::TreeView) -> String {
    let nblk = t.nblk.clone().unwrap_or_default();
    format!("(mkTree {} {} {}%N {} {} {} {})", cnn(&t.snode), cnn(&t.separators), clist(&t.parent, |p| cpar(*p)),
            cnlist(&t.snode_post), cnlist(&nblk), cnlist(&t.ordering), cn(t.n_cliques))
}
fn cone_coq(c: &SupportedConeT<f64>) -> String {
    match c {
        SupportedConeT::ZeroConeT(d) => format!("CZero {}", d), SupportedConeT::NonnegativeConeT(d) => format!("CNN {}", d),
        SupportedConeT::SecondOrderConeT(d) => format!("CSOC {}", d), SupportedConeT::PSDTriangleConeT(d) => format!("CPSD {}", d),
        _ => "CZero 999999".into(),
    }
}
fn cols_coq(a: &CscMatrix<f64>) -> Option<String> {
    let mut cols = vec![];
    for j in 0..a.n {
        let mut ents = vec![];
        for k in a.colptr[j]..a.colptr[j + 1] { ents.push(format!("({}%N,{})", a.rowval[k], cz(f2i(a.nzval[k])?))); }
        cols.push(format!("[{}]", ents.join(";")));
    }
    Some(format!("[{}]", cols.join(";")))
}

fn emit_synth(sink: &mut CaseSink, st: &mut Stats, p: &Problem, c: &Combo, rng: &mut Rng) {
    // integer data with the same structural pattern
    let mut q = p.clone();
    for row in q.a.iter_mut() { for v in row.iter_mut() { *v = (*v * 4.0).round(); } }
    for v in q.b.iter_mut() { if *v != 0.0 { let k = rng.range(1, 5) as f64; *v = if rng.chance(1, 2) { k } else { -k }; } }
    for v in q.q.iter_mut() { *v = rng.range(-3, 3) as f64; }
    let (pm, am, cones) = q.csc();
    let mut stg = settings(c, true);
    stg.chordal_decomposition_complete_dual = false;
    let inp = json!({"problem": q.json(), "combo": c.json(), "synthetic": true});
    st.bump("synthetic");
    let r = guarded(|| {
        let d = match vh::decompose(&pm, &q.q, &am, &q.b, &cones, &stg) { Some(d) => d, None => return Ok(None) };
        let (m2, n2) = (d.A.m, d.A.n);
        let xs: Vec<f64> = (0..n2).map(|i| ((i * 7 + 3) % 11) as f64 - 5.0).collect();
        let mut r2 = Rng::new(m2 as u64 * 31 + n2 as u64);
        let ss: Vec<f64> = (0..m2).map(|_| r2.range(-9, 9) as f64).collect();
        let zs: Vec<f64> = (0..m2).map(|_| 27720.0 * r2.range(-4, 4) as f64).collect();
        let (xr, sr, zr) = d.reverse(&xs, &ss, &zs, &stg);
        let (n0, m0) = d.init_dims();
        if xr.len() != n0 || xr[..] != xs[0..n0] { return Err("x not restored"); }
        let trees = clist(&d.patterns(), |t| format!("({}%N,{})", t.orig_index, tree_coq(t)));
        let conesq = format!("[{}]", q.cones.iter().map(|c| c.coq()).collect::<Vec<_>>().join(";"));
        let cones2 = format!("[{}]", d.cones.iter().map(cone_coq).collect::<Vec<_>>().join(";"));
        let acols = cols_coq(&am).ok_or("non-integer A")?;
        let a2 = cols_coq(&d.A).ok_or("non-integer augmented A")?;
        let bz = czlist(&f2i_vec(&q.b).ok_or("non-integer b")?);
        let b2 = czlist(&f2i_vec(&d.b).ok_or("non-integer augmented b")?);
        let srz = czlist(&f2i_vec(&sr).ok_or("non-integer reversed s")?);
        let zrz = czlist(&f2i_vec(&zr).ok_or("non-integer reversed z")?);
        let coq = if !c.compact {
            let h = d.H().ok_or("no H in standard form")?;
            if h.m != m0 { return Err("H row count"); }
            let mut hi = vec![];
            for j in 0..h.n { if h.colptr[j + 1] - h.colptr[j] != 1 || h.nzval[h.colptr[j]] != 1.0 { return Err("H column is not a unit vector"); } hi.push(h.rowval[h.colptr[j]]); }
            format!("(c18_std {} {} {} {} {} {} {} {} {} {} {} {})", conesq, trees, acols, bz, cnlist(&hi), a2, b2, cones2,
                    czlist(&f2i_vec(&ss[m0..]).unwrap()), czlist(&f2i_vec(&zs[m0..]).unwrap()), srz, zrz)
        } else {
            let maps = d.cone_maps().ok_or("no cone maps in compact form")?;
            let mq = clist(&maps, |e| format!("({}%N,{})", e.0, match e.1 { Some((a, b)) => format!("Some ({}%N,{}%N)", a, b), None => "None".into() }));
            format!("(c18_cmp {} {} {} {} {} {} {} {} {} {} {} {})", conesq, trees, acols, bz, mq, a2, b2, cones2,
                    czlist(&f2i_vec(&ss).unwrap()), czlist(&f2i_vec(&zs).unwrap()), srz, zrz)
        };
        Ok(Some(coq))
    });
    match r {
        Some(Ok(Some(coq))) => { st.bump(if c.compact { "synthetic:compact" } else { "synthetic:standard" }); sink.case("synth", inp, coq, &["synthetic"]); }
        Some(Ok(None)) => { st.bump("synthetic:not_decomposed"); }
        Some(Err(e)) => { st.bump("synthetic:malformed"); sink.case("synth", inp, "39%N".into(), &["synthetic", e]); }
        None => { st.bump("synthetic:panic"); sink.case("synth", inp, "20%N".into(), &["synthetic", "panic"]); }
    }
}
