//! Signature-agnostic trampolines: `dgemm_` -> `scipy_dgemm_` etc. (LP64 OpenBLAS from scipy).
#[cfg(all(blas_shim, target_arch = "x86_64"))]
macro_rules! tramp {
    ($($name:literal),*) => { $( std::arch::global_asm!(
        concat!(".globl ", $name, "_\n", $name, "_:\n", "    jmp scipy_", $name, "_@PLT\n")); )* };
}
#[cfg(all(blas_shim, target_arch = "x86_64"))]
tramp!("dsyevr","dpotrf","dpotrs","dgesdd","dgesvd","dgemm","dgemv","dsymv","dsyrk","dsyr2k","dgesv",
       "ssyevr","spotrf","spotrs","sgesdd","sgesvd","sgemm","sgemv","ssymv","ssyrk","ssyr2k","sgesv");

#[cfg(not(all(blas_shim, target_arch = "x86_64")))]
macro_rules! stub {
    ($($name:ident),*) => { $( #[no_mangle] pub extern "C" fn $name() { panic!("BLAS shim unavailable"); } )* };
}
#[cfg(not(all(blas_shim, target_arch = "x86_64")))]
stub!(dsyevr_,dpotrf_,dpotrs_,dgesdd_,dgesvd_,dgemm_,dgemv_,dsymv_,dsyrk_,dsyr2k_,dgesv_,
      ssyevr_,spotrf_,spotrs_,sgesdd_,sgesvd_,sgemm_,sgemv_,ssymv_,ssyrk_,ssyr2k_,sgesv_);

pub const AVAILABLE: bool = cfg!(all(blas_shim, target_arch = "x86_64"));
