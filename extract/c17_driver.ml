(* Reads one case per line (integers separated by blanks, format written by
   `c17 --ex7 SHARD NSHARDS`), runs the extracted checker C17chk.c17_case on each of the three
   strategy outcomes, prints `FAIL <bits> <strategy> <code>` for every non-zero code and a final
   `DONE <cases> <fails>` line. *)
open C17chk
let rec pos_of_int k = if k = 1 then XH else if k land 1 = 0 then XO (pos_of_int (k lsr 1)) else XI (pos_of_int (k lsr 1))
let n_of_int k = if k = 0 then N0 else Npos (pos_of_int k)
let rec int_of_pos = function XH -> 1 | XO p -> 2 * int_of_pos p | XI p -> 2 * int_of_pos p + 1
let int_of_n = function N0 -> 0 | Npos p -> int_of_pos p
let () =
  let cases = ref 0 and fails = ref 0 in
  (try
    while true do
      let line = input_line stdin in
      let toks = Array.of_list (List.filter (fun s -> s <> "") (String.split_on_char ' ' line)) in
      let pos = ref 0 in
      let next () = let v = int_of_string toks.(!pos) in incr pos; v in
      let nlist () = let k = next () in List.init k (fun _ -> n_of_int (next ())) in
      let nnlist () = let k = next () in List.init k (fun _ -> nlist ()) in
      let bits = next () in
      let n = next () in
      let ne = next () in
      let edges = List.init ne (fun _ -> let a = next () in let b = next () in (n_of_int a, n_of_int b)) in
      let p = { pn = n_of_int n; pedges = edges } in
      for strat = 0 to 2 do
        let tag = next () in
        let o =
          if tag = 0 then begin
            let snode = nnlist () in
            let sep = nnlist () in
            let k = next () in
            let parent = List.init k (fun _ -> let v = next () in if v = -1 then Root else if v = -2 then Dead else Par (n_of_int v)) in
            let post = nlist () in
            let nblk = nlist () in
            let ordering = nlist () in
            let ncl = n_of_int (next ()) in
            Decomposed { snode = snode; sep = sep; parent = parent; post = post; nblk = nblk; ordering = ordering; ncl = ncl }
          end else if tag = 1 then Undecomposed (n_of_int (next ()))
          else if tag = 2 then Crashed else Hung in
        let code = int_of_n (c17_case p o) in
        incr cases;
        if code <> 0 then begin incr fails; Printf.printf "FAIL %d %d %d %d\n" n bits strat code end
      done
    done
  with End_of_file -> ());
  Printf.printf "DONE %d %d\n" !cases !fails
