(* Extraction of the proved checker (Chordal/TreeSpec.check_tree through Check.c17_case) to
   OCaml, with ExtrOcamlBasic only: N, positive, nat stay the extracted Coq datatypes. *)
Require Import ExtrOcamlBasic.
Require Import Clarabel.Chordal.TreeSpec Clarabel.Chordal.Check.
Extraction "c17chk.ml" c17_case.
