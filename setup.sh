#!/bin/sh
# Offline setup after a fresh restore: build the whole Coq development (full .vo build) and
# every Rust harness binary (against the repository, hooks on).  Everything lives under /verif.
cd "$(dirname "$0")"
export CARGO_NET_OFFLINE=true
mkdir -p work evidence .build
( cd coq && rm -f _CoqProject Makefile Makefile.conf && timeout 7000 ./mk.sh -k ) || echo "setup: some Coq files failed to build (the per-property checks will report it)"
cd harness
bins="vharness $(ls src/bin 2>/dev/null | sed -n 's/\.rs$//p')"
for b in $bins; do
  RUSTFLAGS="--cfg clarabel_verif" timeout 3000 cargo build --offline --bin "$b" || echo "setup: harness binary $b failed to build (its check will report it)"
done
exit 0
