#!/bin/sh
# Offline setup after a fresh restore: build the whole Coq development (full .vo build) and
# the Rust harness (against /repo, hooks on).  Everything lives under /verif.
set -e
cd "$(dirname "$0")"
export CARGO_NET_OFFLINE=true
mkdir -p work evidence .build
( cd coq && rm -f _CoqProject Makefile Makefile.conf && timeout 7000 ./mk.sh -k ) || echo "setup: some Coq files failed to build (the per-property checks will report it)"
( cd harness && RUSTFLAGS="--cfg clarabel_verif" timeout 3000 cargo build --offline --bins ) || echo "setup: harness build failed (the checks will report it)"
