#!/usr/bin/env python3
"""Maintainer tool (never run by a check): seeded property-breaking edits of the anchored Rust code for
C01-C03: applies one at a time in the repository worktree next to this framework copy, runs the named
checks, reverts with `git checkout -- .`.  Usage: tools/seed_term.py [E1 E2 ...]"""
import subprocess, sys, os, time
V=os.path.dirname(os.path.dirname(os.path.abspath(__file__))); REPO=os.path.join(os.path.dirname(V),'repo')
D='src/solver/implementations/default/'
EDITS = [
 ("E1 is_solved && -> ||", D+"info.rs", "            && (self.res_primal < tol_feas)\n", "            || (self.res_primal < tol_feas)\n", ["C01","C03"]),
 ("E2 res_primal missing /tau", D+"info.rs", "residuals.rz.norm_scaled(einv) * τinv / T::max(T::one(), normb + normx + norms);", "residuals.rz.norm_scaled(einv) / T::max(T::one(), normb + normx + norms);", ["C01","C03"]),
 ("E3 unscale x with dinv", D+"variables.rs", "self.x.hadamard(d).scale(scaleinv);", "self.x.hadamard(&data.equilibration.dinv).scale(scaleinv);", ["C01","C02","C03"]),
 ("E4 z not divided by c", D+"variables.rs", "self.z.hadamard(e).scale(scaleinv * cinv);", "self.z.hadamard(e).scale(scaleinv);", ["C01","C02","C03"]),
 ("E5 gap tolerances swapped", D+"info.rs", "        let tol_gap_abs = settings.tol_gap_abs;\n        let tol_gap_rel = settings.tol_gap_rel;\n        let tol_feas = settings.tol_feas;", "        let tol_gap_abs = settings.tol_gap_rel;\n        let tol_gap_rel = settings.tol_gap_abs;\n        let tol_feas = settings.tol_feas;", ["C01","C03"]),
 ("E5b res_dual normalised with normb", D+"info.rs", "* cinv / T::max(T::one(), normq + normx + normz);", "* cinv / T::max(T::one(), normb + normx + normz);", ["C01","C03"]),
 ("E6 kappa/tau normalisation mixed up", D+"variables.rs", "            if is_infeasible {\n                T::recip(self.κ)\n            } else {\n                T::recip(self.τ)\n            }", "            if is_infeasible {\n                T::recip(self.τ)\n            } else {\n                T::recip(self.κ)\n            }", ["C01","C02","C03"]),
 ("E7 NaN objectives not set", "src/solver/implementations/default/solution.rs", "            self.obj_val = T::nan();\n            self.obj_val_dual = T::nan();", "            self.obj_val = info.cost_primal;\n            self.obj_val_dual = info.cost_dual;", ["C02","C03"]),
 ("E8 res_primal_inf missing /c", D+"info.rs", "self.res_primal_inf = (residuals.rx_inf.norm_scaled(dinv) * cinv) / T::max(T::one(), normz);", "self.res_primal_inf = (residuals.rx_inf.norm_scaled(dinv)) / T::max(T::one(), normz * T::epsilon());", ["C02"]),
 ("E9 is_primal_infeasible sign of tol_abs", D+"info.rs", "(residuals.dot_bz < -tol_infeas_abs)\n            && (self.res_primal_inf", "(residuals.dot_bz < tol_infeas_abs)\n            || (self.res_primal_inf", ["C02","C03"]),
 ("E10 cost_dual sign of xPx", D+"info.rs", "self.cost_dual = (-residuals.dot_bz * τinv - xPx_τinvsq_over2) * cinv;", "self.cost_dual = (-residuals.dot_bz * τinv + xPx_τinvsq_over2) * cinv;", ["C01","C03"]),
 ("E11 reverse_presolve copies s into z", D+"presolver.rs", "                solution.z[idx] = variables.z[ctr];", "                solution.z[idx] = variables.s[ctr];", ["C01","C03"]),
 ("E11b reverse_presolve dropped rows get z=infbound", D+"presolver.rs", "                solution.z[idx] = T::zero();", "                solution.z[idx] = self.infbound.as_T();", ["C01","C03"]),
 ("E12 almost thresholds x1000", D+"info.rs", "        let tol_feas = settings.reduced_tol_feas;", "        let tol_feas = settings.reduced_tol_feas * (1000.0).as_T();", ["C03"]),
 ("E13 r_prim copied from prev", "src/solver/implementations/default/solution.rs", "        self.r_prim = info.res_primal;", "        self.r_prim = info.prev_res_primal;", ["C03"]),
 ("E14 cost_primal missing /c", D+"info.rs", "self.cost_primal = (residuals.dot_qx * τinv + xPx_τinvsq_over2) * cinv;", "self.cost_primal = residuals.dot_qx * τinv + xPx_τinvsq_over2;", ["C01","C03"]),
 ("E16 gap_rel uses max instead of min", D+"info.rs", "                T::min(T::abs(self.cost_primal), T::abs(self.cost_dual)),", "                T::max(T::abs(self.cost_primal), T::abs(self.cost_dual)),", ["C01","C03"]),
 ("E17 ktratio factor 1000 -> 100", D+"info.rs", "tol_ktratio.recip() * (1000.0).as_T()", "tol_ktratio.recip() * (100.0).as_T()", ["C02","C03"]),
 ("E18 almost uses full infeas_rel", D+"info.rs", "        let tol_infeas_rel = settings.reduced_tol_infeas_rel;", "        let tol_infeas_rel = settings.reduced_tol_infeas_rel * (10.0).as_T();", ["C03"]),
 ("E19 solved requires ktratio<=1 dropped", D+"info.rs", "if self.ktratio <= T::one() && self.is_solved(tol_gap_abs, tol_gap_rel, tol_feas) {", "if self.is_solved(tol_gap_abs, tol_gap_rel, tol_feas) {", ["C01","C03"]),
 ("E20 unscale s with e instead of einv", D+"variables.rs", "self.s.hadamard(einv).scale(scaleinv);", "self.s.hadamard(e).scale(scaleinv);", ["C01","C02"]),
 ("E21 res_primal_inf divided by c twice", D+"info.rs", "self.res_primal_inf = (residuals.rx_inf.norm_scaled(dinv) * cinv) / T::max(T::one(), normz);", "self.res_primal_inf = (residuals.rx_inf.norm_scaled(dinv) * cinv * cinv * cinv) / T::max(T::one(), normz);", ["C02"]),
 ("E22 get_normq recompute drops * cinv", D+"problemdata.rs", "let norm = self.q.norm_inf_scaled(dinv) * cinv;", "let norm = self.q.norm_inf_scaled(dinv);", ["C03","C01"]),
 ("E23 get_normb recompute drops einv", D+"problemdata.rs", "let norm = self.b.norm_inf_scaled(einv);", "let norm = self.b.norm_inf();", ["C03","C01"]),
 ("E24 update_b forgets clear_normb", D+"data_updating.rs", "        self.data.clear_normb();\n", "", ["C03"]),
 ("E25 update_vector forgets to re-apply the equilibration", D+"data_updating.rs", "        //reapply original equilibration\n        v.hadamard(vscale);\n", "", ["C01","C02","C03"]),
 ("E26 update_matrix forgets to re-apply the equilibration", D+"data_updating.rs", "        // reapply original equilibration\n        M.lrscale(lscale, rscale);\n", "", ["C01","C02","C03"]),
 ("E27 update_q forgets the cost scaling c", D+"data_updating.rs", "data.update_vector(&mut self.data.q, d, Some(c))?;", "data.update_vector(&mut self.data.q, d, None)?;", ["C01","C02","C03"]),
 ("E28 poor-progress test starts at iter > 3", D+"info.rs", "            && iter > 1u32\n", "            && iter > 3u32\n", ["C03"]),
 ("E29 divergence factor 100 -> 10 on prev_res_dual", D+"info.rs", "&& self.res_dual > self.prev_res_dual * (100.).as_T())", "&& self.res_dual > self.prev_res_dual * (10.).as_T())", ["C03"]),
 ("E15 dual-infeasible test uses Px norm over normz", D+"info.rs", "residuals.Px.norm_scaled(dinv) / T::max(T::one(), normx),", "residuals.Px.norm_scaled(dinv) * cinv * cinv / T::max(T::one(), normx * (1e6).as_T()),", ["C02"]),
]
def sh(cmd, cwd=None):
    return subprocess.run(cmd, shell=True, cwd=cwd, capture_output=True, text=True)
only = sys.argv[1:]
for name, f, old, new, checks in EDITS:
    if only and not any(name.startswith(o+" ") for o in only): continue
    sh("git checkout -- .", REPO)
    p = os.path.join(REPO, f); s = open(p).read()
    if old not in s:
        print("### %s: PATTERN NOT FOUND" % name, flush=True); continue
    open(p, "w").write(s.replace(old, new, 1))
    res = []
    for c in checks:
        t = time.time()
        r = sh("./check %s" % c, V)
        lines = [l for l in r.stdout.splitlines() if l.startswith(("VIOLATION", "KNOWN")) or "OK:" in l or "harness build rc" in l]
        res.append("%s rc=%d %.0fs %s" % (c, r.returncode, time.time() - t, " | ".join(l[-150:] for l in lines[-3:])))
    sh("git checkout -- .", REPO)
    print("### %s\n    %s" % (name, "\n    ".join(res)), flush=True)
print("### done", flush=True)
