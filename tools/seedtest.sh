#!/bin/sh
# tools/seedtest.sh <patch.diff> <ID> [<ID>...] : apply a seeded change to /repo, run the
# named checks (quick tier), revert.  Prints one line per check: CAUGHT / MISSED.
p=$(readlink -f "$1"); shift
cd /verif
git -C /repo diff --quiet || { echo "repo not clean"; exit 2; }
git -C /repo apply "$p" || { echo "patch does not apply"; exit 2; }
for id in "$@"; do
  out=$(./check "$id" --tier quick 2>&1); rc=$?
  if [ $rc -ne 0 ] && echo "$out" | grep -q "^VIOLATION property=$id"; then
    echo "$id CAUGHT: $(echo "$out" | grep '^VIOLATION' | head -1)"
  else
    echo "$id MISSED (rc=$rc): $(echo "$out" | tail -1 | cut -c1-150)"
  fi
done
git -C /repo checkout -- .
git -C /repo status --short | grep -v '^??' | head -3
