#!/bin/sh
# tools/rmws.sh <name> : remove a builder workspace (worktree, branch kept until merged)
n="$1"; w=/tmp/w/$n
git -C /repo worktree remove --force "$w/repo" 2>/dev/null
rm -rf "$w"
git -C /repo worktree prune
