#!/bin/sh
# tools/merge.sh <ws-name> : copy a builder workspace's deliverables into /verif.
# Shared files (vp/core.py, vp/standard.py, harness/src/common.rs, Base/*, check, setup.sh ...)
# are never copied: differences are listed for manual review.
n="$1"; w=/tmp/w/$n/verif
[ -d "$w" ] || { echo "no workspace $w"; exit 1; }
cd /verif
echo "== shared files changed in the workspace (manual review):"
for f in vp/core.py vp/standard.py vp/skel_common.py harness/src/common.rs harness/src/blas_shim.rs harness/src/main.rs harness/src/c16.rs harness/src/smallgen.rs harness/Cargo.toml harness/build.rs check setup.sh coq/mk.sh coq/theories/Base/Ops.v coq/theories/Base/Dyadic.v BUILDING.md; do
  if [ -f "$w/$f" ] && ! cmp -s "$w/$f" "/verif/$f"; then echo "   DIFF $f"; fi
done
echo "== copying"
rsync -a -u --include '*/' --include '*.v' --exclude '*' --exclude 'Base/' "$w/coq/theories/" /verif/coq/theories/ --exclude 'Base/**' -i | grep '^>' | sed 's/^/   /'
rsync -a -u -i "$w/harness/src/bin/" /verif/harness/src/bin/ | grep '^>' | sed 's/^/   /'
for f in "$w"/harness/src/*.rs; do b=$(basename "$f"); case "$b" in common.rs|blas_shim.rs|main.rs|c16.rs|smallgen.rs) ;; *) cp -uv "$f" /verif/harness/src/ | sed 's/^/   /';; esac; done
for f in "$w"/vp/*.py; do b=$(basename "$f"); case "$b" in core.py|standard.py|skel_common.py|__init__.py|c16.py|c04.py|c07.py|c20.py|c06.py|c05.py) ;; *) cp -uv "$f" /verif/vp/ | sed 's/^/   /';; esac; done
rsync -a -u -i "$w/vp/pins/" /verif/vp/pins/ | grep '^>' | sed 's/^/   /'
for d in manifest.d known_findings.d design.d corpus; do [ -d "$w/$d" ] && rsync -a -u -i --exclude '_header.json' --exclude 'C16.json' --exclude 'C04.json' --exclude 'C07.json' --exclude 'C20.json' --exclude 'C06.json' --exclude 'C05.json' "$w/$d/" /verif/$d/ | grep '^>' | sed 's/^/   /'; done
echo "== repo commits on ws-$n:"
git -C /repo log --oneline main..ws-$n
# owned areas are copied by content (a global `touch` in /verif must not hide a builder's edit)
case "$n" in
  c0103) own="Term Props/C01.v Props/C02.v Props/C03.v";;
  c08) own="Update Props/C08.v";; c09) own="Presolve Props/C09.v";; c10) own="Equil Props/C10.v";;
  c11) own="Kkt Props/C11.v";; c12) own="Qdldl Props/C12.v";; c1315) own="Cones Props/C13.v Props/C15.v Props/C07_cones.v";;
  c14) own="Nonsym Props/C14.v";; c16x) own="Csc Props/C16.v";; c1718) own="Chordal Props/C17.v Props/C18.v";;
  c19) own="Json Props/C19.v";; *) own="";;
esac
for o in $own; do
  if [ -d "$w/coq/theories/$o" ]; then rsync -a -c -i --include '*.v' --include '*/' --exclude '*' "$w/coq/theories/$o/" "/verif/coq/theories/$o/" | grep '^>' | sed 's/^/   own /'
  elif [ -f "$w/coq/theories/$o" ]; then rsync -a -c -i "$w/coq/theories/$o" "/verif/coq/theories/$o" | grep '^>' | sed 's/^/   own /'; fi
done
