#!/usr/bin/env python3
"""Assembles MANIFEST.json and known_findings.json from the per-property fragments
manifest.d/<ID>.json and known_findings.d/<ID>.json (maintainer tool; never run by a check)."""
import glob, json, os, subprocess
V = os.path.dirname(os.path.dirname(os.path.abspath(__file__)))
props = [json.loads(l)["id"] for l in open(os.path.join(V, "properties.jsonl"))]
checks, served, na = [], [], []
hdr = json.load(open(os.path.join(V, "manifest.d", "_header.json")))
for pid in props:
    f = os.path.join(V, "manifest.d", pid + ".json")
    if os.path.exists(f):
        frag = json.load(open(f))
        if "check" in frag:
            c = frag["check"]
            c.setdefault("property_id", pid)
            c.setdefault("quick_cmd", "./check %s --tier quick" % pid)
            c.setdefault("thorough_cmd", "./check %s --tier thorough" % pid)
            c.setdefault("evidence_file", "/verif/evidence/%s.json" % pid)
            c.setdefault("replay_cmd_template", "./check %s --replay {path}" % pid)
            c.setdefault("engine", "coq-model+correspondence")
            checks.append(c); served.append(pid)
            continue
        na.append({"property_id": pid, "reason": frag["not_applicable"]})
    else:
        na.append({"property_id": pid, "reason": "check not built yet (planned, see DESIGN.md section 7); not claimed"})
hdr["engines"][0]["serves_properties"] = served
hdr["checks"] = checks
hdr["not_applicable"] = na
try:
    log = subprocess.run(["git", "-C", os.path.join(os.path.dirname(V), "repo"), "log", "--format=%h %s"], capture_output=True, text=True).stdout
    hdr["hooks"]["source_commits"] = [l.split()[0] for l in log.splitlines() if l.split(" ", 1)[1].startswith("verif hooks")][::-1]
except Exception:
    pass
json.dump(hdr, open(os.path.join(V, "MANIFEST.json"), "w"), indent=1)
fs = []
for f in sorted(glob.glob(os.path.join(V, "known_findings.d", "*.json"))):
    fs.extend(json.load(open(f)).get("findings", []))
json.dump({"findings": fs}, open(os.path.join(V, "known_findings.json"), "w"), indent=1)
print("checks:", served, " not claimed:", [x["property_id"] for x in na])
