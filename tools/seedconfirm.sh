#!/bin/sh
# tools/seedconfirm.sh <worktree-dir> : confirm a seeded change produced in a scratch worktree:
#  (1) with the patch the existing suite passes, (2) the demo fails with the patch,
#  (3) the demo passes without it.  Prints CONFIRMED / NOT-CONFIRMED with reasons.
d="$1"; cd "$d" || exit 2
git checkout -q -- src ; rm -f tests/demo.rs
kind=$(python3 -c "import json;print(json.load(open('out/meta.json')).get('demo_kind','integration'))" 2>/dev/null || echo integration)
git apply out/patch.diff || { echo "NOT-CONFIRMED: patch does not apply"; exit 1; }
t1=$(cargo test --offline 2>&1 | grep -E "^test result" | awk '{p+=$4; f+=$6} END {print p" passed "f" failed"}')
run_sdp_demo() {  # prints a cargo-test-like result line for the sdp_demo binary
  cp out/demo_main.rs sdp_demo/src/main.rs
  if (cd sdp_demo && timeout 1200 cargo run --offline >/dev/null 2>&1); then echo "test result: ok. (sdp_demo exit 0)"; else echo "test result: FAILED. (sdp_demo exit non-zero)"; fi
}
place_demo() {
  case "$kind" in
    sdp_demo) demo_cmd="run_sdp_demo";;
    unit:*) f=${kind#unit:}; cat out/demo_unit.rs >> "$f"; demo_cmd="cargo test --offline --lib verif_demo";;
    *) cp out/demo.rs tests/demo.rs; demo_cmd="cargo test --offline --test demo";;
  esac
}
place_demo
r1=$($demo_cmd 2>&1 | grep -E "^test result" | tail -1)
git checkout -q -- src ; rm -f tests/demo.rs
place_demo
r2=$($demo_cmd 2>&1 | grep -E "^test result" | tail -1)
git checkout -q -- src ; rm -f tests/demo.rs
echo "existing suite with patch: $t1"
echo "demo with patch:    $r1"
echo "demo without patch: $r2"
case "$t1" in *" 0 failed") a=1;; *) a=0;; esac
case "$r1" in *FAILED*) b=1;; *) b=0;; esac
case "$r2" in *"ok."*) c=1;; *) c=0;; esac
if [ $a = 1 ] && [ $b = 1 ] && [ $c = 1 ]; then echo CONFIRMED; else echo "NOT-CONFIRMED ($a $b $c)"; fi
