#!/bin/sh
# tools/refreshws.sh <name> : bring an existing builder workspace up to date with /verif and
# /repo main (after its deliverables have been merged): the verif copy is re-synced (build
# caches kept), the repo worktree branch is moved to main.
set -e
n="$1"; w=/tmp/w/$n
[ -d "$w" ] || exec /verif/tools/mkws.sh "$n"
git -C "$w/repo" checkout -q -- . 2>/dev/null || true
git -C "$w/repo" checkout -q -B "ws-$n" main
rsync -a --exclude .git --exclude work --exclude .build --exclude evidence /verif/ "$w/verif/"
echo "$w refreshed"
