#!/usr/bin/env python3
"""Regenerates the seeded-changes table of DESIGN.md (section 8.5) from seeded/*/meta.json."""
import json, os, re
V = os.path.dirname(os.path.dirname(os.path.abspath(__file__)))
rows = ["| id | breaks | change (one line) | needs to manifest | caught by | note |", "|---|---|---|---|---|---|"]
for d in sorted(os.listdir(os.path.join(V, "seeded"))):
    mp = os.path.join(V, "seeded", d, "meta.json")
    if not os.path.exists(mp):
        continue
    m = json.load(open(mp))
    res = m.get("check_results", [])
    caught = [r.split()[0] for r in res if " CAUGHT" in r]
    missed = [r.split()[0] for r in res if " MISSED" in r]
    def one(s):
        return " ".join(str(s).split()).replace("|", "/")[:180]
    note = m.get("strengthening", "")
    rows.append("| %s | %s | %s | %s | %s | %s |" % (d, m.get("breaks_property", ""), one(m.get("summary", "")), one(m.get("needs_to_manifest", "")),
                ", ".join(caught) + ((" (missed by " + ", ".join(missed) + ")") if missed else ""), one(note)))
# axioms per check, from the evidence files written by the last runs
ax_rows = ["| check | theorems (discharged / obligations) | axioms reported by Print Assumptions |", "|---|---|---|"]
for f in sorted(os.listdir(os.path.join(V, "evidence"))):
    try:
        e = json.load(open(os.path.join(V, "evidence", f)))
    except Exception:
        continue
    c = e.get("coverage", {})
    ax = c.get("axioms_reported_by_Print_Assumptions", [])
    ax_rows.append("| %s | %s / %s | %s |" % (e.get("property_id"), c.get("discharged"), c.get("obligations"), ", ".join("`%s`" % a for a in ax) if ax else "none (closed under the global context)"))
p = os.path.join(V, "DESIGN.md")
s = open(p).read()
s = re.sub(r"<!-- AXIOMS-TABLE-BEGIN -->.*<!-- AXIOMS-TABLE-END -->", "<!-- AXIOMS-TABLE-BEGIN -->\n" + "\n".join(ax_rows) + "\n<!-- AXIOMS-TABLE-END -->", s, flags=re.S)
s = re.sub(r"<!-- SEEDED-TABLE-BEGIN -->.*<!-- SEEDED-TABLE-END -->", "<!-- SEEDED-TABLE-BEGIN -->\n" + "\n".join(rows) + "\n<!-- SEEDED-TABLE-END -->", s, flags=re.S)
open(p, "w").write(s)
print(len(rows) - 2, "seeded changes listed")
