#!/bin/sh
# tools/mkws.sh <name> : private workspace /tmp/w/<name>/{repo,verif} for one builder.
#   repo  = git worktree of /repo on branch ws-<name>   (hook / fix commits go there)
#   verif = copy of /verif (with compiled .vo files and the cargo cache); all paths inside
#           are relative, so ./check there runs against the sibling repo worktree.
set -e
n="$1"; [ -n "$n" ] || { echo "usage: mkws.sh <name>"; exit 2; }
w=/tmp/w/$n
mkdir -p /tmp/w
[ -e "$w" ] && { echo "$w exists"; exit 1; }
mkdir -p "$w"
git -C /repo worktree add -q -B "ws-$n" "$w/repo" main
rsync -a --exclude .git --exclude work --exclude .build --exclude evidence /verif/ "$w/verif/"
mkdir -p "$w/verif/work" "$w/verif/evidence" "$w/verif/.build"
cp -r /verif/.build/target "$w/verif/.build/target" 2>/dev/null || true
echo "$w"
