#!/bin/sh
# tools/seedbatch.sh <ID-k> ... : confirm each seeded change in its scratch worktree /tmp/m/<ID-k>,
# run the target property's check against it on /repo, store everything under /verif/seeded/<ID-k>/
for tag in "$@"; do
  d=/tmp/m/$tag; id=${tag%-*}
  [ -f $d/out/patch.diff ] || { echo "$tag: no patch"; continue; }
  conf=$(/verif/tools/seedconfirm.sh $d 2>&1 | tail -4)
  verdict=$(echo "$conf" | tail -1)
  res=$(/verif/tools/seedtest.sh $d/out/patch.diff $id 2>&1 | tail -2)
  mkdir -p /verif/seeded/$tag
  cp $d/out/patch.diff /verif/seeded/$tag/
  for f in demo.rs demo_unit.rs; do [ -f $d/out/$f ] && cp $d/out/$f /verif/seeded/$tag/; done
  python3 - "$tag" "$id" "$d" "$conf" "$res" <<'PY'
import json,sys
tag,id_,d,conf,res=sys.argv[1:6]
try: m=json.load(open(d+'/out/meta.json'))
except Exception: m={}
m.update({"breaks_property":id_,"confirmation":conf.splitlines(),"confirmed":conf.strip().endswith("CONFIRMED") and "NOT-CONFIRMED" not in conf,
 "what_was_run":["tools/seedconfirm.sh (existing suite with patch; demo with and without patch, in a scratch worktree)","tools/seedtest.sh patch.diff %s (quick tier on /repo with the patch applied, reverted afterwards)"%id_],
 "check_results":res.splitlines()})
json.dump(m,open('/verif/seeded/%s/meta.json'%tag,'w'),indent=1)
PY
  echo "== $tag: $verdict | $res" | cut -c1-260
done
