#!/usr/bin/env python3
"""Maintainer tool (never run by a check): regenerates coq/theories/Props/C01.v, C02.v, C03.v as
`Theorem name : <statement printed by Check>. Proof. exact @lemma. Qed.` from the lemma names listed below.
Stages the files in work/stage_Cxx.v; copy them to coq/theories/Props/ and run ./check Cxx --update-pins."""
import subprocess, re, sys, os
V=os.path.dirname(os.path.dirname(os.path.abspath(__file__)))
COQ=os.path.join(V,'coq')
os.makedirs(os.path.join(V,'work'),exist_ok=True)
IMPORTS="""From Coq Require Import List ZArith NArith Reals Bool.
Import ListNotations.
Require Import Clarabel.Base.Ops Clarabel.Base.Dyadic Clarabel.Term.Eval Clarabel.Term.Model
        Clarabel.Term.Spec Clarabel.Term.Check.
Require Import Clarabel.Term.LemmasVerdict Clarabel.Term.LemmasCheck Clarabel.Term.LemmasCheck2
        Clarabel.Term.LemmasExp Clarabel.Term.LemmasPsd Clarabel.Term.LemmasFinal
        Clarabel.Term.LemmasAlg Clarabel.Term.Farkas Clarabel.Term.LemmasMisc
        Clarabel.Term.FarkasGen Clarabel.Term.PairExp Clarabel.Term.PairPow Clarabel.Term.PairPsd Clarabel.Term.FarkasAll Clarabel.Term.LemmasRollback."""
SETS="Set Printing Width 110. Set Printing Depth 1000. Unset Printing Notations. Set Printing Notations.\n"
P = {
 "C01": ("a `Solved` verdict is a certified approximate optimum", [
   ("C01_chk_termtest_sound","LemmasFinal.chk_termtest_sound"),
   ("C01_run_case_solved_certified","LemmasFinal.run_case_solved_certified"),
   ("C01_all_cone_kinds_certified","LemmasFinal.all_kinds_certified"),
   ("C01_exp_cone_enclosure_sound","LemmasExp.exp_ok_sound"),
   ("C01_exp_dual_cone_enclosure_sound","LemmasExp.exp_dual_ok_sound"),
   ("C01_psd_check_sound","LemmasPsd.psd_ok_sound"),
   ("C01_unscale_residual_primal","LemmasAlg.unscale_residual_primal"),
   ("C01_unscale_residual_dual","LemmasAlg.unscale_residual_dual"),
   ("C01_xPx_invariance","LemmasAlg.xPx_invariance"),
   ("C01_is_solved_sound","LemmasAlg.is_solved_sound"),
   ("C01_check_convergence_solved","LemmasAlg.check_convergence_solved"),
   ("C01_full_status_solved","LemmasAlg.full_status_solved"),
   ("C01_solved_user","LemmasAlg.C01_solved_user"),
   ("C01_nonvacuous","LemmasAlg.ex_C01"),
 ]),
 "C02": ("infeasibility verdicts carry a valid Farkas certificate", [
   ("C02_chk_farkas_p_sound","LemmasFinal.chk_farkas_p_sound_all"),
   ("C02_chk_farkas_d_sound","LemmasFinal.chk_farkas_d_sound_all"),
   ("C02_dot_b_invariance","LemmasAlg.dot_b_invariance"),
   ("C02_dot_q_invariance","LemmasAlg.dot_q_invariance"),
   ("C02_primal_cert","LemmasAlg.C02_primal_cert"),
   ("C02_dual_cert","LemmasAlg.C02_dual_cert"),
   ("C02_primal_user","LemmasAlg.C02_primal_user"),
   ("C02_dual_user","LemmasAlg.C02_dual_user"),
   ("C02_check_convergence_pinf","LemmasAlg.check_convergence_pinf"),
   ("C02_check_convergence_dinf","LemmasAlg.check_convergence_dinf"),
   ("C02_full_status_pinf","LemmasAlg.full_status_pinf"),
   ("C02_full_status_dinf","LemmasAlg.full_status_dinf"),
   ("C02_nan","LemmasMisc.objectives_nan_iff"),
   ("C02_pair_exp","PairExp.pair_exp"),
   ("C02_pair_pow","PairPow.pair_pow"),
   ("C02_pair_pow_real","PairPow.pair_pow_real"),
   ("C02_pair_genpow","PairPow.pair_genpow"),
   ("C02_pair_psd","PairPsd.pair_psd"),
   ("C02_pair_kind_all","FarkasAll.pair_kind_all"),
   ("C02_ray_kind_all","FarkasAll.ray_kind_all"),
   ("C02_pair_K","FarkasAll.pair_K_all"),
   ("C02_farkas_sound","FarkasAll.farkas_sound_all"),
   ("C02_farkas_quantitative","FarkasAll.farkas_quantitative_all"),
   ("C02_unbounded_sound","FarkasAll.unbounded_sound_all"),
   ("C02_nonvacuous_infeasible","Farkas.ex_infeasible"),
   ("C02_nonvacuous_infeasible_exp","FarkasAll.exA_infeasible"),
   ("C02_nonvacuous_cert","LemmasAlg.ex2_C02"),
 ]),
 "C03": ("the solver's report about its own result is truthful", [
   ("C03_case_report_sound","LemmasFinal.case_report_sound"),
   ("C03_info_cost_primal","LemmasAlg.info_cost_primal"),
   ("C03_info_cost_dual","LemmasAlg.info_cost_dual"),
   ("C03_info_res_primal","LemmasAlg.info_res_primal"),
   ("C03_info_res_dual","LemmasAlg.info_res_dual"),
   ("C03_almost_solved_sound","LemmasAlg.post_process_almost_sound"),
   ("C03_almost_pinf_sound","LemmasAlg.post_process_almost_pinf_sound"),
   ("C03_almost_dinf_sound","LemmasAlg.post_process_almost_dinf_sound"),
   ("C03_post_process_keeps_full","LemmasAlg.post_process_keeps_full"),
   ("C03_reverse_rows_length","LemmasAlg.reverse_rows_length"),
   ("C03_lengths_keep","LemmasAlg.solution_keep_lengths"),
   ("C03_lengths_nokeep","LemmasAlg.solution_nokeep_lengths"),
   ("C03_keep_sel","LemmasAlg.solution_keep_sel"),
   ("C03_report_fields","LemmasMisc.objectives_nan_iff"),
   ("C03_rollback_restores","LemmasRollback.rollback_restores"),
   ("C03_rollback_ip_ktratio","LemmasRollback.check_termination_ip_ktratio"),
   ("C03_rollback_no_almost_infeasible","LemmasRollback.rollback_no_almost_infeasible"),
   ("C03_rollback_almost_solved_on_restored","LemmasRollback.rollback_almost_solved_on_restored"),
   ("C03_rollback_nonvacuous","LemmasRollback.rb_rollback_almost_solved"),
 ]),
}
for pid,(title,items) in P.items():
    src = IMPORTS + "\n" + SETS
    for name, lem in items:
        src += 'Goal True. idtac "@@T %s". Abort.\nCheck @%s.\n' % (name, lem)
    src += 'Goal True. idtac "@@END". Abort.\n'
    open(os.path.join(V,'work','gp.v'),'w').write(src)
    out = subprocess.run(['coqc','-noglob','-Q',COQ+'/theories','Clarabel',os.path.join(V,'work','gp.v')],capture_output=True,text=True,cwd=os.path.join(V,'work'))
    txt = out.stdout + out.stderr
    if '@@END' not in txt:
        print(pid, "FAILED", txt[-1500:]); continue
    body = "(** %s — %s.\n    Statements as printed by Coq from the lemmas of Term/*.v (proofs there); each theorem is closed by\n    [exact].  Spec predicates: Term/Spec.v; checkers: Term/Check.v; model: Term/Model.v. *)\n" % (pid, title)
    body += IMPORTS + "\n\n"
    types = {}
    for m in re.finditer(r"@@T (\S+)\n(.*?)(?=@@T |@@END)", txt, re.S):
        nm, t = m.group(1), m.group(2).strip()
        t = t.split("\n     : ",1)[1] if "\n     : " in t else t.split(" : ",1)[1]
        types[nm] = t
    for name, lem in items:
        body += "Theorem %s :\n  %s.\nProof. exact @%s. Qed.\n\n" % (name, types[name].replace("\n","\n  "), lem)
    open(os.path.join(V,'work','stage_%s.v' % pid),'w').write(body)
    print(pid, "staged", len(items))
