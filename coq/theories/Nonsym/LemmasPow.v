(** C14 — proofs for the 3-d power cone (membership, barrier, gradient, Hessian,
    homogeneity, central starting point). *)
From Coq Require Import Reals Lra Lia ZArith Bool.
From Coquelicot Require Import Coquelicot.
Require Import Clarabel.Base.Ops Clarabel.Nonsym.Model Clarabel.Nonsym.FloatTrans Clarabel.Nonsym.Spec.
Require Import Clarabel.Nonsym.LemmasExp.
Open Scope R_scope.

Lemma sq_gap B t : 0 < B -> (0 < B * B - t * t <-> Rabs t < B).
Proof.
  intros hB. unfold Rabs. destruct (Rcase_abs t); split; intro h; nra.
Qed.

Lemma Rpower_sq x y : Rpower x (2 * y) = Rpower x y * Rpower x y.
Proof. unfold Rpower. rewrite <- exp_plus. f_equal. ring. Qed.

(** psi = phi - z2^2 as computed by the code *)
Definition pow_phiR (a z0 z1 : R) : R := Rpower (z0 / a) (2 * a) * Rpower (z1 / (1 - a)) (2 - 2 * a).

Lemma pow_phiR_sq a z0 z1 :
  pow_phiR a z0 z1 = (Rpower (z0 / a) a * Rpower (z1 / (1 - a)) (1 - a)) * (Rpower (z0 / a) a * Rpower (z1 / (1 - a)) (1 - a)).
Proof.
  unfold pow_phiR. rewrite Rpower_sq. replace (2 - 2 * a) with (2 * (1 - a)) by ring.
  rewrite Rpower_sq. ring.
Qed.

Lemma Rpower_pos x y : 0 < Rpower x y.
Proof. unfold Rpower. apply exp_pos. Qed.

Lemma pow_dual_int_psi a z0 z1 z2 :
  pow_dual_int a (z0, z1, z2) <-> 0 < z0 /\ 0 < z1 /\ 0 < pow_phiR a z0 z1 - z2 * z2.
Proof.
  unfold pow_dual_int. rewrite pow_phiR_sq.
  set (B := Rpower (z0 / a) a * Rpower (z1 / (1 - a)) (1 - a)).
  assert (hB : 0 < B) by (apply Rmult_lt_0_compat; apply Rpower_pos).
  rewrite (sq_gap B z2 hB). tauto.
Qed.

Theorem pow_dual_feasible_iff_ok : stmt_pow_dual_feasible_iff.
Proof.
  intros a [[z0 z1] z2] ha. rewrite pow_dual_int_psi.
  unfold pow_is_dual_feasible; cbn -[ln exp].
  assert (e : exp (a * 2 * ln (z0 / a) + (1 - a) * ln (z1 / (1 - a)) * 2) = pow_phiR a z0 z1).
  { unfold pow_phiR, Rpower. rewrite <- exp_plus. f_equal. ring. }
  rewrite e.
  destruct (Rltb 0 z0 && Rltb 0 z1)%bool eqn:eb.
  - apply andb_Rltb in eb. rewrite Rltb_true. tauto.
  - split; [discriminate|]. intros (h0 & h1 & _).
    assert (Rltb 0 z0 && Rltb 0 z1 = true)%bool by (apply andb_Rltb; tauto). congruence.
Qed.

Theorem pow_primal_feasible_iff_ok : stmt_pow_primal_feasible_iff.
Proof.
  intros a [[s0 s1] s2] ha. unfold pow_primal_int, pow_is_primal_feasible; cbn -[ln exp].
  set (B := Rpower s0 a * Rpower s1 (1 - a)).
  assert (hB : 0 < B) by (apply Rmult_lt_0_compat; apply Rpower_pos).
  assert (e : exp (2 * a * ln s0 + 2 * (1 - a) * ln s1) = B * B).
  { unfold B, Rpower. rewrite <- !exp_plus. f_equal. ring. }
  rewrite e.
  destruct (Rltb 0 s0 && Rltb 0 s1)%bool eqn:eb.
  - apply andb_Rltb in eb. rewrite Rltb_true, (sq_gap B s2 hB). tauto.
  - split; [discriminate|]. intros (h0 & h1 & _).
    assert (Rltb 0 s0 && Rltb 0 s1 = true)%bool by (apply andb_Rltb; tauto). congruence.
Qed.

Theorem pow_barrier_dual_eq_ok : stmt_pow_barrier_dual_eq.
Proof.
  intros a [[z0 z1] z2] ha hz. unfold pow_barrier_dual, pow_fstar, pow_phi; cbn -[ln].
  replace (2 * (1 - a)) with (2 - 2 * a) by ring. reflexivity.
Qed.

(** ** derivatives *)
Section Deriv.
Variables (a z0 z1 z2 : R).
Hypothesis ha : 0 < a < 1.
Hypothesis h0 : 0 < z0.
Hypothesis h1 : 0 < z1.
Hypothesis hpsi : 0 < pow_phiR a z0 z1 - z2 * z2.

Let hr0 : 0 < z0 * / a. Proof. apply Rdiv_lt_0_compat; lra. Qed.
Let hr1 : 0 < z1 * / (1 - a). Proof. apply Rdiv_lt_0_compat; lra. Qed.
Let hr1' : 0 < z1 * / (1 + - a). Proof. apply Rdiv_lt_0_compat; lra. Qed.

Lemma pow_grad_deriv : grad_is_derivative (pow_fstar a) (pow_grad_H TOpsR a) (z0, z1, z2).
Proof.
  unfold pow_phiR, Rpower, Rdiv in hpsi.
  assert (hpsi' : 0 < exp (2 * a * ln (z0 * / a)) * exp ((2 + - (2 * a)) * ln (z1 * / (1 + - a))) + - (z2 * z2)).
  { unfold Rminus in hpsi. exact hpsi. }
  intros [| |]; unfold pow_fstar, pow_grad_H, pow_phi, recip, vset, vget; cbn -[ln exp];
    replace (2 * (1 - a)) with (2 - 2 * a) by ring; unfold Rpower;
    auto_derive; try (repeat split; solve [lra | assumption | exact I]).
  all: unfold Rdiv; field; repeat split; lra.
Qed.

Lemma pow_hess_deriv : hess_is_derivative (pow_grad_H TOpsR a) (z0, z1, z2).
Proof.
  unfold pow_phiR, Rpower, Rdiv in hpsi.
  assert (hpsi' : 0 < exp (2 * a * ln (z0 * / a)) * exp ((2 + - (2 * a)) * ln (z1 * / (1 + - a))) + - (z2 * z2)).
  { unfold Rminus in hpsi. exact hpsi. }
  assert (hne : exp (2 * a * ln (z0 * / a)) * exp ((2 + - (2 * a)) * ln (z1 * / (1 + - a))) + - (z2 * z2) <> 0) by lra.
  intros i j; destruct i, j; unfold pow_grad_H, pow_phi, recip, vset, vget, sget; cbn -[ln exp];
    unfold Rpower; auto_derive.
  all: unfold Rdiv in *; try (field; repeat split; lra).
  all: repeat split; try assumption; try exact I; try lra;
    apply Rmult_integral_contrapositive_currified; lra.
Qed.

Lemma pow_log_hom : log_homogeneous (pow_grad_H TOpsR a) (z0, z1, z2).
Proof.
  unfold log_homogeneous, pow_grad_H, pow_phi, recip, vdot, mvec, vneg, vscale, sget, vget; cbn -[ln exp].
  fold (pow_phiR a z0 z1). set (phi := pow_phiR a z0 z1) in *.
  split; [|f_equal; [f_equal|]]; field; repeat split; lra.
Qed.
End Deriv.

Theorem pow_grad_is_derivative_ok : stmt_pow_grad_is_derivative.
Proof. intros a [[z0 z1] z2] ha hz. apply pow_dual_int_psi in hz. apply pow_grad_deriv; tauto. Qed.
Theorem pow_hess_is_derivative_ok : stmt_pow_hess_is_derivative.
Proof. intros a [[z0 z1] z2] ha hz. apply pow_dual_int_psi in hz. apply pow_hess_deriv; tauto. Qed.
Theorem pow_log_homogeneous_ok : stmt_pow_log_homogeneous.
Proof. intros a [[z0 z1] z2] ha hz. apply pow_dual_int_psi in hz. apply pow_log_hom; tauto. Qed.
