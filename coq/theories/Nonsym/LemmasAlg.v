(** C14 — 3x3 Cholesky correctness and the primal-dual scaling identities. *)
From Coq Require Import Reals Lra Lia ZArith Bool Psatz.
From Coquelicot Require Import Coquelicot.
Require Import Clarabel.Base.Ops Clarabel.Nonsym.Model Clarabel.Nonsym.FloatTrans Clarabel.Nonsym.Spec.
Open Scope R_scope.

Theorem sym3_mul_dense_ok : stmt_sym3_mul_dense.
Proof. intros [a b c d e f] [[x0 x1] x2]. reflexivity. Qed.

Lemma Rleb_false_lt a b : Rleb a b = false -> b < a.
Proof. apply Rleb_false. Qed.
Lemma Rleb_true_le a b : Rleb a b = true -> a <= b.
Proof. apply Rleb_true. Qed.

(** what a successful factorisation returns *)
Lemma chol_factor_some A L : sym3_chol_factor TOpsR A = Some L ->
  0 < m00 L /\ 0 < m11 L /\ 0 < m22 L /\
  m00 A = m00 L * m00 L /\ m01 A = m01 L * m00 L /\ m11 A = m01 L * m01 L + m11 L * m11 L /\
  m02 A = m02 L * m00 L /\ m12 A = m12 L * m11 L + m01 L * m02 L /\
  m22 A = m02 L * m02 L + m12 L * m12 L + m22 L * m22 L.
Proof.
  destruct A as [a b c d e f]. unfold sym3_chol_factor; cbn -[R_sqrt.sqrt].
  destruct (Rleb a 0) eqn:e1; [discriminate|]. apply Rleb_false in e1.
  set (l00 := R_sqrt.sqrt a). assert (h00 : 0 < l00) by (apply sqrt_lt_R0; lra).
  assert (s00 : l00 * l00 = a) by (apply sqrt_sqrt; lra). clearbody l00.
  destruct (Rleb (c - b / l00 * (b / l00)) 0) eqn:e2; [discriminate|]. apply Rleb_false in e2.
  set (t2 := c - b / l00 * (b / l00)) in *.
  set (l11 := R_sqrt.sqrt t2). assert (h11 : 0 < l11) by (apply sqrt_lt_R0; lra).
  assert (s11 : l11 * l11 = t2) by (apply sqrt_sqrt; lra). clearbody l11.
  set (t3 := f - d / l00 * (d / l00) - (e - b / l00 * (d / l00)) / l11 * ((e - b / l00 * (d / l00)) / l11)) in *.
  destruct (Rleb t3 0) eqn:e3; [discriminate|]. apply Rleb_false in e3.
  set (l22 := R_sqrt.sqrt t3). assert (h22 : 0 < l22) by (apply sqrt_lt_R0; lra).
  assert (s22 : l22 * l22 = t3) by (apply sqrt_sqrt; lra). clearbody l22.
  intro hL. inversion hL as [hL']; subst L; cbn.
  repeat split; auto.
  - field; lra.
  - rewrite s11. unfold t2. field; lra.
  - field; lra.
  - field; lra.
  - rewrite s22. unfold t3. field; lra.
Qed.

Lemma chol_factor_spd A : spd3 A -> exists L, sym3_chol_factor TOpsR A = Some L.
Proof.
  destruct A as [a b c d e f]. unfold spd3, det3; cbn. intros (h1 & h2 & h3).
  unfold sym3_chol_factor; cbn -[R_sqrt.sqrt].
  destruct (Rleb a 0) eqn:e1. { apply Rleb_true in e1. lra. }
  set (l00 := R_sqrt.sqrt a). assert (h00 : 0 < l00) by (apply sqrt_lt_R0; lra).
  assert (s00 : l00 * l00 = a) by (apply sqrt_sqrt; lra).
  assert (ht2 : c - b / l00 * (b / l00) = (a * c - b * b) / a).
  { rewrite <- s00. field; lra. }
  assert (hp2 : 0 < (a * c - b * b) / a) by (apply Rdiv_lt_0_compat; lra).
  destruct (Rleb (c - b / l00 * (b / l00)) 0) eqn:e2. { apply Rleb_true in e2. lra. }
  set (t2 := c - b / l00 * (b / l00)) in *.
  set (l11 := R_sqrt.sqrt t2). assert (h11 : 0 < l11) by (apply sqrt_lt_R0; lra).
  assert (s11 : l11 * l11 = t2) by (apply sqrt_sqrt; lra).
  set (t3 := f - d / l00 * (d / l00) - (e - b / l00 * (d / l00)) / l11 * ((e - b / l00 * (d / l00)) / l11)).
  assert (ht3 : t3 = (a * (c * f - e * e) - b * (b * f - e * d) + d * (b * e - c * d)) / (a * c - b * b)).
  { unfold t3.
    replace ((e - b / l00 * (d / l00)) / l11 * ((e - b / l00 * (d / l00)) / l11))
      with ((e - b * d / (l00 * l00)) * (e - b * d / (l00 * l00)) / (l11 * l11)) by (field; lra).
    replace (d / l00 * (d / l00)) with (d * d / (l00 * l00)) by (field; lra).
    rewrite s11, ht2, s00. field; lra. }
  assert (hp3 : 0 < t3) by (rewrite ht3; apply Rdiv_lt_0_compat; lra).
  destruct (Rleb t3 0) eqn:e3. { apply Rleb_true in e3. lra. }
  eexists; reflexivity.
Qed.

Lemma chol_factor_spd_conv A L : sym3_chol_factor TOpsR A = Some L -> spd3 A.
Proof.
  intro h. apply chol_factor_some in h.
  destruct A as [a b c d e f], L as [l00 l10 l11 l20 l21 l22]; cbn in *.
  destruct h as (h0 & h1 & h2 & -> & -> & -> & -> & -> & ->).
  unfold spd3, det3; cbn. repeat split.
  - nra.
  - replace (l00 * l00 * (l10 * l10 + l11 * l11) - l10 * l00 * (l10 * l00)) with ((l00 * l11) * (l00 * l11)) by ring.
    assert (0 < l00 * l11) by nra. nra.
  - match goal with |- 0 < ?x => replace x with ((l00 * l11 * l22) * (l00 * l11 * l22)) by ring end.
    assert (0 < l00 * l11) by nra. assert (0 < l00 * l11 * l22) by nra. nra.
Qed.

Lemma chol_solve_ok A L b : sym3_chol_factor TOpsR A = Some L ->
  mvec A (sym3_chol_solve TOpsR L b) = b.
Proof.
  intro h. apply chol_factor_some in h.
  destruct A as [a0 a1 a2 a3 a4 a5], L as [l00 l10 l11 l20 l21 l22], b as [[b0 b1] b2]; cbn in *.
  destruct h as (h0 & h1 & h2 & -> & -> & -> & -> & -> & ->).
  unfold mvec, sym3_chol_solve, sget, vget; cbn.
  f_equal; [f_equal|]; field; repeat split; lra.
Qed.

Theorem cholesky_3x3_ok : stmt_cholesky_3x3.
Proof.
  intro A. split.
  - split. apply chol_factor_spd. intros [L h]. eapply chol_factor_spd_conv; eauto.
  - intros L b h. apply chol_solve_ok; auto.
Qed.

(** ** primal-dual scaling *)
Theorem update_Hs_dual_ok : stmt_update_Hs_dual.
Proof. intros. split; reflexivity. Qed.

Section PdAlg.
Variables s0 s1 s2 z0 z1 z2 st0 st1 st2 zt0 zt1 zt2 a0 a1 a2 tt : R.
Let dsz := s0 * z0 + s1 * z1 + s2 * z2.
Let mu := dsz / 3.
Let d0 := s0 + mu * st0. Let d1 := s1 + mu * st1. Let d2 := s2 + mu * st2.
Let e0 := z0 + mu * zt0. Let e1 := z1 + mu * zt1. Let e2 := z2 + mu * zt2.
Let ddsz := d0 * e0 + d1 * e1 + d2 * e2.
Hypothesis hst : st0 * z0 + st1 * z1 + st2 * z2 = -3.
Hypothesis hzt : zt0 * s0 + zt1 * s1 + zt2 * s2 = -3.
Hypothesis haz : a0 * z0 + a1 * z1 + a2 * z2 = 0.
Hypothesis hazt : a0 * zt0 + a1 * zt1 + a2 * zt2 = 0.
Hypothesis hdsz : dsz <> 0.
Hypothesis hddsz : ddsz <> 0.
Let M (si sj di dj ai aj : R) := si * sj / dsz + di * dj / ddsz + tt * ai * aj.

Lemma pd_dz : d0 * z0 + d1 * z1 + d2 * z2 = 0.
Proof.
  unfold d0, d1, d2.
  replace ((s0 + mu * st0) * z0 + (s1 + mu * st1) * z1 + (s2 + mu * st2) * z2)
    with (dsz + mu * (st0 * z0 + st1 * z1 + st2 * z2)) by (unfold dsz; ring).
  rewrite hst. unfold mu. field.
Qed.

Lemma pd_ddsz : ddsz = mu * (d0 * zt0 + d1 * zt1 + d2 * zt2).
Proof.
  unfold ddsz, e0, e1, e2.
  replace (d0 * (z0 + mu * zt0) + d1 * (z1 + mu * zt1) + d2 * (z2 + mu * zt2))
    with ((d0 * z0 + d1 * z1 + d2 * z2) + mu * (d0 * zt0 + d1 * zt1 + d2 * zt2)) by ring.
  rewrite pd_dz. ring.
Qed.

Lemma pd_row_z si di ai :
  M si s0 di d0 ai a0 * z0 + M si s1 di d1 ai a1 * z1 + M si s2 di d2 ai a2 * z2 = si.
Proof.
  unfold M.
  replace (_ + _ + _) with
    (si * dsz / dsz + di * (d0 * z0 + d1 * z1 + d2 * z2) / ddsz + tt * ai * (a0 * z0 + a1 * z1 + a2 * z2))
    by (unfold dsz at 1; field; split; assumption).
  rewrite pd_dz, haz. field; split; assumption.
Qed.

Lemma pd_row_zt si sti di ai : di = si + mu * sti ->
  M si s0 di d0 ai a0 * zt0 + M si s1 di d1 ai a1 * zt1 + M si s2 di d2 ai a2 * zt2 = sti.
Proof.
  intro hdi. unfold M.
  set (X := d0 * zt0 + d1 * zt1 + d2 * zt2).
  assert (hX : ddsz = mu * X) by apply pd_ddsz.
  assert (hmu : mu <> 0). { unfold mu. intro h. apply hdsz. lra. }
  assert (hXne : X <> 0). { intro h. apply hddsz. rewrite hX, h. ring. }
  replace (_ + _ + _) with
    (si * (zt0 * s0 + zt1 * s1 + zt2 * s2) / dsz + di * X / ddsz + tt * ai * (a0 * zt0 + a1 * zt1 + a2 * zt2))
    by (unfold X; field; split; assumption).
  rewrite hzt, hazt, hX, hdi. unfold mu. field. split; [|assumption].
  intro h. apply hXne. unfold mu in hX. clear -h hX hddsz hdsz. nra.
Qed.

Lemma pd_quad x0 x1 x2 :
  x0 * (M s0 s0 d0 d0 a0 a0 * x0 + M s0 s1 d0 d1 a0 a1 * x1 + M s0 s2 d0 d2 a0 a2 * x2)
  + x1 * (M s0 s1 d0 d1 a0 a1 * x0 + M s1 s1 d1 d1 a1 a1 * x1 + M s1 s2 d1 d2 a1 a2 * x2)
  + x2 * (M s0 s2 d0 d2 a0 a2 * x0 + M s1 s2 d1 d2 a1 a2 * x1 + M s2 s2 d2 d2 a2 a2 * x2)
  = (s0 * x0 + s1 * x1 + s2 * x2) * (s0 * x0 + s1 * x1 + s2 * x2) / dsz
    + (d0 * x0 + d1 * x1 + d2 * x2) * (d0 * x0 + d1 * x1 + d2 * x2) / ddsz
    + tt * ((a0 * x0 + a1 * x1 + a2 * x2) * (a0 * x0 + a1 * x1 + a2 * x2)).
Proof. unfold M. field; split; assumption. Qed.
End PdAlg.

Lemma norm_cross_orth z0 z1 z2 zt0 zt1 zt2 :
  let '(a0, a1, a2) := normalize3 TOpsR (cross3 TOpsR (z0, z1, z2) (zt0, zt1, zt2)) in
  a0 * z0 + a1 * z1 + a2 * z2 = 0 /\ a0 * zt0 + a1 * zt1 + a2 * zt2 = 0.
Proof.
  unfold normalize3, cross3, recip; cbn -[R_sqrt.sqrt].
  match goal with |- context [Reqb ?n 0] => set (nn := n); destruct (Reqb nn 0) eqn:e end.
  - split; ring.
  - apply Reqb_false in e. clearbody nn. split; field; assumption.
Qed.

Theorem pd_scaling_ok : stmt_pd_scaling.
Proof.
  intros H [[st0 st1] st2] [[zt0 zt1] zt2] [[s0 s1] s2] [[z0 z1] z2] hst hzt. cbv zeta.
  unfold vdot in hst, hzt.
  split.
  - intro hb. unfold use_primal_dual_scaling. rewrite hb.
    unfold pd_branch in hb. rewrite !andb_true_iff, !Rltb_true in hb.
    destruct hb as (((_ & _) & hsz) & hdsz).
    pose proof (norm_cross_orth z0 z1 z2 zt0 zt1 zt2) as hax.
    unfold pd_scaling_matrix.
    destruct (normalize3 TOpsR (cross3 TOpsR (z0, z1, z2) (zt0, zt1, zt2))) as [[a0 a1] a2].
    destruct hax as (haz & hazt).
    cbn -[sym3_norm_fro sym3_mul sym3_quad_form] in *.
    rewrite !Rplus_0_l in *.
    destruct (sym3_mul TOpsR H (zt0, zt1, zt2)) as [[hh0 hh1] hh2].
    match goal with |- context [?m * sym3_norm_fro TOpsR ?W] => set (tt := m * sym3_norm_fro TOpsR W) end.
    assert (htt : 0 <= tt).
    { unfold tt. apply Rmult_le_pos. lra. unfold sym3_norm_fro; cbn. apply sqrt_pos. }
    clearbody tt.
    assert (hne1 : s0 * z0 + s1 * z1 + s2 * z2 <> 0) by lra.
    match type of hdsz with 0 < ?d => assert (hne2 : d <> 0) by lra end.
    repeat split.
    + unfold mvec, sget, vget; cbn.
      pose proof (pd_row_z s0 s1 s2 z0 z1 z2 st0 st1 st2 zt0 zt1 zt2 a0 a1 a2 tt hst haz hne1 hne2) as R.
      pose proof (R s0 (s0 + (s0 * z0 + s1 * z1 + s2 * z2) / 3 * st0) a0) as R0.
      pose proof (R s1 (s1 + (s0 * z0 + s1 * z1 + s2 * z2) / 3 * st1) a1) as R1.
      pose proof (R s2 (s2 + (s0 * z0 + s1 * z1 + s2 * z2) / 3 * st2) a2) as R2.
      cbv zeta in R0, R1, R2. clear R.
      cbv beta in R0, R1, R2.
      f_equal; [f_equal|].
      * etransitivity; [|exact R0]. unfold Rdiv; ring.
      * etransitivity; [|exact R1]. unfold Rdiv; ring.
      * etransitivity; [|exact R2]. unfold Rdiv; ring.
    + pose proof (pd_row_zt s0 s1 s2 z0 z1 z2 st0 st1 st2 zt0 zt1 zt2 a0 a1 a2 tt hst hzt hazt hne1 hne2) as R.
      unfold mvec, sget, vget, vneg, vscale; cbn.
      pose proof (R s0 st0 _ a0 eq_refl) as R0. pose proof (R s1 st1 _ a1 eq_refl) as R1.
      pose proof (R s2 st2 _ a2 eq_refl) as R2. cbv zeta in R0, R1, R2.
      f_equal; [f_equal|]; lra.
    + intros [[x0 x1] x2]. unfold quad3, vdot, mvec, sget, vget; cbn.
      pose proof (pd_quad s0 s1 s2 z0 z1 z2 st0 st1 st2 zt0 zt1 zt2 a0 a1 a2 tt hne1 hne2 x0 x1 x2) as Q.
      cbv zeta in Q. rewrite Q.
      repeat apply Rplus_le_le_0_compat.
      * apply Rmult_le_pos; [apply Rle_0_sqr|]. left; apply Rinv_0_lt_compat; lra.
      * apply Rmult_le_pos; [apply Rle_0_sqr|]. left; apply Rinv_0_lt_compat; lra.
      * apply Rmult_le_pos; [lra|apply Rle_0_sqr].
    + revert H0. destruct x as [[x0 x1] x2]. unfold quad3, vdot, mvec, sget, vget; cbn.
      pose proof (pd_quad s0 s1 s2 z0 z1 z2 st0 st1 st2 zt0 zt1 zt2 a0 a1 a2 tt hne1 hne2 x0 x1 x2) as Q.
      cbv zeta in Q. rewrite Q. clear Q.
      match goal with |- ?A * ?A / ?p + ?B * ?B / ?q + tt * (?C * ?C) = 0 -> _ =>
        set (qq := q) in *; set (AA := A); set (BB := B); set (CC := C); set (pp := p) in * end.
      intro h0.
      assert (0 <= AA * AA / pp) by (apply Rmult_le_pos; [apply Rle_0_sqr|left; apply Rinv_0_lt_compat; lra]).
      assert (0 <= BB * BB / qq) by (apply Rmult_le_pos; [apply Rle_0_sqr|left; apply Rinv_0_lt_compat; lra]).
      assert (0 <= tt * (CC * CC)) by (apply Rmult_le_pos; [lra|apply Rle_0_sqr]).
      assert (hA : AA * AA / pp = 0) by lra.
      unfold Rdiv in hA. apply Rmult_integral in hA. destruct hA as [hA|hA];
        [|exfalso; assert (0 < / pp) by (apply Rinv_0_lt_compat; lra); lra].
      apply Rmult_integral in hA. lra.
    + revert H0. destruct x as [[x0 x1] x2]. unfold quad3, vdot, mvec, sget, vget; cbn.
      pose proof (pd_quad s0 s1 s2 z0 z1 z2 st0 st1 st2 zt0 zt1 zt2 a0 a1 a2 tt hne1 hne2 x0 x1 x2) as Q.
      cbv zeta in Q. rewrite Q. clear Q.
      match goal with |- ?A * ?A / ?p + ?B * ?B / ?q + tt * (?C * ?C) = 0 -> _ =>
        set (qq := q) in *; set (AA := A); set (BB := B); set (CC := C); set (pp := p) in * end.
      intro h0.
      assert (0 <= AA * AA / pp) by (apply Rmult_le_pos; [apply Rle_0_sqr|left; apply Rinv_0_lt_compat; lra]).
      assert (0 <= BB * BB / qq) by (apply Rmult_le_pos; [apply Rle_0_sqr|left; apply Rinv_0_lt_compat; lra]).
      assert (0 <= tt * (CC * CC)) by (apply Rmult_le_pos; [lra|apply Rle_0_sqr]).
      assert (hB : BB * BB / qq = 0) by lra.
      unfold Rdiv in hB. apply Rmult_integral in hB. destruct hB as [hB|hB];
        [|exfalso; assert (0 < / qq) by (apply Rinv_0_lt_compat; lra); lra].
      apply Rmult_integral in hB. lra.
  - intro hb. unfold use_primal_dual_scaling. rewrite hb. cbn. rewrite !Rplus_0_l. reflexivity.
Qed.
