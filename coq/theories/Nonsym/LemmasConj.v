(** C14 — conjugacy of the exponential cone's primal gradient and the central starting points. *)
From Coq Require Import Reals Lra Lia ZArith Bool List.
From Coquelicot Require Import Coquelicot.
From Interval Require Import Tactic.
Require Import Clarabel.Base.Ops Clarabel.Nonsym.Model Clarabel.Nonsym.FloatTrans Clarabel.Nonsym.Spec.
Require Import Clarabel.Nonsym.LemmasExp Clarabel.Nonsym.LemmasPow.
Open Scope R_scope.

Theorem exp_primal_grad_conjugate_ok : stmt_exp_primal_grad_conjugate.
Proof.
  intros [[s0 s1] s2] om (hs1 & hs) hom heq. cbv zeta.
  assert (hs2 : 0 < s2). { pose proof (exp_pos (s0 / s1)). nra. }
  unfold exp_omega_arg in heq; cbn -[ln] in heq.
  unfold exp_gradient_primal_of; cbn -[ln].
  (* L = ln (om s1 / s2) = 1 - s0/s1 - om *)
  assert (hL : ln (om * s1 / s2) = 1 - s0 / s1 - om).
  { replace (om * s1 / s2) with (om * (s1 / s2)) by (field; lra).
    rewrite ln_mult; [lra|lra|apply Rdiv_lt_0_compat; lra]. }
  rewrite hL.
  set (g0 := 1 / ((om - 1) * s1)).
  assert (hg0 : 0 < g0). { unfold g0. apply Rdiv_lt_0_compat. lra. apply Rmult_lt_0_compat; lra. }
  unfold vneg, vscale.
  assert (hz2 : 0 < -1 * (om / ((1 - om) * s2))).
  { replace (-1 * (om / ((1 - om) * s2))) with (om / ((om - 1) * s2)) by (field; lra).
    apply Rdiv_lt_0_compat. lra. apply Rmult_lt_0_compat; lra. }
  (* the ratio -z2/z0 and its logarithm *)
  assert (hratio : - (-1 * (om / ((1 - om) * s2))) / (-1 * g0) = om * s1 / s2).
  { unfold g0. field. repeat split; lra. }
  assert (hpsi : exp_psi (-1 * g0) (-1 * (g0 + g0 * (1 - s0 / s1 - om) - 1 / s1)) (-1 * (om / ((1 - om) * s2))) = 1 / s1).
  { unfold exp_psi. rewrite hratio, hL. unfold g0. field. lra. }
  split; [|split].
  - apply exp_dual_int_psi. repeat split; try lra. rewrite hpsi. apply Rdiv_lt_0_compat; lra.
  - unfold exp_grad_H, recip; cbn -[ln]. rewrite hratio, hL.
    replace (- (-1 * g0) * (1 - s0 / s1 - om) - -1 * g0 + -1 * (g0 + g0 * (1 - s0 / s1 - om) - 1 / s1))
      with (1 / s1) by (field; lra).
    assert (hg0e : g0 = 1 / ((om - 1) * s1)) by reflexivity. clearbody g0. subst g0.
    f_equal; [f_equal|]; field; repeat split; lra.
  - unfold vdot, g0. field. repeat split; lra.
Qed.

Theorem pow_unit_init_central_ok : stmt_pow_unit_init_central.
Proof.
  intros a ha. cbv zeta. unfold pow_unit_init; cbn -[R_sqrt.sqrt].
  set (u := R_sqrt.sqrt (1 + a)). set (v := R_sqrt.sqrt (1 + (1 - a))).
  assert (hu : 0 < u) by (apply sqrt_lt_R0; lra).
  assert (hv : 0 < v) by (apply sqrt_lt_R0; lra).
  assert (su : u * u = 1 + a) by (apply sqrt_sqrt; lra).
  assert (sv : v * v = 1 + (1 - a)) by (apply sqrt_sqrt; lra).
  clearbody u v.
  repeat split; auto.
  - rewrite Rabs_R0. apply Rmult_lt_0_compat; apply Rpower_pos.
  - rewrite Rabs_R0. apply Rmult_lt_0_compat; apply Rpower_pos.
  - unfold pow_grad_H, pow_phi, vneg, vscale, recip; cbn.
    set (phi := Rpower (u / a) (2 * a) * Rpower (v / (1 - a)) (2 - 2 * a)).
    assert (hphi : 0 < phi) by (apply Rmult_lt_0_compat; apply Rpower_pos).
    clearbody phi.
    f_equal; [f_equal|].
    + replace (-1 * (- (2) * a * phi / (u * (phi - 0 * 0)) - (1 - a) / u)) with ((1 + a) / u) by (field; lra).
      rewrite <- su. field; lra.
    + replace (-1 * (- (2) * (1 - a) * phi / (v * (phi - 0 * 0)) - a / v)) with ((1 + (1 - a)) / v) by (field; lra).
      rewrite <- sv. field; lra.
    + field; lra.
Qed.

Theorem exp_unit_init_central_ok : stmt_exp_unit_init_central.
Proof.
  unfold stmt_exp_unit_init_central. cbv zeta.
  assert (e : exp_unit_init TOpsR =
              (- (1051383945322714 / 1000000000000000), 556409619469370 / 1000000000000000,
               1258967884768947 / 1000000000000000)) by reflexivity.
  rewrite e. clear e.
  split; [|split].
  - split; interval.
  - split; interval.
  - intros [| |]; unfold exp_grad_H, recip, vget; cbn -[ln IZR]; interval with (i_prec 120).
Qed.

(** the literal constants are 15-digit decimals but centre the point only to about 5e-9:
    the residual of the first component exceeds 4e-9 (so a bound of 1e-14 would be false) *)
Lemma exp_unit_init_offcentre :
  4 / 10 ^ 9 < Rabs (- vget I0 (fst (exp_grad_H TOpsR (exp_unit_init TOpsR))) - vget I0 (exp_unit_init TOpsR)).
Proof.
  assert (e : exp_unit_init TOpsR =
              (- (1051383945322714 / 1000000000000000), 556409619469370 / 1000000000000000,
               1258967884768947 / 1000000000000000)) by reflexivity.
  rewrite e. unfold exp_grad_H, recip, vget; cbn -[ln IZR]. interval with (i_prec 120).
Qed.

(** non-vacuity: concrete interior points *)
Lemma Rpower_gt_1 x y : 1 < x -> 0 < y -> 1 < Rpower x y.
Proof.
  intros hx hy. unfold Rpower. rewrite <- exp_0. apply exp_increasing.
  apply Rmult_lt_0_compat; [exact hy|]. rewrite <- ln_1. apply ln_increasing; lra.
Qed.
Example exp_dual_int_example : exp_dual_int (-1, 0, 1).
Proof.
  unfold exp_dual_int. split; [lra|]. replace (0 / -1) with 0 by field. rewrite exp_0.
  pose proof (exp_ineq1 1 ltac:(lra)). lra.
Qed.
Example exp_primal_int_example : exp_primal_int (0, 1, 2).
Proof. unfold exp_primal_int. split; [lra|]. replace (0 / 1) with 0 by field. rewrite exp_0. lra. Qed.
Example pow_dual_int_example : pow_dual_int (1 / 4) (1, 1, 1).
Proof.
  unfold pow_dual_int. repeat split; try lra. rewrite Rabs_R1.
  assert (h1 : 1 < Rpower (1 / (1 / 4)) (1 / 4)) by (apply Rpower_gt_1; lra).
  assert (h2 : 1 < Rpower (1 / (1 - 1 / 4)) (1 - 1 / 4)) by (apply Rpower_gt_1; lra).
  nra.
Qed.
