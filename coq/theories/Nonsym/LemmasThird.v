(** C14 — third-order correction of the exponential cone. *)
From Coq Require Import Reals Lra Lia ZArith Bool.
From Coquelicot Require Import Coquelicot.
Require Import Clarabel.Base.Ops Clarabel.Nonsym.Model Clarabel.Nonsym.FloatTrans Clarabel.Nonsym.Spec.
Require Import Clarabel.Nonsym.LemmasExp Clarabel.Nonsym.LemmasAlg.
Open Scope R_scope.

Ltac nz := try lra; try assumption;
  repeat (apply Rmult_integral_contrapositive_currified); try lra; try assumption.

Theorem exp_third_order_ok : stmt_exp_third_order.
Proof.
  intros [[z0 z1] z2] [[ds0 ds1] ds2] [[v0 v1] v2] hz.
  pose proof (exp_hess_spd_ok _ hz) as hspd.
  apply exp_dual_int_psi in hz. destruct hz as (h0 & h2 & hp). unfold exp_psi in hp.
  unfold third_order. cbv zeta.
  destruct (proj1 (proj1 (cholesky_3x3_ok _)) hspd) as [L hL].
  exists (sym3_chol_solve TOpsR L (ds0, ds1, ds2)). split.
  - apply (proj2 (cholesky_3x3_ok _)). exact hL.
  - unfold exp_higher_correction. rewrite hL.
    destruct (sym3_chol_solve TOpsR L (ds0, ds1, ds2)) as [[u0 u1] u2].
    assert (hr := neg_ratio_pos z0 z2 h0 h2). unfold Rdiv in hr, hp.
    assert (hr' : 0 < - z0 * / z2). { replace (- z0 * / z2) with (/ (- z2 * / z0)) by (field; lra). apply Rinv_0_lt_compat; exact hr. }
    assert (hl : ln (- z0 * / z2) = - ln (- z2 * / z0)).
    { rewrite <- ln_Rinv by exact hr. f_equal. field; lra. }
    assert (hne : - z0 * ln (- z2 * / z0) - z0 + z1 <> 0) by lra.
    assert (hne' : - (z0 * ln (- z2 * / z0)) + - z0 + z1 <> 0) by lra.
    intros [| |]; unfold exp_grad_H, recip, vadd, vscale, mvec, sget, vget, scale3, dot3; cbn -[ln];
      auto_derive.
    all: unfold Rdiv in *; rewrite ?Rmult_0_l, ?Rmult_0_r, ?Rplus_0_r, ?Rplus_0_l in *.
    all: try (rewrite ?hl; field; repeat split; nz).
    all: repeat split; try assumption; try exact I; nz.
Qed.
