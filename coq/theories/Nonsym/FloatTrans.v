(** C14 — the two interpretations of [TOps]: the reals ([TOpsR], theorems) and primitive
    binary64 floats ([TOpsF], correspondence run).

    Coq's primitive floats have + - * / sqrt only.  [fln], [fexp], [fpow] below are plain
    double-precision implementations (argument reduction + series) with an error of a few
    ulp; they are *not* claimed correct by any theorem: the correspondence run compares the
    float model with the Rust code under a tolerance that absorbs a few ulp of difference in
    the transcendental sub-terms (see design.d/C14.md), and an error in these routines would
    show up as a disagreement on the unchanged tree, not as a wrong theorem. *)
From Coq Require Import ZArith Reals Floats List.
Require Import Clarabel.Base.Ops Clarabel.Nonsym.Model.

Definition TOpsR : TOps R :=
  mkTOps R OpsR ln exp Rpower (/ 4503599627370496)%R PI.

Open Scope float_scope.

Definition f_ln2 : float := 0x1.62e42fefa39efp-1.
Definition f_sqrt_half : float := 0x1.6a09e667f3bcdp-1.
Definition f_pi : float := 0x1.921fb54442d18p+1.
Definition f_eps : float := 0x1p-52.

(** odd series 2*(t + t^3/3 + ... + t^23/23) by Horner in t^2 *)
Definition atanh2_series (t : float) : float :=
  let t2 := t * t in
  let c := fun (k : Z) => 1 / (ofZ OpsF k) in
  let p := c 25%Z in
  let p := c 23%Z + t2 * p in
  let p := c 21%Z + t2 * p in
  let p := c 19%Z + t2 * p in
  let p := c 17%Z + t2 * p in
  let p := c 15%Z + t2 * p in
  let p := c 13%Z + t2 * p in
  let p := c 11%Z + t2 * p in
  let p := c 9%Z + t2 * p in
  let p := c 7%Z + t2 * p in
  let p := c 5%Z + t2 * p in
  let p := c 3%Z + t2 * p in
  let p := 1 + t2 * p in
  2 * (t * p).

(** logsafe: -infinity for x <= 0 *)
Definition fln (x : float) : float :=
  if PrimFloat.leb x 0 then neg_infinity
  else if PrimFloat.eqb x infinity then infinity
  else
    let '(m, e) := PrimFloat.frshiftexp x in
    let k := (Uint63.to_Z e - FloatOps.shift)%Z in
    let '(m, k) := if PrimFloat.ltb m f_sqrt_half then (2 * m, (k - 1)%Z) else (m, k) in
    let t := (m - 1) / (m + 1) in
    ofZ OpsF k * f_ln2 + atanh2_series t.

(** 2^k for an integer-valued float |k| <= 2047, by binary decomposition *)
Definition fpow2 (kf : float) : float :=
  let neg := PrimFloat.ltb kf 0 in
  let a := PrimFloat.abs kf in
  let step (st : float * float) (bp : float * float) : float * float :=
    let '(a, acc) := st in let '(b, p) := bp in
    if PrimFloat.leb b a then (a - b, acc * p) else (a, acc) in
  let tbl := ((1024, 0x1p+1023 * 2) :: (512, 0x1p+512) :: (256, 0x1p+256) :: (128, 0x1p+128)
              :: (64, 0x1p+64) :: (32, 0x1p+32) :: (16, 0x1p+16) :: (8, 0x1p+8) :: (4, 0x1p+4)
              :: (2, 0x1p+2) :: (1, 0x1p+1) :: nil)%list in
  let '(_, acc) := fold_left step tbl (a, 1) in
  if neg then 1 / acc else acc.

Definition fexp (x : float) : float :=
  if PrimFloat.ltb x (-745) then 0
  else if PrimFloat.ltb 710 x then infinity
  else if PrimFloat.eqb x x then
    let big := 0x1.8p+52 in
    let kf := (x / f_ln2 + big) - big in
    (* two-part ln2 for the reduction *)
    let r := (x - kf * 0x1.62e42fefa38p-1) - kf * 0x1.ef35793c7673p-45 in
    let c := fun (k : Z) => ofZ OpsF k in
    let p := 1 + r / c 16%Z in
    let p := 1 + (r / c 15%Z) * p in
    let p := 1 + (r / c 14%Z) * p in
    let p := 1 + (r / c 13%Z) * p in
    let p := 1 + (r / c 12%Z) * p in
    let p := 1 + (r / c 11%Z) * p in
    let p := 1 + (r / c 10%Z) * p in
    let p := 1 + (r / c 9%Z) * p in
    let p := 1 + (r / c 8%Z) * p in
    let p := 1 + (r / c 7%Z) * p in
    let p := 1 + (r / c 6%Z) * p in
    let p := 1 + (r / c 5%Z) * p in
    let p := 1 + (r / c 4%Z) * p in
    let p := 1 + (r / c 3%Z) * p in
    let p := 1 + (r / c 2%Z) * p in
    let p := 1 + r * p in
    p * fpow2 kf
  else x.

(** powf for a positive base *)
Definition fpow (x y : float) : float := fexp (y * fln x).

Definition TOpsF : TOps float := mkTOps float OpsF fln fexp fpow f_eps f_pi.
