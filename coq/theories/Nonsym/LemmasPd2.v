(** C14 — strict positive definiteness of the primal-dual scaling matrix (t > 0, z and the
    shadow point linearly independent). *)
From Coq Require Import Reals Lra Lia ZArith Bool Psatz.
Require Import Clarabel.Base.Ops Clarabel.Nonsym.Model Clarabel.Nonsym.FloatTrans Clarabel.Nonsym.Spec.
Require Import Clarabel.Nonsym.LemmasAlg.
Open Scope R_scope.

Section Indep.
Variables s0 s1 s2 d0 d1 d2 a0 a1 a2 z0 z1 z2 y0 y1 y2 x0 x1 x2 : R.
Hypothesis hdz : d0 * z0 + d1 * z1 + d2 * z2 = 0.
Hypothesis haz : a0 * z0 + a1 * z1 + a2 * z2 = 0.
Hypothesis hay : a0 * y0 + a1 * y1 + a2 * y2 = 0.
Hypothesis haa : a0 * a0 + a1 * a1 + a2 * a2 = 1.
Hypothesis hsz : s0 * z0 + s1 * z1 + s2 * z2 <> 0.
Hypothesis hdy : d0 * y0 + d1 * y1 + d2 * y2 <> 0.
Hypothesis hsx : s0 * x0 + s1 * x1 + s2 * x2 = 0.
Hypothesis hdx : d0 * x0 + d1 * x1 + d2 * x2 = 0.
Hypothesis hax : a0 * x0 + a1 * x1 + a2 * x2 = 0.

Let detM := s0 * (d1 * a2 - d2 * a1) - s1 * (d0 * a2 - d2 * a0) + s2 * (d0 * a1 - d1 * a0).
Let detB := z0 * (y1 * a2 - y2 * a1) - z1 * (y0 * a2 - y2 * a0) + z2 * (y0 * a1 - y1 * a0).

Lemma detM_ne : detM <> 0.
Proof.
  assert (e : detM * detB =
    (s0 * z0 + s1 * z1 + s2 * z2) * ((d0 * y0 + d1 * y1 + d2 * y2) * (a0 * a0 + a1 * a1 + a2 * a2)
                                     - (d0 * a0 + d1 * a1 + d2 * a2) * (a0 * y0 + a1 * y1 + a2 * y2))
    - (s0 * y0 + s1 * y1 + s2 * y2) * ((d0 * z0 + d1 * z1 + d2 * z2) * (a0 * a0 + a1 * a1 + a2 * a2)
                                       - (d0 * a0 + d1 * a1 + d2 * a2) * (a0 * z0 + a1 * z1 + a2 * z2))
    + (s0 * a0 + s1 * a1 + s2 * a2) * ((d0 * z0 + d1 * z1 + d2 * z2) * (a0 * y0 + a1 * y1 + a2 * y2)
                                       - (d0 * y0 + d1 * y1 + d2 * y2) * (a0 * z0 + a1 * z1 + a2 * z2)))
    by (unfold detM, detB; ring).
  rewrite hdz, haz, hay, haa in e.
  intro h0. rewrite h0 in e.
  assert (e' : (s0 * z0 + s1 * z1 + s2 * z2) * (d0 * y0 + d1 * y1 + d2 * y2) = 0) by lra.
  apply Rmult_integral in e'. tauto.
Qed.

Lemma indep_zero : x0 = 0 /\ x1 = 0 /\ x2 = 0.
Proof.
  pose proof detM_ne as hne.
  assert (c0 : detM * x0 = (s0 * x0 + s1 * x1 + s2 * x2) * (d1 * a2 - d2 * a1)
                           - (d0 * x0 + d1 * x1 + d2 * x2) * (s1 * a2 - s2 * a1)
                           + (a0 * x0 + a1 * x1 + a2 * x2) * (s1 * d2 - s2 * d1)) by (unfold detM; ring).
  assert (c1 : detM * x1 = - (s0 * x0 + s1 * x1 + s2 * x2) * (d0 * a2 - d2 * a0)
                           + (d0 * x0 + d1 * x1 + d2 * x2) * (s0 * a2 - s2 * a0)
                           - (a0 * x0 + a1 * x1 + a2 * x2) * (s0 * d2 - s2 * d0)) by (unfold detM; ring).
  assert (c2 : detM * x2 = (s0 * x0 + s1 * x1 + s2 * x2) * (d0 * a1 - d1 * a0)
                           - (d0 * x0 + d1 * x1 + d2 * x2) * (s0 * a1 - s1 * a0)
                           + (a0 * x0 + a1 * x1 + a2 * x2) * (s0 * d1 - s1 * d0)) by (unfold detM; ring).
  rewrite hsx, hdx, hax in c0, c1, c2.
  repeat split.
  - assert (h : detM * x0 = 0) by lra. apply Rmult_integral in h. tauto.
  - assert (h : detM * x1 = 0) by lra. apply Rmult_integral in h. tauto.
  - assert (h : detM * x2 = 0) by lra. apply Rmult_integral in h. tauto.
Qed.
End Indep.

Lemma normalize_unit c0 c1 c2 : 0 < c0 * c0 + c1 * c1 + c2 * c2 ->
  let '(a0, a1, a2) := normalize3 TOpsR (c0, c1, c2) in a0 * a0 + a1 * a1 + a2 * a2 = 1.
Proof.
  intro h. unfold normalize3, recip, dot3; cbn -[R_sqrt.sqrt]. rewrite !Rplus_0_l.
  set (nn := R_sqrt.sqrt (c0 * c0 + c1 * c1 + c2 * c2)).
  assert (hn : 0 < nn) by (apply sqrt_lt_R0; exact h).
  assert (sn : nn * nn = c0 * c0 + c1 * c1 + c2 * c2) by (apply sqrt_sqrt; lra).
  destruct (Reqb nn 0) eqn:e.
  - apply Reqb_true in e. lra.
  - clearbody nn.
    replace (c0 * (1 / nn) * (c0 * (1 / nn)) + c1 * (1 / nn) * (c1 * (1 / nn)) + c2 * (1 / nn) * (c2 * (1 / nn)))
      with ((c0 * c0 + c1 * c1 + c2 * c2) / (nn * nn)) by (field; lra).
    rewrite <- sn. field. lra.
Qed.

Theorem pd_scaling_strict_ok : stmt_pd_scaling_strict.
Proof.
  intros H [[st0 st1] st2] [[zt0 zt1] zt2] [[s0 s1] s2] [[z0 z1] z2] hst hzt hb ht hcross [[x0 x1] x2].
  unfold vdot in hst, hzt.
  unfold use_primal_dual_scaling. rewrite hb.
  unfold pd_branch in hb. rewrite !andb_true_iff, !Rltb_true in hb.
  destruct hb as (((_ & _) & hsz) & hdsz).
  pose proof (norm_cross_orth z0 z1 z2 zt0 zt1 zt2) as hax.
  unfold cross3 in hcross; cbn in hcross. unfold vdot in hcross.
  pose proof (normalize_unit _ _ _ hcross) as hunit.
  unfold pd_scaling_matrix, pd_t, pd_W in *. unfold cross3 in *. cbn [tb TOpsR OpsR sub mul] in hax, hunit |- *.
  destruct (normalize3 TOpsR (z1 * zt2 - z2 * zt1, z2 * zt0 - z0 * zt2, z0 * zt1 - z1 * zt0)) as [[a0 a1] a2].
  destruct hax as (haz & hazt).
  cbn -[sym3_norm_fro sym3_mul sym3_quad_form] in *.
  rewrite !Rplus_0_l in *.
  destruct (sym3_mul TOpsR H (zt0, zt1, zt2)) as [[hh0 hh1] hh2].
  match goal with |- context [?m * sym3_norm_fro TOpsR ?W] => set (tt := m * sym3_norm_fro TOpsR W) in * end.
  clearbody tt.
  assert (hne1 : s0 * z0 + s1 * z1 + s2 * z2 <> 0) by lra.
  match type of hdsz with 0 < ?d => assert (hne2 : d <> 0) by lra end.
  unfold quad3, vdot, mvec, sget, vget; cbn.
  pose proof (pd_quad s0 s1 s2 z0 z1 z2 st0 st1 st2 zt0 zt1 zt2 a0 a1 a2 tt hne1 hne2 x0 x1 x2) as Q.
  cbv zeta in Q. rewrite Q. clear Q.
  pose proof (pd_dz s0 s1 s2 z0 z1 z2 st0 st1 st2 hst) as hdz. cbv zeta in hdz.
  pose proof (pd_ddsz s0 s1 s2 z0 z1 z2 st0 st1 st2 zt0 zt1 zt2 hst) as hdd. cbv zeta in hdd.
  match goal with |- ?A * ?A / ?p + ?B * ?B / ?q + tt * (?C * ?C) = 0 -> _ =>
    set (qq := q) in *; set (AA := A); set (BB := B); set (CC := C); set (pp := p) in * end.
  intro h0.
  assert (h1 : 0 <= AA * AA / pp) by (apply Rmult_le_pos; [apply Rle_0_sqr|left; apply Rinv_0_lt_compat; lra]).
  assert (h2 : 0 <= BB * BB / qq) by (apply Rmult_le_pos; [apply Rle_0_sqr|left; apply Rinv_0_lt_compat; lra]).
  assert (h3 : 0 <= tt * (CC * CC)) by (apply Rmult_le_pos; [lra|apply Rle_0_sqr]).
  assert (hA : AA = 0).
  { assert (e : AA * AA / pp = 0) by lra. unfold Rdiv in e. apply Rmult_integral in e.
    destruct e as [e|e]; [apply Rmult_integral in e; lra|exfalso; assert (0 < / pp) by (apply Rinv_0_lt_compat; lra); lra]. }
  assert (hB : BB = 0).
  { assert (e : BB * BB / qq = 0) by lra. unfold Rdiv in e. apply Rmult_integral in e.
    destruct e as [e|e]; [apply Rmult_integral in e; lra|exfalso; assert (0 < / qq) by (apply Rinv_0_lt_compat; lra); lra]. }
  assert (hC : CC = 0).
  { assert (e : tt * (CC * CC) = 0) by lra. apply Rmult_integral in e.
    destruct e as [e|e]; [lra|apply Rmult_integral in e; lra]. }
  unfold AA, BB, CC in hA, hB, hC.
  assert (hdy : (s0 + pp / 3 * st0) * zt0 + (s1 + pp / 3 * st1) * zt1 + (s2 + pp / 3 * st2) * zt2 <> 0).
  { intro e. apply hne2. rewrite hdd. rewrite e. ring. }
  destruct (indep_zero s0 s1 s2 _ _ _ a0 a1 a2 z0 z1 z2 zt0 zt1 zt2 x0 x1 x2 hdz haz hazt hunit hne1 hdy hA hB hC)
    as (e0 & e1 & e2).
  subst. reflexivity.
Qed.
