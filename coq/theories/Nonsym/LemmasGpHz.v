(** C14 — generalised power cone, all dimensions: the model of [mul_Hs]
    (y = mu (D + p p' - q q' - r r') x from the stored vectors) applied to z returns -mu grad,
    i.e. H z = -grad (needs sum alpha = 1). *)
From Coq Require Import Reals Lra Lia ZArith Bool List.
Require Import Clarabel.Base.Ops Clarabel.Nonsym.Model Clarabel.Nonsym.FloatTrans Clarabel.Nonsym.Spec.
Require Import Clarabel.Nonsym.LemmasGp Clarabel.Nonsym.LemmasGpGen.
Import ListNotations.
Open Scope R_scope.

Section Scal.
Variables (phi n : R).
Hypothesis hphi : 0 < phi.
Hypothesis hn : 0 <= n.
Hypothesis hzeta : 0 < phi - n.
Let zeta := phi - n.
Let p0 := R_sqrt.sqrt (phi * (phi + n) / 2).
Let q0 := R_sqrt.sqrt (zeta * phi / 2).
Let r1 := 2 * R_sqrt.sqrt (zeta / (phi + n)).
Let p1 := - (2) * phi / p0.

Lemma s_p0_sq : p0 * p0 = phi * (phi + n) / 2.
Proof. apply sqrt_sqrt. apply Rlt_le, Rdiv_lt_0_compat; [apply Rmult_lt_0_compat|]; lra. Qed.
Lemma s_p0_pos : 0 < p0.
Proof. apply sqrt_lt_R0. apply Rdiv_lt_0_compat; [apply Rmult_lt_0_compat|]; lra. Qed.
Lemma s_q0_sq : q0 * q0 = zeta * phi / 2.
Proof. apply sqrt_sqrt. apply Rlt_le, Rdiv_lt_0_compat; [apply Rmult_lt_0_compat|]; unfold zeta; lra. Qed.
Lemma s_r1_sq : r1 * r1 = 4 * zeta / (phi + n).
Proof.
  unfold r1. replace (2 * R_sqrt.sqrt (zeta / (phi + n)) * (2 * R_sqrt.sqrt (zeta / (phi + n))))
    with (4 * (R_sqrt.sqrt (zeta / (phi + n)) * R_sqrt.sqrt (zeta / (phi + n)))) by ring.
  rewrite sqrt_sqrt. field; lra. apply Rlt_le, Rdiv_lt_0_compat; unfold zeta; lra.
Qed.
Lemma s_p0p1 : p0 * p1 = - (2) * phi.
Proof. unfold p1. pose proof s_p0_pos. field. lra. Qed.
Lemma s_p1_sq : p1 * p1 = 8 * phi / (phi + n).
Proof.
  pose proof s_p0_pos as hp. unfold p1.
  replace (- (2) * phi / p0 * (- (2) * phi / p0)) with (4 * phi * phi / (p0 * p0)) by (field; lra).
  rewrite s_p0_sq. field. split; lra.
Qed.

(** with coef_p = (p0/zeta) 2 + (p1/zeta) n, coef_q = (q0/zeta) 2, coef_r = (r1/zeta) n *)
Lemma s_K1 : (p0 / zeta * 2 + p1 / zeta * n) * (p0 / zeta) = (2 * (q0 / zeta)) * (q0 / zeta).
Proof.
  assert (hz : zeta <> 0) by (unfold zeta; lra).
  replace ((p0 / zeta * 2 + p1 / zeta * n) * (p0 / zeta)) with ((2 * (p0 * p0) + (p0 * p1) * n) / (zeta * zeta)) by (field; exact hz).
  replace (2 * (q0 / zeta) * (q0 / zeta)) with (2 * (q0 * q0) / (zeta * zeta)) by (field; exact hz).
  rewrite s_p0_sq, s_p0p1, s_q0_sq. unfold zeta. field. lra.
Qed.
Lemma s_K2 : (p0 / zeta * 2 + p1 / zeta * n) * (p1 / zeta) - (r1 / zeta * n) * (r1 / zeta) = - (4) / zeta.
Proof.
  assert (hz : zeta <> 0) by (unfold zeta; lra).
  replace ((p0 / zeta * 2 + p1 / zeta * n) * (p1 / zeta) - r1 / zeta * n * (r1 / zeta))
    with ((2 * (p0 * p1) + (p1 * p1) * n - (r1 * r1) * n) / (zeta * zeta)) by (field; exact hz).
  rewrite s_p0p1, s_p1_sq, s_r1_sq. unfold zeta. field. split; lra.
Qed.
End Scal.

(** dot products of the model (fold_left) *)
Lemma dotl_acc a b acc :
  fold_left (fun ac p => ac + fst p * snd p) (combine a b) acc = acc + dotR a b.
Proof.
  revert b acc. induction a as [|x a IH]; intros [|y b] acc; unfold dotR in *; cbn [combine fold_left fold_right fst snd]; try ring.
  rewrite IH. ring.
Qed.
Lemma dotl_dotR a b : dotl TOpsR a b = dotR a b.
Proof. unfold dotl. cbn. rewrite dotl_acc. ring. Qed.
Lemma dotR_app a b c d : length a = length c -> dotR (a ++ b) (c ++ d) = dotR a c + dotR b d.
Proof.
  revert c. induction a as [|x a IH]; intros [|y c] h; cbn in h; try lia.
  - unfold dotR; cbn. ring.
  - unfold dotR in *. cbn [app combine fold_right fst snd]. rewrite IH by lia. ring.
Qed.
Lemma dotR_tau (h : R -> R) (A : R) : (forall t, h t = A * t) -> forall al u, length u = length al ->
  List.Forall (fun x => 0 < x) u ->
  dotR (map h (map (fun p => 2 * fst p / snd p) (combine al u))) u = A * (2 * sumR al).
Proof.
  intros hh. induction al as [|a al IH]; intros [|x u] hl hu; cbn in hl; try lia.
  - unfold dotR, sumR; cbn. ring.
  - inversion hu as [|? ? hx hu']; subst. unfold dotR, sumR in *.
    cbn [combine map fold_right fst snd]. rewrite IH by (auto; lia). rewrite hh. field. lra.
Qed.

Lemma mulHs_u cp cq A B phi zeta mu : zeta <> 0 -> cp * A = cq * B ->
  forall al u, length u = length al -> List.Forall (fun x => 0 < x) u ->
  let tau := map (fun p => 2 * fst p / snd p) (combine al u) in
  map (fun y => y * mu)
    (map (fun p => cp * snd p + 1 * fst p)
       (combine (map (fun p => fst p * fst (snd p) - cq * snd (snd p))
                   (combine (map (fun p => fst p * phi / (zeta * snd (snd p)) + (1 - fst (snd p)) / (snd (snd p) * snd (snd p)))
                               (combine tau (combine al u)))
                            (combine u (map (fun t => t * B) tau))))
                (map (fun t => A * t) tau)))
  = map (fun g => - (mu * g))
      (map (fun p => - fst p * phi / zeta - (1 - fst (snd p)) / snd (snd p)) (combine tau (combine al u))).
Proof.
  intros hz hK. cbv zeta.
  induction al as [|a al IH]; intros [|x u] hl hu; cbn in hl; try lia.
  - reflexivity.
  - inversion hu as [|? ? hx hu']; subst. cbn [combine map fst snd]. f_equal; [|apply IH; auto; lia].
    replace (cp * (A * (2 * a / x))) with ((2 * a / x) * (cp * A)) by ring. rewrite hK. field. split; lra.
Qed.
Lemma mulHs_w cp cr P1 R1 zeta mu : zeta <> 0 -> cp * P1 - cr * R1 = - (4) / zeta -> forall w,
  map (fun y => y * mu)
    (map (fun p => cp * snd p + 1 * fst p)
       (combine (map (fun p => 2 / zeta * fst p - cr * snd p) (combine w (map (fun z => R1 * z) w)))
                (map (fun z => P1 * z) w)))
  = map (fun g => - (mu * g)) (map (fun z => 2 / zeta * z) w).
Proof.
  intros hz hK. induction w as [|x w IH]. reflexivity.
  cbn [combine map fst snd]. f_equal; [|exact IH].
  replace ((cp * (P1 * x) + 1 * (2 / zeta * x - cr * (R1 * x))) * mu)
    with (mu * x * ((cp * P1 - cr * R1) + 2 / zeta)) by (field; exact hz).
  rewrite hK. field. exact hz.
Qed.

Definition stmt_gp_Hz : Prop := forall al u w mu, gp_interior al u w -> sumR al = 1 ->
  let d := gp_grad_H TOpsR al u w in
  gp_mul_Hs TOpsR d mu u w
  = (map (fun g => - (mu * g)) (gp_grad_u d), map (fun g => - (mu * g)) (gp_grad_w d)).

Theorem gp_Hz_ok : stmt_gp_Hz.
Proof.
  intros al u w mu (hl & hal & hu & hz) hsum. cbv zeta.
  unfold gp_mul_Hs, gp_grad_H.
  cbn [gp_grad_u gp_grad_w gp_p_u gp_p_w gp_q gp_r gp_d1 gp_d2].
  rewrite !dotl_dotR, gp_phi_dual_eq, sumsql_eq.
  cbn [tb TOpsR OpsR sub add mul div neg one ofZ Ops.sqrt].
  set (phi := gpP al u) in *. set (n := sumsqR w) in *.
  assert (hphi : 0 < phi) by apply gpP_pos.
  assert (hn : 0 <= n) by apply sumsqR_nonneg.
  set (zeta := phi - n) in *.
  set (p0 := R_sqrt.sqrt (phi * (phi + n) / 2)).
  set (q0 := R_sqrt.sqrt (zeta * phi / 2)).
  set (r1 := 2 * R_sqrt.sqrt (zeta / (phi + n))).
  set (p1 := - (2) * phi / p0).
  rewrite dotR_app by (rewrite !map_length, combine_length; lia).
  rewrite (dotR_tau (fun t => p0 / zeta * t) (p0 / zeta)) by auto.
  rewrite dot_gw.
  rewrite (dotR_tau (fun t => t * (q0 / zeta)) (q0 / zeta)) by (auto; intro; ring).
  rewrite dot_gw. rewrite hsum. fold n.
  f_equal.
  - apply mulHs_u; auto. apply Rgt_not_eq; exact hz.
    replace (p0 / zeta * (2 * 1) + p1 / zeta * n) with (p0 / zeta * 2 + p1 / zeta * n) by ring.
    replace (q0 / zeta * (2 * 1)) with (2 * (q0 / zeta)) by ring.
    apply (s_K1 phi n hphi hn hz).
  - apply mulHs_w. apply Rgt_not_eq; exact hz.
    replace (p0 / zeta * (2 * 1) + p1 / zeta * n) with (p0 / zeta * 2 + p1 / zeta * n) by ring.
    apply (s_K2 phi n hphi hn hz).
Qed.

(** ** update_scaling of the generalised power cone accepts exactly the interior of the dual cone *)
Lemma gpP_sq al u : gpP al u = Rsqr (prod_pow (fun a x => Rpower (x / a) a) al u).
Proof.
  unfold gpP, prod_pow. induction (combine al u) as [|p l IH]; cbn [fold_right].
  - unfold Rsqr. ring.
  - rewrite IH. unfold Rsqr, Rpower. replace (2 * fst p * ln (snd p / fst p)) with (fst p * ln (snd p / fst p) + fst p * ln (snd p / fst p)) by ring.
    rewrite exp_plus. ring.
Qed.
Definition stmt_gp_update_scaling_iff : Prop := forall al u w mu,
  List.Forall (fun x => 0 < x) u ->
  ((exists d, gp_update_scaling TOpsR al u w mu = Some (d, mu) /\ d = gp_grad_H TOpsR al u w) <-> gp_dual_int al u w) /\
  (gp_update_scaling TOpsR al u w mu = None <-> ~ gp_dual_int al u w).
Theorem gp_update_scaling_iff_ok : stmt_gp_update_scaling_iff.
Proof.
  intros al u w mu hu. unfold gp_update_scaling, gp_dual_int.
  rewrite gp_phi_dual_eq, sumsql_eq, gpP_sq. cbn [tb TOpsR OpsR sub ltb zero].
  set (P := Rsqr (prod_pow (fun a x => Rpower (x / a) a) al u)). set (S := sumsqR w).
  destruct (Rltb 0 (P - S)) eqn:e.
  - apply Rltb_true in e. split; split.
    + intros _. split; [exact hu|lra].
    + intros _. eexists; split; reflexivity.
    + discriminate.
    + intros h. exfalso. apply h. split; [exact hu|lra].
  - apply Rltb_false in e. split; split.
    + intros (d & h & _). discriminate.
    + intros (_ & h). lra.
    + intros _ (_ & h). lra.
    + reflexivity.
Qed.
