(** C14 — generalised power cone: the stored dual gradient is the derivative of the dual
    barrier, for the fixed small dimensions (dim1, dim2) in {(2,1), (2,2), (3,1)} (partial:
    the general-dimension statement is not proved). *)
From Coq Require Import Reals Lra Lia ZArith Bool List.
From Coquelicot Require Import Coquelicot.
Require Import Clarabel.Base.Ops Clarabel.Nonsym.Model Clarabel.Nonsym.FloatTrans Clarabel.Nonsym.Spec.
Require Import Clarabel.Nonsym.LemmasExp Clarabel.Nonsym.LemmasPow Clarabel.Nonsym.LemmasThird.
Import ListNotations.
Open Scope R_scope.

(** dual barrier by hand:  -log(prod (u_i/a_i)^(2 a_i) - |w|^2) - sum (1 - a_i) log u_i *)
Definition gp_fstar (al u w : list R) : R :=
  - ln (prod_pow (fun a x => Rpower (x / a) (2 * a)) al u - sumsqR w)
  - fold_right (fun p acc => (1 - fst p) * ln (snd p) + acc) 0 (combine al u).
Definition gp_zeta (al u w : list R) : R :=
  prod_pow (fun a x => Rpower (x / a) (2 * a)) al u - sumsqR w.

Ltac gp_deriv :=
  unfold gp_fstar, gp_grad_H, gp_phi_dual, prod_pow, sumsqR, sumsql, dotl, gp_grad_u, gp_grad_w, recip;
  cbn -[ln exp Rpower]; unfold Rpower; auto_derive;
  [ repeat split; try assumption; try exact I; try lra
  | unfold Rdiv in *; field; repeat split; nz ].

Theorem gp_grad_is_derivative_d21_partial : forall a b u0 u1 w0,
  0 < a -> 0 < b -> 0 < u0 -> 0 < u1 -> 0 < gp_zeta [a; b] [u0; u1] [w0] ->
  let d := gp_grad_H TOpsR [a; b] [u0; u1] [w0] in
  is_derive (fun t => gp_fstar [a; b] [t; u1] [w0]) u0 (nth 0 (gp_grad_u d) 0) /\
  is_derive (fun t => gp_fstar [a; b] [u0; t] [w0]) u1 (nth 1 (gp_grad_u d) 0) /\
  is_derive (fun t => gp_fstar [a; b] [u0; u1] [t]) w0 (nth 0 (gp_grad_w d) 0).
Proof.
  intros a b u0 u1 w0 ha hb h0 h1 hz. cbv zeta.
  unfold gp_zeta, prod_pow, sumsqR in hz; cbn -[Rpower] in hz. unfold Rpower, Rdiv in hz.
  assert (hr0 : 0 < u0 * / a) by (apply Rdiv_lt_0_compat; lra).
  assert (hr1 : 0 < u1 * / b) by (apply Rdiv_lt_0_compat; lra).
  split; [|split]; gp_deriv.
Qed.

Theorem gp_grad_is_derivative_d22_partial : forall a b u0 u1 w0 w1,
  0 < a -> 0 < b -> 0 < u0 -> 0 < u1 -> 0 < gp_zeta [a; b] [u0; u1] [w0; w1] ->
  let d := gp_grad_H TOpsR [a; b] [u0; u1] [w0; w1] in
  is_derive (fun t => gp_fstar [a; b] [t; u1] [w0; w1]) u0 (nth 0 (gp_grad_u d) 0) /\
  is_derive (fun t => gp_fstar [a; b] [u0; t] [w0; w1]) u1 (nth 1 (gp_grad_u d) 0) /\
  is_derive (fun t => gp_fstar [a; b] [u0; u1] [t; w1]) w0 (nth 0 (gp_grad_w d) 0) /\
  is_derive (fun t => gp_fstar [a; b] [u0; u1] [w0; t]) w1 (nth 1 (gp_grad_w d) 0).
Proof.
  intros a b u0 u1 w0 w1 ha hb h0 h1 hz. cbv zeta.
  unfold gp_zeta, prod_pow, sumsqR in hz; cbn -[Rpower] in hz. unfold Rpower, Rdiv in hz.
  assert (hr0 : 0 < u0 * / a) by (apply Rdiv_lt_0_compat; lra).
  assert (hr1 : 0 < u1 * / b) by (apply Rdiv_lt_0_compat; lra).
  split; [|split; [|split]]; gp_deriv.
Qed.

Theorem gp_grad_is_derivative_d31_partial : forall a b c u0 u1 u2 w0,
  0 < a -> 0 < b -> 0 < c -> 0 < u0 -> 0 < u1 -> 0 < u2 ->
  0 < gp_zeta [a; b; c] [u0; u1; u2] [w0] ->
  let d := gp_grad_H TOpsR [a; b; c] [u0; u1; u2] [w0] in
  is_derive (fun t => gp_fstar [a; b; c] [t; u1; u2] [w0]) u0 (nth 0 (gp_grad_u d) 0) /\
  is_derive (fun t => gp_fstar [a; b; c] [u0; t; u2] [w0]) u1 (nth 1 (gp_grad_u d) 0) /\
  is_derive (fun t => gp_fstar [a; b; c] [u0; u1; t] [w0]) u2 (nth 2 (gp_grad_u d) 0) /\
  is_derive (fun t => gp_fstar [a; b; c] [u0; u1; u2] [t]) w0 (nth 0 (gp_grad_w d) 0).
Proof.
  intros a b c u0 u1 u2 w0 ha hb hc h0 h1 h2 hz. cbv zeta.
  unfold gp_zeta, prod_pow, sumsqR in hz; cbn -[Rpower] in hz. unfold Rpower, Rdiv in hz.
  assert (hr0 : 0 < u0 * / a) by (apply Rdiv_lt_0_compat; lra).
  assert (hr1 : 0 < u1 * / b) by (apply Rdiv_lt_0_compat; lra).
  assert (hr2 : 0 < u2 * / c) by (apply Rdiv_lt_0_compat; lra).
  split; [|split; [|split]]; gp_deriv.
Qed.

