(** C14 — generalised power cone in general dimension: the stored dual gradient is the gradient
    of the dual barrier (every coordinate, all dim1, dim2). *)
From Coq Require Import Reals Lra Lia ZArith Bool List.
From Coquelicot Require Import Coquelicot.
Require Import Clarabel.Base.Ops Clarabel.Nonsym.Model Clarabel.Nonsym.FloatTrans Clarabel.Nonsym.Spec.
Require Import Clarabel.Nonsym.LemmasExp Clarabel.Nonsym.LemmasPow Clarabel.Nonsym.LemmasThird
               Clarabel.Nonsym.LemmasGp Clarabel.Nonsym.LemmasGpD.
Import ListNotations.
Open Scope R_scope.

(** replace coordinate k *)
Fixpoint upd (k : nat) (l : list R) (t : R) : list R :=
  match l, k with
  | [], _ => []
  | _ :: r, O => t :: r
  | x :: r, S k' => x :: upd k' r t
  end.
Lemma upd_length k l t : length (upd k l t) = length l.
Proof. revert k; induction l as [|x l IH]; intros [|k]; cbn; auto. Qed.
Lemma upd_same k l : upd k l (nth k l 0) = l.
Proof. revert k; induction l as [|x l IH]; intros [|k]; cbn; auto. f_equal; apply IH. Qed.
Lemma nth_upd k l t : (k < length l)%nat -> nth k (upd k l t) 0 = t.
Proof. revert k; induction l as [|x l IH]; intros [|k] h; cbn in *; try lia; auto. apply IH; lia. Qed.

Definition gpP (al u : list R) : R := prod_pow (fun a x => Rpower (x / a) (2 * a)) al u.
Definition gpL (al u : list R) : R :=
  fold_right (fun p acc => (1 - fst p) * ln (snd p) + acc) 0 (combine al u).

Lemma gpP_pos al u : 0 < gpP al u.
Proof.
  unfold gpP, prod_pow. induction (combine al u) as [|p l IH]; cbn [fold_right]. lra.
  apply Rmult_lt_0_compat; [unfold Rpower; apply exp_pos|exact IH].
Qed.

Lemma gpP_upd al : forall u k, (k < length al)%nat -> length u = length al ->
  exists c, 0 < c /\ forall t, gpP al (upd k u t) = c * Rpower (t / nth k al 0) (2 * nth k al 0).
Proof.
  induction al as [|a al IH]; intros [|x u] [|k] hk hl; cbn in hk, hl; try lia.
  - exists (gpP al u). split; [apply gpP_pos|]. intro t. unfold gpP, prod_pow; cbn. ring.
  - destruct (IH u k) as (c & hc & e); try lia.
    exists (Rpower (x / a) (2 * a) * c). split.
    + apply Rmult_lt_0_compat; [unfold Rpower; apply exp_pos|exact hc].
    + intro t. specialize (e t). unfold gpP, prod_pow in *. cbn [upd combine fold_right fst snd nth].
      rewrite e. ring.
Qed.

Lemma gpL_upd al : forall u k, (k < length al)%nat -> length u = length al ->
  exists L', forall t, gpL al (upd k u t) = (1 - nth k al 0) * ln t + L'.
Proof.
  induction al as [|a al IH]; intros [|x u] [|k] hk hl; cbn in hk, hl; try lia.
  - exists (gpL al u). intro t. unfold gpL; cbn. ring.
  - destruct (IH u k) as (L' & e); try lia.
    exists ((1 - a) * ln x + L'). intro t. specialize (e t). unfold gpL in *.
    cbn [upd combine fold_right fst snd nth]. rewrite e. ring.
Qed.

Lemma sumsq_upd : forall w k, (k < length w)%nat ->
  exists S', 0 <= S' /\ forall t, sumsqR (upd k w t) = S' + t * t.
Proof.
  induction w as [|x w IH]; intros [|k] hk; cbn in hk; try lia.
  - exists (sumsqR w). split.
    + unfold sumsqR. clear. induction w as [|y w IH]; cbn. lra. nra.
    + intro t. unfold sumsqR; cbn. ring.
  - destruct (IH k) as (S' & hS & e); try lia.
    exists (x * x + S'). split. nra. intro t. specialize (e t). unfold sumsqR in *.
    cbn [upd fold_right]. rewrite e. ring.
Qed.

(** the model's folds are these products / sums *)
Lemma gp_phi_dual_eq al u : gp_phi_dual TOpsR al u = gpP al u.
Proof.
  unfold gp_phi_dual, gpP, prod_pow. cbn -[Rpower].
  assert (h : forall l acc,
    fold_left (fun phi p => phi * Rpower (snd p / fst p) (2 * fst p)) l acc
    = acc * fold_right (fun p acc => Rpower (snd p / fst p) (2 * fst p) * acc) 1 l).
  { induction l as [|p l IH]; intro acc; cbn [fold_left fold_right]. ring. rewrite IH. ring. }
  rewrite h. ring.
Qed.
Lemma sumsql_eq w : sumsql TOpsR w = sumsqR w.
Proof. unfold sumsql, dotl. cbn. rewrite dotl_sumsq. ring. Qed.

Lemma nth_gu phi zeta : forall al u k, (k < length al)%nat -> length u = length al ->
  nth k (map (fun p => - fst p * phi / zeta - (1 - fst (snd p)) / snd (snd p))
             (combine (map (fun p => 2 * fst p / snd p) (combine al u)) (combine al u))) 0
  = - (2 * nth k al 0 / nth k u 0) * phi / zeta - (1 - nth k al 0) / nth k u 0.
Proof.
  induction al as [|a al IH]; intros [|x u] [|k] hk hl; cbn in hk, hl; try lia.
  - reflexivity.
  - cbn [combine map nth]. apply IH; lia.
Qed.
Lemma nth_gw c : forall w k, (k < length w)%nat -> nth k (map (fun z => c * z) w) 0 = c * nth k w 0.
Proof. induction w as [|x w IH]; intros [|k] hk; cbn in *; try lia; auto. apply IH; lia. Qed.

Definition gp_interior (al u w : list R) : Prop :=
  length u = length al /\ List.Forall (fun a => 0 < a) al /\ List.Forall (fun x => 0 < x) u /\
  0 < gpP al u - sumsqR w.

Lemma gp_fstar_eq al u w : gp_fstar al u w = - ln (gpP al u - sumsqR w) - gpL al u.
Proof. reflexivity. Qed.

Lemma Forall_nth_pos l k : List.Forall (fun x => 0 < x) l -> (k < length l)%nat -> 0 < nth k l 0.
Proof. intros h hk. rewrite Forall_forall in h. apply h. apply nth_In. exact hk. Qed.

Theorem gp_grad_u_is_derivative al u w k : gp_interior al u w -> (k < length al)%nat ->
  is_derive (fun t => gp_fstar al (upd k u t) w) (nth k u 0)
            (nth k (gp_grad_u (gp_grad_H TOpsR al u w)) 0).
Proof.
  intros (hl & hal & hu & hz) hk.
  assert (ha : 0 < nth k al 0) by (apply Forall_nth_pos; auto).
  assert (hx : 0 < nth k u 0) by (apply Forall_nth_pos; auto; lia).
  destruct (gpP_upd al u k hk hl) as (c & hc & eP).
  destruct (gpL_upd al u k hk hl) as (L' & eL).
  assert (ephi : gpP al u = c * Rpower (nth k u 0 / nth k al 0) (2 * nth k al 0)).
  { rewrite <- eP, upd_same. reflexivity. }
  unfold gp_grad_H, gp_grad_u. rewrite gp_phi_dual_eq, sumsql_eq. cbn [tb TOpsR OpsR sub add mul div neg one ofZ].
  rewrite nth_gu by assumption.
  set (a := nth k al 0) in *. set (x := nth k u 0) in *.
  rewrite ephi in hz |- *. clearbody a x.
  apply (is_derive_ext (fun t => - ln (c * Rpower (t / a) (2 * a) - sumsqR w) - ((1 - a) * ln t + L'))).
  { intro t. rewrite gp_fstar_eq, eP, eL. reflexivity. }
  set (S := sumsqR w) in *. clearbody S.
  unfold Rpower in *. unfold Rdiv in hz.
  assert (hr : 0 < x * / a) by (apply Rdiv_lt_0_compat; lra).
  auto_derive.
  - repeat split; try assumption; try exact I; try lra.
  - unfold Rdiv in *. field. repeat split; nz.
Qed.

Theorem gp_grad_w_is_derivative al u w k : gp_interior al u w -> (k < length w)%nat ->
  is_derive (fun t => gp_fstar al u (upd k w t)) (nth k w 0)
            (nth k (gp_grad_w (gp_grad_H TOpsR al u w)) 0).
Proof.
  intros (hl & hal & hu & hz) hk.
  destruct (sumsq_upd w k hk) as (S' & hS & eS).
  assert (eS0 : sumsqR w = S' + nth k w 0 * nth k w 0) by (rewrite <- eS, upd_same; reflexivity).
  unfold gp_grad_H, gp_grad_w. rewrite gp_phi_dual_eq, sumsql_eq. cbn [tb TOpsR OpsR sub add mul div neg one ofZ].
  rewrite nth_gw by assumption.
  set (x := nth k w 0) in *. rewrite eS0 in hz |- *. clearbody x.
  apply (is_derive_ext (fun t => - ln (gpP al u - (S' + t * t)) - gpL al u)).
  { intro t. rewrite gp_fstar_eq, eS. reflexivity. }
  set (phi := gpP al u) in *. clearbody phi.
  auto_derive.
  - lra.
  - unfold Rdiv. field. lra.
Qed.

(** ** Hessian: D + p p' - q q' - r r' from the stored vectors, entry by entry *)
Definition gpHuu (d : @gp_data R) (i j : nat) : R :=
  (if Nat.eqb i j then nth i (gp_d1 d) 0 else 0)
  + nth i (gp_p_u d) 0 * nth j (gp_p_u d) 0 - nth i (gp_q d) 0 * nth j (gp_q d) 0.
Definition gpHuw (d : @gp_data R) (i k : nat) : R := nth i (gp_p_u d) 0 * nth k (gp_p_w d) 0.
Definition gpHww (d : @gp_data R) (k l : nat) : R :=
  (if Nat.eqb k l then gp_d2 d else 0)
  + nth k (gp_p_w d) 0 * nth l (gp_p_w d) 0 - nth k (gp_r d) 0 * nth l (gp_r d) 0.

Lemma nth_map_tau3 (h : R -> R -> R -> R) : forall al u k, (k < length al)%nat -> length u = length al ->
  nth k (map (fun p => h (fst p) (fst (snd p)) (snd (snd p)))
             (combine (map (fun p => 2 * fst p / snd p) (combine al u)) (combine al u))) 0
  = h (2 * nth k al 0 / nth k u 0) (nth k al 0) (nth k u 0).
Proof.
  induction al as [|a al IH]; intros [|x u] [|k] hk hl; cbn in hk, hl; try lia.
  - reflexivity.
  - cbn [combine map nth]. apply IH; lia.
Qed.
Lemma nth_map_tau1 (h : R -> R) : forall al u k, (k < length al)%nat -> length u = length al ->
  nth k (map h (map (fun p => 2 * fst p / snd p) (combine al u))) 0 = h (2 * nth k al 0 / nth k u 0).
Proof.
  induction al as [|a al IH]; intros [|x u] [|k] hk hl; cbn in hk, hl; try lia.
  - reflexivity.
  - cbn [combine map nth]. apply IH; lia.
Qed.
Lemma nth_upd_other : forall l j i t, i <> j -> nth i (upd j l t) 0 = nth i l 0.
Proof.
  induction l as [|x l IH]; intros [|j] [|i] t h; cbn; auto; try congruence.
Qed.

(** scalar forms of the stored gradient *)
Definition Gu (a x phi S : R) : R := - (2 * a / x) * phi / (phi - S) - (1 - a) / x.
Definition Gw (x phi S : R) : R := 2 / (phi - S) * x.
Lemma gp_grad_u_scalar al u w i : (i < length al)%nat -> length u = length al ->
  nth i (gp_grad_u (gp_grad_H TOpsR al u w)) 0 = Gu (nth i al 0) (nth i u 0) (gpP al u) (sumsqR w).
Proof.
  intros hi hl. unfold gp_grad_H, gp_grad_u. rewrite gp_phi_dual_eq, sumsql_eq.
  cbn [tb TOpsR OpsR sub add mul div neg one ofZ]. rewrite nth_gu by assumption. reflexivity.
Qed.
Lemma gp_grad_w_scalar al u w k : (k < length w)%nat ->
  nth k (gp_grad_w (gp_grad_H TOpsR al u w)) 0 = Gw (nth k w 0) (gpP al u) (sumsqR w).
Proof.
  intros hk. unfold gp_grad_H, gp_grad_w. rewrite gp_phi_dual_eq, sumsql_eq.
  cbn [tb TOpsR OpsR sub add mul div neg one ofZ]. rewrite nth_gw by assumption. reflexivity.
Qed.

Section Closed.
Variables (al u w : list R).
Hypothesis hint : gp_interior al u w.
Let phi := gpP al u.
Let n := sumsqR w.
Let zeta := phi - n.
Let d := gp_grad_H TOpsR al u w.
Let tau (i : nat) := 2 * nth i al 0 / nth i u 0.

Lemma sumsqR_nonneg l : 0 <= sumsqR l.
Proof. unfold sumsqR. induction l as [|y l IH]; cbn. lra. nra. Qed.

Let hphi : 0 < phi. Proof. apply gpP_pos. Qed.
Let hn : 0 <= n. Proof. apply sumsqR_nonneg. Qed.
Let hzeta : 0 < zeta. Proof. destruct hint as (_ & _ & _ & h). exact h. Qed.

Let p0 := R_sqrt.sqrt (phi * (phi + n) / 2).
Let q0 := R_sqrt.sqrt (zeta * phi / 2).
Let r1 := 2 * R_sqrt.sqrt (zeta / (phi + n)).
Let p1 := - (2) * phi / p0.

Lemma p0_sq : p0 * p0 = phi * (phi + n) / 2.
Proof. apply sqrt_sqrt. apply Rlt_le, Rdiv_lt_0_compat; [apply Rmult_lt_0_compat|]; lra. Qed.
Lemma p0_pos : 0 < p0.
Proof. apply sqrt_lt_R0. apply Rdiv_lt_0_compat; [apply Rmult_lt_0_compat|]; lra. Qed.
Lemma q0_sq : q0 * q0 = zeta * phi / 2.
Proof. apply sqrt_sqrt. apply Rlt_le, Rdiv_lt_0_compat; [apply Rmult_lt_0_compat|]; lra. Qed.
Lemma r1_sq : r1 * r1 = 4 * zeta / (phi + n).
Proof.
  unfold r1. replace (2 * R_sqrt.sqrt (zeta / (phi + n)) * (2 * R_sqrt.sqrt (zeta / (phi + n))))
    with (4 * (R_sqrt.sqrt (zeta / (phi + n)) * R_sqrt.sqrt (zeta / (phi + n)))) by ring.
  rewrite sqrt_sqrt. field; lra. apply Rlt_le, Rdiv_lt_0_compat; lra.
Qed.
Lemma p0p1 : p0 * p1 = - (2) * phi.
Proof. unfold p1. pose proof p0_pos. field. lra. Qed.
Lemma p1_sq : p1 * p1 = 8 * phi / (phi + n).
Proof.
  pose proof p0_pos as hp. unfold p1.
  replace (- (2) * phi / p0 * (- (2) * phi / p0)) with (4 * phi * phi / (p0 * p0)) by (field; lra).
  rewrite p0_sq. field. split; lra.
Qed.

Lemma d_pu i : (i < length al)%nat -> nth i (gp_p_u d) 0 = p0 / zeta * tau i.
Proof.
  intro hi. destruct hint as (hl & _). unfold d, gp_grad_H, gp_p_u.
  rewrite gp_phi_dual_eq, sumsql_eq. cbn [tb TOpsR OpsR sub add mul div neg one ofZ Ops.sqrt].
  rewrite (nth_map_tau1 (fun t => _ * t)) by assumption. reflexivity.
Qed.
Lemma d_q i : (i < length al)%nat -> nth i (gp_q d) 0 = tau i * (q0 / zeta).
Proof.
  intro hi. destruct hint as (hl & _). unfold d, gp_grad_H, gp_q.
  rewrite gp_phi_dual_eq, sumsql_eq. cbn [tb TOpsR OpsR sub add mul div neg one ofZ Ops.sqrt].
  rewrite (nth_map_tau1 (fun t => t * _)) by assumption. reflexivity.
Qed.
Lemma d_d1 i : (i < length al)%nat ->
  nth i (gp_d1 d) 0 = tau i * phi / (zeta * nth i u 0) + (1 - nth i al 0) / (nth i u 0 * nth i u 0).
Proof.
  intro hi. destruct hint as (hl & _). unfold d, gp_grad_H, gp_d1.
  rewrite gp_phi_dual_eq, sumsql_eq. cbn [tb TOpsR OpsR sub add mul div neg one ofZ Ops.sqrt].
  rewrite (nth_map_tau3 (fun t a x => t * _ / (_ * x) + (1 - a) / (x * x))) by assumption. reflexivity.
Qed.
Lemma d_pw k : (k < length w)%nat -> nth k (gp_p_w d) 0 = p1 / zeta * nth k w 0.
Proof.
  intro hk. unfold d, gp_grad_H, gp_p_w.
  rewrite gp_phi_dual_eq, sumsql_eq. cbn [tb TOpsR OpsR sub add mul div neg one ofZ Ops.sqrt].
  rewrite nth_gw by assumption. reflexivity.
Qed.
Lemma d_r k : (k < length w)%nat -> nth k (gp_r d) 0 = r1 / zeta * nth k w 0.
Proof.
  intro hk. unfold d, gp_grad_H, gp_r.
  rewrite gp_phi_dual_eq, sumsql_eq. cbn [tb TOpsR OpsR sub add mul div neg one ofZ Ops.sqrt].
  rewrite nth_gw by assumption. reflexivity.
Qed.
Lemma d_d2 : gp_d2 d = 2 / zeta.
Proof.
  unfold d, gp_grad_H, gp_d2. rewrite gp_phi_dual_eq, sumsql_eq. reflexivity.
Qed.

(** square-root-free closed forms *)
Lemma Huu_closed i j : (i < length al)%nat -> (j < length al)%nat ->
  gpHuu d i j = (if Nat.eqb i j then tau i * phi / (zeta * nth i u 0) + (1 - nth i al 0) / (nth i u 0 * nth i u 0) else 0)
                + tau i * tau j * phi * n / (zeta * zeta).
Proof.
  intros hi hj. unfold gpHuu. rewrite !d_pu, !d_q, d_d1 by assumption.
  assert (hz' : 0 < phi - n) by exact hzeta.
  assert (hui : 0 < nth i u 0).
  { destruct hint as (hl & _ & hu & _). apply Forall_nth_pos; auto. lia. }
  generalize (tau i) (tau j); intros ti tj.
  match goal with |- ?X + ?A - ?B = _ =>
    replace (X + A - B) with (X + ti * tj * (p0 * p0 - q0 * q0) / (zeta * zeta)) by (field; lra) end.
  rewrite p0_sq, q0_sq. destruct (Nat.eqb i j); unfold zeta; field; lra.
Qed.
Lemma Huw_closed i k : (i < length al)%nat -> (k < length w)%nat ->
  gpHuw d i k = - (2) * phi * tau i * nth k w 0 / (zeta * zeta).
Proof.
  intros hi hk. unfold gpHuw. rewrite d_pu, d_pw by assumption.
  assert (hz' : 0 < phi - n) by exact hzeta. generalize (tau i); intro ti.
  replace (p0 / zeta * ti * (p1 / zeta * nth k w 0)) with ((p0 * p1) * ti * nth k w 0 / (zeta * zeta)) by (field; lra).
  rewrite p0p1. reflexivity.
Qed.
Lemma Hww_closed k l : (k < length w)%nat -> (l < length w)%nat ->
  gpHww d k l = (if Nat.eqb k l then 2 / zeta else 0) + 4 * nth k w 0 * nth l w 0 / (zeta * zeta).
Proof.
  intros hk hl. unfold gpHww. rewrite !d_pw, !d_r, d_d2 by assumption.
  assert (hz' : 0 < phi - n) by exact hzeta.
  match goal with |- ?X + ?A - ?B = _ =>
    replace (X + A - B) with (X + (p1 * p1 - r1 * r1) * nth k w 0 * nth l w 0 / (zeta * zeta)) by (field; lra) end.
  rewrite p1_sq, r1_sq. destruct (Nat.eqb k l); unfold zeta; field; lra.
Qed.
End Closed.

(** scalar derivative facts *)
Section Scalar.
Variables (c S : R).
Hypothesis hc : 0 < c.

Ltac sc_deriv := unfold Gu, Gw, Rpower in *; auto_derive;
  [ repeat split; try assumption; try exact I; try lra; nz
  | unfold Rdiv in *; field; repeat split; nz ].

Lemma sc_A1 ai xi aj xj : 0 < ai -> 0 < xi -> 0 < aj -> 0 < xj ->
  0 < c * Rpower (xj / aj) (2 * aj) - S ->
  let phi := c * Rpower (xj / aj) (2 * aj) in
  is_derive (fun t => Gu ai xi (c * Rpower (t / aj) (2 * aj)) S) xj
            ((2 * ai / xi) * (2 * aj / xj) * phi * S / ((phi - S) * (phi - S))).
Proof.
  intros hai hxi haj hxj hz. cbv zeta.
  assert (hr : 0 < xj * / aj) by (apply Rdiv_lt_0_compat; lra).
  unfold Rdiv in hz. sc_deriv.
Qed.
Lemma sc_A2 a x : 0 < a -> 0 < x -> 0 < c * Rpower (x / a) (2 * a) - S ->
  let phi := c * Rpower (x / a) (2 * a) in
  is_derive (fun t => Gu a t (c * Rpower (t / a) (2 * a)) S) x
            ((2 * a / x) * phi / ((phi - S) * x) + (1 - a) / (x * x)
             + (2 * a / x) * (2 * a / x) * phi * S / ((phi - S) * (phi - S))).
Proof.
  intros ha hx hz. cbv zeta.
  assert (hr : 0 < x * / a) by (apply Rdiv_lt_0_compat; lra).
  unfold Rdiv in hz. sc_deriv.
Qed.
Lemma sc_C wk aj xj : 0 < aj -> 0 < xj -> 0 < c * Rpower (xj / aj) (2 * aj) - S ->
  let phi := c * Rpower (xj / aj) (2 * aj) in
  is_derive (fun t => Gw wk (c * Rpower (t / aj) (2 * aj)) S) xj
            (- (2) * phi * (2 * aj / xj) * wk / ((phi - S) * (phi - S))).
Proof.
  intros haj hxj hz. cbv zeta.
  assert (hr : 0 < xj * / aj) by (apply Rdiv_lt_0_compat; lra).
  unfold Rdiv in hz. sc_deriv.
Qed.
End Scalar.

Ltac sc_deriv2 := unfold Gu, Gw; auto_derive;
  [ repeat split; try assumption; try exact I; try lra; nz
  | unfold Rdiv in *; field; repeat split; nz ].
Lemma sc_B a x phi S' wk : 0 < x -> 0 < phi - (S' + wk * wk) ->
  is_derive (fun t => Gu a x phi (S' + t * t)) wk
            (- (2) * phi * (2 * a / x) * wk / ((phi - (S' + wk * wk)) * (phi - (S' + wk * wk)))).
Proof. intros hx hz. sc_deriv2. Qed.
Lemma sc_D1 wk phi S' wl : 0 < phi - (S' + wl * wl) ->
  is_derive (fun t => Gw wk phi (S' + t * t)) wl
            (4 * wk * wl / ((phi - (S' + wl * wl)) * (phi - (S' + wl * wl)))).
Proof. intros hz. sc_deriv2. Qed.
Lemma sc_D2 phi S' wk : 0 < phi - (S' + wk * wk) ->
  is_derive (fun t => Gw t phi (S' + t * t)) wk
            (2 / (phi - (S' + wk * wk)) + 4 * wk * wk / ((phi - (S' + wk * wk)) * (phi - (S' + wk * wk)))).
Proof. intros hz. sc_deriv2. Qed.

(** ** the stored D + p p' - q q' - r r' is the Hessian of the dual barrier *)
Lemma eqb_neq_false i j : i <> j -> Nat.eqb i j = false.
Proof. intro h. apply Nat.eqb_neq. exact h. Qed.

Theorem gp_hess_uu al u w i j : gp_interior al u w -> (i < length al)%nat -> (j < length al)%nat ->
  is_derive (fun t => nth i (gp_grad_u (gp_grad_H TOpsR al (upd j u t) w)) 0) (nth j u 0)
            (gpHuu (gp_grad_H TOpsR al u w) i j).
Proof.
  intros hint hi hj. pose proof hint as (hl & hal & hu & hz).
  rewrite (Huu_closed al u w hint i j hi hj).
  assert (hai : 0 < nth i al 0) by (apply Forall_nth_pos; auto).
  assert (haj : 0 < nth j al 0) by (apply Forall_nth_pos; auto).
  assert (hxi : 0 < nth i u 0) by (apply Forall_nth_pos; auto; lia).
  assert (hxj : 0 < nth j u 0) by (apply Forall_nth_pos; auto; lia).
  destruct (gpP_upd al u j hj hl) as (c & hc & eP).
  assert (ephi : gpP al u = c * Rpower (nth j u 0 / nth j al 0) (2 * nth j al 0)).
  { rewrite <- eP, upd_same. reflexivity. }
  rewrite ephi in hz |- *.
  destruct (Nat.eq_dec i j) as [e|ne].
  - subst j. rewrite Nat.eqb_refl.
    apply (is_derive_ext (fun t => Gu (nth i al 0) t (c * Rpower (t / nth i al 0) (2 * nth i al 0)) (sumsqR w))).
    { intro t. rewrite gp_grad_u_scalar by (rewrite ?upd_length; auto). rewrite nth_upd by lia. rewrite eP. reflexivity. }
    apply sc_A2; auto.
  - rewrite (eqb_neq_false i j ne), Rplus_0_l.
    apply (is_derive_ext (fun t => Gu (nth i al 0) (nth i u 0) (c * Rpower (t / nth j al 0) (2 * nth j al 0)) (sumsqR w))).
    { intro t. rewrite gp_grad_u_scalar by (rewrite ?upd_length; auto). rewrite nth_upd_other by auto. rewrite eP. reflexivity. }
    apply sc_A1; auto.
Qed.

Theorem gp_hess_uw al u w i k : gp_interior al u w -> (i < length al)%nat -> (k < length w)%nat ->
  is_derive (fun t => nth i (gp_grad_u (gp_grad_H TOpsR al u (upd k w t))) 0) (nth k w 0)
            (gpHuw (gp_grad_H TOpsR al u w) i k).
Proof.
  intros hint hi hk. pose proof hint as (hl & hal & hu & hz).
  rewrite (Huw_closed al u w hint i k hi hk).
  assert (hxi : 0 < nth i u 0) by (apply Forall_nth_pos; auto; lia).
  destruct (sumsq_upd w k hk) as (S' & hS & eS).
  assert (eS0 : sumsqR w = S' + nth k w 0 * nth k w 0) by (rewrite <- eS, upd_same; reflexivity).
  rewrite eS0 in hz |- *.
  apply (is_derive_ext (fun t => Gu (nth i al 0) (nth i u 0) (gpP al u) (S' + t * t))).
  { intro t. rewrite gp_grad_u_scalar by auto. rewrite eS. reflexivity. }
  apply sc_B; auto.
Qed.

Theorem gp_hess_wu al u w k j : gp_interior al u w -> (k < length w)%nat -> (j < length al)%nat ->
  is_derive (fun t => nth k (gp_grad_w (gp_grad_H TOpsR al (upd j u t) w)) 0) (nth j u 0)
            (gpHuw (gp_grad_H TOpsR al u w) j k).
Proof.
  intros hint hk hj. pose proof hint as (hl & hal & hu & hz).
  rewrite (Huw_closed al u w hint j k hj hk).
  assert (haj : 0 < nth j al 0) by (apply Forall_nth_pos; auto).
  assert (hxj : 0 < nth j u 0) by (apply Forall_nth_pos; auto; lia).
  destruct (gpP_upd al u j hj hl) as (c & hc & eP).
  assert (ephi : gpP al u = c * Rpower (nth j u 0 / nth j al 0) (2 * nth j al 0)).
  { rewrite <- eP, upd_same. reflexivity. }
  rewrite ephi in hz |- *.
  apply (is_derive_ext (fun t => Gw (nth k w 0) (c * Rpower (t / nth j al 0) (2 * nth j al 0)) (sumsqR w))).
  { intro t. rewrite gp_grad_w_scalar by auto. rewrite eP. reflexivity. }
  apply sc_C; auto.
Qed.

Theorem gp_hess_ww al u w k l : gp_interior al u w -> (k < length w)%nat -> (l < length w)%nat ->
  is_derive (fun t => nth k (gp_grad_w (gp_grad_H TOpsR al u (upd l w t))) 0) (nth l w 0)
            (gpHww (gp_grad_H TOpsR al u w) k l).
Proof.
  intros hint hk hl'. pose proof hint as (hl & hal & hu & hz).
  rewrite (Hww_closed al u w hint k l hk hl').
  destruct (sumsq_upd w l hl') as (S' & hS & eS).
  assert (eS0 : sumsqR w = S' + nth l w 0 * nth l w 0) by (rewrite <- eS, upd_same; reflexivity).
  rewrite eS0 in hz |- *.
  destruct (Nat.eq_dec k l) as [e|ne].
  - subst l. rewrite Nat.eqb_refl.
    apply (is_derive_ext (fun t => Gw t (gpP al u) (S' + t * t))).
    { intro t. rewrite gp_grad_w_scalar by (rewrite upd_length; auto). rewrite nth_upd by auto. rewrite eS. reflexivity. }
    apply sc_D2; auto.
  - rewrite (eqb_neq_false k l ne), Rplus_0_l.
    apply (is_derive_ext (fun t => Gw (nth k w 0) (gpP al u) (S' + t * t))).
    { intro t. rewrite gp_grad_w_scalar by (rewrite upd_length; auto). rewrite nth_upd_other by auto. rewrite eS. reflexivity. }
    apply sc_D1; auto.
Qed.

(** ** logarithmic homogeneity of degree dim1 + 1 (needs sum alpha = 1) *)
Definition dotR (a b : list R) : R := fold_right (fun p acc => fst p * snd p + acc) 0 (combine a b).
Definition sumR (a : list R) : R := fold_right Rplus 0 a.

Lemma dot_gu phi zeta : zeta <> 0 -> forall al u, length u = length al -> List.Forall (fun x => 0 < x) u ->
  dotR (map (fun p => - fst p * phi / zeta - (1 - fst (snd p)) / snd (snd p))
            (combine (map (fun p => 2 * fst p / snd p) (combine al u)) (combine al u))) u
  = - (2 * phi / zeta) * sumR al - (INR (length al) - sumR al).
Proof.
  intro hzn. induction al as [|a al IH]; intros [|x u] hl hu; cbn in hl; try lia.
  - unfold dotR, sumR; cbn. field. exact hzn.
  - inversion hu as [|? ? hx hu']; subst.
    unfold dotR, sumR in *. cbn [combine map fold_right fst snd length].
    rewrite IH by (auto; lia). rewrite S_INR. field. split; [exact hzn|lra].
Qed.
Lemma dot_gw c : forall w, dotR (map (fun z => c * z) w) w = c * sumsqR w.
Proof.
  induction w as [|x w IH]. unfold dotR, sumsqR; cbn; ring.
  unfold dotR, sumsqR in *. cbn [combine map fold_right fst snd]. rewrite IH. ring.
Qed.

Theorem gp_log_homogeneous al u w : gp_interior al u w -> sumR al = 1 ->
  let d := gp_grad_H TOpsR al u w in
  dotR (gp_grad_u d) u + dotR (gp_grad_w d) w = - (INR (length al) + 1).
Proof.
  intros (hl & hal & hu & hz) hsum. cbv zeta.
  unfold gp_grad_H, gp_grad_u, gp_grad_w. rewrite gp_phi_dual_eq, sumsql_eq.
  cbn [tb TOpsR OpsR sub add mul div neg one ofZ].
  rewrite dot_gu, dot_gw by (try assumption; lra). rewrite hsum. field. lra.
Qed.

(** ** summary statements used by Props/C14.v *)
Definition stmt_gp_grad_is_derivative : Prop := forall al u w, gp_interior al u w ->
  let d := gp_grad_H TOpsR al u w in
  (forall k, (k < length al)%nat ->
     is_derive (fun t => gp_fstar al (upd k u t) w) (nth k u 0) (nth k (gp_grad_u d) 0)) /\
  (forall k, (k < length w)%nat ->
     is_derive (fun t => gp_fstar al u (upd k w t)) (nth k w 0) (nth k (gp_grad_w d) 0)).
(** the dense matrix D + p p' - q q' - r r' built from the stored vectors ([gpHuu], [gpHuw],
    [gpHww]) is the Jacobian of the stored gradient *)
Definition stmt_gp_hess_is_derivative : Prop := forall al u w, gp_interior al u w ->
  let d := gp_grad_H TOpsR al u w in
  (forall i j, (i < length al)%nat -> (j < length al)%nat ->
     is_derive (fun t => nth i (gp_grad_u (gp_grad_H TOpsR al (upd j u t) w)) 0) (nth j u 0) (gpHuu d i j)) /\
  (forall i k, (i < length al)%nat -> (k < length w)%nat ->
     is_derive (fun t => nth i (gp_grad_u (gp_grad_H TOpsR al u (upd k w t))) 0) (nth k w 0) (gpHuw d i k)) /\
  (forall k j, (k < length w)%nat -> (j < length al)%nat ->
     is_derive (fun t => nth k (gp_grad_w (gp_grad_H TOpsR al (upd j u t) w)) 0) (nth j u 0) (gpHuw d j k)) /\
  (forall k l, (k < length w)%nat -> (l < length w)%nat ->
     is_derive (fun t => nth k (gp_grad_w (gp_grad_H TOpsR al u (upd l w t))) 0) (nth l w 0) (gpHww d k l)).
Definition stmt_gp_log_homogeneous : Prop := forall al u w, gp_interior al u w -> sumR al = 1 ->
  let d := gp_grad_H TOpsR al u w in
  dotR (gp_grad_u d) u + dotR (gp_grad_w d) w = - (INR (length al) + 1).

Theorem gp_grad_is_derivative_ok : stmt_gp_grad_is_derivative.
Proof.
  intros al u w h. cbv zeta. split; intros k hk.
  - apply gp_grad_u_is_derivative; auto.
  - apply gp_grad_w_is_derivative; auto.
Qed.
Theorem gp_hess_is_derivative_ok : stmt_gp_hess_is_derivative.
Proof.
  intros al u w h. cbv zeta. split; [|split; [|split]]; intros.
  - apply gp_hess_uu; auto.
  - apply gp_hess_uw; auto.
  - apply gp_hess_wu; auto.
  - apply gp_hess_ww; auto.
Qed.
Theorem gp_log_homogeneous_ok : stmt_gp_log_homogeneous.
Proof. intros al u w h hs. apply gp_log_homogeneous; auto. Qed.

Example gp_interior_example : gp_interior [1 / 4; 3 / 4] [1; 1] [1].
Proof.
  unfold gp_interior, gpP, prod_pow, sumsqR; cbn -[Rpower]. repeat split; try (repeat constructor; lra).
  unfold Rpower. rewrite !Rmult_1_r.
  replace (1 / (1 / 4)) with 4 by field. replace (1 / (3 / 4)) with (4 / 3) by field.
  assert (h : 1 < exp (2 * (1 / 4) * ln 4) * exp (2 * (3 / 4) * ln (4 / 3))).
  { rewrite <- exp_plus. rewrite <- exp_0 at 1. apply exp_increasing.
    assert (0 < ln 4) by (rewrite <- ln_1; apply ln_increasing; lra).
    assert (0 < ln (4 / 3)) by (rewrite <- ln_1; apply ln_increasing; lra). nra. }
  lra.
Qed.
