(** C14 — Gallina models of the nonsymmetric-cone barrier calculus of Clarabel.rs.

    Hand transcription, line by line and in the same operation order, of
      src/algebra/densesym3x3/mod.rs                 (sym3_...)
      src/solver/core/cones/expcone.rs               (exp_..., wright_omega)
      src/solver/core/cones/powcone.rs               (pow_..., pow_newton_raphson)
      src/solver/core/cones/genpowcone.rs            (gp_...)
      src/solver/core/cones/nonsymmetric_common.rs   (pd_scaling, update_Hs, nr_onesided)
    over a record of scalar operations [TOps T] = [Ops T] (Base/Ops.v) extended locally with
    ln / exp / pow, machine epsilon and pi.  Interpreted at R for the theorems
    ([TOpsR], Nonsym/Lemmas*.v) and at primitive binary64 floats for the correspondence run
    ([TOpsF], Nonsym/FloatTrans.v).  No proofs in this file. *)
From Coq Require Import List ZArith Bool.
Import ListNotations.
Require Import Clarabel.Base.Ops.

Record TOps (T : Type) := mkTOps {
  tb : Ops T;
  tln : T -> T;          (* logsafe: ln x for x > 0 *)
  texp : T -> T;
  tpow : T -> T -> T;    (* powf *)
  teps : T;              (* T::epsilon() *)
  tpi : T }.
Arguments tb {T}. Arguments tln {T}. Arguments texp {T}. Arguments tpow {T}.
Arguments teps {T}. Arguments tpi {T}.

(** packed upper triangle of a symmetric 3x3 matrix, in the storage order of
    [DenseMatrixSym3::data]: (0,0) (0,1) (1,1) (0,2) (1,2) (2,2) *)
Record sym3 (T : Type) := S3 { m00 : T; m01 : T; m11 : T; m02 : T; m12 : T; m22 : T }.
Arguments S3 {T}. Arguments m00 {T}. Arguments m01 {T}. Arguments m11 {T}.
Arguments m02 {T}. Arguments m12 {T}. Arguments m22 {T}.

Definition v3 (T : Type) := (T * T * T)%type.

Section Model.
Context {T : Type} (O : TOps T).

Local Notation "0" := (zero (tb O)).
Local Notation "1" := (one (tb O)).
Local Notation "x + y" := (add (tb O) x y).
Local Notation "x - y" := (sub (tb O) x y).
Local Notation "x * y" := (mul (tb O) x y).
Local Notation "x / y" := (div (tb O) x y).
Local Notation "- x" := (neg (tb O) x).
Local Notation "x <? y" := (ltb (tb O) x y).
Local Notation "x <=? y" := (leb (tb O) x y).
Local Notation ln := (tln O).
Local Notation exp := (texp O).
Local Notation pow := (tpow O).
Local Notation sqrt := (Ops.sqrt (tb O)).
Local Notation abs := (Ops.abs (tb O)).
Local Notation eps := (teps O).
Local Notation cst z := (ofZ (tb O) z).
Local Notation two := (ofZ (tb O) 2).
Local Notation three := (ofZ (tb O) 3).
Local Notation four := (ofZ (tb O) 4).
Local Notation half := (div (tb O) (one (tb O)) (ofZ (tb O) 2)).
Definition recip (x : T) : T := 1 / x.

(** ** vectors of length 3 *)
Definition dot3 (a b : v3 T) : T :=
  let '(a0, a1, a2) := a in let '(b0, b1, b2) := b in
  ((0 + a0 * b0) + a1 * b1) + a2 * b2.
Definition scale3 (c : T) (a : v3 T) : v3 T :=
  let '(a0, a1, a2) := a in (a0 * c, a1 * c, a2 * c).

(** ** DenseMatrixSym3 *)
Definition sym3_mul (H : sym3 T) (x : v3 T) : v3 T :=
  let '(x0, x1, x2) := x in
  (((m00 H * x0) + (m01 H * x1)) + (m02 H * x2),
   ((m01 H * x0) + (m11 H * x1)) + (m12 H * x2),
   ((m02 H * x0) + (m12 H * x1)) + (m22 H * x2)).

Definition sym3_scaled_from (c : T) (B : sym3 T) : sym3 T :=
  S3 (c * m00 B) (c * m01 B) (c * m11 B) (c * m02 B) (c * m12 B) (c * m22 B).

Definition sym3_norm_fro (H : sym3 T) : T :=
  let sumsq := 0 + (((m00 H * m00 H) + (m11 H * m11 H)) + (m22 H * m22 H)) in
  let sumsq := sumsq + ((((m01 H * m01 H) + (m02 H * m02 H)) + (m12 H * m12 H)) * two) in
  sqrt sumsq.

Definition sym3_quad_form (H : sym3 T) (y x : v3 T) : T :=
  let '(x0, x1, x2) := x in let '(y0, y1, y2) := y in
  let out := 0 + y0 * (((m00 H * x0) + (m01 H * x1)) + (m02 H * x2)) in
  let out := out + y1 * (((m01 H * x0) + (m11 H * x1)) + (m12 H * x2)) in
  out + y2 * (((m02 H * x0) + (m12 H * x1)) + (m22 H * x2)).

(** [cholesky_3x3_explicit_factor]: the lower factor is stored in the same packed layout
    (L(1,0) in slot (0,1), L(2,0) in slot (0,2), L(2,1) in slot (1,2)); [None] = a pivot
    is not positive. *)
Definition sym3_chol_factor (A : sym3 T) : option (sym3 T) :=
  let t := m00 A in
  if t <=? 0 then None else
  let l00 := sqrt t in
  let l10 := m01 A / l00 in
  let t := m11 A - l10 * l10 in
  if t <=? 0 then None else
  let l11 := sqrt t in
  let l20 := m02 A / l00 in
  let l21 := (m12 A - l10 * l20) / l11 in
  let t := (m22 A - l20 * l20) - l21 * l21 in
  if t <=? 0 then None else
  let l22 := sqrt t in
  Some (S3 l00 l10 l11 l20 l21 l22).

Definition sym3_chol_solve (L : sym3 T) (b : v3 T) : v3 T :=
  let '(b0, b1, b2) := b in
  let l00 := m00 L in let l10 := m01 L in let l11 := m11 L in
  let l20 := m02 L in let l21 := m12 L in let l22 := m22 L in
  let c1 := b0 / l00 in
  let c2 := (b1 * l00 - b0 * l10) / (l00 * l11) in
  let c3 := ((((b2 * l00) * l11 - (b1 * l00) * l21) + (b0 * l10) * l21) - (b0 * l11) * l20)
            / ((l00 * l11) * l22) in
  let x0 := (((((c1 * l11) * l22) - ((c2 * l10) * l22)) + ((c3 * l10) * l21)) - ((c3 * l11) * l20))
            / ((l00 * l11) * l22) in
  let x1 := (c2 * l22 - c3 * l21) / (l11 * l22) in
  let x2 := c3 / l22 in
  (x0, x1, x2).

(** ** Exponential cone *)
Definition exp_is_primal_feasible (s : v3 T) : bool :=
  let '(s0, s1, s2) := s in
  if (0 <? s2) && (0 <? s1) then
    let res := s1 * ln (s2 / s1) - s0 in
    0 <? res
  else false.

Definition exp_is_dual_feasible (z : v3 T) : bool :=
  let '(z0, z1, z2) := z in
  if (0 <? z2) && (z0 <? 0) then
    let res := (z1 - z0) - z0 * ln (- z2 / z0) in
    0 <? res
  else false.

Definition exp_barrier_dual (z : v3 T) : T :=
  let '(z0, z1, z2) := z in
  let l := ln (- z2 / z0) in
  - ln (- z2 * z0) - ln ((z1 - z0) - z0 * l).

(** [update_dual_grad_H]: returns (grad, H_dual) *)
Definition exp_grad_H (z : v3 T) : v3 T * sym3 T :=
  let '(z0, z1, z2) := z in
  let l := ln (- z2 / z0) in
  let r := (- z0 * l - z0) + z1 in
  let c2 := recip r in
  let g0 := c2 * l - recip z0 in
  let g1 := - c2 in
  let g2 := (c2 * z0 - 1) / z2 in
  let h00 := ((r * r - z0 * r) + ((l * l) * z0) * z0) / (((r * z0) * z0) * r) in
  let h01 := - l / (r * r) in
  let h11 := recip (r * r) in
  let h02 := (z1 - z0) / ((r * r) * z2) in
  let h12 := - z0 / ((r * r) * z2) in
  let h22 := ((r * r - z0 * r) + z0 * z0) / (((r * r) * z2) * z2) in
  ((g0, g1, g2), S3 h00 h01 h11 h02 h12 h22).

(** [higher_correction]; H = stored H_dual, z = stored z *)
Definition exp_higher_correction (H : sym3 T) (z ds v : v3 T) : v3 T :=
  match sym3_chol_factor H with
  | None => (0, 0, 0)
  | Some cholH =>
    let u := sym3_chol_solve cholH ds in
    let '(z0, z1, z2) := z in
    let '(u0, u1, u2) := u in
    let '(v0, v1, v2) := v in
    let e1 := 1 in
    let e2 := - z0 / z2 in
    let e0 := ln e2 in
    let psi := (z0 * e0 - z0) + z1 in
    let dotpsiu := dot3 u (e0, e1, e2) in
    let dotpsiv := dot3 v (e0, e1, e2) in
    let coef := ((u0 * (v0 / z0 - v2 / z2) + (u2 * ((z0 * v2) / z2 - v0)) / z2) * psi
                 - (two * dotpsiu) * dotpsiv) / ((psi * psi) * psi) in
    let '(e0, e1, e2) := scale3 coef (e0, e1, e2) in
    let inv_psi2 := recip (psi * psi) in
    let e0 := e0 + ((((((recip psi - two / z0) * u0) * v0) / (z0 * z0)
                      - ((u2 * v2) / (z2 * z2)) / psi)
                     + (dotpsiu * inv_psi2) * (v0 / z0 - v2 / z2))
                    + (dotpsiv * inv_psi2) * (u0 / z0 - u2 / z2)) in
    let e2 := e2 + ((((((two * (z0 / psi - 1)) * u2) * v2) / ((z2 * z2) * z2)
                      - ((u2 * v0 + u0 * v2) / (z2 * z2)) / psi)
                     + (dotpsiu * inv_psi2) * ((z0 * v2) / (z2 * z2) - v0 / z2))
                    + (dotpsiv * inv_psi2) * ((z0 * u2) / (z2 * z2) - u0 / z2)) in
    scale3 half (e0, e1, e2)
  end.

(** [_wright_omega] (argument assumed >= 0; the Rust code panics below 0) *)
Definition wright_omega (z : T) : T :=
  let w :=
    if z <? 1 + tpi O then
      let zm1 := z - 1 in
      let p := zm1 in
      let w := 1 + p * half in
      let p := p * zm1 in
      let w := w + p * (1 / cst 16) in
      let p := p * zm1 in
      let w := w - p * (1 / cst 192) in
      let p := p * zm1 in
      let w := w - p * (1 / cst 3072) in
      let p := p * zm1 in
      w + p * (cst 13 / cst 61440)
    else
      let logz := ln z in
      let zinv := recip z in
      let w := z - logz in
      let q := logz * zinv in
      let w := w + q in
      let q := q * zinv in
      let w := w + q * (logz / two - 1) in
      let q := q * zinv in
      w + q * (((logz * logz) / three - logz * (three / two)) + 1) in
  let r := (z - w) - ln w in
  let step (wr : T * T) : T * T :=
    let '(w, r) := wr in
    let wp1 := w + 1 in
    let t := wp1 * (wp1 + (r * two) / three) in
    let w := w * (1 + ((r / wp1) * (t - r * half)) / (t - r)) in
    let r_4th := ((r * r) * r) * r in
    let wp1_6th := ((((wp1 * wp1) * wp1) * wp1) * wp1) * wp1 in
    let r := ((((w * w) * two - w * cst 8) - 1) / (wp1_6th * cst 72)) * r_4th in
    (w, r) in
  fst (step (step (w, r))).

(** [gradient_primal] with the value of omega supplied (used by the conjugacy theorem) *)
Definition exp_gradient_primal_of (om : T) (s : v3 T) : v3 T :=
  let '(s0, s1, s2) := s in
  let g0 := 1 / ((om - 1) * s1) in
  let g1 := (g0 + g0 * ln ((om * s1) / s2)) - 1 / s1 in
  let g2 := om / ((1 - om) * s2) in
  (g0, g1, g2).
Definition exp_omega_arg (s : v3 T) : T :=
  let '(s0, s1, s2) := s in (1 - s0 / s1) - ln (s1 / s2).
Definition exp_gradient_primal (s : v3 T) : v3 T :=
  exp_gradient_primal_of (wright_omega (exp_omega_arg s)) s.

Definition exp_barrier_primal (s : v3 T) : T :=
  let '(s0, s1, s2) := s in
  let om := wright_omega (exp_omega_arg s) in
  let om := ((om - 1) * (om - 1)) / om in
  ((- ln om - ln s1 * two) - ln s2) - three.

(** decimal constants: Rust parses the literal to the nearest double; m and 10^15 are both
    exactly representable, so the correctly rounded quotient is the same double. *)
Definition dec15 (m : Z) : T := cst m / cst (10 ^ 15).
Definition exp_unit_init : v3 T :=
  (- dec15 1051383945322714, dec15 556409619469370, dec15 1258967884768947).

(** ** 3-d power cone *)
Definition pow_is_primal_feasible (al : T) (s : v3 T) : bool :=
  let '(s0, s1, s2) := s in
  if (0 <? s0) && (0 <? s1) then
    let res := exp ((two * al) * ln s0 + (two * (1 - al)) * ln s1) - s2 * s2 in
    0 <? res
  else false.

Definition pow_is_dual_feasible (al : T) (z : v3 T) : bool :=
  let '(z0, z1, z2) := z in
  if (0 <? z0) && (0 <? z1) then
    let res := exp ((al * two) * ln (z0 / al) + ((1 - al) * ln (z1 / (1 - al))) * two) - z2 * z2 in
    0 <? res
  else false.

Definition pow_phi (al : T) (z0 z1 : T) : T :=
  pow (z0 / al) (two * al) * pow (z1 / (1 - al)) (two - two * al).

Definition pow_barrier_dual (al : T) (z : v3 T) : T :=
  let '(z0, z1, z2) := z in
  let arg1 := pow_phi al z0 z1 - z2 * z2 in
  (- ln arg1 - (1 - al) * ln z0) - al * ln z1.

Definition pow_grad_H (al : T) (z : v3 T) : v3 T * sym3 T :=
  let '(z0, z1, z2) := z in
  let phi := pow_phi al z0 z1 in
  let psi := phi - z2 * z2 in
  let gp0 := ((two * al) * phi) / (z0 * psi) in
  let gp1 := ((two * (1 - al)) * phi) / (z1 * psi) in
  let gp2 := (- two * z2) / psi in
  let h00 := (gp0 * gp0 - (((two * al) * (two * al - 1)) * phi) / ((z0 * z0) * psi))
             + (1 - al) / (z0 * z0) in
  let h01 := gp0 * gp1 - (((four * al) * (1 - al)) * phi) / ((z0 * z1) * psi) in
  let h11 := (gp1 * gp1 - (((two * (1 - al)) * (1 - two * al)) * phi) / ((z1 * z1) * psi))
             + al / (z1 * z1) in
  let h02 := gp0 * gp2 in
  let h12 := gp1 * gp2 in
  let h22 := gp2 * gp2 + two / psi in
  let g0 := ((- two * al) * phi) / (z0 * psi) - (1 - al) / z0 in
  let g1 := ((- two * (1 - al)) * phi) / (z1 * psi) - al / z1 in
  let g2 := (two * z2) / psi in
  ((g0, g1, g2), S3 h00 h01 h11 h02 h12 h22).

Definition pow_higher_correction (al : T) (H : sym3 T) (z ds v : v3 T) : v3 T :=
  match sym3_chol_factor H with
  | None => (0, 0, 0)
  | Some cholH =>
    let u := sym3_chol_solve cholH ds in
    let '(z0, z1, z2) := z in
    let '(u0, u1, u2) := u in
    let '(v0, v1, v2) := v in
    let phi := pow_phi al z0 z1 in
    let psi := phi - z2 * z2 in
    let e0 := ((two * al) * phi) / z0 in
    let e1 := ((two * (1 - al)) * phi) / z1 in
    let e2 := - two * z2 in
    let Hpsi := S3 ((((two * al) * (two * al - 1)) * phi) / (z0 * z0))
                   ((((four * al) * (1 - al)) * phi) / (z0 * z1))
                   ((((two * (1 - al)) * (1 - two * al)) * phi) / (z1 * z1))
                   0 0 (- two) in
    let dotpsiu := dot3 u (e0, e1, e2) in
    let dotpsiv := dot3 v (e0, e1, e2) in
    let Hpsiv := sym3_mul Hpsi v in
    let '(hv0, hv1, hv2) := Hpsiv in
    let coef := (dot3 u Hpsiv * psi - (two * dotpsiu) * dotpsiv) / ((psi * psi) * psi) in
    let coef2 := ((((((four * al) * (two * al - 1)) * (1 - al)) * phi) * (u0 / z0 - u1 / z1))
                  * (v0 / z0 - v1 / z1)) / psi in
    let inv_psi2 := recip (psi * psi) in
    let n0 := ((coef * e0 - (((two * (1 - al)) * u0) * v0) / ((z0 * z0) * z0)) + coef2 / z0)
              + (hv0 * dotpsiu) * inv_psi2 in
    let n1 := ((coef * e1 - (((two * al) * u1) * v1) / ((z1 * z1) * z1)) - coef2 / z1)
              + (hv1 * dotpsiu) * inv_psi2 in
    let n2 := coef * e2 + (hv2 * dotpsiu) * inv_psi2 in
    let '(hu0, hu1, hu2) := sym3_mul Hpsi u in
    let a := dotpsiv * inv_psi2 in
    scale3 half (a * hu0 + 1 * n0, a * hu1 + 1 * n1, a * hu2 + 1 * n2)
  end.

(** [newton_raphson_onesided]; at most 100 iterations *)
Fixpoint nr_onesided (fuel : nat) (f0 f1 : T -> T) (x : T) : T :=
  match fuel with
  | Datatypes.O => x
  | S k =>
    let dfdx := f1 x in
    let dx := - f0 x / dfdx in
    if (dx <? eps) || (abs (dx / x) <? sqrt eps) || (abs dfdx <? eps) then x
    else nr_onesided k f0 f1 (x + dx)
  end.

(** starting point; [psi] = 1/(al^2 + (1-al)^2) since the fix of finding F12 (the code used
    the constant 2 before, which is right for al = 1/2 only) *)
Definition pow_nr_x0 (s3 phi al : T) : T :=
  let psi := recip (al * al + (1 - al) * (1 - al)) in
  - recip s3 + (psi * s3 + sqrt ((((phi / s3) / s3 + psi * psi) - 1) * phi)) / (phi - s3 * s3).
Definition pow_nr_t0 (al : T) : T :=
  (- two * al) * ln al - (two * (1 - al)) * ln (1 - al).
Definition pow_nr_f0 (s3 phi al : T) (x : T) : T :=
  let t0 := pow_nr_t0 al in
  let t1 := x * x in
  let t2 := (x * two) / s3 in
  (((((two * al) * ln ((two * al) * t1 + (1 + al) * t2)
      + (two * (1 - al)) * ln ((two * (1 - al)) * t1 + (two - al) * t2))
     - ln phi) - ln (t1 + t2)) - two * ln t2) + t0.
Definition pow_nr_f1 (s3 al : T) (x : T) : T :=
  let t1 := x * x in
  let t2 := (two * x) / s3 in
  (((al * al) * two) / (al * x + (1 + al) / s3)
   + (((1 - al) * two) * (1 - al)) / ((1 - al) * x + (two - al) / s3))
  - ((x + recip s3) * two) / (t1 + t2).
Definition pow_newton_raphson (s3 phi al : T) : T :=
  nr_onesided 100 (pow_nr_f0 s3 phi al) (pow_nr_f1 s3 al) (pow_nr_x0 s3 phi al).

(** [gradient_primal] with the root supplied *)
Definition pow_gradient_primal_of (al : T) (root : T) (s : v3 T) : v3 T :=
  let '(s0, s1, s2) := s in
  let g2 := if s2 <? 0 then - root else root in
  let g0 := - ((al * g2) * s2 + 1 + al) / s0 in
  let g1 := - (((1 - al) * g2) * s2 + two - al) / s1 in
  (g0, g1, g2).
Definition pow_gradient_primal (al : T) (s : v3 T) : v3 T :=
  let '(s0, s1, s2) := s in
  let phi := pow s0 (two * al) * pow s1 (two - al * two) in
  let abs_s := abs s2 in
  if eps <? abs_s then
    pow_gradient_primal_of al (pow_newton_raphson abs_s phi al) s
  else
    (- (1 + al) / s0, - (two - al) / s1, 0).

Definition pow_barrier_primal (al : T) (s : v3 T) : T :=
  let '(g0, g1, g2) := pow_gradient_primal al s in
  let out := 0 + ln (pow (- g0 / al) (two * al) * pow (- g1 / (1 - al)) (two - al * two) - g2 * g2) in
  let out := out + (1 - al) * ln (- g0) in
  out + (al * ln (- g1) - three).

Definition pow_unit_init (al : T) : v3 T := (sqrt (1 + al), sqrt (1 + (1 - al)), 0).

(** ** scaling matrix of the 3-d cones (nonsymmetric_common.rs) *)
Definition cross3 (a b : v3 T) : v3 T :=
  let '(a0, a1, a2) := a in let '(b0, b1, b2) := b in
  (a1 * b2 - a2 * b1, a2 * b0 - a0 * b2, a0 * b1 - a1 * b0).
Definition normalize3 (a : v3 T) : v3 T :=
  let '(a0, a1, a2) := a in
  let norm := sqrt (dot3 a a) in
  if eqb (tb O) norm 0 then a else
  let c := recip norm in (a0 * c, a1 * c, a2 * c).

(** quantities on which [use_primal_dual_scaling] branches *)
Record pd_terms := PdT { pd_dot_sz : T; pd_mu : T; pd_mut : T; pd_ds : v3 T; pd_dz : v3 T;
                         pd_dot_dsz : T; pd_de1 : T; pd_de2 : T }.
Definition pd_scaling_terms (H : sym3 T) (st zt s z : v3 T) : pd_terms :=
  let '(s0, s1, s2) := s in let '(z0, z1, z2) := z in
  let '(st0, st1, st2) := st in let '(zt0, zt1, zt2) := zt in
  let dot_sz := dot3 s z in
  let mu := dot_sz / three in
  let mut := dot3 st zt / three in
  let ds := (s0 + mu * st0, s1 + mu * st1, s2 + mu * st2) in
  let dz := (z0 + mu * zt0, z1 + mu * zt1, z2 + mu * zt2) in
  let dot_dsz := dot3 ds dz in
  let de1 := mu * mut - 1 in
  let de2 := sym3_quad_form H zt zt - (three * mut) * mut in
  PdT dot_sz mu mut ds dz dot_dsz de1 de2.
Definition pd_branch (t : pd_terms) : bool :=
  (sqrt eps <? abs (pd_de1 t)) && (eps <? abs (pd_de2 t)) && (0 <? pd_dot_sz t) && (0 <? pd_dot_dsz t).

(** the coefficient t = mu * ||W||_F of the third axis *)
Definition pd_W (H : sym3 T) (st zt s z : v3 T) : sym3 T :=
  let t := pd_scaling_terms H st zt s z in
  let '(st0, st1, st2) := st in
  let mut := pd_mut t in let de2 := pd_de2 t in
  let '(h0, h1, h2) := sym3_mul H zt in
  let t0 := mut * st0 - h0 in let t1 := mut * st1 - h1 in let t2 := mut * st2 - h2 in
  S3 (m00 H - ((st0 * st0) / three + (t0 * t0) / de2))
     (m01 H - ((st0 * st1) / three + (t0 * t1) / de2))
     (m11 H - ((st1 * st1) / three + (t1 * t1) / de2))
     (m02 H - ((st0 * st2) / three + (t0 * t2) / de2))
     (m12 H - ((st1 * st2) / three + (t1 * t2) / de2))
     (m22 H - ((st2 * st2) / three + (t2 * t2) / de2)).
Definition pd_t (H : sym3 T) (st zt s z : v3 T) : T :=
  pd_mu (pd_scaling_terms H st zt s z) * sym3_norm_fro (pd_W H st zt s z).

(** the primal-dual scaling matrix (branch taken) *)
Definition pd_scaling_matrix (H : sym3 T) (st zt s z : v3 T) : sym3 T :=
  let t := pd_scaling_terms H st zt s z in
  let '(s0, s1, s2) := s in
  let '(d0, d1, d2) := pd_ds t in
  let tt := pd_t H st zt s z in
  let '(a0, a1, a2) := normalize3 (cross3 z zt) in
  let dsz := pd_dot_sz t in let ddsz := pd_dot_dsz t in
  let e (si sj di dj ai aj : T) := ((si * sj) / dsz + (di * dj) / ddsz) + (tt * ai) * aj in
  S3 (e s0 s0 d0 d0 a0 a0) (e s0 s1 d0 d1 a0 a1) (e s1 s1 d1 d1 a1 a1)
     (e s0 s2 d0 d2 a0 a2) (e s1 s2 d1 d2 a1 a2) (e s2 s2 d2 d2 a2 a2).

(** [use_primal_dual_scaling]: st = stored dual gradient at z, zt = gradient_primal(s) *)
Definition use_primal_dual_scaling (H : sym3 T) (st zt s z : v3 T) : sym3 T :=
  let t := pd_scaling_terms H st zt s z in
  if pd_branch t then pd_scaling_matrix H st zt s z
  else sym3_scaled_from (pd_mu t) H.

(** [update_Hs]; [dual_strategy] = (scaling_strategy == ScalingStrategy::Dual) *)
Definition update_Hs (dual_strategy : bool) (H : sym3 T) (st zt s z : v3 T) (mu : T) : sym3 T :=
  if dual_strategy then sym3_scaled_from mu H else use_primal_dual_scaling H st zt s z.

(** [update_scaling] of the exponential / power cone: (grad, H_dual, Hs) *)
Definition exp_update_scaling (dual_strategy : bool) (s z : v3 T) (mu : T) : v3 T * sym3 T * sym3 T :=
  let '(g, H) := exp_grad_H z in
  (g, H, update_Hs dual_strategy H g (exp_gradient_primal s) s z mu).
Definition pow_update_scaling (al : T) (dual_strategy : bool) (s z : v3 T) (mu : T) : v3 T * sym3 T * sym3 T :=
  let '(g, H) := pow_grad_H al z in
  (g, H, update_Hs dual_strategy H g (pow_gradient_primal al s) s z mu).

(** ** generalised power cone; alpha has length dim1, the point is split as (u, w) *)
Definition dotl (a b : list T) : T := fold_left (fun acc p => acc + fst p * snd p) (combine a b) 0.
Definition sumsql (a : list T) : T := dotl a a.
Definition all_pos (a : list T) : bool := forallb (fun x => 0 <? x) a.

Definition gp_is_primal_feasible (al u w : list T) : bool :=
  if all_pos u then
    let res := fold_left (fun res p => res + (two * fst p) * ln (snd p)) (combine al u) 0 in
    let res := exp res - sumsql w in
    0 <? res
  else false.

Definition gp_is_dual_feasible (al u w : list T) : bool :=
  if all_pos u then
    let res := fold_left (fun res p => res + (two * fst p) * ln (snd p / fst p)) (combine al u) 0 in
    let res := exp res - sumsql w in
    0 <? res
  else false.

Definition gp_barrier_dual (al u w : list T) : T :=
  let res := fold_left (fun res p => res + (two * snd p) * ln (fst p / snd p)) (combine u al) 0 in
  let res := exp res - sumsql w in
  fold_left (fun b p => b - ln (fst p) * (1 - snd p)) (combine u al) (- ln res).

Definition gp_phi_dual (al u : list T) : T :=
  fold_left (fun phi p => phi * pow (snd p / fst p) (two * fst p)) (combine al u) 1.

(** stored data after [update_dual_grad_H] *)
Record gp_data := GpD { gp_grad_u : list T; gp_grad_w : list T; gp_p_u : list T; gp_p_w : list T;
                        gp_q : list T; gp_r : list T; gp_d1 : list T; gp_d2 : T }.
Definition gp_grad_H (al u w : list T) : gp_data :=
  let phi := gp_phi_dual al u in
  let norm2w := sumsql w in
  let zeta := phi - norm2w in
  let tau := map (fun p => (two * fst p) / snd p) (combine al u) in
  let gu := map (fun p => (- (fst p) * phi) / zeta - (1 - fst (snd p)) / snd (snd p))
                (combine tau (combine al u)) in
  let gw := map (fun z => (two / zeta) * z) w in
  let p0 := sqrt ((phi * (phi + norm2w)) / two) in
  let p1 := (- two * phi) / p0 in
  let q0 := sqrt ((zeta * phi) / two) in
  let r1 := two * sqrt (zeta / (phi + norm2w)) in
  let d1 := map (fun p => (fst p * phi) / (zeta * snd (snd p))
                          + (1 - fst (snd p)) / (snd (snd p) * snd (snd p)))
                (combine tau (combine al u)) in
  let d2 := two / zeta in
  let pu := map (fun t => (p0 / zeta) * t) tau in
  let pw := map (fun z => (p1 / zeta) * z) w in
  let q := map (fun t => t * (q0 / zeta)) tau in
  let r := map (fun z => (r1 / zeta) * z) w in
  GpD gu gw pu pw q r d1 d2.

(** [update_scaling] of the generalised power cone: refuses ([None] = returns false, state
    untouched) unless zeta = phi - |w|^2 > 0 ([is_dual_interior_for_scaling]); otherwise stores
    the data of [update_dual_grad_H] and mu.  The strategy argument is ignored (dual scaling). *)
Definition gp_update_scaling (al u w : list T) (mu : T) : option (gp_data * T) :=
  let zeta := gp_phi_dual al u - sumsql w in
  if 0 <? zeta then Some (gp_grad_H al u w, mu) else None.

(** [mul_Hs]: y = mu (D + p p' - q q' - r r') x *)
Definition gp_mul_Hs (d : gp_data) (mu : T) (xu xw : list T) : list T * list T :=
  let coef_p := dotl (gp_p_u d ++ gp_p_w d) (xu ++ xw) in
  let coef_q := dotl (gp_q d) xu in
  let coef_r := dotl (gp_r d) xw in
  let yu := map (fun p => fst p * fst (snd p) - coef_q * snd (snd p))
                (combine (gp_d1 d) (combine xu (gp_q d))) in
  let yw := map (fun p => gp_d2 d * fst p - coef_r * snd p) (combine xw (gp_r d)) in
  let yu := map (fun p => coef_p * snd p + 1 * fst p) (combine yu (gp_p_u d)) in
  let yw := map (fun p => coef_p * snd p + 1 * fst p) (combine yw (gp_p_w d)) in
  (map (fun y => y * mu) yu, map (fun y => y * mu) yw).

Definition gp_nr_x0 (norm_r phi psi : T) : T :=
  - recip norm_r
  + (psi * norm_r + sqrt ((((phi / norm_r) / norm_r + psi * psi) - 1) * phi))
    / (phi - norm_r * norm_r).
Definition gp_nr_f0 (norm_r : T) (al p : list T) (x : T) : T :=
  let finit := - ln ((two * x) / norm_r + x * x) in
  fold_left (fun f q => f + (two * fst q) * (ln (x * norm_r + (1 + fst q) / fst q) - ln (snd q)))
            (combine al p) finit.
Definition gp_nr_f1 (norm_r : T) (al : list T) (x : T) : T :=
  let finit := - (two * x + two / norm_r) / (x * x + (two * x) / norm_r) in
  fold_left (fun f a => f + ((two * a) * norm_r) / (norm_r * x + (1 + a) / a)) al finit.
Definition gp_newton_raphson (norm_r : T) (p : list T) (phi : T) (al : list T) (psi : T) : T :=
  nr_onesided 100 (gp_nr_f0 norm_r al p) (gp_nr_f1 norm_r al) (gp_nr_x0 norm_r phi psi).

Definition gp_psi (al : list T) : T := 1 / sumsql al.

(** [gradient_primal].  [rvec] is the vector whose multiple is written to the w-part of the
    gradient.  The code as it is uses the stored Hessian vector [data.r] there
    ([gp_gradient_primal_F4]; finding F4, known and not repaired: see design.d/C14.md);
    the conjugate map needs the w-part of the point itself ([gp_gradient_primal]). *)
Definition gp_gradient_primal_with (rvec : list T) (al u w : list T) : list T * list T :=
  let phi := fold_left (fun phi p => phi * pow (fst p) (two * snd p)) (combine u al) 1 in
  let norm_r := sqrt (sumsql w) in
  if eps <? norm_r then
    let g1 := gp_newton_raphson norm_r u phi al (gp_psi al) in
    (map (fun p => - ((1 + fst p) + (fst p * g1) * norm_r) / snd p) (combine al u),
     map (fun r => (g1 / norm_r) * r) rvec)
  else
    (map (fun p => - (1 + fst p) / snd p) (combine al u), map (fun _ => 0) w).
Definition gp_gradient_primal (al u w : list T) := gp_gradient_primal_with w al u w.
Definition gp_gradient_primal_F4 (stored_r : list T) (al u w : list T) :=
  gp_gradient_primal_with stored_r al u w.

Definition gp_unit_init (al : list T) (dim2 : nat) : list T * list T :=
  (map (fun a => sqrt (1 + a)) al, repeat 0 dim2).

End Model.
