(** C14 — third-order correction of the power cone. *)
From Coq Require Import Reals Lra Lia ZArith Bool.
From Coquelicot Require Import Coquelicot.
Require Import Clarabel.Base.Ops Clarabel.Nonsym.Model Clarabel.Nonsym.FloatTrans Clarabel.Nonsym.Spec.
Require Import Clarabel.Nonsym.LemmasExp Clarabel.Nonsym.LemmasPow Clarabel.Nonsym.LemmasAlg Clarabel.Nonsym.LemmasThird.
Open Scope R_scope.

(** given that the factorisation of the stored Hessian succeeds (it does on SPD matrices,
    [cholesky_3x3]; positive definiteness of the power-cone Hessian itself is not proved) *)
Theorem pow_third_order_partial : forall a z ds v, 0 < a < 1 -> pow_dual_int a z ->
  (exists L, sym3_chol_factor TOpsR (snd (pow_grad_H TOpsR a z)) = Some L) ->
  third_order (pow_grad_H TOpsR a) (pow_higher_correction TOpsR a) z ds v.
Proof.
  intros a [[z0 z1] z2] [[ds0 ds1] ds2] [[v0 v1] v2] ha hz [L hL].
  apply pow_dual_int_psi in hz. destruct hz as (h0 & h1 & hp).
  unfold pow_phiR, Rpower, Rdiv in hp.
  unfold third_order. cbv zeta.
  exists (sym3_chol_solve TOpsR L (ds0, ds1, ds2)). split.
  - apply (proj2 (cholesky_3x3_ok _)). exact hL.
  - unfold pow_higher_correction. rewrite hL.
    destruct (sym3_chol_solve TOpsR L (ds0, ds1, ds2)) as [[u0 u1] u2].
    assert (hr0 : 0 < z0 * / a) by (apply Rdiv_lt_0_compat; lra).
    assert (hr1 : 0 < z1 * / (1 - a)) by (apply Rdiv_lt_0_compat; lra).
    assert (hne : exp (2 * a * ln (z0 * / a)) * exp ((2 - 2 * a) * ln (z1 * / (1 - a))) - z2 * z2 <> 0) by lra.
    intros [| |]; unfold pow_grad_H, pow_phi, recip, vadd, vscale, mvec, sget, vget, scale3, dot3, sym3_mul; cbn -[ln exp];
      unfold Rpower; auto_derive.
    all: unfold Rdiv in *; rewrite ?Rmult_0_l, ?Rmult_0_r, ?Rplus_0_r, ?Rplus_0_l in *.
    all: try (field; repeat split; nz).
    all: repeat split; try assumption; try exact I; nz.
Qed.
