(** C14 — proofs for the exponential cone (membership, barrier, gradient, Hessian,
    homogeneity, positive definiteness). *)
From Coq Require Import Reals Lra Lia ZArith Bool.
From Coquelicot Require Import Coquelicot.
Require Import Clarabel.Base.Ops Clarabel.Nonsym.Model Clarabel.Nonsym.FloatTrans Clarabel.Nonsym.Spec.
Open Scope R_scope.

Lemma Rltb_iff a b : Rltb a b = true <-> a < b.
Proof. apply Rltb_true. Qed.

Lemma andb_Rltb a b c d : (Rltb a b && Rltb c d = true)%bool <-> a < b /\ c < d.
Proof. rewrite andb_true_iff, !Rltb_true. tauto. Qed.

Lemma ln_lt_iff x y : 0 < x -> 0 < y -> (ln x < ln y <-> x < y).
Proof. intros hx hy. split; intro h. apply ln_lt_inv; auto. apply ln_increasing; auto. Qed.

Lemma lt_ln_iff t y : 0 < y -> (t < ln y <-> exp t < y).
Proof.
  intros hy. rewrite <- (ln_exp t) at 1. rewrite ln_lt_iff; auto using exp_pos. tauto.
Qed.

(** the quantity psi whose positivity the code tests *)
Definition exp_psi (z0 z1 z2 : R) : R := z1 - z0 - z0 * ln (- z2 / z0).

Lemma neg_ratio_pos z0 z2 : z0 < 0 -> 0 < z2 -> 0 < - z2 / z0.
Proof.
  intros h0 h2. unfold Rdiv. replace (- z2 * / z0) with (z2 * / - z0) by (field; lra).
  apply Rmult_lt_0_compat; auto. apply Rinv_0_lt_compat; lra.
Qed.

Lemma exp_dual_int_psi z0 z1 z2 :
  exp_dual_int (z0, z1, z2) <-> z0 < 0 /\ 0 < z2 /\ 0 < exp_psi z0 z1 z2.
Proof.
  unfold exp_dual_int, exp_psi.
  assert (key : z0 < 0 -> 0 < z2 ->
          (- z0 * exp (z1 / z0) < exp 1 * z2 <-> 0 < z1 - z0 - z0 * ln (- z2 / z0))).
  { intros h0 h2. pose proof (neg_ratio_pos z0 z2 h0 h2) as hr.
    transitivity (z1 / z0 - 1 < ln (- z2 / z0)).
    - rewrite lt_ln_iff by auto. unfold Rminus. rewrite exp_plus, exp_Ropp.
      pose proof (exp_pos 1) as he. pose proof (exp_pos (z1 / z0)) as hv.
      split; intro h.
      + apply Rmult_lt_reg_r with (exp 1 * - z0). nra.
        replace (- z2 / z0 * (exp 1 * - z0)) with (exp 1 * z2) by (field; lra).
        replace (exp (z1 / z0) * / exp 1 * (exp 1 * - z0)) with (- z0 * exp (z1 / z0)) by (field; lra).
        exact h.
      + apply Rmult_lt_compat_r with (r := exp 1 * - z0) in h; [|nra].
        replace (- z2 / z0 * (exp 1 * - z0)) with (exp 1 * z2) in h by (field; lra).
        replace (exp (z1 / z0) * / exp 1 * (exp 1 * - z0)) with (- z0 * exp (z1 / z0)) in h by (field; lra).
        exact h.
    - set (l := ln (- z2 / z0)). split; intro h.
      + assert (z0 * l < z0 * (z1 / z0 - 1)) by (apply Rmult_lt_gt_compat_neg_l; lra).
        replace (z0 * (z1 / z0 - 1)) with (z1 - z0) in H by (field; lra). lra.
      + apply Rmult_lt_reg_r with (- z0). lra.
        replace ((z1 / z0 - 1) * - z0) with (z0 - z1) by (field; lra). lra. }
  split.
  - intros (h0 & h). assert (h2 : 0 < z2).
    { pose proof (exp_pos 1). pose proof (exp_pos (z1 / z0)). nra. }
    repeat split; auto. apply key; auto.
  - intros (h0 & h2 & h). split; auto. apply key; auto.
Qed.

Theorem exp_dual_feasible_iff_ok : stmt_exp_dual_feasible_iff.
Proof.
  intros [[z0 z1] z2]. rewrite exp_dual_int_psi. unfold exp_is_dual_feasible, exp_psi; cbn.
  destruct (Rltb 0 z2 && Rltb z0 0)%bool eqn:e.
  - apply andb_Rltb in e. rewrite Rltb_true. tauto.
  - split; [discriminate|]. intros (h0 & h2 & _).
    assert (Rltb 0 z2 && Rltb z0 0 = true)%bool by (apply andb_Rltb; tauto). congruence.
Qed.

Theorem exp_primal_feasible_iff_ok : stmt_exp_primal_feasible_iff.
Proof.
  intros [[x y] z]. unfold exp_is_primal_feasible, exp_primal_int; cbn.
  assert (key : 0 < y -> 0 < z -> (0 < y * ln (z / y) - x <-> y * exp (x / y) < z)).
  { intros hy hz. assert (hr : 0 < z / y) by (apply Rdiv_lt_0_compat; auto).
    transitivity (x / y < ln (z / y)).
    - split; intro h.
      + apply Rmult_lt_reg_r with y; auto. replace (x / y * y) with x by (field; lra). lra.
      + apply Rmult_lt_compat_r with (r := y) in h; auto.
        replace (x / y * y) with x in h by (field; lra). lra.
    - rewrite lt_ln_iff by auto. split; intro h.
      + apply Rmult_lt_compat_l with (r := y) in h; auto.
        replace (y * (z / y)) with z in h by (field; lra). exact h.
      + apply Rmult_lt_reg_l with y; auto. replace (y * (z / y)) with z by (field; lra). exact h. }
  destruct (Rltb 0 z && Rltb 0 y)%bool eqn:e.
  - apply andb_Rltb in e. rewrite Rltb_true. split.
    + intro h. split; [tauto|]. apply key; tauto.
    + intros (hy & h). apply key; tauto.
  - split; [discriminate|]. intros (hy & h).
    assert (hz : 0 < z). { pose proof (exp_pos (x / y)). nra. }
    assert (Rltb 0 z && Rltb 0 y = true)%bool by (apply andb_Rltb; tauto). congruence.
Qed.

Theorem exp_barrier_dual_eq_ok : stmt_exp_barrier_dual_eq.
Proof.
  intros [[z0 z1] z2] hz. apply exp_dual_int_psi in hz. destruct hz as (h0 & h2 & hp).
  unfold exp_psi in hp. unfold exp_barrier_dual, exp_fstar; cbn.
  replace (- z2 * z0) with (- z0 * z2) by ring. rewrite ln_mult by lra.
  replace (z2 / - z0) with (- z2 / z0) by (field; lra). lra.
Qed.

(** ** derivatives *)
Ltac exp_side h0 h2 hp :=
  repeat match goal with
  | |- _ /\ _ => split
  | |- True => exact I
  | |- _ <> _ => lra
  | |- 0 < - _ * / _ => apply (neg_ratio_pos _ _ h0 h2)
  | |- 0 < _ * / - _ => apply Rdiv_lt_0_compat; lra
  | |- 0 < _ => first [lra | nra | exact hp]
  end.

Lemma exp_grad_deriv z0 z1 z2 : z0 < 0 -> 0 < z2 -> 0 < exp_psi z0 z1 z2 ->
  grad_is_derivative exp_fstar (exp_grad_H TOpsR) (z0, z1, z2).
Proof.
  intros h0 h2 hp. unfold exp_psi in hp.
  assert (hr := neg_ratio_pos z0 z2 h0 h2).
  assert (hp' : 0 < z1 + - z0 + - (z0 * ln (z2 * / - z0))).
  { replace (z2 * / - z0) with (- z2 / z0) by (field; lra). lra. }
  assert (hr' : 0 < z2 * / - z0) by (apply Rdiv_lt_0_compat; lra).
  assert (hL : ln (- z2 * / z0) = ln (z2 * / - z0)) by (f_equal; field; lra).
  assert (hne : - z0 * ln (z2 * / - z0) - z0 + z1 <> 0) by lra.
  intros [| |]; unfold exp_fstar, exp_grad_H, recip, vset, vget; cbn -[ln];
    auto_derive; try (repeat split; solve [lra | assumption | exact I]).
  all: unfold Rdiv; rewrite ?hL; field; repeat split; lra.
Qed.

Lemma exp_hess_deriv z0 z1 z2 : z0 < 0 -> 0 < z2 -> 0 < exp_psi z0 z1 z2 ->
  hess_is_derivative (exp_grad_H TOpsR) (z0, z1, z2).
Proof.
  intros h0 h2 hp. unfold exp_psi in hp.
  assert (hr := neg_ratio_pos z0 z2 h0 h2). unfold Rdiv in hr.
  assert (hne : - z0 * ln (- z2 * / z0) - z0 + z1 <> 0) by (unfold Rdiv in hp; lra).
  assert (hne' : - (z0 * ln (- z2 * / z0)) + - z0 + z1 <> 0) by lra.
  intros i j; destruct i, j; unfold exp_grad_H, recip, vset, vget, sget; cbn -[ln];
    auto_derive; try (repeat split; solve [lra | assumption | exact I]).
  all: unfold Rdiv; field; repeat split; lra.
Qed.

Theorem exp_grad_is_derivative_ok : stmt_exp_grad_is_derivative.
Proof. intros [[z0 z1] z2] hz. apply exp_dual_int_psi in hz. apply exp_grad_deriv; tauto. Qed.
Theorem exp_hess_is_derivative_ok : stmt_exp_hess_is_derivative.
Proof. intros [[z0 z1] z2] hz. apply exp_dual_int_psi in hz. apply exp_hess_deriv; tauto. Qed.

Theorem exp_log_homogeneous_ok : stmt_exp_log_homogeneous.
Proof.
  intros [[z0 z1] z2] hz. apply exp_dual_int_psi in hz. destruct hz as (h0 & h2 & hp).
  unfold exp_psi in hp.
  assert (hne : - z0 * ln (- z2 / z0) - z0 + z1 <> 0) by lra.
  unfold log_homogeneous, exp_grad_H, recip, vdot, mvec, vneg, vscale, sget, vget; cbn -[ln].
  set (l := ln (- z2 / z0)) in *. split; [|f_equal; [f_equal|]]; field; repeat split; lra.
Qed.

Theorem exp_hess_spd_ok : stmt_exp_hess_spd.
Proof.
  intros [[z0 z1] z2] hz. apply exp_dual_int_psi in hz. destruct hz as (h0 & h2 & hp).
  unfold exp_psi in hp.
  unfold spd3, det3, exp_grad_H, recip; cbn -[ln].
  set (l := ln (- z2 / z0)) in *. set (r := - z0 * l - z0 + z1).
  assert (hr : 0 < r) by (unfold r; lra).
  assert (hrr : 0 < r * r) by nra.
  assert (hz0 : 0 < z0 * z0) by nra.
  assert (hz2 : 0 < z2 * z2) by nra.
  repeat split.
  - apply Rdiv_lt_0_compat. nra. nra.
  - match goal with |- 0 < ?e => replace e with ((r - z0) / (r * r * r * z0 * z0)) by (field; repeat split; lra) end.
    apply Rdiv_lt_0_compat. lra.
    replace (r * r * r * z0 * z0) with (r * (r * r) * (z0 * z0)) by ring.
    apply Rmult_lt_0_compat; [apply Rmult_lt_0_compat|]; assumption.
  - assert (hz1 : z1 = r + z0 * l + z0) by (unfold r; ring). clearbody r. rewrite hz1.
    match goal with |- 0 < ?e => replace e with ((r - 2 * z0) / (r * (r * r) * (z0 * z0) * (z2 * z2))) by (field; repeat split; lra) end.
    apply Rdiv_lt_0_compat. lra.
    apply Rmult_lt_0_compat; [apply Rmult_lt_0_compat; [apply Rmult_lt_0_compat|]|]; assumption.
Qed.
