(** C14 — generalised power cone: membership predicates (all dimensions) and the central
    starting point. *)
From Coq Require Import Reals Lra Lia ZArith Bool List.
Import ListNotations.
Require Import Clarabel.Base.Ops Clarabel.Nonsym.Model Clarabel.Nonsym.FloatTrans Clarabel.Nonsym.Spec.
Open Scope R_scope.

Definition lsum (f : R -> R -> R) (l : list (R * R)) : R :=
  fold_right (fun p a => f (fst p) (snd p) + a) 0 l.

Lemma fold_left_sum (f : R -> R -> R) l acc :
  fold_left (fun res p => res + 2 * fst p * f (fst p) (snd p)) l acc
  = acc + 2 * lsum (fun a x => a * f a x) l.
Proof.
  revert acc. induction l as [|p l IH]; intro acc.
  - unfold lsum; cbn. ring.
  - cbn [fold_left]. rewrite IH. unfold lsum; cbn [fold_right]. ring.
Qed.

Lemma prod_exp (f : R -> R -> R) l :
  fold_right (fun p acc => exp (fst p * f (fst p) (snd p)) * acc) 1 l
  = exp (lsum (fun a x => a * f a x) l).
Proof.
  induction l as [|p l IH].
  - unfold lsum; cbn. symmetry. apply exp_0.
  - cbn [fold_right]. rewrite IH, <- exp_plus. reflexivity.
Qed.

Lemma dotl_sumsq w acc :
  fold_left (fun a p => a + fst p * snd p) (combine w w) acc = acc + sumsqR w.
Proof.
  revert acc. induction w as [|x w IH]; intro acc.
  - cbn. ring.
  - cbn [combine fold_left fst snd]. rewrite IH. unfold sumsqR; cbn [fold_right]. ring.
Qed.

Lemma all_pos_Forall u : all_pos TOpsR u = true <-> List.Forall (fun x => 0 < x) u.
Proof.
  unfold all_pos. rewrite forallb_forall, Forall_forall. cbn.
  split; intros h x hx; specialize (h x hx); apply Rltb_true; exact h.
Qed.

Lemma gp_feasible_generic (f : R -> R -> R) u w l :
  (if all_pos TOpsR u
   then Rltb 0 (exp (fold_left (fun res p => res + 2 * fst p * f (fst p) (snd p)) l 0)
                - fold_left (fun a p => a + fst p * snd p) (combine w w) 0)
   else false) = true
  <-> List.Forall (fun x => 0 < x) u /\
      sumsqR w < Rsqr (fold_right (fun p acc => exp (fst p * f (fst p) (snd p)) * acc) 1 l).
Proof.
  rewrite fold_left_sum, dotl_sumsq, prod_exp, !Rplus_0_l.
  replace (exp (2 * lsum (fun a x => a * f a x) l)) with (Rsqr (exp (lsum (fun a x => a * f a x) l))).
  2:{ unfold Rsqr. rewrite <- exp_plus. f_equal. ring. }
  destruct (all_pos TOpsR u) eqn:e.
  - rewrite Rltb_true. apply all_pos_Forall in e. split; [intro h; split; [exact e|lra]|intros [_ h]; lra].
  - split; [discriminate|]. intros [h _]. apply all_pos_Forall in h. congruence.
Qed.

Theorem gp_primal_feasible_iff_ok : stmt_gp_primal_feasible_iff.
Proof.
  intros al u w _ _. unfold gp_is_primal_feasible, gp_primal_int, prod_pow, sumsql, dotl; cbn -[exp ln].
  apply (gp_feasible_generic (fun _ x => ln x)).
Qed.

Theorem gp_dual_feasible_iff_ok : stmt_gp_dual_feasible_iff.
Proof.
  intros al u w _ _. unfold gp_is_dual_feasible, gp_dual_int, prod_pow, sumsql, dotl; cbn -[exp ln].
  apply (gp_feasible_generic (fun a x => ln (x / a))).
Qed.

(** ** central starting point *)
Lemma dotl_zeros n acc :
  fold_left (fun a p => a + fst p * snd p) (combine (repeat 0 n) (repeat 0 n)) acc = acc.
Proof.
  revert acc. induction n as [|n IH]; intro acc; cbn [repeat combine fold_left fst snd].
  - reflexivity.
  - rewrite IH. ring.
Qed.

Lemma gp_phi_pos al u : 0 < gp_phi_dual TOpsR al u.
Proof.
  unfold gp_phi_dual. cbn -[Rpower].
  assert (h : forall l acc, 0 < acc ->
            0 < fold_left (fun phi p => phi * Rpower (snd p / fst p) (2 * fst p)) l acc).
  { induction l as [|p l IH]; intros acc hacc; cbn [fold_left]. exact hacc.
    apply IH. apply Rmult_lt_0_compat. exact hacc. unfold Rpower. apply exp_pos. }
  apply h. lra.
Qed.

Lemma gp_unit_grad_u phi al : phi <> 0 -> alphas_ok al ->
  map Ropp
    (map (fun p => - fst p * phi / (phi - 0) - (1 - fst (snd p)) / snd (snd p))
       (combine (map (fun p => 2 * fst p / snd p) (combine al (map (fun a => R_sqrt.sqrt (1 + a)) al)))
                (combine al (map (fun a => R_sqrt.sqrt (1 + a)) al))))
  = map (fun a => R_sqrt.sqrt (1 + a)) al.
Proof.
  intros hphi hal. induction hal as [|a al ha hal IH]; cbn [map combine fst snd].
  - reflexivity.
  - f_equal; [|exact IH].
    set (x := R_sqrt.sqrt (1 + a)).
    assert (hx : 0 < x) by (apply sqrt_lt_R0; lra).
    assert (sx : x * x = 1 + a) by (apply sqrt_sqrt; lra). clearbody x.
    replace (- (- (2 * a / x) * phi / (phi - 0) - (1 - a) / x)) with ((1 + a) / x) by (field; split; lra).
    rewrite <- sx. field; lra.
Qed.

Lemma map_zero_repeat c n : map Ropp (map (fun z => c * z) (repeat 0 n)) = repeat 0 n.
Proof.
  induction n as [|n IH]; cbn [repeat map]. reflexivity. f_equal; [ring|exact IH].
Qed.

Theorem gp_unit_init_central_ok : stmt_gp_unit_init_central.
Proof.
  intros al dim2 hal hne. unfold gp_unit_init. cbn [tb TOpsR Ops.sqrt OpsR add one zero].
  set (u := map (fun a => R_sqrt.sqrt (1 + a)) al). set (w := repeat 0 dim2).
  assert (hu : List.Forall (fun x => 0 < x) u).
  { unfold u. apply Forall_forall. intros x hx. apply in_map_iff in hx. destruct hx as (a & <- & ha).
    apply sqrt_lt_R0. unfold alphas_ok in hal. rewrite Forall_forall in hal. specialize (hal a ha). lra. }
  assert (hw : sumsqR w = 0).
  { unfold w. clear. induction dim2 as [|n IH]; cbn [repeat]; unfold sumsqR in *; cbn [fold_right]. reflexivity. rewrite IH. ring. }
  split; [|split].
  - split; [exact hu|]. rewrite hw. apply Rlt_0_sqr. apply Rgt_not_eq.
    unfold prod_pow. clear. induction (combine al u) as [|p l IH]; cbn [fold_right]. lra.
    apply Rmult_lt_0_compat; [unfold Rpower; apply exp_pos|exact IH].
  - unfold gp_grad_H, gp_grad_u, sumsql, dotl. cbn -[gp_phi_dual R_sqrt.sqrt].
    fold u. unfold w. rewrite dotl_zeros.
    pose proof (gp_phi_pos al u) as hphi. set (phi := gp_phi_dual TOpsR al u) in *.
    apply gp_unit_grad_u. lra. exact hal.
  - unfold gp_grad_H, gp_grad_w, sumsql, dotl. cbn -[gp_phi_dual R_sqrt.sqrt].
    unfold w. apply map_zero_repeat.
Qed.
