(** C14 — step safety of the nonsymmetric cones: [backtrack_search] (model: Cones/Step.v
    [backtrack], shared with C15) driven by the membership predicates of this property.
    The returned step is 0 or leads to a point strictly inside the cone (mathematical
    definition, through the membership theorems); the number of trial points is bounded by
    ln(alpha_min/alpha_0)/ln(step) + 1. *)
From Coq Require Import Reals Lra Lia ZArith Bool List.
Require Import Clarabel.Base.Ops Clarabel.Cones.Step Clarabel.Cones.SpecC15 Clarabel.Cones.LemmasStepMisc.
Require Import Clarabel.Nonsym.Model Clarabel.Nonsym.FloatTrans Clarabel.Nonsym.Spec.
Require Import Clarabel.Nonsym.LemmasExp Clarabel.Nonsym.LemmasPow Clarabel.Nonsym.LemmasGp.
Open Scope R_scope.

(** trial point q + a dq (3-d cones) *)
Definition step3 (q dq : v3 R) (a : R) : v3 R := vadd q (vscale a dq).
Definition stepl (q dq : list R) (a : R) : list R := map (fun p => fst p + a * snd p) (combine q dq).

(** generic: any boolean test that characterises a set *)
Lemma backtrack_safe_generic (P : R -> Prop) (inc : R -> bool) :
  (forall a, inc a = true <-> P a) ->
  forall fuel a0 amin step r, 0 < step -> backtrack OpsR fuel inc a0 amin step = Some r ->
  r = 0 \/ P r.
Proof.
  intros hinc fuel a0 amin step r hs h.
  destruct (backtrack_spec_ok fuel inc a0 amin step r hs h) as ([e|e] & _); [left; exact e|right; apply hinc; exact e].
Qed.

Definition stmt_nonsym_step_safe : Prop :=
  forall fuel a0 amin step r, 0 < step ->
  (forall s ds, backtrack OpsR fuel (fun a => exp_is_primal_feasible TOpsR (step3 s ds a)) a0 amin step = Some r ->
     r = 0 \/ exp_primal_int (step3 s ds r)) /\
  (forall z dz, backtrack OpsR fuel (fun a => exp_is_dual_feasible TOpsR (step3 z dz a)) a0 amin step = Some r ->
     r = 0 \/ exp_dual_int (step3 z dz r)) /\
  (forall al s ds, 0 < al < 1 ->
     backtrack OpsR fuel (fun a => pow_is_primal_feasible TOpsR al (step3 s ds a)) a0 amin step = Some r ->
     r = 0 \/ pow_primal_int al (step3 s ds r)) /\
  (forall al z dz, 0 < al < 1 ->
     backtrack OpsR fuel (fun a => pow_is_dual_feasible TOpsR al (step3 z dz a)) a0 amin step = Some r ->
     r = 0 \/ pow_dual_int al (step3 z dz r)) /\
  (forall al u du w dw, alphas_ok al -> length u = length al -> length du = length al ->
     backtrack OpsR fuel (fun a => gp_is_primal_feasible TOpsR al (stepl u du a) (stepl w dw a)) a0 amin step = Some r ->
     r = 0 \/ gp_primal_int al (stepl u du r) (stepl w dw r)) /\
  (forall al u du w dw, alphas_ok al -> length u = length al -> length du = length al ->
     backtrack OpsR fuel (fun a => gp_is_dual_feasible TOpsR al (stepl u du a) (stepl w dw a)) a0 amin step = Some r ->
     r = 0 \/ gp_dual_int al (stepl u du r) (stepl w dw r)).

Lemma stepl_length q dq a : length dq = length q -> length (stepl q dq a) = length q.
Proof. intro h. unfold stepl. rewrite map_length, combine_length. lia. Qed.

Theorem nonsym_step_safe_ok : stmt_nonsym_step_safe.
Proof.
  intros fuel a0 amin step r hs. repeat split.
  - intros s ds. apply (backtrack_safe_generic (fun a => exp_primal_int (step3 s ds a))); auto.
    intro a. apply exp_primal_feasible_iff_ok.
  - intros z dz. apply (backtrack_safe_generic (fun a => exp_dual_int (step3 z dz a))); auto.
    intro a. apply exp_dual_feasible_iff_ok.
  - intros al s ds hal. apply (backtrack_safe_generic (fun a => pow_primal_int al (step3 s ds a))); auto.
    intro a. apply pow_primal_feasible_iff_ok; auto.
  - intros al z dz hal. apply (backtrack_safe_generic (fun a => pow_dual_int al (step3 z dz a))); auto.
    intro a. apply pow_dual_feasible_iff_ok; auto.
  - intros al u du w dw hal hu hdu.
    apply (backtrack_safe_generic (fun a => gp_primal_int al (stepl u du a) (stepl w dw a))); auto.
    intro a. apply gp_primal_feasible_iff_ok; auto. rewrite stepl_length; lia.
  - intros al u du w dw hal hu hdu.
    apply (backtrack_safe_generic (fun a => gp_dual_int al (stepl u du a) (stepl w dw a))); auto.
    intro a. apply gp_dual_feasible_iff_ok; auto. rewrite stepl_length; lia.
Qed.

(** iteration bound: n trial points beyond the first suffice as soon as n exceeds
    ln(alpha_min / alpha_0) / ln(step); so the loop makes at most n + 1 membership tests *)
Definition stmt_backtrack_log_bound : Prop :=
  forall (inc : R -> bool) a0 amin step (n : nat),
    0 < step < 1 -> 0 < amin -> 0 < a0 ->
    ln (amin / a0) / ln step < INR n ->
    exists r, backtrack OpsR (S n) inc a0 amin step = Some r.

Theorem backtrack_log_bound_ok : stmt_backtrack_log_bound.
Proof.
  intros inc a0 amin step n hs hm ha hn.
  apply (backtrack_fuel_enough inc amin step); try lra.
  assert (hl : ln step < 0) by (rewrite <- ln_1; apply ln_increasing; lra).
  assert (hr : 0 < amin / a0) by (apply Rdiv_lt_0_compat; lra).
  (* INR n * ln step < ln (amin/a0) *)
  assert (h1 : INR n * ln step < ln (amin / a0)).
  { apply Rmult_lt_compat_r with (r := - ln step) in hn; [|lra].
    replace (ln (amin / a0) / ln step * - ln step) with (- ln (amin / a0)) in hn by (field; lra).
    lra. }
  assert (h2 : step ^ n < amin / a0).
  { rewrite <- (exp_ln (step ^ n)) by (apply pow_lt; lra).
    rewrite <- (exp_ln (amin / a0)) by exact hr.
    apply exp_increasing. rewrite ln_pow by lra. exact h1. }
  apply Rmult_lt_compat_l with (r := a0) in h2; try exact ha.
  replace (a0 * (amin / a0)) with amin in h2 by (field; lra). exact h2.
Qed.

(** the defaults: step 0.8, alpha_min 1e-4, alpha_0 <= 1 need at most 42 + 1 tests; a step
    of 0.99 needs up to 917, so a cap of 50 trial points (seeded bug C07-4) is not enough *)
Example backtrack_default_bound : forall (inc : R -> bool) a0, 0 < a0 <= 1 ->
  exists r, backtrack OpsR 43 inc a0 (1 / 10000) (8 / 10) = Some r.
Proof.
  intros inc a0 ha. apply (backtrack_fuel_enough inc (1 / 10000) (8 / 10)); try lra.
Qed.
