(** C14 — the power cone's primal gradient is the conjugate map, given the root equation that
    the Newton-Raphson iteration solves. *)
From Coq Require Import Reals Lra Lia ZArith Bool.
Require Import Clarabel.Base.Ops Clarabel.Nonsym.Model Clarabel.Nonsym.FloatTrans Clarabel.Nonsym.Spec.
Require Import Clarabel.Nonsym.LemmasExp Clarabel.Nonsym.LemmasPow.
Open Scope R_scope.

Section Core.
Variables (a s0 s1 s2 s3 x g2 : R).
Hypothesis ha : 0 < a < 1.
Hypothesis h0 : 0 < s0.
Hypothesis h1 : 0 < s1.
Hypothesis h3 : 0 < s3.
Hypothesis hx : 0 < x.
Hypothesis hg_s : g2 * s2 = x * s3.       (* g2 = sign(s2) x, s3 = |s2| *)
Hypothesis hg_3 : g2 * s3 = x * s2.
Hypothesis hg_2 : g2 * g2 = x * x.
Hypothesis hroot :
  2 * a * ln (2 * a * (x * x) + (1 + a) * (x * 2 / s3)) +
  2 * (1 - a) * ln (2 * (1 - a) * (x * x) + (2 - a) * (x * 2 / s3)) -
  ln (Rpower s0 (2 * a) * Rpower s1 (2 - a * 2)) -
  ln (x * x + x * 2 / s3) - 2 * ln (x * 2 / s3) +
  (- (2) * a * ln a - 2 * (1 - a) * ln (1 - a)) = 0.

Let y := x * s3.
Let z0 := (a * y + 1 + a) / s0.
Let z1 := ((1 - a) * y + 2 - a) / s1.

Lemma conj_phi : pow_phiR a z0 z1 = x * x + x * 2 / s3.
Proof.
  assert (hy : 0 < y) by (unfold y; apply Rmult_lt_0_compat; lra).
  assert (ht2 : 0 < x * 2 / s3) by (apply Rdiv_lt_0_compat; lra).
  assert (hA : 0 < a * y + 1 + a) by nra.
  assert (hB : 0 < (1 - a) * y + 2 - a) by nra.
  assert (e1 : ln (2 * a * (x * x) + (1 + a) * (x * 2 / s3)) = ln (x * 2 / s3) + ln (a * y + 1 + a)).
  { rewrite <- ln_mult by assumption. f_equal. unfold y. field; lra. }
  assert (e2 : ln (2 * (1 - a) * (x * x) + (2 - a) * (x * 2 / s3)) = ln (x * 2 / s3) + ln ((1 - a) * y + 2 - a)).
  { rewrite <- ln_mult by assumption. f_equal. unfold y. field; lra. }
  assert (e3 : ln (Rpower s0 (2 * a) * Rpower s1 (2 - a * 2)) = 2 * a * ln s0 + (2 - a * 2) * ln s1).
  { rewrite ln_mult by apply Rpower_pos. unfold Rpower. rewrite !ln_exp. reflexivity. }
  assert (e4 : ln (z0 / a) = ln (a * y + 1 + a) - ln a - ln s0).
  { unfold z0. replace ((a * y + 1 + a) / s0 / a) with ((a * y + 1 + a) * (/ a * / s0)) by (field; lra).
    rewrite ln_mult; [|assumption|apply Rmult_lt_0_compat; apply Rinv_0_lt_compat; lra].
    rewrite ln_mult by (apply Rinv_0_lt_compat; lra). rewrite !ln_Rinv by lra. lra. }
  assert (e5 : ln (z1 / (1 - a)) = ln ((1 - a) * y + 2 - a) - ln (1 - a) - ln s1).
  { unfold z1. replace (((1 - a) * y + 2 - a) / s1 / (1 - a)) with (((1 - a) * y + 2 - a) * (/ (1 - a) * / s1)) by (field; lra).
    rewrite ln_mult; [|assumption|apply Rmult_lt_0_compat; apply Rinv_0_lt_compat; lra].
    rewrite ln_mult by (apply Rinv_0_lt_compat; lra). rewrite !ln_Rinv by lra. lra. }
  unfold pow_phiR, Rpower. rewrite <- exp_plus.
  rewrite <- (exp_ln (x * x + x * 2 / s3)) by nra.
  f_equal. rewrite e4, e5. rewrite e1, e2, e3 in hroot. lra.
Qed.

Lemma conj_core :
  let z := (-1 * (- (a * g2 * s2 + 1 + a) / s0), -1 * (- ((1 - a) * g2 * s2 + 2 - a) / s1), -1 * g2) in
  pow_dual_int a z /\ fst (pow_grad_H TOpsR a z) = (-1 * s0, -1 * s1, -1 * s2).
Proof.
  cbv zeta.
  assert (ez0 : -1 * (- (a * g2 * s2 + 1 + a) / s0) = z0).
  { unfold z0, y. replace (a * g2 * s2) with (a * (g2 * s2)) by ring. rewrite hg_s. field; lra. }
  assert (ez1 : -1 * (- ((1 - a) * g2 * s2 + 2 - a) / s1) = z1).
  { unfold z1, y. replace ((1 - a) * g2 * s2) with ((1 - a) * (g2 * s2)) by ring. rewrite hg_s. field; lra. }
  rewrite ez0, ez1.
  assert (hy : 0 < y) by (unfold y; apply Rmult_lt_0_compat; lra).
  assert (hz0 : 0 < z0) by (unfold z0; apply Rdiv_lt_0_compat; nra).
  assert (hz1 : 0 < z1) by (unfold z1; apply Rdiv_lt_0_compat; nra).
  pose proof conj_phi as hphi.
  assert (hpsi : pow_phiR a z0 z1 - -1 * g2 * (-1 * g2) = x * 2 / s3).
  { rewrite hphi. replace (-1 * g2 * (-1 * g2)) with (g2 * g2) by ring. rewrite hg_2. ring. }
  assert (ht2 : 0 < x * 2 / s3) by (apply Rdiv_lt_0_compat; lra).
  split.
  - apply pow_dual_int_psi. repeat split; try assumption. rewrite hpsi. exact ht2.
  - unfold pow_grad_H, pow_phi, recip; cbn -[Rpower].
    fold (pow_phiR a z0 z1). rewrite hpsi, hphi.
    f_equal; [f_equal|].
    + assert (hxs : 0 < x * s3) by (apply Rmult_lt_0_compat; lra).
      unfold z0, y. field. repeat split; try lra; nra.
    + assert (hxs : 0 < x * s3) by (apply Rmult_lt_0_compat; lra).
      unfold z1, y. field. repeat split; try lra; nra.
    + replace (2 * (-1 * g2) / (x * 2 / s3)) with (- (g2 * s3) / x) by (field; lra).
      rewrite hg_3. field; lra.
Qed.
End Core.

Theorem pow_primal_grad_conjugate_ok : stmt_pow_primal_grad_conjugate.
Proof.
  intros a [[s0 s1] s2] x ha (h0 & h1 & _) hs2 hx hroot. cbv zeta.
  unfold vget in hs2, hroot. unfold pow_nr_f0, pow_nr_t0 in hroot; cbn -[ln Rpower] in hroot.
  unfold pow_gradient_primal_of; cbn -[Rpower].
  assert (h3 : 0 < Rabs s2) by (apply Rabs_pos_lt; exact hs2).
  destruct (Rltb s2 0) eqn:e.
  - apply Rltb_true in e.
    assert (er : Rabs s2 = - s2) by (apply Rabs_left; exact e).
    pose proof (conj_core a s0 s1 s2 (Rabs s2) x (- x) ha h0 h1 h3 hx) as C.
    cbv zeta in C. unfold vneg, vscale.
    destruct C as (C1 & C2); try first [exact hroot | rewrite er; ring | ring].
    split; [exact C1|split; [exact C2|]]. unfold vdot. field; lra.
  - apply Rltb_false in e. assert (e' : 0 < s2) by lra.
    assert (er : Rabs s2 = s2) by (apply Rabs_right; lra).
    pose proof (conj_core a s0 s1 s2 (Rabs s2) x x ha h0 h1 h3 hx) as C.
    cbv zeta in C. unfold vneg, vscale.
    destruct C as (C1 & C2); try first [exact hroot | rewrite er; ring | ring].
    split; [exact C1|split; [exact C2|]]. unfold vdot. field; lra.
Qed.
