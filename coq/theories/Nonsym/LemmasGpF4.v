(** C14 — finding F4 stated on the model of the code as it is: the w-part of
    [GenPowerCone::gradient_primal] is a multiple of the STORED vector r, so it is not the
    conjugate map.  Witness: a cone that was never scaled (stored r = 0), dim2 = 1. *)
From Coq Require Import Reals Lra Lia ZArith Bool List.
Require Import Clarabel.Base.Ops Clarabel.Nonsym.Model Clarabel.Nonsym.FloatTrans Clarabel.Nonsym.Spec.
Require Import Clarabel.Nonsym.LemmasGp Clarabel.Nonsym.LemmasGpGen.
Import ListNotations.
Open Scope R_scope.

(** conjugacy, w-part: grad_w f*(-g(s)) = -w *)
Definition gp_conjugate_w (g : list R * list R) (al w : list R) : Prop :=
  gp_grad_w (gp_grad_H TOpsR al (map Ropp (fst g)) (map Ropp (snd g))) = map Ropp w.

Theorem gp_primal_grad_conjugate_refuted :
  exists al u w stored_r, gp_interior al u w /\
    ~ gp_conjugate_w (gp_gradient_primal_F4 TOpsR stored_r al u w) al w.
Proof.
  exists [1 / 2; 1 / 2], [1; 1], [1 / 2], [0]. split.
  - unfold gp_interior, gpP, prod_pow, sumsqR; cbn -[Rpower]. repeat split; try (repeat constructor; lra).
    unfold Rpower. rewrite !Rmult_1_r.
    assert (h : 1 < exp (2 * (1 / 2) * ln (1 / (1 / 2)))).
    { replace (1 / (1 / 2)) with 2 by field.
      assert (h2 : 0 < ln 2) by (rewrite <- ln_1; apply ln_increasing; lra).
      assert (hX : 0 < 2 * (1 / 2) * ln 2) by lra.
      pose proof (exp_ineq1 _ (Rgt_not_eq _ _ hX)). lra. }
    nra.
  - unfold gp_conjugate_w, gp_gradient_primal_F4, gp_gradient_primal_with.
    set (nr := Ops.sqrt (tb TOpsR) (sumsql TOpsR [1 / 2])).
    assert (hb : ltb (tb TOpsR) (teps TOpsR) nr = true).
    { unfold nr, sumsql, dotl; cbn -[R_sqrt.sqrt]. apply Rltb_true.
      rewrite Rplus_0_l, sqrt_square by lra. lra. }
    rewrite hb. cbn [fst snd map].
    intro h. unfold gp_grad_H, gp_grad_w in h. cbn [map] in h.
    injection h as h. revert h.
    match goal with |- ?c * - (?x * 0) = _ -> _ => replace (c * - (x * 0)) with 0 by ring end.
    lra.
Qed.
