(** C14 — the power-cone Hessian is positive definite on the interior; unconditional
    third-order theorem. *)
From Coq Require Import Reals Lra Lia ZArith Bool.
Require Import Clarabel.Base.Ops Clarabel.Nonsym.Model Clarabel.Nonsym.FloatTrans Clarabel.Nonsym.Spec.
Require Import Clarabel.Nonsym.LemmasExp Clarabel.Nonsym.LemmasPow Clarabel.Nonsym.LemmasAlg
               Clarabel.Nonsym.LemmasThird Clarabel.Nonsym.LemmasThirdPow.
Open Scope R_scope.

Ltac nn := repeat first [assumption | lra | apply Rplus_le_le_0_compat | apply Rmult_le_pos | apply pow_le].

(** closed forms of the leading minors with p = psi = phi - z2^2, q = z2^2, c = a(1-a):
    p^2 z0^2 H00 = 4a^2 q (p+q) + (1+a) p^2 + 2 a p q ;
    p^4 z0^2 z1^2 minor2 = c (p^4 + 8 p^2 q^2 + 8 p q^3) + 2 p^4 + 6 p^3 q + 4 p^2 q^2 ;
    p^6 z0^2 z1^2 det = c (2 p^5 + 20 p^4 q + 16 p^3 q^2) + 4 p^5 + 4 p^4 q. *)
Theorem pow_hess_spd_ok : forall a z, 0 < a < 1 -> pow_dual_int a z -> spd3 (snd (pow_grad_H TOpsR a z)).
Proof.
  intros a [[z0 z1] z2] ha hz. apply pow_dual_int_psi in hz. destruct hz as (h0 & h1 & hpsi).
  unfold spd3, det3, pow_grad_H, pow_phi, recip; cbn -[Rpower].
  fold (pow_phiR a z0 z1). set (phi := pow_phiR a z0 z1) in *. clearbody phi.
  set (p := phi - z2 * z2) in *.
  assert (hphi : phi = p + z2 * z2) by (unfold p; ring). clearbody p. subst phi.
  set (q := z2 * z2). assert (hq : 0 <= q) by (unfold q; nra).
  assert (hqe : q = z2 * z2) by reflexivity. clearbody q.
  set (c := a * (1 - a)). assert (hc : 0 < c) by (unfold c; nra).
  assert (hce : c = a * (1 - a)) by reflexivity. clearbody c.
  assert (hp0 : 0 <= p) by lra.
  repeat split.
  - match goal with |- 0 < ?e =>
      replace e with ((4 * a ^ 2 * q * (p + q) + (1 + a) * p ^ 2 + 2 * a * p * q) / (p ^ 2 * z0 ^ 2))
        by (rewrite hqe; field; split; lra) end.
    apply Rdiv_lt_0_compat; [|apply Rmult_lt_0_compat; apply pow_lt; lra].
    apply Rplus_lt_le_0_compat; [apply Rplus_le_lt_0_compat|]; [nn| |nn].
    apply Rmult_lt_0_compat; [lra|apply pow_lt; lra].
  - match goal with |- 0 < ?e =>
      replace e with ((2 * p ^ 4 + (c * (p ^ 4 + 8 * p ^ 2 * q ^ 2 + 8 * p * q ^ 3) + 6 * p ^ 3 * q + 4 * p ^ 2 * q ^ 2))
                      / (p ^ 4 * z0 ^ 2 * z1 ^ 2))
        by (rewrite hqe, hce; field; repeat split; lra) end.
    apply Rdiv_lt_0_compat; [|apply Rmult_lt_0_compat; [apply Rmult_lt_0_compat|]; apply pow_lt; lra].
    apply Rplus_lt_le_0_compat; [apply Rmult_lt_0_compat; [lra|apply pow_lt; lra]|nn].
  - match goal with |- 0 < ?e =>
      replace e with ((4 * p ^ 5 + (c * (2 * p ^ 5 + 20 * p ^ 4 * q + 16 * p ^ 3 * q ^ 2) + 4 * p ^ 4 * q))
                      / (p ^ 6 * z0 ^ 2 * z1 ^ 2))
        by (rewrite hqe, hce; field; repeat split; lra) end.
    apply Rdiv_lt_0_compat; [|apply Rmult_lt_0_compat; [apply Rmult_lt_0_compat|]; apply pow_lt; lra].
    apply Rplus_lt_le_0_compat; [apply Rmult_lt_0_compat; [lra|apply pow_lt; lra]|nn].
Qed.

Theorem pow_third_order_ok : stmt_pow_third_order.
Proof.
  intros a z ds v ha hz. apply pow_third_order_partial; auto.
  apply (proj1 (proj1 (cholesky_3x3_ok _))). apply pow_hess_spd_ok; auto.
Qed.
